(* Proofs/LineCopyProofs.v — C15: Copy is deep; dispatch hands every handler goroutine its own
   copy; handler write programs cannot change what any other handler (or a later Copy) reads. *)
From Coq Require Import Permutation.
From Verif Require Import GoBytes GoBytesFacts LineLib LineCopy.
Open Scope nat_scope.

(* ================= lists as heaps ================= *)
Lemma length_lupd {A} (l : list A) i x : length (lupd l i x) = length l.
Proof. revert i. induction l as [|y l IH]; intros [|i]; cbn; auto. Qed.
Lemma nth_lupd_eq {A} (l : list A) i x : i < length l -> nth_error (lupd l i x) i = Some x.
Proof. revert i. induction l as [|y l IH]; intros [|i] H; cbn in *; try lia; auto. apply IH. lia. Qed.
Lemma nth_lupd_ne {A} (l : list A) i j x : i <> j -> nth_error (lupd l i x) j = nth_error l j.
Proof. revert i j. induction l as [|y l IH]; intros [|i] [|j] H; cbn; auto; congruence. Qed.
Lemma nth_lt {A} (l : list A) i x : nth_error l i = Some x -> i < length l.
Proof. intros H. apply nth_error_Some. congruence. Qed.
Lemma nth_app_old {A} (l e : list A) i : i < length l -> nth_error (l ++ e) i = nth_error l i.
Proof. intros H. apply nth_error_app1. exact H. Qed.
Lemma nth_app_new {A} (l : list A) x : nth_error (l ++ [x]) (length l) = Some x.
Proof. rewrite nth_error_app2 by lia. rewrite Nat.sub_diag. reflexivity. Qed.

(* ================= tag maps ================= *)
Definition keys (m : tagmap) : list bytes := map fst m.
Lemma beq_sym a b : beq a b = beq b a.
Proof.
  destruct (beq a b) eqn:E.
  - apply beq_eq in E. subst. symmetry. apply beq_refl.
  - destruct (beq b a) eqn:E'; [|reflexivity]. apply beq_eq in E'. subst. rewrite beq_refl in E. discriminate.
Qed.
Lemma tags_get_set m k v k' : tags_get (tags_set m k v) k' = if beq k' k then Some v else tags_get m k'.
Proof.
  induction m as [|[k0 v0] m IH]; cbn; [reflexivity|].
  destruct (beq k k0) eqn:E; cbn.
  - apply beq_eq in E. subst k0. destruct (beq k' k); reflexivity.
  - destruct (beq k' k0) eqn:E'.
    + apply beq_eq in E'. subst k0. rewrite beq_sym, E. reflexivity.
    + exact IH.
Qed.
Lemma tags_get_notin m k : ~ In k (keys m) -> tags_get m k = None.
Proof.
  induction m as [|[k0 v0] m IH]; cbn; intros H; [reflexivity|].
  destruct (beq k k0) eqn:E; [apply beq_eq in E; subst; tauto|]. apply IH. tauto.
Qed.
Lemma tags_get_fold e : forall acc k, NoDup (keys e) ->
  tags_get (fold_left (fun acc kv => tags_set acc (fst kv) (snd kv)) e acc) k
  = match tags_get e k with Some v => Some v | None => tags_get acc k end.
Proof.
  induction e as [|[k1 v1] e IH]; intros acc k ND; cbn; [reflexivity|].
  inversion ND; subst. rewrite IH by assumption. cbn [fst snd]. rewrite tags_get_set.
  destruct (beq k k1) eqn:E.
  - apply beq_eq in E. subst k1. rewrite tags_get_notin by assumption. reflexivity.
  - reflexivity.
Qed.
Lemma tags_get_In m k v : NoDup (keys m) -> (tags_get m k = Some v <-> In (k, v) m).
Proof.
  induction m as [|[k0 v0] m IH]; cbn; intros ND; [split; [discriminate|tauto]|].
  inversion ND; subst. destruct (beq k k0) eqn:E.
  - apply beq_eq in E. subst k0. split.
    + intros H. inversion H; subst. left. reflexivity.
    + intros [H|H]; [inversion H; reflexivity|]. exfalso. apply H1. apply (in_map fst) in H. exact H.
  - rewrite IH by assumption. split; [tauto|]. intros [H|H]; [|exact H]. inversion H; subst.
    rewrite beq_refl in E. discriminate.
Qed.
Lemma tags_get_perm e m k : NoDup (keys m) -> Permutation e m -> tags_get e k = tags_get m k.
Proof.
  intros ND HP.
  assert (NDe : NoDup (keys e)).
  { eapply Permutation_NoDup; [|exact ND]. apply Permutation_map. apply Permutation_sym. exact HP. }
  destruct (tags_get e k) as [v|] eqn:Ee.
  - apply tags_get_In in Ee; [|exact NDe]. symmetry. apply tags_get_In; [exact ND|].
    eapply Permutation_in; eauto.
  - destruct (tags_get m k) as [v|] eqn:Em; [|reflexivity].
    apply tags_get_In in Em; [|exact ND]. apply Permutation_sym in HP.
    pose proof (Permutation_in _ HP Em) as Hin. apply tags_get_In in Hin; [|exact NDe]. congruence.
Qed.
Lemma copy_tags_lookup e m k :
  NoDup (keys m) -> Permutation e m -> tags_get (copy_tags_enum e) k = tags_get m k.
Proof.
  intros ND HP. unfold copy_tags_enum.
  assert (NDe : NoDup (keys e)).
  { eapply Permutation_NoDup; [|exact ND]. apply Permutation_map. apply Permutation_sym. exact HP. }
  rewrite tags_get_fold by exact NDe. rewrite (tags_get_perm e m k ND HP). destruct (tags_get m k); reflexivity.
Qed.

(* ================= value equality ================= *)
Definition tags_equiv (a b : option tagmap) : Prop :=
  match a, b with
  | None, None => True
  | Some x, Some y => forall k, tags_get x k = tags_get y k
  | _, _ => False
  end.
Definition lval_eq (a b : lval) : Prop :=
  v_scal a = v_scal b /\ v_args a = v_args b /\ tags_equiv (v_tags a) (v_tags b).
Lemma list_beq_refl l : list_beq l l = true.
Proof. induction l as [|x l IH]; cbn; [reflexivity|]. rewrite beq_refl, IH. reflexivity. Qed.
Lemma opt_beq_refl o : opt_beq o o = true.
Proof. destruct o; cbn; [apply beq_refl|reflexivity]. Qed.
Lemma lval_eq_eqb a b : lval_eq a b -> lval_eqb a b = true.
Proof.
  intros (H1 & H2 & H3). unfold lval_eqb. rewrite H1, H2, !list_beq_refl. cbn [andb].
  destruct (v_tags a) as [x|], (v_tags b) as [y|]; cbn in *; try tauto.
  unfold tags_eqb, tags_sub. apply andb_true_iff. split; apply forallb_forall; intros kv _.
  - rewrite H3. apply opt_beq_refl.
  - rewrite H3. apply opt_beq_refl.
Qed.
Lemma lval_eq_refl a : lval_eq a a.
Proof. repeat split. destruct (v_tags a); cbn; auto. Qed.

(* ================= reading depends only on the reachable storage ================= *)
Lemma read_frame hp hp' a l :
  get_line hp a = Ok l ->
  (forall x, In x (addrs hp a) -> nth_error hp' x = nth_error hp x) ->
  read_line hp' a = read_line hp a /\ addrs hp' a = addrs hp a.
Proof.
  intros Hl H. unfold addrs in *. rewrite Hl in H.
  assert (Ha : get_line hp' a = Ok l).
  { unfold get_line in *. rewrite H by (left; reflexivity). exact Hl. }
  unfold addrs, read_line. rewrite Ha, Hl. cbn [bind]. split; [|reflexivity].
  unfold get_args. rewrite H by (right; left; reflexivity).
  destruct (nth_error hp (lo_args_at l)) as [[| arr |]|]; cbn [bind]; try reflexivity.
  destruct (length arr <? lo_args_len l); [reflexivity|].
  destruct (lo_tags_at l) as [ta|]; cbn [read_tags]; [|reflexivity].
  unfold get_tags. rewrite H by (right; right; left; reflexivity). reflexivity.
Qed.
Lemma addrs_lt hp a v x : read_line hp a = Ok v -> In x (addrs hp a) -> x < length hp.
Proof.
  unfold read_line, addrs. destruct (get_line hp a) as [l|] eqn:Hl; [|discriminate]. cbn [bind].
  destruct (get_args hp (lo_args_at l)) as [arr|] eqn:Ha; [|discriminate]. cbn [bind].
  destruct (length arr <? lo_args_len l); [discriminate|].
  intros H Hin. unfold get_line in Hl. unfold get_args in Ha.
  destruct Hin as [<-|[<-|Hin]].
  - destruct (nth_error hp a) eqn:E; [eapply nth_lt; eauto|discriminate].
  - destruct (nth_error hp (lo_args_at l)) eqn:E; [eapply nth_lt; eauto|discriminate].
  - destruct (lo_tags_at l) as [ta|]; [|contradiction]. destruct Hin as [<-|[]].
    cbn [read_tags] in H. unfold get_tags in H.
    destruct (nth_error hp ta) eqn:E; [eapply nth_lt; eauto|discriminate].
Qed.

(* ================= Copy is deep ================= *)
Section Copy.
Variable enum : tagmap -> tagmap.
Hypothesis enum_perm : forall m, Permutation (enum m) m.

Definition keys_ok (v : lval) : Prop := match v_tags v with Some m => NoDup (keys m) | None => True end.

Lemma copy_deep hp p v0 :
  read_line hp p = Ok v0 -> keys_ok v0 ->
  exists ext a v, copy_line enum hp p = Ok (hp ++ ext, a)
    /\ read_line (hp ++ ext) a = Ok v /\ lval_eq v v0
    /\ (v_tags v0 = None -> v_tags v = None)
    /\ length (v_args v) = length (v_args v0)
    /\ (forall x, In x (addrs (hp ++ ext) a) -> length hp <= x < length (hp ++ ext)).
Proof.
  unfold read_line, copy_line. destruct (get_line hp p) as [l|] eqn:Hl; [|discriminate]. cbn [bind].
  destruct (get_args hp (lo_args_at l)) as [arr|] eqn:Ha; [|discriminate]. cbn [bind].
  destruct (length arr <? lo_args_len l) eqn:Hlen; [discriminate|].
  apply Nat.ltb_ge in Hlen.
  assert (Hfl : length (firstn (lo_args_len l) arr) = lo_args_len l) by (apply firstn_length_le; exact Hlen).
  destruct (lo_tags_at l) as [ta|] eqn:Ht; cbn [read_tags].
  - destruct (get_tags hp ta) as [m|] eqn:Hm; [|discriminate]. cbn [bind]. intros H HK.
    inversion H; subst v0. clear H. unfold keys_ok in HK. cbn [v_tags] in HK. cbn [fst snd].
    set (o1 := OArgs (firstn (lo_args_len l) arr)). set (o2 := OTags (copy_tags_enum (enum m))).
    set (nl := {| lo_scal := lo_scal l; lo_args_at := length hp; lo_args_len := lo_args_len l;
                  lo_tags_at := Some (length (hp ++ [o1])) |}).
    exists [o1; o2; OLine nl], (length ((hp ++ [o1]) ++ [o2])).
    assert (E : ((hp ++ [o1]) ++ [o2]) ++ [OLine nl] = hp ++ [o1; o2; OLine nl]) by (rewrite <- !app_assoc; reflexivity).
    assert (N0 : nth_error (hp ++ [o1; o2; OLine nl]) (length hp) = Some o1).
    { rewrite nth_error_app2 by lia. rewrite Nat.sub_diag. reflexivity. }
    assert (N1 : nth_error (hp ++ [o1; o2; OLine nl]) (length (hp ++ [o1])) = Some o2).
    { rewrite app_length. cbn [length]. rewrite nth_error_app2 by lia.
      replace (length hp + 1 - length hp) with 1 by lia. reflexivity. }
    assert (N2 : nth_error (hp ++ [o1; o2; OLine nl]) (length ((hp ++ [o1]) ++ [o2])) = Some (OLine nl)).
    { rewrite !app_length. cbn [length]. rewrite nth_error_app2 by lia.
      replace (length hp + 1 + 1 - length hp) with 2 by lia. reflexivity. }
    eexists. split; [rewrite <- E; reflexivity|].
    unfold get_line, addrs, get_line. rewrite N2. cbn [bind lo_args_at lo_tags_at lo_scal lo_args_len nl].
    unfold get_args. rewrite N0. cbn [bind o1]. rewrite Hfl, Nat.ltb_irrefl. cbn [read_tags].
    unfold get_tags. rewrite N1. cbn [bind o2].
    split; [reflexivity|]. split; [|split; [discriminate|split]].
    + unfold lval_eq. cbn. split; [reflexivity|]. split; [apply firstn_all2; lia|]. intros k. apply copy_tags_lookup; auto.
    + cbn [v_args]. rewrite firstn_firstn, Nat.min_id. reflexivity.
    + intros x [<-|[<-|[<-|[]]]]; rewrite !app_length; cbn [length]; lia.
  - intros H HK. inversion H; subst v0. clear H. cbn [bind fst snd].
    set (o1 := OArgs (firstn (lo_args_len l) arr)).
    set (nl := {| lo_scal := lo_scal l; lo_args_at := length hp; lo_args_len := lo_args_len l; lo_tags_at := None |}).
    exists [o1; OLine nl], (length (hp ++ [o1])).
    assert (E : (hp ++ [o1]) ++ [OLine nl] = hp ++ [o1; OLine nl]) by (rewrite <- !app_assoc; reflexivity).
    assert (N0 : nth_error (hp ++ [o1; OLine nl]) (length hp) = Some o1).
    { rewrite nth_error_app2 by lia. rewrite Nat.sub_diag. reflexivity. }
    assert (N2 : nth_error (hp ++ [o1; OLine nl]) (length (hp ++ [o1])) = Some (OLine nl)).
    { rewrite !app_length. cbn [length]. rewrite nth_error_app2 by lia.
      replace (length hp + 1 - length hp) with 1 by lia. reflexivity. }
    eexists. split; [rewrite <- E; reflexivity|].
    unfold get_line, addrs, get_line. rewrite N2. cbn [bind lo_args_at lo_tags_at lo_scal lo_args_len nl].
    unfold get_args. rewrite N0. cbn [bind o1]. rewrite Hfl, Nat.ltb_irrefl. cbn [read_tags bind].
    split; [reflexivity|]. split; [|split; [reflexivity|split]].
    + unfold lval_eq. cbn. split; [reflexivity|]. split; [apply firstn_all2; lia|exact I].
    + cbn [v_args]. rewrite firstn_firstn, Nat.min_id. reflexivity.
    + intros x [<-|[<-|[]]]; rewrite !app_length; cbn [length]; lia.
Qed.
End Copy.

(* ================= the shape of a well-formed line ================= *)
Definition shape (hp : lheap) (a : addr) (l : lineobj) : Prop :=
  nth_error hp a = Some (OLine l)
  /\ (exists arr, nth_error hp (lo_args_at l) = Some (OArgs arr) /\ lo_args_len l <= length arr)
  /\ match lo_tags_at l with None => True | Some ta => exists m, nth_error hp ta = Some (OTags m) end.
Lemma read_shape hp a v : read_line hp a = Ok v -> exists l, shape hp a l.
Proof.
  unfold read_line, get_line, get_args. destruct (nth_error hp a) as [[l| |]|] eqn:Hl; try discriminate. cbn [bind].
  destruct (nth_error hp (lo_args_at l)) as [[|arr|]|] eqn:Ha; try discriminate. cbn [bind].
  destruct (length arr <? lo_args_len l) eqn:Hlen; [discriminate|]. apply Nat.ltb_ge in Hlen.
  intros H. exists l. split; [exact Hl|]. split; [eauto|].
  destruct (lo_tags_at l) as [ta|]; [|exact I]. cbn [read_tags] in H. unfold get_tags in H.
  destruct (nth_error hp ta) as [[| |m]|]; try discriminate. eauto.
Qed.
Lemma shape_read hp a l : shape hp a l -> exists v, read_line hp a = Ok v.
Proof.
  intros (Hl & (arr & Ha & Hlen) & Ht). unfold read_line, get_line, get_args. rewrite Hl. cbn [bind]. rewrite Ha. cbn [bind].
  destruct (Nat.ltb_spec (length arr) (lo_args_len l)); [lia|].
  destruct (lo_tags_at l) as [ta|]; cbn [read_tags bind]; [|eexists; reflexivity]. destruct Ht as (m & Hm). unfold get_tags. rewrite Hm. cbn [bind]. eexists; reflexivity.
Qed.
Lemma shape_addrs hp a l : shape hp a l ->
  addrs hp a = a :: lo_args_at l :: match lo_tags_at l with Some t => [t] | None => [] end.
Proof. intros (Hl & _). unfold addrs, get_line. rewrite Hl. reflexivity. Qed.

Lemma apply_wop_spec hp a w hp' v :
  read_line hp a = Ok v -> apply_wop hp a w = Ok hp' ->
  length hp <= length hp'
  /\ (forall x, x < length hp -> ~ In x (addrs hp a) -> nth_error hp' x = nth_error hp x)
  /\ (exists v', read_line hp' a = Ok v')
  /\ (forall x, In x (addrs hp' a) -> In x (addrs hp a) \/ length hp <= x).
Proof.
  intros Hr Hw. destruct (read_shape _ _ _ Hr) as (l & Hs). pose proof Hs as (Hl & (arr & Ha & Hlen) & Ht).
  rewrite (shape_addrs _ _ _ Hs).
  assert (Halt : a < length hp) by (eapply nth_lt; eauto).
  assert (Hgalt : lo_args_at l < length hp) by (eapply nth_lt; eauto).
  assert (Hag : a <> lo_args_at l) by (intros E; rewrite <- E in Ha; congruence).
  unfold apply_wop, get_line in Hw. rewrite Hl in Hw. cbn [bind] in Hw.
  (* a generic way to conclude from the shape of the new heap *)
  assert (Fin : forall l', shape hp' a l' ->
            (forall x, In x (a :: lo_args_at l' :: match lo_tags_at l' with Some t => [t] | None => [] end) ->
                       In x (a :: lo_args_at l :: match lo_tags_at l with Some t => [t] | None => [] end) \/ length hp <= x) ->
            (exists v', read_line hp' a = Ok v') /\
            (forall x, In x (addrs hp' a) ->
                       In x (a :: lo_args_at l :: match lo_tags_at l with Some t => [t] | None => [] end) \/ length hp <= x)).
  { intros l' Hs' Hin. split; [eapply shape_read; eauto|]. rewrite (shape_addrs _ _ _ Hs'). exact Hin. }
  destruct w as [i v1|v1 spare|k v1|k|i v1].
  - (* Args[i] = v *)
    unfold get_args in Hw. rewrite Ha in Hw. cbn [bind] in Hw.
    destruct ((0 <=? i)%Z && (i <? Z.of_nat (lo_args_len l))%Z && (lo_args_len l <=? length arr)); [|discriminate].
    inversion Hw; subst hp'. clear Hw. rewrite length_lupd. split; [lia|]. split.
    + intros x _ Hx. apply nth_lupd_ne. intros <-. apply Hx. right. left. reflexivity.
    + apply (Fin l); [|rewrite ?Eta; tauto]. split; [rewrite nth_lupd_ne by congruence; exact Hl|]. split.
      * eexists. rewrite nth_lupd_eq by exact Hgalt. split; [reflexivity|]. rewrite length_lupd. exact Hlen.
      * destruct (lo_tags_at l) as [ta|]; [|exact I]. destruct Ht as (m & Hm). exists m.
        rewrite nth_lupd_ne; [exact Hm|]. intros E. rewrite E in Ha. congruence.
  - (* append *)
    unfold get_args in Hw. rewrite Ha in Hw. cbn [bind] in Hw.
    destruct (lo_args_len l <? length arr) eqn:Hcap.
    + apply Nat.ltb_lt in Hcap. inversion Hw; subst hp'. clear Hw. rewrite !length_lupd. split; [lia|]. split.
      * intros x _ Hx. rewrite nth_lupd_ne, nth_lupd_ne; [reflexivity| |].
        -- intros <-. apply Hx. right. left. reflexivity.
        -- intros <-. apply Hx. left. reflexivity.
      * eapply Fin.
        { split; [apply nth_lupd_eq; rewrite length_lupd; exact Halt|].
          cbn [lo_args_at lo_args_len lo_tags_at]. split.
          - eexists. rewrite nth_lupd_ne by congruence. rewrite nth_lupd_eq by exact Hgalt.
            split; [reflexivity|]. rewrite length_lupd. lia.
          - destruct (lo_tags_at l) as [ta|]; [|exact I]. destruct Ht as (m & Hm). exists m.
            rewrite nth_lupd_ne, nth_lupd_ne; [exact Hm| |]; intros E; rewrite E in *; congruence. }
        cbn [lo_args_at lo_tags_at]. tauto.
    + destruct (lo_args_len l =? length arr) eqn:Hfull; [|discriminate]. apply Nat.eqb_eq in Hfull.
      inversion Hw; subst hp'. clear Hw. rewrite app_length, length_lupd. split; [lia|]. split.
      * intros x Hx Hnx. rewrite nth_app_old by (rewrite length_lupd; exact Hx). apply nth_lupd_ne.
        intros <-. apply Hnx. left. reflexivity.
      * eapply Fin.
        -- split; [rewrite nth_app_old by (rewrite length_lupd; exact Halt); apply nth_lupd_eq; exact Halt|].
           cbn [lo_args_at lo_args_len lo_tags_at]. split.
           ++ eexists. rewrite nth_error_app2 by (rewrite length_lupd; lia). rewrite length_lupd, Nat.sub_diag.
              cbn [nth_error]. split; [reflexivity|]. rewrite !app_length. cbn [length]. lia.
           ++ destruct (lo_tags_at l) as [ta|]; [|exact I]. destruct Ht as (m & Hm). exists m.
              rewrite nth_app_old by (rewrite length_lupd; eapply nth_lt; eauto).
              rewrite nth_lupd_ne; [exact Hm|]. intros E. rewrite E in *. congruence.
        -- cbn [lo_args_at lo_tags_at]. intros x [<-|[<-|Hx]]; [left; left; reflexivity|right; lia|left; right; right; exact Hx].
  - (* Tags[k] = v *)
    destruct (lo_tags_at l) as [ta|] eqn:Eta; [|discriminate]. destruct Ht as (m & Hm).
    unfold get_tags in Hw. rewrite Hm in Hw. cbn [bind] in Hw. inversion Hw; subst hp'. clear Hw.
    assert (Htalt : ta < length hp) by (eapply nth_lt; eauto).
    rewrite length_lupd. split; [lia|]. split.
    + intros x _ Hx. apply nth_lupd_ne. intros <-. apply Hx. right. right. left. reflexivity.
    + apply (Fin l); [|rewrite ?Eta; tauto]. split; [rewrite nth_lupd_ne; [exact Hl|]; intros E; rewrite E in *; congruence|]. split.
      * exists arr. rewrite nth_lupd_ne; [auto|]. intros E. rewrite E in *. congruence.
      * rewrite Eta. eexists. apply nth_lupd_eq. exact Htalt.
  - (* delete(Tags, k) *)
    destruct (lo_tags_at l) as [ta|] eqn:Eta.
    + destruct Ht as (m & Hm). unfold get_tags in Hw. rewrite Hm in Hw. cbn [bind] in Hw. inversion Hw; subst hp'. clear Hw.
      assert (Htalt : ta < length hp) by (eapply nth_lt; eauto).
      rewrite length_lupd. split; [lia|]. split.
      * intros x _ Hx. apply nth_lupd_ne. intros <-. apply Hx. right. right. left. reflexivity.
      * apply (Fin l); [|rewrite ?Eta; tauto]. split; [rewrite nth_lupd_ne; [exact Hl|]; intros E; rewrite E in *; congruence|]. split.
        -- exists arr. rewrite nth_lupd_ne; [auto|]. intros E. rewrite E in *. congruence.
        -- rewrite Eta. eexists. apply nth_lupd_eq. exact Htalt.
    + inversion Hw; subst hp'. split; [lia|]. split; [reflexivity|]. apply (Fin l); [|rewrite ?Eta; tauto].
      split; [exact Hl|]. split; [eauto|]. rewrite Eta. exact I.
  - (* scalar field *)
    inversion Hw; subst hp'. clear Hw. rewrite length_lupd. split; [lia|]. split.
    + intros x _ Hx. apply nth_lupd_ne. intros <-. apply Hx. left. reflexivity.
    + eapply Fin.
      { split; [apply nth_lupd_eq; exact Halt|].
        cbn [lo_args_at lo_args_len lo_tags_at]. split.
        - exists arr. rewrite nth_lupd_ne by exact Hag. auto.
        - destruct (lo_tags_at l) as [ta|]; [|exact I]. destruct Ht as (m & Hm). exists m.
          rewrite nth_lupd_ne; [exact Hm|]. intros E. rewrite E in *. congruence. }
      cbn [lo_args_at lo_tags_at]. tauto.
Qed.

(* ================= dispatch: the invariant over all schedules ================= *)
Section Dispatch.
Variable enum : tagmap -> tagmap.
Hypothesis enum_perm : forall m, Permutation (enum m) m.
Variables (hp0 : lheap) (p : addr) (v0 : lval).
Hypothesis parsed_ok : read_line hp0 p = Ok v0.
Hypothesis parsed_keys : keys_ok v0.

Definition disj (l1 l2 : list addr) : Prop := forall x, In x l1 -> ~ In x l2.

Record inv (st : dstate) : Prop := {
  inv_fault : d_fault st = false;
  inv_len : length hp0 <= length (d_heap st);
  inv_prefix : forall x, x < length hp0 -> nth_error (d_heap st) x = nth_error hp0 x;   (* nobody writes the parsed line *)
  inv_own : forall i t a, nth_error (d_threads st) i = Some t -> th_line t = Some a ->
      (exists v, read_line (d_heap st) a = Ok v)
      /\ (forall x, In x (addrs (d_heap st) a) -> length hp0 <= x)
      /\ (exists v, th_entry t = Some v /\ lval_eq v v0);
  inv_unstarted : forall i t, nth_error (d_threads st) i = Some t -> th_line t = None -> th_entry t = None;
  inv_disj : forall i j ti tj ai aj, i <> j ->
      nth_error (d_threads st) i = Some ti -> nth_error (d_threads st) j = Some tj ->
      th_line ti = Some ai -> th_line tj = Some aj ->
      disj (addrs (d_heap st) ai) (addrs (d_heap st) aj)
}.

Lemma parsed_stable st : inv st -> read_line (d_heap st) p = Ok v0 /\ addrs (d_heap st) p = addrs hp0 p.
Proof.
  intros I. destruct (read_shape _ _ _ parsed_ok) as (l & Hs). pose proof Hs as (Hl & _).
  assert (Hg : get_line hp0 p = Ok l) by (unfold get_line; rewrite Hl; reflexivity).
  destruct (read_frame hp0 (d_heap st) p l Hg) as [A B].
  - intros x Hx. apply (inv_prefix _ I). eapply addrs_lt; eauto.
  - rewrite A. auto.
Qed.

Lemma nth_lupd_case {A} (l : list A) i j x y :
  nth_error (lupd l i x) j = Some y -> (i = j /\ y = x) \/ (i <> j /\ nth_error l j = Some y).
Proof.
  intros H. destruct (Nat.eq_dec i j) as [<-|Hne].
  - left. split; [reflexivity|]. rewrite nth_lupd_eq in H; [congruence|].
    pose proof (nth_lt _ _ _ H) as HL. rewrite length_lupd in HL. exact HL.
  - right. rewrite nth_lupd_ne in H by exact Hne. auto.
Qed.

(* a step of thread j touches only storage reachable from j's own line, or fresh storage *)
Lemma step_frame st j x :
  inv st -> x < length (d_heap st) ->
  (forall t a, nth_error (d_threads st) j = Some t -> th_line t = Some a -> ~ In x (addrs (d_heap st) a)) ->
  nth_error (d_heap (step enum p st j)) x = nth_error (d_heap st) x.
Proof.
  intros I Hx Hnot. unfold step. destruct (nth_error (d_threads st) j) as [t|] eqn:Ht; [|reflexivity].
  destruct (th_line t) as [a|] eqn:Ha.
  - destruct (th_prog t) as [|w rest]; [reflexivity|].
    destruct (apply_wop (d_heap st) a w) as [hp'|] eqn:Hw; [|reflexivity]. cbn [d_heap].
    destruct (inv_own _ I j t a Ht Ha) as ((v & Hv) & _).
    destruct (apply_wop_spec _ _ _ _ _ Hv Hw) as (_ & F & _). apply F; [exact Hx|]. eapply Hnot; eauto.
  - destruct (parsed_stable st I) as [Hp _].
    destruct (copy_deep enum enum_perm _ _ _ Hp parsed_keys) as (ext & a & v & Hc & Hr & _).
    rewrite Hc, Hr. cbn [d_heap]. apply nth_app_old. exact Hx.
Qed.

Lemma step_inv st j : inv st -> inv (step enum p st j).
Proof.
  intros I. pose proof (step_frame st j) as SF. unfold step in *.
  destruct (nth_error (d_threads st) j) as [t|] eqn:Ht; [|exact I].
  destruct (th_line t) as [a|] eqn:Ha.
  - (* a write of thread j *)
    destruct (th_prog t) as [|w rest] eqn:Hp; [exact I|].
    destruct (inv_own _ I j t a Ht Ha) as ((v & Hv) & Hge & Hent).
    destruct (apply_wop (d_heap st) a w) as [hp'|] eqn:Hw.
    + destruct (apply_wop_spec _ _ _ _ _ Hv Hw) as (HL & F & (v' & Hv') & Hsub). cbn [d_heap] in SF.
      assert (Hother : forall k tk ak, k <> j -> nth_error (d_threads st) k = Some tk -> th_line tk = Some ak ->
                 read_line hp' ak = read_line (d_heap st) ak /\ addrs hp' ak = addrs (d_heap st) ak).
      { intros k tk ak Hk Htk Hak. destruct (inv_own _ I k tk ak Htk Hak) as ((vk & Hvk) & _).
        destruct (read_shape _ _ _ Hvk) as (lk & (Hlk & _)).
        apply (read_frame _ _ _ lk); [unfold get_line; rewrite Hlk; reflexivity|].
        intros x Hx. apply F; [eapply addrs_lt; eauto|].
        intros Hx'. eapply (inv_disj _ I k j tk t ak a Hk Htk Ht Hak Ha); eauto. }
      split; cbn [d_fault d_heap d_threads].
      * apply (inv_fault _ I).
      * pose proof (inv_len _ I). lia.
      * intros x Hx. rewrite F; [apply (inv_prefix _ I); exact Hx|pose proof (inv_len _ I); lia|].
        intros Hin. apply Hge in Hin. lia.
      * intros k tk ak Htk Hak. apply nth_lupd_case in Htk. destruct Htk as [[<- ->]|[Hne Htk]].
        -- cbn [th_line th_entry] in *. inversion Hak; subst ak. split; [eauto|]. split; [|exact Hent].
           intros x Hx. destruct (Hsub x Hx) as [Hin|Hin]; [apply Hge; exact Hin|pose proof (inv_len _ I); lia].
        -- destruct (Hother k tk ak (not_eq_sym Hne) Htk Hak) as [A B]. rewrite A, B. apply (inv_own _ I k tk ak Htk Hak).
      * intros k tk Htk Hnone. apply nth_lupd_case in Htk. destruct Htk as [[<- ->]|[Hne Htk]]; [discriminate|].
        eapply (inv_unstarted _ I); eauto.
      * intros i1 i2 t1 t2 a1 a2 Hne H1 H2 L1 L2.
        apply nth_lupd_case in H1. apply nth_lupd_case in H2.
        destruct H1 as [[<- ->]|[N1 H1]]; destruct H2 as [[<- ->]|[N2 H2]]; try congruence.
        -- cbn [th_line] in L1. inversion L1; subst a1.
           destruct (Hother i2 t2 a2 (not_eq_sym N2) H2 L2) as [_ B]. rewrite B.
           intros x Hx Hx2. destruct (Hsub x Hx) as [Hin|Hin].
           ++ eapply (inv_disj _ I j i2 t t2 a a2); eauto.
           ++ destruct (inv_own _ I i2 t2 a2 H2 L2) as ((v2 & Hv2) & _).
              pose proof (addrs_lt _ _ _ _ Hv2 Hx2). lia.
        -- cbn [th_line] in L2. inversion L2; subst a2.
           destruct (Hother i1 t1 a1 (not_eq_sym N1) H1 L1) as [_ B]. rewrite B.
           intros x Hx1 Hx. destruct (Hsub x Hx) as [Hin|Hin].
           ++ eapply (inv_disj _ I i1 j t1 t a1 a); eauto.
           ++ destruct (inv_own _ I i1 t1 a1 H1 L1) as ((v1 & Hv1) & _).
              pose proof (addrs_lt _ _ _ _ Hv1 Hx1). lia.
        -- destruct (Hother i1 t1 a1 (not_eq_sym N1) H1 L1) as [_ B1].
           destruct (Hother i2 t2 a2 (not_eq_sym N2) H2 L2) as [_ B2]. rewrite B1, B2.
           eapply (inv_disj _ I i1 i2); eauto.
    + (* the handler panicked: only its program is dropped *)
      split; cbn [d_fault d_heap d_threads]; try apply I.
      * intros k tk ak Htk Hak. apply nth_lupd_case in Htk. destruct Htk as [[<- ->]|[Hne Htk]].
        -- cbn [th_line th_entry] in *. inversion Hak; subst ak. eauto.
        -- apply (inv_own _ I k tk ak Htk Hak).
      * intros k tk Htk Hnone. apply nth_lupd_case in Htk. destruct Htk as [[<- ->]|[Hne Htk]]; [discriminate|].
        eapply (inv_unstarted _ I); eauto.
      * intros i1 i2 t1 t2 a1 a2 Hne H1 H2 L1 L2.
        apply nth_lupd_case in H1. apply nth_lupd_case in H2.
        destruct H1 as [[<- ->]|[N1 H1]]; destruct H2 as [[<- ->]|[N2 H2]]; try congruence; cbn [th_line] in *.
        -- inversion L1; subst a1. eapply (inv_disj _ I j i2); eauto.
        -- inversion L2; subst a2. eapply (inv_disj _ I i1 j); eauto.
        -- eapply (inv_disj _ I i1 i2); eauto.
  - (* the goroutine evaluates line.Copy() and the handler reads its argument *)
    destruct (parsed_stable st I) as [Hpr _].
    destruct (copy_deep enum enum_perm _ _ _ Hpr parsed_keys) as (ext & a & v & Hc & Hr & Heq & _ & _ & Hfresh).
    rewrite Hc, Hr.
    assert (Hother : forall k tk ak, nth_error (d_threads st) k = Some tk -> th_line tk = Some ak ->
               read_line (d_heap st ++ ext) ak = read_line (d_heap st) ak
               /\ addrs (d_heap st ++ ext) ak = addrs (d_heap st) ak).
    { intros k tk ak Htk Hak. destruct (inv_own _ I k tk ak Htk Hak) as ((vk & Hvk) & _).
      destruct (read_shape _ _ _ Hvk) as (lk & (Hlk & _)).
      apply (read_frame _ _ _ lk); [unfold get_line; rewrite Hlk; reflexivity|].
      intros x Hx. apply nth_app_old. eapply addrs_lt; eauto. }
    split; cbn [d_fault d_heap d_threads].
    + apply (inv_fault _ I).
    + rewrite app_length. pose proof (inv_len _ I). lia.
    + intros x Hx. rewrite nth_app_old by (pose proof (inv_len _ I); lia). apply (inv_prefix _ I). exact Hx.
    + intros k tk ak Htk Hak. apply nth_lupd_case in Htk. destruct Htk as [[<- ->]|[Hne Htk]].
      * cbn [th_line th_entry] in *. inversion Hak; subst ak. split; [eauto|]. split; [|eauto].
        intros x Hx. apply Hfresh in Hx. pose proof (inv_len _ I). lia.
      * destruct (Hother k tk ak Htk Hak) as [A B]. rewrite A, B. apply (inv_own _ I k tk ak Htk Hak).
    + intros k tk Htk Hnone. apply nth_lupd_case in Htk. destruct Htk as [[<- ->]|[Hne Htk]]; [discriminate|].
      eapply (inv_unstarted _ I); eauto.
    + intros i1 i2 t1 t2 a1 a2 Hne H1 H2 L1 L2.
      apply nth_lupd_case in H1. apply nth_lupd_case in H2.
      destruct H1 as [[<- ->]|[N1 H1]]; destruct H2 as [[<- ->]|[N2 H2]]; try congruence; cbn [th_line] in *.
      * inversion L1; subst a1. destruct (Hother i2 t2 a2 H2 L2) as [_ B]. rewrite B.
        intros x Hx Hx2. apply Hfresh in Hx. destruct (inv_own _ I i2 t2 a2 H2 L2) as ((v2 & Hv2) & _).
        pose proof (addrs_lt _ _ _ _ Hv2 Hx2). lia.
      * inversion L2; subst a2. destruct (Hother i1 t1 a1 H1 L1) as [_ B]. rewrite B.
        intros x Hx1 Hx. apply Hfresh in Hx. destruct (inv_own _ I i1 t1 a1 H1 L1) as ((v1 & Hv1) & _).
        pose proof (addrs_lt _ _ _ _ Hv1 Hx1). lia.
      * destruct (Hother i1 t1 a1 H1 L1) as [_ B1]. destruct (Hother i2 t2 a2 H2 L2) as [_ B2].
        rewrite B1, B2. eapply (inv_disj _ I i1 i2); eauto.
Qed.

Lemma init_inv progs : inv (dinit hp0 progs).
Proof.
  split; cbn [dinit d_fault d_heap d_threads]; auto.
  - intros i t a Ht Ha. apply nth_error_In in Ht. apply in_map_iff in Ht. destruct Ht as (pr & <- & _). discriminate.
  - intros i t Ht _. apply nth_error_In in Ht. apply in_map_iff in Ht. destruct Ht as (pr & <- & _). reflexivity.
  - intros i j ti tj ai aj _ Hi _ Hai. apply nth_error_In in Hi. apply in_map_iff in Hi. destruct Hi as (pr & <- & _). discriminate.
Qed.
Lemma run_inv sched : forall st, inv st -> inv (run enum p st sched).
Proof. induction sched as [|i s IH]; intros st I; [exact I|]. cbn [run fold_left]. apply IH. apply step_inv. exact I. Qed.

Definition entries (st : dstate) : list lval :=
  flat_map (fun t => match th_entry t with Some v => [v] | None => [] end) (d_threads st).

Lemma lval_eq_sym a b : lval_eq a b -> lval_eq b a.
Proof.
  intros (A & B & C). repeat split; auto. destruct (v_tags a), (v_tags b); cbn in *; auto.
Qed.

(* every invocation's line equals the parsed event; Copy and the entry read never fail *)
Theorem equal_all progs sched :
  let st := run enum p (dinit hp0 progs) sched in
  d_fault st = false /\ C15_ok v0 (entries st) = true.
Proof.
  intros st. pose proof (run_inv sched _ (init_inv progs)) as I. fold st in I. split; [apply (inv_fault _ I)|].
  unfold C15_ok, entries. apply forallb_forall. intros v Hv. apply in_flat_map in Hv. destruct Hv as (t & Ht & Hv).
  destruct (th_entry t) as [v'|] eqn:He; [|contradiction]. destruct Hv as [<-|[]].
  apply In_nth_error in Ht. destruct Ht as (i & Ht).
  destruct (th_line t) as [a|] eqn:Ha.
  - destruct (inv_own _ I i t a Ht Ha) as (_ & _ & (v & Hv & Heq)). rewrite He in Hv. inversion Hv; subst v.
    apply lval_eq_eqb. apply lval_eq_sym. exact Heq.
  - rewrite (inv_unstarted _ I i t Ht Ha) in He. discriminate.
Qed.

(* no two invocations share mutable storage, and none shares any with the parsed line *)
Theorem separate_all progs sched :
  let st := run enum p (dinit hp0 progs) sched in
  (forall i j ti tj ai aj, i <> j ->
      nth_error (d_threads st) i = Some ti -> nth_error (d_threads st) j = Some tj ->
      th_line ti = Some ai -> th_line tj = Some aj ->
      disj (addrs (d_heap st) ai) (addrs (d_heap st) aj))
  /\ (forall i t a, nth_error (d_threads st) i = Some t -> th_line t = Some a ->
      disj (addrs (d_heap st) a) (addrs (d_heap st) p)).
Proof.
  intros st. pose proof (run_inv sched _ (init_inv progs)) as I. fold st in I. split; [apply (inv_disj _ I)|].
  intros i t a Ht Ha x Hx Hp. destruct (inv_own _ I i t a Ht Ha) as (_ & Hge & _). apply Hge in Hx.
  destruct (parsed_stable st I) as [_ B]. rewrite B in Hp. pose proof (addrs_lt _ _ _ _ parsed_ok Hp). lia.
Qed.

(* non-interference: a step of ANOTHER goroutine (a handler write or a Copy) changes neither what
   a started handler can read through its line nor the parsed line; hence whenever a goroutine
   gets to evaluate line.Copy(), it still copies the parsed event *)
Theorem noninterference progs sched j :
  let st := run enum p (dinit hp0 progs) sched in
  (forall i t a, i <> j -> nth_error (d_threads st) i = Some t -> th_line t = Some a ->
      read_line (d_heap (step enum p st j)) a = read_line (d_heap st) a)
  /\ read_line (d_heap (step enum p st j)) p = Ok v0
  /\ read_line (d_heap st) p = Ok v0.
Proof.
  intros st. pose proof (run_inv sched _ (init_inv progs)) as I. fold st in I.
  split; [|split; [apply (parsed_stable _ (step_inv st j I))|apply (parsed_stable _ I)]].
  intros i t a Hne Ht Ha. destruct (inv_own _ I i t a Ht Ha) as ((v & Hv) & _).
  destruct (read_shape _ _ _ Hv) as (l & (Hl & _)).
  apply (read_frame _ _ _ l); [unfold get_line; rewrite Hl; reflexivity|].
  intros x Hx. apply step_frame; [exact I|eapply addrs_lt; eauto|].
  intros tj aj Htj Haj Hin. eapply (inv_disj _ I i j t tj a aj); eauto.
Qed.
End Dispatch.
