(* Proofs/GenEqRegistry.v — stage 6 (a): the Gallina TRANSLATION (Gen/GoRegistry.v, translator/go2heap.go)
   of the handler registry of client/dispatch.go — handlerSet, hSet.add, hSet.remove, hNode.Remove,
   hSet.getHandlers — against the concrete pointer model Model/Registry.v (hs_add, hs_remove,
   hs_get_handlers) used by the C04 theorems.

   The generated code works on real pointer structure: a heap of hNode objects, a heap of hList
   objects, hs.set a map from event names to hList ADDRESSES.  Model/Registry.v keeps the nodes in
   a list (a *hNode is an index), and stores the hList VALUE in an association list (it inlines
   the *hList: "the map entry sees the assignments").  So the tie is a SIMULATION, not a syntactic
   equality: [sim g m] relates a generated-code state g (the instance [impl_ops] of the class) to
   a model state m — node address pn i <-> index i with equal fields, every key of hs.set points
   to an hList object holding the model's entry, distinct keys point to distinct objects — and
   each operation is shown to preserve it with equal results, Panic on one side iff None on the
   other.  The fuel of the generated for loop is the class field loop_fuel, instantiated with the
   number of allocated nodes: the model's convention for [walk].
   std++ side; Registry / GoBytes are Required, not Imported (notation clash). *)
From stdpp Require Import gmap.
From Verif Require GoRegistry.
From Verif Require GoBytes Registry RegistryProofs.

Notation rOk := GoBytes.Ok.
Notation rPanic := GoBytes.Panic.

Record nobj := { no_next : option positive; no_prev : option positive; no_set : option unit;
                 no_event : list N; no_handler : N }.
Record lobj := { lo_start : option positive; lo_end : option positive }.
Record rstate := { r_set : gmap (list N) positive; r_nodes : gmap positive nobj; r_lists : gmap positive lobj;
                   r_nn : positive; r_nl : positive }.

Definition impl_ops : GoRegistry.heap_ops := {|
  GoRegistry.HS := rstate;
  GoRegistry.hNode_obj := nobj;
  GoRegistry.hList_obj := lobj;
  GoRegistry.Handler_val := N;
  GoRegistry.hs_set := r_set;
  GoRegistry.hs_set_set := fun g m => Build_rstate m (r_nodes g) (r_lists g) (r_nn g) (r_nl g);
  GoRegistry.hs_init := Build_rstate ∅ ∅ ∅ 1 1;
  GoRegistry.hs_next_hNode := r_nn;
  GoRegistry.hs_bump_hNode := fun g => Build_rstate (r_set g) (r_nodes g) (r_lists g) (Pos.succ (r_nn g)) (r_nl g);
  GoRegistry.heap_hNode := r_nodes;
  GoRegistry.put_hNode := fun g a o => Build_rstate (r_set g) (<[a := o]> (r_nodes g)) (r_lists g) (r_nn g) (r_nl g);
  GoRegistry.hNode_get_next := no_next;
  GoRegistry.hNode_set_next := fun o v => Build_nobj v (no_prev o) (no_set o) (no_event o) (no_handler o);
  GoRegistry.hNode_get_prev := no_prev;
  GoRegistry.hNode_set_prev := fun o v => Build_nobj (no_next o) v (no_set o) (no_event o) (no_handler o);
  GoRegistry.hNode_get_set := no_set;
  GoRegistry.hNode_set_set := fun o v => Build_nobj (no_next o) (no_prev o) v (no_event o) (no_handler o);
  GoRegistry.hNode_get_event := no_event;
  GoRegistry.hNode_set_event := fun o v => Build_nobj (no_next o) (no_prev o) (no_set o) v (no_handler o);
  GoRegistry.hNode_get_handler := no_handler;
  GoRegistry.hNode_set_handler := fun o v => Build_nobj (no_next o) (no_prev o) (no_set o) (no_event o) v;
  GoRegistry.hNode_mk := Build_nobj;
  GoRegistry.hs_next_hList := r_nl;
  GoRegistry.hs_bump_hList := fun g => Build_rstate (r_set g) (r_nodes g) (r_lists g) (r_nn g) (Pos.succ (r_nl g));
  GoRegistry.heap_hList := r_lists;
  GoRegistry.put_hList := fun g a o => Build_rstate (r_set g) (r_nodes g) (<[a := o]> (r_lists g)) (r_nn g) (r_nl g);
  GoRegistry.hList_get_start := lo_start;
  GoRegistry.hList_set_start := fun o v => Build_lobj v (lo_end o);
  GoRegistry.hList_get_end := lo_end;
  GoRegistry.hList_set_end := fun o v => Build_lobj (lo_start o) v;
  GoRegistry.hList_mk := Build_lobj;
  GoRegistry.ext_strings_ToLower := GoBytes.to_lower;
  GoRegistry.loop_fuel := fun g => Nat.pred (Pos.to_nat (r_nn g))
|}.

(* ---------- the simulation relation ---------- *)
Definition pn (i : nat) : positive := Pos.of_succ_nat i.
Lemma pn_inj i j : pn i = pn j -> i = j.
Proof. apply SuccNat2Pos.inj. Qed.
Lemma pn_S i : pn (S i) = Pos.succ (pn i).
Proof. reflexivity. Qed.
Lemma pn_surj p : exists i, p = pn i.
Proof. exists (Nat.pred (Pos.to_nat p)). unfold pn. rewrite Pos.of_nat_succ. lia. Qed.

Definition conv_node (nd : Registry.node) : nobj :=
  {| no_next := option_map pn (Registry.n_next nd); no_prev := option_map pn (Registry.n_prev nd);
     no_set := if Registry.n_in nd then Some tt else None;
     no_event := Registry.n_ev nd; no_handler := Registry.n_h nd |}.
Definition conv_list (l : Registry.hlist) : lobj :=
  {| lo_start := option_map pn (Registry.l_start l); lo_end := option_map pn (Registry.l_end l) |}.

Definition nodes_rel (Nd : gmap positive nobj) (hp : Registry.heap) : Prop :=
  forall i, Nd !! pn i = option_map conv_node (nth_error hp i).
Definition set_rel (S : gmap (list N) positive) (L : gmap positive lobj) (am : Registry.amap Registry.hlist) : Prop :=
  forall ev, match S !! ev with
             | Some la => exists l, Registry.alookup am ev = Some l /\ L !! la = Some (conv_list l)
             | None => Registry.alookup am ev = None
             end.
Record sim (g : rstate) (m : Registry.hset) : Prop := {
  sim_nn : r_nn g = pn (length (Registry.hs_heap m));
  sim_nodes : nodes_rel (r_nodes g) (Registry.hs_heap m);
  sim_set : set_rel (r_set g) (r_lists g) (Registry.hs_set m);
  sim_inj : forall ev ev' la, r_set g !! ev = Some la -> r_set g !! ev' = Some la -> ev = ev';
  sim_fresh : forall ev la, r_set g !! ev = Some la -> (la < r_nl g)%positive
}.

Lemma sim_init : sim (@GoRegistry.hs_init impl_ops) Registry.handler_set.
Proof.
  split; simpl; try done.
  all: try (intros i; rewrite lookup_empty; by destruct i).
  all: try (intros ev; by rewrite lookup_empty).
Qed.

Lemma nodes_get Nd hp i : nodes_rel Nd hp ->
  match Registry.hget hp i with rOk nd => Nd !! pn i = Some (conv_node nd) | rPanic => Nd !! pn i = None end.
Proof. intros H. unfold Registry.hget. rewrite (H i). by destruct (nth_error hp i). Qed.
Lemma nodes_upd Nd hp i nd : nodes_rel Nd hp -> (i < length hp)%nat ->
  nodes_rel (<[pn i := conv_node nd]> Nd) (Registry.upd hp i nd).
Proof.
  intros H Hi j. destruct (decide (i = j)) as [<-|Hne].
  - rewrite lookup_insert. by rewrite RegistryProofs.nth_upd_eq.
  - rewrite lookup_insert_ne by (intros E; by apply pn_inj in E).
    rewrite RegistryProofs.nth_upd_ne by done. apply H.
Qed.
Lemma nodes_snoc Nd hp nd : nodes_rel Nd hp ->
  nodes_rel (<[pn (length hp) := conv_node nd]> Nd) (hp ++ [nd]).
Proof.
  intros H j. destruct (decide (length hp = j)) as [<-|Hne].
  - rewrite lookup_insert. by rewrite RegistryProofs.nth_snoc_new.
  - rewrite lookup_insert_ne by (intros E; by apply pn_inj in E). rewrite (H j).
    destruct (decide (j < length hp)%nat) as [Hlt|Hge].
    + by rewrite RegistryProofs.nth_snoc_old.
    + assert (nth_error hp j = None) as -> by (apply nth_error_None; lia).
      assert (nth_error (hp ++ [nd]) j = None) as ->; [|done].
      apply nth_error_None. rewrite app_length. simpl. lia.
Qed.
Lemma hget_lt hp i nd : Registry.hget hp i = rOk nd -> (i < length hp)%nat.
Proof. unfold Registry.hget. destruct (nth_error hp i) eqn:E; [|done]. intros _. by apply RegistryProofs.nth_some_lt in E. Qed.

Lemma bytes_beq_dec (a b : list N) : a = b \/ a <> b.
Proof. destruct (decide (a = b)); auto. Qed.

(* the set relation after writing the hList object of ONE key, and (re)inserting / deleting it *)
Lemma set_rel_insert S L am ev la l :
  (forall ev' la', S !! ev' = Some la' -> ev' <> ev -> la' <> la) ->
  set_rel S L am ->
  set_rel (<[ev := la]> S) (<[la := conv_list l]> L) (Registry.ainsert am ev l).
Proof.
  intros Hinj H ev'. destruct (decide (ev = ev')) as [<-|Hne].
  - rewrite lookup_insert. exists l. rewrite RegistryProofs.alookup_insert_eq, lookup_insert. done.
  - rewrite lookup_insert_ne by done. rewrite RegistryProofs.alookup_insert_ne by done.
    specialize (H ev'). destruct (S !! ev') as [la'|] eqn:E; [|done].
    destruct H as (l' & H1 & H2). exists l'. split; [done|].
    rewrite lookup_insert_ne; [done|]. intros E'. subst la'.
    exact (Hinj ev' la E (fun e => Hne (eq_sym e)) eq_refl).
Qed.
Lemma set_rel_delete S L L' am ev :
  (forall ev' la', S !! ev' = Some la' -> ev' <> ev -> L' !! la' = L !! la') ->
  set_rel S L am ->
  set_rel (delete ev S) L' (Registry.adelete am ev).
Proof.
  intros HL H ev'. destruct (decide (ev = ev')) as [<-|Hne].
  - rewrite lookup_delete. apply RegistryProofs.alookup_delete_eq.
  - rewrite lookup_delete_ne by done. rewrite RegistryProofs.alookup_delete_ne by done.
    specialize (H ev'). destruct (S !! ev') as [la'|] eqn:E; [|done].
    destruct H as (l' & H1 & H2). exists l'. split; [done|].
    rewrite (HL ev' la' E); [done|]. intros e. by apply Hne.
Qed.

Lemma nodes_rel_ext Nd Nd' hp : nodes_rel Nd hp -> (forall p, Nd' !! p = Nd !! p) -> nodes_rel Nd' hp.
Proof. intros H E i. rewrite E. apply H. Qed.
Ltac lk := repeat match goal with
  | |- context [<[?k := _]> _ !! ?p] =>
      destruct (decide (k = p)) as [->|?]; [rewrite ?lookup_insert | rewrite (lookup_insert_ne _ k p) by done]
  end; try done; try congruence.
Lemma pn_lt_ne i n : (i < n)%nat -> pn i <> pn n.
Proof. intros H E. apply pn_inj in E. lia. Qed.

(* ---------- hSet.add ----------
   Stated for the runs on which the model does not panic (under dll_ok it never does:
   RegistryProofs.add_ok).  The model's other outcome is not mirrored exactly: its Panic for an
   l.end index beyond the heap has no counterpart in Go (no dangling pointers), and the generated
   code would find the node it has just allocated at that address. *)
Theorem go_hSet_add_sim g m name h m' r : sim g m ->
  Registry.hs_add m name h = rOk (m', r) ->
  exists g', @GoRegistry.go_hSet_add impl_ops g name h = Some (g', Some (pn r)) /\ sim g' m'.
Proof.
  intros [Hnn Hnd Hset Hinj Hfr]. unfold Registry.hs_add, GoRegistry.go_hSet_add. simpl.
  pose proof (Hset (GoBytes.to_lower name)) as Hev.
  destruct (r_set g !! _) as [la|] eqn:Es; simpl.
  - destruct Hev as (l & Hl & HL). rewrite Hl. rewrite HL. simpl.
    rewrite lookup_insert. simpl.
    destruct (Registry.l_end l) as [e|] eqn:El; simpl; [|done].
    pose proof (nodes_get _ _ e Hnd) as Hg.
    destruct (Registry.hget (Registry.hs_heap m) e) as [en|] eqn:Ee; simpl; [|done].
    intros [= <- <-].
    pose proof (hget_lt _ _ _ Ee) as Hlt.
    rewrite Hnn. rewrite !(lookup_insert_ne _ (pn (length (Registry.hs_heap m))) (pn e)) by (apply not_eq_sym, pn_lt_ne; done).
    rewrite Hg. simpl. eexists. split; [reflexivity|].
    split; simpl.
    + by rewrite app_length, RegistryProofs.length_upd, Nat.add_1_r.
    + match goal with |- nodes_rel _ (?hp' ++ [?nd]) =>
        pose proof (nodes_snoc _ _ nd (nodes_upd _ _ e (Registry.set_next en (Some (length (Registry.hs_heap m)))) Hnd Hlt)) as Hrel end.
      rewrite RegistryProofs.length_upd in Hrel.
      pose proof (pn_lt_ne _ _ Hlt) as Hne.
      revert Hrel. match goal with |- nodes_rel ?A _ -> nodes_rel ?B _ => replace B with A; [done|] end.
      rewrite insert_insert. rewrite (insert_commute _ (pn e)) by done. reflexivity.
    + replace (<[GoBytes.to_lower name := la]> (r_set g)) with (r_set g) by (symmetry; by apply insert_id).
      intros ev'. destruct (decide (GoBytes.to_lower name = ev')) as [<-|Hne].
      * rewrite Es. eexists. rewrite RegistryProofs.alookup_insert_eq, lookup_insert. done.
      * rewrite RegistryProofs.alookup_insert_ne by done. specialize (Hset ev').
        destruct (r_set g !! ev') as [la'|] eqn:E'; [|done].
        destruct Hset as (l' & H1 & H2). exists l'. split; [done|].
        rewrite lookup_insert_ne; [done|]. intros <-. apply Hne. by eapply Hinj.
    + rewrite insert_id by done. done.
    + rewrite insert_id by done. done.
  - rewrite Hev. intros [= <- <-]. rewrite !lookup_insert. simpl. rewrite !lookup_insert. simpl.
    eexists. split; [by rewrite Hnn|].
    assert (Hfresh : forall ev' la', r_set g !! ev' = Some la' -> la' <> r_nl g).
    { intros ev' la' E ->. apply Hfr in E. lia. }
    split; simpl.
    + by rewrite app_length, Nat.add_1_r.
    + by apply (nodes_snoc _ _ (Registry.Build_node None None (GoBytes.to_lower name) h true)).
    + rewrite !insert_insert.
      apply (set_rel_insert _ _ _ _ _ (Registry.Build_hlist (Some (length (Registry.hs_heap m))) (Some (length (Registry.hs_heap m))))); [|done].
      intros ev' la' E _. by eapply Hfresh.
    + intros ev ev' la. destruct (decide (GoBytes.to_lower name = ev)) as [<-|H1], (decide (GoBytes.to_lower name = ev')) as [<-|H2];
        rewrite ?lookup_insert, ?lookup_insert_ne by done; try done.
      * intros [= <-] E. by apply Hfresh in E.
      * intros E [= <-]. by apply Hfresh in E.
      * apply Hinj.
    + intros ev la. destruct (decide (GoBytes.to_lower name = ev)) as [<-|H1];
        rewrite ?lookup_insert, ?lookup_insert_ne by done.
      * intros [= <-]. lia.
      * intros E. apply Hfr in E. lia.
Qed.

(* ---------- hSet.getHandlers ---------- *)
Definition fptr (i : nat) : option positive := Some (pn i).
Section Walk.
  Variable g : rstate.
  Variable hp : Registry.heap.
  Hypothesis Hnd : nodes_rel (r_nodes g) hp.
  Notation C := (fun acc_ : list (option positive) * option positive =>
                   let '(handlers, hn) := acc_ in Some (negb (bool_decide (hn = None)))).
  Notation B := (fun acc_ : list (option positive) * option positive =>
                   let '(handlers, hn) := acc_ in
                   let handlers0 := handlers ++ [hn] in
                   hn ≫= (fun a4 => r_nodes g !! a4 ≫= (fun o5 => let hn0 := no_next o5 in Some (handlers0, hn0)))).
  Lemma loop_walk : forall fuel cur acc,
    GoRegistry.go_loop fuel C B (map fptr (rev acc), option_map pn cur)
    = match Registry.walk hp fuel cur acc with
      | rOk l => Some (map fptr l, None)
      | rPanic => None
      end.
  Proof.
    intros fuel. induction fuel as [|f IH]; intros cur acc; destruct cur as [x|]; simpl; try done.
    pose proof (nodes_get _ _ x Hnd) as Hg.
    destruct (Registry.hget hp x) as [nd|]; simpl; rewrite Hg; simpl; [|done].
    specialize (IH (Registry.n_next nd) (x :: acc)). simpl in IH. rewrite map_app in IH. simpl in IH.
    exact IH.
  Qed.
End Walk.

Theorem go_hSet_getHandlers_sim g m ev : sim g m ->
  @GoRegistry.go_hSet_getHandlers impl_ops g ev
  = match Registry.hs_get_handlers m ev with
    | rOk l => Some (map fptr l)
    | rPanic => None
    end.
Proof.
  intros [Hnn Hnd Hset Hinj Hfr]. unfold Registry.hs_get_handlers, GoRegistry.go_hSet_getHandlers. simpl.
  pose proof (Hset ev) as Hev.
  destruct (r_set g !! _) as [la|] eqn:Es; simpl.
  - destruct Hev as (l & Hl & HL). rewrite Hl, HL. simpl.
    rewrite Hnn. unfold pn at 1. rewrite SuccNat2Pos.id_succ. simpl.
    pose proof (loop_walk g _ Hnd (length (Registry.hs_heap m)) (Registry.l_start l) []) as Hw.
    simpl in Hw. rewrite Hw. by destruct (Registry.walk _ _ _ _).
  - by rewrite Hev.
Qed.

(* ---------- hNode.Remove = hn.set.remove(hn), hSet.remove ---------- *)
Lemma conv_set_next nd v : conv_node (Registry.set_next nd v)
  = Build_nobj (option_map pn v) (no_prev (conv_node nd)) (no_set (conv_node nd)) (no_event (conv_node nd)) (no_handler (conv_node nd)).
Proof. reflexivity. Qed.
Lemma conv_set_prev nd v : conv_node (Registry.set_prev nd v)
  = Build_nobj (no_next (conv_node nd)) (option_map pn v) (no_set (conv_node nd)) (no_event (conv_node nd)) (no_handler (conv_node nd)).
Proof. reflexivity. Qed.

(* one node read at the head of both sides; the map in the goal may have been rewritten by simpl
   into a convertible form: it is changed back to the one the relation speaks of *)
Ltac rd Hrel x :=
  match type of Hrel with nodes_rel ?Nd ?HP =>
    let Hg := fresh "Hg" in let nd := fresh "nd" in let E := fresh "E" in
    pose proof (nodes_get Nd HP x Hrel) as Hg;
    destruct (Registry.hget HP x) as [nd|] eqn:E; cbn [GoBytes.bind fst snd];
    repeat match goal with |- context [?M !! pn x] => progress change (M !! pn x) with (Nd !! pn x) end;
    rewrite ?Hg; cbn [mbind option_bind option_ret]; [|try done]
  end.
(* after a node write: the relation for the map as it stands in the goal *)
Ltac wr Hrel0 k nd' Hlt H :=
  match type of Hrel0 with nodes_rel ?N0 ?HP0 =>
    match goal with |- context [<[pn k := ?v]> ?N'] =>
      assert (H : nodes_rel (<[pn k := v]> N') (Registry.upd HP0 k nd')) by exact (nodes_upd N0 HP0 k nd' Hrel0 Hlt)
    end
  end.

(* writing next / prev of some node does not change the event of any node *)
Lemma ev_step hp k nd nd' r x y :
  Registry.hget hp k = rOk nd ->
  Registry.hget hp r = rOk x -> Registry.hget (Registry.upd hp k nd') r = rOk y ->
  Registry.n_ev nd' = Registry.n_ev nd ->
  Registry.n_ev y = Registry.n_ev x.
Proof.
  intros Hk Hx Hy He. pose proof (hget_lt _ _ _ Hk) as Hlt. unfold Registry.hget in *.
  destruct (decide (k = r)) as [->|Hne].
  - rewrite RegistryProofs.nth_upd_eq in Hy by done. destruct (nth_error hp r); congruence.
  - rewrite RegistryProofs.nth_upd_ne in Hy by done. destruct (nth_error hp r); congruence.
Qed.

Definition both_some (l : Registry.hlist) : bool :=
  match Registry.l_start l, Registry.l_end l with Some _, Some _ => true | _, _ => false end.
Lemma remove_finish g m N2 hp2 L2 la l2 ev r nd2 Nf S' am' :
  sim g m -> r_set g !! ev = Some la ->
  nodes_rel N2 hp2 -> length hp2 = length (Registry.hs_heap m) -> (r < length hp2)%nat ->
  Nf = <[pn r := conv_node (Registry.detach nd2)]> N2 ->
  (forall la', la' <> la -> L2 !! la' = r_lists g !! la') -> L2 !! la = Some (conv_list l2) ->
  S' = (if both_some l2 then r_set g else delete ev (r_set g)) ->
  am' = match Registry.l_start l2 with
        | Some _ => match Registry.l_end l2 with
                    | Some _ => Registry.ainsert (Registry.hs_set m) ev l2
                    | None => Registry.adelete (Registry.hs_set m) ev
                    end
        | None => Registry.adelete (Registry.hs_set m) ev
        end ->
  sim {| r_set := S'; r_nodes := Nf; r_lists := L2; r_nn := r_nn g; r_nl := r_nl g |}
      {| Registry.hs_set := am'; Registry.hs_heap := Registry.upd hp2 r (Registry.detach nd2) |}.
Proof.
  intros [Hnn Hnd Hset Hinj Hfr] Es Hrel Hlen Hr -> HL' HLa -> ->.
  assert (Hother : forall ev' la', r_set g !! ev' = Some la' -> ev' <> ev -> la' <> la).
  { intros ev' la' E Hne ->. apply Hne. by eapply Hinj. }
  split; simpl.
  - by rewrite RegistryProofs.length_upd, Hlen.
  - by apply nodes_upd.
  - assert (Hdel : set_rel (delete ev (r_set g)) L2 (Registry.adelete (Registry.hs_set m) ev)).
    { eapply set_rel_delete; [|exact Hset]. intros ev' la' E Hne. apply HL'. by eapply Hother. }
    unfold both_some. destruct (Registry.l_start l2) eqn:E1; [|done]. destruct (Registry.l_end l2) eqn:E2; [|done].
    intros ev'. destruct (decide (ev = ev')) as [<-|Hne].
    + rewrite Es. exists l2. by rewrite RegistryProofs.alookup_insert_eq.
    + rewrite RegistryProofs.alookup_insert_ne by done. specialize (Hset ev').
      destruct (r_set g !! ev') as [la'|] eqn:E'; [|done].
      destruct Hset as (l' & H1 & H2). exists l'. split; [done|]. rewrite HL'; [done|].
      eapply Hother; [exact E'|]. intros e. by apply Hne.
  - intros e1 e2 la'. destruct (both_some l2); [apply Hinj|].
    intros H1 H2. apply lookup_delete_Some in H1 as [_ H1]. apply lookup_delete_Some in H2 as [_ H2]. by eapply Hinj.
  - intros e1 la'. destruct (both_some l2); [apply Hfr|]. intros H1. apply lookup_delete_Some in H1 as [_ H1]. by eapply Hfr.
Qed.

(* a node read again from the same map *)
Ltac rr Hg :=
  match type of Hg with ?Nd !! ?k = _ =>
    repeat match goal with |- context [?M !! k] => progress change (M !! k) with (Nd !! k) end;
    rewrite ?Hg; cbn [mbind option_bind option_ret]
  end.

(* the end of remove: the three field writes of hn, the test on l, the deletion *)
Ltac fin Hsim Es Hrel2 Hr l2 Hev :=
  let E1 := fresh "Es1" in let E2 := fresh "Es2" in
  simpl;
  let s1 := eval simpl in (Registry.l_start l2) in
  let s2 := eval simpl in (Registry.l_end l2) in
  destruct s1 eqn:E1; simpl; [destruct s2 eqn:E2; simpl|];
  rewrite ?lookup_insert; simpl;
  (eexists; split; [reflexivity|];
   eapply (remove_finish _ _ _ _ _ _ l2 _ _ _ _ _ _ Hsim Es Hrel2);
   [ rewrite ?RegistryProofs.length_upd; reflexivity
   | rewrite ?RegistryProofs.length_upd; exact Hr
   | rewrite ?insert_insert; reflexivity
   | intros la' Hne'; rewrite ?lookup_insert_ne by done; reflexivity
   | first [ eassumption | rewrite ?lookup_insert; unfold conv_list; simpl; try rewrite E1; try rewrite E2; reflexivity ]
   | unfold both_some; simpl; try rewrite E1; simpl; try rewrite E2; rewrite ?Hev; reflexivity
   | simpl; try rewrite E1; simpl; try rewrite E2; reflexivity ]).

Theorem go_hNode_Remove_sim g m r : sim g m ->
  match Registry.hs_remove m r with
  | rOk m' => exists g', @GoRegistry.go_hNode_Remove impl_ops g (Some (pn r)) = Some g' /\ sim g' m'
  | rPanic => @GoRegistry.go_hNode_Remove impl_ops g (Some (pn r)) = None
  end.
Proof.
  intros Hsim. pose proof Hsim as [Hnn Hnd Hset Hinj Hfr].
  unfold Registry.hs_remove, GoRegistry.go_hNode_Remove, GoRegistry.go_hSet_remove. simpl.
  pose proof (nodes_get _ _ r Hnd) as Hg.
  destruct (Registry.hget (Registry.hs_heap m) r) as [hn|] eqn:Er; simpl; rewrite Hg; simpl; [|done].
  destruct (Registry.n_in hn) eqn:Ein; simpl; [|done].
  pose proof (Hset (Registry.n_ev hn)) as Hev.
  destruct (r_set g !! _) as [la|] eqn:Es; simpl.
  2:{ rewrite Hev. exists g. split; [done|]. by split. }
  destruct Hev as (l & Hl & HL). rewrite Hl.
  pose proof (hget_lt _ _ _ Er) as Hr.
  destruct (Registry.n_next hn) as [nx|] eqn:Enx; simpl.
  - rd Hnd nx.
    wr Hnd nx (Registry.set_prev nd (Registry.n_prev hn)) (hget_lt _ _ _ E) Hrel1.
    rd Hrel1 r.
    destruct (Registry.n_prev nd0) as [pv|] eqn:Epv; simpl; rewrite ?Epv; simpl.
    + rd Hrel1 pv.
      wr Hrel1 pv (Registry.set_next nd1 (Registry.n_next nd0)) (hget_lt _ _ _ E1) Hrel2.
      rd Hrel2 r.
      rewrite !lookup_insert. cbn [mbind option_bind]. rewrite !lookup_insert. cbn [mbind option_bind].
      rewrite HL. cbn [mbind option_bind].
      assert (Hev : Registry.n_ev nd2 = Registry.n_ev hn).
      { transitivity (Registry.n_ev nd0); [exact (ev_step _ _ _ _ _ _ _ E1 E0 E2 eq_refl)|exact (ev_step _ _ _ _ _ _ _ E Er E0 eq_refl)]. }
      fin Hsim Es Hrel2 Hr l Hev.
    + cbn [fst snd GoBytes.bind].
      rr Hg1. rewrite HL. cbn [mbind option_bind]. rr Hg1.
      rewrite E0. cbn [GoBytes.bind].
      rewrite !lookup_insert. cbn [mbind option_bind]. rewrite !lookup_insert. cbn [mbind option_bind].
      pose proof (ev_step _ _ _ _ _ _ _ E Er E0 eq_refl) as Hev.
      fin Hsim Es Hrel1 Hr (Registry.Build_hlist (Registry.n_next nd0) (Registry.l_end l)) Hev.
  - cbn [GoBytes.bind fst snd]. rewrite Er. cbn [GoBytes.bind].
    rr Hg. rewrite HL. cbn [mbind option_bind]. rr Hg.
    destruct (Registry.n_prev hn) as [pv|] eqn:Epv; simpl; rewrite ?Epv, ?Enx; simpl.
    + rr Hg. rd Hnd pv.
      wr Hnd pv (Registry.set_next nd (@None Registry.nid)) (hget_lt _ _ _ E) Hrel2.
      rd Hrel2 r.
      rewrite !lookup_insert. cbn [mbind option_bind]. rewrite !lookup_insert. cbn [mbind option_bind].
      pose proof (ev_step _ _ _ _ _ _ _ E Er E0 eq_refl) as Hev.
      fin Hsim Es Hrel2 Hr (Registry.Build_hlist (Registry.l_start l) (Some pv)) Hev.
    + rr Hg. rewrite ?lookup_insert. cbn [mbind option_bind]. rr Hg.
      rewrite Er. cbn [GoBytes.bind].
      rewrite !lookup_insert. cbn [mbind option_bind]. rewrite !lookup_insert. cbn [mbind option_bind].
      fin Hsim Es Hnd Hr (Registry.Build_hlist (@None Registry.nid) (@None Registry.nid)) (@eq_refl _ (Registry.n_ev hn)).
Qed.
