(* Proofs/GenEqClient.v — the Gallina TRANSLATION (Gen/GoFuncs.v) of client/handlers.go h_CTCP
   is equal to the composed client model's c_CTCP (Model/Client.v): same lines when the model
   finishes, Panic exactly when the model panics.  Client.v is on the std++ side: Required,
   not Imported. *)
From Verif Require Import GoBytes LineLib GoBytesFacts Line Split Commands NickHandlers.
From Verif Require Import GoFuncs GenEqTac GenEqCmd.
From Verif Require Client.
Open Scope Z_scope.

Definition of_cres (r : Client.cres) : res (list bytes) :=
  match r with Client.CDone _ out => Ok out | Client.CPanic _ _ => Panic end.

Lemma go_h_CTCP_eq s l :
  go_client_Conn_h_CTCP (Client.k_split_len (Client.c_cfg s)) (Client.k_version (Client.c_cfg s))
                        (l_args l) (l_nick l)
  = of_cres (Client.c_CTCP s l).
Proof.
  go_unfold go_client_Conn_h_CTCP. unfold Client.c_CTCP, Client.ctcp_reply, argslen. cbv zeta.
  destruct (elem_at (l_args l) 0) as [a0|]; [|reflexivity]. cbn [bind].
  change [86; 69; 82; 83; 73; 79; 78]%N with s_VERSION. change [80; 73; 78; 71]%N with s_PING.
  destruct (beq a0 s_VERSION).
  - rewrite (go_CtcpReply_eq (Client.cmd_cfg_of (Client.c_cfg s))).
    destruct (emit _ _ _ _); reflexivity.
  - go_unfold go_client_Line_argslen.
    destruct (beq a0 s_PING); cbn [bind andb]; [|reflexivity].
    destruct (llen (l_args l) <=? 2); cbn [bind negb]; [reflexivity|].
    destruct (elem_at (l_args l) 2) as [a2|]; [|reflexivity]. cbn [bind].
    rewrite (go_CtcpReply_eq (Client.cmd_cfg_of (Client.c_cfg s))).
    destruct (emit _ _ _ _); reflexivity.
Qed.
