(* Proofs/DispatchProofsB.v — the C03 and C05 monitors accept the history of every run:
   the monitor's scan state is related, program point by program point, to the LTS state. *)
From Coq Require Import List Arith Bool Lia.
From Verif Require Import Lts DispatchLts DispatchProofsA.
Import ListNotations.
Local Open Scope nat_scope.

Lemma fold_opt_snoc {S E} (f : S -> E -> option S) h e o :
  fold_opt f (h ++ [e]) o = match fold_opt f h o with Some m => f m e | None => None end.
Proof. unfold fold_opt. rewrite fold_left_app. reflexivity. Qed.

Lemma C03_scan_snoc sess h e m :
  C03_scan sess h = Some m -> C03_scan sess (h ++ [e]) = scan3 sess m e.
Proof. unfold C03_scan. intros H. rewrite fold_opt_snoc, H. reflexivity. Qed.

Lemma C05_ok_snoc h e : C05_ok (h ++ [e]) = C05_ok h && chk5 e.
Proof. unfold C05_ok. rewrite forallb_app. simpl. now rewrite andb_true_r. Qed.

Record R3 (m : m3) (s : st) : Prop := {
  R_open : m_open m = nopen (g_fg s);
  R_copen : m_copen m = nopen (g_conn s);
  R_last : forall c, m_last m = Some c -> c <= lob s /\ (c = lob s -> lpc s = LFg c);
  R_lastopen : 0 < nopen (g_fg s) -> m_last m = Some (lob s);
  R_clast : forall c, m_clast m = Some c -> c <= lob s /\ (c = lob s -> lpc s = LInt c \/ lpc s = LFg c);
  R_clastopen : 0 < nopen (g_conn s) -> m_clast m = Some (lob s);
  R_disc : m_disc m = true -> lpc s = LDone }.

Section B.
  Variable sess : session.

  Definition InvB (s : st) : Prop :=
    (exists m, C03_scan sess (hist s) = Some m /\ R3 m s) /\ C05_ok (hist s) = true.

  Ltac inv H := inversion H; subst; clear H.

  Lemma InvB_init : InvB init.
  Proof.
    split; [|reflexivity]. exists m3_init. split; [reflexivity|].
    constructor; simpl; auto; try discriminate; try lia; unfold nopen; simpl; lia.
  Qed.

  Lemma may_start_ok last open k :
    (forall c, last = Some c -> c <= k) ->
    (0 < open -> last = Some k) ->
    may_start last open k = true.
  Proof.
    intros H1 H2. unfold may_start. destruct last as [c|]; [|reflexivity].
    specialize (H1 c eq_refl). destruct (Nat.eq_dec c k) as [->|Hne].
    - rewrite Nat.eqb_refl. apply orb_true_r.
    - assert (Ho : open = 0).
      { destruct open; [reflexivity|]. assert (Hx : Some c = Some k) by (apply H2; lia). congruence. }
      subst. assert (Hlt : Nat.ltb c k = true) by (apply Nat.ltb_lt; lia). rewrite Hlt. reflexivity.
  Qed.

  Lemma is_cur_ok last open k : last = Some k -> 0 < open -> is_cur last open k = true.
  Proof.
    intros -> H. unfold is_cur. rewrite Nat.eqb_refl. simpl. apply Nat.ltb_lt. exact H.
  Qed.

  Lemma InvB_handler s g i a s' :
    InvA sess s -> InvB s -> step_handler sess s g i a = Some s' -> InvB s'.
  Proof.
    intros HA [(m & Hsc & HR) H5] Hs.
    destruct HA as [Hpipe Hrpos Happ Hint Hfg Hconn Hnest Hnestw Hdisc Hcan Hbg].
    destruct HR as [Ro Rco Rl Rlo Rcl Rclo Rd].
    destruct g as [| | | |key]; simpl in Hs.
    - (* GInt: no monitored event *)
      destruct (lpc s) as [|k|k|] eqn:El; try discriminate.
      destruct (nth_error (g_int s) i) as [pc|] eqn:En; [|destruct a; discriminate].
      assert (Hlob : forall x, lpc x = lpc s -> applied x = applied s -> lob x = lob s).
      { intros x H1 H2. unfold lob. now rewrite H1, H2. }
      destruct pc, a; simpl in Hs; try discriminate;
        try (inv Hs; split;
             [exists m; split;
               [simpl; erewrite C03_scan_snoc by eauto; reflexivity
               |constructor; simpl; unfold lob in *; simpl; rewrite ?El in *; auto]
             |simpl; rewrite C05_ok_snoc, H5; reflexivity]).
      + (* HNest: g_conn is respawned; it was quiescent *)
        inv Hs.
        assert (Hq : all_done (g_conn s) = true).
        { destruct Hnest as [H|(i0 & p0 & H)]; [exact H|].
          destruct (Hnestw i0 p0 (or_intror H)) as [-> _].
          destruct (Hnestw i p (or_introl En)) as [-> _]. congruence. }
        split; [|exact H5]. exists m. split; [exact Hsc|].
        constructor; simpl; unfold lob in *; simpl; rewrite ?El in *; auto.
        * rewrite nopen_repeat. rewrite Rco. now apply nopen_done.
        * rewrite nopen_repeat. lia.
      + (* HNestW *)
        destruct (all_done (g_conn s)); inv Hs.
        split; [|exact H5]. exists m. split; [exact Hsc|].
        constructor; simpl; unfold lob in *; simpl; rewrite ?El in *; auto.
      + (* wg.Done *)
        inv Hs. split; [|exact H5]. exists m. split; [exact Hsc|].
        constructor; simpl; unfold lob in *; simpl; rewrite ?El in *; auto.
    - (* GFg *)
      destruct (lpc s) as [|k|k|] eqn:El; try discriminate.
      apply plain_inv in Hs as (pc & pc' & o & Hn & Hsp & ->).
      pose proof (nopen_hupd _ _ _ pc' Hn) as Hno.
      assert (Hc0 : nopen (g_conn s) = 0) by (apply nopen_done; exact Hconn).
      unfold lob in *; rewrite El in *.
      destruct Hsp; simpl in Hno.
      + (* Enter *)
        split; [|simpl; rewrite C05_ok_snoc, H5; simpl; rewrite Happ; now rewrite Nat.eqb_refl].
        eexists. split.
        * simpl. erewrite C03_scan_snoc by eauto. simpl.
          assert (Hd : m_disc m = false).
          { destruct (m_disc m) eqn:E; [|reflexivity]. specialize (Rd eq_refl). discriminate. }
          rewrite Hd, Rco, Hc0. simpl.
          rewrite may_start_ok; [|intros c Hc; apply (Rl c Hc)|rewrite Ro; exact Rlo].
          assert (Hcl : match m_clast m with Some kc => Nat.leb kc k | None => true end = true).
          { destruct (m_clast m) as [kc|] eqn:E; [|reflexivity]. apply Nat.leb_le. apply (Rcl kc eq_refl). }
          rewrite Hcl. simpl. reflexivity.
        * constructor; simpl; unfold lob; simpl; rewrite ?El; auto; try lia.
          -- intros c Hc; inv Hc. split; auto.
      + (* Exit *)
        assert (Hpos : 0 < nopen (g_fg s)) by lia.
        split; [|simpl; rewrite C05_ok_snoc, H5; simpl; rewrite Happ; now rewrite Nat.eqb_refl].
        eexists. split.
        * simpl. erewrite C03_scan_snoc by eauto. simpl.
          rewrite is_cur_ok; [reflexivity|now apply Rlo|now rewrite Ro].
        * constructor; simpl; unfold lob; simpl; rewrite ?El; auto; try lia.
      + (* Panic *)
        assert (Hpos : 0 < nopen (g_fg s)) by (eapply nopen_pos; eauto).
        split; [|simpl; rewrite C05_ok_snoc, H5; reflexivity].
        eexists. split.
        * simpl. erewrite C03_scan_snoc by eauto. simpl.
          rewrite is_cur_ok; [reflexivity|now apply Rlo|now rewrite Ro].
        * constructor; simpl; unfold lob; simpl; rewrite ?El; auto; try lia.
      + (* Recovered *)
        assert (Hpos : 0 < nopen (g_fg s)) by lia.
        split; [|simpl; rewrite C05_ok_snoc, H5; reflexivity].
        eexists. split.
        * simpl. erewrite C03_scan_snoc by eauto. simpl.
          rewrite is_cur_ok; [reflexivity|now apply Rlo|now rewrite Ro].
        * constructor; simpl; unfold lob; simpl; rewrite ?El; auto; try lia.
      + (* wg.Done *)
        split; [|exact H5]. exists m. split; [exact Hsc|].
        constructor; simpl; unfold lob; simpl; rewrite ?El; auto; try lia.
        intros H. apply Rlo. lia.
    - (* GConnFg *)
      destruct (lpc s) as [|k|k|] eqn:El; try discriminate.
      apply plain_inv in Hs as (pc & pc' & o & Hn & Hsp & ->).
      pose proof (nopen_hupd _ _ _ pc' Hn) as Hno.
      assert (Hf0 : nopen (g_fg s) = 0) by (apply nopen_done; exact Hfg).
      assert (Hw : welcome (line_of sess k) = true).
      { destruct Hnest as [H|(i0 & p0 & H)].
        - exfalso. eapply hspec_not_done; [exact Hsp|]. eapply all_done_nth; eauto.
        - destruct (Hnestw i0 p0 (or_intror H)) as (_ & k0 & Hk & Hw). inv Hk. exact Hw. }
      assert (Hlen : k < length (lines sess)).
      { unfold lob' in Hpipe. rewrite El in Hpipe. apply chain_le in Hpipe. lia. }
      unfold lob in *; rewrite El in *.
      destruct Hsp; simpl in Hno.
      + (* Enter *)
        split; [|simpl; rewrite C05_ok_snoc, H5; reflexivity].
        eexists. split.
        * simpl. erewrite C03_scan_snoc by eauto. simpl.
          assert (Hd : m_disc m = false).
          { destruct (m_disc m) eqn:E; [|reflexivity]. specialize (Rd eq_refl). discriminate. }
          rewrite Hd, Ro, Hf0, Hw. simpl.
          assert (Hl : Nat.ltb k (length (lines sess)) = true) by (now apply Nat.ltb_lt).
          rewrite Hl. simpl.
          assert (Hla : match m_last m with Some c => Nat.ltb c k | None => true end = true).
          { destruct (m_last m) as [c|] eqn:E; [|reflexivity]. apply Nat.ltb_lt.
            destruct (Rl c eq_refl) as [H1 H2]. destruct (Nat.eq_dec c k) as [->|Hne]; [|lia].
            specialize (H2 eq_refl). discriminate. }
          rewrite Hla. simpl.
          rewrite may_start_ok; [|intros c Hc; apply (Rcl c Hc)|rewrite Rco; exact Rclo].
          reflexivity.
        * constructor; simpl; unfold lob; simpl; rewrite ?El; auto; try lia.
          intros c Hc; inv Hc. split; auto.
      + (* Exit *)
        assert (Hpos : 0 < nopen (g_conn s)) by lia.
        split; [|simpl; rewrite C05_ok_snoc, H5; reflexivity].
        eexists. split.
        * simpl. erewrite C03_scan_snoc by eauto. simpl.
          rewrite is_cur_ok; [reflexivity|now apply Rclo|now rewrite Rco].
        * constructor; simpl; unfold lob; simpl; rewrite ?El; auto; try lia.
      + (* Panic *)
        assert (Hpos : 0 < nopen (g_conn s)) by (eapply nopen_pos; eauto).
        split; [|simpl; rewrite C05_ok_snoc, H5; reflexivity].
        eexists. split.
        * simpl. erewrite C03_scan_snoc by eauto. simpl.
          rewrite is_cur_ok; [reflexivity|now apply Rclo|now rewrite Rco].
        * constructor; simpl; unfold lob; simpl; rewrite ?El; auto; try lia.
      + (* Recovered *)
        assert (Hpos : 0 < nopen (g_conn s)) by lia.
        split; [|simpl; rewrite C05_ok_snoc, H5; reflexivity].
        eexists. split.
        * simpl. erewrite C03_scan_snoc by eauto. simpl.
          rewrite is_cur_ok; [reflexivity|now apply Rclo|now rewrite Rco].
        * constructor; simpl; unfold lob; simpl; rewrite ?El; auto; try lia.
      + (* wg.Done *)
        split; [|exact H5]. exists m. split; [exact Hsc|].
        constructor; simpl; unfold lob; simpl; rewrite ?El; auto; try lia.
        intros H. apply Rclo. lia.
    - (* GDiscFg *)
      apply plain_inv in Hs as (pc & pc' & o & Hn & Hsp & ->).
      assert (Hld : lpc s = LDone).
      { destruct (cpc s); try (exfalso; eapply hspec_not_done; [exact Hsp|]; eapply all_done_nth; eauto; fail).
        - exact Hdisc.
        - destruct Hdisc as [_ Hd]. exfalso; eapply hspec_not_done; [exact Hsp|]; eapply all_done_nth; eauto. }
      rewrite Hld in *.
      assert (Hf0 : nopen (g_fg s) = 0) by (apply nopen_done; exact Hfg).
      assert (Hc0 : nopen (g_conn s) = 0) by (apply nopen_done; exact Hconn).
      destruct Hsp.
      + split; [|simpl; rewrite C05_ok_snoc, H5; reflexivity].
        eexists. split.
        * simpl. erewrite C03_scan_snoc by eauto. simpl.
          rewrite Ro, Rco, Hf0, Hc0. simpl. reflexivity.
        * constructor; simpl; unfold lob in *; simpl; rewrite ?Hld in *; auto.
      + split; [|simpl; rewrite C05_ok_snoc, H5; reflexivity].
        exists m. split; [simpl; erewrite C03_scan_snoc by eauto; reflexivity|].
        constructor; simpl; unfold lob in *; simpl; rewrite ?Hld in *; auto.
      + split; [|simpl; rewrite C05_ok_snoc, H5; reflexivity].
        exists m. split; [simpl; erewrite C03_scan_snoc by eauto; reflexivity|].
        constructor; simpl; unfold lob in *; simpl; rewrite ?Hld in *; auto.
      + split; [|simpl; rewrite C05_ok_snoc, H5; reflexivity].
        exists m. split; [simpl; erewrite C03_scan_snoc by eauto; reflexivity|].
        constructor; simpl; unfold lob in *; simpl; rewrite ?Hld in *; auto.
      + split; [|exact H5]. exists m. split; [exact Hsc|].
        constructor; simpl; unfold lob in *; simpl; rewrite ?Hld in *; auto.
    - (* GBg *)
      destruct (bg_find key (bgs s)) as [[g|]|] eqn:Ef; try discriminate.
      apply plain_inv in Hs as (pc & pc' & o & Hn & Hsp & ->).
      assert (H5' : forall (a0 i0 : nat), chk5 (EvEnter (fst (bg_kind key)) (snd (bg_kind key)) i0 (applied s)) = true
                              /\ chk5 (EvExit (fst (bg_kind key)) (snd (bg_kind key)) i0 (applied s)) = true).
      { intros _ i0. destruct key as [k| |]; cbn [chk5 bg_kind fst snd]; auto.
        apply bg_find_In in Ef. apply Hbg in Ef. split; apply Nat.leb_le; lia. }
      assert (HR : R3 m s) by (constructor; auto).
      destruct Hsp; (split;
        [exists m; split;
          [simpl; try (erewrite C03_scan_snoc by eauto); try exact Hsc; destruct key; reflexivity
          |constructor; simpl; unfold lob in *; simpl; auto]
        |simpl; try rewrite C05_ok_snoc; rewrite H5; simpl; auto; try apply (H5' 0 i)]).
  Qed.

  Lemma InvB_step s t s' : InvA sess s -> InvB s -> step sess s t = Some s' -> InvB s'.
  Proof.
    intros HA HB Hs. pose proof HA as HA0. pose proof HB as HB0.
    destruct HB as [(m & Hsc & HR) H5].
    destruct HA as [Hpipe Hrpos Happ Hint Hfg Hconn Hnest Hnestw Hdisc Hcan Hbg].
    destruct HR as [Ro Rco Rl Rlo Rcl Rclo Rd].
    destruct t as [| | | | |key|g i|g i]; simpl in Hs.
    - (* TRecv *)
      destruct (rhold s) as [k|] eqn:Eh.
      + destruct (Nat.ltb (length (inq s)) cap_in); inv Hs.
        split; [|exact H5]. exists m. split; [exact Hsc|]. constructor; auto.
      + destruct (Nat.ltb (rpos s) (length (lines sess))); inv Hs.
        split; [|exact H5]. exists m. split; [exact Hsc|]. constructor; auto.
    - (* TLoop *)
      destruct (lpc s) as [|k|k|] eqn:El.
      + destruct (inq s) as [|k q] eqn:Eq; inv Hs.
        unfold lob' in Hpipe; rewrite El in Hpipe. simpl in Hpipe. destruct Hpipe as [Hp1 Hp2].
        unfold lob in *; rewrite El in *.
        split; [|exact H5]. exists m. split; [exact Hsc|].
        constructor; simpl; unfold lob; simpl; auto.
        * intros c Hc. destruct (Rl c Hc) as [H1 H2].
          assert (c <> applied s) by (intros ->; specialize (H2 eq_refl); discriminate).
          split; [lia|intros ->; lia].
        * rewrite (nopen_done _ Hfg). lia.
        * intros c Hc. destruct (Rcl c Hc) as [H1 H2].
          assert (c <> applied s) by (intros ->; destruct (H2 eq_refl); discriminate).
          split; [lia|intros ->; lia].
        * rewrite (nopen_done _ Hconn). lia.
        * intros H. specialize (Rd H). discriminate.
      + destruct (all_done (g_int s)) eqn:Ed; inv Hs.
        assert (Hq : all_done (g_conn s) = true).
        { destruct Hnest as [H|(i0 & p0 & H)]; [exact H|].
          apply (all_done_nth _ _ _ Ed) in H. discriminate. }
        unfold lob in *; rewrite El in *.
        split; [|simpl; rewrite C05_ok_snoc, H5; reflexivity].
        exists m. split; [simpl; erewrite C03_scan_snoc by eauto; reflexivity|].
        constructor; simpl; unfold lob; simpl; auto.
        * rewrite nopen_repeat. rewrite Ro. now apply nopen_done.
        * intros c Hc. destruct (Rl c Hc) as [H1 H2]. split; [exact H1|intros ->; reflexivity].
        * rewrite nopen_repeat. lia.
        * intros c Hc. destruct (Rcl c Hc) as [H1 H2]. split; [exact H1|intros ->; now right].
        * intros H. specialize (Rd H). discriminate.
      + destruct (all_done (g_fg s)) eqn:Ed; inv Hs.
        unfold lob in *; rewrite El in *.
        split; [|exact H5]. exists m. split; [exact Hsc|].
        constructor; simpl; unfold lob; simpl; auto.
        * intros c Hc. destruct (Rl c Hc) as [H1 H2]. split; [lia|intros ->; lia].
        * rewrite (nopen_done _ Ed). lia.
        * intros c Hc. destruct (Rcl c Hc) as [H1 H2]. split; [lia|intros ->; lia].
        * rewrite (nopen_done _ Hconn). lia.
        * intros H. specialize (Rd H). discriminate.
      + discriminate.
    - (* TLoopQuit *)
      destruct (lpc s) eqn:El; try discriminate.
      destruct (cancelled s) eqn:Ec; inv Hs.
      unfold lob in *; rewrite El in *.
      split; [|exact H5]. exists m. split; [exact Hsc|].
      constructor; simpl; unfold lob; simpl; auto.
      * intros c Hc. destruct (Rl c Hc) as [H1 H2]. split; [exact H1|].
        intros ->. specialize (H2 eq_refl). discriminate.
      * intros c Hc. destruct (Rcl c Hc) as [H1 H2]. split; [exact H1|].
        intros ->. destruct (H2 eq_refl); discriminate.
    - (* TCloser *)
      destruct (cpc s) eqn:Ec.
      + destruct (can_close sess); inv Hs.
        split; [|exact H5]. exists m. split; [exact Hsc|]. constructor; auto.
      + destruct (lpc s) eqn:El; inv Hs.
        split; [|exact H5]. exists m. split; [exact Hsc|].
        constructor; simpl; unfold lob in *; simpl; rewrite ?El in *; auto.
      + destruct (all_done (g_disc s)) eqn:Ed; inv Hs.
        split; [|exact H5]. exists m. split; [exact Hsc|]. constructor; auto.
      + discriminate.
    - (* TDrain *)
      destruct (cpc s) eqn:Ec; try discriminate.
      destruct (inq s) as [|k q] eqn:Eq; inv Hs.
      split; [|exact H5]. exists m. split; [exact Hsc|]. constructor; auto.
    - (* TBgDisp *)
      destruct (bg_find key (bgs s)) as [[g|]|] eqn:Ef; inv Hs.
      split; [|exact H5]. exists m. split; [exact Hsc|]. constructor; auto.
    - eapply InvB_handler; eauto.
    - eapply InvB_handler; eauto.
  Qed.

  Definition InvAB (s : st) : Prop := InvA sess s /\ InvB s.

  Theorem InvAB_run sched : InvAB (run (step sess) init sched).
  Proof.
    apply invariant_run.
    - split; [apply InvA_init|apply InvB_init].
    - intros s t s' [HA HB] Hs. split; [eapply InvA_step; eauto|eapply InvB_step; eauto].
  Qed.

  (* C03: every schedule, any session, any handler counts, any panic choices *)
  Theorem C03_model sched : C03_ok sess (hist (run (step sess) init sched)) = true.
  Proof.
    destruct (InvAB_run sched) as [_ [(m & Hm & _) _]]. unfold C03_ok. now rewrite Hm.
  Qed.

  Theorem C05_model sched : C05_ok (hist (run (step sess) init sched)) = true.
  Proof. destruct (InvAB_run sched) as [_ [_ H]]. exact H. Qed.
End B.
