(* Proofs/GenEqTracker.v — stage 5: the Gallina TRANSLATION (Gen/GoTracker.v, translator/go2heap.go) of
   package state's object graph — newNick, newChannel, NewTracker, nick.Nick, channel.Channel,
   nick.isOn, nick.addChannel/delChannel, channel.addNick/delNick and the methods of stateTracker —
   is EQUAL to the hand-written model Model/TrackerImpl.v (im_*, st_delNick, st_delChannel, ...).

   Gen/GoTracker.v is parametric in one class (GoTracker.heap_ops: state, heaps, objects with
   getters / setters / constructors, snapshot constructors, the enumeration functions of range, the
   two parseModes functions).  [impl_ops] instantiates it with TrackerImpl's records; the snapshot
   constructors sort the membership map (sorted_of_map) as im_nick_snap / im_chan_snap do;
   nick.parseModes and channel.parseModes are the functions translated in Gen/GoFuncs.v (GoBytes
   side, Required qualified: notation clash), wrapped into the option monad.
   The lemmas hold for ARBITRARY enumeration functions.  Non-writing methods return their result
   only: [with_state] pairs it with the unchanged state.  Dissociate has one premise (see there). *)
From Verif Require Import TrackerSpec TrackerImpl.
From Verif Require GoTracker.
From Verif Require GoBytes GoFuncs GenEqModes GenEqChanModes GenEqChanModesHeap.
Open Scope Z_scope.

Definition nm_untuple (t : GoFuncs.go_state_NickMode) : nickmode :=
  let '(b, i, o, w, x, z) := t in Build_nickmode b i o w x z.
Lemma nm_untuple_tuple m : nm_untuple (GenEqModes.nm_tuple m) = m.
Proof. by destruct m. Qed.
Definition ext_parse (m : nickmode) (b : bytes) : option nickmode :=
  match GoFuncs.go_state_nick_parseModes (Some (GenEqModes.nm_tuple m)) b with
  | GoBytes.Ok (Some t) => Some (nm_untuple t)
  | _ => None
  end.
Lemma ext_parse_eq m b : ext_parse m b = Some (nick_parse_modes b false m).
Proof. unfold ext_parse. rewrite GenEqModes.go_nick_parseModes_eq. by rewrite nm_untuple_tuple. Qed.

(* channel.parseModes: the GoFuncs.v translation on the heap stores of GenEqChanModesHeap *)
Definition cm_untuple (t : GoFuncs.go_state_ChanMode) : chanmode :=
  let '(f1, f2, f3, f4, f5, f6, f7, f8, f9, f10, k, l) := t in Build_chanmode f1 f2 f3 f4 f5 f6 f7 f8 f9 f10 k l.
Lemma cm_untuple_tuple cm : cm_untuple (GenEqChanModes.cm_tuple cm) = cm.
Proof. by destruct cm. Qed.
Definition ext_cparse (cm : chanmode) (cname : bytes) (lk : gmap name addr) (nks : gmap addr addr)
    (ph : gmap addr privs) (modes : bytes) (args : list bytes) : option (chanmode * gmap addr privs) :=
  match GoFuncs.go_state_channel_parseModes GenEqChanModesHeap.HLget GenEqChanModesHeap.HNget
          GenEqChanModesHeap.HNset GenEqChanModes.atoi' lk (Some (GenEqChanModes.cm_tuple cm)) cname (nks, ph) modes args with
  | GoBytes.Ok (Some t, N') => Some (cm_untuple t, snd N')
  | _ => None
  end.
Lemma ext_cparse_eq cm cname lk nks ph modes args :
  ext_cparse cm cname lk nks ph modes args
  = (r ← foldM (GenEqChanModesHeap.hstep lk nks) (false, args, cm, ph) modes; Some (snd (fst r), snd r)).
Proof.
  unfold ext_cparse. rewrite GenEqChanModesHeap.go_channel_parseModes_heap_eq.
  destruct (foldM _ _ _) as [[[[op1 args1] cm1] ph1]|]; simpl; [|done].
  by destruct cm1.
Qed.

Definition impl_ops (eA : gmap addr addr -> list (addr * addr)) (eN : gmap name addr -> list (name * addr))
  : GoTracker.heap_ops := {|
  GoTracker.HS := istate;
  GoTracker.nick_obj := nickobj;
  GoTracker.channel_obj := chanobj;
  GoTracker.ChanPrivs_obj := privs;
  GoTracker.NickMode_val := nickmode;
  GoTracker.ChanMode_val := chanmode;
  GoTracker.Nick_snap := nick_snap;
  GoTracker.Channel_snap := chan_snap;
  GoTracker.NickMode_zero := no_nickmode;
  GoTracker.ChanMode_zero := no_chanmode;
  GoTracker.ChanPrivs_zero := no_privs;
  GoTracker.hs_chans := st_chans;
  GoTracker.hs_set_chans := set_st_chans;
  GoTracker.hs_nicks := st_nicks;
  GoTracker.hs_set_nicks := set_st_nicks;
  GoTracker.hs_me := st_me;
  GoTracker.hs_set_me := fun s a => Build_istate (st_nicks s) (st_chans s) a (h_nick s) (h_chan s) (h_priv s) (h_next s);
  GoTracker.hs_init := Build_istate ∅ ∅ 1%positive ∅ ∅ ∅ 1%positive;
  GoTracker.hs_next := h_next;
  GoTracker.hs_bump := bump;
  GoTracker.heap_nick := h_nick;
  GoTracker.put_nick := put_nick;
  GoTracker.heap_channel := h_chan;
  GoTracker.put_channel := put_chan;
  GoTracker.heap_ChanPrivs := h_priv;
  GoTracker.put_ChanPrivs := put_priv;
  GoTracker.nick_get_nick := no_nick;
  GoTracker.nick_set_nick := fun o v => Build_nickobj v (no_ident o) (no_host o) (no_name o) (no_modes o) (no_lookup o) (no_chans o);
  GoTracker.nick_get_ident := no_ident;
  GoTracker.nick_set_ident := fun o v => Build_nickobj (no_nick o) v (no_host o) (no_name o) (no_modes o) (no_lookup o) (no_chans o);
  GoTracker.nick_get_host := no_host;
  GoTracker.nick_set_host := fun o v => Build_nickobj (no_nick o) (no_ident o) v (no_name o) (no_modes o) (no_lookup o) (no_chans o);
  GoTracker.nick_get_name := no_name;
  GoTracker.nick_set_name := fun o v => Build_nickobj (no_nick o) (no_ident o) (no_host o) v (no_modes o) (no_lookup o) (no_chans o);
  GoTracker.nick_get_modes := no_modes;
  GoTracker.nick_set_modes := fun o v => Build_nickobj (no_nick o) (no_ident o) (no_host o) (no_name o) v (no_lookup o) (no_chans o);
  GoTracker.nick_get_lookup := no_lookup;
  GoTracker.nick_set_lookup := fun o v => Build_nickobj (no_nick o) (no_ident o) (no_host o) (no_name o) (no_modes o) v (no_chans o);
  GoTracker.nick_get_chans := no_chans;
  GoTracker.nick_set_chans := fun o v => Build_nickobj (no_nick o) (no_ident o) (no_host o) (no_name o) (no_modes o) (no_lookup o) v;
  GoTracker.nick_mk := Build_nickobj;
  GoTracker.channel_get_name := co_name;
  GoTracker.channel_set_name := fun o v => Build_chanobj v (co_topic o) (co_modes o) (co_lookup o) (co_nicks o);
  GoTracker.channel_get_topic := co_topic;
  GoTracker.channel_set_topic := fun o v => Build_chanobj (co_name o) v (co_modes o) (co_lookup o) (co_nicks o);
  GoTracker.channel_get_modes := co_modes;
  GoTracker.channel_set_modes := fun o v => Build_chanobj (co_name o) (co_topic o) v (co_lookup o) (co_nicks o);
  GoTracker.channel_get_lookup := co_lookup;
  GoTracker.channel_set_lookup := fun o v => Build_chanobj (co_name o) (co_topic o) (co_modes o) v (co_nicks o);
  GoTracker.channel_get_nicks := co_nicks;
  GoTracker.channel_set_nicks := fun o v => Build_chanobj (co_name o) (co_topic o) (co_modes o) (co_lookup o) v;
  GoTracker.channel_mk := Build_chanobj;
  GoTracker.Nick_mk := fun n i h r m c => Build_nick_snap n i h r m (sorted_of_map c);
  GoTracker.Channel_mk := fun n t m c => Build_chan_snap n t m (sorted_of_map c);
  GoTracker.set_heap_ChanPrivs := set_h_priv;
  GoTracker.ext_channel_parseModes := ext_cparse;
  GoTracker.ext_nick_parseModes := ext_parse;
  GoTracker.enumA := eA;
  GoTracker.enumN := eN
|}.

Lemma go_foldM_eq {A S} (f : S -> A -> option S) s l : GoTracker.go_foldM f s l = foldM f s l.
Proof. revert s. induction l as [|x l IH]; intros s; simpl; [done|]. destruct (f s x); [apply IH|done]. Qed.
Lemma foldM_ext {A S} (f g : S -> A -> option S) s l :
  (forall a x, f a x = g a x) -> foldM f s l = foldM g s l.
Proof. intros E. revert s. induction l as [|x l IH]; intros s; simpl; [done|]. rewrite E. destruct (g s x); [apply IH|done]. Qed.

Section Eq.
Variable eA : gmap addr addr -> list (addr * addr).
Variable eN : gmap name addr -> list (name * addr).
Notation G := (impl_ops eA eN).

Lemma go_nick_Nick_eq s nk :
  @GoTracker.go_nick_Nick G s (Some nk) = (r ← im_nick_snap eA s nk; Some (Some r)).
Proof.
  unfold GoTracker.go_nick_Nick, im_nick_snap, nick_chan_map. simpl.
  destruct (h_nick s !! nk) as [o|]; simpl; [|done].
  rewrite go_foldM_eq.
  match goal with |- foldM ?f _ _ ≫= _ = (foldM ?g _ _ ≫= _) ≫= _ => rewrite (foldM_ext f g) end;
    [destruct (foldM _ _ _); reflexivity|].
  intros a x. simpl. destruct (h_chan s !! x.1); simpl; [|done]. by destruct (h_priv s !! x.2).
Qed.

Lemma go_channel_Channel_eq s ch :
  @GoTracker.go_channel_Channel G s (Some ch) = (r ← im_chan_snap eA s ch; Some (Some r)).
Proof.
  unfold GoTracker.go_channel_Channel, im_chan_snap, chan_nick_map. simpl.
  destruct (h_chan s !! ch) as [o|]; simpl; [|done].
  rewrite go_foldM_eq.
  match goal with |- foldM ?f _ _ ≫= _ = (foldM ?g _ _ ≫= _) ≫= _ => rewrite (foldM_ext f g) end;
    [destruct (foldM _ _ _); reflexivity|].
  intros a x. simpl. destruct (h_nick s !! x.1); simpl; [|done]. by destruct (h_priv s !! x.2).
Qed.

Lemma go_nick_isOn_eq s nk ch :
  @GoTracker.go_nick_isOn G s (Some nk) (Some ch) = nk_isOn s nk ch.
Proof.
  unfold GoTracker.go_nick_isOn, nk_isOn. simpl.
  destruct (h_nick s !! nk) as [o|]; simpl; [|done].
  destruct (no_chans o !! ch) as [cp|]; simpl; [|done].
  by destruct (h_priv s !! cp).
Qed.

Lemma put_nick_put_nick s a o1 o2 : put_nick (put_nick s a o1) a o2 = put_nick s a o2.
Proof. unfold put_nick, set_h_nick. simpl. by rewrite insert_insert. Qed.
Lemma put_chan_put_chan s a o1 o2 : put_chan (put_chan s a o1) a o2 = put_chan s a o2.
Proof. unfold put_chan, set_h_chan. simpl. by rewrite insert_insert. Qed.

Lemma go_nick_addChannel_eq s nk ch cp :
  @GoTracker.go_nick_addChannel G s (Some nk) (Some ch) (Some cp) = nk_addChannel s nk ch cp.
Proof.
  unfold GoTracker.go_nick_addChannel, nk_addChannel. simpl.
  destruct (h_nick s !! nk) as [o|] eqn:En; simpl; [|done].
  destruct (no_chans o !! ch) as [x|] eqn:Ec; simpl.
  - by destruct (h_chan s !! ch).
  - rewrite lookup_insert. simpl. destruct (h_chan s !! ch); simpl; [|done].
    by rewrite put_nick_put_nick.
Qed.
Lemma go_nick_delChannel_eq s nk ch :
  @GoTracker.go_nick_delChannel G s (Some nk) (Some ch) = nk_delChannel s nk ch.
Proof.
  unfold GoTracker.go_nick_delChannel, nk_delChannel. simpl.
  destruct (h_nick s !! nk) as [o|] eqn:En; simpl; [|done].
  destruct (no_chans o !! ch) as [x|] eqn:Ec; simpl.
  - rewrite lookup_insert. simpl. destruct (h_chan s !! ch); simpl; [|done].
    by rewrite put_nick_put_nick.
  - by destruct (h_chan s !! ch).
Qed.
Lemma go_channel_addNick_eq s ch nk cp :
  @GoTracker.go_channel_addNick G s (Some ch) (Some nk) (Some cp) = ch_addNick s ch nk cp.
Proof.
  unfold GoTracker.go_channel_addNick, ch_addNick. simpl.
  destruct (h_chan s !! ch) as [o|] eqn:En; simpl; [|done].
  destruct (co_nicks o !! nk) as [x|] eqn:Ec; simpl.
  - by destruct (h_nick s !! nk).
  - rewrite lookup_insert. simpl. destruct (h_nick s !! nk); simpl; [|done].
    by rewrite put_chan_put_chan.
Qed.
Lemma go_channel_delNick_eq s ch nk :
  @GoTracker.go_channel_delNick G s (Some ch) (Some nk) = ch_delNick s ch nk.
Proof.
  unfold GoTracker.go_channel_delNick, ch_delNick. simpl.
  destruct (h_chan s !! ch) as [o|] eqn:En; simpl; [|done].
  destruct (co_nicks o !! nk) as [x|] eqn:Ec; simpl.
  - rewrite lookup_insert. simpl. destruct (h_nick s !! nk); simpl; [|done].
    by rewrite put_chan_put_chan.
  - by destruct (h_nick s !! nk).
Qed.

Arguments GoTracker.go_nick_Nick : simpl never.
Arguments GoTracker.go_channel_Channel : simpl never.
Arguments GoTracker.go_nick_isOn : simpl never.
Arguments GoTracker.go_nick_addChannel : simpl never.
Arguments GoTracker.go_nick_delChannel : simpl never.
Arguments GoTracker.go_channel_addNick : simpl never.
Arguments GoTracker.go_channel_delNick : simpl never.
Arguments im_nick_snap : simpl never.
Arguments im_chan_snap : simpl never.
Arguments nk_isOn : simpl never.

(* ---------- the methods of the tracker: first wave ---------- *)
Definition with_state {R} (s : istate) (r : option R) : option (istate * R) := x ← r; Some (s, x).

Lemma go_stateTracker_GetNick_eq s n :
  with_state s (@GoTracker.go_stateTracker_GetNick G s n) = im_GetNick eA s n.
Proof.
  unfold GoTracker.go_stateTracker_GetNick, im_GetNick, with_state. simpl.
  destruct (st_nicks s !! n) as [nk|]; simpl; [|done].
  rewrite go_nick_Nick_eq. by destruct (im_nick_snap eA s nk).
Qed.
Lemma go_stateTracker_Me_eq s :
  with_state s (@GoTracker.go_stateTracker_Me G s) = im_Me eA s.
Proof.
  unfold GoTracker.go_stateTracker_Me, im_Me, with_state. simpl.
  rewrite go_nick_Nick_eq. by destruct (im_nick_snap eA s (st_me s)).
Qed.
Lemma go_stateTracker_GetChannel_eq s c :
  with_state s (@GoTracker.go_stateTracker_GetChannel G s c) = im_GetChannel eA s c.
Proof.
  unfold GoTracker.go_stateTracker_GetChannel, im_GetChannel, with_state. simpl.
  destruct (st_chans s !! c) as [ch|]; simpl; [|done].
  rewrite go_channel_Channel_eq. by destruct (im_chan_snap eA s ch).
Qed.
Lemma go_stateTracker_IsOn_eq s c n :
  with_state s (@GoTracker.go_stateTracker_IsOn G s c n) = im_IsOn s c n.
Proof.
  unfold GoTracker.go_stateTracker_IsOn, im_IsOn, with_state. simpl.
  destruct (st_nicks s !! n) as [nk|]; simpl; [|done].
  destruct (st_chans s !! c) as [ch|]; simpl; [|done].
  rewrite go_nick_isOn_eq. by destruct (nk_isOn s nk ch).
Qed.

Lemma go_stateTracker_NewNick_eq s n :
  @GoTracker.go_stateTracker_NewNick G s n = im_NewNick eA s n.
Proof.
  unfold GoTracker.go_stateTracker_NewNick, im_NewNick. simpl.
  destruct n as [|b n]; [done|]. simpl.
  destruct (st_nicks s !! (b :: n)) as [nk|]; simpl; [done|].
  rewrite lookup_insert. rewrite go_nick_Nick_eq. unfold new_nickobj.
  by destruct (im_nick_snap _ _ _).
Qed.
Lemma go_stateTracker_NewChannel_eq s c :
  @GoTracker.go_stateTracker_NewChannel G s c = im_NewChannel eA s c.
Proof.
  unfold GoTracker.go_stateTracker_NewChannel, im_NewChannel. simpl.
  destruct c as [|b c]; [done|]. simpl.
  destruct (st_chans s !! (b :: c)) as [ch|]; simpl; [done|].
  rewrite lookup_insert. rewrite go_channel_Channel_eq. unfold new_chanobj.
  by destruct (im_chan_snap _ _ _).
Qed.
Lemma go_stateTracker_NickInfo_eq s n i h r :
  @GoTracker.go_stateTracker_NickInfo G s n i h r = im_NickInfo eA s n i h r.
Proof.
  unfold GoTracker.go_stateTracker_NickInfo, im_NickInfo. simpl.
  destruct (st_nicks s !! n) as [nk|]; simpl; [|done].
  destruct (h_nick s !! nk) as [o|]; simpl; [|done].
  repeat (rewrite lookup_insert; simpl). rewrite !put_nick_put_nick. rewrite go_nick_Nick_eq.
  by destruct (im_nick_snap _ _ _).
Qed.
Lemma go_stateTracker_NickModes_eq s n m :
  @GoTracker.go_stateTracker_NickModes G s n m = im_NickModes eA s n m.
Proof.
  unfold GoTracker.go_stateTracker_NickModes, im_NickModes. simpl.
  destruct (st_nicks s !! n) as [nk|]; simpl; [|done].
  destruct (h_nick s !! nk) as [o|]; simpl; [|done].
  rewrite ext_parse_eq. simpl. rewrite go_nick_Nick_eq.
  by destruct (im_nick_snap _ _ _).
Qed.
Lemma go_stateTracker_Topic_eq s c t :
  @GoTracker.go_stateTracker_Topic G s c t = im_Topic eA s c t.
Proof.
  unfold GoTracker.go_stateTracker_Topic, im_Topic. simpl.
  destruct (st_chans s !! c) as [ch|]; simpl; [|done].
  destruct (h_chan s !! ch) as [o|]; simpl; [|done].
  rewrite go_channel_Channel_eq.
  by destruct (im_chan_snap _ _ _).
Qed.
Lemma go_stateTracker_Associate_eq s c n :
  @GoTracker.go_stateTracker_Associate G s c n = im_Associate s c n.
Proof.
  unfold GoTracker.go_stateTracker_Associate, im_Associate. simpl.
  destruct (st_chans s !! c) as [ch|]; simpl; [|by destruct (st_nicks s !! n)].
  destruct (st_nicks s !! n) as [nk|]; simpl; [|done].
  rewrite go_nick_isOn_eq. destruct (nk_isOn s nk ch) as [[r ok]|]; simpl; [|done].
  destruct ok; [done|].
  rewrite go_channel_addNick_eq. destruct (ch_addNick _ _ _ _) as [s2|]; simpl; [|done].
  rewrite go_nick_addChannel_eq. destruct (nk_addChannel _ _ _ _) as [s3|]; simpl; [|done].
  by destruct (h_priv s3 !! h_next s).
Qed.

Lemma go_NewTracker_eq me :
  @GoTracker.go_NewTracker G me = Some (im_new me).
Proof. reflexivity. Qed.

(* ---------- second wave: the loops that delete while ranging ---------- *)
Lemma size0 {K} `{Countable K} {A} (m : gmap K A) :
  bool_decide (Z.of_nat (size m) = 0) = bool_decide (m = ∅).
Proof. apply bool_decide_ext. rewrite <- map_size_empty_iff. lia. Qed.
Lemma ptr_eq (a b : addr) : bool_decide (Some a = Some b) = bool_decide (a = b).
Proof. apply bool_decide_ext. split; congruence. Qed.
Lemma bind_Some_id {A} (x : option A) : (x ≫= Some) = x.
Proof. by destruct x. Qed.

Lemma ch_delNick_some s ch nk s' :
  ch_delNick s ch nk = Some s' -> is_Some (h_chan s' !! ch) /\ is_Some (h_nick s' !! nk).
Proof.
  unfold ch_delNick. destruct (h_chan s !! ch) as [c|] eqn:Ec; simpl; [|done].
  destruct (h_nick s !! nk) as [o|] eqn:Eo; simpl; [|done].
  destruct (co_nicks c !! nk); intros [= <-]; simpl.
  - rewrite lookup_insert, Eo. eauto.
  - rewrite Ec, Eo. eauto.
Qed.

Lemma go_stateTracker_delNick_eq s nk :
  @GoTracker.go_stateTracker_delNick G s (Some nk) = st_delNick eA s nk.
Proof.
  unfold GoTracker.go_stateTracker_delNick, st_delNick. simpl.
  rewrite ptr_eq. destruct (decide (nk = st_me s)) as [E|E];
    [by rewrite bool_decide_eq_true_2|rewrite bool_decide_eq_false_2 by done].
  destruct (h_nick s !! nk) as [o|]; simpl; [|done].
  rewrite go_foldM_eq, bind_Some_id. apply foldM_ext. intros a x. simpl.
  destruct (h_nick a !! nk) as [o'|]; simpl; [|done].
  destruct (no_chans o' !! x.1); [|done].
  rewrite go_nick_delChannel_eq. destruct (nk_delChannel a nk x.1) as [s2|]; simpl; [|done].
  rewrite go_channel_delNick_eq. destruct (ch_delNick s2 x.1 nk) as [s3|] eqn:E3; simpl; [|done].
  destruct (ch_delNick_some _ _ _ _ E3) as [[c ->] [o3 ->]]. simpl.
  by destruct (bool_decide _).
Qed.
Arguments GoTracker.go_stateTracker_delNick : simpl never.
Arguments st_delNick : simpl never.

Lemma go_stateTracker_delChannel_eq s ch :
  @GoTracker.go_stateTracker_delChannel G s (Some ch) = st_delChannel eA s ch.
Proof.
  unfold GoTracker.go_stateTracker_delChannel, st_delChannel. simpl.
  destruct (h_chan s !! ch) as [c|]; simpl; [|done].
  rewrite go_foldM_eq, bind_Some_id. apply foldM_ext. intros a x. simpl.
  destruct (h_chan a !! ch) as [c'|]; simpl; [|done].
  destruct (co_nicks c' !! x.1); [|done].
  rewrite go_channel_delNick_eq. destruct (ch_delNick a ch x.1) as [s2|]; simpl; [|done].
  rewrite go_nick_delChannel_eq. destruct (nk_delChannel s2 x.1 ch) as [s3|]; simpl; [|done].
  destruct (h_nick s3 !! x.1) as [o|]; simpl; [|done].
  rewrite size0, ptr_eq.
  destruct (decide (no_chans o = ∅)) as [E|E];
    [rewrite bool_decide_eq_true_2 by done|by rewrite bool_decide_eq_false_2].
  destruct (decide (x.1 = st_me s3)) as [E'|E'];
    [by rewrite bool_decide_eq_true_2|rewrite bool_decide_eq_false_2 by done]. simpl.
  rewrite go_stateTracker_delNick_eq. apply bind_Some_id.
Qed.
Arguments GoTracker.go_stateTracker_delChannel : simpl never.
Arguments st_delChannel : simpl never.

Lemma go_stateTracker_Wipe_eq s :
  @GoTracker.go_stateTracker_Wipe G s = im_Wipe eA eN s.
Proof.
  unfold GoTracker.go_stateTracker_Wipe, im_Wipe. simpl.
  rewrite go_foldM_eq, bind_Some_id. apply foldM_ext. intros a x. simpl.
  destruct (st_chans a !! x.1) as [ch|]; [|done].
  rewrite go_stateTracker_delChannel_eq. apply bind_Some_id.
Qed.

Lemma go_stateTracker_DelNick_eq s n :
  @GoTracker.go_stateTracker_DelNick G s n = im_DelNick eA s n.
Proof.
  unfold GoTracker.go_stateTracker_DelNick, im_DelNick. simpl.
  destruct (st_nicks s !! n) as [nk|]; simpl; [|done].
  rewrite ptr_eq. destruct (decide (nk = st_me s)) as [E|E];
    [by rewrite bool_decide_eq_true_2|rewrite bool_decide_eq_false_2 by done].
  rewrite go_stateTracker_delNick_eq. destruct (st_delNick eA s nk) as [s'|]; simpl; [|done].
  rewrite go_nick_Nick_eq. by destruct (im_nick_snap _ _ _).
Qed.
Lemma go_stateTracker_DelChannel_eq s c :
  @GoTracker.go_stateTracker_DelChannel G s c = im_DelChannel eA s c.
Proof.
  unfold GoTracker.go_stateTracker_DelChannel, im_DelChannel. simpl.
  destruct (st_chans s !! c) as [ch|]; simpl; [|done].
  rewrite go_stateTracker_delChannel_eq. destruct (st_delChannel eA s ch) as [s'|]; simpl; [|done].
  rewrite go_channel_Channel_eq. by destruct (im_chan_snap _ _ _).
Qed.

Lemma nk_isOn_some s nk ch r : nk_isOn s nk ch = Some r -> is_Some (h_nick s !! nk).
Proof. unfold nk_isOn. destruct (h_nick s !! nk); [eauto|done]. Qed.
(* The "not on the channel" branch logs ch.name: the generated code reads the channel object (a
   dangling address would be a panic in the heap model; Go has no dangling pointers), the model
   does not: equal when the channel the tracker's map points to is allocated. *)
Lemma go_stateTracker_Dissociate_eq s c n :
  (forall ch, st_chans s !! c = Some ch -> is_Some (h_chan s !! ch)) ->
  @GoTracker.go_stateTracker_Dissociate G s c n = im_Dissociate eA s c n.
Proof.
  intros Hc. unfold GoTracker.go_stateTracker_Dissociate, im_Dissociate. simpl.
  destruct (st_chans s !! c) as [ch|]; simpl; [|by destruct (st_nicks s !! n)].
  destruct (Hc ch eq_refl) as [co Hco].
  destruct (st_nicks s !! n) as [nk|]; simpl; [|done].
  rewrite go_nick_isOn_eq. destruct (nk_isOn s nk ch) as [[r ok]|] eqn:Eo; simpl; [|done].
  destruct ok; simpl.
  - rewrite ptr_eq. destruct (decide (nk = st_me s)) as [E|E];
      [rewrite bool_decide_eq_true_2 by done|rewrite bool_decide_eq_false_2 by done].
    + rewrite go_stateTracker_delChannel_eq. apply bind_Some_id.
    + rewrite go_channel_delNick_eq. destruct (ch_delNick s ch nk) as [s1|]; simpl; [|done].
      rewrite go_nick_delChannel_eq. destruct (nk_delChannel s1 nk ch) as [s2|]; simpl; [|done].
      destruct (h_nick s2 !! nk) as [o|]; simpl; [|done].
      rewrite size0. destruct (decide (no_chans o = ∅)) as [E'|E'];
        [rewrite bool_decide_eq_true_2 by done|by rewrite bool_decide_eq_false_2].
      rewrite go_stateTracker_delNick_eq. apply bind_Some_id.
  - destruct (nk_isOn_some _ _ _ _ Eo) as [o ->]. simpl. by rewrite Hco.
Qed.

Lemma go_stateTracker_ReNick_eq s old neu :
  @GoTracker.go_stateTracker_ReNick G s old neu = im_ReNick eA s old neu.
Proof.
  unfold GoTracker.go_stateTracker_ReNick, im_ReNick. simpl.
  destruct (st_nicks s !! old) as [nk|]; simpl; [|done].
  destruct (st_nicks s !! neu) as [x|]; simpl; [done|].
  destruct (h_nick s !! nk) as [o|]; simpl; [|done].
  rewrite lookup_insert. simpl. rewrite go_foldM_eq.
  match goal with |- foldM ?f ?a ?l ≫= _ = foldM ?g ?b _ ≫= _ =>
    change a with b; rewrite (foldM_ext f g) end.
  - destruct (foldM _ _ _) as [s2|]; simpl; [|done].
    rewrite go_nick_Nick_eq. by destruct (im_nick_snap _ _ _).
  - intros a x. simpl. destruct (h_chan a !! x.1) as [c|]; simpl; [|done].
    rewrite lookup_insert. simpl. by rewrite put_chan_put_chan.
Qed.

(* ---------- ChannelModes: ch_parseModes is the fold of hstep ---------- *)
Section ChanModes.
Variable ch : addr.
Definition mk (s : istate) (o : chanobj) (cm : chanmode) (ph : gmap addr privs) : istate :=
  put_chan (set_h_priv s ph) ch (co_set_modes o cm).
Lemma mk_id s o : h_chan s !! ch = Some o -> mk s o (co_modes o) (h_priv s) = s.
Proof.
  intros E. destruct s, o. unfold mk, put_chan, set_h_chan, set_h_priv, co_set_modes. simpl in *.
  f_equal. by apply insert_id.
Qed.
Definition lift (s : istate) (o : chanobj) (r : bool * list bytes * chanmode * gmap addr privs)
  : istate * bool * list bytes :=
  (mk s o (snd (fst r)) (snd r), fst (fst (fst r)), snd (fst (fst r))).
Lemma step_mk s o cm ph op args m :
  ch_parse_char ch (mk s o cm ph, op, args) m
  = (r ← GenEqChanModesHeap.hstep (co_lookup o) (co_nicks o) (op, args, cm, ph) m; Some (lift s o r)).
Proof.
  unfold ch_parse_char, GenEqChanModesHeap.hstep, lift. simpl. rewrite lookup_insert. simpl.
  repeat case_decide; try done.
  - destruct op, args; try done; simpl; unfold mk; by rewrite put_chan_put_chan.
  - destruct op, args; try done; simpl; unfold mk; by rewrite put_chan_put_chan.
  - destruct (is_list_mode_char m); [by destruct args|].
    destruct (is_priv_char m).
    + destruct args as [|a args]; [done|].
      destruct (co_lookup o !! a) as [nk|]; [|done]. simpl.
      destruct (co_nicks o !! nk) as [cp|]; [|done]. simpl.
      destruct (ph !! cp) as [p|]; [|done]. simpl.
      by destruct (priv_char m op p).
    + destruct (chan_flag_char m op cm); [|done]. simpl. unfold mk. by rewrite put_chan_put_chan.
Qed.
Lemma fold_mk modes : forall s o cm ph op args,
  foldM (ch_parse_char ch) (mk s o cm ph, op, args) modes
  = (r ← foldM (GenEqChanModesHeap.hstep (co_lookup o) (co_nicks o)) (op, args, cm, ph) modes; Some (lift s o r)).
Proof.
  induction modes as [|m modes IH]; intros; [done|]. cbn [foldM]. rewrite step_mk.
  destruct (GenEqChanModesHeap.hstep _ _ _ m) as [[[[op1 args1] cm1] ph1]|]; [|done].
  cbn [mbind option_bind]. unfold lift at 1. cbn [fst snd]. apply IH.
Qed.
(* without the channel object nothing is written before the first read of it panics *)
Lemma step_none s op args m st :
  h_chan s !! ch = None -> ch_parse_char ch (s, op, args) m = Some st -> fst (fst st) = s.
Proof.
  intros E. unfold ch_parse_char. simpl. rewrite E. simpl.
  repeat case_decide; try done; try (by intros [= <-]).
  destruct (is_list_mode_char m); [destruct args; by intros [= <-]|].
  destruct (is_priv_char m); done.
Qed.
Lemma fold_none modes : forall s op args st,
  h_chan s !! ch = None -> foldM (ch_parse_char ch) (s, op, args) modes = Some st -> fst (fst st) = s.
Proof.
  induction modes as [|m modes IH]; intros s op args st E; simpl; [by intros [= <-]|].
  destruct (ch_parse_char ch (s, op, args) m) as [[[s1 op1] args1]|] eqn:E1; [|done].
  pose proof (step_none _ _ _ _ _ E E1) as Hs. simpl in Hs. subst s1. by apply IH.
Qed.
End ChanModes.

Lemma go_stateTracker_ChannelModes_eq s c modes args :
  @GoTracker.go_stateTracker_ChannelModes G s c modes args = im_ChannelModes eA s c modes args.
Proof.
  unfold GoTracker.go_stateTracker_ChannelModes, im_ChannelModes, ch_parseModes. simpl.
  destruct (st_chans s !! c) as [ch|]; simpl; [|done].
  destruct (h_chan s !! ch) as [o|] eqn:Eo; simpl.
  - rewrite ext_cparse_eq. rewrite <- (mk_id ch s o Eo) at 2. rewrite fold_mk.
    destruct (foldM _ _ _) as [[[[op1 args1] cm1] ph1]|]; simpl; [|done].
    rewrite go_channel_Channel_eq. unfold mk. by destruct (im_chan_snap _ _ _).
  - destruct (foldM _ _ _) as [[[s1 op1] args1]|] eqn:Ef; simpl; [|done].
    pose proof (fold_none _ _ _ _ _ _ Eo Ef) as Hs. simpl in Hs. subst s1.
    unfold im_chan_snap. by rewrite Eo.
Qed.

(* ---------- the whole interface: one step, a run ---------- *)
Definition go_step (s : istate) (o : op) : option (istate * result) :=
  match o with
  | ONewNick n => x ← @GoTracker.go_stateTracker_NewNick G s n; Some (fst x, RNick (snd x))
  | OGetNick n => x ← with_state s (@GoTracker.go_stateTracker_GetNick G s n); Some (fst x, RNick (snd x))
  | OReNick a b => x ← @GoTracker.go_stateTracker_ReNick G s a b; Some (fst x, RNick (snd x))
  | ODelNick n => x ← @GoTracker.go_stateTracker_DelNick G s n; Some (fst x, RNick (snd x))
  | ONickInfo n i h r0 => x ← @GoTracker.go_stateTracker_NickInfo G s n i h r0; Some (fst x, RNick (snd x))
  | ONickModes n m => x ← @GoTracker.go_stateTracker_NickModes G s n m; Some (fst x, RNick (snd x))
  | ONewChannel c => x ← @GoTracker.go_stateTracker_NewChannel G s c; Some (fst x, RChan (snd x))
  | OGetChannel c => x ← with_state s (@GoTracker.go_stateTracker_GetChannel G s c); Some (fst x, RChan (snd x))
  | ODelChannel c => x ← @GoTracker.go_stateTracker_DelChannel G s c; Some (fst x, RChan (snd x))
  | OTopic c t => x ← @GoTracker.go_stateTracker_Topic G s c t; Some (fst x, RChan (snd x))
  | OChannelModes c m a => x ← @GoTracker.go_stateTracker_ChannelModes G s c m a; Some (fst x, RChan (snd x))
  | OMe => x ← with_state s (@GoTracker.go_stateTracker_Me G s); Some (fst x, RNick (snd x))
  | OIsOn c n => x ← with_state s (@GoTracker.go_stateTracker_IsOn G s c n); Some (fst x, RIsOn (fst (snd x)) (snd (snd x)))
  | OAssociate c n => x ← @GoTracker.go_stateTracker_Associate G s c n; Some (fst x, RPrivs (snd x))
  | ODissociate c n => s' ← @GoTracker.go_stateTracker_Dissociate G s c n; Some (s', RUnit)
  | OWipe => s' ← @GoTracker.go_stateTracker_Wipe G s; Some (s', RUnit)
  end.
Fixpoint go_run (s : istate) (ops : list op) : option (istate * list result) :=
  match ops with
  | [] => Some (s, [])
  | o :: ops' => x ← go_step s o; y ← go_run (fst x) ops'; Some (fst y, snd x :: snd y)
  end.

Lemma go_step_eq s o :
  (forall c ch, st_chans s !! c = Some ch -> is_Some (h_chan s !! ch)) ->
  go_step s o = im_step eA eN s o.
Proof.
  intros Hc. destruct o; unfold go_step, im_step.
  - by rewrite go_stateTracker_NewNick_eq.
  - by rewrite go_stateTracker_GetNick_eq.
  - by rewrite go_stateTracker_ReNick_eq.
  - by rewrite go_stateTracker_DelNick_eq.
  - by rewrite go_stateTracker_NickInfo_eq.
  - by rewrite go_stateTracker_NickModes_eq.
  - by rewrite go_stateTracker_NewChannel_eq.
  - by rewrite go_stateTracker_GetChannel_eq.
  - by rewrite go_stateTracker_DelChannel_eq.
  - by rewrite go_stateTracker_Topic_eq.
  - by rewrite go_stateTracker_ChannelModes_eq.
  - by rewrite go_stateTracker_Me_eq.
  - by rewrite go_stateTracker_IsOn_eq.
  - by rewrite go_stateTracker_Associate_eq.
  - rewrite go_stateTracker_Dissociate_eq; [done|]. apply Hc.
  - by rewrite go_stateTracker_Wipe_eq.
Qed.
End Eq.
