(* Proofs/NetWire.v — C13: every message the model server shows the client ([lines_for]) is a
   well-formed IRC message ([LineSend.wf_msg], the quantifier of C01), in every well-formed
   network state.  Hence (C01_recv) what recv's Trim + ParseLine delivers for its wire bytes is
   [LineSend.expected] of it, and the simulation holds on the RAW BYTES of a conformant session. *)
From Verif Require Import TrackerSpec TrackerSpecFacts StateHandlers Net NetObs NetProofs NetHandlers NetSim NetModes NetSimEv NetInv NetInv2.
From Verif Require GoBytes LineLib Line LineSend LineDeliver.
Open Scope Z_scope.

Notation mid_ok := LineSend.middle_ok (only parsing).

(* ---------- decimal numbers are protocol words ---------- *)
Definition is_dig (c : N) : bool := ((48 <=? c) && (c <=? 57))%N.
Lemma digits_aux_dig fuel : forall n acc, forallb is_dig acc = true -> forallb is_dig (GoBytes.digits_aux fuel n acc) = true.
Proof.
  induction fuel as [|f IH]; intros n acc H; [done|]. simpl.
  assert (D : forallb is_dig ((48 + n mod 10)%N :: acc) = true).
  { simpl. rewrite H, andb_true_r. unfold is_dig. pose proof (N.mod_upper_bound n 10). apply andb_true_intro. split; apply N.leb_le; lia. }
  destruct (n <? 10)%N; [exact D|by apply IH].
Qed.
Lemma digits_aux_ne fuel : forall n acc, acc <> [] -> GoBytes.digits_aux fuel n acc <> [].
Proof.
  induction fuel as [|f IH]; intros n acc H; [done|]. simpl. destruct (n <? 10)%N; [done|]. by apply IH.
Qed.
Lemma dig_word c : is_dig c = true -> LineSend.word_byte c = true /\ c <> 58%N.
Proof.
  unfold is_dig. intros H. apply andb_prop in H. destruct H as [H1 H2]. apply N.leb_le in H1, H2.
  assert (C : (c = 48 \/ c = 49 \/ c = 50 \/ c = 51 \/ c = 52 \/ c = 53 \/ c = 54 \/ c = 55 \/ c = 56 \/ c = 57)%N) by lia.
  destruct C as [->|[->|[->|[->|[->|[->|[->|[->|[->| ->]]]]]]]]]; done.
Qed.
Lemma dec_of_N_mid n : mid_ok (GoBytes.dec_of_N n) = true.
Proof.
  unfold GoBytes.dec_of_N. set (d := GoBytes.digits_aux _ n []).
  assert (Hd : forallb is_dig d = true) by (by apply digits_aux_dig).
  assert (Hn : d <> []).
  { unfold d. simpl. destruct (n <? 10)%N; [done|]. by apply digits_aux_ne. }
  unfold LineSend.middle_ok, LineSend.word_ok. destruct d as [|c r]; [done|]. simpl in Hd. apply andb_prop in Hd. destruct Hd as [Hc Hr].
  destruct (dig_word c Hc) as [Hw Hne]. simpl. rewrite Hw. simpl.
  replace (forallb LineSend.word_byte r) with true.
  - simpl. by apply negb_true_iff, N.eqb_neq.
  - symmetry. apply forallb_forall. intros x Hx. rewrite forallb_forall in Hr. by destruct (dig_word x (Hr x Hx)).
Qed.
Lemma dec_of_Z_mid z : mid_ok (GoBytes.dec_of_Z z) = true.
Proof.
  unfold GoBytes.dec_of_Z. destruct (z <? 0); [|apply dec_of_N_mid].
  pose proof (dec_of_N_mid (Z.to_N (- z))) as H. unfold LineSend.middle_ok, LineSend.word_ok in *.
  destruct (GoBytes.dec_of_N (Z.to_N (- z))) as [|c r]; [done|]. simpl in *.
  apply andb_prop in H. destruct H as [H _]. by rewrite H.
Qed.

(* ---------- names ---------- *)
Lemma nick_ok_name n : nick_ok n = true -> LineSend.name_ok n = true /\ mid_ok n = true.
Proof.
  unfold nick_ok. intros H. apply andb_prop in H. destruct H as [H1 H2]. split; [done|].
  unfold LineSend.name_ok in H1. apply andb_prop in H1. destruct H1 as [H1 _]. apply andb_prop in H1. destruct H1 as [H1 _].
  unfold LineSend.middle_ok. rewrite H1. simpl. destruct n as [|c r]; [done|].
  apply negb_true_iff in H2. unfold first_in, GoBytes.mem_byte in H2. cbn [existsb] in H2.
  rewrite !orb_false_iff in H2. apply negb_true_iff. tauto.
Qed.
Lemma chan_ok_mid c : chan_ok c = true -> mid_ok c = true.
Proof.
  unfold chan_ok. intros H. apply andb_prop in H. destruct H as [H1 H2]. unfold LineSend.middle_ok. rewrite H1. simpl.
  destruct c as [|x r]; [done|]. unfold first_in, GoBytes.mem_byte in H2. cbn [existsb] in H2. rewrite orb_false_r in H2.
  apply N.eqb_eq in H2. by subst.
Qed.
Lemma word_trailing c : LineSend.word_byte c = true -> LineSend.trailing_byte c = true.
Proof.
  unfold LineSend.word_byte, LineSend.trailing_byte. intros H. apply andb_prop in H. destruct H as [H1 H2]. rewrite H2. simpl.
  apply negb_true_iff in H1. destruct c as [|p]; [done|]. do 5 (destruct p as [p|p|]; try done).
Qed.
Lemma nick_ok_trailing n : nick_ok n = true -> forallb LineSend.trailing_byte n = true.
Proof.
  intros H. destruct (nick_ok_name n H) as [_ Hm]. unfold LineSend.middle_ok, LineSend.word_ok in Hm.
  apply andb_prop in Hm. destruct Hm as [Hm _]. apply andb_prop in Hm. destruct Hm as [_ Hw].
  apply forallb_forall. intros x Hx. rewrite forallb_forall in Hw. by apply word_trailing, Hw.
Qed.

(* ---------- messages ---------- *)
Lemma wf_mk src verb mids tr :
  LineSend.src_ok (Some src) = true -> LineSend.verb_ok verb = true ->
  LineSend.is_msg_cmd (GoBytes.to_upper verb) = false ->
  Nat.leb (length mids) 14 = true -> forallb LineSend.middle_ok mids = true -> LineSend.trailing_ok tr = true ->
  LineSend.wf_msg (mk src verb mids tr) = true.
Proof.
  intros Hs Hv Hc Hl Hm Ht. unfold LineSend.wf_msg, mk.
  cbn [LineSend.mtags LineSend.msrc LineSend.verb LineSend.middles LineSend.trailing LineSend.tags_ok].
  rewrite Hs, Hv, Ht. unfold LineSend.ctcp_wf. rewrite Hc. cbn [andb]. rewrite !andb_true_r.
  unfold LineSend.middles_ok. rewrite map_length.
  apply andb_true_intro. split; [done|].
  rewrite forallb_forall in Hm. apply forallb_forall. intros [k p] Hp. simpl. apply Hm.
  apply in_map_iff in Hp. destruct Hp as (x & E & Hx). by inversion E; subst.
Qed.

Lemma usrc_ok nt n : wf_net nt -> LineSend.src_ok (Some (usrc nt n)) = true.
Proof.
  intros W. unfold usrc. destruct (n_users nt !! n) as [ui|] eqn:L; [|done].
  destruct (wf_users nt W n ui L) as (H1 & H2 & H3 & _). destruct (nick_ok_name n H1) as [H1' _]. simpl. by rewrite H1', H2, H3.
Qed.

Lemma member_nick_ok nt c n : wf_net nt -> onN nt c n -> nick_ok n = true.
Proof. intros W H. destruct (wf_mem nt W c n H) as [_ [ui Hu]]. by destruct (wf_users nt W n ui Hu). Qed.
Lemma member_chan_ok nt c n : wf_net nt -> onN nt c n -> chan_ok c = true.
Proof. intros W H. destruct (wf_mem nt W c n H) as [[a Ha] _]. by destruct (wf_chans nt W c a Ha). Qed.
Lemma me_ok nt : wf_net nt -> mid_ok (n_me nt) = true.
Proof. intros W. destruct (wf_me nt W) as [ui Hu]. destruct (wf_users nt W _ ui Hu) as (H & _). by destruct (nick_ok_name _ H). Qed.

Lemma forallb_join (P : N -> bool) l s :
  P s = true -> Forall (fun x => forallb P x = true) l -> forallb P (GoBytes.join l [s]) = true.
Proof.
  intros Hs H. induction H as [|x l Hx Hl IH]; [done|]. destruct l as [|y l]; [exact Hx|].
  change (GoBytes.join (x :: y :: l) [s]) with (x ++ [s] ++ GoBytes.join (y :: l) [s]).
  rewrite !forallb_app, Hx, IH. simpl. by rewrite Hs.
Qed.

Lemma name_token_trailing e : nick_ok (fst e) = true -> forallb LineSend.trailing_byte (name_token e) = true.
Proof.
  intros H. unfold name_token, prefix_bytes. rewrite forallb_app, (nick_ok_trailing _ H), andb_true_r.
  destruct (highest_letter (snd e)) as [x|] eqn:Hx; [|done].
  destruct (priv_letter_cases _ _ Hx) as [->|[->|[->|[-> | ->]]]]; done.
Qed.

Lemma who_flags_mid p : mid_ok (72%N :: prefix_bytes p) = true.
Proof. unfold prefix_bytes, highest_letter. destruct (cp_q p), (cp_a p), (cp_o p), (cp_h p), (cp_v p); done. Qed.

Lemma who_msg_wf nt chan n ui p :
  wf_net nt -> mid_ok chan = true -> n_users nt !! n = Some ui ->
  LineSend.wf_msg (who_msg (n_me nt) chan n ui p) = true.
Proof.
  intros W Hc Hu. destruct (wf_users nt W n ui Hu) as (H1 & _ & _ & H4 & H5 & H6).
  destruct (nick_ok_name n H1) as [_ Hn]. unfold who_msg. apply wf_mk; try done.
  cbn [forallb]. rewrite (me_ok nt W), Hc, H5, H6, Hn, who_flags_mid. done.
Qed.

(* ---------- mode strings ---------- *)
Definition letter_ok (m : mchange) : Prop := LineSend.word_byte (chg_letter m) = true.
Lemma valid_letter_ok mem c m : chg_valid mem c m = true -> letter_ok m.
Proof.
  unfold letter_ok. destruct m as [add x|add k|add l|add x n|add x mask]; simpl; try done.
  - intros H. destruct (flag_cases x H) as [->|[->|[->|[->|[->|[->|[->|[->|[->| ->]]]]]]]]]; done.
  - intros H. apply andb_prop in H. destruct H as [H _]. destruct (priv_cases x H) as [->|[->|[->|[-> | ->]]]]; done.
  - intros H. apply andb_prop in H. destruct H as [H _]. destruct (list_cases x H) as [->|[-> | ->]]; done.
Qed.
Lemma render_modes_bytes chs : forall cur, Forall letter_ok chs -> forallb LineSend.word_byte (render_modes cur chs) = true.
Proof.
  induction chs as [|m r IH]; intros cur H; [done|]. inversion H as [|? ? H1 H2]; subst.
  simpl. rewrite forallb_app. simpl. rewrite H1, (IH _ H2). case_bool_decide; [done|]. by destruct (chg_sign m).
Qed.
Lemma render_modes_mid chs : chs <> [] -> Forall letter_ok chs -> mid_ok (render_modes None chs) = true.
Proof.
  intros Hne H. pose proof (render_modes_bytes chs None H) as Hb. destruct chs as [|m r]; [done|].
  simpl in *. try (rewrite bool_decide_eq_false_2 in * by done). simpl in *.
  unfold LineSend.middle_ok, LineSend.word_ok. simpl. apply andb_prop in Hb. destruct Hb as [Hb1 Hb2].
  rewrite Hb1, Hb2. by destruct (chg_sign m).
Qed.
Lemma mode_args_len chs : (length (mode_args chs) <= length chs)%nat.
Proof. unfold mode_args. induction chs as [|m r IH]; simpl; [done|]. unfold omap in IH. destruct (chg_arg m); simpl; lia. Qed.
Lemma valid_args_mid nt c chs :
  wf_net nt -> forallb (chg_valid (n_member nt) c) chs = true -> forallb LineSend.middle_ok (mode_args chs) = true.
Proof.
  intros W H. induction chs as [|m r IH]; [done|]. simpl in H. apply andb_prop in H. destruct H as [H1 H2].
  pose proof (mode_args_cons m r []) as E. rewrite !app_nil_r in E. rewrite E, forallb_app. apply andb_true_intro. split; [|exact (IH H2)].
  destruct m as [add x|add k|add l|add x n|add x mask]; simpl in *; try done.
  - by rewrite H1.
  - destruct add; [|done]. simpl. by rewrite dec_of_Z_mid.
  - apply andb_prop in H1. destruct H1 as [_ H1]. apply onb_spec in H1.
    by destruct (nick_ok_name _ (member_nick_ok nt c n W H1)) as [_ ->].
  - apply andb_prop in H1. destruct H1 as [_ ->]. done.
Qed.

Lemma reply_changes_facts cm :
  (cm_key cm = [] \/ mid_ok (cm_key cm) = true) ->
  Forall letter_ok (reply_changes cm) /\ forallb LineSend.middle_ok (mode_args (reply_changes cm)) = true
  /\ (length (mode_args (reply_changes cm)) <= 2)%nat.
Proof.
  intros Hk. unfold reply_changes, flag_changes.
  assert (F : forall (b : bool) x, LineSend.word_byte x = true -> Forall letter_ok (if b then [MFlag true x] else [])).
  { intros [] x Hx; by repeat constructor. }
  split; [|split].
  - rewrite !Forall_app. repeat split; try (by apply F).
    + destruct (cm_key cm); [constructor|by repeat constructor].
    + destruct (cm_limit cm =? 0); [constructor|by repeat constructor].
  - unfold mode_args. rewrite !omap_app.
    assert (G : forall (b : bool) x, omap chg_arg (if b then [MFlag true x] else []) = []) by (by intros []).
    rewrite !G. simpl. destruct (cm_key cm) as [|k0 kr] eqn:Ek; simpl.
    + destruct (cm_limit cm =? 0); [done|]. simpl. by rewrite dec_of_Z_mid.
    + destruct Hk as [?|Hk]; [done|]. rewrite Hk. simpl. destruct (cm_limit cm =? 0); [done|]. simpl. by rewrite dec_of_Z_mid.
  - unfold mode_args. rewrite !omap_app.
    assert (G : forall (b : bool) x, omap chg_arg (if b then [MFlag true x] else []) = []) by (by intros []).
    rewrite !G. simpl. destruct (cm_key cm); destruct (cm_limit cm =? 0); simpl; lia.
Qed.

(* ---------- every line of every event ---------- *)
Theorem lines_wf nt e : wf_net nt -> Forall (fun m => LineSend.wf_msg m = true) (lines_for nt e).
Proof.
  intros W. pose proof (wf_step nt e W) as W'. unfold lines_for. destruct (ev_valid nt e) eqn:Hv; cbn [negb]; [|constructor].
  pose proof (me_ok nt W) as Hme.
  destruct e as [n u h r|n c|n c msg|a c v msg|n msg|o w|a c tp|a c chs|c|c|n]; cbn [ev_valid] in Hv.
  - constructor.
  - (* EJoin *)
    apply andb_prop in Hv. destruct Hv as [Hv Hnot]. apply andb_prop in Hv. destruct Hv as [Hu Hc].
    pose proof (chan_ok_mid c Hc) as Hcm.
    assert (J : LineSend.wf_msg (mk (usrc nt n) v_JOIN [c] None) = true).
    { apply wf_mk; try done; [by apply usrc_ok|]. cbn [forallb]. by rewrite Hcm. }
    destruct (decide (n = n_me nt)) as [Eme|Nme]; [|destruct (onb (n_member nt) c (n_me nt)); repeat constructor; done].
    set (nt' := step nt (EJoin n c)) in *.
    rewrite !Forall_app. split; [by repeat constructor|]. split; [|split].
    + destruct (ca_topic (default new_chanattr (n_chans nt' !! c))) as [|x tp] eqn:Et; [constructor|]. repeat constructor.
      apply wf_mk; try done.
      * cbn [forallb]. by rewrite Hme, Hcm.
      * destruct (n_chans nt' !! c) as [a|] eqn:La; simpl in Et; [|done].
        destruct (wf_chans nt' W' c a La) as (_ & Ht & _). by rewrite Et in Ht.
    + apply Forall_forall. intros m Hm. apply elem_of_list_In, in_map_iff in Hm. destruct Hm as (ch & <- & Hch).
      unfold names_msg. apply wf_mk; try done.
      * cbn [forallb]. by rewrite Hme, Hcm.
      * cbn [LineSend.trailing_ok]. apply forallb_join; [done|]. apply Forall_forall. intros tok Ht. apply elem_of_list_In, in_map_iff in Ht.
        destruct Ht as (e & <- & He). apply name_token_trailing.
        assert (Hin : In e (chan_members nt' c)).
        { rewrite <- (chunks_concat names_per_line (chan_members nt' c)). apply in_concat. by exists ch. }
        apply chan_members_In in Hin. destruct Hin as [[ui Hu'] _]. by destruct (wf_users nt' W' _ ui Hu').
    + repeat constructor. apply wf_mk; try done. cbn [forallb]. by rewrite Hme, Hcm.
  - (* EPart *)
    apply andb_prop in Hv. destruct Hv as [Hon Hmsg]. apply onb_spec in Hon.
    destruct (onb (n_member nt) c (n_me nt)); repeat constructor.
    apply wf_mk; try done; [by apply usrc_ok|]. cbn [forallb]. by rewrite (chan_ok_mid c (member_chan_ok nt c n W Hon)).
  - (* EKick *)
    apply andb_prop in Hv. destruct Hv as [Hv Hmsg]. apply andb_prop in Hv. destruct Hv as [Hon _]. apply onb_spec in Hon.
    destruct (onb (n_member nt) c (n_me nt)); repeat constructor.
    apply wf_mk; try done; [by apply usrc_ok|]. cbn [forallb].
    rewrite (chan_ok_mid c (member_chan_ok nt c v W Hon)). by destruct (nick_ok_name _ (member_nick_ok nt c v W Hon)) as [_ ->].
  - (* EQuit *)
    apply andb_prop in Hv. destruct Hv as [_ Hmsg]. destruct (shares nt n); repeat constructor.
    apply wf_mk; try done. by apply usrc_ok.
  - (* ENick *)
    apply andb_prop in Hv. destruct Hv as [_ Hok]. destruct (_ || _); repeat constructor.
    apply wf_mk; try done; [by apply usrc_ok|]. simpl. by destruct (nick_ok_name w Hok) as [_ ->].
  - (* ETopic *)
    apply andb_prop in Hv. destruct Hv as [Hv Ht]. apply andb_prop in Hv. destruct Hv as [Hc _].
    apply bool_decide_eq_true in Hc. destruct Hc as [ca Hca]. destruct (wf_chans nt W c ca Hca) as (Hok & _).
    destruct (onb (n_member nt) c (n_me nt)); repeat constructor.
    apply wf_mk; try done; [by apply usrc_ok|]. cbn [forallb]. by rewrite (chan_ok_mid c Hok).
  - (* EMode *)
    apply andb_prop in Hv. destruct Hv as [Hv Hlen8]. apply andb_prop in Hv. destruct Hv as [Hv Hlen1].
    apply andb_prop in Hv. destruct Hv as [Hv Hch]. apply andb_prop in Hv. destruct Hv as [Hc _].
    apply bool_decide_eq_true in Hc. destruct Hc as [ca Hca]. destruct (wf_chans nt W c ca Hca) as (Hok & _).
    apply Nat.leb_le in Hlen8, Hlen1.
    destruct (onb (n_member nt) c (n_me nt)); repeat constructor.
    apply wf_mk; try done; [by apply usrc_ok| |].
    + apply Nat.leb_le. pose proof (mode_args_len chs). rewrite app_length. cbn [length]. lia.
    + rewrite forallb_app. apply andb_true_intro. split; [|by apply (valid_args_mid nt c chs W Hch)].
      cbn [forallb]. rewrite (chan_ok_mid c Hok), andb_true_r. cbn [andb].
      apply render_modes_mid; [destruct chs; [simpl in Hlen1; lia|done]|].
      apply Forall_forall. intros m Hm. rewrite forallb_forall in Hch. apply (valid_letter_ok (n_member nt) c).
      apply Hch. by apply elem_of_list_In.
  - (* EReplyMode *)
    destruct (n_chans nt !! c) as [ca|] eqn:Hca; [|constructor]. destruct (wf_chans nt W c ca Hca) as (Hok & _ & Hk & _).
    destruct (reply_changes_facts (ca_modes ca) Hk) as (R1 & R2 & R3).
    repeat constructor. apply wf_mk; try done.
    + apply Nat.leb_le. rewrite app_length. cbn [length]. lia.
    + rewrite forallb_app. apply andb_true_intro. split; [|exact R2].
      cbn [forallb]. rewrite Hme, (chan_ok_mid c Hok), andb_true_r. cbn [andb].
      unfold reply_modestring. destruct (reply_changes (ca_modes ca)) as [|m r] eqn:Er; [done|]. by apply render_modes_mid.
  - (* EReplyWhoChan *)
    pose proof (chan_ok_mid c Hv) as Hcm. rewrite Forall_app. split.
    + destruct (onb (n_member nt) c (n_me nt)); [|constructor].
      apply Forall_forall. intros m Hm. apply elem_of_list_In, in_map_iff in Hm. destruct Hm as (e & <- & He).
      apply chan_members_In in He. destruct He as [[ui Hu] _]. unfold user_or_empty. rewrite Hu. simpl.
      by apply who_msg_wf.
    + repeat constructor. apply wf_mk; try done. cbn [forallb]. by rewrite Hme, Hcm.
  - (* EReplyWhoNick *)
    destruct (nick_ok_name n Hv) as [_ Hnm]. rewrite Forall_app. split.
    + destruct (n_users nt !! n) as [ui|] eqn:Hu; [|constructor]. repeat constructor. by apply who_msg_wf.
    + repeat constructor. apply wf_mk; try done. cbn [forallb]. by rewrite Hme, Hnm.
Qed.

(* ---------- conformant sessions on the wire ---------- *)
(* the bytes a conformant server sends for a session: each message rendered, CR LF appended *)
Fixpoint session_wire (nt : net) (evs : list event) : list bytes :=
  match evs with
  | [] => []
  | e :: r => map LineSend.wire (lines_for nt e) ++ session_wire (step nt e) r
  end.

Lemma run_raw_app t a b : run_raw t (a ++ b) = run_raw (run_raw t a) b.
Proof. unfold run_raw. by rewrite fold_left_app. Qed.

Lemma run_raw_wire ms : forall t, Forall (fun m => LineSend.wf_msg m = true) ms ->
  run_raw t (map LineSend.wire ms) = feed t ms.
Proof.
  induction ms as [|m r IH]; intros t H; [done|]. inversion H as [|? ? H1 H2]; subst.
  simpl map. unfold run_raw. simpl fold_left. fold (run_raw (step_raw t (LineSend.wire m)) (map LineSend.wire r)).
  unfold step_raw. rewrite (LineDeliver.recv_roundtrip m H1). rewrite IH by done. by rewrite feed_cons.
Qed.

Theorem sim_bytes evs : forall nt,
  wf_net nt -> Forall (fun e => ev_inclaim e = true) evs ->
  run_raw (n_view nt) (session_wire nt evs) = n_view (run_net nt evs) /\ wf_net (run_net nt evs).
Proof.
  induction evs as [|e r IH]; intros nt W Hi; [done|]. inversion Hi as [|? ? Hi1 Hi2]; subst.
  simpl session_wire. rewrite run_raw_app, (run_raw_wire _ _ (lines_wf nt e W)), (sim_step nt e W Hi1).
  simpl run_net. apply (IH (step nt e)); [by apply wf_step|done].
Qed.

(* the same at the level of parsed lines *)
Theorem sim_all evs nt :
  wf_net nt -> Forall (fun e => ev_inclaim e = true) evs -> track nt (n_view nt) evs = n_view (run_net nt evs).
Proof. intros W Hi. apply sim_session; [|done]. intros k. by apply wf_run. Qed.
