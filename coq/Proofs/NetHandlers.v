(* Proofs/NetHandlers.v — C13: what each state handler does on a line of the expected shape
   (enough arguments): the guards pass, no index operation panics, and the handler is exactly
   the tracker call(s) written in the source.  Pure facts about Model/StateHandlers.v. *)
From Verif Require Import TrackerSpec TrackerSpecFacts StateHandlers NetProofs.
From Verif Require GoBytes LineLib Line LineSend.
Open Scope Z_scope.

(* ---------- partial list operations on lists of known shape ---------- *)
Lemma elem_at_nat {A} (l : list A) (n : nat) x :
  nth_error l n = Some x -> GoBytes.elem_at l (Z.of_nat n) = GoBytes.Ok x.
Proof.
  intros H. unfold GoBytes.elem_at.
  assert (n < length l)%nat by (apply nth_error_Some; congruence).
  replace (0 <=? Z.of_nat n) with true by (symmetry; apply Z.leb_le; lia).
  replace (Z.of_nat n <? Z.of_nat (length l)) with true by (symmetry; apply Z.ltb_lt; lia).
  simpl. by rewrite Nat2Z.id, H.
Qed.
Lemma elems_from_nat {A} (l : list A) (n : nat) :
  (n <= length l)%nat -> GoBytes.elems_from l (Z.of_nat n) = GoBytes.Ok (skipn n l).
Proof.
  intros H. unfold GoBytes.elems_from.
  replace (0 <=? Z.of_nat n) with true by (symmetry; apply Z.leb_le; lia).
  replace (Z.of_nat n <=? Z.of_nat (length l)) with true by (symmetry; apply Z.leb_le; lia).
  simpl. by rewrite Nat2Z.id.
Qed.
Lemma argslen_nat l (n : nat) : (n < length (Line.l_args l))%nat -> argslen l (Z.of_nat n) = true.
Proof.
  intros H. unfold argslen, LineLib.llen. apply negb_true_iff. apply Z.leb_gt. lia.
Qed.
Lemma arg_nat l (n : nat) s k x :
  nth_error (Line.l_args l) n = Some x -> arg l (Z.of_nat n) s k = k x.
Proof. intros H. apply arg_ok. by apply elem_at_nat. Qed.
Lemma last_arg_nat l s k x :
  nth_error (Line.l_args l) (length (Line.l_args l) - 1) = Some x -> last_arg l s k = k x.
Proof.
  intros H. unfold last_arg.
  assert (length (Line.l_args l) - 1 < length (Line.l_args l))%nat by (apply nth_error_Some; congruence).
  replace (LineLib.llen (Line.l_args l) - 1) with (Z.of_nat (length (Line.l_args l) - 1))
    by (unfold LineLib.llen; lia).
  by apply arg_nat.
Qed.

Lemma arg_Z l (i : Z) s k x :
  nth_error (Line.l_args l) (Z.to_nat i) = Some x -> 0 <= i -> arg l i s k = k x.
Proof. intros H Hi. rewrite <- (Z2Nat.id i) by done. by apply arg_nat. Qed.
Lemma argslen_Z l (n : Z) : n < Z.of_nat (length (Line.l_args l)) -> argslen l n = true.
Proof. intros H. unfold argslen, LineLib.llen. apply negb_true_iff. apply Z.leb_gt. lia. Qed.
Lemma elems_from_Z {A} (l : list A) (n : Z) :
  0 <= n <= Z.of_nat (length l) -> GoBytes.elems_from l n = GoBytes.Ok (skipn (Z.to_nat n) l).
Proof. intros H. rewrite <- (Z2Nat.id n) at 1 by lia. apply elems_from_nat. lia. Qed.

Ltac args_shape E :=
  repeat first
    [ rewrite (arg_Z _ 0 _ _ _ ltac:(rewrite E; reflexivity) ltac:(lia))
    | rewrite (arg_Z _ 1 _ _ _ ltac:(rewrite E; reflexivity) ltac:(lia))
    | rewrite (arg_Z _ 2 _ _ _ ltac:(rewrite E; reflexivity) ltac:(lia))
    | rewrite (arg_Z _ 3 _ _ _ ltac:(rewrite E; reflexivity) ltac:(lia))
    | rewrite (arg_Z _ 5 _ _ _ ltac:(rewrite E; reflexivity) ltac:(lia))
    | rewrite (arg_Z _ 6 _ _ _ ltac:(rewrite E; reflexivity) ltac:(lia)) ].

Definition st0 (t : tstate) : hst := {| h_trk := t; h_out := [] |}.

(* ---------- the handlers on well-shaped lines ---------- *)
Lemma h_STNICK_spec l s w rest :
  Line.l_args l = w :: rest -> h_STNICK l s = HOk (tr_ s (fun t => sp_ReNick t (Line.l_nick l) w)).
Proof. intros E. unfold h_STNICK. by args_shape E. Qed.

Lemma h_PART_spec l s c rest :
  Line.l_args l = c :: rest -> h_PART l s = HOk (tru s (fun t => sp_Dissociate t c (Line.l_nick l))).
Proof. intros E. unfold h_PART. by args_shape E. Qed.

Lemma h_KICK_spec l s c v rest :
  Line.l_args l = c :: v :: rest -> h_KICK l s = HOk (tru s (fun t => sp_Dissociate t c v)).
Proof.
  intros E. unfold h_KICK. rewrite (argslen_Z l 1) by (rewrite E; simpl; lia). cbn [negb]. by args_shape E.
Qed.

Lemma h_TOPIC_spec l s c tp rest :
  Line.l_args l = c :: tp :: rest ->
  h_TOPIC l s = HOk (if is_some (snd (sp_GetChannel (h_trk s) c)) then tr_ s (fun t => sp_Topic t c tp) else s).
Proof.
  intros E. unfold h_TOPIC. rewrite (argslen_Z l 1) by (rewrite E; simpl; lia). cbn [negb]. args_shape E.
  destruct (is_some _); [|done]. by args_shape E.
Qed.

Lemma h_332_spec l s a0 c tp rest :
  Line.l_args l = a0 :: c :: tp :: rest ->
  h_332 l s = HOk (if is_some (snd (sp_GetChannel (h_trk s) c)) then tr_ s (fun t => sp_Topic t c tp) else s).
Proof.
  intros E. unfold h_332. rewrite (argslen_Z l 2) by (rewrite E; simpl; lia). cbn [negb]. args_shape E.
  destruct (is_some _); [|done]. by args_shape E.
Qed.

Lemma h_MODE_chan_spec l s c m rest :
  Line.l_args l = c :: m :: rest -> is_some (snd (sp_GetChannel (h_trk s) c)) = true ->
  h_MODE l s = HOk (tr_ s (fun t => sp_ChannelModes t c m rest)).
Proof.
  intros E Hc. unfold h_MODE. rewrite (argslen_Z l 1) by (rewrite E; simpl; lia). cbn [negb]. args_shape E.
  rewrite Hc. args_shape E.
  rewrite (elems_from_Z _ 2) by (rewrite E; simpl; lia). cbn [pget Z.to_nat Pos.to_nat Pos.iter_op Nat.add skipn]. by rewrite E.
Qed.

Lemma h_324_spec l s a0 c m rest :
  Line.l_args l = a0 :: c :: m :: rest ->
  h_324 l s = HOk (if is_some (snd (sp_GetChannel (h_trk s) c))
                   then tr_ s (fun t => sp_ChannelModes t c m rest) else s).
Proof.
  intros E. unfold h_324. rewrite (argslen_Z l 2) by (rewrite E; simpl; lia). cbn [negb]. args_shape E.
  destruct (is_some _); [|done]. args_shape E.
  rewrite (elems_from_Z _ 3) by (rewrite E; simpl; lia). cbn [pget Z.to_nat Pos.to_nat Pos.iter_op Nat.add skipn]. by rewrite E.
Qed.

(* the three WHO flags on a flags word "H" ++ prefix: only "H" matches *)
Definition who_modes (flags : bytes) (n : name) (t : tstate) : tstate :=
  let t1 := if negb (GoBytes.index flags s_star =? -1) then fst (sp_NickModes t n m_plus_o) else t in
  let t2 := if negb (GoBytes.index flags s_B =? -1) then fst (sp_NickModes t1 n m_plus_B) else t1 in
  if negb (GoBytes.index flags s_H =? -1) then fst (sp_NickModes t2 n m_plus_i) else t2.

Lemma h_352_spec l s a0 a1 u h a4 n flags lastw real :
  Line.l_args l = [a0; a1; u; h; a4; n; flags; lastw] ->
  GoBytes.split2 lastw Line.s_space = [[48%N]; real] ->
  h_352 l s = HOk (match snd (sp_GetNick (h_trk s) n) with
                   | None => s
                   | Some nk => if me_equals (h_trk s) (Some nk) then s
                                else tru s (fun t => who_modes flags (sn_nick nk) (fst (sp_NickInfo t (sn_nick nk) u h real)))
                   end).
Proof.
  intros E Hs. unfold h_352. rewrite (argslen_Z l 5) by (rewrite E; simpl; lia). cbn [negb]. args_shape E.
  destruct (snd (sp_GetNick (h_trk s) n)) as [nk|]; [|done].
  destruct (me_equals (h_trk s) (Some nk)); [done|].
  rewrite (last_arg_nat l _ _ lastw) by (by rewrite E). args_shape E. rewrite Hs. simpl pget.
  rewrite (argslen_Z l 6) by (rewrite E; simpl; lia). simpl negb. cbv iota.
  unfold who_flag. args_shape E. unfold who_modes, tru, tr_, tr. simpl.
  repeat (destruct (negb _)); reflexivity.
Qed.

Lemma h_353_spec l s a0 a1 c names :
  Line.l_args l = [a0; a1; c; names] ->
  h_353 l s = match snd (sp_GetChannel (h_trk s) c) with
              | Some ch => names_loop (sc_name ch) (GoBytes.split_byte names 32%N) s
              | None => HOk s
              end.
Proof.
  intros E. unfold h_353. rewrite (argslen_Z l 2) by (rewrite E; simpl; lia). cbn [negb]. args_shape E.
  destruct (snd (sp_GetChannel (h_trk s) c)); [|done].
  by rewrite (last_arg_nat l _ _ names) by (by rewrite E).
Qed.

Lemma h_JOIN_spec l s c rest :
  Line.l_args l = c :: rest ->
  let nk := snd (sp_GetNick (h_trk s) (Line.l_nick l)) in
  let assoc (s : hst) := tr_ s (fun t => sp_Associate t c (Line.l_nick l)) in
  let nick (s : hst) :=
    if is_some nk then assoc s
    else assoc (send (tr_ (tr_ s (fun t => sp_NewNick t (Line.l_nick l)))
                          (fun t => sp_NickInfo t (Line.l_nick l) (Line.l_ident l) (Line.l_host l) []))
                     (who_lines (Line.l_nick l))) in
  h_JOIN l s = HOk (if is_some (snd (sp_GetChannel (h_trk s) c)) then nick s
                    else if negb (me_equals (h_trk s) nk) then s
                    else nick (send (send (tr_ s (fun t => sp_NewChannel t c)) (mode_lines c)) (who_lines c))).
Proof.
  intros E. cbv zeta. unfold h_JOIN, join_nick, join_assoc. args_shape E.
  destruct (is_some (snd (sp_GetChannel (h_trk s) c))).
  - destruct (is_some _); by args_shape E.
  - destruct (negb _); [done|]. destruct (is_some _); by args_shape E.
Qed.

(* ---------- dispatch: the verb selects its handler (ASCII ToLower instance) ---------- *)
Lemma handle_verb t l h :
  find_sth GoBytes.to_lower (Line.l_cmd l) = Some h -> handle_state t l = sth_run h l (st0 t).
Proof. intros H. unfold handle_state, handle_state_with. by rewrite H. Qed.
