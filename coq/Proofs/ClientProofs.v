(* Proofs/ClientProofs.v — lemmas about the composed client (Model/Client.v):
   (a) no panic escapes ([client_line_total]);  (b) frame lemmas: which component a handler
   touches;  (c) the component theorems (C13 tracker invariants, C17 never-nil, C18 PONG,
   C19 negotiation) re-stated on whole sessions through [client_session].  std++ side. *)
From Verif Require Import TrackerSpec TrackerSpecFacts StateHandlers NetProofs Client.
From Verif Require GoBytes LineLib Line LineSend Commands NickHandlers Register Caps.
From Verif Require GoBytesFacts LineTotal LineDeliver NickProofs RegisterProofs CapsProofs ClientLineFacts.
Open Scope Z_scope.

(* ================= (a) totality: every handler panic is contained ================= *)
Lemma run_handlers_recovering hs : forall s l, is_Some (run_handlers recovering_c hs s l).
Proof.
  induction hs as [|h hs IH]; intros s l; simpl; [eauto|].
  destruct (IH (cres_st (hnd_run h s (Line.copy_line l))) l) as [r ->]. eauto.
Qed.

Theorem client_line_total s raw : client_line_res s raw <> GoBytes.Panic.
Proof.
  unfold client_line_res, client_line_with.
  pose proof (LineTotal.recv_one_total raw) as T.
  destruct (Line.recv_one raw) as [[l|]|]; [|done|done].
  unfold client_dispatch_with.
  by destruct (run_handlers_recovering (handlers_for s (Line.l_cmd l)) s l) as [r ->].
Qed.

Theorem client_line_ok s raw : client_line_res s raw = GoBytes.Ok (client_line s raw).
Proof.
  unfold client_line. pose proof (client_line_total s raw) as T.
  by destruct (client_line_res s raw).
Qed.

(* every line is accounted for *)
Lemma client_session_length raws : forall s, length (snd (client_session s raws)) = length raws.
Proof. induction raws as [|x r IH]; intros s; simpl; [done|]. by rewrite IH. Qed.

Lemma client_session_app r1 : forall s r2,
  client_session s (r1 ++ r2) =
  (fst (client_session (fst (client_session s r1)) r2),
   snd (client_session s r1) ++ snd (client_session (fst (client_session s r1)) r2)).
Proof.
  induction r1 as [|x r IH]; intros s r2; simpl.
  - by destruct (client_session s r2).
  - by rewrite IH.
Qed.

(* a rejected line (ParseLine nil) changes nothing; a parsed one is dispatched *)
Lemma client_line_rejected s raw : Line.recv_one raw = GoBytes.Ok None -> client_line s raw = (s, []).
Proof. intros H. unfold client_line, client_line_res, client_line_with. by rewrite H. Qed.

Lemma client_line_dispatched s raw l : Line.recv_one raw = GoBytes.Ok (Some l) ->
  client_dispatch_with recovering_c s l = Some (client_line s raw).
Proof.
  intros H. unfold client_line, client_line_res, client_line_with. rewrite H.
  unfold client_dispatch_with.
  by destruct (run_handlers_recovering (handlers_for s (Line.l_cmd l)) s l) as [r ->].
Qed.

(* ================= preservation / frame principle ================= *)
Section Rel.
  Variable R : cstate -> cstate -> Prop.
  Hypothesis R_refl : forall s, R s s.
  Hypothesis R_trans : forall a b c, R a b -> R b c -> R a c.
  Variable Q : hnd -> Prop.
  Hypothesis step : forall h, Q h -> forall s l, R s (cres_st (hnd_run h s l)).

  Lemma run_handlers_rel hs : Forall Q hs -> forall s l r,
    run_handlers recovering_c hs s l = Some r -> R s (fst r).
  Proof.
    induction 1 as [|h hs Hh Hs IH]; intros s l r; simpl.
    - intros [= <-]. apply R_refl.
    - destruct (run_handlers recovering_c hs _ l) as [r2|] eqn:E; [|done].
      intros [= <-]. simpl. eapply R_trans; [by apply step|]. by apply (IH _ _ _ E).
  Qed.
End Rel.

Section Pres.
  Variable P : cstate -> Prop.
  Hypothesis step : forall h s l, P s -> P (cres_st (hnd_run h s l)).

  Lemma run_handlers_pres hs : forall s l r, P s -> run_handlers recovering_c hs s l = Some r -> P (fst r).
  Proof.
    induction hs as [|h hs IH]; intros s l r Hs; simpl.
    - by intros [= <-].
    - destruct (run_handlers recovering_c hs _ l) as [r2|] eqn:E; [|done].
      intros [= <-]. simpl. eapply IH; [|exact E]. by apply step.
  Qed.

  Lemma client_line_pres s raw : P s -> P (fst (client_line s raw)).
  Proof.
    intros Hs. destruct (Line.recv_one raw) as [[l|]|] eqn:E.
    - eapply run_handlers_pres; [exact Hs|]. exact (client_line_dispatched s raw l E).
    - by rewrite client_line_rejected.
    - by destruct (LineTotal.recv_one_total raw).
  Qed.

  Lemma client_session_pres raws : forall s, P s -> P (fst (client_session s raws)).
  Proof.
    induction raws as [|x r IH]; intros s Hs; simpl; [done|]. apply IH. by apply client_line_pres.
  Qed.
End Pres.

(* ================= (b) frame lemmas ================= *)
(* which component a registered handler belongs to *)
Definition caps_ih (h : ih) : bool :=
  match h with IhCAP | Ih410 | IhAUTHENTICATE | Ih903 | Ih904 | Ih908 => true | _ => false end.
Definition pure_ih (h : ih) : bool :=
  match h with IhPING | IhCTCP | IhREGISTER => true | _ => false end.
Definition nick_ih (h : ih) : bool :=
  match h with Ih001 | Ih433 | IhNICK => true | _ => false end.
Definition caps_hnd (h : hnd) : Prop := match h with HInt i => caps_ih i = true | HSt _ => False end.
Definition pure_hnd (h : hnd) : Prop := match h with HInt i => pure_ih i = true | HSt _ => False end.
Definition noncaps_hnd (h : hnd) : Prop := match h with HInt i => caps_ih i = false | HSt _ => True end.

Definition same_cfg (s s' : cstate) : Prop := c_cfg s' = c_cfg s.
Definition same_nick_trk (s s' : cstate) : Prop := c_me s' = c_me s /\ c_trk s' = c_trk s.
Definition same_caps (s s' : cstate) : Prop := c_caps s' = c_caps s.

Lemma mk_cres_st p s o : cres_st (mk_cres p s o) = s.
Proof. by destruct p. Qed.
Lemma mk_cres_out p s o : cres_out (mk_cres p s o) = o.
Proof. by destruct p. Qed.
Lemma mk_cres_panicked p s o : cres_panicked (mk_cres p s o) = p.
Proof. by destruct p. Qed.

Lemma of_caps_st s r : c_cfg (cres_st (of_caps s r)) = c_cfg s /\ c_me (cres_st (of_caps s r)) = c_me s
                       /\ c_trk (cres_st (of_caps s r)) = c_trk s.
Proof. by destruct r as [[? ?]|]. Qed.

Lemma ctcp_reply_st s t c a : cres_st (ctcp_reply s t c a) = s.
Proof. unfold ctcp_reply. by destruct (Commands.emit _ _ _ _). Qed.

Lemma c_CTCP_st s l : cres_st (c_CTCP s l) = s.
Proof.
  unfold c_CTCP. destruct (GoBytes.elem_at (Line.l_args l) 0); [|done].
  destruct (GoBytes.beq _ _); [apply ctcp_reply_st|].
  destruct (_ && _); [|done]. destruct (GoBytes.elem_at (Line.l_args l) 2); [apply ctcp_reply_st|done].
Qed.

(* PING, CTCP and REGISTER touch nothing *)
Lemma pure_frame h : pure_hnd h -> forall s l, cres_st (hnd_run h s l) = s.
Proof.
  destruct h as [i|x]; [|done]. destruct i; try done; intros _ s l; simpl.
  - unfold c_REGISTER. apply mk_cres_st.
  - apply c_CTCP_st.
  - unfold c_PING. apply mk_cres_st.
Qed.

(* one tactic for "what does handler i do to field f": normalises the final state *)
Ltac hst s :=
  unfold c_REGISTER, c_001, c_433, c_NICK, c_PING, c_CAP, c_410, c_AUTHENTICATE, c_903, c_904, c_908;
  first [ rewrite c_CTCP_st
        | match goal with |- context [of_caps s ?r] => pose proof (of_caps_st s r) as (? & ? & ?) end
        | destruct (c_trk s) eqn:?; unfold of_gout, of_hout; rewrite ?mk_cres_st
        | rewrite mk_cres_st ].

(* the configuration is never written *)
Lemma cfg_frame h s l : same_cfg s (cres_st (hnd_run h s l)).
Proof.
  unfold same_cfg. destruct h as [i|x]; simpl.
  - destruct i; simpl; hst s; done.
  - unfold c_sth. destruct (c_trk s); [|done]. by rewrite mk_cres_st.
Qed.

(* CAP / 410 / AUTHENTICATE / 903 / 904 / 908 touch neither the nick state nor the tracker *)
Lemma caps_frame h : caps_hnd h -> forall s l, same_nick_trk s (cres_st (hnd_run h s l)).
Proof.
  destruct h as [i|x]; [|done]. unfold same_nick_trk.
  destruct i; try done; intros _ s l; simpl; hst s; done.
Qed.

(* everything else leaves the capability state alone *)
Lemma noncaps_frame h : noncaps_hnd h -> forall s l, same_caps s (cres_st (hnd_run h s l)).
Proof.
  unfold same_caps. destruct h as [i|x]; simpl.
  - destruct i; try done; intros _ s l; simpl; hst s; done.
  - intros _ s l. unfold c_sth. destruct (c_trk s); [|done]. by rewrite mk_cres_st.
Qed.

(* tracking stays on / off *)
Definition same_tracking (s s' : cstate) : Prop := is_some (c_trk s') = is_some (c_trk s).
Lemma tracking_frame h s l : same_tracking s (cres_st (hnd_run h s l)).
Proof.
  unfold same_tracking. destruct h as [i|x]; simpl.
  - destruct i; simpl; hst s; simpl; try congruence;
      match goal with H : c_trk s = _ |- _ => by rewrite H end.
  - unfold c_sth. destruct (c_trk s) eqn:E; [|simpl; by rewrite E]. by rewrite mk_cres_st.
Qed.

(* ---------- the handlers of a verb ---------- *)
Definition int_for (cmd : bytes) : list ih := filter (fun h => verb_matches (ih_verb h) cmd) all_ih.
Definition st_for (cmd : bytes) : list sth := filter (fun h => verb_matches (sth_verb h) cmd) all_sth.
Lemma handlers_for_eq s cmd :
  handlers_for s cmd = map HInt (int_for cmd) ++ match c_trk s with Some _ => map HSt (st_for cmd) | None => [] end.
Proof. done. Qed.

(* the verbs of the capability component, of the state handlers, of PING / CTCP *)
Definition caps_verbs : list bytes :=
  [Commands.s_CAP; Caps.s_410; Commands.s_AUTHENTICATE; Caps.s_903; Caps.s_904; Caps.s_908].
Definition state_verbs : list bytes := map sth_verb all_sth.
Definition pure_verbs : list bytes := [Commands.s_PING; Commands.s_CTCP].

Lemma caps_verbs_handlers s cmd : In cmd caps_verbs -> Forall caps_hnd (handlers_for s cmd).
Proof.
  intros H. rewrite handlers_for_eq. simpl in H.
  destruct H as [<-|[<-|[<-|[<-|[<-|[<-|[]]]]]]]; destruct (c_trk s); vm_compute; repeat constructor.
Qed.
Lemma pure_verbs_handlers s cmd : In cmd pure_verbs -> Forall pure_hnd (handlers_for s cmd).
Proof.
  intros H. rewrite handlers_for_eq. simpl in H.
  destruct H as [<-|[<-|[]]]; destruct (c_trk s); vm_compute; repeat constructor.
Qed.
Lemma state_verbs_handlers s cmd : In cmd state_verbs -> Forall noncaps_hnd (handlers_for s cmd).
Proof.
  intros H. rewrite handlers_for_eq. simpl in H.
  repeat (destruct H as [<-|H]; [destruct (c_trk s); vm_compute; repeat constructor|]). done.
Qed.

(* ---------- frame lemmas on dispatched lines ---------- *)
Theorem frame_cfg s raw : c_cfg (fst (client_line s raw)) = c_cfg s.
Proof. apply (client_line_pres (fun x => c_cfg x = c_cfg s)); [|done]. intros h x l <-. apply cfg_frame. Qed.

Theorem frame_tracking s raw : is_some (c_trk (fst (client_line s raw))) = is_some (c_trk s).
Proof.
  apply (client_line_pres (fun x => is_some (c_trk x) = is_some (c_trk s))); [|done].
  intros h x l <-. apply tracking_frame.
Qed.

Lemma dispatched_rel (R : cstate -> cstate -> Prop) (Q : hnd -> Prop) s raw l :
  (forall s, R s s) -> (forall a b c, R a b -> R b c -> R a c) ->
  (forall h, Q h -> forall s l, R s (cres_st (hnd_run h s l))) ->
  Line.recv_one raw = GoBytes.Ok (Some l) -> Forall Q (handlers_for s (Line.l_cmd l)) ->
  R s (fst (client_line s raw)).
Proof.
  intros Rr Rt St E F. eapply (run_handlers_rel R Rr Rt Q St _ F).
  exact (client_line_dispatched s raw l E).
Qed.

(* CAP / 410 / AUTHENTICATE / 90x lines touch neither the own-nick state nor the tracker *)
Theorem frame_caps_line s raw l : Line.recv_one raw = GoBytes.Ok (Some l) -> In (Line.l_cmd l) caps_verbs ->
  c_me (fst (client_line s raw)) = c_me s /\ c_trk (fst (client_line s raw)) = c_trk s.
Proof.
  intros E H. apply (dispatched_rel same_nick_trk caps_hnd s raw l); try done.
  - intros a b c [? ?] [? ?]. split; congruence.
  - apply caps_frame.
  - by apply caps_verbs_handlers.
Qed.

(* the state handlers' verbs (NICK included: h_NICK + h_STNICK) do not touch the capabilities *)
Theorem frame_state_line s raw l : Line.recv_one raw = GoBytes.Ok (Some l) -> In (Line.l_cmd l) state_verbs ->
  c_caps (fst (client_line s raw)) = c_caps s.
Proof.
  intros E H. apply (dispatched_rel same_caps noncaps_hnd s raw l); try done.
  - intros a b c. unfold same_caps. congruence.
  - apply noncaps_frame.
  - by apply state_verbs_handlers.
Qed.

(* PING and CTCP lines change nothing at all; neither do rejected lines *)
Theorem frame_pure_line s raw l : Line.recv_one raw = GoBytes.Ok (Some l) -> In (Line.l_cmd l) pure_verbs ->
  fst (client_line s raw) = s.
Proof.
  intros E H. symmetry. apply (dispatched_rel (fun a b => a = b) pure_hnd s raw l); try done.
  - congruence.
  - intros h Hh x y. symmetry. by apply pure_frame.
  - by apply pure_verbs_handlers.
Qed.

(* any verb without a capability handler — whatever it is — leaves the capability state alone *)
Theorem frame_noncaps_line s raw l : Line.recv_one raw = GoBytes.Ok (Some l) ->
  Forall (fun h => caps_ih h = false) (int_for (Line.l_cmd l)) ->
  c_caps (fst (client_line s raw)) = c_caps s.
Proof.
  intros E H. apply (dispatched_rel same_caps noncaps_hnd s raw l); try done.
  - intros a b c. unfold same_caps. congruence.
  - apply noncaps_frame.
  - rewrite handlers_for_eq. apply Forall_app. split.
    + apply Forall_map. exact H.
    + destruct (c_trk s); [|done]. apply Forall_map. by apply Forall_true.
Qed.

(* ================= (c1) C13: the three tracker invariants through any session ================= *)
Definition trk_ok (s : cstate) : Prop := match c_trk s with Some t => rob_inv t | None => True end.

Lemma st_NickInfo_rob t n i h r : rob_inv t -> rob_inv (st_NickInfo t n i h r).
Proof. intros I. unfold st_NickInfo. apply (keys_pres t (fun t => sp_NickInfo t n i h r)); [|done]. intros t'. apply NickInfo_keys. Qed.
Lemma st_ReNick_rob t o n : rob_inv t -> rob_inv (fst (st_ReNick t o n)).
Proof. intros I. unfold st_ReNick. simpl. by apply ReNick_inv. Qed.

Lemma g_001_rob m t l : rob_inv t ->
  rob_inv (g_trk (go_st (g_001 st_Me st_NickInfo st_ReNick {| g_me := m; g_trk := t |} l))).
Proof.
  intros I. unfold g_001, g_do_Me. simpl.
  destruct (NickHandlers.welcome_pre l) as [[nick uh]|]; [|done].
  destruct (st_Me t) as [me|]; [|done]. simpl. apply st_ReNick_rob.
  destruct uh as [[[? ?] ?]|]; [by apply st_NickInfo_rob|done].
Qed.

Lemma g_433_rob nn m t l : rob_inv t ->
  rob_inv (g_trk (go_st (g_433 st_Me st_ReNick nn {| g_me := m; g_trk := t |} l))).
Proof.
  intros I. unfold g_433, g_do_Me. simpl.
  destruct (GoBytes.elem_at (Line.l_args l) 1) as [refused|]; [|done].
  destruct (negb _); [done|]. destruct (st_Me t) as [me|]; [|done].
  destruct (GoBytes.beq _ _); [|done]. simpl. by apply st_ReNick_rob.
Qed.

Lemma hnd_trk_ok h s l : trk_ok s -> trk_ok (cres_st (hnd_run h s l)).
Proof.
  unfold trk_ok. destruct h as [i|x].
  - destruct (caps_ih i) eqn:C; [|destruct (pure_ih i) eqn:U].
    + destruct (caps_frame (HInt i) C s l) as [_ ->]. done.
    + by rewrite (pure_frame (HInt i) U s l).
    + destruct i; try done; simpl.
      * unfold c_001. destruct (c_trk s) as [t|] eqn:E.
        -- unfold of_gout. rewrite mk_cres_st. simpl. by apply g_001_rob.
        -- unfold of_hout. rewrite mk_cres_st. simpl. by rewrite E.
      * unfold c_433. destruct (c_trk s) as [t|] eqn:E.
        -- unfold of_gout. rewrite mk_cres_st. simpl. by apply g_433_rob.
        -- unfold of_hout. rewrite mk_cres_st. simpl. by rewrite E.
      * unfold c_NICK. destruct (c_trk s) as [t|] eqn:E.
        -- simpl. by rewrite E.
        -- unfold of_hout. rewrite mk_cres_st. simpl. by rewrite E.
  - simpl. unfold c_sth. destruct (c_trk s) as [t|] eqn:E; [|simpl; by rewrite E]. rewrite mk_cres_st. simpl.
    intros I. by apply (sth_run_pres x l {| h_trk := t; h_out := [] |}).
Qed.

Lemma rob_inv_tracker0 n i h r : rob_inv (st_NickInfo (sp_new n) n i h r).
Proof. apply st_NickInfo_rob. unfold sp_new. apply rob_inv_view0. Qed.

Lemma client0_trk_ok k nick ident name tracking : trk_ok (client0 k nick ident name tracking).
Proof.
  unfold client0, enable_tracking, trk_ok. destruct tracking; [|done]. simpl.
  apply rob_inv_tracker0.
Qed.

Lemma client0_tracking k nick ident name : is_some (c_trk (client0 k nick ident name true)) = true.
Proof. done. Qed.

(* from ANY state whose tracker satisfies the invariants, after ANY byte strings *)
Theorem session_trk_ok s raws : trk_ok s -> trk_ok (session_state s raws).
Proof. intros H. unfold session_state. apply client_session_pres; [|done]. intros h x l. apply hnd_trk_ok. Qed.

Lemma session_tracking s raws : is_some (c_trk (session_state s raws)) = is_some (c_trk s).
Proof.
  unfold session_state. apply (client_session_pres (fun x => is_some (c_trk x) = is_some (c_trk s))); [|done].
  intros h x l <-. apply tracking_frame.
Qed.

Theorem client_tracker_robust k nick ident name raws :
  exists t, c_trk (session_state (client0 k nick ident name true) raws) = Some t /\ rob_ok t = true.
Proof.
  pose proof (session_tracking (client0 k nick ident name true) raws) as T.
  pose proof (session_trk_ok _ raws (client0_trk_ok k nick ident name true)) as I.
  rewrite client0_tracking in T. unfold trk_ok in I.
  destruct (c_trk (session_state _ raws)) as [t|]; [|done].
  exists t. split; [done|]. apply rob_ok_spec; [by apply rob_inv_sp_inv|done].
Qed.

(* ================= (c2) C17: Config().Me and Me() are never nil ================= *)
Lemma st_Me_some t : rob_inv t -> st_Me t <> None.
Proof.
  intros [[[a Ha] _] _]. unfold st_Me, sp_Me, nick_snapshot. simpl. by rewrite Ha.
Qed.

Definition me_ok (s : cstate) : Prop := c_me s <> None /\ trk_ok s.

Lemma g_renick_nn (s : gst tstate) t o n : g_me s <> None -> g_me (g_renick st_ReNick s t o n) <> None.
Proof. unfold g_renick. simpl. by destruct (option_map _ _). Qed.

Lemma g_001_nn m t l : rob_inv t ->
  g_me (go_st (g_001 st_Me st_NickInfo st_ReNick {| g_me := m; g_trk := t |} l)) <> None.
Proof.
  intros I. pose proof (st_Me_some t I) as M. unfold g_001, g_do_Me. simpl.
  destruct (NickHandlers.welcome_pre l) as [[nick uh]|]; [|done].
  destruct (st_Me t) as [me|] eqn:E; [|done]. simpl. by destruct (option_map _ _).
Qed.

Lemma g_433_nn nn m t l : rob_inv t ->
  g_me (go_st (g_433 st_Me st_ReNick nn {| g_me := m; g_trk := t |} l)) <> None.
Proof.
  intros I. pose proof (st_Me_some t I) as M. unfold g_433, g_do_Me. simpl.
  destruct (GoBytes.elem_at (Line.l_args l) 1) as [refused|]; [|done].
  destruct (negb _); [done|]. destruct (st_Me t) as [me|] eqn:E; [|done].
  destruct (GoBytes.beq _ _); [|done]. simpl. by destruct (option_map _ _).
Qed.

Lemma hnd_me_ok h s l : me_ok s -> me_ok (cres_st (hnd_run h s l)).
Proof.
  intros [M I]. split; [|by apply hnd_trk_ok]. unfold trk_ok in I.
  destruct h as [i|x].
  - destruct (caps_ih i) eqn:C; [|destruct (pure_ih i) eqn:U].
    + destruct (caps_frame (HInt i) C s l) as [-> _]. done.
    + by rewrite (pure_frame (HInt i) U s l).
    + destruct i; try done; simpl.
      * unfold c_001. destruct (c_trk s) as [t|] eqn:E.
        -- unfold of_gout. rewrite mk_cres_st. simpl. by apply g_001_nn.
        -- unfold of_hout. rewrite mk_cres_st. simpl. exact (NickProofs.h_001_nn (nh_state s) l M).
      * unfold c_433. destruct (c_trk s) as [t|] eqn:E.
        -- unfold of_gout. rewrite mk_cres_st. simpl. by apply g_433_nn.
        -- unfold of_hout. rewrite mk_cres_st. simpl.
           exact (NickProofs.h_433_nn (k_new_nick (c_cfg s)) (nh_state s) l M).
      * unfold c_NICK. destruct (c_trk s) as [t|] eqn:E; [done|].
        unfold of_hout. rewrite mk_cres_st. simpl. exact (NickProofs.h_NICK_nn (nh_state s) l M).
  - simpl. unfold c_sth. destruct (c_trk s) as [t|]; [|done]. rewrite mk_cres_st. simpl.
    destruct (st_calls_me x t l); [by apply st_Me_some|done].
Qed.

Lemma client0_me_ok k nick ident name tracking : me_ok (client0 k nick ident name tracking).
Proof.
  split; [|apply client0_trk_ok]. unfold client0, enable_tracking. destruct tracking; [|done]. simpl.
  apply st_Me_some, rob_inv_tracker0.
Qed.

Theorem session_me_ok s raws : me_ok s -> me_ok (session_state s raws).
Proof. intros H. unfold session_state. apply client_session_pres; [|done]. intros h x l. apply hnd_me_ok. Qed.

Theorem client_never_nil k nick ident name tracking raws :
  let s := session_state (client0 k nick ident name tracking) raws in
  c_me s <> None /\ snd (client_Me s) <> None.
Proof.
  intros s. destruct (session_me_ok _ raws (client0_me_ok k nick ident name tracking)) as [M I].
  fold s in M, I. split; [done|]. unfold client_Me, trk_ok in *.
  destruct (c_trk s); [by apply st_Me_some|done].
Qed.

(* ================= the dispatcher on parsed lines: exactly the handlers of THAT verb ================= *)
Notation upper := ClientLineFacts.upper.

Lemma verb_matches_eq v cmd : upper v -> upper cmd -> verb_matches v cmd = true -> v = cmd.
Proof.
  intros Hv Hc H. apply GoBytesFacts.beq_eq in H. by apply ClientLineFacts.lower_eq_upper.
Qed.
Lemma verb_matches_refl v : verb_matches v v = true.
Proof. apply GoBytesFacts.beq_refl. Qed.

Lemma ih_verb_upper h : upper (ih_verb h).
Proof. by destruct h. Qed.
Lemma sth_verb_upper h : upper (sth_verb h).
Proof. by destruct h. Qed.

Lemma cap_ev_copy l : cap_ev (Line.copy_line l) = cap_ev l.
Proof. unfold cap_ev. by rewrite ClientLineFacts.copy_line_args. Qed.

(* ================= (c3) C18: every PING is answered at its position ================= *)
Lemma handlers_for_PING s : handlers_for s Register.c_PING = [HInt IhPING].
Proof. rewrite handlers_for_eq. by destruct (c_trk s). Qed.

(* the composed client on a PING line IS C18's [pong_of_raw], whatever the state *)
Theorem client_ping_line s raw l : Line.recv_one raw = GoBytes.Ok (Some l) -> Line.l_cmd l = Register.c_PING ->
  client_line s raw = (s, fst (Register.pong_of_raw raw)).
Proof.
  intros E C. pose proof (client_line_dispatched s raw l E) as D.
  unfold client_dispatch_with in D. rewrite C, handlers_for_PING in D. simpl in D.
  unfold c_PING in D. rewrite mk_cres_st, mk_cres_out in D.
  unfold Register.pong_of_raw. rewrite E, C. simpl.
  injection D as <-. f_equal. rewrite app_nil_r. unfold Register.h_PING.
  by rewrite ClientLineFacts.copy_line_args.
Qed.

Theorem client_pong s src tok :
  LineSend.src_ok src = true -> forallb LineSend.trailing_byte tok = true ->
  client_line s (LineSend.wire (Register.ping_trailing src tok))
  = (s, [Commands.s_PONG ++ Commands.s_sp_colon ++ tok]).
Proof.
  intros H1 H2.
  pose proof (LineDeliver.recv_roundtrip _ (RegisterProofs.wf_ping_trailing src tok H1 H2)) as E.
  destruct (RegisterProofs.exp_ping_trailing src tok) as [Ec _].
  rewrite (client_ping_line s _ _ E Ec). by rewrite (RegisterProofs.pong_trailing src tok H1 H2).
Qed.

Theorem client_pong_one_word s src tok :
  LineSend.src_ok src = true -> LineSend.middle_ok tok = true ->
  client_line s (LineSend.wire (Register.ping_middle src tok))
  = (s, [Commands.s_PONG ++ Commands.s_sp_colon ++ tok]).
Proof.
  intros H1 H2.
  pose proof (LineDeliver.recv_roundtrip _ (RegisterProofs.wf_ping_middle src tok H1 H2)) as E.
  destruct (RegisterProofs.exp_ping_middle src tok) as [Ec _].
  rewrite (client_ping_line s _ _ E Ec). by rewrite (RegisterProofs.pong_middle src tok H1 H2).
Qed.

(* ORDER: in ANY session (any state, any lines before and after, tracking on or off) the output
   at the position of a "PING :tok" line is exactly [PONG :tok] — after everything the earlier
   lines caused, before everything the later ones cause — and the line changes no state *)
Theorem pong_in_order s before after src tok :
  LineSend.src_ok src = true -> forallb LineSend.trailing_byte tok = true ->
  let ping := LineSend.wire (Register.ping_trailing src tok) in
  session_out s (before ++ ping :: after)
  = session_out s before ++ [Commands.s_PONG ++ Commands.s_sp_colon ++ tok]
    :: session_out (session_state s before) after
  /\ session_state s (before ++ [ping]) = session_state s before.
Proof.
  intros H1 H2 ping. unfold session_out, session_state.
  rewrite !client_session_app. simpl. unfold ping. rewrite (client_pong _ src tok H1 H2). done.
Qed.

(* ================= NICK while tracking: h_NICK and h_STNICK commute ================= *)
Theorem nick_pair_commute s l t : c_trk s = Some t ->
  run_handlers recovering_c [HInt IhNICK; HSt StNICK] s l
  = run_handlers recovering_c [HSt StNICK; HInt IhNICK] s l.
Proof.
  intros E. cbn [run_handlers hnd_run ih_run recovering_c fst snd].
  assert (N : forall x, is_some (c_trk x) = true -> c_NICK x (Line.copy_line l) = CDone x []).
  { intros x. unfold c_NICK. by destruct (c_trk x). }
  rewrite (N s) by (by rewrite E). cbn [cres_st cres_out].
  set (r := c_sth StNICK s (Line.copy_line l)).
  assert (T : is_some (c_trk (cres_st r)) = true).
  { pose proof (tracking_frame (HSt StNICK) s (Line.copy_line l)) as F.
    unfold same_tracking in F. simpl in F. fold r in F. by rewrite F, E. }
  rewrite (N (cres_st r) T). cbn [cres_st cres_out app]. by rewrite app_nil_r.
Qed.
Lemma handlers_for_NICK s t : c_trk s = Some t -> handlers_for s Commands.s_NICK = [HInt IhNICK; HSt StNICK].
Proof. intros E. rewrite handlers_for_eq, E. done. Qed.
(* ... and no other verb has two internal handlers *)
Lemma handlers_for_at_most_two s cmd : upper cmd ->
  (length (handlers_for s cmd) <= 1)%nat \/ cmd = Commands.s_NICK.
Proof.
  intros U. destruct (decide (cmd = Commands.s_NICK)) as [->|N]; [by right|]. left.
  assert (HI : forall h, verb_matches (ih_verb h) cmd = true -> cmd = ih_verb h)
    by (intros h H; symmetry; apply verb_matches_eq; [apply ih_verb_upper|done..]).
  assert (HS : forall h, verb_matches (sth_verb h) cmd = true -> cmd = sth_verb h)
    by (intros h H; symmetry; apply verb_matches_eq; [apply sth_verb_upper|done..]).
  rewrite handlers_for_eq, app_length, !map_length.
  destruct (int_for cmd) as [|i [|i' r]] eqn:Ei.
  - simpl. destruct (c_trk s); [|simpl; lia]. rewrite map_length.
    destruct (st_for cmd) as [|x [|x' r]] eqn:Ex; simpl; [lia..|]. exfalso.
    assert (In x (st_for cmd) /\ In x' (st_for cmd)) as [I1 I2] by (rewrite Ex; simpl; auto).
    unfold st_for in I1, I2. apply elem_of_list_In, elem_of_list_filter in I1 as [I1 _].
    apply elem_of_list_In, elem_of_list_filter in I2 as [I2 _].
    apply Is_true_true, HS in I1. apply Is_true_true, HS in I2.
    assert (NoDup (st_for cmd)) as ND by (apply NoDup_filter; vm_compute; repeat constructor; set_solver).
    rewrite Ex in ND. apply NoDup_cons in ND as [ND _].
    assert (x = x') as -> by (rewrite I1 in I2; destruct x, x'; done). set_solver.
  - assert (In i (int_for cmd)) as I1 by (rewrite Ei; simpl; auto).
    unfold int_for in I1. apply elem_of_list_In, elem_of_list_filter in I1 as [I1 _].
    apply Is_true_true, HI in I1.
    destruct (c_trk s); [|simpl; lia]. rewrite map_length.
    destruct (st_for cmd) as [|x r] eqn:Ex; [simpl; lia|]. exfalso.
    assert (In x (st_for cmd)) as I2 by (rewrite Ex; simpl; auto).
    unfold st_for in I2. apply elem_of_list_In, elem_of_list_filter in I2 as [I2 _].
    apply Is_true_true, HS in I2. rewrite I1 in I2, N. destruct i, x; done.
  - exfalso.
    assert (In i (int_for cmd) /\ In i' (int_for cmd)) as [I1 I2] by (rewrite Ei; simpl; auto).
    unfold int_for in I1, I2. apply elem_of_list_In, elem_of_list_filter in I1 as [I1 _].
    apply elem_of_list_In, elem_of_list_filter in I2 as [I2 _].
    apply Is_true_true, HI in I1. apply Is_true_true, HI in I2.
    assert (NoDup (int_for cmd)) as ND by (apply NoDup_filter; vm_compute; repeat constructor; set_solver).
    rewrite Ei in ND. apply NoDup_cons in ND as [ND _].
    assert (i = i') as -> by (rewrite I1 in I2; destruct i, i'; done). set_solver.
Qed.

(* ================= (c4) C19: the capability component inside a session ================= *)
(* the event the capability handlers see for a raw line (none for a rejected line) *)
Definition no_event : Caps.event := Caps.Build_event [] [].
Definition ev_of_raw (raw : bytes) : Caps.event :=
  match Line.recv_one raw with GoBytes.Ok (Some l) => cap_ev l | _ => no_event end.
Definition caps_step (s : cstate) (e : Caps.event) : Caps.cstate * list bytes :=
  Caps.step GoBytes.fields (k_caps (c_cfg s)) (c_caps s) e.

Lemma caps_verbs_upper v : In v caps_verbs -> upper v.
Proof. simpl. intros [<-|[<-|[<-|[<-|[<-|[<-|[]]]]]]]; done. Qed.

Lemma handlers_for_caps s :
  handlers_for s Commands.s_CAP = [HInt IhCAP] /\ handlers_for s Caps.s_410 = [HInt Ih410]
  /\ handlers_for s Commands.s_AUTHENTICATE = [HInt IhAUTHENTICATE] /\ handlers_for s Caps.s_903 = [HInt Ih903]
  /\ handlers_for s Caps.s_904 = [HInt Ih904] /\ handlers_for s Caps.s_908 = [HInt Ih908].
Proof. rewrite !handlers_for_eq. by destruct (c_trk s). Qed.

Lemma of_caps_step s r :
  (cres_st (of_caps s r), cres_out (of_caps s r) ++ [])
  = (set_caps s (fst (match r with GoBytes.Ok x => x | GoBytes.Panic => (c_caps s, []) end)),
     snd (match r with GoBytes.Ok x => x | GoBytes.Panic => (c_caps s, []) end)).
Proof. destruct r as [[st ls]|]; simpl; rewrite ?app_nil_r; [done|]. by destruct s. Qed.

(* on a line with one of the six capability verbs the composed client does exactly C19's step *)
Lemma caps_line_step s raw l : Line.recv_one raw = GoBytes.Ok (Some l) -> In (Line.l_cmd l) caps_verbs ->
  client_line s raw = (set_caps s (fst (caps_step s (cap_ev l))), snd (caps_step s (cap_ev l))).
Proof.
  intros E H. pose proof (client_line_dispatched s raw l E) as D.
  unfold client_dispatch_with in D.
  destruct (handlers_for_caps s) as (H1 & H2 & H3 & H4 & H5 & H6).
  unfold caps_step, Caps.step, Caps.handle.
  change (Caps.ev_cmd (cap_ev l)) with (Line.l_cmd l).
  simpl in H.
  destruct H as [H|[H|[H|[H|[H|[H|[]]]]]]]; rewrite <- H in *;
    [rewrite H1 in D|rewrite H2 in D|rewrite H3 in D|rewrite H4 in D|rewrite H5 in D|rewrite H6 in D];
    cbn [run_handlers hnd_run ih_run recovering_c fst snd] in D;
    unfold c_CAP, c_410, c_AUTHENTICATE, c_903, c_904, c_908 in D; rewrite ?cap_ev_copy in D;
    rewrite of_caps_step in D; injection D as <-;
    repeat match goal with |- context [GoBytes.beq ?a ?b] =>
             let v := eval vm_compute in (GoBytes.beq a b) in change (GoBytes.beq a b) with v end;
    cbv iota; done.
Qed.

(* on every other line the capability component does nothing (and C19's step says so too) *)
Lemma noncaps_int_for cmd : upper cmd -> ~ In cmd caps_verbs -> Forall (fun h => caps_ih h = false) (int_for cmd).
Proof.
  intros U N. apply Forall_forall. intros h Hh. unfold int_for in Hh.
  rewrite <- ?elem_of_list_In in Hh. apply elem_of_list_filter in Hh as [Hh _]. apply Is_true_true in Hh.
  apply verb_matches_eq in Hh; [|apply ih_verb_upper|done]. subst cmd.
  destruct h; try done; exfalso; apply N; simpl; tauto.
Qed.

Lemma caps_step_other s e : ~ In (Caps.ev_cmd e) caps_verbs -> caps_step s e = (c_caps s, []).
Proof.
  intros N. unfold caps_step, Caps.step, Caps.handle.
  assert (F : forall v, In v caps_verbs -> GoBytes.beq (Caps.ev_cmd e) v = false).
  { intros v Hv. destruct (GoBytes.beq (Caps.ev_cmd e) v) eqn:B; [|done].
    apply GoBytesFacts.beq_eq in B. by subst v. }
  rewrite !F by (simpl; tauto). done.
Qed.

Theorem caps_line s raw :
  c_caps (fst (client_line s raw)) = fst (caps_step s (ev_of_raw raw))
  /\ (In (Caps.ev_cmd (ev_of_raw raw)) caps_verbs -> snd (client_line s raw) = snd (caps_step s (ev_of_raw raw)))
  /\ (~ In (Caps.ev_cmd (ev_of_raw raw)) caps_verbs -> snd (caps_step s (ev_of_raw raw)) = []).
Proof.
  unfold ev_of_raw. destruct (Line.recv_one raw) as [[l|]|] eqn:E.
  - destruct (decide (In (Line.l_cmd l) caps_verbs)) as [H|H].
    + rewrite (caps_line_step s raw l E H). done.
    + rewrite (caps_step_other s (cap_ev l) H). split; [|done].
      apply (frame_noncaps_line s raw l E). apply noncaps_int_for; [|done].
      by apply (ClientLineFacts.recv_one_cmd_upper raw).
  - rewrite (client_line_rejected s raw E), caps_step_other; [done|]. simpl. intuition discriminate.
  - by destruct (LineTotal.recv_one_total raw).
Qed.

(* whole sessions: the capability state is C19's [run] over the session's events *)
Theorem caps_session raws : forall s,
  c_caps (session_state s raws)
  = fst (Caps.run GoBytes.fields (k_caps (c_cfg s)) (c_caps s) (map ev_of_raw raws)).
Proof.
  induction raws as [|x r IH]; intros s; [done|].
  unfold session_state in *. simpl.
  destruct (caps_line s x) as (H1 & _ & _). unfold caps_step in H1.
  destruct (Caps.step _ _ _ (ev_of_raw x)) as [st1 ls] eqn:E1. simpl in H1.
  rewrite IH, frame_cfg, H1.
  by destruct (Caps.run _ _ st1 _).
Qed.

(* ... and line by line the CAP / AUTHENTICATE traffic is C19's transcript: what C19's model
   sends for an event is what the composed client sends for that line when the verb is one
   of the six, and nothing otherwise *)
Theorem caps_trace raws : forall s,
  Forall2 (fun out el => (In (Caps.ev_cmd (fst el)) caps_verbs -> out = snd el)
                         /\ (~ In (Caps.ev_cmd (fst el)) caps_verbs -> snd el = []))
          (session_out s raws)
          (snd (Caps.run GoBytes.fields (k_caps (c_cfg s)) (c_caps s) (map ev_of_raw raws))).
Proof.
  induction raws as [|x r IH]; intros s; [constructor|].
  unfold session_out in *. simpl.
  destruct (caps_line s x) as (H1 & H2 & H3). unfold caps_step in *.
  destruct (Caps.step _ _ _ (ev_of_raw x)) as [st1 ls] eqn:E1. simpl in H1, H2, H3.
  specialize (IH (fst (client_line s x))). rewrite frame_cfg, H1 in IH.
  destruct (Caps.run _ _ st1 _) as [st2 tr]. simpl in *. constructor; [|done]. done.
Qed.

Theorem client_negotiation k nick ident name tracking raws names :
  let s := session_state (client0 k nick ident name tracking) raws in
  let tr := snd (Caps.run GoBytes.fields (k_caps k) Caps.cstate0 (map ev_of_raw raws)) in
  Caps.C19_ok GoBytes.fields (k_caps k) tr (Caps.answers_of (c_caps s) names) = true.
Proof.
  intros s tr. unfold s. rewrite caps_session.
  assert (c_caps (client0 k nick ident name tracking) = Caps.cstate0) as -> by (by destruct tracking).
  assert (k_caps (c_cfg (client0 k nick ident name tracking)) = k_caps k) as -> by (by destruct tracking).
  apply CapsProofs.C19_model_ok.
Qed.

(* ================= the generic own-nick handlers ARE C17's, at C17's tracker ================= *)
Definition tkNickInfo (t : NickHandlers.tracker) (n i h r : bytes) : NickHandlers.tracker :=
  fst (NickHandlers.tk_NickInfo t n i h r).
Definition nh_of_gout (r : gout NickHandlers.tracker) : NickHandlers.hout :=
  NickHandlers.Build_hout (NickHandlers.Build_cstate (g_me (go_st r)) (Some (g_trk (go_st r))))
                          (go_out r) (go_panic r).

Theorem g_001_is_C17 m t l :
  NickHandlers.h_001 (NickHandlers.Build_cstate m (Some t)) l
  = nh_of_gout (g_001 NickHandlers.tk_Me tkNickInfo NickHandlers.tk_ReNick {| g_me := m; g_trk := t |} l).
Proof.
  unfold NickHandlers.h_001, NickHandlers.h_001_with, g_001, g_do_Me, nh_of_gout, NickHandlers.do_Me.
  cbn [NickHandlers.c_st NickHandlers.cfg_me fst snd g_trk g_me].
  destruct (NickHandlers.welcome_pre l) as [[nick uh]|]; [|done].
  cbn [NickHandlers.tk_Me NickHandlers.c_st].
  unfold NickHandlers.renick_keep, g_renick, NickHandlers.done, gdone.
  cbn [go_st go_out go_panic g_me g_trk].
  destruct uh as [[[x ident] host]|]; unfold tkNickInfo;
    by destruct (NickHandlers.tk_ReNick _ _ _) as [t' [n|]].
Qed.

Theorem g_433_is_C17 nn m t l :
  NickHandlers.h_433 nn (NickHandlers.Build_cstate m (Some t)) l
  = nh_of_gout (g_433 NickHandlers.tk_Me NickHandlers.tk_ReNick nn {| g_me := m; g_trk := t |} l).
Proof.
  unfold NickHandlers.h_433, NickHandlers.h_433_with, g_433, g_do_Me, nh_of_gout, NickHandlers.do_Me.
  cbn [NickHandlers.c_st NickHandlers.cfg_me fst snd g_trk g_me].
  destruct (GoBytes.elem_at (Line.l_args l) 1) as [refused|]; [|done].
  destruct (negb _); [done|]. cbn [NickHandlers.tk_Me].
  destruct (GoBytes.beq _ _); [|done].
  unfold NickHandlers.renick_keep, g_renick, NickHandlers.done, gdone.
  cbn [go_st go_out go_panic g_me g_trk NickHandlers.c_st].
  by destruct (NickHandlers.tk_ReNick _ _ _) as [t' [n|]].
Qed.

(* ================= registration ================= *)
Lemma handlers_for_REGISTER s : handlers_for s s_REGISTER = [HInt IhREGISTER].
Proof. rewrite handlers_for_eq. by destruct (c_trk s). Qed.

Theorem client_register_eq s : client_register s = fst (Register.emit_register (reg_cfg_of s)).
Proof.
  unfold client_register, client_dispatch_with. cbn [Line.l_cmd register_line].
  rewrite handlers_for_REGISTER. cbn [run_handlers hnd_run ih_run recovering_c fst snd].
  unfold c_REGISTER. rewrite mk_cres_out. by rewrite app_nil_r.
Qed.

(* ================= the wrapper matters ================= *)
Definition x_cfg : ccfg :=
  {| k_new_nick := fun x => x; k_negotiate := false; k_pass := []; k_caps := Caps.Build_caps_cfg [] None;
     k_version := []; k_quit := []; k_split_len := 450 |}.
Definition x_ping : bytes := [80;73;78;71;13;10]%N.     (* "PING\r\n" *)
Theorem client_recover_needed :
  client_line_with unprotected_c (client0 x_cfg [118]%N [105]%N [110]%N false) x_ping = GoBytes.Panic
  /\ client_line (client0 x_cfg [118]%N [105]%N [110]%N false) x_ping
     = (client0 x_cfg [118]%N [105]%N [110]%N false, []).
Proof. split; vm_compute; reflexivity. Qed.
