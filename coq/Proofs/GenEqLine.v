(* Proofs/GenEqLine.v — the Gallina TRANSLATION (Gen/GoFuncs.v) of client/line.go
   parseUserHost and the Line methods Text, Public, Target is equal to the hand-written
   model of Model/Line.v, for all inputs, panics included.  A method on Line is translated
   with the fields it reads as parameters (alphabetical order). *)
From Verif Require Import GoBytes LineLib GoBytesFacts Line GoFuncs GenEqTac.
Open Scope Z_scope.

(* ---------- parseUserHost: (nick, ident, host, ok) vs option ---------- *)
Definition user_host_results (r : option (bytes * bytes * bytes)) : bytes * bytes * bytes * bool :=
  match r with
  | Some (n, i, h) => (n, i, h, true)
  | None => ([], [], [], false)
  end.

Lemma go_parseUserHost_eq uh :
  go_client_parseUserHost uh = (r <- parse_user_host uh ;; Ok (user_host_results r)).
Proof.
  go_unfold go_client_parseUserHost.
  unfold parse_user_host, parse_user_host_with, s_bang, s_at, user_host_results.
  cbv beta iota zeta. go_cases.
Qed.

(* ---------- Text ---------- *)
Lemma go_Line_Text_eq l : go_client_Line_Text (l_args l) = text l.
Proof. go_unfold go_client_Line_Text. unfold text. go_cases. Qed.

(* ---------- Public ---------- *)
Lemma go_Line_Public_eq l : go_client_Line_Public (l_args l) (l_cmd l) = public l.
Proof.
  go_unfold go_client_Line_Public.
  unfold public, is_chan_byte, cmd_PRIVMSG, cmd_NOTICE, cmd_ACTION, cmd_CTCP, cmd_CTCPREPLY,
    c_hash, c_amp, c_plus, c_bang.
  cbv zeta. go_cases.
Qed.

(* ---------- Target ---------- *)
Lemma go_Line_Target_eq l :
  go_client_Line_Target (l_args l) (l_cmd l) (l_nick l) = target l.
Proof.
  go_unfold go_client_Line_Target. rewrite !go_Line_Public_eq.
  unfold target, cmd_PRIVMSG, cmd_NOTICE, cmd_ACTION, cmd_CTCP, cmd_CTCPREPLY.
  cbv zeta. go_cases.
Qed.
