(* Proofs/LogProofs.v — C20: the log stream of Model/LogModel.v does not depend on the bytes
   of the connection password. *)
From Verif Require Import GoBytes GoBytesFacts Split SplitProofs Commands CommandsProofs Flood LogModel.
Open Scope Z_scope.

(* ---------- the PASS line ---------- *)
Lemma clean_pass_sp : clean (s_PASS ++ s_sp).
Proof. repeat constructor. Qed.

Lemma pass_line_shape p : pass_line p = s_PASS ++ s_sp ++ cut_newlines p.
Proof.
  unfold pass_line, raw. rewrite !cut_newlines_cut_nl.
  rewrite app_assoc. rewrite (cut_nl_app _ _ clean_pass_sp). now rewrite <- app_assoc.
Qed.

Lemma pass_line_prefix p : has_prefix (pass_line p) s_PASS = true.
Proof. rewrite pass_line_shape. apply has_prefix_app. Qed.

Lemma mask_pass_line p : mask (pass_line p) = s_masked.
Proof. unfold mask. now rewrite pass_line_prefix. Qed.

Lemma len_pass_line p : len (pass_line p) = 5 + len (cut_newlines p).
Proof.
  rewrite pass_line_shape, !len_app. change (len s_PASS) with 4. change (len s_sp) with 1. lia.
Qed.

(* the record of the PASS line, for EVERY password *)
Lemma out_rec_pass_line p : out_rec (pass_line p) = masked_rec.
Proof. unfold out_rec, masked_rec. now rewrite mask_pass_line. Qed.

(* mask in general: the logged text is the constant, or a line that does not start with PASS *)
Lemma mask_cases l :
  (has_prefix l s_PASS = true /\ mask l = s_masked) \/ (has_prefix l s_PASS = false /\ mask l = l).
Proof. unfold mask. destruct (has_prefix l s_PASS); [left|right]; split; reflexivity. Qed.

(* ---------- charges ---------- *)
Fixpoint charge_lines (ls : list bytes) : Z :=
  match ls with
  | [] => 0
  | l :: ls' => linetime (len l) + charge_lines ls'
  end.

Lemma linetime_lower c : 0 <= c -> line_base <= linetime c.
Proof.
  intros Hc. unfold linetime. assert (0 <= (c * second) ÷ per_char_div); [|lia].
  apply Z.quot_pos; unfold second, per_char_div; lia.
Qed.

Lemma charge_lines_nonneg ls : 0 <= charge_lines ls.
Proof.
  induction ls as [|l ls IH]; cbn [charge_lines]; [lia|].
  pose proof (linetime_lower (len l) (len_nonneg l)). unfold line_base in *. lia.
Qed.

Section Session.
  Variable fmt_secs : Z -> bytes.
  Variable quote : bytes -> bytes.
  Variable parse_fn : bytes -> res (option line).
  Variable hstate : Type.
  Variable h_init : pubcfg -> hstate.
  Variable handle : hstate -> line -> (list logrec * list bytes) * hstate.

  Notation write_one := (write_one fmt_secs).
  Notation send_lines := (send_lines fmt_secs).
  Notation recv_loop := (recv_loop fmt_secs parse_fn hstate handle).
  Notation run_session := (run_session fmt_secs quote parse_fn hstate h_init handle).

  (* write depends on the line only through its masked text and — when flood control is on —
     its length *)
  Lemma write_one_indep w st l1 l2 :
    mask l1 = mask l2 -> (we_flood w = true \/ len l1 = len l2) ->
    write_one w st l1 = write_one w st l2.
  Proof.
    intros Hm Hl. unfold LogModel.write_one, out_rec. rewrite Hm.
    destruct Hl as [Hf|Hl].
    - unfold write_delay. rewrite Hf. reflexivity.
    - rewrite Hl. reflexivity.
  Qed.

  Lemma send_lines_app w st a b :
    send_lines w st (a ++ b)
    = (fst (send_lines w st a) ++ fst (send_lines w (snd (send_lines w st a)) b),
       snd (send_lines w (snd (send_lines w st a)) b)).
  Proof.
    revert st; induction a as [|x a IH]; intros st; cbn [app LogModel.send_lines fst snd].
    - destruct (send_lines w st b); reflexivity.
    - rewrite IH. cbn [fst snd]. now rewrite app_assoc.
  Qed.

  Lemma send_lines_swap w l1 l2 :
    (forall st, write_one w st l1 = write_one w st l2) ->
    forall pre post st, send_lines w st (pre ++ l1 :: post) = send_lines w st (pre ++ l2 :: post).
  Proof.
    intros H pre post st. rewrite !send_lines_app. cbn [LogModel.send_lines]. now rewrite H.
  Qed.

  (* registration: the only place the password enters *)
  Lemma reg_lines_split c :
    exists pre post, forall q, q <> [] ->
      reg_lines (with_pass c q) = pre ++ pass_line q :: post.
  Proof.
    exists (if pc_neg (lc_pub c) then [raw (s_CAP ++ s_sp ++ s_LS)] else []).
    exists [raw (s_NICK ++ s_sp ++ pc_nick (lc_pub c));
            raw (s_USER ++ s_sp ++ pc_ident (lc_pub c) ++ s_user_mid ++ pc_name (lc_pub c))].
    intros q Hq. unfold reg_lines, with_pass; cbn [lc_pub lc_pass].
    destruct (beq q []) eqn:E; [apply beq_eq in E; contradiction|]. reflexivity.
  Qed.

  (* ---------- non-interference ---------- *)
  Theorem noninterference c e p1 p2 :
    p1 <> [] -> p2 <> [] ->
    (pc_flood (lc_pub c) = true \/ len (cut_newlines p1) = len (cut_newlines p2)) ->
    run_session (with_pass c p1) e = run_session (with_pass c p2) e.
  Proof.
    intros H1 H2 Hl. unfold LogModel.run_session. cbn [with_pass lc_pub].
    destruct (reg_lines_split c) as (pre & post & Hreg).
    rewrite (Hreg p1 H1), (Hreg p2 H2).
    rewrite (send_lines_swap _ (pass_line p1) (pass_line p2)); [reflexivity|].
    intros st. apply write_one_indep.
    - now rewrite !mask_pass_line.
    - cbn [we_flood]. destruct Hl as [Hf|Hl]; [left; exact Hf|right]. rewrite !len_pass_line. lia.
  Qed.

  (* ---------- no flood message while the charges stay below the threshold ---------- *)
  Lemma write_one_quiet w st l : we_flood w = false -> we_wfail w = None ->
    (forall k prev, 0 <= fst (we_clock w k prev)) ->
    ss_dead st = false -> 0 <= fs_bad (ss_fs st) ->
    fs_bad (ss_fs st) + linetime (len l) <= threshold ->
    exists st', write_one w st l = ([out_rec l], st') /\ ss_dead st' = false
                /\ 0 <= fs_bad (ss_fs st') <= fs_bad (ss_fs st) + linetime (len l).
  Proof.
    intros Hf Hw Hg Hd Hb Hc.
    pose proof (linetime_lower (len l) (len_nonneg l)) as Hlt. unfold line_base in Hlt.
    unfold LogModel.write_one. rewrite Hd. unfold wfail_at. rewrite Hw.
    unfold write_delay. rewrite Hf. unfold rate_limit. cbn [fst snd].
    specialize (Hg (ss_k st) (ss_prev st)).
    set (gap := fst (we_clock w (ss_k st) (ss_prev st))) in *.
    set (bad1 := fs_bad (ss_fs st) + (linetime (len l) - (fs_last (ss_fs st) + gap - fs_last (ss_fs st)))).
    assert (Hb1 : bad1 <= fs_bad (ss_fs st) + linetime (len l)) by (unfold bad1; lia).
    set (bad2 := if bad1 <? 0 then 0 else bad1).
    assert (Hb2 : 0 <= bad2 <= fs_bad (ss_fs st) + linetime (len l)).
    { unfold bad2. destruct (bad1 <? 0) eqn:E; lia. }
    destruct (bad2 >? threshold) eqn:Et; [lia|]. cbn [Z.eqb app].
    eexists; split; [reflexivity|]. cbn [ss_dead ss_fs fs_bad]. split; [reflexivity|exact Hb2].
  Qed.

  Lemma send_lines_quiet w : we_flood w = false -> we_wfail w = None ->
    (forall k prev, 0 <= fst (we_clock w k prev)) ->
    forall ls st, ss_dead st = false -> 0 <= fs_bad (ss_fs st) ->
      fs_bad (ss_fs st) + charge_lines ls <= threshold ->
      fst (send_lines w st ls) = map out_rec ls /\ ss_dead (snd (send_lines w st ls)) = false.
  Proof.
    intros Hf Hw Hg. induction ls as [|l ls IH]; intros st Hd Hb Hc; cbn [LogModel.send_lines map fst snd].
    - split; [reflexivity|exact Hd].
    - cbn [charge_lines] in Hc. pose proof (charge_lines_nonneg ls) as Hn.
      destruct (write_one_quiet w st l Hf Hw Hg Hd Hb) as (st' & E & Hd' & Hb'); [lia|].
      rewrite E. cbn [fst snd]. destruct (IH st' Hd') as [I1 I2]; [lia|lia|].
      split; [now rewrite I1|exact I2].
  Qed.

  (* a session in which the server sends nothing (e.g. it closes at once), flood control ON:
     if the registration lines are charged at most 10 s in total — always the case for a fresh
     client and a password of up to 180 bytes, see Props/C20.v — no flood message is logged
     and the stream does not even depend on the password's LENGTH *)
  Theorem noninterference_registration c e p1 p2 :
    p1 <> [] -> p2 <> [] ->
    pc_flood (lc_pub c) = false -> ev_wfail e = None -> ev_lines e = [] ->
    (forall k prev, 0 <= fst (ev_clock e k prev)) ->
    0 <= fs_bad (ev_fs0 e) ->
    fs_bad (ev_fs0 e) + charge_lines (reg_lines (with_pass c p1)) <= threshold ->
    fs_bad (ev_fs0 e) + charge_lines (reg_lines (with_pass c p2)) <= threshold ->
    run_session (with_pass c p1) e = run_session (with_pass c p2) e.
  Proof.
    intros H1 H2 Hf Hw Hl Hg Hb Hc1 Hc2. unfold LogModel.run_session. cbn [with_pass lc_pub].
    rewrite Hl. cbn [LogModel.recv_loop].
    destruct (negb (snd (connect_recs quote (lc_pub c) (ev_dial e) (ev_tls e)))); [reflexivity|].
    set (w := {| we_flood := pc_flood (lc_pub c); we_clock := ev_clock e; we_wfail := ev_wfail e |}).
    set (st0 := {| ss_fs := ev_fs0 e; ss_k := 0; ss_prev := 0; ss_dead := false |}).
    destruct (send_lines_quiet w Hf Hw Hg (reg_lines (with_pass c p1)) st0
                eq_refl Hb Hc1) as [A1 A2].
    destruct (send_lines_quiet w Hf Hw Hg (reg_lines (with_pass c p2)) st0
                eq_refl Hb Hc2) as [B1 B2].
    rewrite A1, B1. unfold end_recs. rewrite A2, B2.
    destruct (reg_lines_split c) as (pre & post & Hreg).
    pose proof (Hreg p1 H1) as R1. pose proof (Hreg p2 H2) as R2.
    rewrite R1, R2, !map_app. cbn [map]. now rewrite !out_rec_pass_line.
  Qed.

  (* ---------- what write logs for the PASS line ---------- *)
  Theorem write_pass_masked w st p : ss_dead st = false -> wfail_at w (ss_k st) = None ->
    exists frecs, fst (write_one w st (pass_line p)) = frecs ++ [masked_rec]
                  /\ (frecs = [] \/ exists t, frecs = [flood_rec fmt_secs t]).
  Proof.
    intros Hd Hw. unfold LogModel.write_one. rewrite Hd, Hw. cbn [fst]. rewrite out_rec_pass_line.
    eexists; split; [reflexivity|].
    match goal with |- context [if ?b then _ else _] => destruct b end;
      [left; reflexivity|right; eexists; reflexivity].
  Qed.

  (* with a failing write nothing about the line is logged at all *)
  Theorem write_fail_silent w st line e : ss_dead st = false -> wfail_at w (ss_k st) = Some e ->
    exists frecs, fst (write_one w st line) = frecs ++ [(LError, m_send_err ++ e); (LInfo, m_closed)]
                  /\ (frecs = [] \/ exists t, frecs = [flood_rec fmt_secs t]).
  Proof.
    intros Hd Hw. unfold LogModel.write_one. rewrite Hd, Hw. cbn [fst].
    eexists; split; [reflexivity|].
    match goal with |- context [if ?b then _ else _] => destruct b end;
      [left; reflexivity|right; eexists; reflexivity].
  Qed.

  (* ---------- (b) holds of every model stream ---------- *)
  Lemma pass_masked_app a b : pass_masked (a ++ b) = pass_masked a && pass_masked b.
  Proof. apply forallb_app. Qed.

  Lemma pass_masked_out_rec l : pass_masked [out_rec l] = true.
  Proof.
    unfold pass_masked, out_rec. cbn [forallb fst snd]. rewrite andb_true_r.
    unfold m_out_pass. destruct (mask_cases l) as [[Hp Hm]|[Hp Hm]]; rewrite Hm.
    - reflexivity.
    - replace (has_prefix (m_out ++ l) (m_out ++ s_PASS)) with (has_prefix l s_PASS) by reflexivity.
      now rewrite Hp.
  Qed.

  Lemma pass_masked_write_one w st l : pass_masked (fst (write_one w st l)) = true.
  Proof.
    unfold LogModel.write_one. destruct (ss_dead st); [reflexivity|].
    destruct (wfail_at w (ss_k st)); cbn [fst]; rewrite pass_masked_app.
    - match goal with |- context [if ?b then _ else _] => destruct b end; reflexivity.
    - rewrite pass_masked_out_rec.
      match goal with |- context [if ?b then _ else _] => destruct b end; reflexivity.
  Qed.

  Lemma pass_masked_send_lines w ls : forall st, pass_masked (fst (send_lines w st ls)) = true.
  Proof.
    induction ls as [|l ls IH]; intros st; cbn [LogModel.send_lines fst]; [reflexivity|].
    now rewrite pass_masked_app, pass_masked_write_one, IH.
  Qed.

  Lemma pass_masked_in s : pass_masked [(LDebug, m_in ++ s)] = true.
  Proof. reflexivity. Qed.

  Hypothesis handle_masked : forall hs l, pass_masked (fst (fst (handle hs l))) = true.

  Lemma pass_masked_recv_loop w ls : forall hs st,
    pass_masked (fst (fst (recv_loop w hs st ls))) = true.
  Proof.
    induction ls as [|rawl ls IH]; intros hs st; cbn [LogModel.recv_loop]; [reflexivity|].
    destruct (ss_dead st); [reflexivity|].
    destruct (parse_fn (trim rawl s_crlf)) as [[l|]|].
    - specialize (IH (snd (handle hs l))
                     (snd (send_lines w st (map raw (snd (fst (handle hs l))))))).
      destruct (recv_loop w _ _ ls) as [[rs st'] c]. cbn [fst] in *.
      change (?x :: ?a ++ ?b ++ rs) with ([x] ++ a ++ b ++ rs).
      rewrite !pass_masked_app, handle_masked, pass_masked_send_lines, IH. reflexivity.
    - specialize (IH hs st). destruct (recv_loop w hs st ls) as [[rs st'] c]. cbn [fst] in *.
      change (?x :: ?y :: rs) with ([x] ++ [y] ++ rs).
      rewrite !pass_masked_app, IH. reflexivity.
    - reflexivity.
  Qed.

  Lemma pass_masked_connect pc d tls : pass_masked (fst (connect_recs quote pc d tls)) = true.
  Proof.
    unfold connect_recs. destruct (beq (pc_server pc) []); [reflexivity|].
    destruct (negb (beq (pc_proxy pc) [])); cbn [fst snd].
    - destruct d as [e|e|ctxd [e|]]; cbn [fst snd negb]; try reflexivity;
        destruct ctxd; cbn [fst snd negb app]; try reflexivity;
        destruct (pc_ssl pc); reflexivity.
    - destruct d as [e|e|ctxd [e|]]; cbn [fst snd negb]; try reflexivity.
      destruct (pc_ssl pc); reflexivity.
  Qed.

  Lemma pass_masked_run c e : pass_masked (run_session c e) = true.
  Proof.
    unfold LogModel.run_session.
    destruct (negb (snd (connect_recs quote (lc_pub c) (ev_dial e) (ev_tls e)))).
    - apply pass_masked_connect.
    - match goal with |- context [recv_loop ?w ?hs ?st ?ls] =>
        pose proof (pass_masked_recv_loop w ls hs st) as Hr; destruct (recv_loop w hs st ls) as [[lr st2] cr]
      end. cbn [fst] in Hr.
      rewrite !pass_masked_app, pass_masked_connect, pass_masked_send_lines, Hr. cbn [andb].
      destruct cr; [reflexivity|]. unfold end_recs.
      destruct (ev_end e); destruct (ss_dead st2); reflexivity.
  Qed.

  (* ---------- the oracle holds of the model's pair of streams ---------- *)
  Lemma recs_eqb_refl l : recs_eqb l l = true.
  Proof.
    induction l as [|[lv m] l IH]; [reflexivity|]. cbn [recs_eqb]. rewrite IH.
    unfold rec_eqb; cbn [fst snd]. rewrite beq_refl. destruct lv; reflexivity.
  Qed.

  Lemma streams_eqb_refl l : streams_eqb l l = true.
  Proof. unfold streams_eqb. now rewrite !recs_eqb_refl. Qed.

  Theorem ok_model c e p1 p2 :
    p1 <> [] -> p2 <> [] ->
    (pc_flood (lc_pub c) = true \/ len (cut_newlines p1) = len (cut_newlines p2)) ->
    (* "the passwords cannot occur by accident": neither occurs in the stream produced with the other *)
    no_secret p1 (run_session (with_pass c p2) e) = true ->
    no_secret p2 (run_session (with_pass c p1) e) = true ->
    C20_ok p1 p2 (run_session (with_pass c p1) e) (run_session (with_pass c p2) e) = true.
  Proof.
    intros H1 H2 Hl Hs1 Hs2. rewrite (noninterference c e p1 p2 H1 H2 Hl) in *.
    unfold C20_ok. now rewrite Hs1, Hs2, pass_masked_run, streams_eqb_refl.
  Qed.
End Session.

(* the concrete handlers log at Warn and Error only *)
Lemma c_handle_masked q hs l : pass_masked (fst (fst (c_handle q hs l))) = true.
Proof.
  unfold c_handle, panic_out, renick.
  repeat match goal with
         | |- context [if ?b then _ else _] => destruct b
         | |- context [match ?x with Ok _ => _ | Panic => _ end] => destruct x
         end; reflexivity.
Qed.
