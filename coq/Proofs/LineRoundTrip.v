(* Proofs/LineRoundTrip.v — C01: parse (render m) = expected m for every well-formed m.
   Layers: tags stage, source stage, "cmd args :text" stage, CTCP rewrite, whole line,
   accessors, recv / stream. *)
From Verif Require Import GoBytes LineLib Line LineSend GoBytesFacts LineSendFacts.
Open Scope Z_scope.

(* ================= byte classes ================= *)
Lemma key_byte_spec c : key_byte c = true ->
  c <> 61%N /\ c <> 59%N /\ c <> 32%N /\ c <> 92%N.
Proof. intros H; repeat split; intros ->; discriminate H. Qed.

Lemma word_byte_spec c : word_byte c = true -> is_space c = false /\ c <> 32%N /\ c <> 0%N.
Proof.
  unfold word_byte. intros H. apply andb_true_iff in H as [H1 H2].
  apply negb_true_iff in H1, H2. split; [exact H1|]. split; intros ->; discriminate.
Qed.

Lemma nonempty_spec s : nonempty s = true <-> s <> [].
Proof. destruct s; simpl; split; congruence. Qed.

Lemma word_ok_shape w : word_ok w = true -> word_shape w /\ ~ In 32%N w.
Proof.
  unfold word_ok. intros H. apply andb_true_iff in H as [H1 H2].
  apply nonempty_spec in H1. split; [split; [exact H1|]|].
  - apply forallb_forall. intros c Hc. apply (forallb_In _ _ _ H2) in Hc.
    apply word_byte_spec in Hc as [-> _]. reflexivity.
  - intros Hin. apply (forallb_In _ _ _ H2) in Hin. apply word_byte_spec in Hin as (_ & Hn & _). congruence.
Qed.

(* ================= 1. the tag section ================= *)
Lemma render_tag_clean t c : mtag_ok t = true -> In c (render_tag t) -> c <> 59%N /\ c <> 32%N.
Proof.
  destruct t as [k [v|]]; unfold mtag_ok, render_tag, key_ok; cbn [fst snd]; intros H Hin.
  - apply andb_true_iff in H as [H _]. apply andb_true_iff in H as [_ Hk].
    rewrite !in_app_iff in Hin. destruct Hin as [Hin|[Hin|Hin]].
    + apply (forallb_In _ _ _ Hk), key_byte_spec in Hin. tauto.
    + simpl in Hin. destruct Hin as [<-|[]]. split; discriminate.
    + apply escape_clean in Hin. tauto.
  - apply andb_true_iff in H as [H _]. apply andb_true_iff in H as [_ Hk].
    apply (forallb_In _ _ _ Hk), key_byte_spec in Hin. tauto.
Qed.

Lemma parse_tag_render m t :
  mtag_ok t = true ->
  parse_tag m (render_tag t) = Ok (tags_set m (fst t) (tag_value (snd t))).
Proof.
  destruct t as [k ov]. unfold mtag_ok, key_ok. cbn [fst snd]. intros H.
  apply andb_true_iff in H as [H _]. apply andb_true_iff in H as [Hne Hk].
  assert (Hk61 : ~ In 61%N k) by (intros Hin; apply (forallb_In _ _ _ Hk), key_byte_spec in Hin; tauto).
  assert (Hk92 : ~ In 92%N k) by (intros Hin; apply (forallb_In _ _ _ Hk), key_byte_spec in Hin; tauto).
  destruct k as [|k0 k]; [discriminate|].
  unfold parse_tag. destruct ov as [v|]; unfold render_tag; cbn [fst snd tag_value].
  - change (((k0 :: k) ++ [b_eq] ++ escape v)) with ((k0 :: k) ++ ([61%N] ++ escape v)).
    assert (E : beq ((k0 :: k) ++ [61%N] ++ escape v) [] = false) by reflexivity.
    rewrite E. rewrite tags_unescape_plain by exact Hk92.
    replace (tags_unescape ([61%N] ++ escape v)) with (61%N :: v).
    2:{ rewrite (tags_unescape_plain [61%N]) by (simpl; intros [H|[]]; discriminate).
        now rewrite tags_unescape_escape. }
    unfold s_eq. rewrite split2_byte_found by exact Hk61.
    cbn [llen length]. rewrite elem_at_0, elem_at_1. reflexivity.
  - assert (E : beq (k0 :: k) [] = false) by reflexivity. rewrite E.
    rewrite <- (app_nil_r (k0 :: k)) at 1. rewrite tags_unescape_plain by exact Hk92.
    replace (tags_unescape []) with (@nil N) by reflexivity. rewrite app_nil_r.
    unfold s_eq. rewrite split2_byte_none by exact Hk61. reflexivity.
Qed.

Lemma fold_parse_tags ts m :
  forallb mtag_ok ts = true ->
  fold_res parse_tag (map render_tag ts) m
  = Ok (fold_left (fun m t => tags_set m (fst t) (tag_value (snd t))) ts m).
Proof.
  revert m; induction ts as [|t ts IH]; intros m H; [reflexivity|].
  simpl in H. apply andb_true_iff in H as [Ht Hts].
  cbn [map fold_res fold_left]. rewrite parse_tag_render by exact Ht. cbn [bind]. now apply IH.
Qed.

(* "c0 body SP rest" with c0 <> SP and body free of SP: the cut made by Index(s, " ") *)
Lemma cut_at_space c0 body rest :
  c0 <> 32%N -> ~ In 32%N body ->
  index (c0 :: body ++ 32%N :: rest) s_space = 1 + len body
  /\ slice (c0 :: body ++ 32%N :: rest) 1 (1 + len body) = Ok body
  /\ slice_from (c0 :: body ++ 32%N :: rest) (1 + len body + 1) = Ok rest.
Proof.
  intros H0 Hb.
  assert (Hn : ~ In 32%N (c0 :: body)) by (simpl; intros [H|H]; [congruence|contradiction]).
  repeat split.
  - change (c0 :: body ++ 32%N :: rest) with ((c0 :: body) ++ 32%N :: rest).
    unfold s_space. rewrite index_byte_first by exact Hn. now rewrite len_cons.
  - change (c0 :: body ++ 32%N :: rest) with ([c0] ++ body ++ (32%N :: rest)).
    change 1 with (len [c0]) at 1 2. apply slice_app3.
  - replace (c0 :: body ++ 32%N :: rest) with ((c0 :: body ++ [32%N]) ++ rest)
      by (simpl; rewrite <- app_assoc; reflexivity).
    replace (1 + len body + 1) with (len (c0 :: body ++ [32%N]))
      by (unfold len; simpl length; rewrite app_length; simpl length; lia).
    apply slice_from_app.
Qed.

Lemma tags_stage_some ts rest :
  tags_ok (Some ts) = true ->
  parse_tags_stage (render_tags (Some ts) ++ rest) = Ok (Some (Some (exp_tagmap ts), rest)).
Proof.
  unfold tags_ok. intros H.
  assert (Hne : ts <> []) by (destruct ts; [discriminate|discriminate]).
  assert (Hall : forallb mtag_ok ts = true) by (destruct ts; [discriminate|exact H]).
  clear H.
  assert (Hcl : forall c, (c = 59%N \/ c = 32%N) -> Forall (fun x => ~ In c x) (map render_tag ts)).
  { intros c Hc. apply Forall_forall. intros x Hx. apply in_map_iff in Hx as (t & <- & Ht).
    intros Hin. apply (render_tag_clean t c (forallb_In _ _ _ Hall Ht)) in Hin. destruct Hc; subst; tauto. }
  set (J := join (map render_tag ts) [b_semi]).
  assert (HJ : ~ In 32%N J) by (apply join_no_byte; [discriminate|apply Hcl; auto]).
  unfold render_tags. fold J.
  replace (([b_at] ++ J ++ [b_sp]) ++ rest) with (64%N :: J ++ 32%N :: rest)
    by (simpl; rewrite <- app_assoc; reflexivity).
  destruct (cut_at_space 64%N J rest) as (Hi & Hs & Hf); [discriminate|exact HJ|].
  unfold parse_tags_stage. rewrite byte_at_0. cbn [bind]. unfold c_at. rewrite N.eqb_refl.
  rewrite Hi. pose proof (len_nonneg J).
  destruct (1 + len J =? -1) eqn:E; [lia|]. cbn [negb].
  rewrite Hs, Hf. cbn [bind].
  unfold J, c_semi, b_semi. rewrite split_byte_join; [|destruct ts; [contradiction|discriminate]|apply Hcl; auto].
  rewrite fold_parse_tags by exact Hall. reflexivity.
Qed.

Lemma tags_stage_none c s :
  c <> 64%N -> parse_tags_stage (c :: s) = Ok (Some (None, c :: s)).
Proof.
  intros H. unfold parse_tags_stage. rewrite byte_at_0. cbn [bind]. unfold c_at.
  destruct (N.eqb c 64) eqn:E; [apply N.eqb_eq in E; contradiction|reflexivity].
Qed.

(* ================= 2. the source ================= *)
Lemma puh_server trim n :
  trim n = n -> negb (mem_byte b_bang n && mem_byte b_at n) = true ->
  parse_user_host_with trim n = Ok None.
Proof.
  intros Ht H. unfold parse_user_host_with. rewrite Ht.
  apply negb_true_iff, andb_false_iff in H.
  destruct H as [H|H]; apply mem_byte_not_In in H.
  - unfold s_bang. rewrite (index_byte_none n 33%N) by exact H.
    destruct (index n s_at =? -1); reflexivity.
  - unfold s_at. rewrite (index_byte_none n 64%N) by exact H. reflexivity.
Qed.

Lemma puh_user trim n u h :
  trim (n ++ [b_bang] ++ u ++ [b_at] ++ h) = n ++ [b_bang] ++ u ++ [b_at] ++ h ->
  ~ In 33%N n -> ~ In 64%N n -> ~ In 64%N u ->
  parse_user_host_with trim (n ++ [b_bang] ++ u ++ [b_at] ++ h) = Ok (Some (n, u, h)).
Proof.
  intros Ht Hn33 Hn64 Hu64. unfold parse_user_host_with. rewrite Ht.
  unfold s_bang, s_at, b_bang, b_at.
  assert (Hi33 : index (n ++ [33%N] ++ u ++ [64%N] ++ h) [33%N] = len n).
  { change (n ++ [33%N] ++ u ++ [64%N] ++ h) with (n ++ 33%N :: (u ++ [64%N] ++ h)).
    now apply index_byte_first. }
  assert (Hi64 : index (n ++ [33%N] ++ u ++ [64%N] ++ h) [64%N] = len n + (1 + len u)).
  { replace (n ++ [33%N] ++ u ++ [64%N] ++ h) with ((n ++ [33%N] ++ u) ++ 64%N :: h)
      by (rewrite <- !app_assoc; reflexivity).
    rewrite index_byte_first; [rewrite !len_app; reflexivity|].
    rewrite !in_app_iff. intros [H|[H|H]]; [auto| |auto]. simpl in H. destruct H as [H|[]]; discriminate. }
  rewrite Hi33, Hi64.
  pose proof (len_nonneg n); pose proof (len_nonneg u).
  destruct (len n + (1 + len u) =? -1) eqn:E1; [lia|].
  destruct (len n =? -1) eqn:E2; [lia|].
  destruct (len n >? len n + (1 + len u)) eqn:E3; [lia|]. cbn [orb].
  rewrite slice_to_app. cbn [bind].
  replace (n ++ [33%N] ++ u ++ [64%N] ++ h) with ((n ++ [33%N]) ++ u ++ ([64%N] ++ h))
    by (rewrite <- !app_assoc; reflexivity).
  replace (len n + 1) with (len (n ++ [33%N])) by (rewrite len_app; reflexivity).
  replace (len n + (1 + len u)) with (len (n ++ [33%N]) + len u) by (rewrite len_app; change (len [33%N]) with 1; lia).
  rewrite slice_app3. cbn [bind].
  replace ((n ++ [33%N]) ++ u ++ [64%N] ++ h) with (((n ++ [33%N]) ++ u ++ [64%N]) ++ h)
    by (rewrite <- !app_assoc; reflexivity).
  replace (len (n ++ [33%N]) + len u + 1) with (len ((n ++ [33%N]) ++ u ++ [64%N]))
    by (rewrite !len_app; change (len [33%N]) with 1; change (len [64%N]) with 1; lia).
  rewrite slice_from_app. reflexivity.
Qed.

Lemma name_ok_spec w : name_ok w = true ->
  word_ok w = true /\ ~ In 33%N w /\ ~ In 64%N w.
Proof.
  unfold name_ok. intros H. apply andb_true_iff in H as [H H3]. apply andb_true_iff in H as [H1 H2].
  apply negb_true_iff, mem_byte_not_In in H2, H3. auto.
Qed.

Lemma src_text_nospace s : src_ok (Some s) = true -> ~ In 32%N (src_text s).
Proof.
  destruct s as [n|n u h]; cbn [src_ok src_text].
  - unfold server_ok. intros H. apply andb_true_iff in H as [H _]. now apply word_ok_shape in H.
  - intros H. apply andb_true_iff in H as [H H3]. apply andb_true_iff in H as [H1 H2].
    apply name_ok_spec in H1 as (H1 & _), H2 as (H2 & _), H3 as (H3 & _).
    apply word_ok_shape in H1 as [_ H1], H2 as [_ H2], H3 as [_ H3].
    rewrite !in_app_iff. intros [H|[H|[H|[H|H]]]]; auto; simpl in H; destruct H as [H|[]]; discriminate.
Qed.

Lemma src_stage_some trim s rest :
  src_ok (Some s) = true -> trim (src_text s) = src_text s ->
  parse_src_stage trim (render_src (Some s) ++ rest) = Ok (Some (exp_src (Some s), rest)).
Proof.
  intros Hok Ht. pose proof (src_text_nospace s Hok) as Hns.
  unfold render_src.
  replace (([b_colon] ++ src_text s ++ [b_sp]) ++ rest) with (58%N :: src_text s ++ 32%N :: rest)
    by (simpl; rewrite <- app_assoc; reflexivity).
  destruct (cut_at_space 58%N (src_text s) rest) as (Hi & Hs & Hf); [discriminate|exact Hns|].
  unfold parse_src_stage. rewrite byte_at_0. cbn [bind]. unfold c_colon. rewrite N.eqb_refl.
  rewrite Hi. pose proof (len_nonneg (src_text s)).
  destruct (1 + len (src_text s) =? -1) eqn:E; [lia|]. cbn [negb].
  rewrite Hs, Hf. cbn [bind].
  destruct s as [n|n u h]; cbn [src_ok src_text exp_src] in *.
  - unfold server_ok in Hok. apply andb_true_iff in Hok as [_ Hok].
    rewrite puh_server by assumption. reflexivity.
  - apply andb_true_iff in Hok as [Hok H3]. apply andb_true_iff in Hok as [H1 H2].
    apply name_ok_spec in H1 as (_ & A1 & A2), H2 as (_ & _ & B2).
    rewrite puh_user by assumption. reflexivity.
Qed.

Lemma src_stage_none trim c s :
  c <> 58%N -> parse_src_stage trim (c :: s) = Ok (Some (([], [], [], []), c :: s)).
Proof.
  intros H. unfold parse_src_stage. rewrite byte_at_0. cbn [bind]. unfold c_colon.
  destruct (N.eqb c 58) eqn:E; [apply N.eqb_eq in E; contradiction|reflexivity].
Qed.

(* ================= 3. "cmd args[] :text" ================= *)
Definition opt_list (ot : option bytes) : list bytes :=
  match ot with Some t => [t] | None => [] end.

Lemma middle_ok_shape p : middle_ok p = true -> mid_shape p /\ word_shape p.
Proof.
  unfold middle_ok. intros H. apply andb_true_iff in H as [Hw Hc].
  apply word_ok_shape in Hw as [Hws Hsp]. split; [|exact Hws]. split; [exact Hsp|].
  destruct p as [|c p']; [discriminate|]. exists c, p'. split; [reflexivity|].
  apply negb_true_iff, N.eqb_neq in Hc. exact Hc.
Qed.

Lemma llen_cons_nz {A} (x : A) l : (llen (x :: l) =? 0) = false.
Proof. unfold llen; simpl length; lia. Qed.
Lemma llen_two_gt1 {A} (x y : A) l : (llen (x :: y :: l) >? 1) = true.
Proof. unfold llen; simpl length; lia. Qed.
Lemma llen_one_gt1 {A} (x : A) : (llen [x] >? 1) = false.
Proof. reflexivity. Qed.

Lemma args_stage fields_fn upper_fn v ms ot :
  ~ In 32%N v -> Forall (fun p => mid_shape (snd p)) ms ->
  fields_fn (v ++ render_params ms) = v :: map snd ms ->
  parse_args_stage fields_fn upper_fn (v ++ render_params ms ++ render_trailing ot)
  = Ok (Some (upper_fn v, map snd ms ++ opt_list ot)).
Proof.
  intros Hv Hms Hf. unfold parse_args_stage. destruct ot as [t|]; cbn [render_trailing opt_list].
  - change ([b_sp; b_colon] ++ t) with (sc ++ t). unfold s_space_colon. fold sc.
    pose proof (index_sc_found v ms t Hv Hms) as Hi.
    rewrite (app_assoc v) in *. rewrite split2_at by exact Hi.
    rewrite elem_at_0. cbn [bind]. rewrite Hf.
    rewrite llen_cons_nz, llen_two_gt1, elem_at_1. cbn [bind].
    change ((v :: map snd ms) ++ [t]) with (v :: (map snd ms ++ [t])).
    rewrite elem_at_0. cbn [bind].
    assert (E : (@llen bytes (v :: map snd ms ++ [t]) >? 1) = true).
    { unfold llen. cbn [length]. rewrite app_length. simpl length. lia. }
    rewrite E, elems_from_1. reflexivity.
  - rewrite !app_nil_r. unfold s_space_colon. fold sc.
    rewrite split2_absent by (apply index_sc_none; assumption).
    rewrite elem_at_0. cbn [bind]. rewrite Hf.
    rewrite llen_cons_nz, llen_one_gt1. cbn [bind]. rewrite elem_at_0. cbn [bind].
    destruct (map snd ms) as [|a l] eqn:E.
    + reflexivity.
    + rewrite llen_two_gt1, elems_from_1. reflexivity.
Qed.

(* ================= 4. the CTCP rewrite ================= *)
Lemma ctcp_parts_inv p v t :
  ctcp_parts p = Some (v, t) ->
  p = 1%N :: v ++ 32%N :: t ++ [1%N] /\ ~ In 32%N v
  /\ ctcp_verb_ok v = true /\ ctcp_text_ok t = true.
Proof.
  unfold ctcp_parts. destruct p as [|c q]; [discriminate|].
  destruct (N.eqb c b_soh) eqn:Ec; [|discriminate]. apply N.eqb_eq in Ec. subst c.
  destruct (rev q) as [|c' rb] eqn:Er; [discriminate|].
  destruct (N.eqb c' b_soh) eqn:Ec'; [|discriminate]. apply N.eqb_eq in Ec'. subst c'.
  destruct (split2 (rev rb) [b_sp]) as [|a [|b [|? ?]]] eqn:Es; try discriminate.
  destruct (ctcp_verb_ok a && ctcp_text_ok b) eqn:Ek; [|discriminate].
  intros H. injection H as <- <-. apply andb_true_iff in Ek as [Ha Hb].
  apply split2_byte_inv in Es as [Es Hn].
  assert (Hq : q = rev rb ++ [b_soh]).
  { rewrite <- (rev_involutive q), Er. reflexivity. }
  rewrite Hq, Es. unfold b_soh, b_sp. rewrite <- app_assoc. auto.
Qed.

Lemma ctcp_verb_byte_spec c : ctcp_verb_byte c = true ->
  c <> 1%N /\ c <> 32%N /\ (c <? 128)%N = true /\ upper_byte c = c.
Proof.
  unfold ctcp_verb_byte, upper_byte. intros H.
  apply andb_true_iff in H as [H H3]. apply andb_true_iff in H as [H1 H2].
  apply negb_true_iff in H3. rewrite H3. repeat split; try lia.
Qed.

Lemma ctcp_verb_upper v : ctcp_verb_ok v = true -> to_upper v = v.
Proof.
  unfold ctcp_verb_ok. intros H. apply andb_true_iff in H as [_ H].
  unfold to_upper. induction v as [|c v IH]; [reflexivity|].
  simpl in H. apply andb_true_iff in H as [Hc Hv]. simpl.
  apply ctcp_verb_byte_spec in Hc as (_ & _ & _ & ->). now rewrite IH.
Qed.

Definition is_ascii (c : N) : bool := (c <? 128)%N.

Lemma ctcp_verb_ascii v : ctcp_verb_ok v = true -> forallb is_ascii v = true.
Proof.
  unfold ctcp_verb_ok. intros H. apply andb_true_iff in H as [_ H].
  apply forallb_forall. intros c Hc. apply (forallb_In _ _ _ H) in Hc.
  now apply ctcp_verb_byte_spec in Hc.
Qed.

(* Trim(payload, "\001") of an in-claim payload *)
Lemma ctcp_trim v t :
  ctcp_verb_ok v = true -> ctcp_text_ok t = true ->
  trim (1%N :: v ++ 32%N :: t ++ [1%N]) s_soh = v ++ 32%N :: t.
Proof.
  intros Hv Ht.
  unfold ctcp_verb_ok in Hv. apply andb_true_iff in Hv as [Hvn Hvb].
  unfold ctcp_text_ok in Ht. apply andb_true_iff in Ht as [Htn Htb].
  destruct v as [|x v']; [discriminate|].
  apply nonempty_spec in Htn. destruct (exists_last Htn) as (t' & y & ->).
  assert (Hx : mem_byte x s_soh = false).
  { simpl in Hvb. apply andb_true_iff in Hvb as [Hx _]. apply ctcp_verb_byte_spec in Hx as (Hx & _).
    unfold mem_byte, s_soh. simpl. apply N.eqb_neq in Hx. now rewrite Hx. }
  assert (Hy : mem_byte y s_soh = false).
  { assert (Hin : In y (t' ++ [y])) by (apply in_or_app; right; left; reflexivity).
    apply (forallb_In _ _ _ Htb) in Hin. apply negb_true_iff in Hin.
    unfold mem_byte, s_soh. simpl. unfold b_soh in Hin. now rewrite Hin. }
  replace (1%N :: (x :: v') ++ 32%N :: (t' ++ [y]) ++ [1%N])
    with ([1%N] ++ ((x :: v') ++ 32%N :: t' ++ [y]) ++ [1%N])
    by (simpl; rewrite <- !app_assoc; simpl; rewrite <- app_assoc; reflexivity).
  apply (trim_core [1%N] [1%N] s_soh x y (v' ++ 32%N :: t')); try reflexivity; try assumption.
  right. simpl. rewrite <- app_assoc. reflexivity.
Qed.

Lemma ctcp_parts_shaped p vt : ctcp_parts p = Some vt -> ctcp_shaped p = true.
Proof.
  destruct vt as [v t]. intros H. apply ctcp_parts_inv in H as (-> & _ & Hv & _).
  unfold ctcp_shaped. apply andb_true_iff. split; [apply andb_true_iff; split|].
  - destruct v as [|x v]; [discriminate|]. rewrite !len_cons, len_app, len_cons.
    pose proof (len_nonneg v); pose proof (len_nonneg (t ++ [1%N])). rewrite (len_cons 32%N). apply Z.gtb_lt. lia.
  - reflexivity.
  - replace (1%N :: v ++ 32%N :: t ++ [1%N]) with ((1%N :: v ++ 32%N :: t) ++ [b_soh])
      by (simpl; rewrite <- app_assoc; reflexivity).
    apply has_suffix_app.
Qed.

Lemma is_ctcp_cond_shaped cmd a0 a1 rest :
  is_msg_cmd cmd = true -> is_ctcp_cond cmd (a0 :: a1 :: rest) = Ok (ctcp_shaped a1).
Proof.
  unfold is_msg_cmd, is_ctcp_cond, ctcp_shaped. intros ->.
  assert (E : llen (a0 :: a1 :: rest) >? 1 = true) by (unfold llen; simpl length; lia).
  rewrite E, !elem_at_1. cbn [bind]. unfold s_soh, b_soh.
  destruct (len a1 >? 2); [|reflexivity].
  destruct (has_prefix a1 [1%N]); reflexivity.
Qed.

Lemma set_elem_1 {A} (a b x : A) : set_elem [a; b] 1 x = Ok [a; x].
Proof. reflexivity. Qed.

Lemma ctcp_stage upper cmd args :
  (forall s, forallb is_ascii s = true -> upper s = to_upper s) ->
  ctcp_wf cmd args = true ->
  exists b, is_ctcp_cond cmd args = Ok b
            /\ (if b then ctcp_rewrite upper cmd args else Ok (cmd, args)) = Ok (exp_ctcp cmd args).
Proof.
  intros Hup Hwf. unfold ctcp_wf, exp_ctcp in *.
  destruct (is_msg_cmd cmd) eqn:Em.
  2:{ exists false. split; [|reflexivity]. unfold is_msg_cmd in Em. unfold is_ctcp_cond. now rewrite Em. }
  destruct args as [|a0 [|a1 rest]].
  - exists false. split; [|reflexivity]. unfold is_ctcp_cond, is_msg_cmd in *. now rewrite Em.
  - exists false. split; [|reflexivity]. unfold is_ctcp_cond, is_msg_cmd in *. now rewrite Em.
  - exists (ctcp_shaped a1). split; [now apply is_ctcp_cond_shaped|].
    destruct (ctcp_shaped a1) eqn:Es.
    + destruct rest as [|? ?]; [|discriminate].
      destruct (ctcp_parts a1) as [[v t]|] eqn:Ep; [|discriminate].
      pose proof (ctcp_parts_inv _ _ _ Ep) as (-> & Hn & Hv & Ht).
      unfold ctcp_rewrite. rewrite elem_at_1. cbn [bind].
      rewrite ctcp_trim by assumption. unfold s_space. rewrite split2_byte_found by exact Hn.
      rewrite llen_two_gt1, elem_at_1, elem_at_0. cbn [bind]. rewrite set_elem_1. cbn [bind].
      rewrite (Hup v) by (now apply ctcp_verb_ascii).
      destruct (beq (to_upper v) cmd_ACTION) eqn:Ea; [apply beq_eq in Ea; rewrite Ea|]; cbn [andb];
        destruct (beq cmd cmd_PRIVMSG); reflexivity.
    + destruct rest as [|? ?]; [|reflexivity].
      destruct (ctcp_parts a1) as [vt|] eqn:Ep; [|reflexivity].
      apply ctcp_parts_shaped in Ep. congruence.
Qed.

(* ================= 5. the whole line ================= *)
Lemma is_space_le c : is_space c = true -> (c <= 32)%N.
Proof.
  unfold is_space. destruct c as [|p]; [discriminate|].
  do 6 (destruct p as [p|p|]; try discriminate); intros _; lia.
Qed.

Lemma verb_byte_spec c : is_letter c || is_digit c = true ->
  word_byte c = true /\ is_ascii c = true /\ c <> 64%N /\ c <> 58%N.
Proof.
  intros H.
  assert (Hr : (48 <= c <= 57 \/ 65 <= c <= 90 \/ 97 <= c <= 122)%N).
  { unfold is_letter, is_digit in H. lia. }
  unfold word_byte, is_ascii, b_nul. repeat split; try lia.
  destruct (is_space c) eqn:E; [apply is_space_le in E; lia|].
  destruct (N.eqb c 0) eqn:E0; [lia|reflexivity].
Qed.

Lemma verb_ok_spec v : verb_ok v = true ->
  exists c v', v = c :: v' /\ c <> 64%N /\ c <> 58%N
               /\ word_ok v = true /\ forallb is_ascii v = true.
Proof.
  intros H.
  assert (Hb : nonempty v = true /\ forallb (fun c => is_letter c || is_digit c) v = true).
  { unfold verb_ok in H. apply orb_true_iff in H as [H|H]; apply andb_true_iff in H as [H1 H2].
    - split; [exact H1|]. apply forallb_forall. intros c Hc. apply (forallb_In _ _ _ H2) in Hc. now rewrite Hc.
    - split; [destruct v; [discriminate|reflexivity]|].
      apply forallb_forall. intros c Hc. apply (forallb_In _ _ _ H2) in Hc. rewrite Hc. apply orb_true_r. }
  destruct Hb as [Hne Hb]. destruct v as [|c v']; [discriminate|].
  exists c, v'. split; [reflexivity|].
  assert (Hc : In c (c :: v')) by (left; reflexivity).
  apply (forallb_In _ _ _ Hb), verb_byte_spec in Hc as (_ & _ & H64 & H58).
  split; [exact H64|]. split; [exact H58|]. split.
  - unfold word_ok. rewrite Hne. apply forallb_forall. intros x Hx.
    apply (forallb_In _ _ _ Hb), verb_byte_spec in Hx. tauto.
  - apply forallb_forall. intros x Hx. apply (forallb_In _ _ _ Hb), verb_byte_spec in Hx. tauto.
Qed.

(* the words on which the three Unicode-aware stdlib functions are known to behave *)
Definition src_okw (okw : bytes -> bool) (os : option source) : bool :=
  match os with
  | None => true
  | Some (SrcServer n) => okw n
  | Some (SrcUser n u h) => okw n && okw u && okw h
  end.
Definition words_okw (okw : bytes -> bool) (m : msg) : bool :=
  okw (verb m) && forallb (fun p => okw (snd p)) (middles m) && src_okw okw (msrc m).

Section RoundTrip.
  Variable fields_fn : bytes -> list bytes.   (* strings.Fields *)
  Variable upper_fn : bytes -> bytes.         (* strings.ToUpper *)
  Variable trim_fn : bytes -> bytes.          (* strings.TrimSpace *)
  Variable okw : bytes -> bool.

  (* Fields splits "w p1 p2 ..." (separated by runs of U+0020) into its words *)
  Hypothesis H_fields : forall w ms,
    word_ok w = true -> okw w = true ->
    forallb (fun p => word_ok (snd p) && okw (snd p)) ms = true ->
    fields_fn (w ++ render_params ms) = w :: map snd ms.
  (* ToUpper on ASCII is the byte-wise map *)
  Hypothesis H_upper : forall s, forallb is_ascii s = true -> upper_fn s = to_upper s.
  (* TrimSpace leaves a source made of such words alone *)
  Hypothesis H_trim : forall s,
    src_ok (Some s) = true -> src_okw okw (Some s) = true -> trim_fn (src_text s) = src_text s.

  Theorem roundtrip_with m :
    wf_msg m = true -> words_okw okw m = true ->
    parse_with fields_fn upper_fn trim_fn (render m) = Ok (Some (expected m)).
  Proof.
    intros Hwf Hok. unfold wf_msg in Hwf.
    apply andb_true_iff in Hwf as [Hwf Hctcp]. apply andb_true_iff in Hwf as [Hwf Htr].
    apply andb_true_iff in Hwf as [Hwf Hmid]. apply andb_true_iff in Hwf as [Hwf Hverb].
    apply andb_true_iff in Hwf as [Htags Hsrc].
    unfold words_okw in Hok. apply andb_true_iff in Hok as [Hok Hosrc].
    apply andb_true_iff in Hok as [Hoverb Homid].
    destruct (verb_ok_spec _ Hverb) as (c & v' & Ev & Hc64 & Hc58 & Hvw & Hva).
    pose proof (word_ok_shape _ Hvw) as [_ Hvsp].
    unfold middles_ok in Hmid. apply andb_true_iff in Hmid as [_ Hmid].
    assert (Hms : Forall (fun p => mid_shape (snd p)) (middles m)).
    { apply Forall_forall. intros p Hp. apply (forallb_In _ _ _ Hmid) in Hp. now apply middle_ok_shape in Hp. }
    assert (Hfl : fields_fn (verb m ++ render_params (middles m)) = verb m :: map snd (middles m)).
    { apply H_fields; [exact Hvw|exact Hoverb|].
      apply forallb_forall. intros p Hp. apply andb_true_iff. split.
      - apply (forallb_In _ _ _ Hmid) in Hp. unfold middle_ok in Hp. now apply andb_true_iff in Hp as [Hp _].
      - now apply (forallb_In _ _ _ Homid) in Hp. }
    (* stage C *)
    assert (HC : parse_args_stage fields_fn upper_fn (render_body m)
                 = Ok (Some (to_upper (verb m), msg_args m))).
    { unfold render_body, msg_args. rewrite (args_stage fields_fn upper_fn) by assumption.
      rewrite H_upper by exact Hva. reflexivity. }
    (* stage D *)
    destruct (ctcp_stage upper_fn _ _ H_upper Hctcp) as (b & HD1 & HD2).
    (* the body starts with the verb's first byte *)
    assert (Eb : render_body m = c :: (v' ++ render_params (middles m) ++ render_trailing (trailing m))).
    { unfold render_body. rewrite Ev. reflexivity. }
    (* stage B *)
    assert (HB : exists c1 r1, render_src (msrc m) ++ render_body m = c1 :: r1 /\ c1 <> 64%N
                 /\ parse_src_stage trim_fn (c1 :: r1) = Ok (Some (exp_src (msrc m), render_body m))).
    { destruct (msrc m) as [s|] eqn:Es.
      - exists 58%N, (src_text s ++ [b_sp] ++ render_body m). split; [|split; [discriminate|]].
        + unfold render_src. simpl. now rewrite <- !app_assoc.
        + replace (58%N :: src_text s ++ [b_sp] ++ render_body m)
            with (render_src (Some s) ++ render_body m)
            by (unfold render_src; simpl; now rewrite <- !app_assoc).
          apply src_stage_some; [exact Hsrc|]. apply H_trim; assumption.
      - exists c, (v' ++ render_params (middles m) ++ render_trailing (trailing m)).
        split; [exact Eb|]. split; [exact Hc64|].
        rewrite <- Eb. cbn [exp_src]. rewrite Eb. now apply src_stage_none. }
    destruct HB as (c1 & r1 & E1 & Hc1 & HB).
    (* stage A *)
    assert (HA : exists c0 r0, render m = c0 :: r0
                 /\ parse_tags_stage (c0 :: r0) = Ok (Some (exp_tags (mtags m), c1 :: r1))).
    { unfold render. rewrite E1. destruct (mtags m) as [ts|] eqn:Et.
      - exists 64%N, (join (map render_tag ts) [b_semi] ++ [b_sp] ++ c1 :: r1). split.
        + unfold render_tags. simpl. now rewrite <- !app_assoc.
        + replace (64%N :: join (map render_tag ts) [b_semi] ++ [b_sp] ++ c1 :: r1)
            with (render_tags (Some ts) ++ c1 :: r1)
            by (unfold render_tags; simpl; now rewrite <- !app_assoc).
          now apply tags_stage_some.
      - exists c1, r1. split; [reflexivity|]. now apply tags_stage_none. }
    destruct HA as (c0 & r0 & E0 & HA).
    (* assemble *)
    unfold parse_with. rewrite E0.
    change (beq (c0 :: r0) []) with false. cbv iota.
    rewrite HA. cbn [bind]. change (beq (c1 :: r1) []) with false. cbv iota.
    rewrite HB. cbn [bind].
    unfold expected. destruct (exp_src (msrc m)) as [[[src nick] ident] host].
    rewrite HC. cbn [bind]. rewrite HD1. cbn [bind]. rewrite HD2. cbn [bind].
    rewrite <- E0. reflexivity.
  Qed.
End RoundTrip.

(* ================= 6. the executable ASCII instance ================= *)
Lemma mem_ascii_space c : is_space c = false -> mem_byte c ascii_space = false.
Proof.
  intros H. destruct (mem_byte c ascii_space) eqn:E; [|reflexivity].
  apply mem_byte_In in E. unfold ascii_space in E. simpl in E.
  repeat (destruct E as [E|E]; [subst c; discriminate H|]). contradiction.
Qed.

Lemma ends_in {A} (s : list A) x y mid :
  (s = [x] /\ x = y /\ mid = []) \/ s = x :: mid ++ [y] -> In x s /\ In y s.
Proof.
  intros [(-> & -> & _)| ->]; split; try (left; reflexivity).
  right. apply in_or_app. right. left. reflexivity.
Qed.

Lemma trim_id s cut :
  s <> [] -> (forall c, In c s -> mem_byte c cut = false) ->
  forall pre post, forallb (fun c => mem_byte c cut) pre = true ->
                   forallb (fun c => mem_byte c cut) post = true ->
  trim (pre ++ s ++ post) cut = s.
Proof.
  intros Hne Hall pre post Hpre Hpost.
  destruct (ends_of s Hne) as (x & y & mid & Hc & _ & _).
  destruct (ends_in _ _ _ _ Hc) as [Hx Hy].
  apply (trim_core pre post cut x y mid); auto.
Qed.

Lemma src_text_nonspace s c : src_ok (Some s) = true -> In c (src_text s) -> is_space c = false.
Proof.
  assert (W : forall w, word_ok w = true -> In c w -> is_space c = false).
  { intros w Hw Hin. unfold word_ok in Hw. apply andb_true_iff in Hw as [_ Hw].
    apply (forallb_In _ _ _ Hw), word_byte_spec in Hin. tauto. }
  destruct s as [n|n u h]; cbn [src_ok src_text].
  - unfold server_ok. intros H. apply andb_true_iff in H as [H _]. now apply W.
  - intros H. apply andb_true_iff in H as [H H3]. apply andb_true_iff in H as [H1 H2].
    apply name_ok_spec in H1 as (H1 & _), H2 as (H2 & _), H3 as (H3 & _).
    rewrite !in_app_iff. intros [Hi|[Hi|[Hi|[Hi|Hi]]]]; eauto;
      simpl in Hi; destruct Hi as [<-|[]]; reflexivity.
Qed.

Lemma src_text_nonempty s : src_ok (Some s) = true -> src_text s <> [].
Proof.
  destruct s as [n|n u h]; cbn [src_ok src_text].
  - unfold server_ok, word_ok. intros H. apply andb_true_iff in H as [H _].
    apply andb_true_iff in H as [H _]. now apply nonempty_spec.
  - intros _ E. apply app_eq_nil in E as [_ E]. discriminate.
Qed.

Theorem roundtrip m : wf_msg m = true -> parse (render m) = Ok (Some (expected m)).
Proof.
  intros H. unfold parse.
  apply (roundtrip_with fields to_upper trim_space (fun _ => true)); auto.
  - intros w ms Hw _ Hms. apply fields_words.
    + now apply word_ok_shape in Hw.
    + apply Forall_forall. intros p Hp. apply (forallb_In _ _ _ Hms) in Hp.
      apply andb_true_iff in Hp as [Hp _]. now apply word_ok_shape in Hp.
  - intros s Hs _. unfold trim_space.
    rewrite <- (app_nil_r (src_text s)) at 1.
    change (src_text s ++ []) with ([] ++ src_text s ++ []).
    apply trim_id; try reflexivity.
    + now apply src_text_nonempty.
    + intros c Hc. apply mem_ascii_space. now apply (src_text_nonspace s).
  - unfold words_okw. destruct (msrc m) as [[?|? ? ?]|]; simpl;
      rewrite ?andb_true_r; apply forallb_forall; reflexivity.
Qed.

(* ================= 7. tags: what the map contains ================= *)
Lemma beq_sym a b : beq a b = beq b a.
Proof.
  destruct (beq a b) eqn:E1, (beq b a) eqn:E2; auto.
  - apply beq_eq in E1. subst. now rewrite beq_refl in E2.
  - apply beq_eq in E2. subst. now rewrite beq_refl in E1.
Qed.

Lemma tags_get_set m k v k' :
  tags_get (tags_set m k v) k' = if beq k' k then Some v else tags_get m k'.
Proof.
  induction m as [|[k1 v1] m IH]; [reflexivity|].
  cbn [tags_set]. destruct (beq k k1) eqn:E1.
  - apply beq_eq in E1. subst k1. cbn [tags_get]. destruct (beq k' k); reflexivity.
  - cbn [tags_get]. rewrite IH.
    destruct (beq k' k1) eqn:E2, (beq k' k) eqn:E3; try reflexivity.
    apply beq_eq in E2, E3. subst. now rewrite beq_refl in E1.
Qed.

Lemma tags_get_fold ts m0 k :
  tags_get (fold_left (fun m t => tags_set m (fst t) (tag_value (snd t))) ts m0) k
  = match last_binding ts k with Some v => Some v | None => tags_get m0 k end.
Proof.
  revert m0; induction ts as [|t ts IH]; intros m0; [reflexivity|].
  cbn [fold_left last_binding]. rewrite IH.
  destruct (last_binding ts k); [reflexivity|]. rewrite tags_get_set. now destruct (beq k (fst t)).
Qed.

(* the map holds, for every key, the ORIGINAL (unescaped) value of the last tag with that key *)
Lemma exp_tagmap_lookup ts k : tags_get (exp_tagmap ts) k = last_binding ts k.
Proof. unfold exp_tagmap. rewrite tags_get_fold. now destruct (last_binding ts k). Qed.

Theorem tags_unescaped m ts :
  wf_msg m = true -> mtags m = Some ts ->
  exists l tm, parse (render m) = Ok (Some l) /\ l_tags l = Some tm
               /\ forall k, tags_get tm k = last_binding ts k.
Proof.
  intros H E. exists (expected m), (exp_tagmap ts). split; [now apply roundtrip|].
  split; [|apply exp_tagmap_lookup].
  unfold expected. destruct (exp_src (msrc m)) as [[[? ?] ?] ?]. cbn [l_tags]. now rewrite E.
Qed.

Theorem no_tags_no_map m :
  wf_msg m = true -> mtags m = None ->
  exists l, parse (render m) = Ok (Some l) /\ l_tags l = None.
Proof.
  intros H E. exists (expected m). split; [now apply roundtrip|].
  unfold expected. destruct (exp_src (msrc m)) as [[[? ?] ?] ?]. cbn [l_tags]. now rewrite E.
Qed.

(* the four-pair replacer of the original source (no "\\\\" -> "\\" pair) does NOT undo the
   escaping of a single backslash: kept so that a regression to four pairs is understood *)
Definition tags_pairs_old : list (bytes * bytes) :=
  [([92;58], [59]); ([92;115], [32]); ([92;114], [13]); ([92;110], [10])]%N.
Example old_replacer_fails : replace_pairs tags_pairs_old (escape [92%N]) <> [92%N].
Proof. vm_compute. discriminate. Qed.
