(* Proofs/GoBytesFacts.v — lemmas about Lib/GoBytes.v used throughout. *)
From Coq Require Export ZifyBool ZifyN ZifyNat.
From Verif Require Import GoBytes.
Open Scope Z_scope.

Lemma beq_refl s : beq s s = true.
Proof. induction s as [|x s IH]; simpl; [reflexivity|]. now rewrite N.eqb_refl, IH. Qed.

Lemma beq_eq a b : beq a b = true <-> a = b.
Proof.
  split; [|intros ->; apply beq_refl].
  revert b; induction a as [|x a IH]; intros [|y b]; simpl; try congruence.
  intros H; apply andb_true_iff in H as [H1 H2].
  apply N.eqb_eq in H1; subst; f_equal; auto.
Qed.

Lemma beq_neq a b : beq a b = false <-> a <> b.
Proof.
  split.
  - intros H E; apply beq_eq in E; congruence.
  - intros H; destruct (beq a b) eqn:E; [apply beq_eq in E; contradiction|reflexivity].
Qed.

Lemma len_app a b : len (a ++ b) = len a + len b.
Proof. unfold len; rewrite app_length; lia. Qed.

Lemma len_nonneg s : 0 <= len s.
Proof. unfold len; lia. Qed.

Lemma len_nil : len [] = 0. Proof. reflexivity. Qed.

Lemma len_cons x s : len (x :: s) = 1 + len s.
Proof. unfold len; simpl length; lia. Qed.

Lemma len_zero s : len s = 0 -> s = [].
Proof. destruct s; [reflexivity|unfold len; simpl; lia]. Qed.

(* ---------- has_prefix ---------- *)
Lemma has_prefix_app p s : has_prefix (p ++ s) p = true.
Proof. induction p as [|x p IH]; simpl; [reflexivity|]. now rewrite N.eqb_refl. Qed.

Lemma has_prefix_length s p : has_prefix s p = true -> (length p <= length s)%nat.
Proof.
  revert s; induction p as [|y p IH]; intros [|x s]; simpl; try lia; try congruence.
  intros H; apply andb_true_iff in H as [_ H]; apply IH in H; lia.
Qed.

Lemma has_prefix_spec s p : has_prefix s p = true <-> exists r, s = p ++ r.
Proof.
  split.
  - revert s; induction p as [|y p IH]; intros s H; simpl in *.
    + now exists s.
    + destruct s as [|x s]; [congruence|].
      apply andb_true_iff in H as [H1 H2]; apply N.eqb_eq in H1; subst.
      destruct (IH _ H2) as [r ->]; now exists r.
  - intros [r ->]; apply has_prefix_app.
Qed.

Lemma has_prefix_nil s : has_prefix s [] = true.
Proof. destruct s; reflexivity. Qed.

Lemma has_suffix_app s p : has_suffix (s ++ p) p = true.
Proof. unfold has_suffix; rewrite rev_app_distr; apply has_prefix_app. Qed.

Lemma has_suffix_spec s p : has_suffix s p = true <-> exists r, s = r ++ p.
Proof.
  unfold has_suffix; rewrite has_prefix_spec; split; intros [r H].
  - exists (rev r). rewrite <- (rev_involutive s), H, rev_app_distr, rev_involutive; reflexivity.
  - exists (rev r). rewrite H, rev_app_distr; reflexivity.
Qed.

(* ---------- index / last_index ranges ---------- *)
Lemma index_aux_range s sep i :
  let r := index_aux s sep i in
  r = -1 \/ (Z.of_nat i <= r /\ r + len sep <= Z.of_nat i + len s).
Proof.
  revert i; induction s as [|x s IH]; intros i; simpl.
  - destruct (has_prefix [] sep) eqn:E; [|now left].
    right; apply has_prefix_length in E; unfold len; simpl in *; lia.
  - destruct (has_prefix (x :: s) sep) eqn:E.
    + right; apply has_prefix_length in E; unfold len; simpl in *; lia.
    + destruct (IH (S i)) as [H|H]; [now left|right].
      rewrite len_cons; lia.
Qed.

Lemma index_range s sep :
  index s sep = -1 \/ (0 <= index s sep /\ index s sep + len sep <= len s).
Proof. unfold index; pose proof (index_aux_range s sep 0) as H; simpl in H; lia. Qed.

Lemma last_index_aux_range s sep i acc :
  (acc = -1 \/ (0 <= acc /\ acc + len sep <= Z.of_nat i + len s)) ->
  let r := last_index_aux s sep i acc in
  r = -1 \/ (0 <= r /\ r + len sep <= Z.of_nat i + len s).
Proof.
  revert i acc; induction s as [|x s IH]; intros i acc Hacc; simpl.
  - destruct (has_prefix [] sep) eqn:E; [|exact Hacc].
    right; apply has_prefix_length in E; unfold len; simpl in *; lia.
  - assert (Hs : Z.of_nat i + len (x :: s) = Z.of_nat (S i) + len s)
      by (rewrite len_cons; lia).
    rewrite Hs; apply IH; rewrite <- Hs.
    destruct (has_prefix (x :: s) sep) eqn:E; [|exact Hacc].
    right; apply has_prefix_length in E; unfold len; simpl in *; lia.
Qed.

Lemma last_index_range s sep :
  last_index s sep = -1 \/ (0 <= last_index s sep /\ last_index s sep + len sep <= len s).
Proof.
  unfold last_index.
  pose proof (last_index_aux_range s sep 0 (-1) (or_introl eq_refl)) as H; simpl in H; lia.
Qed.

(* index finds the FIRST occurrence: characterisation *)
Lemma index_aux_found s sep i r :
  index_aux s sep i = r -> 0 <= r - Z.of_nat i ->
  r <> -1 ->
  exists a b, s = a ++ sep ++ b /\ Z.of_nat (length a) = r - Z.of_nat i
              /\ (forall a' b', s = a' ++ sep ++ b' -> (length a <= length a')%nat).
Proof.
  revert i r; induction s as [|x s IH]; intros i r; simpl.
  - destruct (has_prefix [] sep) eqn:E.
    + intros <- _ _. apply has_prefix_spec in E as [b Hb].
      exists [], b; split; [exact Hb|split; [simpl; lia|intros; simpl; lia]].
    + intros <-; lia.
  - destruct (has_prefix (x :: s) sep) eqn:E.
    + intros <- _ _. apply has_prefix_spec in E as [b Hb].
      exists [], b; split; [exact Hb|split; [simpl; lia|intros; simpl; lia]].
    + intros Hr Hge Hne.
      assert (Hr' := Hr).
      pose proof (index_aux_range s sep (S i)) as Hrg; simpl in Hrg; rewrite Hr in Hrg.
      destruct Hrg as [Hrg|Hrg]; [contradiction|].
      apply IH in Hr; [|lia|exact Hne].
      destruct Hr as (a & b & -> & Hl & Hmin).
      exists (x :: a), b; split; [reflexivity|split; [simpl length; lia|]].
      intros [|y a'] b' Heq.
      * simpl in Heq. exfalso.
        assert (has_prefix (x :: a ++ sep ++ b) sep = true)
          by (apply has_prefix_spec; exists b'; exact Heq).
        congruence.
      * simpl in Heq; injection Heq as -> Heq. apply Hmin in Heq; simpl; lia.
Qed.

Lemma index_found s sep :
  index s sep <> -1 ->
  exists a b, s = a ++ sep ++ b /\ len a = index s sep
              /\ (forall a' b', s = a' ++ sep ++ b' -> (length a <= length a')%nat).
Proof.
  intros H.
  pose proof (index_range s sep) as Hr.
  destruct (index_aux_found s sep 0 (index s sep) eq_refl) as (a & b & H1 & H2 & H3);
    [simpl; lia|exact H|].
  exists a, b; repeat split; auto. unfold len; simpl in H2; lia.
Qed.

Lemma index_aux_none s sep i :
  index_aux s sep i = -1 -> forall a b, s <> a ++ sep ++ b.
Proof.
  revert i; induction s as [|x s IH]; intros i; simpl.
  - destruct (has_prefix [] sep) eqn:E; [lia|].
    intros _ a b Heq. destruct a; simpl in Heq.
    + assert (has_prefix [] sep = true) by (apply has_prefix_spec; exists b; exact Heq). congruence.
    + discriminate.
  - destruct (has_prefix (x :: s) sep) eqn:E; [lia|].
    intros H a b Heq. destruct a as [|y a]; simpl in Heq.
    + assert (has_prefix (x :: s) sep = true) by (apply has_prefix_spec; exists b; exact Heq). congruence.
    + injection Heq as -> Heq. eapply IH; eauto.
Qed.

Lemma index_none s sep : index s sep = -1 -> forall a b, s <> a ++ sep ++ b.
Proof. apply index_aux_none. Qed.

Lemma index_none_iff_byte s c : index s [c] = -1 <-> ~ In c s.
Proof.
  split.
  - intros H Hin. apply in_split in Hin as (a & b & ->).
    eapply index_none; eauto. reflexivity.
  - intros Hnin. destruct (index_range s [c]) as [H|H]; [exact H|].
    exfalso. destruct (index_found s [c]) as (a & b & -> & _); [lia|].
    apply Hnin, in_or_app; right; left; reflexivity.
Qed.

(* ---------- firstn / skipn helpers with Z ---------- *)
Lemma slice_to_ok s k : 0 <= k <= len s -> slice_to s k = Ok (firstn (Z.to_nat k) s).
Proof.
  intros H; unfold slice_to.
  destruct (0 <=? k) eqn:E1; [|lia]. destruct (k <=? len s) eqn:E2; [reflexivity|lia].
Qed.

Lemma slice_from_ok s k : 0 <= k <= len s -> slice_from s k = Ok (skipn (Z.to_nat k) s).
Proof.
  intros H; unfold slice_from.
  destruct (0 <=? k) eqn:E1; [|lia]. destruct (k <=? len s) eqn:E2; [reflexivity|lia].
Qed.

Lemma len_firstn s k : 0 <= k <= len s -> len (firstn (Z.to_nat k) s) = k.
Proof. intros H; unfold len in *; rewrite firstn_length; lia. Qed.

Lemma len_skipn s k : 0 <= k <= len s -> len (skipn (Z.to_nat k) s) = len s - k.
Proof. intros H; unfold len in *; rewrite skipn_length; lia. Qed.
