(* Proofs/NetSimEv.v — C13: the simulation step.  In a well-formed network state, for every
   event inside the claim, feeding the lines the server shows the client through the state
   handlers turns the tracker from the network's view before the event into the view after it. *)
From Verif Require Import TrackerSpec TrackerSpecFacts StateHandlers Net NetObs NetProofs NetHandlers NetSim NetModes.
From Verif Require NetDec.
From Verif Require GoBytes LineLib Line LineSend LineSendFacts.
Open Scope Z_scope.

Definition onN (nt : net) (c n : name) : Prop := is_Some (n_member nt !! (c, n)).

(* well-formed network states: the truth is consistent and its names are protocol words; the
   view holds EXACTLY the client's channels (d1), EXACTLY the memberships of those channels
   (d2) and EXACTLY the client plus the users sharing a channel with it (d3) *)
Record wf_net (nt : net) : Prop := {
  wf_view : sp_inv (n_view nt);
  wf_me : is_Some (n_users nt !! n_me nt);
  wf_mem : forall c n, onN nt c n -> is_Some (n_chans nt !! c) /\ is_Some (n_users nt !! n);
  wf_users : forall n ui, n_users nt !! n = Some ui ->
               nick_ok n = true /\ LineSend.name_ok (ui_user ui) = true /\ LineSend.name_ok (ui_host ui) = true
               /\ text_ok (ui_real ui) = true
               /\ LineSend.middle_ok (ui_user ui) = true /\ LineSend.middle_ok (ui_host ui) = true;
  wf_chans : forall c a, n_chans nt !! c = Some a ->
               chan_ok c = true /\ text_ok (ca_topic a) = true
               /\ (cm_key (ca_modes a) = [] \/ LineSend.middle_ok (cm_key (ca_modes a)) = true)
               /\ (cm_limit (ca_modes a) = 0 \/ atoi (GoBytes.dec_of_Z (cm_limit (ca_modes a))) = cm_limit (ca_modes a));
  wf_d1 : forall c, chanT (n_view nt) c <-> onN nt c (n_me nt);
  wf_d2 : forall c n, onT (n_view nt) c n <-> onN nt c (n_me nt) /\ onN nt c n;
  wf_d3 : forall n, nickT (n_view nt) n <-> n = n_me nt \/ exists c, onN nt c (n_me nt) /\ onN nt c n
}.

Lemma onb_spec m c n : onb m c n = true <-> is_Some (m !! (c, n)).
Proof. unfold onb. by rewrite bool_decide_eq_true. Qed.
Lemma onb_false m c n : onb m c n = false <-> m !! (c, n) = None.
Proof.
  unfold onb. rewrite bool_decide_eq_false. split.
  - intros H. destruct (m !! (c, n)); [exfalso; apply H; eauto|done].
  - intros -> [? ?]. done.
Qed.

Lemma shares_spec nt n : wf_net nt -> shares nt n = true <-> exists c, onN nt c (n_me nt) /\ onN nt c n.
Proof.
  intros W. unfold shares. rewrite existsb_exists. split.
  - intros (c & _ & H). apply andb_prop in H. destruct H as [H1 H2]. exists c. split; by apply onb_spec.
  - intros (c & H1 & H2). exists c. split.
    + destruct (wf_mem nt W c n H2) as [[a Ha] _]. unfold chan_names. apply in_map_iff. exists (c, a). split; [done|].
      apply elem_of_list_In. by apply elem_of_map_to_list.
    + apply andb_true_intro. split; by apply onb_spec.
Qed.

Lemma usrc_user nt n ui : n_users nt !! n = Some ui -> usrc nt n = LineSend.SrcUser n (ui_user ui) (ui_host ui).
Proof. unfold usrc. by intros ->. Qed.

Lemma nick_ok_good n : nick_ok n = true -> name_good n /\ ~ In 32%N n /\ n <> [].
Proof.
  unfold nick_ok. intros H. apply andb_prop in H. destruct H as [H1 H2]. apply negb_true_iff in H2.
  unfold LineSend.name_ok in H1. apply andb_prop in H1. destruct H1 as [H1 _]. apply andb_prop in H1. destruct H1 as [H1 _].
  unfold LineSend.word_ok in H1. apply andb_prop in H1. destruct H1 as [Hne Hw].
  assert (Hn : n <> []) by (by destruct n).
  split; [|split; [|done]].
  - split; [done|]. destruct n as [|c n']; [done|]. unfold first_in, GoBytes.mem_byte in *. cbn [existsb] in *.
    destruct (c =? 126)%N, (c =? 38)%N, (c =? 64)%N, (c =? 37)%N, (c =? 43)%N; done.
  - intros Hin. rewrite forallb_forall in Hw. specialize (Hw _ Hin). done.
Qed.

(* the members listed for a channel are users *)
Lemma insert_sorted_In {A} k (v : A) l x : In x (insert_sorted k v l) -> x = (k, v) \/ In x l.
Proof.
  induction l as [|[k' v'] l IH]; simpl; [naive_solver|]. destruct (bytes_leb k k'); simpl; [naive_solver|].
  intros [?|H]; [naive_solver|]. destruct (IH H); naive_solver.
Qed.
Lemma sorted_of_map_In {A} (m : gmap name A) x : In x (sorted_of_map m) -> m !! fst x = Some (snd x).
Proof.
  unfold sorted_of_map. intros H.
  assert (G : forall l, In x (foldr (fun kv acc => insert_sorted (fst kv) (snd kv) acc) [] l) -> In x l).
  { induction l as [|y l IH]; simpl; [done|]. intros H'. apply insert_sorted_In in H'.
    destruct H' as [->|H']; [left; by destruct y|right; by apply IH]. }
  apply G in H. apply elem_of_list_In in H. destruct x as [k v]. by apply elem_of_map_to_list in H.
Qed.
Lemma chan_members_In nt c e : In e (chan_members nt c) -> is_Some (n_users nt !! fst e) /\ n_member nt !! (c, fst e) = Some (snd e).
Proof.
  unfold chan_members. intros H. apply sorted_of_map_In in H. rewrite map_lookup_imap in H.
  destruct (n_users nt !! fst e) eqn:L; simpl in H; [|done]. split; [eauto|done].
Qed.

(* a 352 per member *)
Lemma feed_who t me c f (es : list (name * privs)) :
  feed t (map (fun e => who_msg me c (fst e) (f (fst e)) (snd e)) es)
  = fold_left (fun t e => v_reveal_who t (fst e) (f (fst e))) es t.
Proof.
  revert t. induction es as [|e r IH]; intros t; [done|]. simpl map. rewrite feed_cons.
  unfold who_msg at 1. rewrite line_352. simpl. apply IH.
Qed.

Lemma v_modes_unknown t c chs : ts_chans t !! c = None -> v_modes t c chs = t.
Proof. unfold v_modes. by intros ->. Qed.
Lemma v_topic_unknown t c tp : ts_chans t !! c = None -> v_topic t c tp = t.
Proof. unfold v_topic. by intros ->. Qed.
Lemma not_chanT t c : ~ chanT t c -> ts_chans t !! c = None.
Proof. unfold chanT. destruct (ts_chans t !! c); [intros H; exfalso; apply H; eauto|done]. Qed.
Lemma not_nickT t n : ~ nickT t n -> ts_nicks t !! n = None.
Proof. unfold nickT. destruct (ts_nicks t !! n); [intros H; exfalso; apply H; eauto|done]. Qed.
Lemma not_onT t c n : ~ onT t c n -> ts_member t !! (c, n) = None.
Proof. unfold onT. destruct (ts_member t !! (c, n)); [intros H; exfalso; apply H; eauto|done]. Qed.

Lemma Dissociate_unknown t c n : ts_chans t !! c = None -> sp_Dissociate t c n = t.
Proof. unfold sp_Dissociate. by intros ->. Qed.
Lemma DelNick_unknown t n : ts_nicks t !! n = None -> fst (sp_DelNick t n) = t.
Proof. unfold sp_DelNick. by intros ->. Qed.
Lemma ReNick_unknown t o w : ts_nicks t !! o = None -> fst (sp_ReNick t o w) = t.
Proof. unfold sp_ReNick. by intros ->. Qed.

(* the mode changes of a valid event are "good" for the view's parser *)
Lemma valid_changes_good nt c chs :
  wf_net nt -> onN nt c (n_me nt) -> forallb (chg_valid (n_member nt) c) chs = true ->
  Forall (chg_good c (ts_member (n_view nt))) chs.
Proof.
  intros W Hme Hv. rewrite forallb_forall in Hv. apply Forall_forall. intros m Hm.
  apply elem_of_list_In in Hm. specialize (Hv m Hm).
  destruct m as [add x|add k|add l|add x n|add x mask]; simpl in *; try done.
  - destruct add; [|done]. apply andb_prop in Hv. destruct Hv as [H1 H2]. apply Z.ltb_lt in H1. apply Z.leb_le in H2.
    apply NetDec.atoi_dec_of_Z. unfold max_limit in H2. lia.
  - apply andb_prop in Hv. destruct Hv as [H1 H2]. split; [done|]. apply onb_spec in H2.
    apply (wf_d2 nt W c n). done.
  - apply andb_prop in Hv. tauto.
Qed.

(* ---------- the simulation step ---------- *)
Theorem sim_step nt e :
  wf_net nt -> ev_inclaim e = true ->
  feed (n_view nt) (lines_for nt e) = n_view (step nt e).
Proof.
  intros W Hin. unfold lines_for, step. destruct (ev_valid nt e) eqn:Hv; cbn [negb]; [|done].
  pose proof (wf_view nt W) as Ispec.
  destruct e as [n u h r|n c|n c msg|a c v msg|n msg|o w|a c tp|a c chs|c|c|n]; cbn [ev_valid] in Hv.
  - (* EConnect *) done.
  - (* EJoin *)
    apply andb_prop in Hv. destruct Hv as [Hv Hnot]. apply andb_prop in Hv. destruct Hv as [Hu Hc].
    apply bool_decide_eq_true in Hu. destruct Hu as [ui Hui]. apply negb_true_iff, onb_false in Hnot.
    destruct (wf_users nt W n ui Hui) as (Hnk & _).
    destruct (nick_ok_good n Hnk) as (_ & _ & Hnn).
    assert (Hcne : c <> []) by (unfold chan_ok in Hc; apply andb_prop in Hc; destruct Hc as [_ Hc]; by destruct c).
    rewrite (usrc_user nt n ui Hui).
    destruct (decide (n = n_me nt)) as [Eme|Nme].
    + (* the client joins *)
      cbn [n_view set_view n_chans n_member n_users].
      set (chans1 := if bool_decide (n_chans nt !! c = None) then <[c := new_chanattr]> (n_chans nt) else n_chans nt).
      set (topic := ca_topic (default new_chanattr (chans1 !! c))).
      set (nt1 := {| n_users := n_users nt; n_chans := chans1;
                     n_member := <[(c, n) := if bool_decide (n_chans nt !! c = None) then op_privs else no_privs]> (n_member nt);
                     n_view := n_view nt |}).
      change (chan_members (set_view nt1 _) c) with (chan_members nt1 c).
      assert (Hd1 : ts_chans (n_view nt) !! c = None).
      { apply not_chanT. rewrite (wf_d1 nt W). unfold onN. rewrite <- Eme, Hnot. by intros [? ?]. }
      assert (Hd2 : ts_member (n_view nt) !! (c, ts_me (n_view nt)) = None).
      { apply not_onT. rewrite (wf_d2 nt W). unfold onN. fold (n_me nt). rewrite <- Eme, Hnot. by intros [[? ?] _]. }
      rewrite feed_app, feed_cons, feed_nil. subst n. unfold n_me.
      rewrite (line_JOIN_self (n_view nt) (ui_user ui) (ui_host ui) c); [|apply Ispec|done|done|done].
      set (tj := {| ts_me := ts_me (n_view nt); ts_nicks := ts_nicks (n_view nt);
                    ts_chans := <[c := new_chanattr]> (ts_chans (n_view nt));
                    ts_member := <[(c, ts_me (n_view nt)) := no_privs]> (ts_member (n_view nt)) |}).
      set (t2 := v_set_member (v_set_chans (n_view nt) (<[c := Build_chanattr topic no_chanmode]> (ts_chans (n_view nt))))
                              (<[(c, ts_me (n_view nt)) := no_privs]> (ts_member (n_view nt)))).
      assert (Ht2 : feed tj (match topic with [] => [] | _ => [mk srv v_332 [ts_me (n_view nt); c] (Some topic)] end) = t2).
      { destruct topic as [|x tp'] eqn:Et.
        - rewrite feed_nil. reflexivity.
        - rewrite feed_cons, feed_nil, line_332. unfold v_topic, tj. cbn [ts_chans]. rewrite lookup_insert.
          unfold t2, v_set_member, v_set_chans. cbn. by rewrite insert_insert. }
      rewrite feed_app, Ht2, feed_app.
      rewrite (feed_names t2 (ts_me (n_view nt)) c).
      * rewrite chunks_concat. rewrite feed_cons, feed_nil, line_366. reflexivity.
      * unfold t2. cbn. rewrite lookup_insert. eauto.
      * by apply chunks_nonempty.
      * rewrite chunks_concat. apply List.Forall_forall. intros e He. apply chan_members_In in He.
        destruct He as [[ui' Hu'] _]. cbn [n_users nt1] in Hu'.
        destruct (wf_users nt W _ ui' Hu') as (Hk' & _). destruct (nick_ok_good _ Hk') as (? & ? & _). done.
    + destruct (onb (n_member nt) c (n_me nt)) eqn:Hon.
      * (* somebody joins a channel of the client *)
        apply onb_spec in Hon. cbn [n_view set_view]. rewrite feed_cons, feed_nil.
        rewrite line_JOIN_other.
        -- unfold v_other_join, user_or_empty. by rewrite Hui.
        -- by apply (wf_d1 nt W).
        -- done.
        -- apply not_onT. rewrite (wf_d2 nt W). unfold onN. rewrite Hnot. by intros [_ [? ?]].
      * done.
  - (* EPart *)
    apply andb_prop in Hv. destruct Hv as [Hon _]. apply onb_spec in Hon.
    destruct (wf_mem nt W c n Hon) as [_ [ui Hui]]. unfold leave. cbn [n_view].
    destruct (onb (n_member nt) c (n_me nt)) eqn:Hme.
    + rewrite feed_cons, feed_nil, line_PART, (usrc_user nt n ui Hui). done.
    + rewrite feed_nil. symmetry. apply Dissociate_unknown. apply not_chanT. rewrite (wf_d1 nt W).
      apply onb_false in Hme. unfold onN. rewrite Hme. by intros [? ?].
  - (* EKick *)
    apply andb_prop in Hv. destruct Hv as [Hv _]. apply andb_prop in Hv. destruct Hv as [Hon _]. apply onb_spec in Hon.
    unfold leave. cbn [n_view].
    destruct (onb (n_member nt) c (n_me nt)) eqn:Hme.
    + rewrite feed_cons, feed_nil, line_KICK. done.
    + rewrite feed_nil. symmetry. apply Dissociate_unknown. apply not_chanT. rewrite (wf_d1 nt W).
      apply onb_false in Hme. unfold onN. rewrite Hme. by intros [? ?].
  - (* EQuit *)
    apply andb_prop in Hv. destruct Hv as [Hv _]. apply andb_prop in Hv. destruct Hv as [Hu Hnme].
    apply bool_decide_eq_true in Hu. destruct Hu as [ui Hui]. apply negb_true_iff, bool_decide_eq_false in Hnme.
    cbn [n_view]. destruct (shares nt n) eqn:Hs.
    + rewrite feed_cons, feed_nil, line_QUIT, (usrc_user nt n ui Hui). done.
    + rewrite feed_nil. symmetry. apply DelNick_unknown. apply not_nickT. rewrite (wf_d3 nt W).
      intros [?|Hex]; [done|]. apply (shares_spec nt n W) in Hex. congruence.
  - (* ENick *)
    apply andb_prop in Hv. destruct Hv as [Hv _]. apply andb_prop in Hv. destruct Hv as [Hu _].
    apply bool_decide_eq_true in Hu. destruct Hu as [ui Hui]. cbn [n_view].
    destruct (bool_decide (o = n_me nt) || shares nt o) eqn:Hs.
    + rewrite feed_cons, feed_nil, line_NICK, (usrc_user nt o ui Hui). done.
    + rewrite feed_nil. symmetry. apply ReNick_unknown. apply not_nickT. rewrite (wf_d3 nt W).
      apply orb_false_elim in Hs. destruct Hs as [H1 H2]. apply bool_decide_eq_false in H1.
      intros [?|Hex]; [done|]. apply (shares_spec nt o W) in Hex. congruence.
  - (* ETopic *)
    cbn [n_view]. destruct (onb (n_member nt) c (n_me nt)) eqn:Hme.
    + rewrite feed_cons, feed_nil, line_TOPIC. done.
    + rewrite feed_nil. symmetry. apply v_topic_unknown. apply not_chanT. rewrite (wf_d1 nt W).
      apply onb_false in Hme. unfold onN. rewrite Hme. by intros [? ?].
  - (* EMode *)
    apply andb_prop in Hv. destruct Hv as [Hv _]. apply andb_prop in Hv. destruct Hv as [Hv _].
    apply andb_prop in Hv. destruct Hv as [Hv Hch]. apply andb_prop in Hv. destruct Hv as [Hc _].
    apply bool_decide_eq_true in Hc. destruct Hc as [ca Hca]. rewrite Hca. cbn [n_view].
    destruct (onb (n_member nt) c (n_me nt)) eqn:Hme.
    + apply onb_spec in Hme. rewrite feed_cons, feed_nil.
      rewrite line_MODE by (by apply (wf_d1 nt W)).
      rewrite <- (app_nil_r (mode_args chs)). apply ChannelModes_changes; [|exact Hin].
      by apply valid_changes_good.
    + rewrite feed_nil. symmetry. apply v_modes_unknown. apply not_chanT. rewrite (wf_d1 nt W).
      apply onb_false in Hme. unfold onN. rewrite Hme. by intros [? ?].
  - (* EReplyMode *)
    destruct (n_chans nt !! c) as [ca|] eqn:Hca; [|done]. cbn [n_view set_view].
    rewrite feed_cons, feed_nil, line_324.
    destruct (wf_chans nt W c ca Hca) as (_ & _ & _ & Hlim).
    destruct (reply_changes_good c (ts_member (n_view nt)) (ca_modes ca) Hlim) as [Hg Hi].
    destruct (ts_chans (n_view nt) !! c) as [va|] eqn:Hva; [|by rewrite v_modes_unknown].
    unfold reply_modestring. destruct (reply_changes (ca_modes ca)) as [|m r] eqn:Er.
    + apply ChannelModes_plus.
    + rewrite <- (app_nil_r (mode_args (m :: r))). by apply ChannelModes_changes.
  - (* EReplyWhoChan *)
    destruct (onb (n_member nt) c (n_me nt)) eqn:Hme; cbn [n_view set_view].
    + rewrite feed_app, (feed_who _ (n_me nt) c (user_or_empty nt)), feed_cons, feed_nil, line_315. done.
    + cbn [app]. rewrite feed_cons, feed_nil, line_315. done.
  - (* EReplyWhoNick *)
    destruct (n_users nt !! n) as [ui|] eqn:Hui; cbn [n_view set_view].
    + cbn [app]. rewrite feed_cons. unfold who_msg. rewrite line_352, feed_cons, feed_nil, line_315. done.
    + cbn [app]. rewrite feed_cons, feed_nil, line_315. done.
Qed.
