(* Proofs/LifecycleThms.v — what the lifecycle invariant gives for C06 and C07, for EVERY
   schedule, any user programs, any server behaviour (repaired shape of connection.go). *)
From Coq Require Import List Arith Bool Lia.
From Verif Require Import Lts LifecycleLts LifecycleBase LifecycleInv LifecycleInvB LifecycleInvC LifecycleInvD LifecycleInvE.
Import ListNotations.

Section Thms.
  Variables (hm : nat) (hl : bool) (w : world).
  Notation reach sched := (run (fstep hm hl) (init w) sched).

  (* ---- the runtime predicates hold on every history of the model ---- *)
  Theorem safe6_run sched : C06_safe (hist (reach sched)) = true.
  Proof. apply i_ok6, Inv_run. Qed.
  Theorem safe7_run sched : C07_safe (hist (reach sched)) = true.
  Proof. apply i_ok7, Inv_run. Qed.

  (* reading a prefix-closed check back: every event was legal when it happened *)
  Lemma check_from_split ok pre h1 e h2 :
    check_from ok pre (h1 ++ e :: h2) = true -> ok (pre ++ h1) e = true.
  Proof.
    rewrite check_from_app. intros H. apply andb_true_iff in H as [_ H]. simpl in H.
    now apply andb_true_iff in H as [H _].
  Qed.

  (* ---- C06: DISCONNECTED exactly once (I4) ---- *)
  Theorem disconnected_once sched g :
    let s := reach sched in
    NoDup (discs (hist s))
    /\ (In g (discs (hist s)) <->
        In g (tds (hist s))
        /\ ~ exists t c id ret, pcs s t = PClose c id ret /\ cgen c = Some g /\ pre_disc c = true).
  Proof.
    intros s. pose proof (Inv_run hm hl w sched) as Hinv. fold s in Hinv. split; [apply (i_nd _ Hinv)|]. split.
    - intros Hd. split; [apply (i_discs _ Hinv); exact Hd|].
      intros (t & c & id & ret & Hp & Hc & Hpre).
      destruct (i_t _ Hinv t) as (_ & _ & _ & Hci & _). rewrite Hp in Hci. cbn [cinv] in Hci.
      destruct Hci as (A & _). destruct (A g Hc) as [_ A2]. rewrite Hpre in A2. auto.
    - intros [Ht Hn]. destruct (i_tdp _ Hinv g Ht) as [Hd|Hex]; [exact Hd|contradiction].
  Qed.

  (* at most one closer is between the teardown and the unlock; it holds conn.mu and the flag is
     false there *)
  Theorem closer_unique sched t1 t2 g1 g2 :
    let s := reach sched in
    td_pc (pcs s t1) = Some g1 -> td_pc (pcs s t2) = Some g2 ->
    t1 = t2 /\ mu s = Some t1 /\ connected s = false /\ cur s = g1.
  Proof.
    intros s H1 H2. pose proof (Inv_run hm hl w sched) as Hinv. fold s in Hinv.
    assert (Hh : forall t g, td_pc (pcs s t) = Some g -> holds (pcs s t) = true).
    { intros t g. destruct (pcs s t); try discriminate. destruct c; try discriminate; reflexivity. }
    pose proof (holder_is s t1 Hinv (Hh _ _ H1)) as M1. pose proof (holder_is s t2 Hinv (Hh _ _ H2)) as M2.
    split; [congruence|]. split; [exact M1|].
    destruct (i_t _ Hinv t1) as (_ & _ & _ & Hci & _). destruct (pcs s t1) eqn:E; try discriminate.
    cbn [cinv] in Hci. destruct Hci as (_ & B & _). destruct (B g1 H1) as (B1 & B2 & _). auto.
  Qed.

  (* a connection is torn down at most once, only after it was established, DISCONNECTED only
     after the teardown *)
  Theorem lifecycle_order sched :
    let h := hist (reach sched) in
    NoDup (ests h) /\ NoDup (tds h) /\ NoDup (regs h) /\ NoDup (retoks h)
    /\ (forall g, In g (tds h) -> In g (ests h)) /\ (forall g, In g (discs h) -> In g (tds h))
    /\ (forall g, In g (regs h) -> In g (ests h)) /\ (forall g, In g (retoks h) -> In g (regs h)).
  Proof.
    intros h. pose proof (Inv_run hm hl w sched) as Hinv. destruct (i_nd _ Hinv) as (A & B & C & D & E).
    repeat split; auto.
    - intros g Hg. apply (i_tds _ Hinv g Hg).
    - apply (i_discs _ Hinv).
    - apply (i_regs _ Hinv).
    - apply (i_rets _ Hinv).
  Qed.

  (* ---- C06: REGISTER exactly once per successful Connect, before it returns ---- *)
  Theorem register_once sched h1 h2 t g :
    hist (reach sched) = h1 ++ EConnRet t (Some g) :: h2 ->
    In (EEstab g t) h1 /\ In g (regs h1) /\ ~ In g (retoks h1).
  Proof.
    intros Hh. pose proof (safe6_run sched) as Hs. rewrite Hh in Hs.
    apply check_from_split in Hs. cbn [app ok6] in Hs.
    apply andb_true_iff in Hs as [Hs H3]. apply andb_true_iff in Hs as [H1 H2].
    split; [apply is_estab_in; exact H1|]. split; [apply memg_In; exact H2|].
    apply memg_false. now apply negb_true_iff.
  Qed.

  (* a failed / refused Connect established nothing: the last thing its thread did was to call *)
  Theorem failed_connect_no_event sched h1 h2 t :
    hist (reach sched) = h1 ++ EConnRet t None :: h2 -> is_call (last_conn t h1) = true.
  Proof.
    intros Hh. pose proof (safe6_run sched) as Hs. rewrite Hh in Hs.
    apply check_from_split in Hs. exact Hs.
  Qed.

  (* ---- C06: Connected() inside the handlers ---- *)
  Theorem flags sched h1 h2 k g b :
    hist (reach sched) = h1 ++ ESample k g b :: h2 ->
    match k with
    | SDisc => b = false \/ exists g', In g' (ests h1) /\ g < g'
    | SReg | SLine => b = true \/ In g (tds h1) \/ In g (enders h1)
    | SUser => True
    end.
  Proof.
    intros Hh. pose proof (safe6_run sched) as Hs. rewrite Hh in Hs.
    apply check_from_split in Hs. cbn [app ok6] in Hs. destruct k; auto.
    - apply orb_true_iff in Hs as [Hs|Hs]; [|right; right; now apply memg_In].
      apply orb_true_iff in Hs as [Hs|Hs]; [left; exact Hs|right; left; now apply memg_In].
    - apply orb_true_iff in Hs as [Hs|Hs]; [|right; right; now apply memg_In].
      apply orb_true_iff in Hs as [Hs|Hs]; [left; exact Hs|right; left; now apply memg_In].
    - apply orb_true_iff in Hs as [Hs|Hs]; [left; now apply negb_true_iff|right].
      apply existsb_exists in Hs as (g' & Hg & Hlt). exists g'. split; [exact Hg|now apply Nat.ltb_lt].
  Qed.

  (* ---- C07: no stale close (I6) ---- *)
  Theorem no_stale_close sched g t :
    In (ETeardown g t) (hist (reach sched)) -> own_gen t g = true.
  Proof.
    intros Hin. apply in_split in Hin as (h1 & h2 & Hh).
    pose proof (safe7_run sched) as Hs. rewrite Hh in Hs. apply check_from_split in Hs.
    cbn [app ok7] in Hs. now apply andb_true_iff in Hs as [_ Hs].
  Qed.

  (* the identity a goroutine captured (rw := conn.io) is its own generation *)
  Theorem captured_identity sched t g c id ret :
    gthr t = Some g -> pcs (reach sched) t = PClose c id ret -> (c = C0 \/ c = C1) -> id = Some g.
  Proof.
    intros Hg Hp Hc. destruct (i_t _ (Inv_run hm hl w sched) t) as (Hwf & _). rewrite Hp in Hwf.
    destruct t; cbn [wf_pc gthr close_wf] in *; try discriminate; try contradiction;
      injection Hg as <-; apply Hwf; exact Hc.
  Qed.

  (* ---- C07: no leak (I5) ---- *)
  Theorem wg_accounting sched :
    let s := reach sched in
    wg s = wsum s (cur s) /\ (forall g, g <> cur s -> wsum s g = 0).
  Proof. intros s. pose proof (Inv_run hm hl w sched) as Hinv. split; [apply (i_wg _ Hinv)|apply (i_wg0 _ Hinv)]. Qed.

  Theorem no_leak_after_disconnected sched g :
    let s := reach sched in In g (discs (hist s)) -> no_leak g s = true.
  Proof.
    intros s Hd. pose proof (Inv_run hm hl w sched) as Hinv. fold s in Hinv.
    assert (Htd : In g (tds (hist s))) by (apply (i_discs _ Hinv); exact Hd).
    (* no closer of g is before its DISCONNECTED any more *)
    assert (Hnc : forall t c id ret, pcs s t = PClose c id ret -> cgen c = Some g -> pre_disc c = false).
    { intros t c id ret Hp Hc. destruct (pre_disc c) eqn:Hpre; [exfalso|reflexivity].
      destruct (i_t _ Hinv t) as (_ & _ & _ & Hci & _). rewrite Hp in Hci. cbn [cinv] in Hci.
      destruct Hci as (A & _). destruct (A g Hc) as [_ A2]. rewrite Hpre in A2. auto. }
    (* hence the wait group of g is empty *)
    assert (Hw : wsum s g = 0).
    { destruct (Nat.eq_dec g (cur s)) as [e|n]; [|apply (i_wg0 _ Hinv); exact n].
      rewrite e, <- (i_wg _ Hinv). destruct (Nat.eq_dec (wg s) 0) as [|Hnz]; [assumption|exfalso].
      destruct (i_tds _ Hinv g Htd) as [Hge Hc]. pose proof (i_ests _ Hinv g Hge) as Hb.
      destruct (i_refs _ Hinv) as (_ & _ & [Hz|Hq]); [lia|].
      destruct (i_wgl _ Hinv ltac:(lia)) as [Hcn|(t & Hm & Ht)].
      - rewrite Hc in Hcn by congruence. discriminate.
      - destruct (pcs s t) eqn:Ep; try discriminate.
        assert (cgen c = Some g) by (destruct c; try discriminate; cbn in *; congruence).
        assert (pre_disc c = true) by (destruct c; try discriminate; reflexivity).
        rewrite (Hnc _ _ _ _ Ep H) in H0. discriminate. }
    unfold wsum, wsumf in Hw.
    assert (Hgoro : forall t, gthr t = Some g -> wgc (pcs s t) = 0 ->
              winding_down g (pcs s t) || closer_tail (pcs s t) = true).
    { intros t Hg Hz. destruct (i_t _ Hinv t) as (Hwf & _).
      destruct (pcs s t) eqn:Ep; try reflexivity; try discriminate Hz;
        destruct t; cbn [wf_pc gthr close_wf] in *; try discriminate; try contradiction; injection Hg as <-.
      all: try (destruct Hwf as (Hid & -> & Hcg);
                destruct c; cbn [winding_down closer_tail orb] in *; try reflexivity;
                try (rewrite (Hid ltac:(auto)); now rewrite Nat.eqb_refl);
                exfalso; pose proof (Hcg _ eq_refl); subst;
                pose proof (Hnc _ _ _ _ Ep eq_refl); discriminate).
      all: try (destruct Hwf as (-> & ->); reflexivity).
      exfalso. destruct (i_wt _ Hinv _ Ep) as (t & id & ret & Hp).
      pose proof (Hnc _ _ _ _ Hp eq_refl). discriminate. }
    assert (Hz1 : wgc (pcs s (Watch g)) = 0).
    { destruct (i_t _ Hinv (Watch g)) as (Hwf & _). destruct (pcs s (Watch g)); cbn in *; auto; contradiction. }
    assert (Hz2 : wgc (pcs s (Waiter g)) = 0).
    { destruct (i_t _ Hinv (Waiter g)) as (Hwf & _). destruct (pcs s (Waiter g)); cbn in *; auto; contradiction. }
    unfold no_leak, gen_threads. cbn [forallb].
    rewrite !Hgoro by (try reflexivity; try assumption; lia). reflexivity.
  Qed.

  (* ---- C07: the next connection is fresh ---- *)
  Theorem fresh_generation sched g :
    let s := reach sched in g > nq s ->
    inq s g = 0 /\ outq s g = 0 /\ cancelled s g = false /\ sock_closed s g = false /\ srv_eof s g = false
    /\ ~ In g (ests (hist s)) /\ (forall t, gthr t = Some g -> pcs s t = PIdle).
  Proof.
    intros s Hg. pose proof (Inv_run hm hl w sched) as Hinv. fold s in Hinv.
    destruct (i_fresh _ Hinv g Hg) as (A & B & C & D & E).
    assert (Hn : ~ In g (ests (hist s))) by (intros Hx; apply (i_ests _ Hinv) in Hx; lia).
    repeat split; auto. intros t Ht. apply (gthr_idle s t g Hinv Ht Hn).
  Qed.
End Thms.
