(* Proofs/TrackerSpecLoops.v — the plain model's closed forms [sp_drop_channel] and [sp_Wipe]
   are what ANY order of one-at-a-time removals arrives at (spec-side order independence):
   - removing the members of a channel one by one (each time forgetting the nick if it is not
     the client and has no pair left), in any order, then the channel  = sp_drop_channel;
   - dropping the tracked channels one by one, in any order                 = sp_Wipe. *)
From Verif Require Import TrackerSpec TrackerSpecFacts.
Open Scope Z_scope.

Lemma tstate_ext' (a b : tstate) : ts_me a = ts_me b -> ts_nicks a = ts_nicks b -> ts_chans a = ts_chans b ->
  ts_member a = ts_member b -> a = b.
Proof. destruct a, b; simpl; congruence. Qed.

(* one removal: the pair, and the nick if it is not the client and has no pair left *)
Definition sp_unlink_gc (t : tstate) (c n : name) : tstate :=
  let mem' := delete (c, n) (ts_member t) in
  {| ts_me := ts_me t;
     ts_nicks := if decide (n <> ts_me t /\ no_pair mem' n) then delete n (ts_nicks t) else ts_nicks t;
     ts_chans := ts_chans t; ts_member := mem' |}.

Inductive csteps (c : name) : tstate -> tstate -> Prop :=
| cs_refl t : csteps c t t
| cs_step t n t' : is_Some (ts_member t !! (c, n)) -> csteps c (sp_unlink_gc t c n) t' -> csteps c t t'.

(* "no pair on another channel" *)
Definition others_none (c : name) (t : tstate) (n : name) : Prop :=
  no_pair (drop_chan_pairs c (ts_member t)) n.

Lemma others_none_spec c t n : others_none c t n <-> forall c', c' <> c -> ts_member t !! (c', n) = None.
Proof.
  unfold others_none. rewrite no_pair_spec. split.
  - intros H c' N. specialize (H c'). by rewrite drop_chan_pairs_lookup, decide_False in H.
  - intros H c'. rewrite drop_chan_pairs_lookup. case_decide; [done|]. by apply H.
Qed.

Record cchar (c : name) (t t' : tstate) : Prop := {
  cc_me : ts_me t' = ts_me t;
  cc_chans : ts_chans t' = ts_chans t;
  cc_other : forall c' n, c' <> c -> ts_member t' !! (c', n) = ts_member t !! (c', n);
  cc_sub : forall n p, ts_member t' !! (c, n) = Some p -> ts_member t !! (c, n) = Some p;
  cc_gone : forall n, n <> ts_me t -> is_Some (ts_member t !! (c, n)) -> ts_member t' !! (c, n) = None ->
                      others_none c t n -> ts_nicks t' !! n = None;
  cc_kept : forall n, n = ts_me t \/ ts_member t !! (c, n) = None \/ is_Some (ts_member t' !! (c, n))
                      \/ ~ others_none c t n -> ts_nicks t' !! n = ts_nicks t !! n
}.

Lemma cchar_refl c t : cchar c t t.
Proof.
  split; try done.
  - intros n _ [p Hp] H. congruence.
Qed.

Lemma cchar_step c t n0 t' : is_Some (ts_member t !! (c, n0)) -> cchar c (sp_unlink_gc t c n0) t' -> cchar c t t'.
Proof.
  intros [p0 Hp0] C. set (t1 := sp_unlink_gc t c n0) in *.
  assert (M1 : forall c' n, ts_member t1 !! (c', n) = if decide ((c', n) = (c, n0)) then None else ts_member t !! (c', n)).
  { intros c' n. simpl. case_decide as E; [rewrite E; by rewrite lookup_delete|by rewrite lookup_delete_ne]. }
  assert (ON : forall n, others_none c t1 n <-> others_none c t n).
  { intros n. rewrite !others_none_spec. split; intros H c' N; specialize (H c' N);
      rewrite M1 in *; rewrite decide_False in * by congruence; done. }
  assert (GC : no_pair (delete (c, n0) (ts_member t)) n0 <-> others_none c t n0).
  { rewrite others_none_spec, no_pair_spec. split.
    - intros H c' N. specialize (H c'). by rewrite lookup_delete_ne in H by congruence.
    - intros H c'. destruct (decide (c' = c)) as [->|N]; [by rewrite lookup_delete|].
      rewrite lookup_delete_ne by congruence. by apply H. }
  assert (N1 : forall n, n <> n0 -> ts_nicks t1 !! n = ts_nicks t !! n).
  { intros n N. simpl. case_decide; [by rewrite lookup_delete_ne|done]. }
  assert (G0 : ts_member t' !! (c, n0) = None).
  { destruct (ts_member t' !! (c, n0)) as [p|] eqn:E; [|done]. apply (cc_sub c t1 t' C) in E.
    rewrite M1, decide_True in E by done. done. }
  split.
  - by rewrite (cc_me c t1 t' C).
  - by rewrite (cc_chans c t1 t' C).
  - intros c' n N. rewrite (cc_other c t1 t' C) by done. rewrite M1. by rewrite decide_False by congruence.
  - intros n p H. apply (cc_sub c t1 t' C) in H. rewrite M1 in H. by case_decide.
  - intros n Nme [p Hp] Hg Ho. destruct (decide (n = n0)) as [->|N].
    + rewrite (cc_kept c t1 t' C).
      * simpl. rewrite decide_True; [by rewrite lookup_delete|]. split; [done|]. by apply GC.
      * right; left. rewrite M1. by rewrite decide_True.
    + apply (cc_gone c t1 t' C); try done.
      * rewrite M1, decide_False by congruence. eauto.
      * by apply ON.
  - intros n H. destruct (decide (n = n0)) as [->|N].
    + destruct H as [H|[H|[H|H]]].
      * rewrite (cc_kept c t1 t' C) by (left; exact H). simpl. rewrite decide_False; [done|]. intros [? _]. done.
      * congruence.
      * rewrite G0 in H. by destruct H.
      * rewrite (cc_kept c t1 t' C) by (right; right; right; by rewrite ON).
        simpl. rewrite decide_False; [done|]. intros [_ ?]. apply H. by apply GC.
    + rewrite (cc_kept c t1 t' C); [by apply N1|].
      destruct H as [H|[H|[H|H]]]; [by left|right; left|by right; right; left|right; right; right; by rewrite ON].
      rewrite M1. by rewrite decide_False by congruence.
Qed.

Lemma csteps_cchar c t t' : csteps c t t' -> cchar c t t'.
Proof. induction 1 as [t|t n t' H _ IH]; [apply cchar_refl|by apply (cchar_step c t n)]. Qed.

(* the members of [c] removed one by one in ANY order, then the channel: sp_drop_channel *)
Lemma csteps_drop_channel c t t' : csteps c t t' -> (forall n, ts_member t' !! (c, n) = None) ->
  {| ts_me := ts_me t'; ts_nicks := ts_nicks t'; ts_chans := delete c (ts_chans t'); ts_member := ts_member t' |}
  = sp_drop_channel t c.
Proof.
  intros S E. apply csteps_cchar in S. apply tstate_ext'.
  - simpl. apply (cc_me c t t' S).
  - apply map_eq. intros n. rewrite sp_drop_channel_nicks. simpl. case_decide as D.
    + apply (cc_kept c t t' S). destruct D as [D|[D|D]]; [by left|by right; left|by right; right; right].
    + apply (cc_gone c t t' S).
      * intros ->. apply D. by left.
      * destruct (ts_member t !! (c, n)) eqn:L; [eauto|]. exfalso. apply D. right; by left.
      * apply E.
      * destruct (decide (others_none c t n)) as [O|O]; [done|]. exfalso. apply D. right; by right.
  - simpl. by rewrite (cc_chans c t t' S).
  - apply map_eq. intros [c' n]. simpl. rewrite drop_chan_pairs_lookup. case_decide as D.
    + subst. apply E.
    + by apply (cc_other c t t' S).
Qed.

(* ---------- Wipe: tracked channels dropped one by one in any order ---------- *)
Inductive wsteps : tstate -> tstate -> Prop :=
| ws_refl t : wsteps t t
| ws_step t c t' : is_Some (ts_chans t !! c) -> wsteps (sp_drop_channel t c) t' -> wsteps t t'.

Record wchar (t t' : tstate) : Prop := {
  wc_me : ts_me t' = ts_me t;
  wc_chans : forall c a, ts_chans t' !! c = Some a -> ts_chans t !! c = Some a;
  wc_mem_none : forall c n, ts_chans t' !! c = None -> ts_member t' !! (c, n) = None;
  wc_mem_some : forall c n, is_Some (ts_chans t' !! c) -> ts_member t' !! (c, n) = ts_member t !! (c, n);
  wc_gone : forall n, n <> ts_me t -> ~ no_pair (ts_member t) n -> no_pair (ts_member t') n -> ts_nicks t' !! n = None;
  wc_kept : forall n, n = ts_me t \/ no_pair (ts_member t) n \/ ~ no_pair (ts_member t') n ->
                      ts_nicks t' !! n = ts_nicks t !! n
}.

Lemma wchar_refl t : sp_inv t -> wchar t t.
Proof.
  intros [_ Hm]. split; try done.
  intros c n H. destruct (ts_member t !! (c, n)) eqn:L; [|done].
  destruct (Hm c n) as [[a Ha] _]; [eauto|congruence].
Qed.

Lemma wchar_step t c0 t' : is_Some (ts_chans t !! c0) -> wchar (sp_drop_channel t c0) t' -> wchar t t'.
Proof.
  intros [a0 Ha0] C. set (t1 := sp_drop_channel t c0) in *.
  assert (M1 : forall c n, ts_member t1 !! (c, n) = if decide (c = c0) then None else ts_member t !! (c, n)).
  { intros c n. apply drop_chan_pairs_lookup. }
  assert (SUB1 : forall n, no_pair (ts_member t) n -> no_pair (ts_member t1) n).
  { intros n. rewrite !no_pair_spec. intros H c. rewrite M1. case_decide; [done|apply H]. }
  assert (SUB' : forall n, no_pair (ts_member t1) n -> no_pair (ts_member t') n).
  { intros n. rewrite !no_pair_spec. intros H c. destruct (ts_chans t' !! c) as [a|] eqn:L.
    - rewrite (wc_mem_some t1 t' C) by eauto. apply H.
    - by apply (wc_mem_none t1 t' C). }
  assert (NK1 : forall n, ts_nicks t1 !! n =
            if decide (n = ts_me t \/ ts_member t !! (c0, n) = None \/ ~ no_pair (ts_member t1) n)
            then ts_nicks t !! n else None) by (intros n; apply sp_drop_channel_nicks).
  split.
  - by rewrite (wc_me t1 t' C).
  - intros c a H. apply (wc_chans t1 t' C) in H. simpl in H. by apply lookup_delete_Some in H as [_ H].
  - apply (wc_mem_none t1 t' C).
  - intros c n H. rewrite (wc_mem_some t1 t' C) by done. rewrite M1. case_decide as E; [|done].
    subst. destruct H as [a H]. apply (wc_chans t1 t' C) in H. simpl in H. by rewrite lookup_delete in H.
  - intros n Nme NP NP'. destruct (decide (no_pair (ts_member t1) n)) as [P1|P1].
    + rewrite (wc_kept t1 t' C) by (right; by left). rewrite NK1. rewrite decide_False; [done|].
      intros [?|[H|?]]; try done. apply NP. rewrite no_pair_spec in *. intros c.
      destruct (decide (c = c0)) as [->|N]; [done|]. specialize (P1 c). by rewrite M1, decide_False in P1.
    + by apply (wc_gone t1 t' C).
  - intros n H.
    assert (ts_nicks t' !! n = ts_nicks t1 !! n) as ->.
    { apply (wc_kept t1 t' C). destruct H as [H|[H|H]]; [by left|right; left; by apply SUB1|by right; right]. }
    rewrite NK1. rewrite decide_True; [done|].
    destruct H as [H|[H|H]]; [by left| |].
    + right; left. rewrite no_pair_spec in H. apply H.
    + right; right. intros P1. apply H. by apply SUB'.
Qed.

Lemma wsteps_wchar t t' : sp_inv t -> wsteps t t' -> wchar t t'.
Proof.
  intros I S. induction S as [t|t c t' H _ IH]; [by apply wchar_refl|].
  apply (wchar_step t c); [done|]. apply IH. by apply sp_drop_channel_inv.
Qed.

Lemma wsteps_wipe t t' : sp_inv t -> wsteps t t' -> ts_chans t' = ∅ -> t' = sp_Wipe t.
Proof.
  intros I S E. apply wsteps_wchar in S; [|done].
  assert (ME : ts_member t' = ∅).
  { apply map_eq. intros [c n]. rewrite lookup_empty. apply (wc_mem_none t t' S). by rewrite E, lookup_empty. }
  apply tstate_ext'; simpl; try done.
  - apply (wc_me t t' S).
  - apply map_eq. intros n.
    destruct (decide (n = ts_me t \/ no_pair (ts_member t) n)) as [D|D].
    + rewrite (wc_kept t t' S) by (destruct D; [by left|right; by left]).
      destruct (ts_nicks t !! n) as [a|] eqn:L; symmetry.
      * apply map_filter_lookup_Some. split; [done|]. exact D.
      * apply map_filter_lookup_None. by left.
    + rewrite (wc_gone t t' S).
      * symmetry. apply map_filter_lookup_None. right. intros a _ H. by apply D.
      * intros ->. apply D. by left.
      * intros P. apply D. by right.
      * rewrite ME. unfold no_pair. apply map_Forall_empty.
Qed.
