(* Proofs/LockedObjProofs.v — C14, part B: for EVERY schedule of any number of threads calling a
   mutex-bracketed object, the calls take effect one at a time, in an order ([blog]) that
   replays sequentially to exactly the results returned and respects real time. *)
From Coq Require Import List Arith Bool Lia Sorted.
From Verif Require Import Lts LockedObj.
Import ListNotations.

Section Proofs.
  Variables (St Op Res : Type).
  Variable step : St -> Op -> St * Res.
  Notation lst := (lst St Op Res).
  Notation thread := (thread St Op Res).
  Notation lstep := (lstep St Op Res step true).
  Notation replay := (replay St Op Res step).

  Lemma nth_upd_cases {B} (l : list B) i j x y :
    nth_error (upd l i x) j = Some y -> (j = i /\ y = x) \/ (j <> i /\ nth_error l j = Some y).
  Proof.
    revert i j. induction l as [|z l IH]; intros [|i] [|j] H; simpl in *; try discriminate.
    - inversion H; auto.
    - right. split; [lia|exact H].
    - right. split; [lia|exact H].
    - destruct (IH i j H) as [[-> ->]|[Hne Hj]]; [left; auto|right; split; [lia|exact Hj]].
  Qed.

  Lemma replay_snoc s ops o : replay s (ops ++ [o]) =
    (fst (step (fst (replay s ops)) o), snd (replay s ops) ++ [snd (step (fst (replay s ops)) o)]).
  Proof.
    revert s. induction ops as [|o' ops IH]; intros s; simpl; [reflexivity|]. rewrite IH. reflexivity.
  Qed.

  Lemma sorted_snoc {B} (R : B -> B -> Prop) l z :
    StronglySorted R l -> Forall (fun x => R x z) l -> StronglySorted R (l ++ [z]).
  Proof.
    induction 1 as [|x l Hs IH Hx]; intros F; simpl.
    - constructor; constructor.
    - inversion F; subst. constructor; [apply IH; assumption|]. apply Forall_app. split; [assumption|]. constructor; [assumption|constructor].
  Qed.

  Definition holds (p : pc St Res) : bool :=
    match p with PLocked _ | PComputed _ _ _ | PWritten _ _ => true | _ => false end.

  Record Inv (s0 : St) (s : lst) : Prop := {
    i_mutex : forall i th, nth_error (threads s) i = Some th -> (holds (th_pc th) = true <-> mutex s = Some i);
    i_comp : forall i th inv s' r, nth_error (threads s) i = Some th -> th_pc th = PComputed inv s' r ->
               exists o rest, th_todo th = o :: rest /\ step (shared s) o = (s', r) /\ inv < clock s;
    i_replay : replay s0 (map b_op (blog s)) = (shared s, map b_res (blog s));
    i_sorted : StronglySorted (fun x y => b_at x < b_at y) (blog s);
    i_blog : forall b, In b (blog s) -> b_inv b < b_at b < clock s;
    i_done : forall c, In c (done s) -> exists b, In b (blog s) /\ b_t b = c_t c /\ b_k b = c_k c /\ b_op b = c_op c
                         /\ b_res b = c_res c /\ b_inv b = c_inv c /\ b_at b < c_ret c < clock s;
    i_pend : forall i th inv r, nth_error (threads s) i = Some th ->
               (th_pc th = PWritten inv r \/ th_pc th = PUnlocked inv r) ->
               exists b o rest, In b (blog s) /\ th_todo th = o :: rest /\ b_t b = i /\ b_k b = th_k th
                                /\ b_op b = o /\ b_res b = r /\ b_inv b = inv;
    i_inv : forall i th inv, nth_error (threads s) i = Some th ->
               (th_pc th = PInvoked inv \/ th_pc th = PLocked inv) -> inv < clock s
  }.

  Lemma Inv_init s0 progs : Inv s0 (linit St Op Res s0 progs).
  Proof.
    assert (forall i th, nth_error (threads (linit St Op Res s0 progs)) i = Some th -> th_pc th = PIdle) as Hidle.
    { intros i th H. simpl in H. rewrite nth_error_map in H. destruct (nth_error progs i); simpl in H; [|discriminate].
      inversion H; reflexivity. }
    constructor; simpl.
    - intros i th H. rewrite (Hidle i th H). simpl. split; discriminate.
    - intros i th inv s' r H E. rewrite (Hidle i th H) in E. discriminate.
    - reflexivity.
    - constructor.
    - intros b [].
    - intros c [].
    - intros i th inv r H [E|E]; rewrite (Hidle i th H) in E; discriminate.
    - intros i th inv H [E|E]; rewrite (Hidle i th H) in E; discriminate.
  Qed.

  (* facts shared by all steps: how the invariant's clauses move to a state with a later clock,
     a longer log and one thread replaced *)
  Ltac other_thread H0 Hj := apply nth_upd_cases in Hj as [[-> ->]|[Hne Hj]].

  Lemma Inv_step s0 s i s' : Inv s0 s -> lstep s i = Some s' -> Inv s0 s'.
  Proof.
    intros I H. unfold LockedObj.lstep in H. destruct (nth_error (threads s) i) as [th|] eqn:Hth; [|discriminate].
    destruct I as [Imx Icomp Irep Isort Iblog Idone Ipend Iinv].
    destruct (th_pc th) as [|inv|inv|inv sc rc|inv rw|inv ru] eqn:Hpc.
    - (* invoke *)
      destruct (th_todo th) as [|o rest] eqn:Htodo; [discriminate|]. inversion H; subst s'; clear H.
      constructor; simpl.
      + intros j thj Hj. other_thread Hth Hj; simpl.
        * split; [discriminate|]. intros Hm. apply (Imx _ _ Hth) in Hm. rewrite Hpc in Hm. discriminate.
        * apply Imx; assumption.
      + intros j thj inv' s1 r1 Hj E. other_thread Hth Hj; simpl in *; [discriminate|].
        destruct (Icomp _ _ _ _ _ Hj E) as (o' & rest' & ? & ? & ?). exists o', rest'. repeat split; auto; lia.
      + assumption.
      + assumption.
      + intros b Hb. specialize (Iblog b Hb). lia.
      + intros c Hc. destruct (Idone c Hc) as (b & ? & ? & ? & ? & ? & ? & ?). exists b. repeat split; auto; lia.
      + intros j thj inv' r' Hj E. other_thread Hth Hj; simpl in *; [destruct E; discriminate|]. eapply Ipend; eauto.
      + intros j thj inv' Hj E. other_thread Hth Hj; simpl in *.
        * destruct E as [E|E]; inversion E; subst; lia.
        * specialize (Iinv _ _ _ Hj E). lia.
    - (* lock *)
      destruct (mutex s) as [h|] eqn:Hm; [discriminate|]. inversion H; subst s'; clear H.
      assert (forall j thj, nth_error (threads s) j = Some thj -> holds (th_pc thj) = false) as Hnone.
      { intros j thj Hj. destruct (holds (th_pc thj)) eqn:Hh; [|reflexivity]. apply (Imx _ _ Hj) in Hh. discriminate. }
      constructor; simpl.
      + intros j thj Hj. other_thread Hth Hj; simpl.
        * split; auto.
        * rewrite (Hnone _ _ Hj). split; [discriminate|]. intros E. inversion E. congruence.
      + intros j thj inv' s1 r1 Hj E. other_thread Hth Hj; simpl in *; [discriminate|].
        destruct (Icomp _ _ _ _ _ Hj E) as (o' & rest' & ? & ? & ?). exists o', rest'. repeat split; auto; lia.
      + assumption.
      + assumption.
      + intros b Hb. specialize (Iblog b Hb). lia.
      + intros c Hc. destruct (Idone c Hc) as (b & ? & ? & ? & ? & ? & ? & ?). exists b. repeat split; auto; lia.
      + intros j thj inv' r' Hj E. other_thread Hth Hj; simpl in *; [destruct E; discriminate|]. eapply Ipend; eauto.
      + intros j thj inv' Hj E. other_thread Hth Hj; simpl in *.
        * assert (inv < clock s) by (eapply Iinv; eauto). destruct E as [E|E]; inversion E; subst; lia.
        * specialize (Iinv _ _ _ Hj E). lia.
    - (* read + compute *)
      destruct (th_todo th) as [|o rest] eqn:Htodo; [discriminate|]. inversion H; subst s'; clear H.
      constructor; simpl.
      + intros j thj Hj. other_thread Hth Hj; simpl.
        * rewrite <- (Imx _ _ Hth), Hpc. simpl. tauto.
        * apply Imx; assumption.
      + intros j thj inv' s1 r1 Hj E. other_thread Hth Hj; simpl in *.
        * inversion E; subst. exists o, rest. repeat split; auto.
          -- apply surjective_pairing.
          -- assert (inv' < clock s) by (eapply Iinv; eauto). lia.
        * destruct (Icomp _ _ _ _ _ Hj E) as (o' & rest' & ? & ? & ?). exists o', rest'. repeat split; auto; lia.
      + assumption.
      + assumption.
      + intros b Hb. specialize (Iblog b Hb). lia.
      + intros c Hc. destruct (Idone c Hc) as (b & ? & ? & ? & ? & ? & ? & ?). exists b. repeat split; auto; lia.
      + intros j thj inv' r' Hj E. other_thread Hth Hj; simpl in *; [destruct E; discriminate|]. eapply Ipend; eauto.
      + intros j thj inv' Hj E. other_thread Hth Hj; simpl in *; [destruct E; discriminate|].
        specialize (Iinv _ _ _ Hj E). lia.
    - (* write: the call takes effect *)
      destruct (th_todo th) as [|o rest] eqn:Htodo; [discriminate|]. inversion H; subst s'; clear H.
      destruct (Icomp _ _ _ _ _ Hth Hpc) as (o' & rest' & Eo & Est & Hinv). rewrite Htodo in Eo. inversion Eo; subst o' rest'.
      assert (mutex s = Some i) as Hmi by (apply (Imx _ _ Hth); rewrite Hpc; reflexivity).
      constructor; simpl.
      + intros j thj Hj. other_thread Hth Hj; simpl.
        * tauto.
        * apply Imx; assumption.
      + intros j thj inv' s1 r1 Hj E. other_thread Hth Hj; simpl in *; [discriminate|].
        exfalso. assert (mutex s = Some j) as Hmj by (apply (Imx _ _ Hj); rewrite E; reflexivity). congruence.
      + rewrite !map_app. simpl. rewrite replay_snoc, Irep. simpl. rewrite Est. reflexivity.
      + apply sorted_snoc; [assumption|]. apply Forall_forall. intros b Hb. simpl. specialize (Iblog b Hb). lia.
      + intros b Hb. apply in_app_or in Hb. destruct Hb as [Hb|[Hb|[]]]; [specialize (Iblog b Hb); lia|subst b; simpl; lia].
      + intros c Hc. destruct (Idone c Hc) as (b & ? & ? & ? & ? & ? & ? & ?). exists b. repeat split; auto; try lia; apply in_or_app; auto.
      + intros j thj inv' r' Hj E. other_thread Hth Hj; simpl in *.
        * destruct E as [E|E]; inversion E; subst. eexists _, o, rest. split; [apply in_or_app; right; left; reflexivity|]. simpl. auto 10.
        * destruct (Ipend _ _ _ _ Hj E) as (b & o1 & rest1 & ? & ?). exists b, o1, rest1. split; [apply in_or_app; auto|assumption].
      + intros j thj inv' Hj E. other_thread Hth Hj; simpl in *; [destruct E; discriminate|].
        specialize (Iinv _ _ _ Hj E). lia.
    - (* unlock *)
      inversion H; subst s'; clear H.
      assert (mutex s = Some i) as Hmi by (apply (Imx _ _ Hth); rewrite Hpc; reflexivity).
      constructor; simpl.
      + intros j thj Hj. other_thread Hth Hj; simpl.
        * split; discriminate.
        * split; [|discriminate]. intros Hh. apply (Imx _ _ Hj) in Hh. congruence.
      + intros j thj inv' s1 r1 Hj E. other_thread Hth Hj; simpl in *; [discriminate|].
        destruct (Icomp _ _ _ _ _ Hj E) as (o' & rest' & ? & ? & ?). exists o', rest'. repeat split; auto; lia.
      + assumption.
      + assumption.
      + intros b Hb. specialize (Iblog b Hb). lia.
      + intros c Hc. destruct (Idone c Hc) as (b & ? & ? & ? & ? & ? & ? & ?). exists b. repeat split; auto; lia.
      + intros j thj inv' r' Hj E. other_thread Hth Hj; simpl in *.
        * destruct E as [E|E]; inversion E; subst. eapply Ipend; eauto.
        * eapply Ipend; eauto.
      + intros j thj inv' Hj E. other_thread Hth Hj; simpl in *; [destruct E; discriminate|].
        specialize (Iinv _ _ _ Hj E). lia.
    - (* return *)
      destruct (th_todo th) as [|o rest] eqn:Htodo; [discriminate|]. inversion H; subst s'; clear H.
      destruct (Ipend _ _ _ _ Hth (or_intror Hpc)) as (b0 & o0 & rest0 & Hb0 & Et & Hbt & Hbk & Hbo & Hbr & Hbi).
      rewrite Htodo in Et. inversion Et; subst o0 rest0.
      constructor; simpl.
      + intros j thj Hj. other_thread Hth Hj; simpl.
        * split; [discriminate|]. intros Hm. apply (Imx _ _ Hth) in Hm. rewrite Hpc in Hm. discriminate.
        * apply Imx; assumption.
      + intros j thj inv' s1 r1 Hj E. other_thread Hth Hj; simpl in *; [discriminate|].
        destruct (Icomp _ _ _ _ _ Hj E) as (o' & rest' & ? & ? & ?). exists o', rest'. repeat split; auto; lia.
      + assumption.
      + assumption.
      + intros b Hb. specialize (Iblog b Hb). lia.
      + intros c Hc. apply in_app_or in Hc. destruct Hc as [Hc|[Hc|[]]]; [|subst c].
        * destruct (Idone c Hc) as (b & ? & ? & ? & ? & ? & ? & ?). exists b. repeat split; auto; lia.
        * exists b0. simpl. specialize (Iblog b0 Hb0). repeat split; auto; lia.
      + intros j thj inv' r' Hj E. other_thread Hth Hj; simpl in *; [destruct E; discriminate|]. eapply Ipend; eauto.
      + intros j thj inv' Hj E. other_thread Hth Hj; simpl in *; [destruct E; discriminate|].
        specialize (Iinv _ _ _ Hj E). lia.
  Qed.

  Theorem locked_invariant s0 progs sched : Inv s0 (run lstep (linit St Op Res s0 progs) sched).
  Proof. apply invariant_run; [apply Inv_init|]. intros s t s'. apply Inv_step. Qed.

  (* the statement in the property's words *)
  Theorem linearizable s0 progs sched :
    let s := run lstep (linit St Op Res s0 progs) sched in
    (* (2) replaying the calls one at a time, in the order they took effect, from the initial
           state gives exactly the results they returned (and the current state) *)
    replay s0 (map b_op (blog s)) = (shared s, map b_res (blog s))
    (* every returned call took effect, with that operation and that result, between its
       invocation and its return *)
    /\ (forall c, In c (done s) -> exists b, In b (blog s) /\ b_t b = c_t c /\ b_k b = c_k c /\ b_op b = c_op c
                                         /\ b_res b = c_res c /\ c_inv c < b_at b < c_ret c)
    (* the effect order is a total order in time *)
    /\ StronglySorted (fun x y => b_at x < b_at y) (blog s)
    (* (1) hence it respects real time: a call that returned before another was invoked took
           effect before it *)
    /\ (forall (c1 c2 : call Op Res) (b1 b2 : bentry Op Res), In c1 (done s) -> In b1 (blog s) -> In b2 (blog s) ->
          b_inv b1 = c_inv c1 -> b_at b1 < c_ret c1 -> b_inv b2 = c_inv c2 ->
          c_ret c1 < c_inv c2 -> b_at b1 < b_at b2).
  Proof.
    intros s. destruct (locked_invariant s0 progs sched) as [_ _ Irep Isort Iblog Idone _ _]. fold s in Irep, Isort, Iblog, Idone.
    split; [assumption|]. split; [|split; [assumption|]].
    - intros c Hc. destruct (Idone c Hc) as (b & Hb & ? & ? & ? & ? & Ei & ?). exists b. specialize (Iblog b Hb).
      repeat split; auto; lia.
    - intros c1 c2 b1 b2 _ _ Hb2 _ L1 E2 L2. specialize (Iblog b2 Hb2). lia.
  Qed.
End Proofs.
