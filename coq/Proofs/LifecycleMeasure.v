(* Proofs/LifecycleMeasure.v — C07: the teardown terminates.  A natural-number measure that
   EVERY step of EVERY thread other than the environment strictly decreases while a closer is
   between its teardown and the end of its drain loop (program points C2, C3); the environment's
   steps leave it unchanged.  No fairness is needed: the number of steps any schedule can take
   during one teardown is bounded by the measure at its start, which is computed from the
   backlog sizes, the remaining handler work and the remaining programs of the application. *)
From Coq Require Import List Arith Bool Lia.
From Verif Require Import Lts LifecycleLts LifecycleBase LifecycleInv LifecycleInvB LifecycleInvC LifecycleInvD LifecycleInvE.
Import ListNotations.

Section Measure.
  Variable hm : nat.                 (* a line's handler calls Raw at most hm times *)

  (* weights: a queued outgoing line costs at most WO steps (popped by send or by the closer,
     then written); an incoming line in the queue costs WI (popped, its handler samples and
     calls Raw up to hm times, each call queues one outgoing line); a line the server has not
     delivered yet costs WS (read, queued, then as before); a ping tick costs WT *)
  Definition WO := 2.
  Definition WI := 3 * hm + 4.
  Definition WS := WI + 2.
  Definition WT := 4.

  Fixpoint prog_rank (p : list op) : nat :=
    match p with
    | [] => 0
    | OpClose :: r => 2 + prog_rank r
    | OpConnect _ :: r => 2 + prog_rank r
    | OpRaw n :: r => 3 * n + 2 + prog_rank r
    | OpSample :: r => 1 + prog_rank r
    end.
  Definition cont_rank (ret : cont) : nat := match ret with None => 0 | Some p => prog_rank p end.

  (* how many more steps the thread can take before it ends or needs conn.mu *)
  Definition rank (p : pc) : nat :=
    match p with
    | PIdle | PDone => 0
    | R0 => 4 | R1 _ => 3 | R3 _ => WI + 4 | R4 _ => 2
    | L0 => 4 | L1 _ => 3 | LS _ k => 3 * k + 5 | LH _ k => 3 * k + 4 | L5 _ => 2
    | S0 => 6 | S1 _ => 5 | S2 _ => 6 | S3 _ => 2 | S4 => 1
    | P1 => 1 | P2 => 4
    | W1 => 2
    | T1 => 1
    | U prog => prog_rank prog
    | URaw k prog => 3 * k + 1 + prog_rank prog
    | PClose c _ ret =>
        cont_rank ret +
        match c with
        | C0 => 1 | C1 => 12 | C2 _ => 11 | C3 _ => 9 | C3a _ => 9 | C3b _ => 8 | C3w _ => 7
        | C4 _ => 6 | C5 _ => 5 | C6 _ => 4 | C7 _ => 3 | C8 => 1
        end
    | PConn k _ inh ret =>
        cont_rank ret + (if inh then 1 else 0) +
        match k with
        | K0 => 1 | K1 => 8 | K2 => 7 | K3 => 6 | K4 _ => 5 | K5 _ => 3 | K6 _ => 2 | K7 _ => 1
        end
    end.

  (* sums over the threads that exist: the application's goroutines 0..n-1 and the goroutines of
     the generations 1..q *)
  Fixpoint usum (f : Thr -> pc) (n : nat) : nat :=
    match n with 0 => 0 | S m => rank (f (User m)) + usum f m end.
  Definition grank (f : Thr -> pc) (g : gen) : nat :=
    rank (f (Recv g)) + rank (f (Loop g)) + rank (f (Send g)) + rank (f (Ping g))
    + rank (f (Watch g)) + rank (f (Waiter g)).
  Fixpoint gsum (f : Thr -> pc) (q : nat) : nat :=
    match q with 0 => 0 | S m => grank f (S m) + gsum f m end.

  Definition covered (t : Thr) (n q : nat) : Prop :=
    match t with
    | User i => i < n
    | Env => False
    | Recv g | Loop g | Send g | Ping g | Watch g | Waiter g => 1 <= g <= q
    end.

  Lemma usum_other f t p n : (forall i, i < n -> t <> User i) -> usum (updt f t p) n = usum f n.
  Proof.
    induction n as [|m IH]; intros H; [reflexivity|]. cbn [usum].
    rewrite updt_other by (intros e; apply (H m); [lia|auto]). rewrite IH; auto.
  Qed.
  Lemma usum_upd f i p n : i < n -> usum (updt f (User i) p) n + rank (f (User i)) = usum f n + rank p.
  Proof.
    induction n as [|m IH]; intros H; [lia|]. cbn [usum].
    destruct (Nat.eq_dec i m) as [->|Hne].
    - rewrite updt_same. rewrite usum_other by (intros j Hj e; injection e; lia). lia.
    - rewrite updt_other by congruence. specialize (IH ltac:(lia)). lia.
  Qed.
  Lemma grank_other f t p g : gthr t <> Some g -> grank (updt f t p) g = grank f g.
  Proof.
    intros H. unfold grank. rewrite !updt_other; auto; intros e; apply H; rewrite <- e; reflexivity.
  Qed.
  Lemma gsum_other f t p q : (forall g, 1 <= g <= q -> gthr t <> Some g) -> gsum (updt f t p) q = gsum f q.
  Proof.
    induction q as [|m IH]; intros H; [reflexivity|]. cbn [gsum].
    rewrite grank_other by (apply H; lia). rewrite IH; auto. intros g Hg. apply H. lia.
  Qed.
  Lemma grank_upd f t p g : gthr t = Some g -> grank (updt f t p) g + rank (f t) = grank f g + rank p.
  Proof.
    intros H. unfold grank. destruct t; cbn in H; try discriminate; injection H as ->;
      rewrite updt_same, !updt_other by congruence; lia.
  Qed.
  Lemma gsum_upd f t p g q : gthr t = Some g -> 1 <= g <= q ->
    gsum (updt f t p) q + rank (f t) = gsum f q + rank p.
  Proof.
    intros Ht. induction q as [|m IH]; intros H; [lia|]. cbn [gsum].
    destruct (Nat.eq_dec g (S m)) as [->|Hne].
    - rewrite gsum_other by (intros g' Hg' e; rewrite Ht in e; injection e; lia).
      pose proof (grank_upd f t p (S m) Ht). lia.
    - rewrite grank_other by (rewrite Ht; congruence). specialize (IH ltac:(lia)). lia.
  Qed.

  Definition tsum (f : Thr -> pc) (n q : nat) : nat := usum f n + gsum f q.

  Lemma tsum_upd f t p n q : covered t n q -> tsum (updt f t p) n q + rank (f t) = tsum f n q + rank p.
  Proof.
    intros Hc. unfold tsum. destruct (gthr t) as [g|] eqn:Hg.
    - assert (Hr : 1 <= g <= q) by (destruct t; cbn in *; try discriminate; injection Hg as <-; exact Hc).
      rewrite usum_other by (intros i _ ->; discriminate).
      pose proof (gsum_upd f t p g q Hg Hr). lia.
    - destruct t; cbn in Hg; try discriminate; cbn [covered] in Hc; [|contradiction].
      rewrite gsum_other by (intros; discriminate). pose proof (usum_upd f i p n Hc). lia.
  Qed.

  (* the measure; n = number of goroutines of the application (fixed by the world) *)
  Definition mu_of (n : nat) (s : St) : nat :=
    WS * srv_in s (nq s) + WT * ticks s (nq s) + WI * inq s (nq s) + WO * outq s (nq s)
    + tsum (pcs s) n (nq s).
End Measure.

Section Decrease.
  Variables (hm : nat) (hl : bool) (n : nat).
  Notation step := (fstep hm hl).
  Notation mu_ := (mu_of hm n).

  (* a closer is between its teardown and the end of its drain loop *)
  Definition busy (s : St) : Prop :=
    exists tc g id ret, mu s = Some tc /\ (pcs s tc = PClose (C2 g) id ret \/ pcs s tc = PClose (C3 g) id ret).
  (* the application has n goroutines *)
  Definition users_ok (s : St) : Prop := forall i, n <= i -> pcs s (User i) = PIdle.

  Lemma idle_no_step s t ch : pcs s t = PIdle -> t <> Env -> step s (t, ch) = None.
  Proof. intros E Hne. unfold fstep, lstep. rewrite E. destruct t; try reflexivity. congruence. Qed.

  Lemma covered_step s t ch s' : Inv s -> users_ok s -> t <> Env -> step s (t, ch) = Some s' ->
    covered t n (nq s).
  Proof.
    intros Hinv Hu Hne H.
    assert (Hni : pcs s t <> PIdle) by (intros E; rewrite (idle_no_step s t ch E Hne) in H; discriminate).
    destruct (i_t _ Hinv t) as (_ & _ & _ & _ & Hg).
    destruct t; cbn [covered]; try (apply (i_ests _ Hinv), Hg; [reflexivity|exact Hni]).
    - destruct (Nat.lt_ge_cases i n) as [|Hge]; [assumption|]. elim Hni. apply Hu. exact Hge.
    - congruence.
  Qed.

  Lemma busy_facts s : Inv s -> busy s ->
    exists tc g id ret, mu s = Some tc
      /\ (pcs s tc = PClose (C2 g) id ret \/ pcs s tc = PClose (C3 g) id ret)
      /\ cur s = nq s /\ in_ref s = nq s /\ out_ref s = nq s /\ 1 <= nq s.
  Proof.
    intros Hinv (tc & g & id & ret & Hm & Hp). exists tc, g, id, ret. split; [exact Hm|]. split; [exact Hp|].
    destruct (i_refs _ Hinv) as (R1 & R2 & R3).
    assert (Hc : cur s = g /\ 1 <= g).
    { destruct (i_t _ Hinv tc) as (_ & _ & _ & Hc & _).
      destruct Hp as [Hp|Hp]; rewrite Hp in Hc; cbn [cinv] in Hc; destruct Hc as (A & B & _);
        destruct (A g eq_refl) as [A1 _]; destruct (B g eq_refl) as (_ & B2 & _);
        (split; [exact B2|]); apply (i_ests _ Hinv), (i_tds _ Hinv); eauto with lc. }
    destruct Hc as [Hc1 Hc2]. repeat split; auto; destruct R3; lia.
  Qed.

  Ltac begin Hinv H :=
    match type of H with step _ (?t, _) = _ => facts Hinv t end;
    step_inv H; try use_Ht; psimpl.

  (* the measure arithmetic of one step: the acting thread goes from pc p0 to p1 *)
  Ltac account Hcov :=
    match goal with
    | E : pcs ?s0 ?ta = ?p0 |- _ =>
        match goal with
        | |- context [tsum hm (updt (pcs s0) ta ?p1) n (nq s0)] =>
            let Hs := fresh "Hs" in
            pose proof (tsum_upd hm (pcs s0) ta p1 n (nq s0) Hcov) as Hs; rewrite E in Hs;
            cbn [rank cont_rank prog_rank] in Hs
        end
    end.

  Theorem measure_step s t ch s' : Inv s -> users_ok s -> busy s -> t <> Env ->
    step s (t, ch) = Some s' -> mu_ s' < mu_ s.
  Proof.
    intros Hinv Hu Hb Hne H. pose proof (covered_step s t ch s' Hinv Hu Hne H) as Hcov.
    destruct (busy_facts s Hinv Hb) as (tc & gt & idt & rett & Hmu & Hpc & Hcn & Hin & Hout & Hnq1).
    begin Hinv H; try congruence; unfold mu_of; psimpl.
    all: try (match goal with
              | E : pcs ?s0 (?X ?g0) = _ |- _ =>
                  assert (g0 = nq s0)
                    by (rewrite <- Hcn; apply (counted_cur s0 (X g0) g0 Hinv); [unfold in4; auto|rewrite E; reflexivity]);
                  subst g0
              end).
    all: try subst rw.
    all: try (account Hcov; rewrite ?Hin, ?Hout, ?Hcn in *; rewrite ?updf_same;
              unfold WI, WS, WO, WT in *; lia).
    (* holders of conn.mu other than the closer do not exist *)
    all: try (exfalso; assert (t = tc) by congruence; subst; destruct Hpc; congruence).
    (* returns: where the thread continues *)
    all: try (unfold fin_pc, after in *; destruct ret; try destruct inh;
              account Hcov; unfold WI, WS, WO, WT in *; lia).
    - (* recv reads a line the server had sent *)
      account Hcov. rewrite updf_same, E0, Nat.mul_succ_r. unfold WS, WI in *. lia.
    - (* C2: the closer spawns its waiter *)
      assert (Hnw : t <> Waiter g) by (intros ->; cbn in Hwf; exact Hwf).
      destruct Hc2 as (_ & Hcg & _).
      pose proof (tsum_upd hm (updt (pcs s) (Waiter g) T1) t (PClose (C3 g) id ret) n (nq s) Hcov) as H1.
      rewrite updt_other, E in H1 by exact Hnw.
      assert (Hcw : covered (Waiter g) n (nq s)) by (cbn; lia).
      pose proof (tsum_upd hm (pcs s) (Waiter g) T1 n (nq s) Hcw) as H2.
      cbn [rank cont_rank] in H1, H2. lia.
  Qed.
End Decrease.

Section Bound.
  Variables (hm : nat) (hl : bool) (w : world).
  Notation step := (fstep hm hl).
  Notation reach sched := (run step (init w) sched).
  Let n := length (w_progs w).
  Notation mu_ := (mu_of hm n).

  (* a step changes the pc of no goroutine of the application but the acting one *)
  Lemma user_pc_frame s t ch s' i : step s (t, ch) = Some s' -> t <> User i -> pcs s' (User i) = pcs s (User i).
  Proof.
    intros H Hne. step_inv H; cbn [pcs set_connected set_mu set_cur set_nq set_in_ref set_out_ref set_inq
      set_outq set_cancelled set_sock_closed set_srv_in set_srv_eof set_srv_out set_ticks set_wg set_pcs
      set_hist setpc log]; rewrite ?updt_other by congruence; reflexivity.
  Qed.

  Lemma users_ok_run sched : users_ok n (reach sched).
  Proof.
    apply invariant_run.
    - intros i Hi. cbn. apply nth_error_None in Hi. subst n. now rewrite Hi.
    - intros s [t ch] s' Hu H i Hi. destruct (thr_eqb_spec t (User i)) as [->|Hne].
      + rewrite (idle_no_step hm hl s (User i) ch (Hu i Hi)) in H by discriminate. discriminate.
      + rewrite (user_pc_frame s t ch s' i H Hne). apply Hu. exact Hi.
  Qed.

  (* the environment's steps (server closes, context cancelled) do not touch the measure *)
  Lemma env_step_measure s ch s' : step s (Env, ch) = Some s' -> mu_ s' = mu_ s.
  Proof. intros H. step_inv H; reflexivity. Qed.

  (* the measure decreases with every step of every other thread while a teardown is busy *)
  Theorem teardown_measure sched t ch s' :
    let s := reach sched in
    busy s -> step s (t, ch) = Some s' ->
    if is_env t then mu_ s' = mu_ s else mu_ s' < mu_ s.
  Proof.
    intros s Hb H. destruct (is_env t) eqn:He.
    - destruct t; try discriminate. apply (env_step_measure s ch s' H).
    - eapply measure_step; [apply Inv_run|apply users_ok_run|exact Hb| |exact H].
      intros ->. discriminate.
  Qed.

  (* hence: the number of steps (of threads other than the environment) any schedule can take
     while the teardown is busy is bounded by the measure at its start — no fairness needed *)
  Fixpoint work (s : St) (l : list Tid) : nat :=
    match l with
    | [] => 0
    | tid :: r =>
        match step s tid with
        | Some s' => (if is_env (fst tid) then 0 else 1) + work s' r
        | None => work s r
        end
    end.

  Lemma run_cons s tid l :
    run step s (tid :: l) = run step (match step s tid with Some s' => s' | None => s end) l.
  Proof. reflexivity. Qed.

  Lemma teardown_bounded_from l : forall s, (exists sched, s = reach sched) ->
    (forall l1 l2, l = l1 ++ l2 -> l2 <> [] -> busy (run step s l1)) ->
    work s l <= mu_ s.
  Proof.
    induction l as [|[t ch] l IH]; intros s [sched ->] Hb; [cbn; lia|].
    cbn [work]. destruct (step (reach sched) (t, ch)) as [s'|] eqn:E.
    - assert (Hm : if is_env t then mu_ s' = mu_ (reach sched) else mu_ s' < mu_ (reach sched)).
      { apply (teardown_measure sched t ch s'); [apply (Hb [] ((t, ch) :: l) eq_refl); discriminate|exact E]. }
      assert (IH' : work s' l <= mu_ s').
      { apply IH.
        - exists (sched ++ [(t, ch)]). rewrite run_snoc. unfold step'.
          match goal with |- _ = match ?x with _ => _ end => replace x with (Some s') by (symmetry; exact E) end.
          reflexivity.
        - intros l1 l2 Hl Hne. specialize (Hb ((t, ch) :: l1) l2 ltac:(cbn; congruence) Hne).
          rewrite run_cons, E in Hb. exact Hb. }
      cbn [fst]. destruct (is_env t); lia.
    - apply IH; [eauto|]. intros l1 l2 Hl Hne.
      specialize (Hb ((t, ch) :: l1) l2 ltac:(cbn; congruence) Hne). rewrite run_cons, E in Hb. exact Hb.
  Qed.

  Theorem teardown_bounded sched l :
    (forall l1 l2, l = l1 ++ l2 -> l2 <> [] -> busy (run step (reach sched) l1)) ->
    work (reach sched) l <= mu_ (reach sched).
  Proof. apply teardown_bounded_from. eauto. Qed.
End Bound.
