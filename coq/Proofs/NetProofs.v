(* Proofs/NetProofs.v — C13, second sentence: under ARBITRARY lines (every [line] value, hence
   every byte string through [parse]) the three invariants
     (1) the client's own nick is tracked,
     (2) every tracked channel has the client on it,
     (3) every tracked nick other than the client is on some (tracked) channel
   are preserved by every state handler, including the runs in which a handler panics half-way
   (the effects before the panic are kept), for ANY strings.ToLower. *)
From Verif Require Import TrackerSpec TrackerSpecFacts StateHandlers.
From Verif Require GoBytes LineLib Line.
Open Scope Z_scope.

Definition nickT (t : tstate) (n : name) : Prop := is_Some (ts_nicks t !! n).
Definition chanT (t : tstate) (c : name) : Prop := is_Some (ts_chans t !! c).
Definition onT (t : tstate) (c n : name) : Prop := is_Some (ts_member t !! (c, n)).

(* the invariant with at most one nick [X] / one channel [Y] still waiting for its Associate *)
Definition inv_ex (X Y : option name) (t : tstate) : Prop :=
  sp_inv t
  /\ (forall c, chanT t c -> Some c = Y \/ onT t c (ts_me t))
  /\ (forall n, nickT t n -> n = ts_me t \/ Some n = X \/ exists c, onT t c n).
Definition rob_inv : tstate -> Prop := inv_ex None None.

Lemma inv_ex_weaken X Y t : rob_inv t -> inv_ex X Y t.
Proof.
  intros (I & H2 & H3). split; [done|]. split.
  - intros c Hc. destruct (H2 c Hc) as [?|?]; [done|by right].
  - intros n Hn. destruct (H3 n Hn) as [?|[?|?]]; [by left|done|by right; right].
Qed.

Lemma not_no_pair mem n : ~ no_pair mem n <-> exists c, is_Some (mem !! (c, n)).
Proof.
  unfold no_pair. rewrite map_not_Forall by (intros; apply _). split.
  - intros ([c n'] & p & L & H). simpl in H. apply dec_stable in H. subst. exists c. rewrite L; eauto.
  - intros (c & p & L). exists (c, n), p. split; [done|]. simpl. by intros H.
Qed.

(* ---------- rob_ok is the boolean form of rob_inv (given the tracker's own invariant) ---------- *)
Lemma rob_ok_spec t : sp_inv t -> (rob_ok t = true <-> rob_inv t).
Proof.
  intros I. unfold rob_ok, rob_inv, inv_ex, chanT, nickT, onT.
  rewrite !andb_true_iff, !bool_decide_eq_true, !map_Forall_lookup. split.
  - intros [[H1 H2] H3]. split; [done|]. split.
    + intros c [a Ha]. right. by apply (H2 c a).
    + intros n [a Ha]. destruct (H3 n a Ha) as [?|NP]; [by left|]. right; right. by apply not_no_pair.
  - intros (_ & H2 & H3). split; [split|].
    + apply I.
    + intros c a Ha. destruct (H2 c) as [?|?]; [by eexists|done|done].
    + intros n a Ha. destruct (H3 n) as [?|[?|[c Hc]]]; [by eexists|by left|done|]. right.
      apply not_no_pair. by exists c.
Qed.

(* ---------- operations that change no key set ---------- *)
Definition same_keys (t t' : tstate) : Prop :=
  ts_me t' = ts_me t
  /\ (forall n, nickT t' n <-> nickT t n)
  /\ (forall c, chanT t' c <-> chanT t c)
  /\ (forall c n, onT t' c n <-> onT t c n).

Lemma same_keys_refl t : same_keys t t.
Proof. by repeat split. Qed.

Lemma inv_same_keys X Y t t' : same_keys t t' -> inv_ex X Y t -> inv_ex X Y t'.
Proof.
  intros (Hme & Hn & Hc & Hm) ((I1 & I2) & H2 & H3). split; [split|split].
  - rewrite Hme. by apply Hn.
  - intros c n Ho. apply Hm in Ho. destruct (I2 _ _ Ho). split; [by apply Hc|by apply Hn].
  - intros c Hx. apply Hc in Hx. destruct (H2 c Hx) as [?|?]; [by left|right]. rewrite Hme. by apply Hm.
  - intros n Hx. apply Hn in Hx. rewrite Hme. destruct (H3 n Hx) as [?|[?|[c ?]]]; [by left|by right; left|].
    right; right. exists c. by apply Hm.
Qed.

Lemma insert_same_dom `{Countable K} {A} (m : gmap K A) k v k' :
  is_Some (m !! k) -> (is_Some (<[k := v]> m !! k') <-> is_Some (m !! k')).
Proof.
  intros Hk. destruct (decide (k = k')) as [->|N].
  - rewrite lookup_insert. split; eauto.
  - by rewrite lookup_insert_ne.
Qed.

Lemma NickInfo_keys t n i h r : same_keys t (fst (sp_NickInfo t n i h r)).
Proof.
  unfold sp_NickInfo. destruct (ts_nicks t !! n) eqn:L; [|apply same_keys_refl].
  split; [done|]. split; [|done]. intros n'. apply insert_same_dom. rewrite L; eauto.
Qed.
Lemma NickModes_keys t n m : same_keys t (fst (sp_NickModes t n m)).
Proof.
  unfold sp_NickModes. destruct (ts_nicks t !! n) eqn:L; [|apply same_keys_refl].
  split; [done|]. split; [|done]. intros n'. apply insert_same_dom. rewrite L; eauto.
Qed.
Lemma Topic_keys t c tp : same_keys t (fst (sp_Topic t c tp)).
Proof.
  unfold sp_Topic. destruct (ts_chans t !! c) eqn:L; [|apply same_keys_refl].
  split; [done|]. split; [done|]. split; [|done]. intros c'. apply insert_same_dom. rewrite L; eauto.
Qed.
Lemma ChannelModes_keys t c m a : same_keys t (fst (sp_ChannelModes t c m a)).
Proof.
  unfold sp_ChannelModes. destruct (ts_chans t !! c) as [x|] eqn:L; [|apply same_keys_refl].
  destruct (chan_parse_modes c m false a (ca_modes x) (ts_member t)) as [cm' mem'] eqn:P. simpl.
  split; [done|]. split; [done|]. split.
  - intros c'. apply insert_same_dom. rewrite L; eauto.
  - intros c' n'. unfold onT. simpl.
    pose proof (chan_parse_modes_dom c m false a (ca_modes x) (ts_member t) (c', n')) as D.
    rewrite P in D. exact D.
Qed.

(* ---------- operations that change key sets ---------- *)
Lemma NewNick_inv Y t n : inv_ex None Y t -> inv_ex (Some n) Y (fst (sp_NewNick t n)).
Proof.
  intros Hi. pose proof Hi as (I & H2 & H3).
  assert (W : inv_ex (Some n) Y t).
  { split; [done|]. split; [done|]. intros n' Hn'. destruct (H3 n' Hn') as [?|[?|?]]; [by left|done|by right; right]. }
  unfold sp_NewNick. destruct n as [|x n]; [exact W|].
  destruct (ts_nicks t !! (x :: n)) eqn:L; [exact W|]. simpl.
  split; [|split].
  - pose proof (sp_step_inv t (ONewNick (x :: n)) I) as H. simpl in H. unfold sp_NewNick in H.
    rewrite L in H. exact H.
  - exact H2.
  - intros n'. unfold nickT. simpl. destruct (decide (x :: n = n')) as [<-|N]; [by right; left|].
    rewrite lookup_insert_ne by done. intros Hn'. destruct (H3 n' Hn') as [?|[?|?]]; [by left|done|by right; right].
Qed.

Lemma NewChannel_inv X t c : inv_ex X None t -> inv_ex X (Some c) (fst (sp_NewChannel t c)).
Proof.
  intros Hi. pose proof Hi as (I & H2 & H3).
  assert (W : inv_ex X (Some c) t).
  { split; [done|]. split; [|done]. intros c' Hc'. destruct (H2 c' Hc') as [?|?]; [done|by right]. }
  unfold sp_NewChannel. destruct c as [|x c]; [exact W|].
  destruct (ts_chans t !! (x :: c)) eqn:L; [exact W|]. simpl.
  split; [|split].
  - pose proof (sp_step_inv t (ONewChannel (x :: c)) I) as H. simpl in H. unfold sp_NewChannel in H.
    rewrite L in H. exact H.
  - intros c'. unfold chanT. simpl. destruct (decide (x :: c = c')) as [<-|N]; [by left|].
    rewrite lookup_insert_ne by done. intros Hc'. destruct (H2 c' Hc') as [?|?]; [done|by right].
  - exact H3.
Qed.

Lemma Associate_sp_inv t c n : sp_inv t -> sp_inv (fst (sp_Associate t c n)).
Proof. intros I. exact (sp_step_inv t (OAssociate c n) I). Qed.

Lemma Associate_on t c n c' n' : onT t c' n' -> onT (fst (sp_Associate t c n)) c' n'.
Proof.
  unfold sp_Associate, onT. destruct (ts_chans t !! c), (ts_nicks t !! n); try done.
  destruct (ts_member t !! (c, n)) eqn:L; [done|]. simpl.
  destruct (decide ((c, n) = (c', n'))) as [<-|N]; [rewrite lookup_insert; eauto|by rewrite lookup_insert_ne].
Qed.
Lemma Associate_me t c n : ts_me (fst (sp_Associate t c n)) = ts_me t.
Proof. unfold sp_Associate. destruct (ts_chans t !! c), (ts_nicks t !! n); try done. by destruct (ts_member t !! (c, n)). Qed.
Lemma Associate_nicks t c n : ts_nicks (fst (sp_Associate t c n)) = ts_nicks t.
Proof. unfold sp_Associate. destruct (ts_chans t !! c), (ts_nicks t !! n); try done. by destruct (ts_member t !! (c, n)). Qed.
Lemma Associate_chans t c n : ts_chans (fst (sp_Associate t c n)) = ts_chans t.
Proof. unfold sp_Associate. destruct (ts_chans t !! c), (ts_nicks t !! n); try done. by destruct (ts_member t !! (c, n)). Qed.
(* when both are tracked the pair exists afterwards *)
Lemma Associate_does t c n : chanT t c -> nickT t n -> onT (fst (sp_Associate t c n)) c n.
Proof.
  unfold sp_Associate, chanT, nickT, onT. intros [x ->] [y ->].
  destruct (ts_member t !! (c, n)) eqn:L; simpl; [rewrite L; eauto|rewrite lookup_insert; eauto].
Qed.

(* Associate never hurts ... *)
Lemma Associate_inv X Y t c n : inv_ex X Y t -> inv_ex X Y (fst (sp_Associate t c n)).
Proof.
  intros (I & H2 & H3). split; [by apply Associate_sp_inv|]. split.
  - intros c'. unfold chanT. rewrite Associate_chans, Associate_me. intros Hc'.
    destruct (H2 c' Hc') as [?|?]; [by left|right; by apply Associate_on].
  - intros n'. unfold nickT. rewrite Associate_nicks, Associate_me. intros Hn'.
    destruct (H3 n' Hn') as [?|[?|[c0 ?]]]; [by left|by right; left|right; right; exists c0; by apply Associate_on].
Qed.
(* ... it settles the pending nick when the channel is tracked ... *)
Lemma Associate_fix_nick Y t c n : inv_ex (Some n) Y t -> chanT t c -> inv_ex None Y (fst (sp_Associate t c n)).
Proof.
  intros (I & H2 & H3) Hc. split; [by apply Associate_sp_inv|]. split.
  - intros c'. unfold chanT. rewrite Associate_chans, Associate_me. intros Hc'.
    destruct (H2 c' Hc') as [?|?]; [by left|right; by apply Associate_on].
  - intros n'. unfold nickT. rewrite Associate_nicks, Associate_me. intros Hn'.
    destruct (H3 n' Hn') as [?|[E|[c0 ?]]]; [by left| |right; right; exists c0; by apply Associate_on].
    inversion E; subst. right; right. exists c. by apply Associate_does.
Qed.
(* ... and the pending channel when the nick is the client *)
Lemma Associate_fix_chan X t c : inv_ex X (Some c) t -> inv_ex X None (fst (sp_Associate t c (ts_me t))).
Proof.
  intros (I & H2 & H3). split; [by apply Associate_sp_inv|]. split.
  - intros c'. unfold chanT. rewrite Associate_chans, Associate_me. intros Hc'.
    destruct (H2 c' Hc') as [E|?]; [|right; by apply Associate_on].
    inversion E; subst. right. apply Associate_does; [done|apply I].
  - intros n'. unfold nickT. rewrite Associate_nicks, Associate_me. intros Hn'.
    destruct (H3 n' Hn') as [?|[?|[c0 ?]]]; [by left|by right; left|right; right; exists c0; by apply Associate_on].
Qed.

Lemma drop_channel_rob t c : rob_inv t -> rob_inv (sp_drop_channel t c).
Proof.
  intros (I & H2 & H3). split; [by apply sp_drop_channel_inv|]. split.
  - intros c'. unfold chanT, onT. simpl. intros Hc'. right.
    destruct (decide (c' = c)) as [->|N]; [rewrite lookup_delete in Hc'; by destruct Hc'|].
    rewrite lookup_delete_ne in Hc' by done. rewrite drop_chan_pairs_lookup, decide_False by done.
    destruct (H2 c' Hc') as [?|?]; done.
  - intros n. unfold nickT. rewrite sp_drop_channel_nicks. case_decide as E; [|by intros [? ?]].
    intros Hn. change (ts_me (sp_drop_channel t c)) with (ts_me t).
    destruct (decide (n = ts_me t)) as [->|Nme]; [by left|]. right; right.
    destruct E as [?|[E|E]]; [done| |].
    + destruct (H3 n Hn) as [?|[?|[c0 Hc0]]]; [done|done|]. exists c0. unfold onT. simpl.
      rewrite drop_chan_pairs_lookup. case_decide as E'; [|done]. subst c0. unfold onT in Hc0. rewrite E in Hc0. by destruct Hc0.
    + apply not_no_pair in E. exact E.
Qed.

Lemma Dissociate_inv t c n : rob_inv t -> rob_inv (sp_Dissociate t c n).
Proof.
  intros Hi. pose proof Hi as (I & H2 & H3). unfold sp_Dissociate.
  destruct (ts_chans t !! c) as [xa|] eqn:Lc; [|done]. destruct (ts_nicks t !! n) as [xb|] eqn:Ln; [|done].
  destruct (ts_member t !! (c, n)) as [xp|] eqn:Lm; [|done].
  case_decide as E; [by apply drop_channel_rob|].
  split; [|split].
  - pose proof (sp_step_inv t (ODissociate c n) I) as H. simpl in H. unfold sp_Dissociate in H.
    rewrite Lc, Ln, Lm, decide_False in H by done. exact H.
  - intros c'. unfold chanT, onT. simpl. intros Hc'. right.
    rewrite lookup_delete_ne by congruence. destruct (H2 c' Hc'); done.
  - intros n'. unfold nickT, onT. simpl. intros Hn'.
    destruct (decide (n' = ts_me t)) as [->|Nme]; [by left|]. right; right.
    destruct (decide (n' = n)) as [->|Nn].
    + case_decide as NP; [rewrite lookup_delete in Hn'; by destruct Hn'|].
      apply not_no_pair in NP. exact NP.
    + assert (Hn : nickT t n').
      { case_decide; [by rewrite lookup_delete_ne in Hn'|done]. }
      destruct (H3 n' Hn) as [?|[?|[c0 Hc0]]]; [done|done|]. exists c0. rewrite lookup_delete_ne by congruence. done.
Qed.

Lemma DelNick_inv t n : rob_inv t -> rob_inv (fst (sp_DelNick t n)).
Proof.
  intros Hi. pose proof Hi as (I & H2 & H3). unfold sp_DelNick.
  destruct (ts_nicks t !! n) as [xa|] eqn:Ln; [|done]. case_decide as E; [done|]. simpl.
  split; [|split].
  - pose proof (sp_step_inv t (ODelNick n) I) as H. simpl in H. unfold sp_DelNick in H.
    rewrite Ln, decide_False in H by done. exact H.
  - intros c'. unfold chanT, onT. simpl. intros Hc'. right.
    rewrite drop_nick_pairs_lookup, decide_False by (intros E'; by apply E). destruct (H2 c' Hc'); done.
  - intros n'. unfold nickT, onT. simpl. intros Hn'.
    destruct (decide (n' = n)) as [->|Nn]; [rewrite lookup_delete in Hn'; by destruct Hn'|].
    rewrite lookup_delete_ne in Hn' by done.
    destruct (H3 n' Hn') as [?|[?|[c0 Hc0]]]; [by left|done|]. right; right. exists c0.
    rewrite drop_nick_pairs_lookup, decide_False by done. done.
Qed.

Lemma ReNick_inv t old neu : rob_inv t -> rob_inv (fst (sp_ReNick t old neu)).
Proof.
  intros Hi. pose proof Hi as (I & H2 & H3). unfold sp_ReNick.
  destruct (ts_nicks t !! old) as [a|] eqn:Lo; [|done]. destruct (ts_nicks t !! neu) as [xb|] eqn:Ln; [done|]. simpl.
  assert (Hne : old <> neu) by (intros ->; congruence).
  split; [|split].
  - pose proof (sp_step_inv t (OReNick old neu) I) as H. simpl in H. unfold sp_ReNick in H.
    rewrite Lo, Ln in H. exact H.
  - intros c'. unfold chanT, onT. simpl. intros Hc'. right. rewrite rekey_lookup.
    destruct (H2 c' Hc') as [?|Hon]; [done|]. unfold swap_name.
    destruct (decide (old = ts_me t)) as [Eo|No].
    + rewrite decide_False by done. rewrite decide_True by done. by rewrite Eo.
    + assert (ts_me t <> neu) by (intros E'; destruct I as [I1 _]; rewrite E', Ln in I1; by destruct I1).
      rewrite decide_False by done. rewrite decide_False by done. done.
  - intros n'. unfold nickT, onT. simpl. intros Hn'.
    destruct (decide (n' = neu)) as [->|Nn].
    + destruct (decide (old = ts_me t)) as [Eo|Nme]; [by left|].
      destruct (H3 old) as [?|[?|[c0 Hc0]]]; [unfold nickT; rewrite Lo; eauto|done|done|].
      right; right. exists c0. rewrite rekey_lookup. unfold swap_name.
      rewrite decide_False by done. rewrite decide_True by done. done.
    + rewrite lookup_insert_ne in Hn' by done.
      destruct (decide (n' = old)) as [->|No]; [rewrite lookup_delete in Hn'; by destruct Hn'|].
      rewrite lookup_delete_ne in Hn' by done.
      destruct (H3 n' Hn') as [->|[?|[c0 Hc0]]]; [left|done|].
      * rewrite decide_False; [done|]. by intros ->.
      * right; right. exists c0. rewrite rekey_lookup. unfold swap_name. by rewrite !decide_False by done.
Qed.

(* ---------- handler plumbing ---------- *)
Lemma pget_pres {A} (P : tstate -> Prop) (r : GoBytes.res A) s k :
  P (h_trk s) -> (forall a, P (h_trk (hres_st (k a)))) -> P (h_trk (hres_st (pget r s k))).
Proof. destruct r; simpl; auto. Qed.
Lemma arg_pres (P : tstate -> Prop) l i s k :
  P (h_trk s) -> (forall a, P (h_trk (hres_st (k a)))) -> P (h_trk (hres_st (arg l i s k))).
Proof. apply pget_pres. Qed.
Lemma last_arg_pres (P : tstate -> Prop) l s k :
  P (h_trk s) -> (forall a, P (h_trk (hres_st (k a)))) -> P (h_trk (hres_st (last_arg l s k))).
Proof. apply arg_pres. Qed.
Lemma arg_ok l i s k a : GoBytes.elem_at (Line.l_args l) i = GoBytes.Ok a -> arg l i s k = k a.
Proof. unfold arg, pget. by intros ->. Qed.

Definition hpres (h : line -> hst -> hres) : Prop :=
  forall l s, rob_inv (h_trk s) -> rob_inv (h_trk (hres_st (h l s))).

Lemma keys_pres {A} t (f : tstate -> tstate * A) :
  (forall t, same_keys t (fst (f t))) -> rob_inv t -> rob_inv (fst (f t)).
Proof. intros H. by apply inv_same_keys. Qed.

Lemma h_STNICK_pres : hpres h_STNICK.
Proof. intros l s I. unfold h_STNICK. apply arg_pres; [done|]. intros a. simpl. by apply ReNick_inv. Qed.
Lemma h_PART_pres : hpres h_PART.
Proof. intros l s I. unfold h_PART. apply arg_pres; [done|]. intros a. simpl. by apply Dissociate_inv. Qed.
Lemma h_KICK_pres : hpres h_KICK.
Proof.
  intros l s I. unfold h_KICK. destruct (negb (argslen l 1)); [done|].
  apply arg_pres; [done|]. intros a. apply arg_pres; [done|]. intros a1. simpl. by apply Dissociate_inv.
Qed.
Lemma h_QUIT_pres : hpres h_QUIT.
Proof. intros l s I. simpl. by apply DelNick_inv. Qed.
Lemma h_MODE_pres : hpres h_MODE.
Proof.
  intros l s I. unfold h_MODE. destruct (negb (argslen l 1)); [done|].
  apply arg_pres; [done|]. intros a0. destruct (is_some _).
  - apply arg_pres; [done|]. intros a. apply arg_pres; [done|]. intros a1. apply pget_pres; [done|]. intros rest.
    simpl. apply (inv_same_keys _ _ (h_trk s)); [apply ChannelModes_keys|done].
  - apply arg_pres; [done|]. intros a0'. destruct (is_some _); [|done]. destruct (negb _); [done|].
    apply arg_pres; [done|]. intros a. apply arg_pres; [done|]. intros a1.
    simpl. apply (inv_same_keys _ _ (h_trk s)); [apply NickModes_keys|done].
Qed.
Lemma h_TOPIC_pres : hpres h_TOPIC.
Proof.
  intros l s I. unfold h_TOPIC. destruct (negb (argslen l 1)); [done|].
  apply arg_pres; [done|]. intros a0. destruct (is_some _); [|done].
  apply arg_pres; [done|]. intros a. apply arg_pres; [done|]. intros a1.
  simpl. apply (inv_same_keys _ _ (h_trk s)); [apply Topic_keys|done].
Qed.
Lemma h_311_pres : hpres h_311.
Proof.
  intros l s I. unfold h_311. destruct (negb (argslen l 5)); [done|].
  apply arg_pres; [done|]. intros a1. destruct (_ && _); [|done].
  do 4 (apply arg_pres; [done|]; intros ?).
  simpl. apply (inv_same_keys _ _ (h_trk s)); [apply NickInfo_keys|done].
Qed.
Lemma h_324_pres : hpres h_324.
Proof.
  intros l s I. unfold h_324. destruct (negb (argslen l 2)); [done|].
  apply arg_pres; [done|]. intros a1. destruct (is_some _); [|done].
  do 2 (apply arg_pres; [done|]; intros ?). apply pget_pres; [done|]. intros rest.
  simpl. apply (inv_same_keys _ _ (h_trk s)); [apply ChannelModes_keys|done].
Qed.
Lemma h_332_pres : hpres h_332.
Proof.
  intros l s I. unfold h_332. destruct (negb (argslen l 2)); [done|].
  apply arg_pres; [done|]. intros a1. destruct (is_some _); [|done].
  do 2 (apply arg_pres; [done|]; intros ?).
  simpl. apply (inv_same_keys _ _ (h_trk s)); [apply Topic_keys|done].
Qed.
Lemma h_671_pres : hpres h_671.
Proof.
  intros l s I. unfold h_671. destruct (negb (argslen l 1)); [done|].
  apply arg_pres; [done|]. intros a1. destruct (snd _); [|done].
  simpl. apply (inv_same_keys _ _ (h_trk s)); [apply NickModes_keys|done].
Qed.

Lemma who_flag_pres l n x m s k :
  rob_inv (h_trk s) -> (forall s', rob_inv (h_trk s') -> rob_inv (h_trk (hres_st (k s')))) ->
  rob_inv (h_trk (hres_st (who_flag l n x m s k))).
Proof.
  intros I Hk. unfold who_flag. apply arg_pres; [done|]. intros a6. destruct (negb _); [|by apply Hk].
  apply Hk. simpl. apply (inv_same_keys _ _ (h_trk s)); [apply NickModes_keys|done].
Qed.
Lemma h_352_pres : hpres h_352.
Proof.
  intros l s I. unfold h_352. destruct (negb (argslen l 5)); [done|].
  apply arg_pres; [done|]. intros a5. destruct (snd _) as [nk|]; [|done]. destruct (me_equals _ _); [done|].
  apply last_arg_pres; [done|]. intros la. do 2 (apply arg_pres; [done|]; intros ?). apply pget_pres; [done|]. intros real.
  assert (I' : rob_inv (h_trk (tr_ s (fun t => sp_NickInfo t (sn_nick nk) a a0 real)))).
  { simpl. apply (inv_same_keys _ _ (h_trk s)); [apply NickInfo_keys|done]. }
  destruct (negb (argslen l 6)); [done|].
  apply who_flag_pres; [done|]. intros s1 I1. apply who_flag_pres; [done|]. intros s2 I2.
  apply who_flag_pres; [done|]. intros s3 I3. done.
Qed.

Lemma IsOn_true t c n : snd (snd (sp_IsOn t c n)) = true -> onT t c n.
Proof.
  unfold sp_IsOn, onT. destruct (ts_nicks t !! n); [|done]. destruct (ts_chans t !! c); [|done].
  destruct (ts_member t !! (c, n)); [eauto|done].
Qed.

(* h_353: the loop keeps the invariant and the channel *)
Lemma names_step_pres cn nick s :
  rob_inv (h_trk s) -> chanT (h_trk s) cn ->
  rob_inv (h_trk (hres_st (names_step cn nick s))) /\ chanT (h_trk (hres_st (names_step cn nick s))) cn.
Proof.
  intros I Hc. unfold names_step. destruct (GoBytes.beq nick []); [done|].
  apply (pget_pres (fun t => rob_inv t /\ chanT t cn)); [done|]. intros c0.
  apply (pget_pres (fun t => rob_inv t /\ chanT t cn)); [done|]. intros nk.
  (* NewNick (if unknown) *)
  set (s1 := if is_some (snd (sp_GetNick (h_trk s) nk)) then s else tr_ s (fun t => sp_NewNick t nk)).
  assert (I1 : inv_ex (Some nk) None (h_trk s1) /\ chanT (h_trk s1) cn).
  { unfold s1. destruct (is_some _).
    - split; [by apply inv_ex_weaken|done].
    - simpl. split; [by apply NewNick_inv|].
      unfold chanT, sp_NewNick. destruct nk; [done|]. by destruct (ts_nicks (h_trk s) !! _). }
  destruct I1 as [I1 Hc1].
  (* Associate (if not on the channel) *)
  set (s2 := if snd (snd (sp_IsOn (h_trk s1) cn nk)) then s1 else tr_ s1 (fun t => sp_Associate t cn nk)).
  assert (I2 : rob_inv (h_trk s2) /\ chanT (h_trk s2) cn).
  { unfold s2. destruct (snd (snd (sp_IsOn (h_trk s1) cn nk))) eqn:E.
    - split; [|done]. destruct I1 as (J & J2 & J3). split; [done|]. split; [done|].
      intros n Hn. destruct (J3 n Hn) as [?|[Ex|?]]; [by left| |by right; right].
      inversion Ex; subst. right; right. exists cn. by apply IsOn_true.
    - simpl. split; [by apply Associate_fix_nick|]. unfold chanT. by rewrite Associate_chans. }
  destruct I2 as [I2 Hc2].
  destruct (prefix_mode c0) as [pm|]; [|done]. simpl.
  pose proof (ChannelModes_keys (h_trk s2) cn pm [nk]) as K. split.
  - by apply (inv_same_keys _ _ (h_trk s2)).
  - destruct K as (_ & _ & K & _). by apply K.
Qed.

Lemma names_loop_pres cn nicks : forall s,
  rob_inv (h_trk s) -> chanT (h_trk s) cn -> rob_inv (h_trk (hres_st (names_loop cn nicks s))).
Proof.
  induction nicks as [|nick r IH]; intros s I Hc; [done|]. simpl.
  pose proof (names_step_pres cn nick s I Hc) as [I' Hc'].
  destruct (names_step cn nick s) as [s'|s']; [by apply IH|done].
Qed.

Lemma h_353_pres : hpres h_353.
Proof.
  intros l s I. unfold h_353. destruct (negb (argslen l 2)); [done|].
  apply arg_pres; [done|]. intros a2. destruct (snd (sp_GetChannel (h_trk s) a2)) as [ch|] eqn:E; [|done].
  apply last_arg_pres; [done|]. intros la. apply names_loop_pres; [done|].
  unfold sp_GetChannel, chan_snapshot in E. simpl in E. unfold chanT.
  destruct (ts_chans (h_trk s) !! a2) eqn:L; [|done]. inversion E; subst. simpl. rewrite L; eauto.
Qed.

(* h_JOIN *)
Lemma GetNick_some t n : is_some (snd (sp_GetNick t n)) = true <-> nickT t n.
Proof. unfold sp_GetNick, nick_snapshot, nickT. simpl. destruct (ts_nicks t !! n); split; try done; eauto. by intros [? ?]. Qed.
Lemma GetChannel_some t c : is_some (snd (sp_GetChannel t c)) = true <-> chanT t c.
Proof. unfold sp_GetChannel, chan_snapshot, chanT. simpl. destruct (ts_chans t !! c); split; try done; eauto. by intros [? ?]. Qed.
Lemma me_equals_name t n : me_equals t (snd (sp_GetNick t n)) = true -> n = ts_me t.
Proof.
  unfold me_equals, sp_Me, sp_GetNick, nick_snapshot. simpl.
  destruct (ts_nicks t !! ts_me t); [|done]. destruct (ts_nicks t !! n); [|done].
  rewrite bool_decide_eq_true. by inversion 1.
Qed.

Lemma join_assoc_pres l s a0 X Y :
  GoBytes.elem_at (Line.l_args l) 0 = GoBytes.Ok a0 ->
  inv_ex X Y (h_trk s) ->
  (X = None \/ (X = Some (Line.l_nick l) /\ chanT (h_trk s) a0)) ->
  (Y = None \/ (Y = Some a0 /\ Line.l_nick l = ts_me (h_trk s))) ->
  rob_inv (h_trk (hres_st (join_assoc l s))).
Proof.
  intros E0 I HX HY. unfold join_assoc. rewrite (arg_ok _ _ _ _ _ E0). simpl.
  destruct HX as [->|[-> Hc]], HY as [->|[-> Hme]].
  - by apply Associate_inv.
  - rewrite Hme. by apply Associate_fix_chan.
  - by apply Associate_fix_nick.
  - rewrite Hme. apply Associate_fix_chan.
    (* both pending: the nick is the client itself, never pending *)
    destruct I as (J & J2 & J3). split; [done|]. split; [done|]. intros n Hn.
    destruct (J3 n Hn) as [?|[Ex|?]]; [by left| |by right; right]. inversion Ex; subst. left. exact Hme.
Qed.

Lemma join_nick_pres l s a0 Y :
  GoBytes.elem_at (Line.l_args l) 0 = GoBytes.Ok a0 ->
  inv_ex None Y (h_trk s) ->
  chanT (h_trk s) a0 \/ is_Some (ts_nicks (h_trk s) !! Line.l_nick l) ->
  (Y = None \/ (Y = Some a0 /\ Line.l_nick l = ts_me (h_trk s))) ->
  forall nk, (is_some nk = true -> is_Some (ts_nicks (h_trk s) !! Line.l_nick l)) ->
  rob_inv (h_trk (hres_st (join_nick l nk s))).
Proof.
  intros E0 I Hc HY nk Hnk. unfold join_nick. destruct (is_some nk) eqn:En.
  - apply (join_assoc_pres l s a0 None Y); auto.
  - set (s1 := tr_ s (fun t => sp_NewNick t (Line.l_nick l))).
    set (s2 := tr_ s1 (fun t => sp_NickInfo t (Line.l_nick l) (Line.l_ident l) (Line.l_host l) [])).
    assert (I1 : inv_ex (Some (Line.l_nick l)) Y (h_trk s1)) by (simpl; by apply NewNick_inv).
    assert (K : same_keys (h_trk s1) (h_trk s2)) by apply NickInfo_keys.
    assert (M1 : ts_me (h_trk s1) = ts_me (h_trk s) /\ (chanT (h_trk s) a0 -> chanT (h_trk s1) a0)).
    { simpl. unfold sp_NewNick, chanT. destruct (Line.l_nick l); [done|]. by destruct (ts_nicks (h_trk s) !! _). }
    destruct M1 as [M1 C1]. pose proof K as (K1 & K2 & K3 & K4).
    destruct Hc as [Hc|Hn].
    + apply (join_assoc_pres l _ a0 (Some (Line.l_nick l)) Y); auto.
      * apply (inv_same_keys _ _ (h_trk s1)); [exact K|done].
      * right. split; [done|]. change (chanT (h_trk s2) a0). apply K3. by apply C1.
      * destruct HY as [?|[? Hme]]; [by left|right]. split; [done|]. change (Line.l_nick l = ts_me (h_trk s2)). rewrite K1, M1. done.
    + (* the nick is already tracked: NewNick is refused, nothing is pending *)
      assert (Es : h_trk s1 = h_trk s).
      { simpl. unfold sp_NewNick. revert Hn. generalize (Line.l_nick l). intros n0 [x Hx]. destruct n0; [done|]. unfold GoBytes.bytes in *. by rewrite Hx. }
      apply (join_assoc_pres l _ a0 None Y); auto.
      * apply (inv_same_keys _ _ (h_trk s1)); [exact K|]. by rewrite Es.
      * destruct HY as [?|[? Hme]]; [by left|right]. split; [done|]. change (Line.l_nick l = ts_me (h_trk s2)). rewrite K1, M1. done.
Qed.

Lemma h_JOIN_pres : hpres h_JOIN.
Proof.
  intros l s I. unfold h_JOIN, arg at 1, pget.
  destruct (GoBytes.elem_at (Line.l_args l) 0) as [a0|] eqn:E0; [|done].
  set (nk := snd (sp_GetNick (h_trk s) (Line.l_nick l))).
  assert (Hnk : is_some nk = true -> is_Some (ts_nicks (h_trk s) !! Line.l_nick l)).
  { unfold nk. apply GetNick_some. }
  destruct (is_some (snd (sp_GetChannel (h_trk s) a0))) eqn:Ec.
  - (* known channel *)
    apply (join_nick_pres l s a0 None); auto.
    left. by apply GetChannel_some.
  - destruct (me_equals (h_trk s) nk) eqn:Em; simpl; [|done].
    apply me_equals_name in Em.
    rewrite !(arg_ok _ _ _ _ _ E0).
    set (s1 := tr_ s (fun t => sp_NewChannel t a0)).
    assert (I1 : inv_ex None (Some a0) (h_trk s1)) by (simpl; by apply NewChannel_inv).
    assert (M : ts_me (h_trk s1) = ts_me (h_trk s) /\ ts_nicks (h_trk s1) = ts_nicks (h_trk s)).
    { simpl. unfold sp_NewChannel. destruct a0; [done|]. by destruct (ts_chans (h_trk s) !! _). }
    destruct M as [M1 M2].
    apply (join_nick_pres l _ a0 (Some a0)); auto.
    + right. change (is_Some (ts_nicks (h_trk s1) !! Line.l_nick l)). rewrite M2, Em. apply I.
    + right. split; [done|]. change (Line.l_nick l = ts_me (h_trk s1)). by rewrite M1.
    + change (is_some nk = true -> is_Some (ts_nicks (h_trk s1) !! Line.l_nick l)). rewrite M2. exact Hnk.
Qed.

(* ---------- every handler, every line, any ToLower ---------- *)
Lemma sth_run_pres h : hpres (sth_run h).
Proof.
  destruct h; simpl;
    [apply h_JOIN_pres|apply h_KICK_pres|apply h_MODE_pres|apply h_STNICK_pres|apply h_PART_pres
    |apply h_QUIT_pres|apply h_TOPIC_pres|apply h_311_pres|apply h_324_pres|apply h_332_pres
    |apply h_352_pres|apply h_353_pres|apply h_671_pres].
Qed.

Theorem handle_state_rob lower_fn t l :
  rob_inv t -> rob_inv (h_trk (hres_st (handle_state_with lower_fn t l))).
Proof.
  intros I. unfold handle_state_with. destruct (find_sth lower_fn (Line.l_cmd l)); [|done].
  by apply sth_run_pres.
Qed.

Lemma rob_inv_sp_inv t : rob_inv t -> sp_inv t.
Proof. by intros [? _]. Qed.

Lemma rob_inv_view0 me a :
  rob_inv {| ts_me := me; ts_nicks := {[ me := a ]}; ts_chans := ∅; ts_member := ∅ |}.
Proof.
  split; [split|split]; simpl.
  - rewrite lookup_singleton; eauto.
  - intros c n [p H]. by rewrite lookup_empty in H.
  - intros c [x H]. simpl in H. by rewrite lookup_empty in H.
  - intros n [x H]. simpl in H. left. destruct (decide (me = n)) as [->|N]; [done|].
    by rewrite lookup_singleton_ne in H.
Qed.

(* sequences of arbitrary lines; of arbitrary byte strings through recv's Trim + ParseLine *)
Theorem run_lines_rob ls : forall t, rob_inv t -> rob_inv (run_lines t ls).
Proof.
  induction ls as [|l r IH]; intros t I; [done|]. simpl. apply IH. by apply handle_state_rob.
Qed.
Theorem run_raw_rob raws : forall t, rob_inv t -> rob_inv (run_raw t raws).
Proof.
  induction raws as [|x r IH]; intros t I; [done|]. simpl. apply IH. unfold step_raw.
  destruct (Line.recv_one x) as [[l|]|]; [|done|done]. by apply handle_state_rob.
Qed.
