(* Proofs/GenEqDial.v — stage 6 (d): the address that internalConnect dials.  Gen/GoFuncs.v holds the
   Gallina TRANSLATION of ONE statement of Conn.internalConnect (client/connection.go), the
   top-level if-statement whose condition calls hasPort — the rest of that function (dialling, TLS,
   goroutines) is outside the translated subset.  Its inputs are the fields it reads (cfg.SSL,
   cfg.Server), its result the field it writes (cfg.Server); net.JoinHostPort is a variable.
   Instantiated with the model's join_host_port it is Register.dial_addr. *)
From Verif Require Import GoBytes LineLib GoFuncs Register GenEqTac GenEqNick.
Open Scope Z_scope.

Lemma go_internalConnect_addr_eq c :
  go_client_Conn_internalConnect_if_hasPort join_host_port (rc_ssl c) (rc_server c) = Ok (dial_addr c).
Proof.
  unfold go_client_Conn_internalConnect_if_hasPort, dial_addr. rewrite go_hasPort_eq. cbn [bind].
  destruct (has_port (rc_server c)); cbn [negb]; [reflexivity|].
  destruct (rc_ssl c); reflexivity.
Qed.
