(* Proofs/CapsProofs.v — C19: capability negotiation and SASL (Model/Caps.v).
   Part 1: closed forms of every handler (and: when exactly a handler panics).
   Part 2: splitArgs is lossless, order-preserving and bounded.
   Part 3: the four clauses of C19 and [C19_ok] on every event history. *)
From Coq Require Import Permutation.
From Verif Require Import GoBytes GoBytesFacts Split SplitProofs Commands CommandsProofs
  CapsLib CapsLibFacts Base64 Caps.
Open Scope Z_scope.

(* ================= Part 1: closed forms ================= *)

(* capSet.Add never panics: the slice [cap[1:]] is guarded by HasPrefix(cap, "-") *)
Definition add_pure (c : cap_set) (caps : list bytes) : cap_set :=
  fold_left (fun m t => km_set m (tok_name t) (tok_on t)) caps c.

Lemma cap_add1_ok c cap : cap_add1 c cap = Ok (km_set c (tok_name cap) (tok_on cap)).
Proof.
  unfold cap_add1, tok_name, tok_on. destruct (has_prefix cap s_dash) eqn:E; [|reflexivity].
  destruct cap as [|x cap]; [discriminate|].
  unfold slice_from. replace ((0 <=? 1) && (1 <=? len (x :: cap))) with true.
  - reflexivity.
  - rewrite len_cons. pose proof (len_nonneg cap). lia.
Qed.

Lemma cap_add_ok caps : forall c, cap_add c caps = Ok (add_pure c caps).
Proof.
  induction caps as [|cap caps IH]; intros c; simpl; [reflexivity|].
  rewrite cap_add1_ok. simpl. apply IH.
Qed.

Lemma add_pure_app c l1 l2 : add_pure c (l1 ++ l2) = add_pure (add_pure c l1) l2.
Proof. unfold add_pure. apply fold_left_app. Qed.

Lemma cap_has_set m k v x : cap_has (km_set m k v) x = if beq x k then v else cap_has m x.
Proof. unfold cap_has. rewrite km_get_set. destruct (beq x k); reflexivity. Qed.

(* Has after Add: the last token mentioning the name decides *)
Lemma cap_has_add caps : forall c x,
  cap_has (add_pure c caps) x = last_mention_from (cap_has c x) caps x.
Proof.
  induction caps as [|t caps IH]; intros c x; [reflexivity|].
  unfold add_pure, last_mention_from in *. simpl. rewrite IH. f_equal.
  rewrite cap_has_set. now rewrite beq_sym.
Qed.

Lemma last_mention_app init l1 l2 c :
  last_mention_from init (l1 ++ l2) c = last_mention_from (last_mention_from init l1 c) l2 c.
Proof. unfold last_mention_from. apply fold_left_app. Qed.

Lemma add_pure_sorted caps : forall c, ssorted (km_keys c) -> ssorted (km_keys (add_pure c caps)).
Proof.
  induction caps as [|t caps IH]; intros c Hc; [exact Hc|].
  unfold add_pure in *. simpl. apply IH. apply km_keys_set_sorted, Hc.
Qed.

Lemma add_pure_keys_in caps : forall c x,
  In x (km_keys (add_pure c caps)) <-> In x (map tok_name caps) \/ In x (km_keys c).
Proof.
  induction caps as [|t caps IH]; intros c x; [simpl; tauto|].
  unfold add_pure in *. simpl. rewrite IH, km_keys_set_in. intuition congruence.
Qed.

(* ---------- the lines ---------- *)
Lemma emit_cap_end : emit to_upper MCap cmd_cfg0 [s_END] = Ok [line_cap_end].
Proof. reflexivity. Qed.

Lemma emit_auth x : emit to_upper MAuthenticate cmd_cfg0 [x] = Ok [line_auth x].
Proof. reflexivity. Qed.

Definition req_budget : Z := 441.     (* defaultSplit - len("CAP REQ :") *)

Definition req_lines (req : list bytes) : list bytes :=
  map (fun x => cut_newlines (pre_cap_req ++ x)) (split_args req req_budget).

Lemma emit_cap_req a req :
  emit to_upper MCap cmd_cfg0 (s_REQ :: a :: req) = Ok (req_lines (a :: req)).
Proof. reflexivity. Qed.

(* ---------- getRequestCapabilities / negotiateCapabilities ---------- *)
Definition want_set (cfg : caps_cfg) : cap_set := add_pure km_empty (wanted_all cfg).

Lemma request_caps_ok cfg : request_caps cfg = Ok (want_set cfg).
Proof.
  unfold request_caps, want_set, wanted_all. simpl.
  destruct (cf_sasl cfg); simpl; rewrite cap_add_ok; reflexivity.
Qed.

Lemma want_set_sorted cfg : ssorted (km_keys (want_set cfg)).
Proof. apply add_pure_sorted. exact I. Qed.

(* the list handed to Cap(CAP_REQ, ...) *)
Definition req_list (cfg : caps_cfg) (sup : cap_set) : list bytes :=
  filter (cap_has sup) (km_keys (want_set cfg)).

Lemma req_list_sorted cfg sup : ssorted (req_list cfg sup).
Proof. apply ssorted_filter, want_set_sorted. Qed.

Definition negotiate_lines (cfg : caps_cfg) (sup : cap_set) : list bytes :=
  match req_list cfg sup with
  | [] => [line_cap_end]
  | r => req_lines r
  end.

Lemma negotiate_ok cfg st caps :
  negotiate cfg st caps =
  Ok (set_supported st (add_pure (cs_supported st) caps),
      negotiate_lines cfg (add_pure (cs_supported st) caps)).
Proof.
  unfold negotiate. rewrite cap_add_ok. cbn [bind]. rewrite request_caps_ok. cbn [bind].
  set (sup := add_pure (cs_supported st) caps).
  assert (Hk : km_keys (cap_intersect (want_set cfg) sup) = req_list cfg sup)
    by (unfold cap_intersect; apply km_keys_filter).
  assert (Hs : cap_slice (cap_intersect (want_set cfg) sup) = req_list cfg sup).
  { unfold cap_slice. rewrite Hk. apply isort_sorted_id, req_list_sorted. }
  assert (Hn : (cap_size (cap_intersect (want_set cfg) sup) >? 0)
               = match req_list cfg sup with [] => false | _ => true end).
  { unfold cap_size. rewrite km_size_pos. rewrite <- Hk.
    destruct (cap_intersect (want_set cfg) sup); reflexivity. }
  rewrite Hs, Hn. unfold negotiate_lines.
  destruct (req_list cfg sup) as [|a r]; [rewrite emit_cap_end|rewrite emit_cap_req]; reflexivity.
Qed.

(* ---------- handleCapAck ---------- *)
Definition n_sasl (caps : list bytes) : nat := length (filter (fun c => beq c s_sasl) caps).

Lemma n_sasl_mem caps : mem_bytes s_sasl caps = negb (Nat.eqb (n_sasl caps) 0).
Proof.
  unfold mem_bytes, n_sasl. induction caps as [|c caps IH]; [reflexivity|]. cbn [existsb filter].
  rewrite (beq_sym s_sasl c). destruct (beq c s_sasl); cbn [orb length Nat.eqb negb]; [reflexivity|exact IH].
Qed.

Definition mk_state (sup cur : cap_set) (rem : option bytes) : cstate :=
  {| cs_supported := sup; cs_current := cur; cs_remaining := rem |}.

Lemma ack_step_cur cfg st out got cap :
  exists rem out' got',
    ack_step cfg (st, out, got) cap
    = Ok (mk_state (cs_supported st) (add_pure (cs_current st) [cap]) rem, out', got').
Proof.
  unfold ack_step. rewrite cap_add_ok. cbn [bind].
  destruct (cf_sasl cfg) as [cl|]; [|repeat eexists].
  destruct (beq cap s_sasl); [|repeat eexists].
  destruct (sc_start cl) as [[mech ir]|]; [|repeat eexists].
  rewrite emit_auth. cbn [bind]. repeat eexists.
Qed.

(* no Start succeeds: the loop only records the acknowledgements *)
Lemma ack_loop_nostart cfg caps :
  match cf_sasl cfg with Some cl => sc_start cl = None | None => True end ->
  forall st out got,
    ack_loop cfg (st, out, got) caps
    = Ok (mk_state (cs_supported st) (add_pure (cs_current st) caps) (cs_remaining st), out, got).
Proof.
  intros Hn. induction caps as [|cap caps IH]; intros st out got.
  - destruct st; reflexivity.
  - cbn [ack_loop]. unfold ack_step. rewrite cap_add_ok. cbn [bind].
    destruct (cf_sasl cfg) as [cl|].
    + rewrite Hn. destruct (beq cap s_sasl); cbn [bind]; rewrite IH; reflexivity.
    + cbn [bind]. rewrite IH. reflexivity.
Qed.

(* Start succeeds with (mech, ir): one AUTHENTICATE <mech> per occurrence of "sasl" *)
Lemma ack_loop_start cfg cl mech ir caps :
  cf_sasl cfg = Some cl -> sc_start cl = Some (mech, ir) ->
  forall st out got,
    ack_loop cfg (st, out, got) caps
    = Ok (mk_state (cs_supported st) (add_pure (cs_current st) caps)
                   (if Nat.eqb (n_sasl caps) 0 then cs_remaining st else ir),
          out ++ repeat (line_auth mech) (n_sasl caps),
          got || negb (Nat.eqb (n_sasl caps) 0)).
Proof.
  intros Hc Hs. induction caps as [|cap caps IH]; intros st out got.
  - destruct st. cbn. now rewrite app_nil_r, orb_false_r.
  - cbn [ack_loop]. unfold ack_step. rewrite cap_add_ok. cbn [bind]. rewrite Hc.
    unfold n_sasl. cbn [filter]. destruct (beq cap s_sasl) eqn:E.
    + rewrite Hs. rewrite emit_auth. cbn [bind]. rewrite IH. cbn [length Nat.eqb negb].
      fold (n_sasl caps). cbn [set_remaining set_current cs_supported cs_current cs_remaining].
      rewrite orb_true_r. cbn [orb repeat]. rewrite <- app_assoc. cbn [app].
      replace (if Nat.eqb (n_sasl caps) 0 then ir else ir) with ir
        by (destruct (Nat.eqb (n_sasl caps) 0); reflexivity).
      reflexivity.
    + cbn [bind]. rewrite IH. reflexivity.
Qed.

Definition ack_result (cfg : caps_cfg) (st : cstate) (caps : list bytes) : cstate * list bytes :=
  let cur := add_pure (cs_current st) caps in
  match ack_starts cfg caps with
  | Some (mech, ir) => (mk_state (cs_supported st) cur ir, repeat (line_auth mech) (n_sasl caps))
  | None => (mk_state (cs_supported st) cur (cs_remaining st), [line_cap_end])
  end.

Lemma handle_ack_ok cfg st caps : handle_ack cfg st caps = Ok (ack_result cfg st caps).
Proof.
  unfold handle_ack, ack_result, ack_starts.
  destruct (cf_sasl cfg) as [cl|] eqn:Hc.
  - destruct (sc_start cl) as [[mech ir]|] eqn:Hs.
    + rewrite (ack_loop_start cfg cl mech ir caps Hc Hs). cbn [bind orb].
      rewrite n_sasl_mem. destruct (Nat.eqb (n_sasl caps) 0) eqn:E; cbn [negb].
      * apply Nat.eqb_eq in E. rewrite E. cbn [repeat app]. rewrite emit_cap_end. reflexivity.
      * reflexivity.
    + rewrite ack_loop_nostart by (rewrite Hc; exact Hs). cbn [bind].
      rewrite emit_cap_end. cbn [bind app]. destruct (mem_bytes s_sasl caps); reflexivity.
  - rewrite ack_loop_nostart by (rewrite Hc; exact I). cbn [bind].
    rewrite emit_cap_end. reflexivity.
Qed.

(* ---------- one dispatched line, by kind of event ---------- *)
Section Steps.
  Variable flds : bytes -> list bytes.

  Lemma elem_at_1 {A} (a b : A) r : elem_at (a :: b :: r) 1 = Ok b.
  Proof.
    unfold elem_at. replace ((0 <=? 1) && (1 <? Z.of_nat (length (a :: b :: r)))) with true.
    - reflexivity.
    - cbn [length]. lia.
  Qed.

  Lemma elem_at_short {A} (l : list A) : (length l < 2)%nat -> elem_at l 1 = Panic.
  Proof.
    intros H. unfold elem_at. replace ((0 <=? 1) && (1 <? Z.of_nat (length l))) with false; [reflexivity|]. lia.
  Qed.

  Lemma is_cap_inv e sub :
    is_cap e sub = true -> ev_cmd e = s_CAP /\ exists a r, ev_args e = a :: sub :: r.
  Proof.
    unfold is_cap, cap_sub. destruct (beq (ev_cmd e) s_CAP) eqn:E; [|discriminate].
    apply beq_eq in E. destruct (ev_args e) as [|a [|s r]]; try discriminate.
    intros H. apply beq_eq in H. subst. split; [exact E|]. eauto.
  Qed.

  Lemma step_ls cfg st e : is_cap e s_LS = true ->
    step flds cfg st e
    = (set_supported st (add_pure (cs_supported st) (flds (ev_text e))),
       negotiate_lines cfg (add_pure (cs_supported st) (flds (ev_text e)))).
  Proof.
    intros H. apply is_cap_inv in H as [Hc [a [r Ha]]].
    unfold step, handle. rewrite Hc. cbn [beq N.eqb Pos.eqb andb]. unfold h_CAP. rewrite Ha, elem_at_1.
    cbn [bind]. cbn [beq s_LS N.eqb Pos.eqb andb]. rewrite negotiate_ok. reflexivity.
  Qed.

  Lemma step_ack cfg st e : is_cap e s_ACK = true ->
    step flds cfg st e = ack_result cfg st (flds (ev_text e)).
  Proof.
    intros H. apply is_cap_inv in H as [Hc [a [r Ha]]].
    unfold step, handle. rewrite Hc. cbn [beq N.eqb Pos.eqb andb]. unfold h_CAP. rewrite Ha, elem_at_1.
    cbn [bind]. cbn [beq s_ACK s_LS N.eqb Pos.eqb andb]. rewrite handle_ack_ok. reflexivity.
  Qed.

  Lemma step_nak cfg st e : is_cap e s_NAK = true -> step flds cfg st e = (st, [line_cap_end]).
  Proof.
    intros H. apply is_cap_inv in H as [Hc [a [r Ha]]].
    unfold step, handle. rewrite Hc. cbn [beq N.eqb Pos.eqb andb]. unfold h_CAP. rewrite Ha, elem_at_1.
    reflexivity.
  Qed.

  Lemma step_outcome cfg st e : is_sasl_outcome e = true -> step flds cfg st e = (st, [line_cap_end]).
  Proof.
    unfold is_sasl_outcome. intros H. unfold step, handle.
    destruct (beq (ev_cmd e) s_903) eqn:E3.
    { apply beq_eq in E3. rewrite E3. reflexivity. }
    destruct (beq (ev_cmd e) s_904) eqn:E4.
    { apply beq_eq in E4. rewrite E4. reflexivity. }
    cbn [orb] in H. apply andb_true_iff in H as [E8 Hl]. apply beq_eq in E8. rewrite E8.
    cbn [beq N.eqb Pos.eqb andb]. unfold h_908.
    destruct (ev_args e) as [|a [|b r]]; cbn [length] in Hl; try lia.
    rewrite elem_at_1. reflexivity.
  Qed.

  (* h_AUTHENTICATE in closed form *)
  Definition auth_result (cfg : caps_cfg) (st : cstate) (e : event) : cstate * list bytes :=
    match cf_sasl cfg with
    | None => (st, [])
    | Some cl =>
        match cs_remaining st with
        | Some rem => (set_remaining st None, [line_auth (sasl_payload rem)])
        | None =>
            match ev_args e with
            | [] => (st, [])                                    (* line.Args[0] panics *)
            | a0 :: _ =>
                match b64_decode a0 with
                | None => (st, [])
                | Some ch => match sc_next cl ch with
                             | None => (st, [])
                             | Some resp => (st, [line_auth (b64_encode resp)])
                             end
                end
            end
        end
    end.

  Lemma step_auth cfg st e : ev_cmd e = s_AUTHENTICATE -> step flds cfg st e = auth_result cfg st e.
  Proof.
    intros Hc. unfold step, handle. rewrite Hc. cbn [beq N.eqb Pos.eqb andb].
    unfold h_AUTHENTICATE, auth_result. destruct (cf_sasl cfg) as [cl|]; [|reflexivity].
    destruct (cs_remaining st) as [rem|].
    - rewrite emit_auth. reflexivity.
    - destruct (ev_args e) as [|a0 r]; [reflexivity|].
      replace (elem_at (a0 :: r) 0) with (Ok a0).
      + cbn [bind]. destruct (b64_decode a0) as [ch|]; [|reflexivity].
        destruct (sc_next cl ch) as [resp|]; [|reflexivity]. rewrite emit_auth. reflexivity.
      + unfold elem_at. replace ((0 <=? 0) && (0 <? Z.of_nat (length (a0 :: r)))) with true; [reflexivity|].
        cbn [length]. lia.
  Qed.

  (* every other event: nothing is sent, nothing changes *)
  Lemma step_other cfg st e :
    is_cap e s_LS = false -> is_cap e s_ACK = false -> is_cap e s_NAK = false ->
    is_sasl_outcome e = false -> beq (ev_cmd e) s_AUTHENTICATE = false ->
    step flds cfg st e = (st, []).
  Proof.
    intros H1 H2 H3 H4 H5. unfold step, handle. rewrite H5.
    destruct (beq (ev_cmd e) s_CAP) eqn:Ec.
    { unfold is_cap, cap_sub in H1, H2, H3. rewrite Ec in H1, H2, H3. unfold h_CAP.
      destruct (ev_args e) as [|a [|sub r]].
      - rewrite elem_at_short by (cbn; lia). reflexivity.
      - rewrite elem_at_short by (cbn; lia). reflexivity.
      - rewrite elem_at_1. cbn [bind]. rewrite H1, H2, H3. reflexivity. }
    destruct (beq (ev_cmd e) s_410) eqn:E410.
    { unfold h_410. destruct (elem_at (ev_args e) 1); reflexivity. }
    unfold is_sasl_outcome in H4.
    destruct (beq (ev_cmd e) s_903); [discriminate|].
    destruct (beq (ev_cmd e) s_904); [discriminate|].
    destruct (beq (ev_cmd e) s_908) eqn:E8; [|reflexivity].
    cbn [orb andb] in H4. unfold h_908. rewrite elem_at_short; [reflexivity|]. lia.
  Qed.

  (* when exactly a handler panics (LogPanic recovers; nothing has been sent or assigned) *)
  Theorem handle_panic_iff cfg st e :
    handle flds cfg st e = Panic <->
    ((beq (ev_cmd e) s_CAP || beq (ev_cmd e) s_410 || beq (ev_cmd e) s_908) = true
     /\ (length (ev_args e) < 2)%nat)
    \/ (ev_cmd e = s_AUTHENTICATE /\ cf_sasl cfg <> None /\ cs_remaining st = None /\ ev_args e = []).
  Proof.
    unfold handle.
    destruct (beq (ev_cmd e) s_CAP) eqn:Ec.
    { apply beq_eq in Ec. cbn [orb]. unfold h_CAP. destruct (ev_args e) as [|a [|sub r]].
      - rewrite elem_at_short by (cbn; lia). cbn. split; [left; split; [reflexivity|lia]|reflexivity].
      - rewrite elem_at_short by (cbn; lia). cbn. split; [left; split; [reflexivity|lia]|reflexivity].
      - rewrite elem_at_1. cbn [bind]. rewrite negotiate_ok, handle_ack_ok. unfold handle_nak.
        rewrite emit_cap_end. cbn [bind length].
        split.
        + destruct (beq sub s_LS), (beq sub s_ACK), (beq sub s_NAK); discriminate.
        + intros [[_ H]|[H _]]; [lia|]. rewrite Ec in H. discriminate. }
    destruct (beq (ev_cmd e) s_410) eqn:E410.
    { apply beq_eq in E410. cbn [orb]. unfold h_410. destruct (ev_args e) as [|a [|sub r]].
      - rewrite elem_at_short by (cbn; lia). cbn. split; [left; split; [reflexivity|lia]|reflexivity].
      - rewrite elem_at_short by (cbn; lia). cbn. split; [left; split; [reflexivity|lia]|reflexivity].
      - rewrite elem_at_1. cbn [bind length]. split; [discriminate|].
        intros [[_ H]|[H _]]; [lia|]. rewrite E410 in H. discriminate. }
    destruct (beq (ev_cmd e) s_AUTHENTICATE) eqn:Ea.
    { apply beq_eq in Ea. pose proof (step_auth cfg st e Ea) as Hs. unfold step, handle in Hs.
      rewrite Ec, E410 in Hs. rewrite Ea in Hs. cbn [beq N.eqb Pos.eqb andb] in Hs.
      rewrite Ea. cbn [beq N.eqb Pos.eqb andb orb]. split.
      - intros Hp. right. split; [reflexivity|]. unfold h_AUTHENTICATE in Hp.
        destruct (cf_sasl cfg) as [cl|]; [|discriminate]. split; [discriminate|].
        destruct (cs_remaining st) as [rem|]; [rewrite emit_auth in Hp; discriminate|]. split; [reflexivity|].
        destruct (ev_args e) as [|a0 r]; [reflexivity|]. exfalso.
        replace (elem_at (a0 :: r) 0) with (Ok a0) in Hp.
        + cbn [bind] in Hp. destruct (b64_decode a0) as [ch|]; [|discriminate].
          destruct (sc_next cl ch); [rewrite emit_auth in Hp|]; discriminate.
        + unfold elem_at. replace ((0 <=? 0) && (0 <? Z.of_nat (length (a0 :: r)))) with true; [reflexivity|].
          cbn [length]. lia.
      - intros [[H _]|[_ [Hs1 [Hs2 Hs3]]]]; [discriminate|]. unfold h_AUTHENTICATE.
        destruct (cf_sasl cfg); [|congruence]. rewrite Hs2, Hs3. reflexivity. }
    destruct (beq (ev_cmd e) s_903) eqn:E3.
    { apply beq_eq in E3. rewrite E3. cbn. split; [discriminate|]. intros [[H _]|[H _]]; discriminate. }
    destruct (beq (ev_cmd e) s_904) eqn:E4.
    { apply beq_eq in E4. rewrite E4. cbn. split; [discriminate|]. intros [[H _]|[H _]]; discriminate. }
    destruct (beq (ev_cmd e) s_908) eqn:E8.
    { cbn [orb]. unfold h_908. destruct (ev_args e) as [|a [|sub r]].
      - rewrite elem_at_short by (cbn; lia). cbn. split; [left; split; [reflexivity|lia]|reflexivity].
      - rewrite elem_at_short by (cbn; lia). cbn. split; [left; split; [reflexivity|lia]|reflexivity].
      - rewrite elem_at_1. cbn [bind length]. split; [discriminate|].
        intros [[_ H]|[H _]]; [lia|]. rewrite H in Ea. discriminate. }
    cbn [orb]. split; [discriminate|]. intros [[H _]|[H _]]; [discriminate|].
    rewrite H in Ea. discriminate.
  Qed.
End Steps.

(* ================= Part 2: splitArgs ================= *)
(* [chunks] describes the result of splitArgs(args, maxLen): the arguments are cut, in order
   and without loss, into consecutive non-empty groups; each group is sent as its words joined
   by one space; a group of more than one word is shorter than maxLen *)
Definition glue (cur : bytes) (taken : list bytes) : bytes :=
  cur ++ concat (map (fun a => sp :: a) taken).

Lemma glue_join a taken : glue a taken = join (a :: taken) [sp].
Proof.
  unfold glue. revert a; induction taken as [|t ts IH]; intros a; cbn [map concat].
  - cbn. apply app_nil_r.
  - change (join (a :: t :: ts) [sp]) with (a ++ [sp] ++ join (t :: ts) [sp]).
    rewrite <- IH. reflexivity.
Qed.

Lemma split_args_inner_spec maxlen args : forall cur cur' rest,
  split_args_inner cur args maxlen = (cur', rest) ->
  exists taken, args = taken ++ rest /\ cur' = glue cur taken
                /\ (taken = [] \/ len cur' < maxlen).
Proof.
  induction args as [|a args IH]; intros cur cur' rest H; cbn [split_args_inner] in H.
  - inversion H; subst. exists []. unfold glue. cbn. rewrite app_nil_r. auto.
  - destruct (len cur + len a + 1 <? maxlen) eqn:E.
    + apply IH in H as [taken [H1 [H2 H3]]]. exists (a :: taken). split; [cbn; now rewrite H1|].
      split.
      * rewrite H2. unfold glue. cbn [map concat]. rewrite <- app_assoc. reflexivity.
      * right. destruct H3 as [->|H3]; [|exact H3]. rewrite H2. unfold glue. cbn.
        rewrite app_nil_r, len_app. cbn [app]. rewrite len_cons. lia.
    + inversion H; subst. exists []. unfold glue. cbn. rewrite app_nil_r. auto.
Qed.

Definition group_ok (maxlen : Z) (g : list bytes) : Prop :=
  g <> [] /\ (length g = 1%nat \/ len (join g [sp]) < maxlen).

Lemma split_args_fuel_spec maxlen fuel : forall args, (length args <= fuel)%nat ->
  exists groups, split_args_fuel fuel args maxlen = map (fun g => join g [sp]) groups
                 /\ concat groups = args /\ Forall (group_ok maxlen) groups.
Proof.
  induction fuel as [|fuel IH]; intros args Hf.
  - destruct args; [|cbn in Hf; lia]. exists []. cbn. auto.
  - destruct args as [|a args]; [exists []; cbn; auto|].
    cbn [split_args_fuel]. destruct (split_args_inner a args maxlen) as [cur rest] eqn:E.
    apply split_args_inner_spec in E as [taken [H1 [H2 H3]]].
    destruct (IH rest) as [groups [G1 [G2 G3]]].
    { subst args. cbn in Hf. rewrite app_length in Hf. lia. }
    exists ((a :: taken) :: groups). split; [|split].
    + cbn [map]. rewrite G1, H2, glue_join. reflexivity.
    + cbn [concat]. rewrite G2, H1. reflexivity.
    + constructor; [|exact G3]. split; [discriminate|].
      destruct H3 as [->|H3]; [left; reflexivity|right]. rewrite <- glue_join, <- H2. exact H3.
Qed.

Theorem split_args_spec args maxlen :
  exists groups, split_args args maxlen = map (fun g => join g [sp]) groups
                 /\ concat groups = args /\ Forall (group_ok maxlen) groups.
Proof. apply split_args_fuel_spec. apply Nat.le_refl. Qed.

(* words without white space, joined by single spaces, are recovered by strings.Fields *)
Definition word (w : bytes) : Prop := w <> [] /\ Forall (fun x => is_space x = false) w.

Lemma good_name_word c : good_name c = true -> word c /\ has_prefix c s_dash = false.
Proof.
  unfold good_name. intros H. apply andb_true_iff in H as [H H3]. apply andb_true_iff in H as [H1 H2].
  split; [split|].
  - intros ->. discriminate.
  - apply Forall_forall. intros x Hx. rewrite forallb_forall in H3. specialize (H3 x Hx).
    now destruct (is_space x).
  - now destruct (has_prefix c s_dash).
Qed.

Lemma fields_aux_word w : forall cur rest, Forall (fun x => is_space x = false) w ->
  fields_aux (w ++ rest) cur = fields_aux rest (rev w ++ cur).
Proof.
  induction w as [|x w IH]; intros cur rest H; [reflexivity|].
  inversion H as [|? ? Hx Hw]; subst. cbn [app fields_aux]. rewrite Hx. rewrite IH by exact Hw.
  cbn [rev]. rewrite <- app_assoc. reflexivity.
Qed.

Lemma fields_join ws : Forall word ws -> fields (join ws [sp]) = ws.
Proof.
  unfold fields. induction ws as [|w ws IH]; intros H; [reflexivity|].
  inversion H as [|? ? [Hne Hw] Hws]; subst.
  assert (Hr : rev w <> []).
  { intros E. apply Hne. rewrite <- (rev_involutive w), E. reflexivity. }
  destruct ws as [|w2 ws].
  - cbn [join]. rewrite <- (app_nil_r w) at 1. rewrite fields_aux_word by exact Hw.
    cbn [fields_aux]. rewrite app_nil_r. destruct (rev w) eqn:E; [congruence|].
    rewrite <- E, rev_involutive. reflexivity.
  - cbn [join]. rewrite fields_aux_word by exact Hw. rewrite app_nil_r.
    cbn [app fields_aux]. replace (is_space sp) with true by reflexivity.
    destruct (rev w) eqn:E; [congruence|]. rewrite <- E, rev_involutive.
    f_equal. apply IH. exact Hws.
Qed.

Lemma word_clean w : word w -> clean w.
Proof.
  intros [_ H]. unfold clean. eapply Forall_impl; [|exact H]. intros x Hx. cbn beta in *.
  unfold is_nl. destruct (N.eqb x 13) eqn:E1; [apply N.eqb_eq in E1; subst; discriminate|].
  destruct (N.eqb x 10) eqn:E2; [apply N.eqb_eq in E2; subst; discriminate|]. reflexivity.
Qed.

Lemma join_words_clean ws : Forall word ws -> clean (join ws [sp]).
Proof.
  induction ws as [|w ws IH]; intros H; [constructor|].
  inversion H as [|? ? Hw Hws]; subst. destruct ws as [|w2 ws]; [exact (word_clean _ Hw)|].
  cbn [join]. apply clean_app; [exact (word_clean _ Hw)|]. apply clean_app; [|exact (IH Hws)].
  repeat constructor.
Qed.

(* ================= Part 3: the clauses of C19 ================= *)

(* ---------- what the lines look like ---------- *)
Lemma clean_pre_auth : clean pre_auth.
Proof. repeat constructor. Qed.
Lemma clean_pre_cap_req : clean pre_cap_req.
Proof. repeat constructor. Qed.

Lemma line_auth_shape x : line_auth x = pre_auth ++ cut_nl x.
Proof. unfold line_auth. rewrite cut_newlines_cut_nl. apply cut_nl_app, clean_pre_auth. Qed.

Lemma req_line_shape x : cut_newlines (pre_cap_req ++ x) = pre_cap_req ++ cut_nl x.
Proof. rewrite cut_newlines_cut_nl. apply cut_nl_app, clean_pre_cap_req. Qed.

Lemma line_auth_is_auth x : has_prefix (line_auth x) pre_auth = true.
Proof. rewrite line_auth_shape. apply has_prefix_app. Qed.
Lemma line_auth_not_req x : has_prefix (line_auth x) pre_cap_req = false.
Proof. rewrite line_auth_shape. reflexivity. Qed.
Lemma line_auth_not_end x : beq line_cap_end (line_auth x) = false.
Proof. rewrite line_auth_shape. reflexivity. Qed.
Lemma req_line_not_auth x : has_prefix (cut_newlines (pre_cap_req ++ x)) pre_auth = false.
Proof. rewrite req_line_shape. reflexivity. Qed.
Lemma req_line_is_req x : has_prefix (cut_newlines (pre_cap_req ++ x)) pre_cap_req = true.
Proof. rewrite req_line_shape. apply has_prefix_app. Qed.
Lemma req_line_not_end x : beq line_cap_end (cut_newlines (pre_cap_req ++ x)) = false.
Proof. rewrite req_line_shape. reflexivity. Qed.

Lemma auth_lines_repeat l n : has_prefix l pre_auth = true -> auth_lines (repeat l n) = repeat l n.
Proof. intros H. unfold auth_lines. induction n as [|n IH]; cbn [repeat filter]; [reflexivity|]. now rewrite H, IH. Qed.
Lemma has_req_repeat l n : has_prefix l pre_cap_req = false -> has_req (repeat l n) = false.
Proof. intros H. unfold has_req. induction n as [|n IH]; cbn [repeat existsb]; [reflexivity|]. now rewrite H, IH. Qed.
Lemma has_end_repeat l n : beq line_cap_end l = false -> has_end (repeat l n) = false.
Proof. intros H. unfold has_end. induction n as [|n IH]; cbn [repeat existsb]; [reflexivity|]. now rewrite H, IH. Qed.
Lemma forallb_repeat l n : forallb (beq l) (repeat l n) = true.
Proof. induction n as [|n IH]; cbn [repeat forallb]; [reflexivity|]. now rewrite beq_refl, IH. Qed.

Lemma auth_lines_req_lines req : auth_lines (req_lines req) = [].
Proof.
  unfold req_lines, auth_lines. induction (split_args req req_budget) as [|x l IH]; [reflexivity|].
  cbn [map filter]. now rewrite req_line_not_auth.
Qed.
Lemma has_end_req_lines req : has_end (req_lines req) = false.
Proof.
  unfold req_lines, has_end. induction (split_args req req_budget) as [|x l IH]; [reflexivity|].
  cbn [map existsb]. now rewrite req_line_not_end.
Qed.

Lemma Forall_concat_inv {A} (P : A -> Prop) (ls : list (list A)) :
  Forall P (concat ls) -> Forall (Forall P) ls.
Proof.
  induction ls as [|l ls IH]; cbn [concat]; intros H; [constructor|].
  apply Forall_app in H as [H1 H2]. constructor; auto.
Qed.

(* the REQ lines carry exactly the requested names, in order *)
Lemma req_tokens_groups groups : Forall (Forall word) groups ->
  req_tokens (map (fun x => cut_newlines (pre_cap_req ++ x)) (map (fun g => join g [sp]) groups))
  = concat groups.
Proof.
  unfold req_tokens. induction groups as [|g gs IH]; intros H; [reflexivity|].
  inversion H as [|? ? Hg Hgs]; subst. cbn [map concat]. rewrite IH by exact Hgs. f_equal.
  rewrite req_line_shape, cut_nl_id by (apply join_words_clean, Hg).
  rewrite strip_prefix_app. apply fields_join, Hg.
Qed.

Lemma req_tokens_req_lines req : Forall word req -> req_tokens (req_lines req) = req.
Proof.
  intros H. unfold req_lines. destruct (split_args_spec req req_budget) as [groups [G1 [G2 _]]].
  rewrite G1, req_tokens_groups; [exact G2|]. apply Forall_concat_inv. now rewrite G2.
Qed.

(* ---------- configured names that the property speaks about ---------- *)
Lemma fold_left_ext_in {A B} (f g : A -> B -> A) (l : list B) :
  (forall a b, In b l -> f a b = g a b) -> forall a, fold_left f l a = fold_left g l a.
Proof.
  induction l as [|b l IH]; intros H a; [reflexivity|]. cbn [fold_left].
  rewrite H by (now left). apply IH. intros a' b' Hin. apply H. now right.
Qed.

Lemma wanted_all_good cfg : good_cfg cfg = true -> forall c, In c (wanted_all cfg) -> good_name c = true.
Proof.
  unfold good_cfg, wanted_all. intros H c Hin. rewrite forallb_forall in H.
  apply in_app_or in Hin as [Hin|Hin]; [|auto].
  destruct (cf_sasl cfg); [|contradiction]. destruct Hin as [<-|[]]. reflexivity.
Qed.

Lemma want_keys_good cfg : good_cfg cfg = true -> km_keys (want_set cfg) = sort_dedup (wanted_all cfg).
Proof.
  intros H. unfold want_set, add_pure, sort_dedup. f_equal. apply fold_left_ext_in.
  intros m t Hin. apply (wanted_all_good cfg H) in Hin. apply good_name_word in Hin as [_ Hd].
  unfold tok_name, tok_on. now rewrite Hd.
Qed.

Lemma req_list_words cfg sup : good_cfg cfg = true -> Forall word (req_list cfg sup).
Proof.
  intros H. apply Forall_forall. intros c Hin. unfold req_list in Hin.
  apply filter_In in Hin as [Hin _]. rewrite (want_keys_good cfg H), sort_dedup_in in Hin.
  apply (wanted_all_good cfg H) in Hin. apply good_name_word in Hin. tauto.
Qed.

(* ---------- the checker accepts every step of the model ---------- *)
Section Clauses.
  Variable flds : bytes -> list bytes.

  Definition inv (st : cstate) (g : ghost) : Prop :=
    (forall c, cap_has (cs_supported st) c = last_mention (g_adv g) c)
    /\ (forall c, cap_has (cs_current st) c = last_mention (g_acked g) c)
    /\ cs_remaining st = g_armed g.

  Lemma inv_add (m : cap_set) (toks0 toks : list bytes) :
    (forall c, cap_has m c = last_mention toks0 c) ->
    forall c, cap_has (add_pure m toks) c = last_mention (toks0 ++ toks) c.
  Proof.
    intros H c. rewrite cap_has_add, H. unfold last_mention. now rewrite last_mention_app.
  Qed.

  Lemma step_check cfg st g e : inv st g ->
    fst (ev_check flds cfg g e (snd (step flds cfg st e))) = true
    /\ inv (fst (step flds cfg st e)) (snd (ev_check flds cfg g e (snd (step flds cfg st e)))).
  Proof.
    intros [Hsup [Hcur Hrem]]. unfold ev_check.
    destruct (is_cap e s_LS) eqn:E1.
    { rewrite (step_ls flds cfg st e E1). cbn [fst snd]. unfold ev_tokens.
      set (toks := flds (ev_text e)). set (sup' := add_pure (cs_supported st) toks).
      assert (Hsup' : forall c, cap_has sup' c = last_mention (g_adv g ++ toks) c)
        by (apply inv_add, Hsup).
      split; [|split; [exact Hsup'|split; [exact Hcur|exact Hrem]]].
      assert (Hna : no_auth (negotiate_lines cfg sup') = true).
      { unfold no_auth, negotiate_lines. destruct (req_list cfg sup'); [reflexivity|].
        now rewrite auth_lines_req_lines. }
      rewrite Hna, andb_true_r. destruct (good_cfg cfg) eqn:Hg; [|reflexivity].
      assert (Hex : expected_req cfg (g_adv g ++ toks) = req_list cfg sup').
      { unfold expected_req, req_list. rewrite (want_keys_good cfg Hg). apply filter_ext.
        intros c. symmetry. apply Hsup'. }
      rewrite Hex. unfold negotiate_lines. destruct (req_list cfg sup') as [|a r] eqn:Er; [reflexivity|].
      rewrite req_tokens_req_lines by (rewrite <- Er; apply req_list_words, Hg).
      rewrite sort_dedup_id by (rewrite <- Er; apply req_list_sorted). apply blist_eqb_refl. }
    destruct (is_cap e s_ACK) eqn:E2.
    { rewrite (step_ack flds cfg st e E2). unfold ev_tokens, ack_result.
      set (toks := flds (ev_text e)).
      assert (Hcur' : forall c, cap_has (add_pure (cs_current st) toks) c = last_mention (g_acked g ++ toks) c)
        by (apply inv_add, Hcur).
      destruct (ack_starts cfg toks) as [[mech ir]|] eqn:Es; cbn [fst snd].
      - split; [|split; [exact Hsup|split; [exact Hcur'|reflexivity]]].
        assert (Hn : exists n, n_sasl toks = S n).
        { unfold ack_starts in Es. destruct (cf_sasl cfg); [|discriminate].
          rewrite n_sasl_mem in Es. destruct (n_sasl toks); [discriminate|eauto]. }
        destruct Hn as [n Hn]. rewrite Hn.
        rewrite has_req_repeat by apply line_auth_not_req.
        rewrite has_end_repeat by apply line_auth_not_end.
        rewrite auth_lines_repeat by apply line_auth_is_auth. rewrite forallb_repeat.
        cbn [repeat existsb]. now rewrite beq_refl.
      - split; [reflexivity|]. split; [exact Hsup|split; [exact Hcur'|exact Hrem]]. }
    destruct (is_cap e s_NAK || is_sasl_outcome e) eqn:E3.
    { assert (Hs : step flds cfg st e = (st, [line_cap_end])).
      { apply orb_true_iff in E3 as [E3|E3]; [apply step_nak|apply step_outcome]; exact E3. }
      rewrite Hs. cbn [fst snd]. split; [reflexivity|]. split; [exact Hsup|split; [exact Hcur|exact Hrem]]. }
    apply orb_false_iff in E3 as [E3 E4].
    destruct (beq (ev_cmd e) s_AUTHENTICATE) eqn:E5.
    { apply beq_eq in E5. rewrite (step_auth flds cfg st e E5). unfold auth_result.
      destruct (cf_sasl cfg) as [cl|]; [|cbn [fst snd]; split; [reflexivity|split; [exact Hsup|split; [exact Hcur|exact Hrem]]]].
      assert (Hi : inv st g) by (split; [exact Hsup|split; [exact Hcur|exact Hrem]]).
      rewrite <- Hrem. destruct (cs_remaining st) as [rem|] eqn:Er; cbn [fst snd].
      - unfold auth_lines. cbn [filter]. rewrite line_auth_is_auth. unfold has_req. cbn [existsb].
        rewrite line_auth_not_req. unfold sasl_data_ok. rewrite blist_eqb_refl. split; [reflexivity|].
        split; [exact Hsup|split; [exact Hcur|reflexivity]].
      - destruct (ev_args e) as [|a0 r]; [cbn [fst snd]; split; [reflexivity|exact Hi]|].
        destruct (b64_decode a0) as [ch|]; [|cbn [fst snd]; split; [reflexivity|exact Hi]].
        destruct (sc_next cl ch) as [resp|]; [|cbn [fst snd]; split; [reflexivity|exact Hi]].
        cbn [fst snd]. unfold auth_lines. cbn [filter]. rewrite line_auth_is_auth. unfold has_req. cbn [existsb].
        rewrite line_auth_not_req, beq_refl. split; [reflexivity|exact Hi]. }
    rewrite (step_other flds cfg st e E1 E2 E3 E4 E5). cbn [fst snd].
    split; [reflexivity|]. split; [exact Hsup|split; [exact Hcur|exact Hrem]].
  Qed.

  Lemma walk_run cfg evs : forall st g, inv st g ->
    fst (walk flds cfg g (snd (run flds cfg st evs))) = true
    /\ inv (fst (run flds cfg st evs)) (snd (walk flds cfg g (snd (run flds cfg st evs)))).
  Proof.
    induction evs as [|e evs IH]; intros st g Hi; [cbn; auto|].
    cbn [run]. destruct (step flds cfg st e) as [st1 ls] eqn:Es.
    destruct (run flds cfg st1 evs) as [st2 tr] eqn:Er. cbn [snd fst walk].
    pose proof (step_check cfg st g e Hi) as [Hc Hi1]. rewrite Es in Hc, Hi1. cbn [fst snd] in Hc, Hi1.
    destruct (ev_check flds cfg g e ls) as [ok g1]. cbn [fst snd] in Hc, Hi1. subst ok.
    specialize (IH st1 g1 Hi1). rewrite Er in IH. cbn [fst snd] in IH.
    destruct (walk flds cfg g1 tr) as [ok' g2]. cbn [fst snd] in *. tauto.
  Qed.

  Lemma inv0 : inv cstate0 ghost0.
  Proof. split; [|split]; reflexivity. Qed.

  (* every history of the model is a transcript the property allows *)
  Theorem C19_model_ok cfg evs names :
    C19_ok flds cfg (snd (run flds cfg cstate0 evs))
           (answers_of (fst (run flds cfg cstate0 evs)) names) = true.
  Proof.
    unfold C19_ok. pose proof (walk_run cfg evs cstate0 ghost0 inv0) as [Hw [_ [Hcur _]]].
    destruct (walk flds cfg ghost0 (snd (run flds cfg cstate0 evs))) as [ok g]. cbn [fst snd] in *.
    subst ok. cbn [andb]. unfold answers_of. rewrite forallb_forall. intros a Ha.
    apply in_map_iff in Ha as [c [<- _]]. cbn [a_has a_name]. rewrite Hcur. apply eqb_reflx.
  Qed.
End Clauses.

(* ================= Part 4: the clauses stated explicitly ================= *)
Section Explicit.
  Variable flds : bytes -> list bytes.

  (* the tokens advertised (CAP .. LS) / acknowledged (CAP .. ACK) in a history, in order *)
  Definition tokens_of (sub : bytes) (evs : list event) : list bytes :=
    concat (map (fun e => if is_cap e sub then flds (ev_text e) else []) evs).
  Definition ls_tokens := tokens_of s_LS.
  Definition ack_tokens := tokens_of s_ACK.

  Lemma is_cap_excl e s1 s2 : is_cap e s1 = true -> beq s1 s2 = false -> is_cap e s2 = false.
  Proof.
    unfold is_cap. destruct (cap_sub e) as [s|]; [|discriminate]. intros H1 H2.
    apply beq_eq in H1. now subst.
  Qed.

  Lemma is_cap_not_auth e s : ev_cmd e = s_AUTHENTICATE -> is_cap e s = false.
  Proof. intros H. unfold is_cap, cap_sub. rewrite H. reflexivity. Qed.

  (* what one step does to each field of the state *)
  Lemma step_current cfg st e :
    cs_current (fst (step flds cfg st e))
    = if is_cap e s_ACK then add_pure (cs_current st) (flds (ev_text e)) else cs_current st.
  Proof.
    destruct (is_cap e s_ACK) eqn:E2.
    { rewrite (step_ack flds cfg st e E2). unfold ack_result.
      destruct (ack_starts cfg (flds (ev_text e))) as [[mech ir]|]; reflexivity. }
    destruct (is_cap e s_LS) eqn:E1; [rewrite (step_ls flds cfg st e E1); reflexivity|].
    destruct (is_cap e s_NAK) eqn:E3; [rewrite (step_nak flds cfg st e E3); reflexivity|].
    destruct (is_sasl_outcome e) eqn:E4; [rewrite (step_outcome flds cfg st e E4); reflexivity|].
    destruct (beq (ev_cmd e) s_AUTHENTICATE) eqn:E5.
    { apply beq_eq in E5. rewrite (step_auth flds cfg st e E5). unfold auth_result.
      destruct (cf_sasl cfg) as [cl|]; [|reflexivity]. destruct (cs_remaining st); [reflexivity|].
      destruct (ev_args e) as [|a0 r]; [reflexivity|]. destruct (b64_decode a0) as [ch|]; [|reflexivity].
      destruct (sc_next cl ch); reflexivity. }
    rewrite (step_other flds cfg st e E1 E2 E3 E4 E5). reflexivity.
  Qed.

  Lemma step_supported cfg st e :
    cs_supported (fst (step flds cfg st e))
    = if is_cap e s_LS then add_pure (cs_supported st) (flds (ev_text e)) else cs_supported st.
  Proof.
    destruct (is_cap e s_LS) eqn:E1; [rewrite (step_ls flds cfg st e E1); reflexivity|].
    destruct (is_cap e s_ACK) eqn:E2.
    { rewrite (step_ack flds cfg st e E2). unfold ack_result.
      destruct (ack_starts cfg (flds (ev_text e))) as [[mech ir]|]; reflexivity. }
    destruct (is_cap e s_NAK) eqn:E3; [rewrite (step_nak flds cfg st e E3); reflexivity|].
    destruct (is_sasl_outcome e) eqn:E4; [rewrite (step_outcome flds cfg st e E4); reflexivity|].
    destruct (beq (ev_cmd e) s_AUTHENTICATE) eqn:E5.
    { apply beq_eq in E5. rewrite (step_auth flds cfg st e E5). unfold auth_result.
      destruct (cf_sasl cfg) as [cl|]; [|reflexivity]. destruct (cs_remaining st); [reflexivity|].
      destruct (ev_args e) as [|a0 r]; [reflexivity|]. destruct (b64_decode a0) as [ch|]; [|reflexivity].
      destruct (sc_next cl ch); reflexivity. }
    rewrite (step_other flds cfg st e E1 E2 E3 E4 E5). reflexivity.
  Qed.

  (* the initial response the client still owes, as a function of the event alone *)
  Definition armed_step (cfg : caps_cfg) (rem : option bytes) (e : event) : option bytes :=
    if is_cap e s_ACK then
      match ack_starts cfg (flds (ev_text e)) with Some (_, ir) => ir | None => rem end
    else if beq (ev_cmd e) s_AUTHENTICATE then
      match cf_sasl cfg with Some _ => None | None => rem end
    else rem.

  Lemma step_remaining cfg st e :
    cs_remaining (fst (step flds cfg st e)) = armed_step cfg (cs_remaining st) e.
  Proof.
    unfold armed_step. destruct (is_cap e s_ACK) eqn:E2.
    { rewrite (step_ack flds cfg st e E2). unfold ack_result.
      destruct (ack_starts cfg (flds (ev_text e))) as [[mech ir]|]; reflexivity. }
    destruct (beq (ev_cmd e) s_AUTHENTICATE) eqn:E5.
    { apply beq_eq in E5. rewrite (step_auth flds cfg st e E5). unfold auth_result.
      destruct (cf_sasl cfg) as [cl|]; [|reflexivity]. destruct (cs_remaining st) eqn:Er; [reflexivity|].
      destruct (ev_args e) as [|a0 r]; [cbn; congruence|]. destruct (b64_decode a0) as [ch|]; [|cbn; congruence].
      destruct (sc_next cl ch); cbn; congruence. }
    destruct (is_cap e s_LS) eqn:E1; [rewrite (step_ls flds cfg st e E1); reflexivity|].
    destruct (is_cap e s_NAK) eqn:E3; [rewrite (step_nak flds cfg st e E3); reflexivity|].
    destruct (is_sasl_outcome e) eqn:E4; [rewrite (step_outcome flds cfg st e E4); reflexivity|].
    rewrite (step_other flds cfg st e E1 E2 E3 E4 E5). reflexivity.
  Qed.

  Lemma run_cons cfg st e evs :
    run flds cfg st (e :: evs)
    = (fst (run flds cfg (fst (step flds cfg st e)) evs),
       (e, snd (step flds cfg st e)) :: snd (run flds cfg (fst (step flds cfg st e)) evs)).
  Proof.
    cbn [run]. destruct (step flds cfg st e) as [st1 ls]. cbn [fst snd].
    destruct (run flds cfg st1 evs) as [st2 tr]. reflexivity.
  Qed.

  Lemma tokens_of_cons sub e evs :
    tokens_of sub (e :: evs) = (if is_cap e sub then flds (ev_text e) else []) ++ tokens_of sub evs.
  Proof. reflexivity. Qed.

  (* ---- held: HasCapability c <-> the LAST acknowledgement token mentioning c enabled it ---- *)
  Lemma run_current cfg evs : forall st c,
    cap_has (cs_current (fst (run flds cfg st evs))) c
    = last_mention_from (cap_has (cs_current st) c) (ack_tokens evs) c.
  Proof.
    induction evs as [|e evs IH]; intros st c; [reflexivity|].
    rewrite run_cons. cbn [fst]. rewrite IH, step_current. unfold ack_tokens. rewrite tokens_of_cons.
    rewrite last_mention_app. destruct (is_cap e s_ACK); [now rewrite cap_has_add|reflexivity].
  Qed.

  Lemma run_supported cfg evs : forall st c,
    cap_has (cs_supported (fst (run flds cfg st evs))) c
    = last_mention_from (cap_has (cs_supported st) c) (ls_tokens evs) c.
  Proof.
    induction evs as [|e evs IH]; intros st c; [reflexivity|].
    rewrite run_cons. cbn [fst]. rewrite IH, step_supported. unfold ls_tokens. rewrite tokens_of_cons.
    rewrite last_mention_app. destruct (is_cap e s_LS); [now rewrite cap_has_add|reflexivity].
  Qed.

  Theorem held_history cfg evs c :
    cap_has (cs_current (fst (run flds cfg cstate0 evs))) c = last_mention (ack_tokens evs) c.
  Proof. apply run_current. Qed.

  Theorem supported_history cfg evs c :
    cap_has (cs_supported (fst (run flds cfg cstate0 evs))) c = last_mention (ls_tokens evs) c.
  Proof. apply run_supported. Qed.

  (* ---- request ---- *)
  Theorem request_step cfg st e : is_cap e s_LS = true ->
    let sup' := add_pure (cs_supported st) (flds (ev_text e)) in
    let req := req_list cfg sup' in
    cs_supported (fst (step flds cfg st e)) = sup'
    /\ ssorted req
    /\ (forall c, In c req <-> In c (map tok_name (wanted_all cfg)) /\ cap_has sup' c = true)
    /\ (req = [] -> snd (step flds cfg st e) = [line_cap_end])
    /\ (req <> [] -> exists groups,
          concat groups = req /\ Forall (group_ok req_budget) groups
          /\ snd (step flds cfg st e)
             = map (fun g => cut_newlines (pre_cap_req ++ join g [sp])) groups).
  Proof.
    intros E1 sup' req. rewrite (step_ls flds cfg st e E1). cbn [fst snd]. fold sup'.
    split; [reflexivity|]. split; [apply req_list_sorted|]. split; [|split].
    - intros c. unfold req, req_list. rewrite filter_In. unfold want_set.
      rewrite add_pure_keys_in. cbn. tauto.
    - unfold negotiate_lines. fold req. intros ->. reflexivity.
    - unfold negotiate_lines. fold req. intros Hne. destruct req as [|a r] eqn:Er; [congruence|].
      destruct (split_args_spec (a :: r) req_budget) as [groups [G1 [G2 G3]]].
      exists groups. split; [exact G2|]. split; [exact G3|].
      unfold req_lines. rewrite G1, map_map. reflexivity.
  Qed.

  (* with names the property speaks about: the REQ lines are "CAP REQ :" + names joined by
     single spaces, their names concatenated are the request, and each line is shorter than
     defaultSplit unless it carries a single name *)
  Theorem request_step_good cfg st e : is_cap e s_LS = true -> good_cfg cfg = true ->
    let sup' := add_pure (cs_supported st) (flds (ev_text e)) in
    let req := filter (cap_has sup') (sort_dedup (wanted_all cfg)) in
    let lines := snd (step flds cfg st e) in
    (req = [] -> lines = [line_cap_end])
    /\ (req <> [] -> req_tokens lines = req
        /\ exists groups, concat groups = req
           /\ lines = map (fun g => pre_cap_req ++ join g [sp]) groups
           /\ Forall (fun g => g <> [] /\ (length g = 1%nat \/ len (pre_cap_req ++ join g [sp]) < default_split)) groups).
  Proof.
    intros E1 Hg sup' req lines.
    assert (Hreq : req = req_list cfg sup') by (unfold req, req_list; now rewrite (want_keys_good cfg Hg)).
    destruct (request_step cfg st e E1) as [_ [_ [_ [H1 H2]]]]. fold sup' in H1, H2. rewrite <- Hreq in H1, H2.
    split; [exact H1|]. intros Hne. destruct (H2 Hne) as [groups [G1 [G2 G3]]].
    assert (Hw : Forall word req) by (rewrite Hreq; apply req_list_words, Hg).
    split.
    - unfold lines. rewrite (step_ls flds cfg st e E1). cbn [snd]. fold sup'. unfold negotiate_lines.
      rewrite <- Hreq. destruct req as [|a r] eqn:Er; [congruence|]. apply req_tokens_req_lines. exact Hw.
    - exists groups. split; [exact G1|]. rewrite <- G1 in Hw. apply Forall_concat_inv in Hw. split.
      + unfold lines. rewrite G3. apply map_ext_in. intros g Hin.
        rewrite Forall_forall in Hw. rewrite req_line_shape, cut_nl_id by (apply join_words_clean, Hw, Hin).
        reflexivity.
      + eapply Forall_impl; [|exact G2]. intros g [Hn Hl]. split; [exact Hn|].
        destruct Hl as [Hl|Hl]; [now left|right]. rewrite len_app.
        change (len pre_cap_req) with 9. unfold req_budget in Hl. unfold default_split. lia.
  Qed.

  (* ---- ends ---- *)
  Definition must_end (cfg : caps_cfg) (st : cstate) (e : event) : Prop :=
    is_cap e s_NAK = true
    \/ is_sasl_outcome e = true
    \/ (is_cap e s_ACK = true /\ ack_starts cfg (flds (ev_text e)) = None)
    \/ (is_cap e s_LS = true
        /\ req_list cfg (add_pure (cs_supported st) (flds (ev_text e))) = []).

  Theorem ends_step cfg st e : must_end cfg st e -> snd (step flds cfg st e) = [line_cap_end].
  Proof.
    intros [H|[H|[[H1 H2]|[H1 H2]]]].
    - now rewrite (step_nak flds cfg st e H).
    - now rewrite (step_outcome flds cfg st e H).
    - rewrite (step_ack flds cfg st e H1). unfold ack_result. now rewrite H2.
    - rewrite (step_ls flds cfg st e H1). cbn [snd]. unfold negotiate_lines. now rewrite H2.
  Qed.

  (* conversely an ACK that starts SASL sends AUTHENTICATE <mech> (once per "sasl" token) and no CAP END *)
  Theorem ack_starts_sasl cfg st e mech ir :
    is_cap e s_ACK = true -> ack_starts cfg (flds (ev_text e)) = Some (mech, ir) ->
    exists n, snd (step flds cfg st e) = repeat (line_auth mech) (S n)
              /\ ~ In line_cap_end (snd (step flds cfg st e))
              /\ cs_remaining (fst (step flds cfg st e)) = ir.
  Proof.
    intros H1 H2. rewrite (step_ack flds cfg st e H1). unfold ack_result. rewrite H2. cbn [fst snd].
    assert (Hn : exists n, n_sasl (flds (ev_text e)) = S n).
    { unfold ack_starts in H2. destruct (cf_sasl cfg); [|discriminate].
      rewrite n_sasl_mem in H2. destruct (n_sasl (flds (ev_text e))); [discriminate|eauto]. }
    destruct Hn as [n Hn]. rewrite Hn. exists n. split; [reflexivity|]. split; [|reflexivity].
    intros Hin. apply repeat_spec in Hin. pose proof (line_auth_not_end mech) as Hne.
    rewrite <- Hin, beq_refl in Hne. discriminate.
  Qed.

  (* a 908 with fewer than two arguments (not a conformant RPL_SASLMECHS) panics on
     line.Args[1] in the logging call BEFORE conn.Cap(CAP_END): negotiation is not ended *)
  Theorem short_908_sends_nothing cfg st e :
    ev_cmd e = s_908 -> (length (ev_args e) < 2)%nat -> step flds cfg st e = (st, []).
  Proof.
    intros Hc Hl. apply step_other.
    - unfold is_cap, cap_sub. now rewrite Hc.
    - unfold is_cap, cap_sub. now rewrite Hc.
    - unfold is_cap, cap_sub. now rewrite Hc.
    - unfold is_sasl_outcome. rewrite Hc.
      replace (beq s_908 s_903) with false by reflexivity.
      replace (beq s_908 s_904) with false by reflexivity.
      rewrite beq_refl. cbn [andb orb]. lia.
    - now rewrite Hc.
  Qed.

  (* history form: in every history, every event after which the property demands the end of
     negotiation is answered by exactly CAP END *)
  Theorem ends_history cfg evs : forall st,
    Forall (fun el => (is_cap (fst el) s_NAK = true \/ is_sasl_outcome (fst el) = true
                       \/ (is_cap (fst el) s_ACK = true /\ ack_starts cfg (flds (ev_text (fst el))) = None))
                      -> snd el = [line_cap_end])
           (snd (run flds cfg st evs)).
  Proof.
    induction evs as [|e evs IH]; intros st; [constructor|].
    rewrite run_cons. cbn [snd]. constructor; [|apply IH]. cbn [fst snd]. intros H.
    apply ends_step. unfold must_end. tauto.
  Qed.

  (* ---- SASL gate ---- *)
  (* an AUTHENTICATE line other than the "AUTHENTICATE <mech>" answering an ACK is sent only in
     response to an AUTHENTICATE from the server, with SASL configured, and is either the owed
     initial response (then the debt is cleared: at most once) or a response computed by the
     mechanism's Next *)
  Theorem gate_step cfg st e :
    is_cap e s_ACK = false -> auth_lines (snd (step flds cfg st e)) <> [] ->
    ev_cmd e = s_AUTHENTICATE
    /\ exists cl, cf_sasl cfg = Some cl
       /\ ((exists ir, cs_remaining st = Some ir
                       /\ snd (step flds cfg st e) = [line_auth (sasl_payload ir)]
                       /\ cs_remaining (fst (step flds cfg st e)) = None)
           \/ (cs_remaining st = None
               /\ exists a0 r ch resp, ev_args e = a0 :: r /\ b64_decode a0 = Some ch
                  /\ sc_next cl ch = Some resp
                  /\ snd (step flds cfg st e) = [line_auth (b64_encode resp)])).
  Proof.
    intros E2 Hne.
    destruct (is_cap e s_LS) eqn:E1.
    { exfalso. apply Hne. rewrite (step_ls flds cfg st e E1). cbn [snd]. unfold negotiate_lines.
      destruct (req_list cfg _); [reflexivity|apply auth_lines_req_lines]. }
    destruct (is_cap e s_NAK) eqn:E3; [exfalso; apply Hne; now rewrite (step_nak flds cfg st e E3)|].
    destruct (is_sasl_outcome e) eqn:E4; [exfalso; apply Hne; now rewrite (step_outcome flds cfg st e E4)|].
    destruct (beq (ev_cmd e) s_AUTHENTICATE) eqn:E5;
      [|exfalso; apply Hne; now rewrite (step_other flds cfg st e E1 E2 E3 E4 E5)].
    apply beq_eq in E5. split; [exact E5|]. rewrite (step_auth flds cfg st e E5) in *.
    unfold auth_result in *. destruct (cf_sasl cfg) as [cl|]; [|exfalso; now apply Hne].
    exists cl. split; [reflexivity|]. destruct (cs_remaining st) as [rem|].
    - left. exists rem. cbn [fst snd]. auto.
    - right. split; [reflexivity|]. destruct (ev_args e) as [|a0 r]; [exfalso; now apply Hne|].
      destruct (b64_decode a0) as [ch|] eqn:Ed; [|exfalso; now apply Hne].
      destruct (sc_next cl ch) as [resp|] eqn:En; [|exfalso; now apply Hne].
      exists a0, r, ch, resp. cbn [snd]. auto.
  Qed.

  (* the debt, as a function of the history alone *)
  Definition armed_of (cfg : caps_cfg) (evs : list event) : option bytes :=
    fold_left (armed_step cfg) evs None.

  Lemma run_remaining cfg evs : forall st,
    cs_remaining (fst (run flds cfg st evs)) = fold_left (armed_step cfg) evs (cs_remaining st).
  Proof.
    induction evs as [|e evs IH]; intros st; [reflexivity|].
    rewrite run_cons. cbn [fst fold_left]. now rewrite IH, step_remaining.
  Qed.

  Theorem remaining_history cfg evs :
    cs_remaining (fst (run flds cfg cstate0 evs)) = armed_of cfg evs.
  Proof. apply run_remaining. Qed.

  (* the client owes [ir] exactly when some ACK started SASL with initial response [ir] and
     no later event cleared or replaced the debt *)

  Theorem armed_of_spec cfg evs ir :
    armed_of cfg evs = Some ir ->
    exists evs1 e evs2 mech,
      evs = evs1 ++ e :: evs2 /\ is_cap e s_ACK = true
      /\ ack_starts cfg (flds (ev_text e)) = Some (mech, Some ir)
      /\ Forall (fun e' => armed_step cfg (Some ir) e' = Some ir) evs2.
  Proof.
    unfold armed_of. induction evs as [|e evs IH] using rev_ind; [discriminate|].
    rewrite fold_left_app. cbn [fold_left]. intros H.
    remember (fold_left (armed_step cfg) evs None) as prev eqn:Hp.
    unfold armed_step in H. destruct (is_cap e s_ACK) eqn:E2.
    - destruct (ack_starts cfg (flds (ev_text e))) as [[mech ir']|] eqn:Es.
      + subst ir'. exists evs, e, [], mech. auto.
      + subst prev. destruct (IH H) as [evs1 [e0 [evs2 [mech [H1 [H2 [H3 H4]]]]]]].
        exists evs1, e0, (evs2 ++ [e]), mech. split; [rewrite H1, <- app_assoc; reflexivity|].
        split; [exact H2|]. split; [exact H3|]. apply Forall_app. split; [exact H4|].
        constructor; [|constructor]. unfold armed_step. now rewrite E2, Es.
    - destruct (beq (ev_cmd e) s_AUTHENTICATE) eqn:E5.
      + destruct (cf_sasl cfg) eqn:Ec; [discriminate|].
        subst prev. destruct (IH H) as [evs1 [e0 [evs2 [mech [H1 [H2 [H3 H4]]]]]]].
        exists evs1, e0, (evs2 ++ [e]), mech. split; [rewrite H1, <- app_assoc; reflexivity|].
        split; [exact H2|]. split; [exact H3|]. apply Forall_app. split; [exact H4|].
        constructor; [|constructor]. unfold armed_step. now rewrite E2, E5, Ec.
      + subst prev. destruct (IH H) as [evs1 [e0 [evs2 [mech [H1 [H2 [H3 H4]]]]]]].
        exists evs1, e0, (evs2 ++ [e]), mech. split; [rewrite H1, <- app_assoc; reflexivity|].
        split; [exact H2|]. split; [exact H3|]. apply Forall_app. split; [exact H4|].
        constructor; [|constructor]. unfold armed_step. now rewrite E2, E5.
  Qed.
End Explicit.

(* what [last_mention] says, without folds *)
Theorem last_mention_spec toks c :
  last_mention toks c = true <->
  exists l1 t l2, toks = l1 ++ t :: l2 /\ tok_name t = c /\ tok_on t = true
                  /\ Forall (fun t' => tok_name t' <> c) l2.
Proof.
  unfold last_mention. induction toks as [|t toks IH] using rev_ind.
  - cbn. split; [discriminate|]. intros [l1 [t [l2 [H _]]]]. destruct l1; discriminate.
  - rewrite last_mention_app. unfold last_mention_from at 1. cbn [fold_left].
    destruct (beq (tok_name t) c) eqn:E.
    + apply beq_eq in E. split.
      * intros H. exists toks, t, []. auto.
      * intros [l1 [t' [l2 [H1 [H2 [H3 H4]]]]]].
        destruct l2 as [|x l2] using rev_ind.
        -- apply app_inj_tail in H1 as [_ ->]. exact H3.
        -- clear IHl2. rewrite app_comm_cons, app_assoc in H1. apply app_inj_tail in H1 as [_ ->].
           apply Forall_app in H4 as [_ H4]. inversion H4; subst. contradiction.
    + apply beq_neq in E. rewrite IH. split.
      * intros [l1 [t' [l2 [H1 [H2 [H3 H4]]]]]]. exists l1, t', (l2 ++ [t]).
        split; [rewrite H1, <- app_assoc; reflexivity|]. split; [exact H2|]. split; [exact H3|].
        apply Forall_app. split; [exact H4|]. constructor; [exact E|constructor].
      * intros [l1 [t' [l2 [H1 [H2 [H3 H4]]]]]].
        destruct l2 as [|x l2] using rev_ind.
        -- apply app_inj_tail in H1 as [_ ->]. contradiction.
        -- clear IHl2. rewrite app_comm_cons, app_assoc in H1. apply app_inj_tail in H1 as [H1 ->].
           apply Forall_app in H4 as [H4 _]. exists l1, t', l2. auto.
Qed.
