(* Proofs/TrackerAliasThm.v — C14, part A: the theorems.
   A history is any interleaving of tracker method calls and of writes by the caller through
   the pointers it was given ([hist]); [K] collects every address reachable from a value
   handed out so far.  [sep]: K and the tracker's own object graph are disjoint, and the
   allocation counter is above both. *)
From Verif Require Import TrackerSpec TrackerImpl TrackerAlias TrackerAliasProofs TrackerAliasSnap.
From Verif Require TrackerRefine.
Open Scope Z_scope.

Definition own_below (t : istate) : Prop := forall a, owns t a -> (a < h_next t)%positive.
Definition sep (s : astate) (K : gset addr) : Prop :=
  own_below (a_tr s) /\ (forall a, a ∈ K -> (a < a_next s)%positive) /\ (forall a, a ∈ K -> ~ owns (a_tr s) a).

Lemma own_below_new me : own_below (im_new me).
Proof.
  intros a [[H|H]|[(nk & o & ch & H & Hc)|(ch & co & nk & H & Hc)]]; simpl in *.
  - destruct H as [o H]. apply lookup_singleton_Some in H as [<- _]. lia.
  - destruct H as [o H]. by rewrite lookup_empty in H.
  - apply lookup_singleton_Some in H as [_ <-]. simpl in Hc. by rewrite lookup_empty in Hc.
  - by rewrite lookup_empty in H.
Qed.

Local Transparent TrackerRefine.abs.
Lemma abs_agree t hp : agree t hp -> TrackerRefine.abs (set_h_priv t hp) = TrackerRefine.abs t.
Proof.
  intros A. unfold TrackerRefine.abs. simpl. f_equal. f_equal. apply map_eq. intros c. rewrite !lookup_omap.
  destruct (st_chans t !! c) as [ch|]; [|done]. simpl. destruct (h_chan t !! ch) as [co|] eqn:Hco; [|done]. simpl. f_equal.
  unfold TrackerRefine.chan_members. apply map_eq. intros n. rewrite !lookup_omap.
  destruct (co_lookup co !! n) as [nk|]; [|done]. simpl. destruct (co_nicks co !! nk) as [cp|] eqn:Hcp; [|done]. simpl.
  apply A. eapply pown_chan_priv; eauto.
Qed.
Lemma abs_twin s1 s2 : twin s1 s2 -> TrackerRefine.abs (a_tr s2) = TrackerRefine.abs (a_tr s1).
Proof. intros T. rewrite (twin_tr _ _ T). apply abs_agree. by destruct T as (_ & _ & A). Qed.

(* reading a value back only looks at what is reachable from it *)
Lemma rd_pmap_ext (s s' : astate) (m : gmap name (option addr)) :
  (forall a, a ∈ pmap_set m -> h_priv (a_tr s') !! a = h_priv (a_tr s) !! a) -> rd_pmap s' m = rd_pmap s m.
Proof.
  intros H. unfold rd_pmap.
  assert (forall k oa, m !! k = Some oa -> (oa ≫= fun a => h_priv (a_tr s') !! a) = (oa ≫= fun a => h_priv (a_tr s) !! a)) as E.
  { intros k [a|] Hk; [|done]. simpl. apply H. apply elem_of_pmap_set. eauto. }
  assert (omap (fun oa : option addr => oa ≫= fun a => h_priv (a_tr s') !! a) m
          = omap (fun oa : option addr => oa ≫= fun a => h_priv (a_tr s) !! a) m) as ->.
  { apply map_eq. intros k. rewrite !lookup_omap. destruct (m !! k) eqn:Hk; [|done]. simpl. eauto. }
  erewrite bool_decide_ext; [reflexivity|]. split; intros B k oa Hk.
  - rewrite <- (E k oa Hk). by apply (B k).
  - rewrite (E k oa Hk). by apply (B k).
Qed.

Lemma rd_value_ext s s' v : (forall a, a ∈ reach s v -> heaps_eq_at s s' a) -> rd_value s' v = rd_value s v.
Proof.
  intros H. destruct v as [[a|]|[a|]|[a|] ok|[a|]|]; simpl in *; try done.
  - unfold rd_nick. destruct (H a) as (_ & -> & _); [unfold reach_nick; set_solver|].
    f_equal. f_equal. destruct (a_rnick s !! a) as [o|] eqn:Ho; [|done]. simpl.
    unfold reach_nick in H. rewrite Ho in H.
    destruct (rn_modes o) as [am|]; [|done]. simpl. destruct (H am) as (_ & _ & _ & -> & _); [set_solver|].
    destruct (a_nmode s !! am); [|done]. simpl. destruct (rn_chans o) as [ac|]; [|done]. simpl.
    destruct (H ac) as (_ & _ & _ & _ & _ & ->); [unfold map_reach; set_solver|].
    destruct (a_pmap s !! ac) as [m|] eqn:Hm; [|done]. simpl. rewrite (rd_pmap_ext s s' m); [done|].
    intros x Hx. apply H. unfold map_reach. simpl. rewrite Hm. set_solver.
  - unfold rd_chan. destruct (H a) as (_ & _ & -> & _); [unfold reach_chan; set_solver|].
    f_equal. f_equal. destruct (a_rchan s !! a) as [o|] eqn:Ho; [|done]. simpl.
    unfold reach_chan in H. rewrite Ho in H.
    destruct (rc_modes o) as [am|]; [|done]. simpl. destruct (H am) as (_ & _ & _ & _ & -> & _); [set_solver|].
    destruct (a_cmode s !! am); [|done]. simpl. destruct (rc_nicks o) as [ac|]; [|done]. simpl.
    destruct (H ac) as (_ & _ & _ & _ & _ & ->); [unfold map_reach; set_solver|].
    destruct (a_pmap s !! ac) as [m|] eqn:Hm; [|done]. simpl. rewrite (rd_pmap_ext s s' m); [done|].
    intros x Hx. apply H. unfold map_reach. simpl. rewrite Hm. set_solver.
  - destruct (H a) as (-> & _); [set_solver|]. done.
  - destruct (H a) as (-> & _); [set_solver|]. done.
Qed.

Section Thm.
Variable enumA : gmap addr addr -> list (addr * addr).
Variable enumN : gmap name addr -> list (name * addr).
Hypothesis enumA_perm : forall m, enumA m ≡ₚ map_to_list m.
Hypothesis enumN_perm : forall m, enumN m ≡ₚ map_to_list m.
Notation al_step := (al_step enumA enumN privs_Copy).
Notation al_run := (al_run enumA enumN privs_Copy).

(* ---------- one call ---------- *)
Lemma al_step_facts s o s' v r : own_below (a_tr s) -> al_step s o = Some (s', v, r) ->
  own_below (a_tr s') /\ (a_next s <= a_next s')%positive
  /\ (forall x, x ∈ reach s' v -> (a_next s <= x < a_next s')%positive /\ ~ owns (a_tr s') x)
  /\ (forall a, owns (a_tr s') a -> owns (a_tr s) a \/ (a_next s <= a)%positive)
  /\ (forall a, ~ pown (a_tr s) a -> (a < a_next s)%positive -> heaps_eq_at s s' a).
Proof.
  intros OB H. destruct (al_step_build enumA enumN enumA_perm enumN_perm _ _ _ _ _ H) as (t1 & E & (G & N & X) & F).
  pose proof (im_step_grow enumA enumN _ _ _ _ E) as GR.
  assert (own_below t1) as OB1.
  { intros a Ha. destruct (grow_owns _ _ _ GR Ha) as [Ha0|Fr]; [|unfold fresh_in in Fr; lia].
    specialize (OB a Ha0). destruct GR as (L & _). lia. }
  assert (forall a, owns (a_tr s') a <-> owns t1 a) as OW by (intros a; by apply owns_same_graph).
  unfold a_next in *. simpl in N. destruct GR as (L & GR').
  split; [intros a Ha; apply OW, OB1 in Ha; lia|]. split; [lia|]. split; [|split].
  - intros x Hx. specialize (F x Hx). unfold a_next in F. split; [lia|]. intros Ho. apply OW, OB1 in Ho. lia.
  - intros a Ha. apply OW in Ha. destruct (grow_owns _ _ _ (conj L GR') Ha) as [?|Fr]; [by left|right]. unfold fresh_in in Fr. lia.
  - intros a Hn Hl. assert (a < h_next t1)%positive as Hl1 by lia.
    destruct (X a Hl1) as (P1 & P2 & P3 & P4 & P5 & P6). simpl in *. repeat split; try done.
    rewrite P1. eapply (im_step_frame enumA enumN enumA_perm); eauto.
Qed.

(* ---------- histories ---------- *)
Inductive hist : astate -> gset addr -> Prop :=
| hist_init me : hist (al_new me) ∅
| hist_op s K o s' v r : hist s K -> al_step s o = Some (s', v, r) -> hist s' (K ∪ reach s' v)
| hist_write s K w : hist s K -> legal K w -> hist (apply_write s w) K.

Lemma apply_write_graph s w : same_graph (a_tr s) (a_tr (apply_write s w)) /\ a_next (apply_write s w) = a_next s.
Proof. destruct w; simpl; split; try done; apply same_graph_refl. Qed.

Lemma hist_sep s K : hist s K -> sep s K.
Proof.
  induction 1 as [me|s K o s' v r Hh (OB & KB & KO) H|s K w Hh (OB & KB & KO) L].
  - split; [apply own_below_new|]. split; intros a Ha; set_solver.
  - destruct (al_step_facts _ _ _ _ _ OB H) as (OB' & N & F & OG & _). split; [done|]. split; intros a Ha.
    + apply elem_of_union in Ha as [Ha|Ha]; [specialize (KB a Ha); lia|]. destruct (F a Ha). lia.
    + apply elem_of_union in Ha as [Ha|Ha]; [|by destruct (F a Ha)].
      intros Ho. destruct (OG a Ho) as [?|?]; [by apply (KO a)|]. specialize (KB a Ha). lia.
  - destruct (apply_write_graph s w) as (G & N). split; [|split].
    + intros a Ha. apply (owns_same_graph _ _ a G) in Ha. unfold a_next in N. rewrite N. by apply OB.
    + intros a Ha. rewrite N. by apply KB.
    + intros a Ha Ho. apply (owns_same_graph _ _ a G) in Ho. by apply (KO a).
Qed.

(* C14_fresh: whatever happened before — every address reachable from the returned value was
   allocated during this call, is not part of the tracker's own object graph afterwards, and
   is none of the addresses handed out earlier *)
Theorem fresh s K o s' v r : hist s K -> al_step s o = Some (s', v, r) ->
  forall x, x ∈ reach s' v -> (a_next s <= x < a_next s')%positive /\ ~ owns (a_tr s') x /\ x ∉ K.
Proof.
  intros Hh H x Hx. destruct (hist_sep _ _ Hh) as (OB & KB & _).
  destruct (al_step_facts _ _ _ _ _ OB H) as (_ & _ & F & _). destruct (F x Hx) as (L & NO).
  split; [done|]. split; [done|]. intros HK. specialize (KB x HK). lia.
Qed.

(* C14_stable: later method calls leave every object handed out earlier untouched ... *)
Lemma run_keeps ops : forall s K s' l, sep s K -> al_run s ops = Some (s', l) ->
  forall a, a ∈ K -> heaps_eq_at s s' a.
Proof.
  induction ops as [|o ops IH]; intros s K s' l S H a Ha; simpl in H.
  - inversion H; subst. apply heaps_eq_at_refl.
  - destruct (al_step s o) as [[[s1 v] r]|] eqn:E; [|done]. simpl in H.
    destruct (al_run s1 ops) as [[s2 l2]|] eqn:E2; [|done]. simpl in H. inversion H; subst.
    pose proof (hist_sep) as _. destruct S as (OB & KB & KO).
    destruct (al_step_facts _ _ _ _ _ OB E) as (OB' & N & F & OG & FR).
    eapply heaps_eq_at_trans.
    + apply FR; [|by apply KB]. intros Hp. apply (KO a Ha). by right.
    + eapply (IH s1 K); [|exact E2|exact Ha]. split; [done|]. split.
      * intros b Hb. specialize (KB b Hb). lia.
      * intros b Hb Ho. destruct (OG b Ho) as [?|?]; [by apply (KO b)|]. specialize (KB b Hb). lia.
Qed.
Theorem stable s K ops s' l : hist s K -> al_run s ops = Some (s', l) ->
  (forall a, a ∈ K -> heaps_eq_at s s' a)
  /\ forall v, reach s v ⊆ K -> rd_value s' v = rd_value s v.
Proof.
  intros Hh H. pose proof (run_keeps ops s K s' l (hist_sep _ _ Hh) H) as RK. split; [done|].
  intros v Hv. apply rd_value_ext. intros a Ha. apply RK. set_solver.
Qed.

(* C14_mutation_frame: whatever the caller writes through the pointers it holds, the tracker
   is the same abstract tracker, and every later call does the same thing and returns the same *)
Lemma write_twin s K w : (forall a, a ∈ K -> ~ pown (a_tr s) a) -> legal K w -> twin s (apply_write s w).
Proof.
  intros KO (Ht & _). destruct w; simpl in *; try (split; [apply same_graph_refl|split; [done|apply agree_self]]).
  split; [by repeat split|]. split; [done|]. intros x Hx. simpl. rewrite lookup_alter_ne; [done|].
  intros ->. by apply (KO _ Ht).
Qed.
Lemma twin_trans s1 s2 s3 : twin s1 s2 -> twin s2 s3 -> twin s1 s3.
Proof.
  intros (G1 & N1 & A1) (G2 & N2 & A2). split; [eapply same_graph_trans; eauto|]. split; [congruence|].
  intros a Ha. rewrite <- (A1 a Ha). apply A2. by apply (pown_same_graph _ _ a G1).
Qed.
Lemma writes_twin ws : forall s K, (forall a, a ∈ K -> ~ pown (a_tr s) a) -> Forall (legal K) ws -> twin s (apply_writes s ws).
Proof.
  induction ws as [|w ws IH]; intros s K KO F; [apply twin_refl|]. inversion F as [|? ? Lw Fws]; subst.
  unfold apply_writes. simpl. eapply twin_trans; [eapply write_twin; eauto|].
  apply (IH _ K); [|done]. intros a Ha Hp. destruct (apply_write_graph s w) as (G & _).
  apply (pown_same_graph _ _ a G) in Hp. by apply (KO a).
Qed.
Lemma run_twin ops : forall s1 s2 s1' l, twin s1 s2 -> al_run s1 ops = Some (s1', l) ->
  exists s2', al_run s2 ops = Some (s2', l) /\ twin s1' s2'.
Proof.
  induction ops as [|o ops IH]; intros s1 s2 s1' l T H; simpl in *.
  - inversion H; subst. eauto.
  - destruct (al_step s1 o) as [[[sa v] r]|] eqn:E; [|done]. simpl in H.
    destruct (al_run sa ops) as [[sb lb]|] eqn:E2; [|done]. simpl in H. inversion H; subst.
    destruct (al_step_twin enumA enumN enumA_perm _ _ _ _ _ _ T E) as (sa' & E' & Ta). rewrite E'. simpl.
    destruct (IH _ _ _ _ Ta E2) as (sb' & E2' & Tb). rewrite E2'. simpl. eauto.
Qed.
Theorem mutation_frame s K ws : hist s K -> Forall (legal K) ws ->
  let s2 := apply_writes s ws in
  TrackerRefine.abs (a_tr s2) = TrackerRefine.abs (a_tr s)
  /\ forall ops s' l, al_run s ops = Some (s', l) ->
       exists s2', al_run s2 ops = Some (s2', l) /\ TrackerRefine.abs (a_tr s2') = TrackerRefine.abs (a_tr s').
Proof.
  intros Hh F s2. destruct (hist_sep _ _ Hh) as (_ & _ & KO).
  assert (twin s s2) as T.
  { apply (writes_twin ws s K); [|done]. intros a Ha Hp. apply (KO a Ha). by right. }
  split; [by apply abs_twin|]. intros ops s' l H. destruct (run_twin ops _ _ _ _ T H) as (s2' & H2 & T2).
  exists s2'. split; [done|]. by apply abs_twin.
Qed.

End Thm.
