(* Proofs/LifecycleRefuted.v — what each repair of connection.go is for: in the PINNED shapes
   of the code the properties fail, exhibited by concrete schedules (found once, checked here
   by vm_compute).  A regression to one of these shapes makes the corresponding tie lemma of
   Props/C06.v / C07.v fail; these witnesses show what the regression would look like. *)
From Coq Require Import List Arith Bool.
From Verif Require Import Lts LifecycleLts.
Import ListNotations.

Definition rep {A} (n : nat) (x : A) := repeat x n.
Definition u0 := User 0.
Definition mkw progs sin sout : world :=
  {| w_progs := progs; w_srv_in := sin; w_srv_out := sout; w_ticks := fun _ => 0 |}.
Definition shp a b c d e :=
  {| init_first := a; drain_once := b; no_ident := c; no_watch := d; sample_mu := e |}.
(* every thread that could help generation 1 to end, and the application's goroutine *)
Definition threads1 : list Thr := [Recv 1; Loop 1; Send 1; Ping 1; Watch 1; Waiter 1; u0].
Definition disabled (P : params) (s : St) : Prop :=
  forall t ch, In t threads1 -> lstep P s (t, ch) = None.

Ltac all_disabled :=
  intros t ch Hin; cbn [threads1 In] in Hin;
  repeat (destruct Hin as [<-|Hin]); try contradiction;
  destruct ch as [|[|[|[|ch]]]]; vm_compute; reflexivity.

(* D4: initialise() before the guards: a REFUSED Connect on a connected client returns an error
   but has already replaced both queues and nil-ed conn.io *)
Definition P_init_first := {| sh := shp true false false false false; hmax := 0; hlock := false |}.
Theorem failed_connect_refuted :
  exists w sched,
    let s := run (lstep P_init_first) (init w) sched in
    hist s = [EConnCall u0; EEstab 1 u0; EReg 1; ESample SReg 1 true; EConnRet u0 (Some 1);
              EConnCall u0; EConnRet u0 None]
    /\ connected s = true /\ cur s = 0 /\ in_ref s = 2 /\ out_ref s = 2.
Proof.
  exists (mkw [[OpConnect (CkOk false); OpConnect (CkOk false)]] (fun _ => 0) (fun _ => 0)).
  exists (rep 14 (u0, 0)). vm_compute. repeat split.
Qed.

(* D6: drainIn; drainOut; wg.Wait under the lock: 33 lines still buffered -> recv refills the
   queue and blocks for ever, Close never returns *)
Definition P_drain_once := {| sh := shp false true false false false; hmax := 0; hlock := false |}.
Theorem backlog_refuted :
  exists w sched,
    let s := run (lstep P_drain_once) (init w) sched in
    in_teardown s = Some 1 /\ pcs s u0 = PClose (C3w 1) None (Some []) /\ wg s = 1
    /\ pcs s (Recv 1) = R3 1 /\ inq s 1 = 32 /\ disabled P_drain_once s.
Proof.
  exists (mkw [[OpConnect (CkOk false); OpClose]] (fun _ => 33) (fun _ => 0)).
  exists (rep 10 (u0,0) ++ [(Recv 1,0);(Loop 1,0);(Send 1,0)] ++ rep 7 (u0,0)
          ++ rep 66 (Recv 1,0) ++ [(Loop 1,0);(Loop 1,0);(Send 1,0);(Send 1,0);(Watch 1,0)]).
  split; [vm_compute; reflexivity|]. split; [vm_compute; reflexivity|]. split; [vm_compute; reflexivity|].
  split; [vm_compute; reflexivity|]. split; [vm_compute; reflexivity|]. all_disabled.
Qed.

(* D8: the goroutines call Close(), no identity test: the event loop of generation 1, late,
   tears down generation 2 that the DISCONNECTED handler has just established *)
Definition P_no_ident := {| sh := shp false false true false false; hmax := 0; hlock := false |}.
Theorem stale_close_refuted :
  exists w sched,
    let s := run (lstep P_no_ident) (init w) sched in
    In (ETeardown 2 (Loop 1)) (hist s) /\ C07_safe (hist s) = false.
Proof.
  exists (mkw [[OpConnect (CkOk false)]] (fun _ => 0) (fun _ => 0)).
  exists (rep 10 (u0,0) ++ [(Recv 1,0);(Loop 1,0);(Send 1,0);(Env,2);(Recv 1,1);(Recv 1,0);(Recv 1,0);
            (Recv 1,0);(Recv 1,0);(Loop 1,0);(Loop 1,0);(Send 1,0);(Send 1,0);(Waiter 1,0);(Recv 1,2);
            (Recv 1,0);(Recv 1,0);(Recv 1,0);(Recv 1,1)] ++ rep 5 (Recv 1,0) ++ [(Loop 1,0);(Loop 1,0)]).
  split; [vm_compute; tauto|vm_compute; reflexivity].
Qed.

(* D9: no watcher: the connect context is cancelled while the handler is blocked on the full
   out queue (the server is not reading): nothing ever calls Close *)
Definition P_no_watch := {| sh := shp false false false true false; hmax := 40; hlock := false |}.
Theorem cancel_refuted :
  exists w sched,
    let s := run (lstep P_no_watch) (init w) sched in
    cancelled s 1 = true /\ connected s = true /\ discs (hist s) = [] /\ disabled P_no_watch s.
Proof.
  exists (mkw [[OpConnect (CkOk false)]] (fun _ => 1) (fun _ => 0)).
  exists (rep 10 (u0,0) ++ [(Recv 1,0);(Loop 1,0);(Send 1,0);(Recv 1,0);(Recv 1,0);(Loop 1,41);(Loop 1,0);(Send 1,1)]
          ++ rep 40 (Loop 1,0) ++ [(Env,3)]).
  split; [vm_compute; reflexivity|]. split; [vm_compute; reflexivity|]. split; [vm_compute; reflexivity|].
  all_disabled.
Qed.

(* D12: Connected() takes conn.mu: a handler that asks whether the client is connected while
   a Close waits for the event loop blocks for ever, and Close with it *)
Definition P_sample_mu := {| sh := shp false false false false true; hmax := 0; hlock := true |}.
Theorem handler_lock_refuted :
  exists w sched,
    let s := run (lstep P_sample_mu) (init w) sched in
    in_teardown s = Some 1 /\ pcs s (Loop 1) = LS 1 0 /\ pcs s u0 = PClose (C3 1) None (Some [])
    /\ disabled P_sample_mu s.
Proof.
  exists (mkw [[OpConnect (CkOk false); OpClose]] (fun _ => 1) (fun _ => 0)).
  exists (rep 10 (u0,0) ++ [(Recv 1,0);(Loop 1,0);(Send 1,0);(Recv 1,0);(Recv 1,0);(Loop 1,1)] ++ rep 5 (u0,0)
          ++ [(Recv 1,1);(Recv 1,0);(Send 1,0);(Send 1,0);(Watch 1,0)]).
  split; [vm_compute; reflexivity|]. split; [vm_compute; reflexivity|]. split; [vm_compute; reflexivity|].
  all_disabled.
Qed.
