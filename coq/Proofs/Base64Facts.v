(* Proofs/Base64Facts.v — Lib/Base64.v: decoding an encoding gives the bytes back. *)
From Verif Require Import GoBytes GoBytesFacts Base64.
Open Scope N_scope.

Local Ltac Zify.zify_post_hook ::= Z.to_euclidean_division_equations.

Lemma b64_val_char i : i < 64 -> b64_val (b64_char i) = Some i.
Proof.
  intros H. unfold b64_char.
  destruct (i <? 26) eqn:E1; [|destruct (i <? 52) eqn:E2; [|destruct (i <? 62) eqn:E3; [|destruct (i =? 62) eqn:E4]]];
    unfold b64_val;
    repeat match goal with
           | |- context [if ?b then _ else _] => destruct b eqn:?
           end; try lia; f_equal; lia.
Qed.

Lemma b64_char_not_pad i : (b64_char i =? b64_pad) = false.
Proof.
  unfold b64_char, b64_pad.
  destruct (i <? 26) eqn:E1; [|destruct (i <? 52) eqn:E2; [|destruct (i <? 62) eqn:E3; [|destruct (i =? 62) eqn:E4]]]; lia.
Qed.

Lemma b64_char_not_nl i : b64_is_nl (b64_char i) = false.
Proof.
  unfold b64_char, b64_is_nl.
  destruct (i <? 26) eqn:E1; [|destruct (i <? 52) eqn:E2; [|destruct (i <? 62) eqn:E3; [|destruct (i =? 62) eqn:E4]]]; lia.
Qed.

Lemma b64_encode_no_nl s : filter (fun c => negb (b64_is_nl c)) (b64_encode s) = b64_encode s.
Proof.
  assert (Hp : negb (b64_is_nl b64_pad) = true) by reflexivity.
  assert (Hc : forall i, negb (b64_is_nl (b64_char i)) = true) by (intros i; now rewrite b64_char_not_nl).
  revert s. fix IH 1. intros [|a [|b [|c s]]]; cbn [b64_encode filter].
  - reflexivity.
  - now rewrite !Hc, Hp.
  - now rewrite !Hc, Hp.
  - rewrite !Hc. now rewrite IH.
Qed.

Definition byte (x : N) : Prop := x < 256.

Lemma b64_quanta_roundtrip : forall s, Forall byte s -> b64_decode_quanta (b64_encode s) = Some s.
Proof.
  fix IH 1. intros [|a [|b [|c s]]] H.
  - reflexivity.
  - inversion H as [|? ? Ha _]; subst. unfold byte in Ha. cbn [b64_encode b64_decode_quanta].
    rewrite !b64_val_char by lia. cbn [N.eqb b64_pad Pos.eqb andb]. f_equal. f_equal. lia.
  - inversion H as [|? ? Ha H']; subst. inversion H' as [|? ? Hb _]; subst. unfold byte in Ha, Hb.
    cbn [b64_encode b64_decode_quanta]. rewrite !b64_val_char by lia.
    rewrite b64_char_not_pad. cbn [andb]. replace (b64_pad =? b64_pad) with true by reflexivity.
    f_equal. f_equal; [lia|f_equal; lia].
  - inversion H as [|? ? Ha H']; subst. inversion H' as [|? ? Hb H'']; subst.
    inversion H'' as [|? ? Hc Hs]; subst. unfold byte in Ha, Hb, Hc.
    specialize (IH s Hs). cbn [b64_encode].
    destruct (b64_encode s) as [|x r] eqn:Er.
    + assert (s = []) as -> by (destruct s as [|? [|? [|? ?]]]; cbn in Er; congruence).
      cbn [b64_decode_quanta]. rewrite !b64_val_char by lia. rewrite !b64_char_not_pad. cbn [andb].
      f_equal. f_equal; [lia|f_equal; [lia|f_equal; lia]].
    + cbn [b64_decode_quanta]. rewrite !b64_val_char by lia. cbn [b64_decode_quanta] in IH. rewrite IH.
      f_equal. f_equal; [lia|f_equal; [lia|f_equal; lia]].
Qed.

(* base64.StdEncoding.DecodeString(base64.StdEncoding.EncodeToString(s)) == s *)
Theorem b64_roundtrip s : Forall byte s -> b64_decode (b64_encode s) = Some s.
Proof. intros H. unfold b64_decode. rewrite b64_encode_no_nl. apply b64_quanta_roundtrip, H. Qed.
