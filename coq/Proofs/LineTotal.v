(* Proofs/LineTotal.v — client/line.go never panics: ParseLine on every byte string,
   Text/Target/Public on every Line (C02, parser part). *)
From Verif Require Import GoBytes LineLib Line GoBytesFacts.
Open Scope Z_scope.

(* ---------- the res monad ---------- *)
Lemma bind_not_panic {A B} (r : res A) (f : A -> res B) :
  r <> Panic -> (forall a, r = Ok a -> f a <> Panic) -> bind r f <> Panic.
Proof. destruct r as [a|]; simpl; intros Hr Hf; [apply Hf; reflexivity|congruence]. Qed.

Lemma ok_not_panic {A} (r : res A) (a : A) : r = Ok a -> r <> Panic.
Proof. congruence. Qed.

Lemma llen_nonneg {A} (l : list A) : 0 <= llen l.
Proof. unfold llen; lia. Qed.

(* ---------- partial operations succeed inside their range ---------- *)
Lemma byte_at_0_ok s : s <> [] -> exists c r, s = c :: r /\ byte_at s 0 = Ok c.
Proof.
  destruct s as [|c r]; [congruence|]; intros _.
  exists c, r; split; [reflexivity|].
  unfold byte_at. rewrite len_cons. pose proof (len_nonneg r) as Hr.
  destruct ((0 <=? 0) && (0 <? 1 + len r)) eqn:E; [reflexivity|lia].
Qed.

Lemma elem_at_ok {A} (l : list A) i :
  0 <= i < llen l -> exists x, elem_at l i = Ok x /\ nth_error l (Z.to_nat i) = Some x.
Proof.
  intros H. unfold elem_at, llen in *.
  destruct (nth_error l (Z.to_nat i)) as [a|] eqn:E.
  - exists a; split; [|reflexivity].
    destruct ((0 <=? i) && (i <? Z.of_nat (length l))) eqn:G; [reflexivity|lia].
  - apply nth_error_None in E. lia.
Qed.

Lemma elem_at_inv {A} (l : list A) i x : elem_at l i = Ok x -> 0 <= i < llen l.
Proof.
  unfold elem_at, llen.
  destruct ((0 <=? i) && (i <? Z.of_nat (length l))) eqn:G; [intros _; lia|discriminate].
Qed.

Lemma slice_ok s lo hi : 0 <= lo -> lo <= hi -> hi <= len s -> exists r, slice s lo hi = Ok r.
Proof.
  intros H1 H2 H3. unfold slice.
  destruct ((0 <=? lo) && (lo <=? hi) && (hi <=? len s)) eqn:G; [eexists; reflexivity|lia].
Qed.

Lemma slice_to_ok' s k : 0 <= k <= len s -> exists r, slice_to s k = Ok r.
Proof. intros H; rewrite slice_to_ok by exact H; eexists; reflexivity. Qed.

Lemma slice_from_ok' s k : 0 <= k <= len s -> exists r, slice_from s k = Ok r.
Proof. intros H; rewrite slice_from_ok by exact H; eexists; reflexivity. Qed.

Lemma elems_from_ok {A} (l : list A) k : 0 <= k <= llen l -> exists r, elems_from l k = Ok r.
Proof.
  intros H. unfold elems_from, llen in *.
  destruct ((0 <=? k) && (k <=? Z.of_nat (length l))) eqn:G; [eexists; reflexivity|lia].
Qed.

Lemma set_elem_ok {A} (l : list A) i x : 0 <= i < llen l -> exists r, set_elem l i x = Ok r.
Proof.
  intros H. unfold set_elem.
  destruct ((0 <=? i) && (i <? llen l)) eqn:G; [eexists; reflexivity|lia].
Qed.

Lemma set_nth_length {A} (l : list A) i x : length (set_nth l i x) = length l.
Proof. revert i; induction l as [|y l IH]; intros [|i]; simpl; auto. Qed.

Lemma set_elem_llen {A} (l : list A) i x r : set_elem l i x = Ok r -> llen r = llen l.
Proof.
  unfold set_elem. destruct ((0 <=? i) && (i <? llen l)); [|discriminate].
  intros [= <-]. unfold llen. rewrite set_nth_length. reflexivity.
Qed.

(* SplitN(s, sep, 2) returns one or two strings *)
Lemma split2_llen s sep : llen (split2 s sep) = 1 \/ llen (split2 s sep) = 2.
Proof. unfold split2. destruct (index s sep <? 0); [left|right]; reflexivity. Qed.

(* ---------- facts about strings.Index for a one-byte separator ---------- *)
Lemma index_byte_nth s c i : index s [c] = i -> i <> -1 -> nth_error s (Z.to_nat i) = Some c.
Proof.
  intros Hi Hne. destruct (index_found s [c]) as (a & b & Hs & Hl & _); [lia|].
  subst s. rewrite nth_error_app2 by (unfold len in Hl; lia).
  replace (Z.to_nat i - length a)%nat with 0%nat by (unfold len in Hl; lia).
  reflexivity.
Qed.

Lemma index_byte_distinct s c d : c <> d -> index s [c] <> -1 -> index s [c] <> index s [d].
Proof.
  intros Hcd Hc Heq.
  pose proof (index_byte_nth s c _ eq_refl Hc) as H1.
  assert (Hd : index s [d] <> -1) by lia.
  pose proof (index_byte_nth s d _ eq_refl Hd) as H2.
  rewrite Heq in H1. congruence.
Qed.

Lemma index_byte_head c0 r c : c0 <> c -> index (c0 :: r) [c] <> 0.
Proof.
  intros Hne H0.
  pose proof (index_byte_nth (c0 :: r) c 0 H0 ltac:(lia)) as Hn.
  simpl in Hn. congruence.
Qed.

(* ---------- Text / Target / Public: total on EVERY Line value ---------- *)
Lemma text_total l : text l <> Panic.
Proof.
  unfold text. destruct (llen (l_args l) >? 0) eqn:E; [|discriminate].
  destruct (elem_at_ok (l_args l) (llen (l_args l) - 1)) as (x & Hx & _); [lia|].
  rewrite Hx; discriminate.
Qed.

(* the guarded [x[k][0]] pattern of Public *)
Lemma public_arm_total (args : list bytes) (k : Z) : 0 <= k ->
  (g <- (if llen args <? k + 1 then Ok true
         else a <- elem_at args k ;; Ok (beq a [])) ;;
   if g then Ok false
   else a <- elem_at args k ;; c <- byte_at a 0 ;;
        if is_chan_byte c then Ok true else Ok false) <> Panic.
Proof.
  intros Hk. destruct (llen args <? k + 1) eqn:E; cbn [bind]; [discriminate|].
  destruct (elem_at_ok args k) as (a & Ha & _); [lia|].
  rewrite Ha; cbn [bind]. destruct (beq a []) eqn:Ea; [discriminate|].
  cbn [bind]. apply beq_neq in Ea.
  destruct (byte_at_0_ok a Ea) as (c & r & _ & Hc). rewrite Hc; cbn [bind].
  destruct (is_chan_byte c); discriminate.
Qed.

Lemma public_total l : public l <> Panic.
Proof.
  unfold public.
  destruct (beq (l_cmd l) cmd_PRIVMSG || beq (l_cmd l) cmd_NOTICE || beq (l_cmd l) cmd_ACTION).
  - exact (public_arm_total (l_args l) 0 ltac:(lia)).
  - destruct (beq (l_cmd l) cmd_CTCP || beq (l_cmd l) cmd_CTCPREPLY); [|discriminate].
    exact (public_arm_total (l_args l) 1 ltac:(lia)).
Qed.

(* Public() = true on a CTCP / CTCPREPLY line means there are at least two arguments *)
Lemma public_true_ctcp_args l :
  beq (l_cmd l) cmd_PRIVMSG || beq (l_cmd l) cmd_NOTICE || beq (l_cmd l) cmd_ACTION = false ->
  beq (l_cmd l) cmd_CTCP || beq (l_cmd l) cmd_CTCPREPLY = true ->
  public l = Ok true -> 2 <= llen (l_args l).
Proof.
  intros H1 H2. unfold public. rewrite H1, H2.
  destruct (llen (l_args l) <? 2) eqn:E; simpl; [discriminate|lia].
Qed.

Lemma target_total l : target l <> Panic.
Proof.
  unfold target.
  assert (Hafter : (if llen (l_args l) >? 0 then elem_at (l_args l) 0 else Ok []) <> Panic).
  { destruct (llen (l_args l) >? 0) eqn:E; [|discriminate].
    destruct (elem_at_ok (l_args l) 0) as (x & Hx & _); [lia|]. rewrite Hx; discriminate. }
  destruct (beq (l_cmd l) cmd_PRIVMSG || beq (l_cmd l) cmd_NOTICE || beq (l_cmd l) cmd_ACTION) eqn:H1.
  - apply bind_not_panic; [apply public_total|].
    intros p _. destruct (negb p); [discriminate|exact Hafter].
  - destruct (beq (l_cmd l) cmd_CTCP || beq (l_cmd l) cmd_CTCPREPLY) eqn:H2; [|exact Hafter].
    apply bind_not_panic; [apply public_total|].
    intros p Hp. destruct p; simpl; [|discriminate].
    pose proof (public_true_ctcp_args l H1 H2 Hp) as Hlen.
    destruct (elem_at_ok (l_args l) 1) as (x & Hx & _); [lia|]. rewrite Hx; discriminate.
Qed.

Lemma accessors_total l : text l <> Panic /\ target l <> Panic /\ public l <> Panic.
Proof. split; [apply text_total|split; [apply target_total|apply public_total]]. Qed.

(* ---------- ParseLine ---------- *)
(* Stated for ANY [fields_fn] (strings.Fields), [upper_fn] (strings.ToUpper) and
   [trim_space_fn] (strings.TrimSpace): NO hypothesis about these three functions is needed —
   the [len(fields) == 0] guard, not a property of strings.Fields, protects [args[0]], and
   empty arguments are handled by the [== ""] guards of Public.  (DESIGN.md planned the
   hypothesis "Fields returns non-empty fields"; the theorems below are stronger.
   [fields_nonempty_ascii] at the end of this file shows the executable instance has that
   property anyway.) *)
Section ParseTotal.
  Context (fields_fn : bytes -> list bytes) (upper_fn trim_space_fn : bytes -> bytes).

  Lemma parse_user_host_total uh : parse_user_host_with trim_space_fn uh <> Panic.
  Proof.
    clear fields_fn upper_fn.
    unfold parse_user_host_with.
    set (u := trim_space_fn uh).
    destruct ((index u s_at =? -1) || (index u s_bang =? -1) || (index u s_bang >? index u s_at)) eqn:G;
      [discriminate|].
    pose proof (index_range u s_bang) as Hn. pose proof (index_range u s_at) as Hu.
    unfold s_bang, s_at in Hn, Hu, G |- *.
    assert (Hne : index u [33%N] <> index u [64%N])
      by (apply index_byte_distinct; [discriminate|lia]).
    change (len [33%N]) with 1 in Hn. change (len [64%N]) with 1 in Hu.
    destruct (slice_to_ok' u (index u [33%N])) as (n & Hn'); [lia|].
    destruct (slice_ok u (index u [33%N] + 1) (index u [64%N])) as (i & Hi'); [lia|lia|lia|].
    destruct (slice_from_ok' u (index u [64%N] + 1)) as (h & Hh'); [lia|].
    rewrite Hn'; cbn [bind]. rewrite Hi'; cbn [bind]. rewrite Hh'; cbn [bind]. discriminate.
  Qed.

  Lemma parse_tag_total m tag : parse_tag m tag <> Panic.
  Proof.
    clear fields_fn upper_fn trim_space_fn.
    unfold parse_tag. destruct (beq tag []); [discriminate|].
    set (pair := split2 (tags_unescape tag) s_eq).
    destruct (llen pair <? 2) eqn:E; [discriminate|].
    destruct (elem_at_ok pair 0) as (k & Hk & _); [lia|].
    destruct (elem_at_ok pair 1) as (v & Hv & _); [lia|].
    rewrite Hk; cbn [bind]. rewrite Hv; cbn [bind]. discriminate.
  Qed.

  Lemma fold_parse_tag_total l m : fold_res parse_tag l m <> Panic.
  Proof.
    clear fields_fn upper_fn trim_space_fn.
    revert m; induction l as [|t l IH]; intros m; simpl; [discriminate|].
    apply bind_not_panic; [apply parse_tag_total|]. intros m' _. apply IH.
  Qed.

  (* the shared shape of the '@' and ':' blocks: first byte is [c], cut at the first space *)
  Lemma cut_at_space_ok c0 r : c0 <> 32%N -> index (c0 :: r) s_space <> -1 ->
    exists a b, slice (c0 :: r) 1 (index (c0 :: r) s_space) = Ok a
                /\ slice_from (c0 :: r) (index (c0 :: r) s_space + 1) = Ok b.
  Proof.
    clear fields_fn upper_fn trim_space_fn.
    intros Hc Hi. set (s := c0 :: r) in Hi |- *.
    pose proof (index_range s s_space) as Hr. change (len s_space) with 1 in Hr.
    pose proof (index_byte_head c0 r 32%N Hc) as H0. fold s in H0. unfold s_space in Hr, H0, Hi |- *.
    destruct (slice_ok s 1 (index s [32%N])) as (a & Ha); [lia|lia|lia|].
    destruct (slice_from_ok' s (index s [32%N] + 1)) as (b & Hb); [lia|].
    exists a, b; split; assumption.
  Qed.

  Lemma parse_tags_stage_total s : s <> [] -> parse_tags_stage s <> Panic.
  Proof.
    clear fields_fn upper_fn trim_space_fn.
    intros Hs. unfold parse_tags_stage.
    destruct (byte_at_0_ok s Hs) as (c0 & r & -> & Hc). rewrite Hc; cbn [bind].
    destruct (N.eqb c0 c_at) eqn:E; [|discriminate].
    apply N.eqb_eq in E; subst c0.
    destruct (negb (index (c_at :: r) s_space =? -1)) eqn:G; [|discriminate].
    destruct (cut_at_space_ok c_at r) as (a & b & Ha & Hb); [discriminate|lia|].
    rewrite Ha; cbn [bind]. rewrite Hb; cbn [bind].
    apply bind_not_panic; [apply fold_parse_tag_total|]. intros; discriminate.
  Qed.

  Lemma parse_src_stage_total s : s <> [] -> parse_src_stage trim_space_fn s <> Panic.
  Proof.
    clear fields_fn upper_fn.
    intros Hs. unfold parse_src_stage.
    destruct (byte_at_0_ok s Hs) as (c0 & r & -> & Hc). rewrite Hc; cbn [bind].
    destruct (N.eqb c0 c_colon) eqn:E; [|discriminate].
    apply N.eqb_eq in E; subst c0.
    destruct (negb (index (c_colon :: r) s_space =? -1)) eqn:G; [|discriminate].
    destruct (cut_at_space_ok c_colon r) as (a & b & Ha & Hb); [discriminate|lia|].
    rewrite Ha; cbn [bind]. rewrite Hb; cbn [bind].
    apply bind_not_panic; [apply parse_user_host_total|].
    intros [[[n i] h]|] _; discriminate.
  Qed.

  (* what the args stage returns is irrelevant to totality; it never panics *)
  Lemma parse_args_stage_total s : parse_args_stage fields_fn upper_fn s <> Panic.
  Proof.
    clear trim_space_fn.
    unfold parse_args_stage.
    set (args0 := split2 s s_space_colon).
    pose proof (split2_llen s s_space_colon) as Hl. fold args0 in Hl.
    destruct (elem_at_ok args0 0) as (a0 & Ha0 & _); [lia|]. rewrite Ha0; cbn [bind].
    set (flds := fields_fn a0).
    destruct (llen flds =? 0) eqn:E0; [discriminate|].
    assert (Hargs : forall args, 1 <= llen args ->
              (c <- elem_at args 0 ;;
               largs <- (if llen args >? 1 then elems_from args 1 else Ok []) ;;
               Ok (Some (upper_fn c, largs))) <> Panic).
    { intros args Hge.
      destruct (elem_at_ok args 0) as (c & Hc & _); [lia|]. rewrite Hc; cbn [bind].
      destruct (llen args >? 1) eqn:E1; simpl; [|discriminate].
      destruct (elems_from_ok args 1) as (la & Hla); [lia|]. rewrite Hla; cbn [bind]. discriminate. }
    pose proof (llen_nonneg flds) as Hf.
    destruct (llen args0 >? 1) eqn:E1.
    - destruct (elem_at_ok args0 1) as (a1 & Ha1 & _); [lia|]. rewrite Ha1; cbn [bind].
      apply Hargs. unfold llen in Hf |- *. rewrite app_length. simpl. lia.
    - simpl. apply Hargs. lia.
  Qed.

  Lemma is_ctcp_cond_total cmd largs : is_ctcp_cond cmd largs <> Panic.
  Proof.
    clear fields_fn upper_fn trim_space_fn.
    unfold is_ctcp_cond.
    destruct (beq cmd cmd_PRIVMSG || beq cmd cmd_NOTICE); [|discriminate].
    destruct (llen largs >? 1) eqn:E; [|discriminate].
    destruct (elem_at_ok largs 1) as (x & Hx & _); [lia|]. rewrite Hx; cbn [bind].
    destruct (len x >? 2); [|discriminate]. cbn [bind].
    destruct (has_prefix x s_soh); [|discriminate]. cbn [bind]. discriminate.
  Qed.

  Lemma is_ctcp_cond_true cmd largs : is_ctcp_cond cmd largs = Ok true -> 2 <= llen largs.
  Proof.
    clear fields_fn upper_fn trim_space_fn.
    unfold is_ctcp_cond.
    destruct (beq cmd cmd_PRIVMSG || beq cmd cmd_NOTICE); [|discriminate].
    destruct (llen largs >? 1) eqn:E; [intros _; lia|discriminate].
  Qed.

  Lemma ctcp_rewrite_total cmd largs : 2 <= llen largs -> ctcp_rewrite upper_fn cmd largs <> Panic.
  Proof.
    clear fields_fn trim_space_fn.
    intros Hl. unfold ctcp_rewrite.
    destruct (elem_at_ok largs 1) as (x & Hx & _); [lia|]. rewrite Hx; cbn [bind].
    set (t := split2 (trim x s_soh) s_space).
    pose proof (split2_llen (trim x s_soh) s_space) as Ht. fold t in Ht.
    destruct (elem_at_ok t 0) as (t0 & Ht0 & _); [lia|].
    assert (Hk : forall la, (t0' <- elem_at t 0 ;;
                   (if beq (upper_fn t0') cmd_ACTION && beq cmd cmd_PRIVMSG then Ok (upper_fn t0', la)
                    else Ok (if beq cmd cmd_PRIVMSG then cmd_CTCP else cmd_CTCPREPLY, upper_fn t0' :: la)))
                   <> Panic).
    { intros la. rewrite Ht0; cbn [bind].
      destruct (beq (upper_fn t0) cmd_ACTION && beq cmd cmd_PRIVMSG); discriminate. }
    destruct (llen t >? 1) eqn:E.
    - destruct (elem_at_ok t 1) as (t1 & Ht1 & _); [lia|]. rewrite Ht1; cbn [bind].
      destruct (set_elem_ok largs 1 t1) as (la & Hla); [lia|]. rewrite Hla; cbn [bind]. apply Hk.
    - simpl. apply Hk.
  Qed.

  Theorem parse_with_total s : parse_with fields_fn upper_fn trim_space_fn s <> Panic.
  Proof.
    unfold parse_with. destruct (beq s []) eqn:Es; [discriminate|]. apply beq_neq in Es.
    apply bind_not_panic; [apply parse_tags_stage_total; exact Es|].
    intros [[tags s1]|] _; [|discriminate].
    destruct (beq s1 []) eqn:Es1; [discriminate|]. apply beq_neq in Es1.
    apply bind_not_panic; [apply parse_src_stage_total; exact Es1|].
    intros [[[[[src nick] ident] host] s2]|] _; [|discriminate].
    apply bind_not_panic; [apply parse_args_stage_total|].
    intros [[cmd largs]|] _; [|discriminate].
    apply bind_not_panic; [apply is_ctcp_cond_total|].
    intros b Hb.
    apply bind_not_panic; [|intros; discriminate].
    destruct b; [|discriminate].
    apply ctcp_rewrite_total. exact (is_ctcp_cond_true _ _ Hb).
  Qed.

  Theorem recv_one_with_total s : recv_one_with fields_fn upper_fn trim_space_fn s <> Panic.
  Proof. unfold recv_one_with. apply parse_with_total. Qed.

  (* the C02 oracle predicate holds of every model run *)
  Theorem c02_flags_with_ok s :
    C02_ok (c02_flags_with (parse_with fields_fn upper_fn trim_space_fn) s) = true.
  Proof.
    unfold c02_flags_with.
    pose proof (parse_with_total s) as Hp.
    destruct (parse_with fields_fn upper_fn trim_space_fn s) as [[l|]|]; [| reflexivity | congruence].
    destruct (accessors_total l) as (Ht & Hg & Hpb).
    unfold C02_ok, panicked. simpl.
    destruct (text l); [|congruence]. destruct (target l); [|congruence].
    destruct (public l); [|congruence]. reflexivity.
  Qed.
End ParseTotal.

(* ---------- the ASCII instance ---------- *)
Lemma fields_aux_nonempty s cur :
  Forall (fun f => f <> []) (fields_aux s cur).
Proof.
  revert cur; induction s as [|x s IH]; intros cur; simpl.
  - destruct cur as [|c cur]; [constructor|].
    constructor; [|constructor]. intros H. apply (f_equal (@length N)) in H.
    rewrite rev_length in H. simpl in H. lia.
  - destruct (is_space x).
    + destruct cur as [|c cur]; [apply IH|].
      constructor; [|apply IH]. intros H. apply (f_equal (@length N)) in H.
      rewrite rev_length in H. simpl in H. lia.
    + apply IH.
Qed.

Lemma fields_nonempty_ascii s : Forall (fun f => f <> []) (fields s).
Proof. apply fields_aux_nonempty. Qed.

Theorem parse_total s : parse s <> Panic.
Proof. exact (parse_with_total fields to_upper trim_space s). Qed.

Theorem recv_one_total s : recv_one s <> Panic.
Proof. exact (recv_one_with_total fields to_upper trim_space s). Qed.

Theorem parse_user_host_total_ascii uh : parse_user_host uh <> Panic.
Proof. exact (parse_user_host_total trim_space uh). Qed.

Theorem c02_flags_ok s : C02_ok (c02_flags s) = true.
Proof. exact (c02_flags_with_ok fields to_upper trim_space s). Qed.
