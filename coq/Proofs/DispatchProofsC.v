(* Proofs/DispatchProofsC.v — C16, safety half: while the connection stays up, every foreground
   invocation of every delivered line is entered once and finished once (returned, or panicked and
   recovered once), whatever its siblings and the background handlers do; background invocations
   are sane (at most once, in order).  The per-invocation scan state of the monitor is related
   to the program point of the handler goroutine. *)
From Coq Require Import List Arith Bool Lia.
From Verif Require Import Lts DispatchLts DispatchProofsA.
Import ListNotations.
Local Open Scope nat_scope.

(* ---------- the per-invocation scan ---------- *)
Definition ist_of (p : hpc) : ist :=
  match p with HReady => INone | HRun => IEntered | HPanicked => IPanicked | _ => IFinished end.

Definition trans (t : etag) (o : ist) : option ist :=
  match t, o with
  | TgEnter, INone => Some IEntered
  | TgExit, IEntered => Some IFinished
  | TgPanic, IEntered => Some IPanicked
  | TgRecovered, IPanicked => Some IFinished
  | _, _ => None
  end.

Lemma kind_eqb_refl k : kind_eqb k k = true.
Proof. destruct k; reflexivity. Qed.
Lemma kind_eqb_eq a b : kind_eqb a b = true -> a = b.
Proof. destruct a, b; simpl; congruence. Qed.

Lemma inst_state_snoc kd k i h e :
  inst_state kd k i (h ++ [e]) = match inst_state kd k i h with Some o => iscan kd k i o e | None => None end.
Proof. unfold inst_state, fold_opt. rewrite fold_left_app. reflexivity. Qed.

Definition not_mine (kd : kind) (k i : nat) (e : event) : Prop := forall t, is_ev t kd k i e = false.

Lemma iscan_other kd k i o e : not_mine kd k i e -> iscan kd k i o e = Some o.
Proof. intros H. unfold iscan. now rewrite !H. Qed.

Lemma is_ev_mk t kd k i t' kd' k' i' a :
  is_ev t kd k i (mk_event t' kd' k' i' a) = true -> t = t' /\ kd = kd' /\ k = k' /\ i = i'.
Proof.
  destruct t, t'; simpl; try discriminate; intros H;
    apply andb_true_iff in H as [H H3]; apply andb_true_iff in H as [H1 H2];
    apply kind_eqb_eq in H1; apply Nat.eqb_eq in H2; apply Nat.eqb_eq in H3; auto.
Qed.

Lemma not_mine_mk kd k i t' kd' k' i' a :
  kd <> kd' \/ k <> k' \/ i <> i' -> not_mine kd k i (mk_event t' kd' k' i' a).
Proof.
  intros H t. destruct (is_ev t kd k i (mk_event t' kd' k' i' a)) eqn:E; [|reflexivity].
  apply is_ev_mk in E as (_ & E1 & E2 & E3). exfalso. destruct H as [H|[H|H]]; auto.
Qed.

Lemma not_mine_applied kd k i k' : not_mine kd k i (EvApplied k').
Proof. intros t. destruct t; reflexivity. Qed.

Lemma iscan_mk_same kd k i o t a : iscan kd k i o (mk_event t kd k i a) = trans t o.
Proof.
  unfold iscan. destruct t; simpl; rewrite ?kind_eqb_refl, ?Nat.eqb_refl; simpl; destruct o; reflexivity.
Qed.

Lemma trans_hstep pc a pc' t : hstep_spec false pc a pc' (Some t) -> trans t (ist_of pc) = Some (ist_of pc').
Proof. intros H; inversion H; subst; reflexivity. Qed.
Lemma ist_hstep_none pc a pc' : hstep_spec false pc a pc' None -> ist_of pc' = ist_of pc.
Proof. intros H; inversion H; subst; reflexivity. Qed.

Lemma state_other kd k i h o e :
  inst_state kd k i h = Some o -> not_mine kd k i e -> inst_state kd k i (h ++ [e]) = Some o.
Proof. intros H1 H2. rewrite inst_state_snoc, H1. now apply iscan_other. Qed.

Lemma state_same kd k i h pc a pc' t x :
  inst_state kd k i h = Some (ist_of pc) -> hstep_spec false pc a pc' (Some t) ->
  inst_state kd k i (h ++ [mk_event t kd k i x]) = Some (ist_of pc').
Proof. intros H1 H2. rewrite inst_state_snoc, H1, iscan_mk_same. eapply trans_hstep; eauto. Qed.

(* the history of a group step *)
Lemma hist_emit s o kd k i :
  hist (emit s o kd k i) = match o with Some t => hist s ++ [mk_event t kd k i (applied s)] | None => hist s end.
Proof. destruct o; reflexivity. Qed.

(* an invocation's state after a group step by handler (kd', k', i') *)
Lemma state_emit kd k i s o kd' k' i' st0 :
  inst_state kd k i (hist s) = Some st0 ->
  kd <> kd' \/ k <> k' \/ i <> i' ->
  forall s1, hist s1 = hist s -> applied s1 = applied s ->
  inst_state kd k i (hist (emit s1 o kd' k' i')) = Some st0.
Proof.
  intros H Hne s1 Hh Ha. rewrite hist_emit, Hh. destruct o as [t|]; [|exact H].
  apply state_other; [exact H|]. now apply not_mine_mk.
Qed.

(* ---------- the background table ---------- *)
Lemma bkey_eqb_refl a : bkey_eqb a a = true.
Proof. destruct a; simpl; auto using Nat.eqb_refl. Qed.

Lemma bkey_eqb_neq a b : a <> b -> bkey_eqb a b = false.
Proof. intros H. destruct (bkey_eqb a b) eqn:E; [|reflexivity]. apply bkey_eqb_eq in E. contradiction. Qed.

Lemma bg_find_set_same key l x y : bg_find key l = Some x -> bg_find key (bg_set key y l) = Some y.
Proof.
  induction l as [|[k1 g1] l IH]; simpl; [discriminate|].
  destruct (bkey_eqb key k1) eqn:E; simpl; rewrite E; auto.
Qed.

Lemma bg_find_set_other key key' l y : key' <> key -> bg_find key' (bg_set key y l) = bg_find key' l.
Proof.
  intros Hne. induction l as [|[k1 g1] l IH]; simpl; [reflexivity|].
  destruct (bkey_eqb key k1) eqn:E; simpl.
  - apply bkey_eqb_eq in E. subst k1. now rewrite (bkey_eqb_neq _ _ Hne).
  - destruct (bkey_eqb key' k1); auto.
Qed.

Lemma bg_find_app key l key' x :
  bg_find key (l ++ [(key', x)]) =
  match bg_find key l with Some y => Some y | None => if bkey_eqb key key' then Some x else None end.
Proof.
  induction l as [|[k1 g1] l IH]; simpl; [reflexivity|]. destruct (bkey_eqb key k1); auto.
Qed.

(* ---------- contiguity of the pipeline while nothing is discarded ---------- *)
Definition contig (lo : nat) (l : list nat) (hi : nat) : Prop := l = seq lo (hi - lo) /\ lo <= hi.

Lemma contig_snoc lo l hi : contig lo l hi -> contig lo (l ++ [hi]) (S hi).
Proof.
  intros [H1 H2]. split; [|lia]. subst l. replace (S hi - lo) with ((hi - lo) + 1) by lia.
  rewrite seq_app. simpl. repeat f_equal. lia.
Qed.

Lemma contig_cons lo x l hi : contig lo (x :: l) hi -> x = lo /\ contig (S lo) l hi.
Proof.
  intros [H1 H2]. destruct (hi - lo) as [|n] eqn:E; simpl in H1; [discriminate|].
  inversion H1; subst. split; [reflexivity|]. split; [|lia]. f_equal. lia.
Qed.

Lemma contig_nil lo hi : contig lo [] hi -> lo = hi.
Proof. intros [H1 H2]. destruct (hi - lo) eqn:E; simpl in H1; [lia|discriminate]. Qed.

Section C.
  Variable sess : session.
  Hypothesis Hnc : can_close sess = false.      (* the connection stays up *)

  Definition expFg (s : st) (k i : nat) : ist :=
    if Nat.ltb k (lob s) then IFinished
    else match lpc s with
         | LFg k' => if Nat.eqb k k'
                     then match nth_error (g_fg s) i with Some pc => ist_of pc | None => INone end
                     else INone
         | _ => INone
         end.
  Definition expBg (s : st) (k i : nat) : ist :=
    match bg_find (BLine k) (bgs s) with
    | Some (Some g) => match nth_error g i with Some pc => ist_of pc | None => INone end
    | _ => INone
    end.

  Record InvC (s : st) : Prop := {
    C_idle : cancelled s = false /\ cpc s = CIdle;
    C_contig : contig (lob' s) (inq s ++ optl (rhold s)) (rpos s);
    C_len : forall k, lpc s = LFg k -> length (g_fg s) = n_fg (line_of sess k);
    C_fg : forall k i, i < n_fg (line_of sess k) -> inst_state KFg k i (hist s) = Some (expFg s k i);
    C_bg : forall k i, inst_state KBg k i (hist s) = Some (expBg s k i);
    C_bglen : forall k g, bg_find (BLine k) (bgs s) = Some g ->
                k < length (lines sess) /\ forall g', g = Some g' -> length g' = n_bg (line_of sess k);
    C_range : forallb (event_in_range sess) (hist s) = true }.

  Lemma InvC_init : InvC init.
  Proof.
    constructor; simpl; auto; try discriminate.
    - unfold contig, lob'; simpl. split; [reflexivity|lia].
  Qed.

  Ltac inv H := inversion H; subst; clear H.

  Lemma range_snoc h e : forallb (event_in_range sess) (h ++ [e])
                         = forallb (event_in_range sess) h && event_in_range sess e.
  Proof. rewrite forallb_app. simpl. now rewrite andb_true_r. Qed.

  Lemma range_emit s o kd k i :
    forallb (event_in_range sess) (hist s) = true ->
    (forall t, event_in_range sess (mk_event t kd k i (applied s)) = true) ->
    forallb (event_in_range sess) (hist (emit s o kd k i)) = true.
  Proof.
    intros H1 H2. rewrite hist_emit. destruct o as [t|]; [|exact H1].
    rewrite range_snoc, H1, H2. reflexivity.
  Qed.

  Lemma range_other t kd k i a :
    kd <> KFg -> kd <> KBg -> event_in_range sess (mk_event t kd k i a) = true.
  Proof. intros H1 H2. destruct t, kd; simpl; auto; congruence. Qed.

  (* a step that leaves lpc/applied/g_fg alone and adds only foreign events keeps C_fg *)
  Lemma expFg_keep s s' k i :
    lpc s' = lpc s -> applied s' = applied s -> g_fg s' = g_fg s -> expFg s' k i = expFg s k i.
  Proof. intros H1 H2 H3. unfold expFg, lob. now rewrite H1, H2, H3. Qed.
  Lemma expBg_keep s s' k i : bgs s' = bgs s -> expBg s' k i = expBg s k i.
  Proof. intros H. unfold expBg. now rewrite H. Qed.

  (* a step that touches none of what InvC talks about and adds at most one foreign event *)
  Definition foreign (e : event) : Prop :=
    (forall k i, not_mine KFg k i e) /\ (forall k i, not_mine KBg k i e) /\ event_in_range sess e = true.

  Lemma InvC_foreign s s' :
    InvC s ->
    lpc s' = lpc s -> applied s' = applied s -> g_fg s' = g_fg s -> cancelled s' = cancelled s ->
    cpc s' = cpc s -> inq s' = inq s -> rhold s' = rhold s -> rpos s' = rpos s ->
    (forall k, bg_find (BLine k) (bgs s') = bg_find (BLine k) (bgs s)) ->
    (hist s' = hist s \/ exists e, hist s' = hist s ++ [e] /\ foreign e) ->
    InvC s'.
  Proof.
    intros [Cid Cco Cle Cfg Cbg Cbl Cra] H1 H2 H3 H4 H5 H6 H7 H8 H9 H10.
    assert (Ef : forall k i, expFg s' k i = expFg s k i) by (intros; now apply expFg_keep).
    assert (Eb : forall k i, expBg s' k i = expBg s k i) by (intros; unfold expBg; now rewrite H9).
    constructor.
    - now rewrite H4, H5.
    - unfold lob'. now rewrite H1, H2, H6, H7, H8.
    - intros k. rewrite H1, H3. apply Cle.
    - intros k i Hi. rewrite Ef. destruct H10 as [->|(e & -> & F1 & _ & _)]; [now apply Cfg|].
      apply state_other; auto.
    - intros k i. rewrite Eb. destruct H10 as [->|(e & -> & _ & F2 & _)]; [now apply Cbg|].
      apply state_other; auto.
    - intros k g. rewrite H9. apply Cbl.
    - destruct H10 as [->|(e & -> & _ & _ & F3)]; [exact Cra|]. now rewrite range_snoc, Cra, F3.
  Qed.

  Lemma foreign_mk t kd k i a : kd <> KFg -> kd <> KBg -> foreign (mk_event t kd k i a).
  Proof.
    intros H1 H2. repeat split.
    - intros k0 i0. apply not_mine_mk. left. congruence.
    - intros k0 i0. apply not_mine_mk. left. congruence.
    - now apply range_other.
  Qed.

  Lemma hist_emit_foreign s0 s1 o kd k i :
    hist s1 = hist s0 -> kd <> KFg -> kd <> KBg ->
    hist (emit s1 o kd k i) = hist s0 \/ exists e, hist (emit s1 o kd k i) = hist s0 ++ [e] /\ foreign e.
  Proof.
    intros H H1 H2. rewrite hist_emit, H. destruct o as [t|]; [right|now left].
    eexists. split; [reflexivity|]. now apply foreign_mk.
  Qed.

  Ltac fmk := first [apply (foreign_mk TgEnter)|apply (foreign_mk TgExit)
                    |apply (foreign_mk TgPanic _ _ _ 0)|apply (foreign_mk TgRecovered _ _ _ 0)]; discriminate.
  Ltac fhist := first [left; reflexivity|right; eexists; split; [reflexivity|fmk]].

  Lemma InvC_handler s g i a s' :
    InvA sess s -> InvC s -> step_handler sess s g i a = Some s' -> InvC s'.
  Proof.
    intros HA HC Hs. pose proof HC as HC0.
    destruct HA as [Hpipe Hrpos Happ Hint Hfg Hconn Hnest Hnestw Hdisc Hcan Hbg].
    destruct HC as [Cid Cco Cle Cfg Cbg Cbl Cra].
    destruct g as [| | | |key]; simpl in Hs.
    - (* GInt *)
      destruct (lpc s) as [|k|k|] eqn:El; try discriminate.
      destruct (nth_error (g_int s) i) as [pc|] eqn:En; [|destruct a; discriminate].
      destruct pc, a; simpl in Hs; try discriminate;
        try (inv Hs; apply (InvC_foreign s); auto; fhist).
      + (* HNest *)
        inv Hs. apply (InvC_foreign s); auto. simpl. intros k0. rewrite bg_find_app. simpl.
        destruct (bg_find (BLine k0) (bgs s)); reflexivity.
      + (* HNestW *)
        destruct (all_done (g_conn s)); inv Hs. apply (InvC_foreign s); auto.
    - (* GFg *)
      destruct (lpc s) as [|k|k|] eqn:El; try discriminate.
      apply plain_inv in Hs as (pc & pc' & o & Hn & Hsp & ->).
      assert (Hk : k < length (lines sess)).
      { unfold lob' in Hpipe. rewrite El in Hpipe. apply chain_le in Hpipe. lia. }
      assert (Hi : i < n_fg (line_of sess k)).
      { rewrite <- (Cle k eq_refl). apply nth_error_Some. congruence. }
      destruct (emit_fields (set_g_fg s (hupd (g_fg s) i pc')) o KFg k i)
        as (E1 & E2 & E3 & E4 & E5 & E6 & E7 & E8 & E9 & E10 & E11 & E12).
      simpl in E1, E2, E3, E4, E5, E6, E7, E8, E9, E10, E11, E12.
      constructor.
      + now rewrite E6, E7.
      + unfold lob'. now rewrite E4, E5, E3, E2, E1.
      + intros k0. rewrite E4, E9, El. simpl. rewrite hupd_length. apply Cle.
      + intros k0 i0 Hi0. specialize (Cfg k0 i0 Hi0).
        unfold expFg, lob in *. rewrite E4, E5, E9, El in *. simpl.
        destruct (Nat.ltb k0 k) eqn:Elt.
        * apply Nat.ltb_lt in Elt. eapply state_emit; eauto. right; left; lia.
        * destruct (Nat.eqb k0 k) eqn:Eeq.
          -- apply Nat.eqb_eq in Eeq. subst k0. destruct (Nat.eq_dec i0 i) as [->|Hne].
             ++ rewrite (nth_hupd_same _ _ _ _ Hn). rewrite Hn in Cfg.
                rewrite hist_emit. simpl. destruct o as [t|].
                ** eapply state_same; eauto.
                ** rewrite Cfg. f_equal. symmetry. eapply ist_hstep_none; eauto.
             ++ rewrite nth_hupd_other by auto. eapply state_emit; eauto.
          -- apply Nat.eqb_neq in Eeq. eapply state_emit; eauto.
      + intros k0 i0. unfold expBg. rewrite E12. simpl. eapply state_emit; eauto. left; discriminate.
      + intros k0 g0. rewrite E12. simpl. apply Cbl.
      + apply range_emit; [exact Cra|]. intros t.
        assert (H1 : Nat.ltb k (length (lines sess)) = true) by (now apply Nat.ltb_lt).
        assert (H2 : Nat.ltb i (n_fg (line_of sess k)) = true) by (now apply Nat.ltb_lt).
        destruct t; simpl; now rewrite H1, H2.
    - (* GConnFg *)
      destruct (lpc s) as [|k|k|] eqn:El; try discriminate.
      apply plain_inv in Hs as (pc & pc' & o & Hn & Hsp & ->).
      destruct (emit_fields (set_g_conn s (hupd (g_conn s) i pc')) o KConnFg k i)
        as (E1 & E2 & E3 & E4 & E5 & E6 & E7 & E8 & E9 & E10 & E11 & E12).
      apply (InvC_foreign s); auto.
      + intros k0. now rewrite E12.
      + apply hist_emit_foreign; [reflexivity|discriminate|discriminate].
    - (* GDiscFg *)
      apply plain_inv in Hs as (pc & pc' & o & Hn & Hsp & ->).
      destruct (emit_fields (set_g_disc s (hupd (g_disc s) i pc')) o KDiscFg 0 i)
        as (E1 & E2 & E3 & E4 & E5 & E6 & E7 & E8 & E9 & E10 & E11 & E12).
      apply (InvC_foreign s); auto.
      + intros k0. now rewrite E12.
      + apply hist_emit_foreign; [reflexivity|discriminate|discriminate].
    - (* GBg *)
      destruct (bg_find key (bgs s)) as [[g|]|] eqn:Ef; try discriminate.
      apply plain_inv in Hs as (pc & pc' & o & Hn & Hsp & ->).
      destruct (emit_fields (set_bgs s (bg_set key (Some (hupd g i pc')) (bgs s))) o
                            (fst (bg_kind key)) (snd (bg_kind key)) i)
        as (E1 & E2 & E3 & E4 & E5 & E6 & E7 & E8 & E9 & E10 & E11 & E12).
      simpl in E1, E2, E3, E4, E5, E6, E7, E8, E9, E10, E11, E12.
      destruct key as [kb|kb|]; cbn [bg_kind fst snd] in *.
      + (* a background handler of line kb *)
        destruct (Cbl kb _ Ef) as [Hkb Hlen]. specialize (Hlen g eq_refl).
        assert (Hib : i < n_bg (line_of sess kb)).
        { rewrite <- Hlen. apply nth_error_Some. congruence. }
        constructor.
        * now rewrite E6, E7.
        * unfold lob'. now rewrite E4, E5, E3, E2, E1.
        * intros k0. rewrite E4, E9. apply Cle.
        * intros k0 i0 Hi0. rewrite (expFg_keep s) by auto.
          eapply state_emit; eauto. left; discriminate.
        * intros k0 i0. specialize (Cbg k0 i0). unfold expBg in *. rewrite E12.
          destruct (Nat.eq_dec k0 kb) as [->|Hne].
          -- rewrite (bg_find_set_same _ _ _ _ Ef). rewrite Ef in Cbg.
             destruct (Nat.eq_dec i0 i) as [->|Hni].
             ++ rewrite (nth_hupd_same _ _ _ _ Hn). rewrite Hn in Cbg.
                rewrite hist_emit. simpl. destruct o as [t|].
                ** eapply state_same; eauto.
                ** rewrite Cbg. f_equal. symmetry. eapply ist_hstep_none; eauto.
             ++ rewrite nth_hupd_other by auto. eapply state_emit; eauto.
          -- rewrite bg_find_set_other by congruence. eapply state_emit; eauto.
        * intros k0 g0. rewrite E12. destruct (Nat.eq_dec k0 kb) as [->|Hne].
          -- rewrite (bg_find_set_same _ _ _ _ Ef). intros H; inv H. split; [exact Hkb|].
             intros g' H; inv H. now rewrite hupd_length.
          -- rewrite bg_find_set_other by congruence. apply Cbl.
        * apply range_emit; [exact Cra|]. intros t.
          assert (H1 : Nat.ltb kb (length (lines sess)) = true) by (now apply Nat.ltb_lt).
          assert (H2 : Nat.ltb i (n_bg (line_of sess kb)) = true) by (now apply Nat.ltb_lt).
          destruct t; simpl; now rewrite H1, H2.
      + apply (InvC_foreign s); auto.
        * intros k0. rewrite E12. apply bg_find_set_other. discriminate.
        * apply hist_emit_foreign; [reflexivity|discriminate|discriminate].
      + apply (InvC_foreign s); auto.
        * intros k0. rewrite E12. apply bg_find_set_other. discriminate.
        * apply hist_emit_foreign; [reflexivity|discriminate|discriminate].
  Qed.

  Lemma InvC_step s t s' : InvA sess s -> InvC s -> step sess s t = Some s' -> InvC s'.
  Proof.
    intros HA HC Hs. pose proof HA as HA0. pose proof HC as HC0.
    destruct HA as [Hpipe Hrpos Happ Hint Hfg Hconn Hnest Hnestw Hdisc Hcan Hbg].
    destruct HC as [[Cid1 Cid2] Cco Cle Cfg Cbg Cbl Cra].
    destruct t as [| | | | |key|g i|g i]; simpl in Hs.
    - (* TRecv *)
      destruct (rhold s) as [k|] eqn:Eh.
      + destruct (Nat.ltb (length (inq s)) cap_in); inv Hs.
        constructor; simpl; auto. unfold lob' in *; simpl in *. now rewrite app_nil_r.
      + destruct (Nat.ltb (rpos s) (length (lines sess))); inv Hs.
        constructor; simpl; auto. unfold lob' in *; simpl in *. rewrite app_nil_r in Cco.
        now apply contig_snoc.
    - (* TLoop *)
      destruct (lpc s) as [|k|k|] eqn:El.
      + destruct (inq s) as [|k q] eqn:Eq; inv Hs.
        unfold lob' in Cco; rewrite El in Cco. simpl in Cco. apply contig_cons in Cco as [-> Cco].
        constructor; simpl; auto; try discriminate.
        intros k0 i0 Hi0. rewrite (Cfg k0 i0 Hi0). f_equal. unfold expFg, lob. simpl. now rewrite El.
      + destruct (all_done (g_int s)) eqn:Ed; inv Hs.
        assert (Hk : k < length (lines sess)).
        { unfold lob' in Hpipe. rewrite El in Hpipe. apply chain_le in Hpipe. lia. }
        constructor; simpl; auto.
        * unfold lob' in *; simpl. now rewrite El in Cco.
        * intros k0 H; inv H. apply repeat_length.
        * intros k0 i0 Hi0. rewrite state_other with (o := expFg s k0 i0); auto using not_mine_applied.
          f_equal. unfold expFg, lob; simpl. rewrite El.
          destruct (Nat.ltb k0 k); [reflexivity|].
          destruct (Nat.eqb k0 k) eqn:Ee; [|reflexivity].
          apply Nat.eqb_eq in Ee. subst. now rewrite nth_repeat_lt.
        * intros k0 i0. rewrite state_other with (o := expBg s k0 i0); auto using not_mine_applied.
          f_equal. unfold expBg; simpl. rewrite bg_find_app.
          destruct (bg_find (BLine k0) (bgs s)) as [y|]; [reflexivity|].
          simpl. destruct (Nat.eqb k0 k); reflexivity.
        * intros k0 g0. rewrite bg_find_app.
          destruct (bg_find (BLine k0) (bgs s)) as [y|] eqn:E.
          -- intros H; inv H. now apply Cbl.
          -- simpl. destruct (Nat.eqb k0 k) eqn:Ee; [|discriminate].
             apply Nat.eqb_eq in Ee. subst. intros H; inv H. split; [exact Hk|discriminate].
        * now rewrite range_snoc, Cra.
      + destruct (all_done (g_fg s)) eqn:Ed; inv Hs.
        constructor; simpl; auto; try discriminate.
        * unfold lob' in *; simpl. rewrite El in Cco. now rewrite Happ.
        * intros k0 i0 Hi0. rewrite (Cfg k0 i0 Hi0). f_equal.
          unfold expFg, lob; simpl. rewrite El, Happ.
          destruct (Nat.ltb k0 k) eqn:E1.
          -- apply Nat.ltb_lt in E1. assert (E2 : Nat.ltb k0 (S k) = true) by (apply Nat.ltb_lt; lia).
             now rewrite E2.
          -- apply Nat.ltb_ge in E1. destruct (Nat.eqb k0 k) eqn:Ee.
             ++ apply Nat.eqb_eq in Ee. subst.
                assert (E2 : Nat.ltb k (S k) = true) by (apply Nat.ltb_lt; lia). rewrite E2.
                destruct (nth_error (g_fg s) i0) as [pc|] eqn:En.
                ** apply (all_done_nth _ _ _ Ed) in En. now subst.
                ** apply nth_error_None in En. rewrite (Cle k eq_refl) in En. lia.
             ++ apply Nat.eqb_neq in Ee.
                assert (E2 : Nat.ltb k0 (S k) = false) by (apply Nat.ltb_ge; lia). now rewrite E2.
      + discriminate.
    - (* TLoopQuit: never, the context is not cancelled *)
      destruct (lpc s); try discriminate. rewrite Cid1 in Hs. discriminate.
    - (* TCloser: never *)
      rewrite Cid2, Hnc in Hs. discriminate.
    - (* TDrain: never *)
      rewrite Cid2 in Hs. discriminate.
    - (* TBgDisp *)
      destruct (bg_find key (bgs s)) as [[g|]|] eqn:Ef; inv Hs.
      constructor; simpl; auto.
      + intros k0 i0. rewrite (Cbg k0 i0). f_equal. unfold expBg; simpl.
        destruct (bkey_eqb (BLine k0) key) eqn:Ek.
        * apply bkey_eqb_eq in Ek. subst key. rewrite (bg_find_set_same _ _ _ _ Ef), Ef.
          destruct (nth_error (repeat HReady (bg_count sess (BLine k0))) i0) eqn:En; [|reflexivity].
          apply nth_repeat in En as [-> _]. reflexivity.
        * rewrite bg_find_set_other; [reflexivity|]. intros H. rewrite <- H, bkey_eqb_refl in Ek. discriminate.
      + intros k0 g0. destruct (bkey_eqb (BLine k0) key) eqn:Ek.
        * apply bkey_eqb_eq in Ek. subst key. rewrite (bg_find_set_same _ _ _ _ Ef).
          intros H; inv H. split; [apply (Cbl k0 _ Ef)|]. intros g' H; inv H. apply repeat_length.
        * rewrite bg_find_set_other; [apply Cbl|]. intros H. rewrite <- H, bkey_eqb_refl in Ek. discriminate.
    - eapply InvC_handler; eauto.
    - eapply InvC_handler; eauto.
  Qed.

  Theorem InvC_run sched : InvC (run (step sess) init sched).
  Proof.
    assert (H : InvA sess (run (step sess) init sched) /\ InvC (run (step sess) init sched)).
    { apply invariant_run with (Inv := fun s => InvA sess s /\ InvC s).
      - split; [apply InvA_init|apply InvC_init].
      - intros s t s' [HA HC] Hs. split; [eapply InvA_step; eauto|eapply InvC_step; eauto]. }
    apply H.
  Qed.

  Definition ser (k : nat) (e : event) : bool :=
    match e with
    | EvEnter _ k' _ _ | EvExit _ k' _ _ | EvPanic _ k' _ | EvRecovered _ k' _ => Nat.eqb k k'
    | EvApplied _ => false
    end.

  Lemma ser_false_not_mine kd k i e : ser k e = false -> not_mine kd k i e.
  Proof.
    intros H t. destruct (is_ev t kd k i e) eqn:E; [|reflexivity]. exfalso.
    destruct t, e; simpl in *; try discriminate;
      apply andb_true_iff in E as [E _]; apply andb_true_iff in E as [_ E]; congruence.
  Qed.

  Lemma fold_filter kd k i h o :
    fold_opt (iscan kd k i) (filter (ser k) h) o = fold_opt (iscan kd k i) h o.
  Proof.
    revert o. induction h as [|e h IH]; intros o; [reflexivity|]. simpl.
    destruct (ser k e) eqn:E; simpl.
    - apply IH.
    - destruct o as [m|]; [|apply IH].
      unfold fold_opt at 2. simpl. rewrite (iscan_other _ _ _ _ _ (ser_false_not_mine kd k i e E)).
      apply IH.
  Qed.

  Lemma inst_state_filter kd k i h : inst_state kd k i (filter (ser k) h) = inst_state kd k i h.
  Proof. apply fold_filter. Qed.

  (* C16, safety half: the connection stays up; in every state where all lines have been
     delivered the history satisfies C16_ok *)
  Theorem C16_model sched :
    let s := run (step sess) init sched in
    delivered_all sess s = true -> C16_ok sess (hist s) = true.
  Proof.
    intros s Hd. destruct (InvC_run sched) as [Cid Cco Cle Cfg Cbg Cbl Cra]. fold s in Cid, Cco, Cle, Cfg, Cbg, Cbl, Cra.
    unfold delivered_all in Hd.
    apply andb_true_iff in Hd as [Hd H5]. apply andb_true_iff in Hd as [Hd H4].
    apply andb_true_iff in Hd as [Hd H3]. apply andb_true_iff in Hd as [H1 H2].
    apply Nat.eqb_eq in H1.
    destruct (rhold s) eqn:Eh; [discriminate|]. destruct (inq s) eqn:Eq; [|discriminate].
    destruct (lpc s) eqn:El; try discriminate.
    unfold lob' in Cco. rewrite El in Cco. simpl in Cco. apply contig_nil in Cco.
    unfold C16_ok. rewrite Cra. simpl. apply forallb_forall. intros k Hk. apply in_seq in Hk.
    unfold C16_line. apply andb_true_iff. split; apply forallb_forall; intros i Hi; apply in_seq in Hi.
    - unfold inst_complete. change (filter _ (hist s)) with (filter (ser k) (hist s)).
      rewrite inst_state_filter, Cfg by lia. unfold expFg, lob. rewrite El.
      assert (E : Nat.ltb k (applied s) = true) by (apply Nat.ltb_lt; lia). now rewrite E.
    - unfold inst_sane. change (filter _ (hist s)) with (filter (ser k) (hist s)).
      rewrite inst_state_filter, Cbg. reflexivity.
  Qed.
End C.
