(* Proofs/GenEqNick.v — the Gallina TRANSLATION (Gen/GoFuncs.v) of client/connection.go
   DefaultNewNick and hasPort is equal to the hand-written models (Model/NewNick.v,
   Model/Register.v), for all inputs, panics included. *)
From Verif Require Import GoBytes LineLib GoBytesFacts NewNick NewNickProofs Register GoFuncs GenEqTac.
Open Scope Z_scope.

(* a boolean fact about one byte: checked on 0..255 by computation *)
Lemma byte_sweep (P : N -> bool) : forallb P all_bytes = true -> forall c, (c < 256)%N -> P c = true.
Proof.
  intros H c Hc. rewrite forallb_forall in H.
  apply H. apply all_bytes_complete. exact Hc.
Qed.

(* ---------- DefaultNewNick ----------
   The Go code computes the new last byte with uint8 arithmetic (wrapping: the go_byte operations) and
   converts it with string(c) (UTF-8 encoding of the code point).  The model uses plain N
   arithmetic and a one-byte list.  They agree: by computation on every byte value, and
   above 255 (not a byte, but [bytes] is [list N]) both take the default branch. *)
Lemma go_DefaultNewNick_eq old : go_client_DefaultNewNick old = default_new_nick_res old.
Proof.
  go_unfold go_client_DefaultNewNick. unfold default_new_nick_res, underscore.
  go_ifs2; [reflexivity|].
  destruct (byte_at old (len old - 1)) as [c|]; [|reflexivity]. cbn [bind]. cbv zeta.
  destruct (slice_to old (len old - 1)) as [pre|]; [|reflexivity]. cbn [bind].
  f_equal. f_equal. apply beq_eq.
  destruct (N.lt_ge_cases c 256) as [Hc|Hc].
  - revert c Hc.
    match goal with |- forall c, _ -> @?P c = true => apply (byte_sweep P) end.
    vm_compute. reflexivity.
  - rewrite (new_nick_byte_large c Hc).
    repeat match goal with |- context [if ?b then _ else _] => destruct b eqn:?; try lia end;
    try reflexivity.
Qed.

(* ---------- hasPort ---------- *)
Lemma go_hasPort_eq s : go_client_hasPort s = Ok (has_port s).
Proof.
  go_unfold go_client_hasPort. unfold has_port, s_colon, s_rbracket.
  first [reflexivity | f_equal; go_cases].
Qed.
