(* Proofs/SplitProofs.v — C11: splitMessage is bounded, marked, lossless, non-empty and
   terminating for every message and every SplitLen; cutNewLines lemmas for C08. *)
From Verif Require Import GoBytes GoBytesFacts Split.
Open Scope Z_scope.

(* ---------- indexFragment: -1, or a cut of at least one byte inside the string ---------- *)
Lemma index_fragment_range s :
  index_fragment s = -1 \/ (1 <= index_fragment s <= len s).
Proof.
  unfold index_fragment.
  set (f := fun (mx : Z) (sep : bytes) =>
              let idx := last_index s sep in if idx >? mx then idx else mx).
  assert (Hfold : forall seps mx,
             Forall (fun sep => len sep = 2) seps ->
             (mx = -1 \/ (0 <= mx /\ mx + 2 <= len s)) ->
             let r := fold_left f seps mx in
             r = -1 \/ (0 <= r /\ r + 2 <= len s)).
  { induction seps as [|sep seps IH]; intros mx Hs Hmx; simpl; [exact Hmx|].
    inversion Hs as [|? ? Hsep Hs']; subst.
    apply IH; [exact Hs'|].
    unfold f; cbv zeta. pose proof (last_index_range s sep) as Hr. rewrite Hsep in Hr.
    destruct (last_index s sep >? mx) eqn:E; lia. }
  specialize (Hfold sentence_seps (-1)).
  assert (Hseps : Forall (fun sep => len sep = 2) sentence_seps)
    by (repeat constructor).
  specialize (Hfold Hseps (or_introl eq_refl)). cbv zeta in Hfold.
  fold f. destruct (fold_left f sentence_seps (-1) >? 0) eqn:E.
  - right. lia.
  - pose proof (last_index_range s [sp]) as Hr.
    change (len [sp]) with 1 in Hr.
    destruct (last_index s [sp] >? 0) eqn:E2; [right; lia|left; reflexivity].
Qed.

(* ---------- a declarative description of a correct split ---------- *)
Inductive split_spec (n : Z) : bytes -> list bytes -> Prop :=
| ss_last msg : len msg <= n -> split_spec n msg [msg]
| ss_cut head rest ps :
    len (head ++ rest) > n -> 1 <= len head <= n - 3 -> 3 < len rest ->
    split_spec n rest ps ->
    split_spec n (head ++ rest) ((head ++ marker) :: ps).

Lemma split_loop_spec n fuel : min_split <= n ->
  forall msg, (length msg <= fuel)%nat ->
  exists ps, split_loop fuel msg n = Ok ps /\ split_spec n msg ps.
Proof.
  intros Hn. unfold min_split in Hn.
  induction fuel as [|f IH]; intros msg Hf.
  - destruct msg; [|simpl in Hf; lia]. cbn [split_loop].
    destruct (len [] >? n) eqn:E; [rewrite len_nil in E; lia|].
    exists [[]]; split; [reflexivity|]. apply ss_last; rewrite len_nil; lia.
  - cbn [split_loop].
    destruct (len msg >? n) eqn:E.
    2:{ exists [msg]; split; [reflexivity|apply ss_last; lia]. }
    unfold marker_len.
    rewrite slice_to_ok by lia. cbn [bind].
    set (pre := firstn (Z.to_nat (n - 3)) msg).
    assert (Hpre : len pre = n - 3) by (apply len_firstn; lia).
    pose proof (index_fragment_range pre) as Hidx. rewrite Hpre in Hidx.
    set (idx := if index_fragment pre <? 0 then n - 3 else index_fragment pre).
    assert (Hi : 1 <= idx <= n - 3)
      by (unfold idx; destruct (index_fragment pre <? 0) eqn:E2; lia).
    rewrite slice_to_ok by lia. cbn [bind].
    rewrite slice_from_ok by lia. cbn [bind].
    set (head := firstn (Z.to_nat idx) msg).
    set (rest := skipn (Z.to_nat idx) msg).
    assert (Hmsg : msg = head ++ rest) by (symmetry; apply firstn_skipn).
    assert (Hh : len head = idx) by (apply len_firstn; lia).
    assert (Hr : len rest = len msg - idx) by (apply len_skipn; lia).
    destruct (IH rest) as (ps & Hps & Hspec).
    { unfold len in *. lia. }
    rewrite Hps. cbn [bind].
    exists ((head ++ marker) :: ps); split; [reflexivity|].
    rewrite Hmsg. apply ss_cut; try lia; [rewrite <- Hmsg; lia|exact Hspec].
Qed.

Lemma split_spec_nonnil n msg ps : split_spec n msg ps -> ps <> [].
Proof. destruct 1; discriminate. Qed.

Lemma strip_marker_app head : strip_marker (head ++ marker) = head.
Proof.
  unfold strip_marker. rewrite app_length. simpl length.
  replace (length head + 3 - 3)%nat with (length head + 0)%nat by lia.
  rewrite firstn_app_2. simpl. apply app_nil_r.
Qed.

Lemma split_spec_bounded n msg ps :
  split_spec n msg ps -> forallb (fun p => len p <=? n) ps = true.
Proof.
  induction 1 as [msg H|head rest ps H1 H2 H3 H4 IH]; simpl.
  - rewrite andb_true_r. apply Z.leb_le; exact H.
  - rewrite IH, andb_true_r. apply Z.leb_le. rewrite len_app. change (len marker) with 3. lia.
Qed.

Lemma split_spec_marked n msg ps :
  split_spec n msg ps -> all_but_last_ok ps (fun p => has_suffix p marker) = true.
Proof.
  induction 1 as [msg H|head rest ps H1 H2 H3 H4 IH]; [reflexivity|].
  apply split_spec_nonnil in H4. destruct ps as [|p ps]; [contradiction|].
  change (has_suffix (head ++ marker) marker && all_but_last_ok (p :: ps) (fun p => has_suffix p marker) = true).
  rewrite has_suffix_app, IH; reflexivity.
Qed.

Lemma split_spec_rejoin n msg ps : split_spec n msg ps -> rejoin ps = msg.
Proof.
  induction 1 as [msg H|head rest ps H1 H2 H3 H4 IH]; [reflexivity|].
  apply split_spec_nonnil in H4. destruct ps as [|p ps]; [contradiction|].
  change (strip_marker (head ++ marker) ++ rejoin (p :: ps) = head ++ rest).
  rewrite strip_marker_app, IH; reflexivity.
Qed.

Lemma split_spec_nonempty n msg ps :
  split_spec n msg ps -> msg <> [] -> stripped_nonempty ps = true.
Proof.
  induction 1 as [msg H|head rest ps H1 H2 H3 H4 IH]; intros Hne.
  - simpl. destruct (beq msg []) eqn:E; [apply beq_eq in E; contradiction|reflexivity].
  - assert (Hps := split_spec_nonnil _ _ _ H4). destruct ps as [|p ps]; [contradiction|].
    change (negb (beq (strip_marker (head ++ marker)) []) && stripped_nonempty (p :: ps) = true).
    rewrite strip_marker_app, IH.
    + destruct (beq head []) eqn:E; [|reflexivity].
      apply beq_eq in E; subst; rewrite len_nil in H2; lia.
    + intros ->; rewrite len_nil in H3; lia.
Qed.

Lemma eff_split_min n : min_split <= eff_split n.
Proof. unfold eff_split, min_split, default_split. destruct (n <? 13) eqn:E; lia. Qed.

(* ---------- the C11 theorem on the model ---------- *)
Theorem split_message_correct msg n :
  exists ps, split_message msg n = Ok ps /\ C11_ok msg n ps = true.
Proof.
  unfold split_message.
  destruct (split_loop_spec (eff_split n) (S (length msg)) (eff_split_min n) msg) as (ps & Hps & Hspec);
    [lia|].
  exists ps; split; [exact Hps|].
  unfold C11_ok.
  rewrite (split_spec_bounded _ _ _ Hspec), (split_spec_marked _ _ _ Hspec),
    (split_spec_rejoin _ _ _ Hspec), beq_refl.
  pose proof (split_spec_nonnil _ _ _ Hspec) as Hnn.
  destruct ps as [|p ps]; [contradiction|]. cbn [length Nat.eqb negb andb].
  destruct (len msg >? eff_split n) eqn:E; [|reflexivity].
  apply (split_spec_nonempty _ _ _ Hspec).
  intros ->. rewrite len_nil in E. pose proof (eff_split_min n). unfold min_split in *. lia.
Qed.

Theorem split_message_never_panics msg n : split_message msg n <> Panic.
Proof. destruct (split_message_correct msg n) as (ps & H & _); congruence. Qed.

(* a message that fits is passed through untouched *)
Theorem split_message_single msg n :
  len msg <= eff_split n -> split_message msg n = Ok [msg].
Proof.
  intros H. unfold split_message. cbn [split_loop].
  destruct (len msg >? eff_split n) eqn:E; [lia|reflexivity].
Qed.

(* the oracle really says what the property says (readable, Prop-level reading of C11_ok) *)
Theorem C11_ok_meaning msg n ps :
  C11_ok msg n ps = true ->
  ps <> []
  /\ Forall (fun p => len p <= eff_split n) ps
  /\ (forall p, In p (removelast ps) -> exists h, p = h ++ marker)
  /\ rejoin ps = msg
  /\ (len msg > eff_split n -> forall p, In p (removelast ps) -> strip_marker p <> []).
Proof.
  unfold C11_ok. intros H.
  repeat (apply andb_true_iff in H as [H ?]).
  match goal with Hb : beq _ _ = true |- _ => apply beq_eq in Hb end.
  split; [destruct ps; [discriminate|discriminate]|].
  split.
  { apply Forall_forall. intros p Hp.
    match goal with Hf : forallb _ _ = true |- _ =>
      rewrite forallb_forall in Hf; apply Hf in Hp end. lia. }
  split.
  { match goal with Ha : all_but_last_ok _ _ = true |- _ => revert Ha end. clear.
    induction ps as [|p ps IH]; simpl; [intros _ ? []|].
    destruct ps as [|q ps]; [intros _ ? []|].
    intros Ha; apply andb_true_iff in Ha as [Ha1 Ha2].
    intros x [<-|Hx]; [apply has_suffix_spec in Ha1; exact Ha1|].
    apply IH; assumption. }
  split; [assumption|].
  intros Hlong. assert (E : len msg >? eff_split n = true) by lia.
  match goal with Hs : (if _ then _ else _) = true |- _ => rewrite E in Hs; revert Hs end. clear.
  induction ps as [|p ps IH]; simpl; [intros _ ? []|].
  destruct ps as [|q ps]; [intros _ ? []|].
  intros Ha; apply andb_true_iff in Ha as [Ha1 Ha2].
  intros x [<-|Hx].
  - intros E. rewrite E in Ha1. discriminate.
  - apply IH; assumption.
Qed.

(* ---------- cutNewLines ---------- *)
Definition no_crlf (s : bytes) : Prop := ~ In 13%N s /\ ~ In 10%N s.

Lemma split2_hd_prefix s sep : exists r, s = hd [] (split2 s sep) ++ r.
Proof.
  unfold split2. destruct (index s sep <? 0) eqn:E; simpl.
  - exists []; now rewrite app_nil_r.
  - exists (skipn (Z.to_nat (index s sep)) s). symmetry; apply firstn_skipn.
Qed.

Lemma split2_hd_no_byte s c : ~ In c (hd [] (split2 s [c])).
Proof.
  unfold split2. destruct (index s [c] <? 0) eqn:E; simpl.
  - apply index_none_iff_byte. pose proof (index_range s [c]). lia.
  - intros Hin.
    destruct (index_found s [c]) as (a & b & Hs & Hl & Hmin); [lia|].
    rewrite <- Hl in Hin. unfold len in Hin. rewrite Nat2Z.id in Hin.
    rewrite Hs, firstn_app, Nat.sub_diag, firstn_all in Hin. simpl in Hin. rewrite app_nil_r in Hin.
    apply in_split in Hin as (a1 & a2 & Ha).
    specialize (Hmin a1 (a2 ++ [c] ++ b)).
    rewrite Hs, Ha in Hmin. rewrite <- !app_assoc in Hmin. specialize (Hmin eq_refl).
    rewrite app_length in Hmin. simpl in Hmin. lia.
Qed.

Lemma split2_hd_id s c : ~ In c s -> hd [] (split2 s [c]) = s.
Proof.
  intros H. apply index_none_iff_byte in H. unfold split2. rewrite H. reflexivity.
Qed.

Lemma cut_newlines_no_crlf s : no_crlf (cut_newlines s).
Proof.
  unfold cut_newlines, no_crlf. split; [|apply split2_hd_no_byte].
  intros Hin.
  destruct (split2_hd_prefix (hd [] (split2 s [13%N])) [10%N]) as [r Hr].
  apply (split2_hd_no_byte s 13%N). rewrite Hr. apply in_or_app; left; exact Hin.
Qed.

Lemma cut_newlines_prefix s : exists r, s = cut_newlines s ++ r.
Proof.
  unfold cut_newlines.
  destruct (split2_hd_prefix s [13%N]) as [r1 H1].
  destruct (split2_hd_prefix (hd [] (split2 s [13%N])) [10%N]) as [r2 H2].
  exists (r2 ++ r1). rewrite app_assoc, <- H2. exact H1.
Qed.

Lemma cut_newlines_id s : no_crlf s -> cut_newlines s = s.
Proof.
  intros [H1 H2]. unfold cut_newlines. rewrite (split2_hd_id s 13%N H1). apply split2_hd_id, H2.
Qed.

(* the cut is the LONGEST CR/LF-free prefix: the next byte, if any, is CR or LF *)
Lemma cut_newlines_maximal s r :
  s = cut_newlines s ++ r -> r = [] \/ exists c r', r = c :: r' /\ (c = 13%N \/ c = 10%N).
Proof.
  intros Hs. destruct r as [|c r']; [now left|right]. exists c, r'; split; [reflexivity|].
  destruct (N.eq_dec c 13) as [|Hc13]; [now left|]. destruct (N.eq_dec c 10) as [|Hc10]; [now right|].
  exfalso. unfold cut_newlines in Hs.
  set (r0 := hd [] (split2 s [13%N])) in *. set (r1 := hd [] (split2 r0 [10%N])) in *.
  (* r1 is r0 cut at the first LF, r0 is s cut at the first CR *)
  assert (Hr1 : r1 = r0 \/ exists t, r0 = r1 ++ 10%N :: t).
  { unfold r1, split2. destruct (index r0 [10%N] <? 0) eqn:E; [now left|right]. simpl.
    destruct (index_found r0 [10%N]) as (a & b & Hr0 & Hl & _); [lia|].
    exists b. rewrite <- Hl. unfold len. rewrite Nat2Z.id.
    rewrite Hr0 at 2. rewrite firstn_app, Nat.sub_diag, firstn_all. simpl. rewrite app_nil_r. exact Hr0. }
  assert (Hr0 : r0 = s \/ exists t, s = r0 ++ 13%N :: t).
  { unfold r0, split2. destruct (index s [13%N] <? 0) eqn:E; [now left|right]. simpl.
    destruct (index_found s [13%N]) as (a & b & Hs0 & Hl & _); [lia|].
    exists b. rewrite <- Hl. unfold len. rewrite Nat2Z.id.
    rewrite Hs0 at 2. rewrite firstn_app, Nat.sub_diag, firstn_all. simpl. rewrite app_nil_r. exact Hs0. }
  destruct Hr1 as [Hr1|[t1 Hr1]].
  - rewrite Hr1 in Hs. destruct Hr0 as [Hr0|[t0 Hr0]].
    + rewrite Hr0 in Hs. rewrite <- (app_nil_r s) in Hs at 1. apply app_inv_head in Hs. discriminate.
    + rewrite Hr0 in Hs at 1. apply app_inv_head in Hs. congruence.
  - destruct Hr0 as [Hr0|[t0 Hr0]].
    + rewrite <- Hr0, Hr1 in Hs. apply app_inv_head in Hs. congruence.
    + rewrite Hr0, Hr1 in Hs. rewrite <- app_assoc in Hs. apply app_inv_head in Hs.
      simpl in Hs. congruence.
Qed.
