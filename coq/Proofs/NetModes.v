(* Proofs/NetModes.v — C13: the tracker's mode parser (channel.parseModes, C12's
   [chan_parse_modes]) applied to the mode string and arguments the network model writes for a
   list of changes computes exactly the meaning of those changes ([apply_changes]) — for every
   line INSIDE THE CLAIM (no argument-taking letter after "-k"); list modes b e I with their mask
   may stand anywhere in the line (D10 fixed: the parser skips the mask). *)
From Verif Require Import TrackerSpec TrackerSpecFacts StateHandlers Net.
From Verif Require GoBytes.
Open Scope Z_scope.

(* a change the server can have made, as far as the parser is concerned *)
Definition chg_good (c : name) (mem : gmap (name * name) privs) (m : mchange) : Prop :=
  match m with
  | MFlag _ x => is_flag_letter x = true
  | MKey _ _ => True
  | MLimit true l => atoi (GoBytes.dec_of_Z l) = l
  | MLimit false _ => True
  | MPriv _ x n => is_priv_char x = true /\ is_Some (mem !! (c, n))
  | MList _ x _ => is_list_letter x = true
  end.

Definition piece (cur : option bool) (m : mchange) : bytes :=
  (if bool_decide (cur = Some (chg_sign m)) then [] else [sign_byte (chg_sign m)]) ++ [chg_letter m].
Lemma render_modes_cons cur m r : render_modes cur (m :: r) = piece cur m ++ render_modes (Some (chg_sign m)) r.
Proof. unfold piece. simpl. by rewrite <- app_assoc. Qed.

Definition cur_ok (cur : option bool) (op : bool) : Prop := match cur with Some b => op = b | None => True end.

Lemma flag_cases x : is_flag_letter x = true ->
  x = 112%N \/ x = 115%N \/ x = 116%N \/ x = 110%N \/ x = 109%N \/ x = 105%N \/ x = 79%N \/ x = 122%N \/ x = 114%N \/ x = 90%N.
Proof.
  unfold is_flag_letter, GoBytes.mem_byte. simpl. rewrite !orb_true_iff, !N.eqb_eq. intuition done.
Qed.
Lemma priv_cases x : is_priv_char x = true -> x = 113%N \/ x = 97%N \/ x = 111%N \/ x = 104%N \/ x = 118%N.
Proof.
  unfold is_priv_char. destruct x as [|p]; [done|].
  do 7 (destruct p as [p|p|]; try done); auto.
Qed.
Lemma list_cases x : is_list_letter x = true -> x = 98%N \/ x = 101%N \/ x = 73%N.
Proof. unfold is_list_letter, GoBytes.mem_byte. simpl. rewrite !orb_true_iff, !N.eqb_eq. intuition done. Qed.

(* the sign part of a piece *)
Lemma parse_sign c cur m op args cm mem :
  cur_ok cur op ->
  fold_left (chan_parse_char c) (piece cur m) (Build_pstate op args cm mem)
  = chan_parse_char c (Build_pstate (chg_sign m) args cm mem) (chg_letter m).
Proof.
  intros Hc. unfold piece. case_bool_decide as E.
  - subst cur. simpl in Hc. subst op. done.
  - simpl. f_equal. unfold chan_parse_char. simpl. destruct (chg_sign m); simpl; done.
Qed.

(* one change whose argument (if any) is at the front of the argument list and is consumed *)
Lemma parse_clean c cur m op rest cm mem :
  cur_ok cur op -> chg_good c mem m -> chg_leaves m = false ->
  fold_left (chan_parse_char c) (piece cur m) (Build_pstate op (option_list (chg_arg m) ++ rest) cm mem)
  = Build_pstate (chg_sign m) rest (fst (apply_change c (cm, mem) m)) (snd (apply_change c (cm, mem) m)).
Proof.
  intros Hc Hg Hl. rewrite parse_sign by done. destruct m as [add x|add k|add l|add x n|add x mask]; simpl in *.
  - destruct (flag_cases x Hg) as [->|[->|[->|[->|[->|[->|[->|[->|[->| ->]]]]]]]]]; reflexivity.
  - destruct add; [|done]. reflexivity.
  - destruct add; [|reflexivity]. unfold chan_parse_char. simpl. by rewrite Hg.
  - destruct Hg as [Hx [p Hp]].
    destruct (priv_cases x Hx) as [->|[->|[->|[-> | ->]]]]; unfold chan_parse_char; simpl; rewrite Hp; reflexivity.
  - destruct (list_cases x Hg) as [->|[-> | ->]]; reflexivity.
Qed.

(* one change that consumes nothing: the argument list is not looked at *)
Lemma parse_dirty c cur m op args cm mem :
  cur_ok cur op -> chg_good c mem m -> chg_consumes m = false ->
  fold_left (chan_parse_char c) (piece cur m) (Build_pstate op args cm mem)
  = Build_pstate (chg_sign m) args (fst (apply_change c (cm, mem) m)) (snd (apply_change c (cm, mem) m)).
Proof.
  intros Hc Hg Hl. rewrite parse_sign by done. destruct m as [add x|add k|add l|add x n|add x mask]; simpl in *.
  - destruct (flag_cases x Hg) as [->|[->|[->|[->|[->|[->|[->|[->|[->| ->]]]]]]]]]; reflexivity.
  - destruct add; [done|]. reflexivity.
  - destruct add; [done|]. reflexivity.
  - done.
  - done.
Qed.

Lemma apply_change_dom c st m k : is_Some (snd (apply_change c st m) !! k) <-> is_Some (snd st !! k).
Proof.
  destruct m as [add x|add k0|add l|add x n|add x mask]; simpl; try done.
  - by destruct (chan_flag_char x add (fst st)).
  - destruct (snd st !! (c, n)) as [p|] eqn:L; [|done]. destruct (priv_char x add p); [|done]. simpl.
    destruct (decide (k = (c, n))) as [->|N]; [rewrite lookup_insert, L; split; eauto|by rewrite lookup_insert_ne].
Qed.
Lemma chg_good_dom c mem mem' m :
  (forall k, is_Some (mem' !! k) <-> is_Some (mem !! k)) -> chg_good c mem m -> chg_good c mem' m.
Proof. intros H. destruct m; simpl; try done. intros [? ?]. split; [done|]. by apply H. Qed.

Lemma apply_changes_cons c m r st : apply_changes c (m :: r) st = apply_changes c r (apply_change c st m).
Proof. done. Qed.

Lemma parse_all_dirty c chs : forall cur op args cm mem,
  cur_ok cur op -> Forall (chg_good c mem) chs -> Forall (fun m => chg_consumes m = false) chs ->
  let st := fold_left (chan_parse_char c) (render_modes cur chs) (Build_pstate op args cm mem) in
  (ps_cm st, ps_mem st) = apply_changes c chs (cm, mem).
Proof.
  induction chs as [|m r IH]; intros cur op args cm mem Hc Hg Hn; [done|].
  inversion Hg as [|? ? Hg1 Hg2]; subst. inversion Hn as [|? ? Hn1 Hn2]; subst.
  cbv zeta. rewrite render_modes_cons, fold_left_app, (parse_dirty c cur m op args cm mem) by done.
  rewrite apply_changes_cons.
  destruct (apply_change c (cm, mem) m) as [cm1 mem1] eqn:E1. simpl fst; simpl snd.
  apply IH; [done| |done].
  eapply Forall_impl; [exact Hg2|]. intros x. apply chg_good_dom. intros k.
  pose proof (apply_change_dom c (cm, mem) m k) as D. by rewrite E1 in D.
Qed.

Lemma inclaim_dirty chs : modes_inclaim_from true chs = true -> Forall (fun m => chg_consumes m = false) chs.
Proof.
  induction chs as [|m r IH]; [done|]. intros H.
  change (negb (true && chg_consumes m) && modes_inclaim_from (true || chg_leaves m) r = true) in H.
  apply andb_prop in H. destruct H as [H1 H2]. simpl in H1, H2. apply negb_true_iff in H1.
  constructor; [done|]. by apply IH.
Qed.

Lemma mode_args_cons m r tail :
  mode_args (m :: r) ++ tail = option_list (chg_arg m) ++ (mode_args r ++ tail).
Proof. unfold mode_args. simpl. by destruct (chg_arg m). Qed.

Lemma parse_all c chs : forall cur op tail cm mem,
  cur_ok cur op -> Forall (chg_good c mem) chs -> modes_inclaim_from false chs = true ->
  let st := fold_left (chan_parse_char c) (render_modes cur chs) (Build_pstate op (mode_args chs ++ tail) cm mem) in
  (ps_cm st, ps_mem st) = apply_changes c chs (cm, mem).
Proof.
  induction chs as [|m r IH]; intros cur op tail cm mem Hc Hg Hi; [done|].
  inversion Hg as [|? ? Hg1 Hg2]; subst.
  change (negb (false && chg_consumes m) && modes_inclaim_from (false || chg_leaves m) r = true) in Hi.
  apply andb_prop in Hi. destruct Hi as [_ Hi]. simpl orb in Hi.
  assert (Hg2' : forall cm1 mem1, apply_change c (cm, mem) m = (cm1, mem1) -> Forall (chg_good c mem1) r).
  { intros cm1 mem1 E1. eapply Forall_impl; [exact Hg2|]. intros x. apply chg_good_dom. intros k.
    pose proof (apply_change_dom c (cm, mem) m k) as D. by rewrite E1 in D. }
  cbv zeta. rewrite render_modes_cons, fold_left_app, apply_changes_cons.
  destruct (chg_leaves m) eqn:El.
  - (* "-k": its argument stays; nothing after it consumes *)
    assert (Hcons : chg_consumes m = false) by (destruct m as [| [] | [] | |]; done).
    rewrite (parse_dirty c cur m op _ cm mem) by done.
    destruct (apply_change c (cm, mem) m) as [cm1 mem1] eqn:E1. simpl fst; simpl snd.
    apply parse_all_dirty; [done|by apply (Hg2' cm1 mem1)|]. apply inclaim_dirty. exact Hi.
  - rewrite mode_args_cons.
    rewrite (parse_clean c cur m op _ cm mem) by done.
    destruct (apply_change c (cm, mem) m) as [cm1 mem1] eqn:E1. simpl fst; simpl snd.
    apply IH; [done|by apply (Hg2' cm1 mem1)|exact Hi].
Qed.

(* the tracker method on a rendered mode line = the view update *)
Theorem ChannelModes_changes t c chs tail :
  Forall (chg_good c (ts_member t)) chs -> modes_inclaim chs = true ->
  fst (sp_ChannelModes t c (render_modes None chs) (mode_args chs ++ tail)) = v_modes t c chs.
Proof.
  intros Hg Hi. unfold sp_ChannelModes, v_modes. destruct (ts_chans t !! c) as [a|]; [|done].
  assert (P : chan_parse_modes c (render_modes None chs) false (mode_args chs ++ tail) (ca_modes a) (ts_member t)
             = apply_changes c chs (ca_modes a, ts_member t))
    by (unfold chan_parse_modes; exact (parse_all c chs None false tail (ca_modes a) (ts_member t) I Hg Hi)).
  rewrite P. by destruct (apply_changes c chs (ca_modes a, ts_member t)).
Qed.

(* the 324 reply: "+" alone changes nothing *)
Lemma ChannelModes_plus t c tail : fst (sp_ChannelModes t c [43%N] tail) = v_modes t c [].
Proof.
  unfold sp_ChannelModes, v_modes. destruct (ts_chans t !! c) as [a|] eqn:L; [|done]. simpl.
  destruct t as [me ns cs mem]. simpl in *. f_equal.
Qed.

Lemma reply_changes_good c mem cm :
  (cm_limit cm = 0 \/ atoi (GoBytes.dec_of_Z (cm_limit cm)) = cm_limit cm) ->
  Forall (chg_good c mem) (reply_changes cm) /\ modes_inclaim (reply_changes cm) = true.
Proof.
  intros Hl. unfold reply_changes, flag_changes. split.
  - assert (F : forall (b : bool) x, is_flag_letter x = true -> Forall (chg_good c mem) (if b then [MFlag true x] else [])).
    { intros [] x Hx; by repeat constructor. }
    rewrite !Forall_app. repeat split; try (by apply F).
    + destruct (cm_key cm); [constructor|by repeat constructor].
    + destruct (cm_limit cm =? 0) eqn:E; [constructor|]. repeat constructor. simpl.
      destruct Hl as [Hl|Hl]; [|done]. apply Z.eqb_neq in E. done.
  - destruct (cm_p cm), (cm_s cm), (cm_t cm), (cm_n cm), (cm_m cm), (cm_i cm), (cm_O cm), (cm_z cm), (cm_r cm), (cm_Z cm),
      (cm_key cm), (cm_limit cm =? 0); reflexivity.
Qed.

(* ---------- regression witness for DESIGN D10 (fixed in state/channel.go) ----------
   The parser as it stood BEFORE the fix (no case for the list modes b e I): on
   "MODE #x +bo *!*@* al" the mask is taken for the nick of +o and the +o is lost. *)
Definition chan_parse_char_old (c : name) (st : pstate) (m : N) : pstate :=
  let op := ps_op st in let args := ps_args st in let cm := ps_cm st in let mem := ps_mem st in
  if decide (m = 43%N) then Build_pstate true args cm mem
  else if decide (m = 45%N) then Build_pstate false args cm mem
  else if decide (m = 107%N) then
    match op, args with
    | true, a :: args' => Build_pstate op args' (set_key a cm) mem
    | true, [] => st
    | false, _ => Build_pstate op args (set_key [] cm) mem
    end
  else if decide (m = 108%N) then
    match op, args with
    | true, a :: args' => Build_pstate op args' (set_limit (atoi a) cm) mem
    | true, [] => st
    | false, _ => Build_pstate op args (set_limit 0 cm) mem
    end
  else if is_priv_char m then
    match args with
    | a :: args' =>
        match mem !! (c, a) with
        | Some p => match priv_char m op p with
                    | Some p' => Build_pstate op args' cm (<[(c, a) := p']> mem)
                    | None => st
                    end
        | None => st
        end
    | [] => st
    end
  else match chan_flag_char m op cm with
       | Some cm' => Build_pstate op args cm' mem
       | None => st
       end.

Lemma D10_regression :
  let c := [35; 120]%N in let al := [97; 108]%N in
  let mem : gmap (name * name) privs := {[ (c, al) := no_privs ]} in
  let chs := [MList true 98 [42; 33; 42; 64; 42]; MPriv true 111 al]%N in
  let st0 := Build_pstate false (mode_args chs) no_chanmode mem in
  option_map cp_o (ps_mem (fold_left (chan_parse_char_old c) (render_modes None chs) st0) !! (c, al)) = Some false
  /\ option_map cp_o (ps_mem (fold_left (chan_parse_char c) (render_modes None chs) st0) !! (c, al)) = Some true
  /\ modes_inclaim chs = true.
Proof. vm_compute. repeat split; reflexivity. Qed.
