(* Proofs/GenEqCmd.v — the Gallina TRANSLATION (Gen/GoFuncs.v) of the command methods of
   client/commands.go is equal to Model/Commands.v [emit]: a method body is translated to
   the list of strings it sends on conn.out (the send in Conn.Raw, after cutNewLines), with
   the Config fields it reads as leading parameters; the variadic parameter is a list. *)
From Verif Require Import GoBytes LineLib GoBytesFacts Split Commands GoFuncs GenEqTac GenEqSplit.
Open Scope Z_scope.

Lemma go_Raw_eq x : go_client_Conn_Raw x = Ok [raw x].
Proof. go_unfold go_client_Conn_Raw. cbv zeta. rewrite go_cutNewLines_eq. reflexivity. Qed.

(* two byte strings built with ++ from the same pieces *)
Ltac go_listeq := repeat rewrite <- app_assoc; cbn [app]; reflexivity.

(* [if msg != "" { msg = " :" + msg }]: when msg is empty the new value is empty as well *)
Ltac go_beq_nil :=
  repeat match goal with
  | |- context [beq ?m []] =>
      let E := fresh "E" in
      destruct (beq m []) eqn:E; [apply beq_eq in E; rewrite ?E|]; cbn [negb]
  end.

(* a method that is straight-line code around conn.Raw *)
Ltac go_cmd f :=
  intros; go_unfold f; cbv zeta; rewrite ?go_Raw_eq; cbn [bind]; rewrite ?ge_len_pos;
  cbv beta delta [emit arg opt_trailing s_sp s_sp_colon]; cbn [nth skipn app]; go_beq_nil;
  first [reflexivity | congruence | repeat f_equal; go_listeq].

Section Cmd.
  Variable cfg : cmd_cfg.
  Notation EMIT := (emit to_upper).

  Lemma go_Pass_eq p : go_client_Conn_Pass p = EMIT MPass cfg [p].
  Proof. go_cmd go_client_Conn_Pass. Qed.
  Lemma go_Nick_eq n : go_client_Conn_Nick n = EMIT MNick cfg [n].
  Proof. go_cmd go_client_Conn_Nick. Qed.
  Lemma go_User_eq i n : go_client_Conn_User i n = EMIT MUser cfg [i; n].
  Proof. go_cmd go_client_Conn_User. Qed.
  Lemma go_Whois_eq n : go_client_Conn_Whois n = EMIT MWhois cfg [n].
  Proof. go_cmd go_client_Conn_Whois. Qed.
  Lemma go_Who_eq n : go_client_Conn_Who n = EMIT MWho cfg [n].
  Proof. go_cmd go_client_Conn_Who. Qed.
  Lemma go_Invite_eq n c : go_client_Conn_Invite n c = EMIT MInvite cfg [n; c].
  Proof. go_cmd go_client_Conn_Invite. Qed.
  Lemma go_Oper_eq u p : go_client_Conn_Oper u p = EMIT MOper cfg [u; p].
  Proof. go_cmd go_client_Conn_Oper. Qed.
  Lemma go_VHost_eq u p : go_client_Conn_VHost u p = EMIT MVHost cfg [u; p].
  Proof. go_cmd go_client_Conn_VHost. Qed.
  Lemma go_Ping_eq m : go_client_Conn_Ping m = EMIT MPing cfg [m].
  Proof. go_cmd go_client_Conn_Ping. Qed.
  Lemma go_Pong_eq m : go_client_Conn_Pong m = EMIT MPong cfg [m].
  Proof. go_cmd go_client_Conn_Pong. Qed.
  Lemma go_Authenticate_eq m : go_client_Conn_Authenticate m = EMIT MAuthenticate cfg [m].
  Proof. go_cmd go_client_Conn_Authenticate. Qed.

(* optional trailing parameter built from the variadic arguments *)
  Lemma go_Part_eq c ms : go_client_Conn_Part c ms = EMIT MPart cfg (c :: ms).
  Proof. go_cmd go_client_Conn_Part. Qed.
  Lemma go_Kick_eq c n ms : go_client_Conn_Kick c n ms = EMIT MKick cfg (c :: n :: ms).
  Proof. go_cmd go_client_Conn_Kick. Qed.
  Lemma go_Topic_eq c ts : go_client_Conn_Topic c ts = EMIT MTopic cfg (c :: ts).
  Proof. go_cmd go_client_Conn_Topic. Qed.
  Lemma go_Mode_eq t ms : go_client_Conn_Mode t ms = EMIT MMode cfg (t :: ms).
  Proof. go_cmd go_client_Conn_Mode. Qed.
  Lemma go_Away_eq ms : go_client_Conn_Away ms = EMIT MAway cfg ms.
  Proof. go_cmd go_client_Conn_Away. Qed.
  Lemma go_Quit_eq ms : go_client_Conn_Quit (cc_quit_message cfg) ms = EMIT MQuit cfg ms.
  Proof. go_cmd go_client_Conn_Quit. Qed.

  (* key[0] under the guard len(key) > 0 *)
  Lemma go_Join_eq c key : go_client_Conn_Join c key = EMIT MJoin cfg (c :: key).
  Proof.
    go_unfold go_client_Conn_Join. cbv zeta. unfold emit, arg. cbn [nth skipn].
    destruct key as [|k0 key];
      (match goal with |- context [if ?c then _ else _] =>
         let v := eval cbv in c in change c with v end);
      cbn [bind]; rewrite ?ge_elem_at_0; cbn [bind]; rewrite go_Raw_eq; cbn [bind];
      repeat f_equal; go_listeq.
  Qed.

  (* ---------- the methods with a loop over splitMessage / splitArgs ---------- *)
  (* [go_emit_loop f]: the local loop appends [f s] for every element *)
  Ltac go_emit_loop_with L f :=
    let H := fresh "Hloop" in
    assert (H : forall l out, L l out = Ok (out ++ map f l));
    [ let l := fresh "l" in let IH := fresh "IH" in
      induction l as [|x l IH]; intros out;
      [ cbn [map]; rewrite app_nil_r; reflexivity
      | unfold L at 1; fold L; cbv zeta; rewrite ?go_Raw_eq; cbn [bind]; rewrite IH;
        cbn [map]; rewrite <- app_assoc; cbn [app]; go_beq_nil;
        repeat f_equal; go_listeq ]
    | rewrite H; cbn [app] ].
  Ltac go_emit_loop f :=
    repeat go_let_any;
    first [ match goal with L := ?b |- _ => is_fix b; go_subst_lets; go_emit_loop_with L f end
          | go_subst_lets;
            match goal with |- context [?F] =>
              is_fix F; let L := fresh "loop" in set (L := F); go_emit_loop_with L f end ].

  Lemma go_Privmsg_eq t msg :
    go_client_Conn_Privmsg (cc_split_len cfg) t msg = EMIT MPrivmsg cfg [t; msg].
  Proof.
    go_unfold go_client_Conn_Privmsg. repeat go_let_any. go_subst_lets.
    rewrite go_splitMessage_eq. unfold emit, msg_lines, arg. cbn [nth].
    destruct (split_message msg (cc_split_len cfg)) as [ps|]; [|reflexivity]. cbn [bind].
    go_emit_loop (fun s => raw (s_PRIVMSG ++ s_sp ++ t ++ s_sp_colon ++ s)). reflexivity.
  Qed.

  Lemma go_Notice_eq t msg :
    go_client_Conn_Notice (cc_split_len cfg) t msg = EMIT MNotice cfg [t; msg].
  Proof.
    go_unfold go_client_Conn_Notice. repeat go_let_any. go_subst_lets.
    rewrite go_splitMessage_eq. unfold emit, msg_lines, arg. cbn [nth].
    destruct (split_message msg (cc_split_len cfg)) as [ps|]; [|reflexivity]. cbn [bind].
    go_emit_loop (fun s => raw (s_NOTICE ++ s_sp ++ t ++ s_sp_colon ++ s)). reflexivity.
  Qed.

  Lemma go_ctcp_lines_eq_P t ctcp args :
    go_client_Conn_Ctcp (cc_split_len cfg) t ctcp args
    = ctcp_lines to_upper s_PRIVMSG t ctcp args (cc_split_len cfg).
  Proof.
    go_unfold go_client_Conn_Ctcp. repeat go_let_any. go_subst_lets.
    rewrite go_splitMessage_eq. unfold ctcp_lines, s_sp.
    destruct (split_message (join args [32%N]) (cc_split_len cfg)) as [ps|]; [|reflexivity].
    cbn [bind].
    go_emit_loop (fun s => let s' := if beq s [] then [] else s_sp ++ s in
                  raw (s_PRIVMSG ++ s_sp ++ t ++ s_sp_colon ++ [soh] ++ to_upper ctcp ++ s' ++ [soh])).
    reflexivity.
  Qed.

  Lemma go_Ctcp_eq t ctcp args :
    go_client_Conn_Ctcp (cc_split_len cfg) t ctcp args = EMIT MCtcp cfg (t :: ctcp :: args).
  Proof. rewrite go_ctcp_lines_eq_P. reflexivity. Qed.

  Lemma go_CtcpReply_eq t ctcp args :
    go_client_Conn_CtcpReply (cc_split_len cfg) t ctcp args = EMIT MCtcpReply cfg (t :: ctcp :: args).
  Proof.
    go_unfold go_client_Conn_CtcpReply. repeat go_let_any. go_subst_lets.
    rewrite go_splitMessage_eq. unfold emit, ctcp_lines, arg, s_sp. cbn [nth skipn].
    destruct (split_message (join args [32%N]) (cc_split_len cfg)) as [ps|]; [|reflexivity].
    cbn [bind].
    go_emit_loop (fun s => let s' := if beq s [] then [] else s_sp ++ s in
                  raw (s_NOTICE ++ s_sp ++ t ++ s_sp_colon ++ [soh] ++ to_upper ctcp ++ s' ++ [soh])).
    reflexivity.
  Qed.

  (* Version and Action call Ctcp *)
  Lemma go_Version_eq t : go_client_Conn_Version (cc_split_len cfg) t = EMIT MVersion cfg [t].
  Proof.
    go_unfold go_client_Conn_Version. cbv zeta. rewrite go_ctcp_lines_eq_P.
    unfold emit, arg. cbn [nth]. change ([86; 69; 82; 83; 73; 79; 78]%N) with s_VERSION.
    destruct (ctcp_lines _ _ _ _ _ _); reflexivity.
  Qed.

  Lemma go_Action_eq t msg :
    go_client_Conn_Action (cc_split_len cfg) t msg = EMIT MAction cfg [t; msg].
  Proof.
    go_unfold go_client_Conn_Action. cbv zeta. rewrite go_ctcp_lines_eq_P.
    unfold emit, arg. cbn [nth]. change ([65; 67; 84; 73; 79; 78]%N) with s_ACTION.
    destruct (ctcp_lines _ _ _ _ _ _); reflexivity.
  Qed.

  Lemma go_Cap_eq sub caps : go_client_Conn_Cap sub caps = EMIT MCap cfg (sub :: caps).
  Proof.
    go_unfold go_client_Conn_Cap. repeat go_let_any. go_subst_lets.
    unfold emit, arg. cbn [nth skipn].
    destruct caps as [|c0 caps].
    - match goal with |- (if ?c then _ else _) = _ =>
        let v := eval cbv in c in change c with v end.
      cbv iota. cbn [bind]. rewrite go_Raw_eq. cbn [bind]. repeat f_equal; go_listeq.
    - match goal with |- (if ?c then _ else _) = _ =>
        let v := eval cbv in c in change c with v end.
      cbv iota zeta. rewrite go_splitArgs_eq. cbn [bind].
      replace (450 - len (([67; 65; 80; 32]%N ++ sub) ++ [32; 58]%N))
        with (default_split - len (s_CAP ++ s_sp ++ sub ++ s_sp_colon))
        by (unfold default_split; f_equal; f_equal; go_listeq).
      go_emit_loop (fun x => raw ((s_CAP ++ s_sp ++ sub ++ s_sp_colon) ++ x)). reflexivity.
  Qed.
End Cmd.

(* all of them, in the order of commands.go *)
Lemma go_commands_eq : forall cfg,
  let E := emit to_upper in
  let n := cc_split_len cfg in
  (forall x, go_client_Conn_Raw x = E MRaw cfg [x])
  /\ (forall p, go_client_Conn_Pass p = E MPass cfg [p])
  /\ (forall k, go_client_Conn_Nick k = E MNick cfg [k])
  /\ (forall i r, go_client_Conn_User i r = E MUser cfg [i; r])
  /\ (forall c key, go_client_Conn_Join c key = E MJoin cfg (c :: key))
  /\ (forall c ms, go_client_Conn_Part c ms = E MPart cfg (c :: ms))
  /\ (forall c k ms, go_client_Conn_Kick c k ms = E MKick cfg (c :: k :: ms))
  /\ (forall ms, go_client_Conn_Quit (cc_quit_message cfg) ms = E MQuit cfg ms)
  /\ (forall k, go_client_Conn_Whois k = E MWhois cfg [k])
  /\ (forall k, go_client_Conn_Who k = E MWho cfg [k])
  /\ (forall t msg, go_client_Conn_Privmsg n t msg = E MPrivmsg cfg [t; msg])
  /\ (forall t msg, go_client_Conn_Notice n t msg = E MNotice cfg [t; msg])
  /\ (forall t c args, go_client_Conn_Ctcp n t c args = E MCtcp cfg (t :: c :: args))
  /\ (forall t c args, go_client_Conn_CtcpReply n t c args = E MCtcpReply cfg (t :: c :: args))
  /\ (forall t, go_client_Conn_Version n t = E MVersion cfg [t])
  /\ (forall t msg, go_client_Conn_Action n t msg = E MAction cfg [t; msg])
  /\ (forall c ts, go_client_Conn_Topic c ts = E MTopic cfg (c :: ts))
  /\ (forall t ms, go_client_Conn_Mode t ms = E MMode cfg (t :: ms))
  /\ (forall ms, go_client_Conn_Away ms = E MAway cfg ms)
  /\ (forall k c, go_client_Conn_Invite k c = E MInvite cfg [k; c])
  /\ (forall u p, go_client_Conn_Oper u p = E MOper cfg [u; p])
  /\ (forall u p, go_client_Conn_VHost u p = E MVHost cfg [u; p])
  /\ (forall m, go_client_Conn_Ping m = E MPing cfg [m])
  /\ (forall m, go_client_Conn_Pong m = E MPong cfg [m])
  /\ (forall s caps, go_client_Conn_Cap s caps = E MCap cfg (s :: caps))
  /\ (forall m, go_client_Conn_Authenticate m = E MAuthenticate cfg [m]).
Proof.
  intros cfg E n. subst E n.
  repeat split; intros.
  - apply go_Raw_eq.
  - apply go_Pass_eq.
  - apply go_Nick_eq.
  - apply go_User_eq.
  - apply go_Join_eq.
  - apply go_Part_eq.
  - apply go_Kick_eq.
  - apply go_Quit_eq.
  - apply go_Whois_eq.
  - apply go_Who_eq.
  - apply go_Privmsg_eq.
  - apply go_Notice_eq.
  - apply go_Ctcp_eq.
  - apply go_CtcpReply_eq.
  - apply go_Version_eq.
  - apply go_Action_eq.
  - apply go_Topic_eq.
  - apply go_Mode_eq.
  - apply go_Away_eq.
  - apply go_Invite_eq.
  - apply go_Oper_eq.
  - apply go_VHost_eq.
  - apply go_Ping_eq.
  - apply go_Pong_eq.
  - apply go_Cap_eq.
  - apply go_Authenticate_eq.
Qed.
