(* Proofs/LifecycleInv.v — the inductive invariant of the lifecycle LTS (repaired shape of
   connection.go), for EVERY schedule, any user programs, any server behaviour.
   It packages Appendix B's I4 (closer uniqueness), I5 (wait-group accounting) and I6 (no
   stale closer), plus the bookkeeping that ties the event history to the state. *)
From Coq Require Import List Arith Bool Lia.
From Verif Require Import Lts LifecycleLts LifecycleBase.
Import ListNotations.

(* program points at which the thread holds conn.mu (write lock) *)
Definition holds (p : pc) : bool :=
  match p with
  | PClose C1 _ _ | PClose (C2 _) _ _ | PClose (C3 _) _ _ | PClose (C3a _) _ _
  | PClose (C3b _) _ _ | PClose (C3w _) _ _ | PClose (C4 _) _ _ => true
  | PConn K1 _ _ _ | PConn K2 _ _ _ | PConn K3 _ _ _ | PConn (K4 _) _ _ _ => true
  | _ => false
  end.

(* program points counted by conn.wg: from go statement to wg.Done *)
Definition wgc (p : pc) : nat :=
  match p with
  | R0 | R1 _ | R3 _ | R4 _ | L0 | L1 _ | LS _ _ | LH _ _ | L5 _
  | S0 | S1 _ | S2 _ | S3 _ | S4 | P1 | P2 => 1
  | _ => 0
  end.
Definition wsumf (f : Thr -> pc) (g : gen) : nat :=
  wgc (f (Recv g)) + wgc (f (Loop g)) + wgc (f (Send g)) + wgc (f (Ping g)).
Definition wsum (s : St) (g : gen) : nat := wsumf (pcs s) g.

Lemma wsumf_same f t p g : wgc p = wgc (f t) -> wsumf (updt f t p) g = wsumf f g.
Proof.
  intros H. unfold wsumf.
  assert (A : forall x, wgc (updt f t p x) = wgc (f x)).
  { intros x. unfold updt. destruct (thr_eqb_spec x t); [subst; exact H|reflexivity]. }
  now rewrite !A.
Qed.
Lemma wsumf_other f t p g :
  t <> Recv g -> t <> Loop g -> t <> Send g -> t <> Ping g -> wsumf (updt f t p) g = wsumf f g.
Proof.
  intros. unfold wsumf. rewrite !updt_other by congruence. reflexivity.
Qed.
(* the four counted goroutines of generation g *)
Definition in4 (t : Thr) (g : gen) : Prop := t = Recv g \/ t = Loop g \/ t = Send g \/ t = Ping g.
Lemma wsumf_done f t p g : in4 t g -> wgc (f t) = 1 -> wgc p = 0 ->
  wsumf (updt f t p) g = pred (wsumf f g).
Proof.
  intros Hin H1 H0. unfold wsumf.
  destruct Hin as [-> | [-> | [-> | ->]]];
    rewrite updt_same, !updt_other by congruence; rewrite H0; lia.
Qed.
Lemma wsumf_done_other f t p g g' : in4 t g -> g' <> g -> wsumf (updt f t p) g' = wsumf f g'.
Proof.
  intros Hin Hne. apply wsumf_other; destruct Hin as [-> | [-> | [-> | ->]]]; congruence.
Qed.
Lemma wsumf_pos f t g : in4 t g -> wgc (f t) = 1 -> wsumf f g > 0.
Proof. intros [-> | [-> | [-> | ->]]] H; unfold wsumf; lia. Qed.

Definition gthr (t : Thr) : option gen :=
  match t with
  | Recv g | Loop g | Send g | Ping g | Watch g | Waiter g => Some g
  | _ => None
  end.

(* the generation a closer is tearing down / has torn down *)
Definition cgen (c : cpc) : option gen :=
  match c with
  | C2 g | C3 g | C3a g | C3b g | C3w g | C4 g | C5 g | C6 g | C7 g => Some g
  | _ => None
  end.
Definition pre_disc (c : cpc) : bool :=
  match c with C2 _ | C3 _ | C3a _ | C3b _ | C3w _ | C4 _ | C5 _ => true | _ => false end.

(* shape of the pc of each kind of thread; the captured identity rw is the own generation *)
Definition close_wf (g : gen) (c : cpc) (id : option gen) (ret : cont) : Prop :=
  (c = C0 \/ c = C1 -> id = Some g) /\ ret = None /\ (forall g', cgen c = Some g' -> g' = g).
Definition wf_pc (t : Thr) (p : pc) : Prop :=
  match t with
  | Recv g => match p with
              | PIdle | PDone | R0 => True
              | R1 rw | R3 rw | R4 rw => rw = g
              | PClose c id ret => close_wf g c id ret
              | PConn _ _ inh ret => inh = true /\ ret = None
              | _ => False end
  | Loop g => match p with
              | PIdle | PDone | L0 => True
              | L1 rw | LS rw _ | LH rw _ | L5 rw => rw = g
              | PClose c id ret => close_wf g c id ret
              | PConn _ _ inh ret => inh = true /\ ret = None
              | _ => False end
  | Send g => match p with
              | PIdle | PDone | S0 | S4 => True
              | S1 rw | S2 rw | S3 rw => rw = g
              | PClose c id ret => close_wf g c id ret
              | PConn _ _ inh ret => inh = true /\ ret = None
              | _ => False end
  | Ping g => match p with PIdle | PDone | P1 | P2 => True | _ => False end
  | Watch g => match p with
               | PIdle | PDone | W1 => True
               | PClose c id ret => close_wf g c id ret
               | PConn _ _ inh ret => inh = true /\ ret = None
               | _ => False end
  | Waiter g => match p with PIdle | PDone | T1 => True | _ => False end
  | User i => match p with
              | PIdle | U _ | URaw _ _ => True
              | PClose _ id ret => id = None /\ ret <> None
              | PConn _ _ _ ret => ret <> None
              | _ => False end
  | Env => p = PIdle
  end.

(* what a thread inside Connect knows *)
Definition kinv (s : St) (t : Thr) (p : pc) : Prop :=
  match p with
  | PConn K0 _ _ _ | PConn K1 _ _ _ => is_call (last_conn t (hist s)) = true
  | PConn K2 _ _ _ => is_call (last_conn t (hist s)) = true /\ connected s = false /\ wg s = 0
  | PConn K3 _ _ _ => is_call (last_conn t (hist s)) = true /\ connected s = false /\ wg s = 0
                      /\ cur s = 0 /\ 1 <= nq s /\ ~ In (nq s) (ests (hist s))
  | PConn (K4 g) _ _ _ | PConn (K5 g) _ _ _ =>
      is_estab g (last_conn t (hist s)) = true /\ ~ In g (regs (hist s))
  | PConn (K6 g) _ _ _ | PConn (K7 g) _ _ _ =>
      is_estab g (last_conn t (hist s)) = true /\ In g (regs (hist s)) /\ ~ In g (retoks (hist s))
  | _ => True
  end.

(* what a thread inside closeIf knows *)
Definition cinv (s : St) (t : Thr) (p : pc) : Prop :=
  match p with
  | PClose c _ _ =>
      (forall g, cgen c = Some g ->
         In (ETeardown g t) (hist s) /\ (if pre_disc c then ~ In g (discs (hist s)) else In g (discs (hist s))))
      /\ (forall g, td_pc p = Some g ->
            connected s = false /\ cur s = g /\ cancelled s g = true /\ sock_closed s g = true)
      /\ match c with C4 g => wg s = 0 | _ => True end
  | _ => True
  end.

(* everything thread t knows at pc p; it mentions no other thread's pc *)
Definition tinv (s : St) (t : Thr) (p : pc) : Prop :=
  wf_pc t p /\ (holds p = true -> mu s = Some t) /\ kinv s t p /\ cinv s t p
  /\ (forall g, gthr t = Some g -> p <> PIdle -> In g (ests (hist s))).

Record Inv (s : St) : Prop := {
  i_t : forall t, tinv s t (pcs s t);
  i_mu : forall t, mu s = Some t -> holds (pcs s t) = true;
  i_c3 : forall t g id ret, pcs s t = PClose (C3 g) id ret ->
           pcs s (Waiter g) = T1 \/ pcs s (Waiter g) = PDone;
  i_wt : forall g, pcs s (Waiter g) = T1 -> exists t id ret, pcs s t = PClose (C3 g) id ret;
  i_wd : forall g, pcs s (Waiter g) = PDone -> In g (tds (hist s)) /\ wsum s g = 0;
  i_refs : in_ref s = nq s /\ out_ref s = nq s /\ (cur s = 0 \/ cur s = nq s);
  i_conn : connected s = true -> cur s = nq s /\ In (nq s) (ests (hist s));
  i_ests : forall g, In g (ests (hist s)) -> 1 <= g <= nq s;
  i_live : forall g, In g (ests (hist s)) -> (connected s = true /\ cur s = g) \/ In g (tds (hist s));
  i_tds : forall g, In g (tds (hist s)) -> In g (ests (hist s)) /\ (g = nq s -> connected s = false);
  i_tdp : forall g, In g (tds (hist s)) ->
            In g (discs (hist s)) \/ exists t c id ret, pcs s t = PClose c id ret /\ cgen c = Some g /\ pre_disc c = true;
  i_discs : forall g, In g (discs (hist s)) -> In g (tds (hist s));
  i_regs : forall g, In g (regs (hist s)) -> In g (ests (hist s));
  i_rets : forall g, In g (retoks (hist s)) -> In g (regs (hist s));
  i_nd : NoDup (ests (hist s)) /\ NoDup (tds (hist s)) /\ NoDup (discs (hist s))
         /\ NoDup (regs (hist s)) /\ NoDup (retoks (hist s));
  i_wg : wg s = wsum s (cur s);
  i_wg0 : forall g, g <> cur s -> wsum s g = 0;
  i_wgl : wg s > 0 -> connected s = true \/ exists t, mu s = Some t /\ td_pc (pcs s t) = Some (cur s);
  i_fresh : forall g, g > nq s -> inq s g = 0 /\ outq s g = 0 /\ cancelled s g = false
                                  /\ sock_closed s g = false /\ srv_eof s g = false;
  i_ok6 : C06_safe (hist s) = true;
  i_ok7 : C07_safe (hist s) = true
}.

(* ---------- tactics ---------- *)
Ltac psimpl :=
  cbn [connected mu cur nq in_ref out_ref inq outq cancelled sock_closed srv_in srv_eof srv_out
       ticks wg pcs hist set_connected set_mu set_cur set_nq set_in_ref set_out_ref set_inq
       set_outq set_cancelled set_sock_closed set_srv_in set_srv_eof set_srv_out set_ticks
       set_wg set_pcs set_hist setpc log] in *.

#[export] Hint Rewrite ests_snoc regs_snoc discs_snoc tds_snoc enders_snoc retoks_snoc
  last_conn_snoc app_nil_r in_app_iff : lchist.

Ltac hsimpl := psimpl; autorewrite with lchist in *; cbn [In app conn_ev_of] in *.

Ltac facts Hinv t :=
  let Ht := fresh "Ht" in
  pose proof (i_t _ Hinv t) as Ht;
  pose proof (i_refs _ Hinv) as (Hri & Hro & Hrc);
  pose proof (i_conn _ Hinv) as Hconn.

Lemma teardown_in_tds g t h : In (ETeardown g t) h -> In g (tds h).
Proof. intros H. apply in_tds. eauto. Qed.

Lemma is_estab_ests g t h : is_estab g (last_conn t h) = true -> In g (ests h).
Proof. intros H. apply in_ests. exists t. now apply is_estab_in. Qed.
#[export] Hint Resolve is_estab_ests teardown_in_tds : lc.

Ltac use_Ht :=
  match goal with
  | Ht : tinv _ _ _ |- _ =>
      unfold tinv in Ht; destruct Ht as (Hwf & Hhold & Hk & Hc & Hgt);
      cbn [wf_pc holds kinv cinv close_wf cgen pre_disc td_pc gthr] in Hwf, Hhold, Hk, Hc, Hgt;
      try (destruct Hc as (Hc1 & Hc2 & Hc3));
      repeat match goal with
             | H : forall g0, Some ?g = Some g0 -> _ |- _ => specialize (H g eq_refl)
             | H : forall g0, None = Some g0 -> _ |- _ => clear H
             | H : true = true -> _ |- _ => specialize (H eq_refl)
             | H : false = true -> _ |- _ => clear H
             end;
      try match goal with
          | H : In (ETeardown ?g ?t) ?h /\ _ |- _ =>
              let H1 := fresh "Htd" in let H2 := fresh "Hnd" in destruct H as [H1 H2];
              pose proof (teardown_in_tds _ _ _ H1)
          end
  end.

(* two threads that both established g are the same thread *)
Lemma estab_same s g t t' : Inv s ->
  is_estab g (last_conn t (hist s)) = true -> is_estab g (last_conn t' (hist s)) = true -> t = t'.
Proof.
  intros Hinv H1 H2. eapply estab_unique; [apply (i_nd _ Hinv)| |]; apply is_estab_in; eauto.
Qed.
Lemma closer_same s g t t' : Inv s ->
  In (ETeardown g t) (hist s) -> In (ETeardown g t') (hist s) -> t = t'.
Proof. intros Hinv. apply teardown_unique. apply (i_nd _ Hinv). Qed.

(* a thread that does not hold conn.mu knows nothing but facts about the history *)
Lemma tinv_nonholder s s' t p :
  holds p = false -> hist s' = hist s -> tinv s t p -> tinv s' t p.
Proof.
  intros Hh Hhist (Hwf & Hm & Hk & Hc & Hg). unfold tinv.
  split; [exact Hwf|]. split; [rewrite Hh; discriminate|]. split; [|split].
  - unfold kinv in *. destruct p; auto. destruct k; cbn [holds] in Hh; try discriminate;
      rewrite Hhist; exact Hk.
  - unfold cinv in *. destruct p; auto. destruct Hc as (A & B & C).
    destruct c; cbn [holds] in Hh; try discriminate;
      (split; [rewrite Hhist; exact A|split; [intros g0 [=]|exact I]]).
  - rewrite Hhist. exact Hg.
Qed.

Section Steps.
  Variables (hm : nat) (hl : bool).
  Notation step := (fstep hm hl).

  Ltac begin Hinv H :=
    match type of H with step _ (?t, _) = _ => facts Hinv t end;
    step_inv H; try use_Ht; hsimpl.

  Lemma step_refs s tid s' : Inv s -> step s tid = Some s' ->
    in_ref s' = nq s' /\ out_ref s' = nq s' /\ (cur s' = 0 \/ cur s' = nq s').
  Proof.
    intros Hinv H. destruct tid as [t ch]. facts Hinv t.
    step_inv H; cbn; auto.
  Qed.

  Lemma step_fresh s tid s' : Inv s -> step s tid = Some s' ->
    forall g, g > nq s' -> inq s' g = 0 /\ outq s' g = 0 /\ cancelled s' g = false
                           /\ sock_closed s' g = false /\ srv_eof s' g = false.
  Proof.
    intros Hinv H g. destruct tid as [t ch]. facts Hinv t.
    pose proof (i_fresh _ Hinv g) as Hf.
    step_inv H; psimpl; intros Hg;
      try (destruct Hf as (F1 & F2 & F3 & F4 & F5); [lia|]);
      unfold updf; repeat split; auto;
      try match goal with |- context [Nat.eqb ?a ?b] => destruct (Nat.eqb_spec a b); [lia|auto] end.
  Qed.

  Lemma step_ests s tid s' : Inv s -> step s tid = Some s' ->
    forall g, In g (ests (hist s')) -> 1 <= g <= nq s'.
  Proof.
    intros Hinv H g. destruct tid as [t ch]. pose proof (i_ests _ Hinv g) as Hold.
    begin Hinv H; intros Hg; try (apply Hold; exact Hg); intuition (subst; try lia).
  Qed.

  Lemma step_conn s tid s' : Inv s -> step s tid = Some s' ->
    connected s' = true -> cur s' = nq s' /\ In (nq s') (ests (hist s')).
  Proof.
    intros Hinv H. destruct tid as [t ch].
    begin Hinv H; intros Hg; try (apply Hconn; exact Hg); try discriminate;
      intuition (subst; eauto with lc; try lia; try congruence).
  Qed.

  Lemma step_live s tid s' : Inv s -> step s tid = Some s' ->
    forall g, In g (ests (hist s')) -> (connected s' = true /\ cur s' = g) \/ In g (tds (hist s')).
  Proof.
    intros Hinv H g. destruct tid as [t ch]. pose proof (i_live _ Hinv g) as Hold.
    begin Hinv H; intros Hg; try (apply Hold; exact Hg);
      intuition (subst; eauto with lc; try lia; try congruence).
  Qed.


  Lemma step_tds s tid s' : Inv s -> step s tid = Some s' ->
    forall g, In g (tds (hist s')) -> In g (ests (hist s')) /\ (g = nq s' -> connected s' = false).
  Proof.
    intros Hinv H g. destruct tid as [t ch]. pose proof (i_tds _ Hinv g) as Hold.
    pose proof (i_ests _ Hinv g) as Hb.
    begin Hinv H; intros Hg; try (apply Hold; exact Hg);
      intuition (subst; eauto with lc; try lia; try congruence).
  Qed.

  Lemma step_discs s tid s' : Inv s -> step s tid = Some s' ->
    forall g, In g (discs (hist s')) -> In g (tds (hist s')).
  Proof.
    intros Hinv H g. destruct tid as [t ch]. pose proof (i_discs _ Hinv g) as Hold.
    begin Hinv H; intros Hg; try (apply Hold; exact Hg);
      intuition (subst; eauto with lc; try lia; try congruence).
  Qed.

  Lemma step_regs s tid s' : Inv s -> step s tid = Some s' ->
    forall g, In g (regs (hist s')) -> In g (ests (hist s')).
  Proof.
    intros Hinv H g. destruct tid as [t ch]. pose proof (i_regs _ Hinv g) as Hold.
    begin Hinv H; intros Hg; try (apply Hold; exact Hg);
      intuition (subst; eauto with lc; try lia; try congruence).
  Qed.

  Lemma step_rets s tid s' : Inv s -> step s tid = Some s' ->
    forall g, In g (retoks (hist s')) -> In g (regs (hist s')).
  Proof.
    intros Hinv H g. destruct tid as [t ch]. pose proof (i_rets _ Hinv g) as Hold.
    begin Hinv H; intros Hg; try (apply Hold; exact Hg);
      intuition (subst; eauto with lc; try lia; try congruence).
  Qed.

  Lemma step_nd s tid s' : Inv s -> step s tid = Some s' ->
    NoDup (ests (hist s')) /\ NoDup (tds (hist s')) /\ NoDup (discs (hist s'))
    /\ NoDup (regs (hist s')) /\ NoDup (retoks (hist s')).
  Proof.
    intros Hinv H. destruct tid as [t ch]. pose proof (i_nd _ Hinv) as (N1 & N2 & N3 & N4 & N5).
    pose proof (i_tds _ Hinv) as Htds.
    begin Hinv H; repeat split; auto; apply NoDup_snoc; auto; intuition.
    all: try (rewrite Hri in *; tauto).
    all: match goal with
         | Hx : In (cur ?s0) (tds (hist ?s0)), Hy : cur ?s0 = nq ?s0 |- _ =>
             destruct (Htds _ Hx) as [_ Hz]; specialize (Hz Hy); congruence
         end.
  Qed.


  Ltac upd_cases :=
    unfold updt in *;
    repeat match goal with
           | |- context [thr_eqb ?a ?b] => destruct (thr_eqb_spec a b); [subst|]
           | H : context [thr_eqb ?a ?b] |- _ => destruct (thr_eqb_spec a b); [subst|]
           end.

  Lemma step_mu s tid s' : Inv s -> step s tid = Some s' ->
    forall t', mu s' = Some t' -> holds (pcs s' t') = true.
  Proof.
    intros Hinv H t'. destruct tid as [t ch]. pose proof (i_mu _ Hinv t') as Hmu.
    begin Hinv H; intros Hm; upd_cases; cbn [holds]; auto; try congruence;
      try (specialize (Hmu Hm); rewrite E in Hmu; cbn [holds] in Hmu; congruence).
  Qed.


End Steps.
