(* Proofs/GenEqCaps.v — stage 2, capability negotiation: the Gallina TRANSLATION (Gen/GoFuncs.v)
   of capabilitySet, capSet.Add/Has/Intersect/Slice/Size, getRequestCapabilities,
   negotiateCapabilities, handleCapNak, h_903, h_904, h_908 is equal to Model/Caps.v.
   A *capSet is translated to the value of its one modelled field (caps, a CapsLib.kmap; the
   mutex is dropped); [for k := range m] walks the keys in kmap's canonical order — for
   Intersect the result is a filter and for Slice it is sorted, so Go's random order cannot be
   observed (CapsLibFacts.isort_enum / C19_slice_any_order cover the model side).
   cfg.Sasl is an option of the generated oracle record; only [!= nil] is used here. *)
From Verif Require Import GoBytes LineLib GoBytesFacts Split Commands CapsLib Base64 Caps.
From Verif Require Import GoFuncs GenEqTac GenEqCmd.
From Verif Require LineDeliver.
Open Scope Z_scope.

(* ---------- the SASL client: model record -> generated oracle record ---------- *)
Definition sasl_to_go (c : sasl_client) : go_sasl_Client :=
  {| go_sasl_Client_Start := match sc_start c with
                             | Some (mech, ir) => (mech, ir, false)
                             | None => ([], None, true)
                             end;
     go_sasl_Client_Next := fun ch =>
       match sc_next c (match ch with Some b => b | None => [] end) with
       | Some r => (Some r, false)
       | None => (None, true)
       end |}.
Definition osasl (o : option sasl_client) : option go_sasl_Client := option_map sasl_to_go o.

(* ---------- capSet ---------- *)
Lemma go_capabilitySet_eq : go_client_capabilitySet = Ok km_empty.
Proof. reflexivity. Qed.

Lemma go_capSet_Add_eq c caps : go_client_capSet_Add c caps = cap_add c caps.
Proof.
  go_unfold go_client_capSet_Add. go_lets loop. rewrite bind_ok_r.
  revert c. induction caps as [|cap caps IH]; intros c; [reflexivity|].
  cbn [cap_add]. unfold loop at 1; fold loop. unfold cap_add1, s_dash.
  destruct (has_prefix cap [45%N]).
  - rewrite !bind_assoc. destruct (slice_from cap 1); [|reflexivity]. cbn [bind]. apply IH.
  - cbn [bind]. apply IH.
Qed.

Lemma go_capSet_Has_eq c cap : go_client_capSet_Has c cap = Ok (cap_has c cap).
Proof. reflexivity. Qed.

(* stage 7: the two queries of client/connection.go a user makes after negotiation *)
Lemma go_HasCapability_eq c cap : go_client_Conn_HasCapability c cap = Ok (cap_has c cap).
Proof. reflexivity. Qed.

Lemma go_SupportsCapability_eq c cap : go_client_Conn_SupportsCapability c cap = Ok (cap_has c cap).
Proof. reflexivity. Qed.

Lemma go_capSet_Size_eq c : go_client_capSet_Size c = Ok (cap_size c).
Proof. reflexivity. Qed.

Lemma go_capSet_Slice_eq c : go_client_capSet_Slice c = Ok (cap_slice c).
Proof.
  go_unfold go_client_capSet_Slice. go_lets loop.
  assert (Hloop : forall l acc, loop l acc = acc ++ l).
  { induction l as [|x l IH]; intros acc; [symmetry; apply app_nil_r|].
    unfold loop at 1; fold loop. cbv zeta. rewrite IH, <- app_assoc. reflexivity. }
  rewrite Hloop. reflexivity.
Qed.

Lemma filter_filter' {A} (f g : A -> bool) l :
  filter f (filter g l) = filter (fun x => g x && f x) l.
Proof.
  induction l as [|x l IH]; [reflexivity|]. cbn [filter].
  destruct (g x); cbn [filter andb]; [destruct (f x)|]; rewrite IH; reflexivity.
Qed.

Lemma beq_sym a b : beq a b = beq b a.
Proof.
  destruct (beq a b) eqn:E1, (beq b a) eqn:E2; try reflexivity.
  - apply beq_eq in E1. subst. rewrite beq_refl in E2. discriminate.
  - apply beq_eq in E2. subst. rewrite beq_refl in E1. discriminate.
Qed.

Lemma go_capSet_Intersect_eq c other :
  go_client_capSet_Intersect c other = Ok (cap_intersect c other).
Proof.
  go_unfold go_client_capSet_Intersect. go_lets loop. rewrite bind_ok_r.
  assert (Hloop : forall l m, loop l m =
            Ok (filter (fun kv => negb (existsb (fun k => beq k (fst kv) && negb (cap_has other k)) l)) m)).
  { induction l as [|k l IH]; intros m.
    - unfold loop. cbn [existsb negb]. f_equal. induction m as [|x m IHm]; [reflexivity|].
      cbn [filter]. rewrite <- IHm. reflexivity.
    - unfold loop at 1; fold loop. rewrite go_capSet_Has_eq. cbn [bind]. cbv zeta.
      rewrite IH. f_equal. cbn [existsb].
      destruct (cap_has other k); cbn [negb].
      + apply filter_ext. intros kv. rewrite andb_false_r. reflexivity.
      + unfold go_kmap_delete, km_filter. rewrite filter_filter'. apply filter_ext. intros kv.
        rewrite andb_true_r, negb_orb, (beq_sym k (fst kv)). reflexivity. }
  rewrite Hloop. f_equal. unfold cap_intersect, km_filter, km_keys.
  apply filter_ext_in. intros kv Hin.
  destruct (cap_has other (fst kv)) eqn:Hh.
  - apply negb_true_iff. apply not_true_iff_false. intros Hex.
    apply existsb_exists in Hex. destruct Hex as [k [_ Hk]].
    apply andb_true_iff in Hk. destruct Hk as [Hk1 Hk2]. apply beq_eq in Hk1. subst k.
    rewrite Hh in Hk2. discriminate.
  - apply negb_false_iff. apply existsb_exists. exists (fst kv). split.
    + apply in_map. exact Hin.
    + rewrite beq_refl, Hh. reflexivity.
Qed.

(* ---------- negotiation ---------- *)
Lemma go_getRequestCapabilities_eq cfg :
  go_client_Conn_getRequestCapabilities (cf_wanted cfg) (osasl (cf_sasl cfg)) = request_caps cfg.
Proof.
  go_unfold go_client_Conn_getRequestCapabilities. unfold request_caps, default_caps, s_sasl.
  rewrite go_capabilitySet_eq. cbn [bind].
  change go_client_defaultCaps with (@nil bytes).
  rewrite !go_capSet_Add_eq. destruct (cap_add km_empty []) as [s0|]; [|reflexivity]. cbn [bind].
  destruct (cf_sasl cfg); cbn [osasl option_map go_is_some]; rewrite ?go_capSet_Add_eq.
  - destruct (cap_add s0 _); [|reflexivity]. cbn [bind]. apply go_capSet_Add_eq.
  - cbn [bind]. apply go_capSet_Add_eq.
Qed.

Lemma go_negotiateCapabilities_eq cfg st caps :
  go_client_Conn_negotiateCapabilities (cf_wanted cfg) (osasl (cf_sasl cfg)) (cs_supported st) caps
  = (r <- negotiate cfg st caps ;; Ok (cs_supported (fst r), snd r)).
Proof.
  go_unfold go_client_Conn_negotiateCapabilities. unfold negotiate. cbv zeta.
  rewrite go_capSet_Add_eq. destruct (cap_add (cs_supported st) caps) as [sup|]; [|reflexivity].
  cbn [bind]. rewrite go_getRequestCapabilities_eq.
  destruct (request_caps cfg) as [req0|]; [|reflexivity]. cbn [bind].
  rewrite go_capSet_Intersect_eq. cbn [bind]. rewrite go_capSet_Size_eq. cbn [bind].
  go_ifs2; rewrite ?go_capSet_Slice_eq; cbn [bind]; rewrite (go_Cap_eq cmd_cfg0);
    unfold s_REQ, s_END; destruct (emit _ _ _ _); reflexivity.
Qed.

Lemma go_handleCapNak_eq st caps :
  go_client_Conn_handleCapNak caps = (r <- handle_nak st caps ;; Ok (snd r)).
Proof.
  go_unfold go_client_Conn_handleCapNak. unfold handle_nak. cbv zeta.
  rewrite (go_Cap_eq cmd_cfg0). unfold s_END. destruct (emit _ _ _ _); reflexivity.
Qed.

Lemma go_h_903_eq st : go_client_Conn_h_903 = (r <- h_903 st ;; Ok (snd r)).
Proof.
  go_unfold go_client_Conn_h_903. unfold h_903. cbv zeta.
  rewrite (go_Cap_eq cmd_cfg0). unfold s_END. destruct (emit _ _ _ _); reflexivity.
Qed.
Lemma go_h_904_eq st : go_client_Conn_h_904 = (r <- h_904 st ;; Ok (snd r)).
Proof.
  go_unfold go_client_Conn_h_904. unfold h_904. cbv zeta.
  rewrite (go_Cap_eq cmd_cfg0). unfold s_END. destruct (emit _ _ _ _); reflexivity.
Qed.
Lemma go_h_908_eq st e : go_client_Conn_h_908 (ev_args e) = (r <- h_908 st e ;; Ok (snd r)).
Proof.
  go_unfold go_client_Conn_h_908. unfold h_908. cbv zeta.
  destruct (elem_at (ev_args e) 1); [|reflexivity]. cbn [bind].
  rewrite (go_Cap_eq cmd_cfg0). unfold s_END. destruct (emit _ _ _ _); reflexivity.
Qed.
Lemma go_h_410_caps_eq st e :
  (_ <- go_client_Conn_h_410 (ev_args e) ;; Ok (st, @nil bytes)) = h_410 st e.
Proof. unfold h_410, go_client_Conn_h_410. destruct (elem_at (ev_args e) 1); reflexivity. Qed.

(* ---------- handleCapAck ---------- *)
Definition mk_cstate (sup cur : cap_set) (rem : option bytes) : cstate :=
  {| cs_supported := sup; cs_current := cur; cs_remaining := rem |}.

Lemma go_handleCapAck_eq cfg st caps :
  go_client_Conn_handleCapAck (osasl (cf_sasl cfg)) (cs_current st) (cs_remaining st) caps
  = (r <- handle_ack cfg st caps ;; Ok (cs_current (fst r), cs_remaining (fst r), snd r)).
Proof.
  go_unfold go_client_Conn_handleCapAck. repeat go_let_any. go_name_loop loop. go_subst_lets.
  assert (Hloop : forall l got cur rem out,
            loop l got cur rem out
            = (r <- ack_loop cfg (mk_cstate (cs_supported st) cur rem, out, got) l ;;
               let '(st', o, g) := r in Ok (g, cs_current st', cs_remaining st', o))).
  { induction l as [|cap l IH]; intros got cur rem out; [reflexivity|].
    cbn [ack_loop]. unfold loop at 1; fold loop. unfold ack_step, mk_cstate at 1.
    cbn [cs_current]. rewrite go_capSet_Add_eq. rewrite !bind_assoc.
    destruct (cap_add cur [cap]) as [cur'|]; [|reflexivity]. cbn [bind]. cbv zeta.
    unfold set_current, set_remaining. cbn [cs_supported cs_current cs_remaining].
    change [115; 97; 115; 108]%N with s_sasl.
    destruct (cf_sasl cfg) as [cl|]; cbn [osasl option_map go_is_some andb].
    - destruct (beq cap s_sasl); cbn [bind sasl_to_go go_sasl_Client_Start].
      + destruct (sc_start cl) as [[mech ir]|]; cbn [bind].
        * rewrite (go_Authenticate_eq cmd_cfg0). rewrite !bind_assoc.
          destruct (emit _ _ _ _) as [ls|]; [|reflexivity]. cbn [bind].
          rewrite IH. reflexivity.
        * rewrite IH. reflexivity.
      + rewrite IH. reflexivity.
    - rewrite IH. reflexivity. }
  rewrite Hloop. unfold handle_ack. rewrite !bind_assoc.
  replace (mk_cstate (cs_supported st) (cs_current st) (cs_remaining st)) with st
    by (destruct st; reflexivity).
  destruct (ack_loop cfg (st, [], false) caps) as [[[st' o] g]|]; [|reflexivity]. cbn [bind].
  destruct g; cbn [negb bind fst snd]; [reflexivity|].
  rewrite (go_Cap_eq cmd_cfg0). unfold s_END. destruct (emit _ _ _ _); reflexivity.
Qed.

(* what the handlers leave untouched *)
Lemma ack_loop_supported cfg : forall l acc r,
  ack_loop cfg acc l = Ok r -> cs_supported (fst (fst r)) = cs_supported (fst (fst acc)).
Proof.
  induction l as [|cap l IH]; intros [[st o] g] r H; cbn [ack_loop] in H.
  - inversion H. reflexivity.
  - destruct (ack_step cfg (st, o, g) cap) as [acc'|] eqn:E; [|discriminate]. cbn [bind] in H.
    rewrite (IH _ _ H). unfold ack_step in E.
    destruct (cap_add (cs_current st) [cap]); [|discriminate]. cbn [bind] in E.
    destruct (cf_sasl cfg) as [cl|]; [destruct (beq cap s_sasl); [destruct (sc_start cl) as [[m i]|]|]|];
      try (inversion E; reflexivity).
    all: try (destruct (emit _ _ _ _); [|discriminate]; inversion E; reflexivity).
Qed.

(* ---------- h_CAP ---------- *)
Lemma go_Line_Text_last args : go_client_Line_Text args = Ok (last args []).
Proof.
  go_unfold go_client_Line_Text. destruct args as [|a args]; [reflexivity|].
  replace (llen (a :: args) >? 0) with true by (unfold llen; cbn [length]; lia).
  apply (LineDeliver.elem_at_last (a :: args) []). discriminate.
Qed.

Lemma go_h_CAP_eq cfg st e :
  go_client_Conn_h_CAP (cf_wanted cfg) (osasl (cf_sasl cfg)) (cs_current st) (cs_remaining st)
                       (cs_supported st) (ev_args e)
  = (r <- h_CAP fields cfg st e ;;
     Ok (cs_current (fst r), cs_remaining (fst r), cs_supported (fst r), snd r)).
Proof.
  go_unfold go_client_Conn_h_CAP. unfold h_CAP, ev_text. cbv zeta.
  destruct (elem_at (ev_args e) 1) as [sub|]; [|reflexivity]. cbn [bind].
  rewrite go_Line_Text_last. cbn [bind].
  change [76; 83]%N with s_LS. change [65; 67; 75]%N with s_ACK. change [78; 65; 75]%N with s_NAK.
  destruct (beq sub s_LS).
  - rewrite go_negotiateCapabilities_eq. unfold negotiate. rewrite !bind_assoc.
    destruct (cap_add _ _); [|reflexivity]. cbn [bind]. rewrite !bind_assoc.
    destruct (request_caps cfg); [|reflexivity]. cbn [bind].
    destruct (cap_size _ >? 0); rewrite !bind_assoc; destruct (emit _ _ _ _); reflexivity.
  - destruct (beq sub s_ACK).
    + rewrite go_handleCapAck_eq. unfold handle_ack. rewrite !bind_assoc.
      destruct (ack_loop cfg (st, [], false) _) as [[[st' o] g]|] eqn:Hack; [|reflexivity].
      cbn [bind]. pose proof (ack_loop_supported _ _ _ _ Hack) as Hsup. cbn [fst] in Hsup.
      destruct g; cbn [bind fst snd app]; [rewrite Hsup; reflexivity|].
      rewrite !bind_assoc. destruct (emit _ _ _ _); cbn [bind fst snd app]; [rewrite Hsup|]; reflexivity.
    + destruct (beq sub s_NAK); cbn [bind fst snd]; [|reflexivity].
      rewrite (go_handleCapNak_eq st). unfold handle_nak. rewrite !bind_assoc.
      destruct (emit _ _ _ _); reflexivity.
Qed.

(* ---------- h_AUTHENTICATE ---------- *)
Lemma go_h_AUTHENTICATE_eq cfg st e :
  go_client_Conn_h_AUTHENTICATE (osasl (cf_sasl cfg)) (cs_remaining st) (ev_args e)
  = (r <- h_AUTHENTICATE cfg st e ;; Ok (cs_remaining (fst r), snd r)).
Proof.
  go_unfold go_client_Conn_h_AUTHENTICATE. unfold h_AUTHENTICATE, s_plus. cbv zeta.
  destruct (cf_sasl cfg) as [cl|]; cbn [osasl option_map go_is_some negb]; [|reflexivity].
  destruct st as [sup cur [rem|]]; cbn [cs_remaining go_is_some go_nbytes fst snd set_remaining].
  - rewrite (go_Authenticate_eq cmd_cfg0).
    destruct (len rem >? 0); destruct (emit _ _ _ _); reflexivity.
  - destruct (elem_at (ev_args e) 0) as [a0|]; [|reflexivity]. cbn [bind].
    unfold go_b64_decode. destruct (b64_decode a0) as [ch|]; [|reflexivity].
    cbn [bind sasl_to_go go_sasl_Client_Next].
    destruct (sc_next cl ch) as [resp|]; [|reflexivity]. cbn [bind go_nbytes].
    rewrite (go_Authenticate_eq cmd_cfg0). destruct (emit _ _ _ _); reflexivity.
Qed.
