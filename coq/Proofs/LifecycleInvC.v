(* Proofs/LifecycleInvC.v — preservation of the waiter / closer parts of the lifecycle
   invariant (continuation of LifecycleInvB.v). *)
From Coq Require Import List Arith Bool Lia.
From Verif Require Import Lts LifecycleLts LifecycleBase LifecycleInv LifecycleInvB.
Import ListNotations.

Section Steps.
  Variables (hm : nat) (hl : bool).
  Notation step := (fstep hm hl).

  Ltac begin Hinv H :=
    match type of H with step _ (?t, _) = _ => facts Hinv t end;
    step_inv H; try use_Ht; hsimpl.

  Ltac upd_cases :=
    unfold updt in *;
    repeat match goal with
           | |- context [thr_eqb ?a ?b] => destruct (thr_eqb_spec a b); [subst|]
           | H : context [thr_eqb ?a ?b] |- _ => destruct (thr_eqb_spec a b); [subst|]
           end.

  Lemma holder_is s t : Inv s -> holds (pcs s t) = true -> mu s = Some t.
  Proof. intros Hinv H. destruct (i_t _ Hinv t) as (_ & Hh & _). auto. Qed.
  Lemma waiter_pc s g : Inv s -> pcs s (Waiter g) = PIdle \/ pcs s (Waiter g) = T1 \/ pcs s (Waiter g) = PDone.
  Proof.
    intros Hinv. destruct (i_t _ Hinv (Waiter g)) as (Hwf & _). cbn in Hwf.
    destruct (pcs s (Waiter g)); try contradiction; auto.
  Qed.

  Lemma gthr_idle s t g : Inv s -> gthr t = Some g -> ~ In g (ests (hist s)) -> pcs s t = PIdle.
  Proof.
    intros Hinv Hg Hn. destruct (i_t _ Hinv t) as (_ & _ & _ & _ & Hgt).
    destruct (pcs s t) eqn:E; try reflexivity; exfalso; apply Hn; apply Hgt; auto; discriminate.
  Qed.

  Lemma step_c3 s tid s' : Inv s -> step s tid = Some s' ->
    forall t g id ret, pcs s' t = PClose (C3 g) id ret ->
      pcs s' (Waiter g) = T1 \/ pcs s' (Waiter g) = PDone.
  Proof.
    intros Hinv H t' g' id' ret'. destruct tid as [t ch]. pose proof (i_c3 _ Hinv t' g' id' ret') as Hold.
    pose proof (i_t _ Hinv (Waiter g')) as Hw.
    begin Hinv H; intros Hp; upd_cases; try discriminate; auto;
      try (injection Hp as ? ? ?; subst); auto;
      try (rewrite E in *; try discriminate; auto; fail).
    all: try (cbn [wf_pc] in Hwf; contradiction).
    all: try congruence.
    all: try (unfold fin_pc, after in Hp; repeat match type of Hp with context [match ?x with _ => _ end] => destruct x
                                            | context [if ?x then _ else _] => destruct x end; discriminate).
  Qed.


  Lemma step_wt s tid s' : Inv s -> step s tid = Some s' ->
    forall g, pcs s' (Waiter g) = T1 -> exists t id ret, pcs s' t = PClose (C3 g) id ret.
  Proof.
    intros Hinv H g'. destruct tid as [t ch]. pose proof (i_wt _ Hinv g') as Hold.
    pose proof (i_c3 _ Hinv) as Hc3'.
    begin Hinv H; intros Hp.
    all: try (exact (Hold Hp)).
    all: try (match goal with
              | E : pcs ?s0 ?ta = _ |- _ =>
                destruct (thr_eqb_spec (Waiter g') ta) as [e|Hne];
                [try (rewrite <- e in *); rewrite updt_same in Hp; try discriminate;
                 unfold fin_pc, after in Hp;
                 repeat match type of Hp with context [match ?x with _ => _ end] => destruct x
                                            | context [if ?x then _ else _] => destruct x end; discriminate
                |rewrite updt_other in Hp by assumption;
                 destruct (Hold Hp) as (t0 & id0 & ret0 & Ht0);
                 destruct (thr_eqb_spec t0 ta) as [->|Hne0];
                 [rewrite E in Ht0; try discriminate; injection Ht0 as ? ? ?; subst;
                  try (eexists _, _, _; rewrite updt_same; reflexivity); congruence
                 |exists t0, id0, ret0; rewrite updt_other by assumption; exact Ht0]]
              end; fail).
    1: { assert (Hnw : forall x, t <> Waiter x) by (intros x ->; cbn in Hwf; exact Hwf).
      destruct (Nat.eq_dec g g') as [->|Hg].
      + exists t, id, ret. now rewrite updt_same.
      + rewrite updt_other in Hp by (intros e; apply (Hnw g'); congruence).
        rewrite updt_other in Hp by congruence.
        destruct (Hold Hp) as (t0 & id0 & ret0 & Ht0). exists t0, id0, ret0.
        rewrite updt_other by (intros ->; congruence).
        rewrite updt_other; [exact Ht0|]. intros ->. destruct (waiter_pc s g Hinv) as [e|[e|e]]; congruence. }
    all: exfalso; assert (Hnw : t <> Waiter g') by (intros ->; cbn in Hwf; exact Hwf);
      unfold updt in Hp; destruct (thr_eqb_spec (Waiter g') t); [congruence|];
      cbn [thr_eqb] in Hp;
      destruct (Hold Hp) as (t0 & id0 & ret0 & Ht0);
      assert (mu s = Some t0) by (apply holder_is; [exact Hinv|rewrite Ht0; reflexivity]);
      assert (t0 = t) by congruence; subst; congruence.
  Qed.


  Lemma wsumf_le2 f t p g : wgc p <= wgc (f t) -> wsumf (updt f t p) g <= wsumf f g.
  Proof.
    intros H. unfold wsumf.
    assert (A : forall x, wgc (updt f t p x) <= wgc (f x)).
    { intros x. unfold updt. destruct (thr_eqb_spec x t); [subst; lia|lia]. }
    pose proof (A (Recv g)). pose proof (A (Loop g)). pose proof (A (Send g)). pose proof (A (Ping g)). lia.
  Qed.

  Ltac wgc_le E :=
    rewrite ?E; unfold fin_pc, after;
    repeat match goal with |- context [match ?x with _ => _ end] => destruct x end;
    repeat match goal with |- context [if ?x then _ else _] => destruct x end; cbn [wgc]; lia.

  Lemma step_wd s tid s' : Inv s -> step s tid = Some s' ->
    forall g, pcs s' (Waiter g) = PDone -> In g (tds (hist s')) /\ wsum s' g = 0.
  Proof.
    intros Hinv H g'. destruct tid as [t ch]. pose proof (i_wd _ Hinv g') as Hold.
    pose proof (i_wt _ Hinv g') as Hwt'. pose proof (i_wg _ Hinv) as Hwg. pose proof (i_tds _ Hinv g') as Htds.
    begin Hinv H; unfold wsum in *; psimpl; intros Hp.
    all: try (destruct (Hold Hp); split; [tauto|assumption]).
    all: try (match goal with
              | E : pcs ?s0 ?ta = _ |- _ =>
                destruct (thr_eqb_spec (Waiter g') ta) as [e|Hne];
                [try discriminate e; try (subst ta; cbn [wf_pc] in Hwf; contradiction)
                |rewrite updt_other in Hp by assumption; destruct (Hold Hp) as [Ho1 Ho2];
                 split; [tauto|apply Nat.le_0_r; rewrite <- Ho2; apply wsumf_le2; wgc_le E]]
              end; fail).
    1: { destruct (Nat.eq_dec g g') as [->|Hg].
         - destruct (Hwt' E) as (t0 & id0 & ret0 & Ht0).
           destruct (i_t _ Hinv t0) as (_ & _ & _ & Hc0 & _). rewrite Ht0 in Hc0. cbn [cinv cgen td_pc pre_disc] in Hc0.
           destruct Hc0 as (A & B & _). destruct (A g' eq_refl) as [A1 _]. destruct (B g' eq_refl) as (_ & B2 & _).
           split; [eauto with lc|]. rewrite wsumf_other by congruence. congruence.
         - rewrite updt_other in Hp by congruence. destruct (Hold Hp). split; [assumption|].
           rewrite wsumf_other by congruence. assumption. }
    1: { assert (Hnw : forall x, t <> Waiter x) by (intros x ->; cbn in Hwf; exact Hwf).
         rewrite updt_other in Hp by (intros e; apply (Hnw g'); congruence).
         destruct (Nat.eq_dec g g') as [->|Hg]; [rewrite updt_same in Hp; discriminate|].
         rewrite updt_other in Hp by congruence. destruct (Hold Hp). split; [assumption|].
         rewrite wsumf_same by (rewrite updt_other by apply Hnw; rewrite E; reflexivity).
         rewrite wsumf_other by congruence. assumption. }
    all: assert (Hnw : t <> Waiter g') by (intros ->; cbn in Hwf; exact Hwf);
      unfold updt in Hp; destruct (thr_eqb_spec (Waiter g') t); [congruence|];
      cbn [thr_eqb] in Hp; destruct (Hold Hp) as [Ho1 Ho2]; split; [tauto|];
      destruct Hk as (_ & _ & _ & _ & _ & Hnin); rewrite Hri in *;
      assert (g' <> nq s) by (intros ->; apply Hnin; apply Htds; assumption);
      apply Nat.le_0_r; rewrite <- Ho2; etransitivity; [apply wsumf_le; reflexivity|];
      rewrite !wsumf_other by congruence; reflexivity.
  Qed.


  Lemma step_tdp s tid s' : Inv s -> step s tid = Some s' ->
    forall g, In g (tds (hist s')) ->
      In g (discs (hist s')) \/ exists t c id ret, pcs s' t = PClose c id ret /\ cgen c = Some g /\ pre_disc c = true.
  Proof.
    intros Hinv H g'. destruct tid as [t ch]. pose proof (i_tdp _ Hinv g') as Hold.
    begin Hinv H; intros Hin.
    all: try (exact (Hold Hin)).
    all: try (match goal with
              | E : pcs ?s0 ?ta = _ |- _ =>
                let Hin' := fresh in
                assert (Hin' : In g' (tds (hist s0))) by tauto;
                destruct (Hold Hin') as [Hd|(t0 & c0 & id0 & ret0 & Ht0 & Hcg & Hpre)]; [left; tauto|];
                destruct (thr_eqb_spec t0 ta) as [->|Hne0];
                [rewrite E in Ht0;
                 first [discriminate Ht0
                       |injection Ht0 as ? ? ?; subst; cbn [cgen pre_disc] in *;
                        first [discriminate
                              |right; eexists ta, _, _, _; rewrite updt_same;
                               split; [reflexivity|split; [cbn [cgen]; congruence|reflexivity]]]]
                |right; exists t0, c0, id0, ret0; rewrite updt_other by assumption; repeat split; assumption]
              end; fail).
    1,2: destruct Hold as [?|?]; [tauto|left; tauto|right; assumption].
    1: { destruct Hin as [Hin|[<-|[]]].
         - destruct (Hold Hin) as [Hd|(t0 & c0 & id0 & ret0 & Ht0 & Hcg & Hpre)]; [left; tauto|].
           right. exists t0, c0, id0, ret0. rewrite updt_other; [auto|].
           intros ->. rewrite E in Ht0. injection Ht0 as <- _ _. discriminate.
         - right. exists t, (C2 (cur s)), id, ret. rewrite updt_same. auto. }
    1: { destruct (Hold Hin) as [Hd|(t0 & c0 & id0 & ret0 & Ht0 & Hcg & Hpre)]; [left; tauto|].
         right. destruct (thr_eqb_spec t0 t) as [->|Hne0].
         - rewrite E in Ht0. injection Ht0 as <- <- <-. cbn [cgen] in Hcg.
           exists t, (C3 g), id, ret. rewrite updt_same. auto.
         - exists t0, c0, id0, ret0. rewrite updt_other by assumption.
           rewrite updt_other; [auto|]. intros ->. destruct (waiter_pc s g Hinv) as [e|[e|e]]; congruence. }
    1: { destruct (Nat.eq_dec g g') as [->|Hg]; [left; tauto|].
         assert (Hin' : In g' (tds (hist s))) by tauto.
         destruct (Hold Hin') as [Hd|(t0 & c0 & id0 & ret0 & Ht0 & Hcg & Hpre)]; [left; tauto|].
         right. exists t0, c0, id0, ret0. rewrite updt_other; [auto|].
         intros ->. rewrite E in Ht0. injection Ht0 as <- _ _. cbn [cgen] in Hcg. congruence. }
    all: assert (Hin' : In g' (tds (hist s))) by tauto;
      destruct (Hold Hin') as [Hd|(t0 & c0 & id0 & ret0 & Ht0 & Hcg & Hpre)]; [left; tauto|];
      right; exists t0, c0, id0, ret0; split; [|auto];
      destruct Hk as (_ & _ & _ & _ & _ & Hnin); rewrite Hri in *;
      assert (Hidle : forall X, gthr X = Some (nq s) -> t0 <> X)
        by (intros X HX ->; rewrite (gthr_idle s X (nq s) Hinv HX Hnin) in Ht0; discriminate);
      rewrite updt_other by (intros ->; congruence);
      rewrite !updt_other by (apply Hidle; reflexivity); exact Ht0.
  Qed.
End Steps.
