(* Proofs/TrackerSpecFacts.v — facts about the plain model (Model/TrackerSpec.v):
   lookup characterisations of the membership operations, the invariant of reachable states,
   and the sentences of property C12 read back from the definitions. *)
From Verif Require Import TrackerSpec.
Open Scope Z_scope.

(* ---------- lookup characterisations ---------- *)
Lemma swap_name_invol old neu n : swap_name old neu (swap_name old neu n) = n.
Proof. unfold swap_name; repeat case_decide; congruence. Qed.

Lemma rekey_lookup old neu mem c n :
  rekey old neu mem !! (c, n) = mem !! (c, swap_name old neu n).
Proof.
  unfold rekey.
  replace (c, n) with (swap_pair old neu (c, swap_name old neu n)).
  - apply (lookup_kmap (swap_pair old neu)).
  - unfold swap_pair; simpl. by rewrite swap_name_invol.
Qed.

Lemma drop_chan_pairs_lookup c mem c' n :
  drop_chan_pairs c mem !! (c', n) = if decide (c' = c) then None else mem !! (c', n).
Proof.
  unfold drop_chan_pairs. case_decide as E.
  - apply map_filter_lookup_None. right. intros p _ H. simpl in H. congruence.
  - destruct (mem !! (c', n)) as [p|] eqn:L.
    + apply map_filter_lookup_Some. split; [done|]. simpl. congruence.
    + apply map_filter_lookup_None. by left.
Qed.

Lemma drop_nick_pairs_lookup n mem c n' :
  drop_nick_pairs n mem !! (c, n') = if decide (n' = n) then None else mem !! (c, n').
Proof.
  unfold drop_nick_pairs. case_decide as E.
  - apply map_filter_lookup_None. right. intros p _ H. simpl in H. congruence.
  - destruct (mem !! (c, n')) as [p|] eqn:L.
    + apply map_filter_lookup_Some. split; [done|]. simpl. congruence.
    + apply map_filter_lookup_None. by left.
Qed.

Lemma no_pair_spec mem n : no_pair mem n <-> forall c, mem !! (c, n) = None.
Proof.
  unfold no_pair. rewrite map_Forall_lookup. split.
  - intros H c. destruct (mem !! (c, n)) as [p|] eqn:L; [|done]. by destruct (H _ _ L).
  - intros H [c n'] p L. simpl. intros ->. by rewrite H in L.
Qed.

(* ---------- the parser only touches privileges of existing pairs of its channel ---------- *)
Lemma chan_parse_char_dom c st m k :
  is_Some (ps_mem (chan_parse_char c st m) !! k) <-> is_Some (ps_mem st !! k).
Proof.
  unfold chan_parse_char.
  repeat case_decide; try done.
  - destruct (ps_op st), (ps_args st); done.
  - destruct (ps_op st), (ps_args st); done.
  - destruct (is_list_mode_char m); [by destruct (ps_args st)|].
    destruct (is_priv_char m).
    + destruct (ps_args st) as [|a args']; [done|].
      destruct (ps_mem st !! (c, a)) as [p|] eqn:L; [|done].
      destruct (priv_char m (ps_op st) p) as [p'|]; [|done]. simpl.
      destruct (decide (k = (c, a))) as [->|N].
      * rewrite lookup_insert, L. split; eauto.
      * by rewrite lookup_insert_ne.
    + destruct (chan_flag_char m (ps_op st) (ps_cm st)); done.
Qed.

Lemma chan_parse_fold_dom c modes : forall st k,
  is_Some (ps_mem (fold_left (chan_parse_char c) modes st) !! k) <-> is_Some (ps_mem st !! k).
Proof.
  induction modes as [|m r IH]; intros st k; [done|]. simpl. rewrite IH. apply chan_parse_char_dom.
Qed.

Lemma chan_parse_modes_dom c modes op args cm mem k :
  is_Some (snd (chan_parse_modes c modes op args cm mem) !! k) <-> is_Some (mem !! k).
Proof. unfold chan_parse_modes. simpl. by rewrite chan_parse_fold_dom. Qed.

(* privileges of other channels are untouched *)
Lemma chan_parse_char_other c st m c' n : c' <> c ->
  ps_mem (chan_parse_char c st m) !! (c', n) = ps_mem st !! (c', n).
Proof.
  intros N. unfold chan_parse_char.
  repeat case_decide; try done.
  - destruct (ps_op st), (ps_args st); done.
  - destruct (ps_op st), (ps_args st); done.
  - destruct (is_list_mode_char m); [by destruct (ps_args st)|].
    destruct (is_priv_char m).
    + destruct (ps_args st) as [|a args']; [done|].
      destruct (ps_mem st !! (c, a)) as [p|] eqn:L; [|done].
      destruct (priv_char m (ps_op st) p) as [p'|]; [|done]. simpl.
      rewrite lookup_insert_ne; [done|congruence].
    + destruct (chan_flag_char m (ps_op st) (ps_cm st)); done.
Qed.

(* ---------- the invariant of reachable states ---------- *)
Definition sp_inv (s : tstate) : Prop :=
  is_Some (ts_nicks s !! ts_me s) /\
  forall c n, is_Some (ts_member s !! (c, n)) -> is_Some (ts_chans s !! c) /\ is_Some (ts_nicks s !! n).

Lemma sp_inv_new me : sp_inv (sp_new me).
Proof.
  split; simpl.
  - rewrite lookup_singleton. eauto.
  - intros c n [p H]. by rewrite lookup_empty in H.
Qed.

Lemma sp_drop_channel_nicks s c n :
  ts_nicks (sp_drop_channel s c) !! n =
  if decide (n = ts_me s \/ ts_member s !! (c, n) = None \/ ~ no_pair (drop_chan_pairs c (ts_member s)) n)
  then ts_nicks s !! n else None.
Proof.
  simpl. case_decide as E.
  - destruct (ts_nicks s !! n) as [a|] eqn:L.
    + apply map_filter_lookup_Some. split; [done|]. exact E.
    + apply map_filter_lookup_None. by left.
  - apply map_filter_lookup_None. right. intros a _ H. by apply E.
Qed.

Lemma sp_drop_channel_inv s c : sp_inv s -> sp_inv (sp_drop_channel s c).
Proof.
  intros [Hme Hm]. split.
  - rewrite sp_drop_channel_nicks. simpl. rewrite decide_True; [done|by left].
  - intros c' n. simpl. rewrite drop_chan_pairs_lookup. case_decide as E; [by intros [? ?]|].
    intros HS. destruct (Hm _ _ HS) as [Hc Hn]. split.
    + by rewrite lookup_delete_ne.
    + change (is_Some (ts_nicks (sp_drop_channel s c) !! n)). rewrite sp_drop_channel_nicks.
      rewrite decide_True; [done|]. right; right. rewrite no_pair_spec. intros H.
      specialize (H c'). rewrite drop_chan_pairs_lookup, decide_False in H by done.
      rewrite H in HS. by destruct HS.
Qed.

Lemma sp_step_inv s o : sp_inv s -> sp_inv (fst (sp_step s o)).
Proof.
  intros I. pose proof I as [Hme Hm].
  destruct o; simpl.
  - (* NewNick *) unfold sp_NewNick. destruct n as [|x n]; [simpl; exact I|].
    destruct (ts_nicks s !! (x :: n)) eqn:L; [simpl; exact I|]. split; simpl.
    + destruct (decide (ts_me s = x :: n)) as [->|N]; [rewrite lookup_insert; eauto|by rewrite lookup_insert_ne].
    + intros c n' HS. destruct (Hm _ _ HS) as [? ?]. split; [done|].
      destruct (decide (x :: n = n')) as [->|N]; [rewrite lookup_insert; eauto|by rewrite lookup_insert_ne].
  - (* GetNick *) exact I.
  - (* ReNick *) unfold sp_ReNick. destruct (ts_nicks s !! old) as [a|] eqn:Lo; [|simpl; exact I].
    destruct (ts_nicks s !! neu) eqn:Ln; [simpl; exact I|]. split; simpl.
    + case_decide as E.
      * rewrite lookup_insert; eauto.
      * assert (neu <> ts_me s) by (intros ->; rewrite Ln in Hme; by destruct Hme).
        rewrite lookup_insert_ne by done. by rewrite lookup_delete_ne.
    + intros c n. rewrite rekey_lookup. intros HS. destruct (Hm _ _ HS) as [Hc Hn]. split; [done|].
      unfold swap_name in *. destruct (decide (n = old)) as [->|N1].
      * rewrite Ln in Hn. by destruct Hn.
      * destruct (decide (n = neu)) as [->|N2]; [rewrite lookup_insert; eauto|].
        rewrite lookup_insert_ne by done. by rewrite lookup_delete_ne.
  - (* DelNick *) unfold sp_DelNick. destruct (ts_nicks s !! n) as [a|] eqn:L; [|simpl; exact I].
    case_decide as E; [simpl; exact I|]. split; simpl.
    + by rewrite lookup_delete_ne.
    + intros c n'. rewrite drop_nick_pairs_lookup. case_decide as E'; [by intros [? ?]|].
      intros HS. destruct (Hm _ _ HS). split; [done|]. by rewrite lookup_delete_ne.
  - (* NickInfo *) unfold sp_NickInfo. destruct (ts_nicks s !! n) as [a|] eqn:L; [|simpl; exact I]. split; simpl.
    + destruct (decide (ts_me s = n)) as [->|N]; [rewrite lookup_insert; eauto|by rewrite lookup_insert_ne].
    + intros c n' HS. destruct (Hm _ _ HS) as [? ?]. split; [done|].
      destruct (decide (n = n')) as [->|N]; [rewrite lookup_insert; eauto|by rewrite lookup_insert_ne].
  - (* NickModes *) unfold sp_NickModes. destruct (ts_nicks s !! n) as [a|] eqn:L; [|simpl; exact I]. split; simpl.
    + destruct (decide (ts_me s = n)) as [->|N]; [rewrite lookup_insert; eauto|by rewrite lookup_insert_ne].
    + intros c n' HS. destruct (Hm _ _ HS) as [? ?]. split; [done|].
      destruct (decide (n = n')) as [->|N]; [rewrite lookup_insert; eauto|by rewrite lookup_insert_ne].
  - (* NewChannel *) unfold sp_NewChannel. destruct c as [|x c]; [simpl; exact I|].
    destruct (ts_chans s !! (x :: c)) eqn:L; [simpl; exact I|]. split; simpl; [done|].
    intros c' n' HS. destruct (Hm _ _ HS) as [? ?]. split; [|done].
    destruct (decide (x :: c = c')) as [->|N]; [rewrite lookup_insert; eauto|by rewrite lookup_insert_ne].
  - (* GetChannel *) exact I.
  - (* DelChannel *) unfold sp_DelChannel. destruct (ts_chans s !! c); [|simpl; exact I]. simpl.
    by apply sp_drop_channel_inv.
  - (* Topic *) unfold sp_Topic. destruct (ts_chans s !! c) as [a|] eqn:L; [|simpl; exact I]. split; simpl; [done|].
    intros c' n' HS. destruct (Hm _ _ HS) as [? ?]. split; [|done].
    destruct (decide (c = c')) as [->|N]; [rewrite lookup_insert; eauto|by rewrite lookup_insert_ne].
  - (* ChannelModes *) unfold sp_ChannelModes. destruct (ts_chans s !! c) as [a|] eqn:L; [|simpl; exact I].
    destruct (chan_parse_modes c modes false args (ca_modes a) (ts_member s)) as [cm' mem'] eqn:P.
    split; simpl; [done|].
    intros c' n' HS.
    pose proof (chan_parse_modes_dom c modes false args (ca_modes a) (ts_member s) (c', n')) as D.
    rewrite P in D. simpl in D. apply D in HS. destruct (Hm _ _ HS) as [? ?]. split; [|done].
    destruct (decide (c = c')) as [->|N]; [rewrite lookup_insert; eauto|by rewrite lookup_insert_ne].
  - (* Me *) exact I.
  - (* IsOn *) unfold sp_IsOn. destruct (ts_nicks s !! n), (ts_chans s !! c); try (simpl; exact I).
    destruct (ts_member s !! (c, n)); exact I.
  - (* Associate *) unfold sp_Associate.
    destruct (ts_chans s !! c) eqn:Lc; [|simpl; exact I]. destruct (ts_nicks s !! n) eqn:Ln; [|simpl; exact I].
    destruct (ts_member s !! (c, n)) eqn:Lm; [simpl; exact I|]. split; simpl; [done|].
    intros c' n'. destruct (decide ((c, n) = (c', n'))) as [E|N].
    + inversion E; subst. rewrite Lc, Ln. eauto.
    + rewrite lookup_insert_ne by done. apply Hm.
  - (* Dissociate *) unfold sp_Dissociate.
    destruct (ts_chans s !! c) eqn:Lc; [|simpl; exact I]. destruct (ts_nicks s !! n) eqn:Ln; [|simpl; exact I].
    destruct (ts_member s !! (c, n)) eqn:Lm; [|simpl; exact I].
    case_decide as E; [by apply sp_drop_channel_inv|].
    split; simpl.
    + case_decide; [by rewrite lookup_delete_ne|done].
    + intros c' n'. destruct (decide ((c, n) = (c', n'))) as [E'|N].
      * inversion E'; subst. rewrite lookup_delete. by intros [? ?].
      * rewrite lookup_delete_ne by done. intros HS. destruct (Hm _ _ HS) as [? ?]. split; [done|].
        case_decide as NP; [|done]. destruct (decide (n' = n)) as [->|N'].
        -- rewrite no_pair_spec in NP. specialize (NP c'). rewrite lookup_delete_ne in NP by done.
           rewrite NP in HS. by destruct HS.
        -- by rewrite lookup_delete_ne.
  - (* Wipe *) split; simpl.
    + destruct Hme as [a Ha]. exists a. apply map_filter_lookup_Some. split; [done|]. by left.
    + intros c n [p H]. by rewrite lookup_empty in H.
Qed.

Lemma sp_run_inv ops : forall s, sp_inv s -> sp_inv (fst (sp_run s ops)).
Proof.
  induction ops as [|o ops IH]; intros s I; [done|]. simpl.
  pose proof (sp_step_inv s o I) as I1. destruct (sp_step s o) as [s1 r]. simpl in I1.
  specialize (IH s1 I1). destruct (sp_run s1 ops) as [s2 rs]. exact IH.
Qed.

(* ---------- the sentences of the property, read back from the definitions ---------- *)
(* (1) a rename carries the nick's attributes, memberships and privileges along *)
Lemma rename_carries s old neu a :
  ts_nicks s !! old = Some a -> ts_nicks s !! neu = None ->
  let s' := fst (sp_ReNick s old neu) in
  ts_nicks s' !! neu = Some a /\ ts_nicks s' !! old = None
  /\ (forall c, ts_member s' !! (c, neu) = ts_member s !! (c, old))
  /\ (forall c n, n <> old -> n <> neu ->
        ts_member s' !! (c, n) = ts_member s !! (c, n) /\ ts_nicks s' !! n = ts_nicks s !! n)
  /\ (sp_inv s -> forall c, ts_member s' !! (c, old) = None)
  /\ ts_chans s' = ts_chans s
  /\ ts_me s' = (if decide (old = ts_me s) then neu else ts_me s)
  /\ snd (sp_ReNick s old neu) = nick_snapshot s' neu.
Proof.
  intros Lo Ln. assert (old <> neu) as NE by congruence.
  unfold sp_ReNick. rewrite Lo, Ln. simpl. repeat split.
  - by rewrite lookup_insert.
  - rewrite lookup_insert_ne by done. by rewrite lookup_delete.
  - intros c. rewrite rekey_lookup. unfold swap_name. rewrite decide_False by done. by rewrite decide_True.
  - rewrite rekey_lookup. unfold swap_name. by rewrite !decide_False.
  - rewrite lookup_insert_ne by done. by rewrite lookup_delete_ne.
  - intros [_ Hm] c. rewrite rekey_lookup. unfold swap_name. rewrite decide_True by done.
    destruct (ts_member s !! (c, neu)) eqn:L; [|done].
    destruct (Hm c neu) as [_ [x Hx]]; [eauto|congruence].
Qed.

(* (2) forgetting a channel: the channel, its pairs, and every other nick that was on it and
   shares no other channel; nothing else changes *)
Definition only_on (s : tstate) (c n : name) : Prop :=
  is_Some (ts_member s !! (c, n)) /\ forall c', c' <> c -> ts_member s !! (c', n) = None.

Lemma drop_channel_forgets s c :
  let s' := sp_drop_channel s c in
  ts_chans s' !! c = None
  /\ (forall n, ts_member s' !! (c, n) = None)
  /\ (forall c' n, c' <> c -> ts_member s' !! (c', n) = ts_member s !! (c', n)
                              /\ ts_chans s' !! c' = ts_chans s !! c')
  /\ (forall n, n <> ts_me s -> only_on s c n -> ts_nicks s' !! n = None)
  /\ (forall n, n = ts_me s \/ ~ only_on s c n -> ts_nicks s' !! n = ts_nicks s !! n)
  /\ ts_me s' = ts_me s.
Proof.
  assert (NPS : forall n, no_pair (drop_chan_pairs c (ts_member s)) n <-> forall c', c' <> c -> ts_member s !! (c', n) = None).
  { intros n. rewrite no_pair_spec. split.
    - intros H c' N. specialize (H c'). by rewrite drop_chan_pairs_lookup, decide_False in H.
    - intros H c'. rewrite drop_chan_pairs_lookup. case_decide; [done|]. by apply H. }
  simpl. repeat split.
  - by rewrite lookup_delete.
  - intros n. rewrite drop_chan_pairs_lookup. by rewrite decide_True.
  - rewrite drop_chan_pairs_lookup. by rewrite decide_False.
  - by rewrite lookup_delete_ne.
  - intros n N [[p Hp] H]. change (ts_nicks (sp_drop_channel s c) !! n = None).
    rewrite sp_drop_channel_nicks. rewrite decide_False; [done|].
    intros [?|[?|E1]]; [done|congruence|]. by apply NPS in H.
  - intros n H. change (ts_nicks (sp_drop_channel s c) !! n = ts_nicks s !! n).
    rewrite sp_drop_channel_nicks. rewrite decide_True; [done|].
    destruct H as [?|H]; [by left|]. right.
    destruct (ts_member s !! (c, n)) eqn:L; [|by left]. right. intros NP. apply H.
    split; [eauto|]. by apply NPS.
Qed.

Lemma delchannel_is_drop s c a : ts_chans s !! c = Some a ->
  sp_DelChannel s c = (sp_drop_channel s c, Some (bare_chan_snap c a)).
Proof. intros L. unfold sp_DelChannel. by rewrite L. Qed.

Lemma part_me_is_drop s c : sp_inv s -> is_Some (ts_member s !! (c, ts_me s)) ->
  sp_Dissociate s c (ts_me s) = sp_drop_channel s c.
Proof.
  intros [_ Hm] HS. destruct (Hm _ _ HS) as [[x Hc] [y Hn]]. destruct HS as [p Hp].
  unfold sp_Dissociate. rewrite Hc, Hn, Hp. by rewrite decide_True.
Qed.

(* dissociating another nick removes the pair, and the nick with its last pair *)
Lemma part_other s c n p : sp_inv s -> ts_member s !! (c, n) = Some p -> n <> ts_me s ->
  let s' := sp_Dissociate s c n in
  ts_member s' = delete (c, n) (ts_member s) /\ ts_chans s' = ts_chans s /\ ts_me s' = ts_me s
  /\ (only_on s c n -> ts_nicks s' = delete n (ts_nicks s))
  /\ (~ only_on s c n -> ts_nicks s' = ts_nicks s).
Proof.
  intros [_ Hm] Hp N. destruct (Hm c n) as [[x Hc] [y Hn]]; [eauto|].
  unfold sp_Dissociate. rewrite Hc, Hn, Hp. rewrite decide_False by done. simpl.
  assert (NPS : no_pair (delete (c, n) (ts_member s)) n <-> forall c', c' <> c -> ts_member s !! (c', n) = None).
  { rewrite no_pair_spec. split.
    - intros H c' N'. specialize (H c'). rewrite lookup_delete_ne in H by congruence. done.
    - intros H c'. destruct (decide (c' = c)) as [->|N']; [by rewrite lookup_delete|].
      rewrite lookup_delete_ne by congruence. by apply H. }
  repeat split.
  - intros [_ H]. rewrite decide_True; [done|]. by apply NPS.
  - intros H. rewrite decide_False; [done|]. intros NP. apply H. split; [eauto|]. by apply NPS.
Qed.

(* (3) deleting a nick removes it and all its memberships; (4) never the client's own *)
Lemma delnick_clears s n a : ts_nicks s !! n = Some a -> n <> ts_me s ->
  let s' := fst (sp_DelNick s n) in
  ts_nicks s' !! n = None /\ (forall c, ts_member s' !! (c, n) = None)
  /\ (forall c n', n' <> n -> ts_member s' !! (c, n') = ts_member s !! (c, n')
                              /\ ts_nicks s' !! n' = ts_nicks s !! n')
  /\ ts_chans s' = ts_chans s /\ ts_me s' = ts_me s.
Proof.
  intros L N. unfold sp_DelNick. rewrite L. rewrite decide_False by done. simpl. repeat split.
  - by rewrite lookup_delete.
  - intros c. rewrite drop_nick_pairs_lookup. by rewrite decide_True.
  - rewrite drop_nick_pairs_lookup. by rewrite decide_False.
  - by rewrite lookup_delete_ne.
Qed.

Lemma delnick_me_refused s : sp_inv s -> sp_DelNick s (ts_me s) = (s, None).
Proof. intros [[a Ha] _]. unfold sp_DelNick. rewrite Ha. by rewrite decide_True. Qed.

Lemma me_immortal me ops :
  let s := fst (sp_run (sp_new me) ops) in is_Some (ts_nicks s !! ts_me s).
Proof. simpl. apply (sp_run_inv ops (sp_new me) (sp_inv_new me)). Qed.

(* (5) Wipe forgets every channel and every pair; of the nicks, the client and those that were
   on no channel remain *)
Lemma wipe_forgets s :
  let s' := sp_Wipe s in
  ts_chans s' = ∅ /\ ts_member s' = ∅ /\ ts_me s' = ts_me s
  /\ (forall n, n = ts_me s \/ (forall c, ts_member s !! (c, n) = None) -> ts_nicks s' !! n = ts_nicks s !! n)
  /\ (forall n c, n <> ts_me s -> is_Some (ts_member s !! (c, n)) -> ts_nicks s' !! n = None).
Proof.
  simpl. repeat split.
  - intros n E. destruct (ts_nicks s !! n) as [a|] eqn:L.
    + apply map_filter_lookup_Some. split; [done|]. simpl. rewrite no_pair_spec. exact E.
    + apply map_filter_lookup_None. by left.
  - intros n c N [p Hp]. apply map_filter_lookup_None. right. intros a _ H. simpl in H.
    rewrite no_pair_spec in H. destruct H as [?|H]; [done|]. by rewrite H in Hp.
Qed.
