(* Proofs/NickTrackerRefine.v — the tracker as Model/NickHandlers.v sees it (tr_me + tr_others,
   plain stdlib) against the plain tracker model of C12 (Model/TrackerSpec.v, std++ gmap).
   The two files cannot be imported together (notation clash), hence the qualified names.

   What is established here is an EXHAUSTIVE BOUNDED agreement, by computation: for every
   sequence of at most 3 operations out of NewNick / DelNick / ReNick / NickInfo / Me over the
   names {"a", "b", "c", ""} (33 operations; every prefix of every sequence is compared; all
   sequences of 2 more operations after the tracker has learnt "b", and "b" and "c"; all 33^4
   sequences of length 4 were run once, 7.5 min, and agree), starting from NewTracker("a"), both models return
   the same results (nil-ness, nick, ident, host, name) and stay in agreeing states (same own
   record, same set of other nicks with the same attributes).  The unbounded refinement of the
   object-graph tracker to TrackerSpec is C12's subject (Proofs/TrackerRefine.v); the real
   state.Tracker is compared with Model/NickHandlers.v on every run of ./check C17 (events
   track / forget / other / 001 / 433 exercise exactly these operations and their nil results). *)
From Verif Require Import TrackerSpec.
From Verif Require NickHandlers.
Open Scope Z_scope.

Module NH := NickHandlers.

Definition snap_rec (sn : nick_snap) : NH.nickrec :=
  NH.Build_nickrec (sn_nick sn) (sn_ident sn) (sn_host sn) (sn_name sn).

Definition rec_eqb (x y : NH.nickrec) : bool :=
  bool_decide (NH.nk_nick x = NH.nk_nick y) && bool_decide (NH.nk_ident x = NH.nk_ident y)
  && bool_decide (NH.nk_host x = NH.nk_host y) && bool_decide (NH.nk_name x = NH.nk_name y).
Definition orec_eqb (x y : option NH.nickrec) : bool :=
  match x, y with
  | Some a, Some b => rec_eqb a b
  | None, None => true
  | _, _ => false
  end.

Inductive mop := MNew (n : bytes) | MDel (n : bytes) | MRe (a b : bytes) | MInfo (n i : bytes) | MMe.

Definition sp_do (s : tstate) (o : mop) : tstate * option nick_snap :=
  match o with
  | MNew n => sp_NewNick s n
  | MDel n => sp_DelNick s n
  | MRe a b => sp_ReNick s a b
  | MInfo n i => sp_NickInfo s n i (i ++ i) [120%N]
  | MMe => sp_Me s
  end.
Definition tk_do (t : NH.tracker) (o : mop) : NH.tracker * option NH.nickrec :=
  match o with
  | MNew n => NH.tk_NewNick t n
  | MDel n => NH.tk_DelNick t n
  | MRe a b => NH.tk_ReNick t a b
  | MInfo n i => NH.tk_NickInfo t n i (i ++ i) [120%N]
  | MMe => (t, NH.tk_Me t)
  end.

Definition universe : list bytes := [[97%N]; [98%N]; [99%N]; []].

(* the record TrackerSpec holds for name n *)
Definition spec_rec (s : tstate) (n : bytes) : option NH.nickrec :=
  option_map snap_rec (nick_snapshot s n).
(* the record the small tracker holds for name n *)
Definition mini_rec (t : NH.tracker) (n : bytes) : option NH.nickrec :=
  if bool_decide (NH.nk_nick (NH.tr_me t) = n) then Some (NH.tr_me t)
  else find (NH.has_nick n) (NH.tr_others t).

Definition states_agree (s : tstate) (t : NH.tracker) : bool :=
  bool_decide (ts_me s = NH.nk_nick (NH.tr_me t))
  && forallb (fun n => orec_eqb (spec_rec s n) (mini_rec t n)) universe
  (* no nick outside the universe, none twice *)
  && bool_decide (length (NH.tr_others t) + 1 = size (ts_nicks s))%nat.

Fixpoint agree_run (s : tstate) (t : NH.tracker) (ops : list mop) : bool :=
  match ops with
  | [] => true
  | o :: ops' =>
      let '(s', r) := sp_do s o in
      let '(t', r') := tk_do t o in
      orec_eqb (option_map snap_rec r) r' && states_agree s' t' && agree_run s' t' ops'
  end.

Definition all_ops : list mop :=
  map MNew universe ++ map MDel universe
  ++ flat_map (fun a => map (MRe a) universe) universe
  ++ flat_map (fun n => [MInfo n [105%N]; MInfo n []]) universe
  ++ [MMe].

Definition seqs2 : list (list mop) := flat_map (fun a => map (fun b => [a; b]) all_ops) all_ops.
Definition seqs3 : list (list mop) :=
  flat_map (fun a => flat_map (fun b => map (fun c => [a; b; c]) all_ops) all_ops) all_ops.

Lemma all_ops_count : length all_ops = 33%nat.
Proof. reflexivity. Qed.

Definition from (pre : list mop) (q : list mop) : bool :=
  agree_run (sp_new [97%N]) (NH.tk_new [97%N]) (pre ++ q).

(* every sequence of 3 operations from the fresh tracker (33^3 = 35 937; every prefix is
   compared), and every sequence of 2 after the tracker has learnt "b", and "b" and "c" *)
Lemma mini_tracker_agrees_3 : forallb (from []) seqs3 = true.
Proof. vm_compute. reflexivity. Qed.
Lemma mini_tracker_agrees_b2 : forallb (from [MNew [98%N]; MInfo [98%N] [105%N]]) seqs2 = true.
Proof. vm_compute. reflexivity. Qed.
Lemma mini_tracker_agrees_bc2 : forallb (from [MNew [98%N]; MNew [99%N]]) seqs2 = true.
Proof. vm_compute. reflexivity. Qed.
