(* Proofs/LifecycleInvB.v — preservation of the wait-group and thread-local parts of the
   lifecycle invariant (continuation of LifecycleInv.v). *)
From Coq Require Import List Arith Bool Lia.
From Verif Require Import Lts LifecycleLts LifecycleBase LifecycleInv.
Import ListNotations.

Section Steps.
  Variables (hm : nat) (hl : bool).
  Notation step := (fstep hm hl).

  Ltac begin Hinv H :=
    match type of H with step _ (?t, _) = _ => facts Hinv t end;
    step_inv H; try use_Ht; hsimpl.

  Ltac upd_cases :=
    unfold updt in *;
    repeat match goal with
           | |- context [thr_eqb ?a ?b] => destruct (thr_eqb_spec a b); [subst|]
           | H : context [thr_eqb ?a ?b] |- _ => destruct (thr_eqb_spec a b); [subst|]
           end.

  Ltac wgc_side E :=
    rewrite ?E; unfold fin_pc, after;
    repeat match goal with |- context [match ?x with _ => _ end] => destruct x end;
    repeat match goal with |- context [if ?x then _ else _] => destruct x end; reflexivity.

  (* a counted goroutine belongs to the current generation *)
  Lemma counted_cur s t g : Inv s -> in4 t g -> wgc (pcs s t) = 1 -> g = cur s.
  Proof.
    intros Hinv Hin H. destruct (Nat.eq_dec g (cur s)) as [|Hne]; [assumption|exfalso].
    pose proof (i_wg0 _ Hinv g Hne) as H0. pose proof (wsumf_pos (pcs s) t g Hin H). unfold wsum in H0. lia.
  Qed.

  Lemma step_wg s tid s' : Inv s -> step s tid = Some s' -> wg s' = wsum s' (cur s').
  Proof.
    intros Hinv H. destruct tid as [t ch]. pose proof (i_wg _ Hinv) as Hwg.
    pose proof (i_wg0 _ Hinv) as Hwg0.
    begin Hinv H; unfold wsum in *; psimpl.
    all: try (rewrite ?wsumf_same by wgc_side E; assumption).
    all: try (rewrite ?wsumf_same by wgc_side E; rewrite ?wsumf_other by congruence; congruence).
    (* wg.Done by a counted goroutine *)
    all: try match goal with
         | E : pcs ?s0 ?t = _ |- Init.Nat.pred (wg ?s0) = wsumf (updt (pcs ?s0) ?t _) (cur ?s0) =>
             let Hin := fresh in
             let go g0 :=
               assert (Hin : in4 t g0) by (unfold in4; auto);
               let Hg := fresh in
               assert (Hg : g0 = cur s0) by (apply (counted_cur s0 t g0 Hinv Hin); rewrite E; reflexivity);
               rewrite <- Hg in Hwg |- *;
               rewrite (wsumf_done (pcs s0) t _ g0 Hin) by (rewrite ?E; reflexivity);
               congruence in
             match t with Recv ?g0 => go g0 | Loop ?g0 => go g0 | Send ?g0 => go g0 | Ping ?g0 => go g0 end
         end.
    - (* C2: spawn the waiter *)
      assert (t <> Waiter g) by (intros ->; cbn in Hwf; exact Hwf).
      rewrite wsumf_same by (rewrite updt_other by assumption; rewrite E; reflexivity).
      rewrite wsumf_other by congruence. exact Hwg.
    - (* K2: initialise, conn.io = nil *)
      rewrite wsumf_same by (rewrite E; reflexivity). destruct Hk as (_ & _ & Hz). rewrite Hz.
      destruct (Nat.eq_dec 0 (cur s)) as [e|n]; [rewrite e; congruence|symmetry; apply (Hwg0 0 n)].
    - (* K3: postConnect with ping *)
      destruct Hk as (_ & _ & Hz & Hcur & Hnq & Hne). rewrite Hri in *.
      assert (Hz0 : wsumf (pcs s) (nq s) = 0) by (apply Hwg0; lia).
      assert (Hneq : forall X, gthr X = Some (nq s) -> thr_eqb X t = false).
      { intros X HX. destruct (thr_eqb_spec X t) as [<-|]; [|reflexivity].
        exfalso. apply Hne. apply Hgt; [exact HX|discriminate]. }
      unfold wsumf, updt in *. rewrite !Hneq by reflexivity. cbn [thr_eqb]. rewrite ?Nat.eqb_refl.
      cbn [wgc]. lia.
    - (* K3: postConnect without ping *)
      destruct Hk as (_ & _ & Hz & Hcur & Hnq & Hne). rewrite Hri in *.
      assert (Hz0 : wsumf (pcs s) (nq s) = 0) by (apply Hwg0; lia).
      assert (Hneq : forall X, gthr X = Some (nq s) -> thr_eqb X t = false).
      { intros X HX. destruct (thr_eqb_spec X t) as [<-|]; [|reflexivity].
        exfalso. apply Hne. apply Hgt; [exact HX|discriminate]. }
      unfold wsumf, updt in *. rewrite !Hneq by reflexivity. cbn [thr_eqb]. rewrite ?Nat.eqb_refl.
      cbn [wgc]. lia.
  Qed.


  Lemma wsumf_le f t p g : wgc p = 0 -> wsumf (updt f t p) g <= wsumf f g.
  Proof.
    intros H. unfold wsumf.
    assert (A : forall x, wgc (updt f t p x) <= wgc (f x)).
    { intros x. unfold updt. destruct (thr_eqb_spec x t); [subst; lia|lia]. }
    pose proof (A (Recv g)). pose proof (A (Loop g)). pose proof (A (Send g)). pose proof (A (Ping g)). lia.
  Qed.

  Lemma step_wg0 s tid s' : Inv s -> step s tid = Some s' ->
    forall g, g <> cur s' -> wsum s' g = 0.
  Proof.
    intros Hinv H g0. destruct tid as [t ch]. pose proof (i_wg _ Hinv) as Hwg.
    pose proof (i_wg0 _ Hinv g0) as Hwg0.
    begin Hinv H; unfold wsum in *; psimpl; intros Hne.
    all: try (rewrite ?wsumf_same by wgc_side E; auto; fail).
    all: try (rewrite ?wsumf_same by wgc_side E; rewrite ?wsumf_other by congruence; auto; fail).
    all: try (apply Nat.le_0_r; rewrite <- (Hwg0 Hne); apply wsumf_le; reflexivity).
    - assert (t <> Waiter g) by (intros ->; cbn in Hwf; exact Hwf).
      rewrite wsumf_same by (rewrite updt_other by assumption; rewrite E; reflexivity).
      rewrite wsumf_other by congruence. auto.
    - rewrite wsumf_same by (rewrite E; reflexivity). destruct Hk as (_ & _ & Hz).
      destruct (Nat.eq_dec g0 (cur s)) as [e|n]; [rewrite e; congruence|auto].
    - destruct Hk as (_ & _ & Hz & Hcur & Hnq & Hnin). rewrite Hri in *.
      assert (Hold : wsumf (pcs s) g0 = 0).
      { destruct (Nat.eq_dec g0 (cur s)) as [e|n]; [rewrite e; congruence|auto]. }
      apply Nat.le_0_r. rewrite <- Hold. etransitivity; [apply wsumf_le; reflexivity|].
      rewrite !wsumf_other by congruence. reflexivity.
    - destruct Hk as (_ & _ & Hz & Hcur & Hnq & Hnin). rewrite Hri in *.
      assert (Hold : wsumf (pcs s) g0 = 0).
      { destruct (Nat.eq_dec g0 (cur s)) as [e|n]; [rewrite e; congruence|auto]. }
      apply Nat.le_0_r. rewrite <- Hold. etransitivity; [apply wsumf_le; reflexivity|].
      rewrite !wsumf_other by congruence. reflexivity.
  Qed.


  Lemma step_wgl s tid s' : Inv s -> step s tid = Some s' ->
    wg s' > 0 -> connected s' = true \/ exists t, mu s' = Some t /\ td_pc (pcs s' t) = Some (cur s').
  Proof.
    intros Hinv H. destruct tid as [t ch]. pose proof (i_wgl _ Hinv) as Hwgl.
    pose proof (i_t _ Hinv) as Hall.
    begin Hinv H; intros Hpos.
    all: try (match goal with
              | E : pcs ?s0 ?ta = _ |- _ =>
                destruct Hwgl as [Hcn|(t0 & Hm & Htd0)]; [lia|left; exact Hcn|right; exists t0; split; [exact Hm|];
                destruct (thr_eqb_spec t0 ta) as [->|Hneq];
                [rewrite updt_same; rewrite E in Htd0; cbn [td_pc] in *; congruence
                |rewrite updt_other by assumption; exact Htd0]]
              end; fail).
    all: try (exact (Hwgl Hpos)).
    all: try (left; reflexivity).
    all: try (exfalso; destruct Hk as (_ & _ & Hz & _); lia).
    all: try (exfalso; destruct Hk as (_ & _ & Hz); lia).
    all: try (exfalso; lia).
    all: try (destruct (Hwgl Hpos) as [?|(t0 & Hm & Htd0)]; [left; assumption|congruence]).
    all: try (destruct (Hwgl Hpos) as [?|(t0 & Hm & Htd0)]; [left; assumption|];
              assert (t0 = t) by congruence; subst; rewrite E in Htd0; discriminate).
    - right. exists t. rewrite updt_same. split; [exact Hhold|reflexivity].
    - right. exists t. rewrite updt_same. split; [exact Hhold|]. cbn [td_pc]. destruct Hc2 as (_ & -> & _). reflexivity.
  Qed.
End Steps.
