(* Proofs/TrackerRefine.v — C12: the object graph (Model/TrackerImpl.v) refines the plain model
   (Model/TrackerSpec.v).  Representation invariant [rep_inv], abstraction [abs], and per
   method: no panic, [rep_inv] preserved, [abs] commutes, equal results — for EVERY map
   enumeration order (Section variables [enumA]/[enumN] with a Permutation hypothesis). *)
From Verif Require Import TrackerSpec TrackerImpl TrackerSpecFacts.
Open Scope Z_scope.

(* ---------- abstraction ---------- *)
Definition nick_attr (o : nickobj) : nickattr := Build_nickattr (no_ident o) (no_host o) (no_name o) (no_modes o).
Definition chan_attr (o : chanobj) : chanattr := Build_chanattr (co_topic o) (co_modes o).
(* the members of a channel object, by name: through lookup, nicks and the shared privilege object *)
Definition chan_members (s : istate) (co : chanobj) : gmap name privs :=
  omap (fun nk => co_nicks co !! nk ≫= fun cp => h_priv s !! cp) (co_lookup co).
Definition abs (s : istate) : tstate :=
  {| ts_me := from_option no_nick [] (h_nick s !! st_me s);
     ts_nicks := omap (fun a => nick_attr <$> h_nick s !! a) (st_nicks s);
     ts_chans := omap (fun a => chan_attr <$> h_chan s !! a) (st_chans s);
     ts_member := gmap_uncurry (omap (fun a => chan_members s <$> h_chan s !! a) (st_chans s)) |}.

(* ---------- representation invariant ---------- *)
Record rep_inv (s : istate) : Prop := {
  (* st.nicks / st.chans keys are the objects' current names *)
  ri_nicks : forall n nk, st_nicks s !! n = Some nk -> exists o, h_nick s !! nk = Some o /\ no_nick o = n;
  ri_chans : forall c ch, st_chans s !! c = Some ch -> exists co, h_chan s !! ch = Some co /\ co_name co = c;
  ri_me : exists n, st_nicks s !! n = Some (st_me s);
  (* nick side: every membership points to a tracked channel that points back with the SAME
     privilege object; lookup is chans keyed by the channel's name *)
  ri_nk_chans : forall n nk o ch cp, st_nicks s !! n = Some nk -> h_nick s !! nk = Some o ->
      no_chans o !! ch = Some cp ->
      exists co, h_chan s !! ch = Some co /\ st_chans s !! co_name co = Some ch /\ co_nicks co !! nk = Some cp;
  ri_nk_lookup : forall n nk o c ch, st_nicks s !! n = Some nk -> h_nick s !! nk = Some o ->
      (no_lookup o !! c = Some ch <-> st_chans s !! c = Some ch /\ is_Some (no_chans o !! ch));
  (* channel side, symmetrically *)
  ri_ch_nicks : forall c ch co nk cp, st_chans s !! c = Some ch -> h_chan s !! ch = Some co ->
      co_nicks co !! nk = Some cp ->
      exists o, h_nick s !! nk = Some o /\ st_nicks s !! no_nick o = Some nk /\ no_chans o !! ch = Some cp
                /\ is_Some (h_priv s !! cp);
  ri_ch_lookup : forall c ch co n nk, st_chans s !! c = Some ch -> h_chan s !! ch = Some co ->
      (co_lookup co !! n = Some nk <-> st_nicks s !! n = Some nk /\ is_Some (co_nicks co !! nk));
  (* a privilege object belongs to one membership *)
  ri_unshared : forall c1 ch1 co1 nk1 c2 ch2 co2 nk2 cp,
      st_chans s !! c1 = Some ch1 -> h_chan s !! ch1 = Some co1 -> co_nicks co1 !! nk1 = Some cp ->
      st_chans s !! c2 = Some ch2 -> h_chan s !! ch2 = Some co2 -> co_nicks co2 !! nk2 = Some cp ->
      ch1 = ch2 /\ nk1 = nk2;
  (* allocation: every address in use is below the counter *)
  ri_fresh : forall a, is_Some (h_nick s !! a) \/ is_Some (h_chan s !! a) \/ is_Some (h_priv s !! a) ->
      (a < h_next s)%positive
}.

(* ---------- lookups of the abstraction ---------- *)
Lemma abs_nicks s n : ts_nicks (abs s) !! n = st_nicks s !! n ≫= fun a => nick_attr <$> h_nick s !! a.
Proof. simpl. by rewrite lookup_omap. Qed.
Lemma abs_chans s c : ts_chans (abs s) !! c = st_chans s !! c ≫= fun a => chan_attr <$> h_chan s !! a.
Proof. simpl. by rewrite lookup_omap. Qed.
Lemma abs_member s c n :
  ts_member (abs s) !! (c, n) =
  st_chans s !! c ≫= fun ch => h_chan s !! ch ≫= fun co =>
  co_lookup co !! n ≫= fun nk => co_nicks co !! nk ≫= fun cp => h_priv s !! cp.
Proof.
  simpl. rewrite lookup_gmap_uncurry, lookup_omap.
  destruct (st_chans s !! c) as [ch|]; [|done]. simpl.
  destruct (h_chan s !! ch) as [co|]; [|done]. simpl.
  unfold chan_members. by rewrite lookup_omap.
Qed.

Lemma abs_me_eq s : ts_me (abs s) = from_option no_nick [] (h_nick s !! st_me s).
Proof. done. Qed.

Lemma abs_nicks_Some s n nk o : rep_inv s -> st_nicks s !! n = Some nk -> h_nick s !! nk = Some o ->
  ts_nicks (abs s) !! n = Some (nick_attr o).
Proof. intros _ H1 H2. by rewrite abs_nicks, H1; simpl; rewrite H2. Qed.
Lemma abs_nicks_None s n : st_nicks s !! n = None -> ts_nicks (abs s) !! n = None.
Proof. intros H. by rewrite abs_nicks, H. Qed.
Lemma abs_chans_Some s c ch co : st_chans s !! c = Some ch -> h_chan s !! ch = Some co ->
  ts_chans (abs s) !! c = Some (chan_attr co).
Proof. intros H1 H2. by rewrite abs_chans, H1; simpl; rewrite H2. Qed.
Lemma abs_chans_None s c : st_chans s !! c = None -> ts_chans (abs s) !! c = None.
Proof. intros H. by rewrite abs_chans, H. Qed.

(* st.nicks is injective: an object is tracked under one name *)
Lemma st_nicks_inj s n1 n2 nk : rep_inv s -> st_nicks s !! n1 = Some nk -> st_nicks s !! n2 = Some nk -> n1 = n2.
Proof.
  intros I H1 H2. destruct (ri_nicks s I _ _ H1) as (o1 & E1 & <-). destruct (ri_nicks s I _ _ H2) as (o2 & E2 & <-).
  congruence.
Qed.
Lemma st_chans_inj s c1 c2 ch : rep_inv s -> st_chans s !! c1 = Some ch -> st_chans s !! c2 = Some ch -> c1 = c2.
Proof.
  intros I H1 H2. destruct (ri_chans s I _ _ H1) as (o1 & E1 & <-). destruct (ri_chans s I _ _ H2) as (o2 & E2 & <-).
  congruence.
Qed.

(* the membership relation seen from either side *)
Lemma abs_member_nick_side s c n ch nk o : rep_inv s ->
  st_chans s !! c = Some ch -> st_nicks s !! n = Some nk -> h_nick s !! nk = Some o ->
  ts_member (abs s) !! (c, n) = no_chans o !! ch ≫= fun cp => h_priv s !! cp.
Proof.
  intros I Hc Hn Ho. rewrite abs_member, Hc. simpl.
  destruct (ri_chans s I _ _ Hc) as (co & Hco & Hname). rewrite Hco. simpl.
  destruct (co_lookup co !! n) as [nk'|] eqn:L.
  - apply (ri_ch_lookup s I _ _ _ _ _ Hc Hco) in L as [L1 [cp L2]].
    assert (nk' = nk) as -> by congruence. simpl. rewrite L2. simpl.
    destruct (ri_ch_nicks s I _ _ _ _ _ Hc Hco L2) as (o' & Ho' & _ & Hch & _).
    assert (o' = o) as -> by congruence. by rewrite Hch.
  - simpl. destruct (no_chans o !! ch) as [cp|] eqn:L'; [|done]. exfalso.
    destruct (ri_nk_chans s I _ _ _ _ _ Hn Ho L') as (co' & Hco' & _ & Hnk).
    assert (co' = co) as -> by congruence.
    assert (co_lookup co !! n = Some nk) as X; [|congruence].
    apply (ri_ch_lookup s I _ _ _ _ _ Hc Hco). eauto.
Qed.

Lemma abs_member_untracked_nick s c n : rep_inv s -> st_nicks s !! n = None -> ts_member (abs s) !! (c, n) = None.
Proof.
  intros I Hn. rewrite abs_member. destruct (st_chans s !! c) as [ch|] eqn:Hc; [|done]. simpl.
  destruct (h_chan s !! ch) as [co|] eqn:Hco; [|done]. simpl.
  destruct (co_lookup co !! n) as [nk|] eqn:L; [|done].
  apply (ri_ch_lookup s I _ _ _ _ _ Hc Hco) in L as [L1 _]. congruence.
Qed.

(* ---------- initial state ---------- *)
Lemma rep_inv_new me : rep_inv (im_new me).
Proof.
  split; simpl.
  - intros n nk H. apply lookup_singleton_Some in H as [<- <-]. eexists. by rewrite lookup_singleton.
  - intros c ch H. by rewrite lookup_empty in H.
  - exists me. by rewrite lookup_singleton.
  - intros n nk o ch cp H1 H2 H3. apply lookup_singleton_Some in H1 as [<- <-].
    rewrite lookup_singleton in H2. inversion H2; subst. simpl in H3. by rewrite lookup_empty in H3.
  - intros n nk o c ch H1 H2. apply lookup_singleton_Some in H1 as [<- <-].
    rewrite lookup_singleton in H2. inversion H2; subst. simpl. rewrite !lookup_empty. split; [done|by intros [? _]].
  - intros c ch co nk cp H. by rewrite lookup_empty in H.
  - intros c ch co n nk H. by rewrite lookup_empty in H.
  - intros c1 ch1 co1 nk1 c2 ch2 co2 nk2 cp H. by rewrite lookup_empty in H.
  - intros a [H|[H|H]].
    + destruct (decide (a = 1%positive)) as [->|N]; [done|]. rewrite lookup_singleton_ne in H by done. by destruct H.
    + rewrite lookup_empty in H. by destruct H.
    + rewrite lookup_empty in H. by destruct H.
Qed.

Lemma abs_new me : abs (im_new me) = sp_new me.
Proof.
  unfold abs, sp_new. simpl. rewrite lookup_singleton. simpl. f_equal.
  - by rewrite omap_singleton_Some with (y := new_nickattr) by (by rewrite lookup_singleton).
  - by rewrite omap_empty.
Qed.

(* from here on [abs] is used through the lookup lemmas above only *)
Global Opaque abs.

(* ---------- a fold of inserts computes the map described by a functional relation ---------- *)
Lemma foldM_insert_spec {E} (f : E -> option (name * privs)) (g : gmap name privs -> E -> option (gmap name privs))
      (P : name -> privs -> Prop) (l : list E) :
  (forall acc e, g acc e = f e ≫= fun kv => Some (<[fst kv := snd kv]> acc)) ->
  (forall k v1 v2, P k v1 -> P k v2 -> v1 = v2) ->
  (forall e, e ∈ l -> exists k v, f e = Some (k, v) /\ P k v) ->
  forall acc, (forall k v, acc !! k = Some v -> P k v) ->
  exists m, foldM g acc l = Some m /\
       (forall k v, m !! k = Some v -> P k v) /\
       (forall k v, acc !! k = Some v -> m !! k = Some v) /\
       (forall e k v, e ∈ l -> f e = Some (k, v) -> m !! k = Some v).
Proof.
  intros Hg Hfun. induction l as [|e l IH]; intros Hl acc Hacc.
  - exists acc. repeat split; auto. intros e k v H. by apply elem_of_nil in H.
  - destruct (Hl e) as (k & v & Hf & HP); [by left|].
    simpl. rewrite Hg, Hf. simpl.
    assert (Hacc' : forall k' v', <[k:=v]> acc !! k' = Some v' -> P k' v').
    { intros k' v'. destruct (decide (k' = k)) as [->|N].
      - rewrite lookup_insert. by intros [= <-].
      - rewrite lookup_insert_ne by done. apply Hacc. }
    destruct (IH (fun e' H => Hl e' (elem_of_list_further _ _ _ H)) _ Hacc') as (m & Hm & M1 & M2 & M3).
    exists m. repeat split; auto.
    + intros k' v' H. apply M2. destruct (decide (k' = k)) as [->|N].
      * rewrite lookup_insert. f_equal. eapply Hfun; eauto.
      * by rewrite lookup_insert_ne.
    + intros e' k' v' He' Hf'. apply elem_of_cons in He' as [->|He'].
      * rewrite Hf in Hf'. inversion Hf'; subst. apply M2. by rewrite lookup_insert.
      * eapply M3; eauto.
Qed.

Section Refine.
Variable enumA : gmap addr addr -> list (addr * addr).
Variable enumN : gmap name addr -> list (name * addr).
Hypothesis enumA_perm : forall m, enumA m ≡ₚ map_to_list m.
Hypothesis enumN_perm : forall m, enumN m ≡ₚ map_to_list m.

Lemma enumA_elem m a b : (a, b) ∈ enumA m <-> m !! a = Some b.
Proof. rewrite enumA_perm. apply elem_of_map_to_list. Qed.
Lemma enumA_empty : enumA ∅ = [].
Proof. apply Permutation_nil_r. rewrite enumA_perm. by rewrite map_to_list_empty. Qed.

(* ---------- snapshots ---------- *)
Lemma chans_of_abs s n nk o c : rep_inv s -> st_nicks s !! n = Some nk -> h_nick s !! nk = Some o ->
  chans_of (abs s) n !! c = st_chans s !! c ≫= fun ch => no_chans o !! ch ≫= fun cp => h_priv s !! cp.
Proof.
  intros I Hn Ho. unfold chans_of. rewrite map_lookup_imap, abs_chans.
  destruct (st_chans s !! c) as [ch|] eqn:Hc; [|done]. simpl.
  destruct (ri_chans s I _ _ Hc) as (co & Hco & _). rewrite Hco. simpl.
  by apply (abs_member_nick_side s c n ch nk o).
Qed.

Lemma nicks_of_abs s c ch co n : rep_inv s -> st_chans s !! c = Some ch -> h_chan s !! ch = Some co ->
  nicks_of (abs s) c !! n = st_nicks s !! n ≫= fun nk => co_nicks co !! nk ≫= fun cp => h_priv s !! cp.
Proof.
  intros I Hc Hco. unfold nicks_of. rewrite map_lookup_imap, abs_nicks.
  destruct (st_nicks s !! n) as [nk|] eqn:Hn; [|done]. simpl.
  destruct (ri_nicks s I _ _ Hn) as (o & Ho & _). rewrite Ho. simpl.
  rewrite abs_member, Hc. simpl. rewrite Hco. simpl.
  destruct (co_lookup co !! n) as [nk'|] eqn:L.
  - apply (ri_ch_lookup s I _ _ _ _ _ Hc Hco) in L as [L1 _]. by assert (nk' = nk) as -> by congruence.
  - simpl. destruct (co_nicks co !! nk) as [cp|] eqn:L'; [|done]. exfalso.
    assert (co_lookup co !! n = Some nk) as X; [|congruence].
    apply (ri_ch_lookup s I _ _ _ _ _ Hc Hco). eauto.
Qed.

Lemma nick_chan_map_ok s n nk o : rep_inv s -> st_nicks s !! n = Some nk -> h_nick s !! nk = Some o ->
  nick_chan_map enumA s o = Some (chans_of (abs s) n).
Proof.
  intros I Hn Ho. unfold nick_chan_map.
  set (f := fun e : addr * addr => h_chan s !! fst e ≫= fun c => h_priv s !! snd e ≫= fun p => Some (co_name c, p)).
  destruct (foldM_insert_spec f
     (fun acc e => h_chan s !! fst e ≫= fun c => h_priv s !! snd e ≫= fun p => Some (<[co_name c := p]> acc))
     (fun k v => chans_of (abs s) n !! k = Some v) (enumA (no_chans o))) with (acc := (∅ : gmap name privs))
    as (m & Hm & M1 & _ & M3).
  - intros acc e. unfold f. destruct (h_chan s !! e.1); [|done]. simpl. by destruct (h_priv s !! e.2).
  - congruence.
  - intros [ch cp] He. apply enumA_elem in He.
    destruct (ri_nk_chans s I _ _ _ _ _ Hn Ho He) as (co & Hco & Hc & Hnk).
    destruct (ri_ch_nicks s I _ _ _ _ _ Hc Hco Hnk) as (_ & _ & _ & _ & [p Hp]).
    exists (co_name co), p. split.
    + unfold f. simpl. rewrite Hco. simpl. by rewrite Hp.
    + rewrite (chans_of_abs s n nk o) by done. rewrite Hc. simpl. rewrite He. simpl. done.
  - intros k v H. by rewrite lookup_empty in H.
  - rewrite Hm. f_equal. apply map_eq. intros c.
    destruct (m !! c) as [p|] eqn:L; [symmetry; by apply M1|].
    destruct (chans_of (abs s) n !! c) as [p|] eqn:L'; [|done]. exfalso.
    rewrite (chans_of_abs s n nk o) in L' by done.
    destruct (st_chans s !! c) as [ch|] eqn:Hc; [|done]. simpl in L'.
    destruct (no_chans o !! ch) as [cp|] eqn:Hch; [|done]. simpl in L'.
    destruct (ri_chans s I _ _ Hc) as (co & Hco & Hname).
    assert (m !! c = Some p) as X; [|congruence].
    apply (M3 (ch, cp)); [by apply enumA_elem|]. unfold f. simpl. rewrite Hco. simpl. rewrite L'. simpl. by rewrite Hname.
Qed.

Lemma chan_nick_map_ok s c ch co : rep_inv s -> st_chans s !! c = Some ch -> h_chan s !! ch = Some co ->
  chan_nick_map enumA s co = Some (nicks_of (abs s) c).
Proof.
  intros I Hc Hco. unfold chan_nick_map.
  set (f := fun e : addr * addr => h_nick s !! fst e ≫= fun o => h_priv s !! snd e ≫= fun p => Some (no_nick o, p)).
  destruct (foldM_insert_spec f
     (fun acc e => h_nick s !! fst e ≫= fun o => h_priv s !! snd e ≫= fun p => Some (<[no_nick o := p]> acc))
     (fun k v => nicks_of (abs s) c !! k = Some v) (enumA (co_nicks co))) with (acc := (∅ : gmap name privs))
    as (m & Hm & M1 & _ & M3).
  - intros acc e. unfold f. destruct (h_nick s !! e.1); [|done]. simpl. by destruct (h_priv s !! e.2).
  - congruence.
  - intros [nk cp] He. apply enumA_elem in He.
    destruct (ri_ch_nicks s I _ _ _ _ _ Hc Hco He) as (o & Ho & Hn & _ & [p Hp]).
    exists (no_nick o), p. split.
    + unfold f. simpl. rewrite Ho. simpl. by rewrite Hp.
    + rewrite (nicks_of_abs s c ch co) by done. rewrite Hn. simpl. rewrite He. simpl. done.
  - intros k v H. by rewrite lookup_empty in H.
  - rewrite Hm. f_equal. apply map_eq. intros n.
    destruct (m !! n) as [p|] eqn:L; [symmetry; by apply M1|].
    destruct (nicks_of (abs s) c !! n) as [p|] eqn:L'; [|done]. exfalso.
    rewrite (nicks_of_abs s c ch co) in L' by done.
    destruct (st_nicks s !! n) as [nk|] eqn:Hn; [|done]. simpl in L'.
    destruct (co_nicks co !! nk) as [cp|] eqn:Hnk; [|done]. simpl in L'.
    destruct (ri_nicks s I _ _ Hn) as (o & Ho & Hname).
    assert (m !! n = Some p) as X; [|congruence].
    apply (M3 (nk, cp)); [by apply enumA_elem|]. unfold f. simpl. rewrite Ho. simpl. rewrite L'. simpl. by rewrite Hname.
Qed.

Lemma nick_snap_ok s n nk : rep_inv s -> st_nicks s !! n = Some nk ->
  exists r, im_nick_snap enumA s nk = Some r /\ nick_snapshot (abs s) n = Some r.
Proof.
  intros I Hn. destruct (ri_nicks s I _ _ Hn) as (o & Ho & Hname).
  unfold im_nick_snap, nick_snapshot. rewrite Ho. simpl.
  rewrite (nick_chan_map_ok s n nk o) by done. simpl.
  rewrite (abs_nicks_Some s n nk o) by done. rewrite Hname. eexists; split; reflexivity.
Qed.

Lemma chan_snap_ok s c ch : rep_inv s -> st_chans s !! c = Some ch ->
  exists r, im_chan_snap enumA s ch = Some r /\ chan_snapshot (abs s) c = Some r.
Proof.
  intros I Hc. destruct (ri_chans s I _ _ Hc) as (co & Hco & Hname).
  unfold im_chan_snap, chan_snapshot. rewrite Hco. simpl.
  rewrite (chan_nick_map_ok s c ch co) by done. simpl.
  rewrite (abs_chans_Some s c ch co) by done. rewrite Hname. eexists; split; reflexivity.
Qed.

(* ---------- the refinement statement, per operation ---------- *)
Definition refines_op (o : op) : Prop := forall s, rep_inv s ->
  exists s' r, im_step enumA enumN s o = Some (s', r) /\ rep_inv s'
               /\ abs s' = fst (sp_step (abs s) o) /\ r = snd (sp_step (abs s) o).

Lemma abs_me s : rep_inv s -> exists o, h_nick s !! st_me s = Some o /\ st_nicks s !! no_nick o = Some (st_me s)
                                       /\ ts_me (abs s) = no_nick o.
Proof.
  intros I. destruct (ri_me s I) as (n & Hn). destruct (ri_nicks s I _ _ Hn) as (o & Ho & <-).
  exists o. repeat split; [done..|]. rewrite abs_me_eq. by rewrite Ho.
Qed.

Lemma refines_GetNick n : refines_op (OGetNick n).
Proof.
  intros s I. simpl. unfold im_GetNick, sp_GetNick, with_res. simpl.
  destruct (st_nicks s !! n) as [nk|] eqn:Hn.
  - destruct (nick_snap_ok s n nk I Hn) as (r & H1 & H2). rewrite H1, H2. simpl. eauto 10.
  - unfold nick_snapshot. rewrite abs_nicks_None by done. eauto 10.
Qed.

Lemma refines_GetChannel c : refines_op (OGetChannel c).
Proof.
  intros s I. simpl. unfold im_GetChannel, sp_GetChannel, with_res. simpl.
  destruct (st_chans s !! c) as [ch|] eqn:Hc.
  - destruct (chan_snap_ok s c ch I Hc) as (r & H1 & H2). rewrite H1, H2. simpl. eauto 10.
  - unfold chan_snapshot. rewrite abs_chans_None by done. eauto 10.
Qed.

Lemma refines_Me : refines_op OMe.
Proof.
  intros s I. simpl. unfold im_Me, sp_Me, with_res. simpl.
  destruct (abs_me s I) as (o & Ho & Hn & Hme).
  destruct (nick_snap_ok s _ _ I Hn) as (r & H1 & H2). rewrite H1. simpl.
  rewrite Hme, H2. eauto 10.
Qed.

Lemma refines_IsOn c n : refines_op (OIsOn c n).
Proof.
  intros s I. simpl. unfold im_IsOn, sp_IsOn, with_res.
  rewrite abs_nicks, abs_chans.
  destruct (st_nicks s !! n) as [nk|] eqn:Hn; simpl; [|eauto 10].
  destruct (ri_nicks s I _ _ Hn) as (o & Ho & Hname). rewrite Ho. simpl.
  destruct (st_chans s !! c) as [ch|] eqn:Hc; simpl; [|eauto 10].
  destruct (ri_chans s I _ _ Hc) as (co & Hco & Hcname). rewrite Hco. simpl.
  rewrite (abs_member_nick_side s c n ch nk o) by done.
  unfold nk_isOn. rewrite Ho. simpl.
  destruct (no_chans o !! ch) as [cp|] eqn:L; simpl; [|eauto 10].
  destruct (ri_nk_chans s I _ _ _ _ _ Hn Ho L) as (co' & Hco' & _ & Hnk).
  assert (co' = co) as -> by congruence.
  destruct (ri_ch_nicks s I _ _ _ _ _ Hc Hco Hnk) as (_ & _ & _ & _ & [p Hp]).
  rewrite Hp. simpl. eauto 10.
Qed.

(* ---------- updates that keep the shape of the graph (attributes, modes, privileges) ---------- *)
Definition same_nick_shape (x y : nickobj) : Prop :=
  no_nick x = no_nick y /\ no_lookup x = no_lookup y /\ no_chans x = no_chans y.
Definition same_chan_shape (x y : chanobj) : Prop :=
  co_name x = co_name y /\ co_lookup x = co_lookup y /\ co_nicks x = co_nicks y.

Lemma rep_inv_same_shape s s' :
  st_nicks s' = st_nicks s -> st_chans s' = st_chans s -> st_me s' = st_me s -> h_next s' = h_next s ->
  (forall a, option_Forall2 same_nick_shape (h_nick s' !! a) (h_nick s !! a)) ->
  (forall a, option_Forall2 same_chan_shape (h_chan s' !! a) (h_chan s !! a)) ->
  (forall a, is_Some (h_priv s' !! a) <-> is_Some (h_priv s !! a)) ->
  rep_inv s -> rep_inv s'.
Proof.
  intros E1 E2 E3 E4 SN SC SP I.
  assert (Hn' : forall a x, h_nick s' !! a = Some x -> exists y, h_nick s !! a = Some y /\ same_nick_shape x y).
  { intros a x H. specialize (SN a). rewrite H in SN. inversion SN; subst. eauto. }
  assert (Hn : forall a y, h_nick s !! a = Some y -> exists x, h_nick s' !! a = Some x /\ same_nick_shape x y).
  { intros a y H. specialize (SN a). rewrite H in SN. inversion SN; subst. eauto. }
  assert (Hc' : forall a x, h_chan s' !! a = Some x -> exists y, h_chan s !! a = Some y /\ same_chan_shape x y).
  { intros a x H. specialize (SC a). rewrite H in SC. inversion SC; subst. eauto. }
  assert (Hc : forall a y, h_chan s !! a = Some y -> exists x, h_chan s' !! a = Some x /\ same_chan_shape x y).
  { intros a y H. specialize (SC a). rewrite H in SC. inversion SC; subst. eauto. }
  split; rewrite ?E1, ?E2, ?E3, ?E4.
  - intros n nk H. destruct (ri_nicks s I _ _ H) as (y & Hy & <-).
    destruct (Hn _ _ Hy) as (x & Hx & S1 & _). eauto.
  - intros c ch H. destruct (ri_chans s I _ _ H) as (y & Hy & <-).
    destruct (Hc _ _ Hy) as (x & Hx & S1 & _). eauto.
  - apply (ri_me s I).
  - intros n nk o ch cp H1 H2 H3. destruct (Hn' _ _ H2) as (y & Hy & _ & _ & S3). rewrite S3 in H3.
    destruct (ri_nk_chans s I _ _ _ _ _ H1 Hy H3) as (co & Hco & G1 & G2).
    destruct (Hc _ _ Hco) as (x & Hx & T1 & _ & T3). exists x. rewrite T1, T3. eauto.
  - intros n nk o c ch H1 H2. destruct (Hn' _ _ H2) as (y & Hy & _ & S2 & S3). rewrite S2, S3.
    apply (ri_nk_lookup s I _ _ _ _ _ H1 Hy).
  - intros c ch co nk cp H1 H2 H3. destruct (Hc' _ _ H2) as (y & Hy & _ & _ & S3). rewrite S3 in H3.
    destruct (ri_ch_nicks s I _ _ _ _ _ H1 Hy H3) as (o & Ho & G1 & G2 & G3).
    destruct (Hn _ _ Ho) as (x & Hx & T1 & _ & T3). exists x. rewrite T1, T3. repeat split; auto. by apply SP.
  - intros c ch co n nk H1 H2. destruct (Hc' _ _ H2) as (y & Hy & _ & S2 & S3). rewrite S2, S3.
    apply (ri_ch_lookup s I _ _ _ _ _ H1 Hy).
  - intros c1 ch1 co1 nk1 c2 ch2 co2 nk2 cp H1 H2 H3 H4 H5 H6.
    destruct (Hc' _ _ H2) as (y1 & Hy1 & _ & _ & S3). rewrite S3 in H3.
    destruct (Hc' _ _ H5) as (y2 & Hy2 & _ & _ & S3'). rewrite S3' in H6.
    apply (ri_unshared s I _ _ _ _ _ _ _ _ _ H1 Hy1 H3 H4 Hy2 H6).
  - intros a H. apply (ri_fresh s I).
    destruct H as [[x H]|[[x H]|H]].
    + destruct (Hn' _ _ H) as (y & Hy & _). left; eauto.
    + destruct (Hc' _ _ H) as (y & Hy & _). right; left; eauto.
    + right; right. by apply SP.
Qed.

Lemma option_Forall2_refl_shape_n (h : gmap addr nickobj) a :
  option_Forall2 same_nick_shape (h !! a) (h !! a).
Proof. destruct (h !! a); constructor. by repeat split. Qed.
Lemma option_Forall2_refl_shape_c (h : gmap addr chanobj) a :
  option_Forall2 same_chan_shape (h !! a) (h !! a).
Proof. destruct (h !! a); constructor. by repeat split. Qed.

(* replacing a tracked nick object by one of the same shape *)
Lemma rep_inv_put_nick s nk o o' : rep_inv s -> h_nick s !! nk = Some o -> same_nick_shape o' o ->
  rep_inv (put_nick s nk o').
Proof.
  intros I Ho S. apply (rep_inv_same_shape s); try done; simpl.
  - intros a. destruct (decide (a = nk)) as [->|N].
    + rewrite lookup_insert, Ho. by constructor.
    + rewrite lookup_insert_ne by done. apply option_Forall2_refl_shape_n.
  - intros a. apply option_Forall2_refl_shape_c.
Qed.
Lemma rep_inv_put_chan s ch co co' : rep_inv s -> h_chan s !! ch = Some co -> same_chan_shape co' co ->
  rep_inv (put_chan s ch co').
Proof.
  intros I Ho S. apply (rep_inv_same_shape s); try done; simpl.
  - intros a. apply option_Forall2_refl_shape_n.
  - intros a. destruct (decide (a = ch)) as [->|N].
    + rewrite lookup_insert, Ho. by constructor.
    + rewrite lookup_insert_ne by done. apply option_Forall2_refl_shape_c.
Qed.
Lemma rep_inv_put_priv s cp p : rep_inv s -> is_Some (h_priv s !! cp) -> rep_inv (put_priv s cp p).
Proof.
  intros I Hp. apply (rep_inv_same_shape s); try done; simpl.
  - intros a. apply option_Forall2_refl_shape_n.
  - intros a. apply option_Forall2_refl_shape_c.
  - intros a. destruct (decide (a = cp)) as [->|N].
    + rewrite lookup_insert. split; eauto.
    + by rewrite lookup_insert_ne.
Qed.

(* the abstraction after replacing the attributes of nick [n] *)
Lemma abs_put_nick s n nk o o' : rep_inv s -> st_nicks s !! n = Some nk -> h_nick s !! nk = Some o ->
  same_nick_shape o' o ->
  abs (put_nick s nk o') =
  {| ts_me := ts_me (abs s); ts_nicks := <[n := nick_attr o']> (ts_nicks (abs s));
     ts_chans := ts_chans (abs s); ts_member := ts_member (abs s) |}.
Proof.
  intros I Hn Ho (S1 & S2 & S3).
  assert (forall (a b : tstate), ts_me a = ts_me b -> ts_nicks a = ts_nicks b -> ts_chans a = ts_chans b ->
            ts_member a = ts_member b -> a = b) as ext by (intros [] []; simpl; congruence).
  apply ext; simpl.
  - rewrite !abs_me_eq. simpl. destruct (decide (st_me s = nk)) as [->|N].
    + rewrite lookup_insert, Ho. simpl. done.
    + by rewrite lookup_insert_ne.
  - apply map_eq. intros k. rewrite abs_nicks. simpl. destruct (decide (k = n)) as [->|N].
    + rewrite lookup_insert, Hn. simpl. by rewrite lookup_insert.
    + rewrite lookup_insert_ne by done. rewrite abs_nicks.
      destruct (st_nicks s !! k) as [nk'|] eqn:Hk; [|done]. simpl.
      assert (nk' <> nk) by (intros ->; apply N; eapply st_nicks_inj; eauto).
      by rewrite lookup_insert_ne.
  - apply map_eq. intros k. by rewrite !abs_chans.
  - apply map_eq. intros [c k]. by rewrite !abs_member.
Qed.

Lemma abs_put_chan s c ch co co' : rep_inv s -> st_chans s !! c = Some ch -> h_chan s !! ch = Some co ->
  same_chan_shape co' co ->
  abs (put_chan s ch co') =
  {| ts_me := ts_me (abs s); ts_nicks := ts_nicks (abs s);
     ts_chans := <[c := chan_attr co']> (ts_chans (abs s)); ts_member := ts_member (abs s) |}.
Proof.
  intros I Hc Hco (S1 & S2 & S3).
  assert (forall (a b : tstate), ts_me a = ts_me b -> ts_nicks a = ts_nicks b -> ts_chans a = ts_chans b ->
            ts_member a = ts_member b -> a = b) as ext by (intros [] []; simpl; congruence).
  apply ext; simpl.
  - by rewrite !abs_me_eq.
  - apply map_eq. intros k. by rewrite !abs_nicks.
  - apply map_eq. intros k. rewrite abs_chans. simpl. destruct (decide (k = c)) as [->|N].
    + rewrite lookup_insert, Hc. simpl. by rewrite lookup_insert.
    + rewrite lookup_insert_ne by done. rewrite abs_chans.
      destruct (st_chans s !! k) as [ch'|] eqn:Hk; [|done]. simpl.
      assert (ch' <> ch) by (intros ->; apply N; eapply st_chans_inj; eauto).
      by rewrite lookup_insert_ne.
  - apply map_eq. intros [k n]. rewrite !abs_member. simpl.
    destruct (st_chans s !! k) as [ch'|] eqn:Hk; [|done]. simpl.
    destruct (decide (ch' = ch)) as [->|N].
    + rewrite lookup_insert, Hco. simpl. by rewrite S2, S3.
    + by rewrite lookup_insert_ne.
Qed.

Lemma refines_NickInfo n i h r0 : refines_op (ONickInfo n i h r0).
Proof.
  intros s I. simpl. unfold im_NickInfo, sp_NickInfo, with_res.
  destruct (st_nicks s !! n) as [nk|] eqn:Hn.
  - destruct (ri_nicks s I _ _ Hn) as (o & Ho & Hname). rewrite Ho. simpl.
    rewrite (abs_nicks_Some s n nk o) by done.
    set (o' := Build_nickobj (no_nick o) i h r0 (no_modes o) (no_lookup o) (no_chans o)).
    assert (same_nick_shape o' o) as S by done.
    pose proof (rep_inv_put_nick s nk o o' I Ho S) as I'.
    pose proof (abs_put_nick s n nk o o' I Hn Ho S) as A.
    assert (st_nicks (put_nick s nk o') !! n = Some nk) as Hn' by done.
    destruct (nick_snap_ok _ n nk I' Hn') as (r & H1 & H2). rewrite H1. simpl.
    eexists _, _. split; [done|]. split; [done|]. rewrite A in H2. simpl. split; [exact A|]. symmetry; f_equal; exact H2.
  - rewrite abs_nicks_None by done. simpl. eauto 10.
Qed.

Lemma refines_NickModes n m : refines_op (ONickModes n m).
Proof.
  intros s I. simpl. unfold im_NickModes, sp_NickModes, with_res.
  destruct (st_nicks s !! n) as [nk|] eqn:Hn.
  - destruct (ri_nicks s I _ _ Hn) as (o & Ho & Hname). rewrite Ho. simpl.
    rewrite (abs_nicks_Some s n nk o) by done.
    set (o' := Build_nickobj (no_nick o) (no_ident o) (no_host o) (no_name o)
                             (nick_parse_modes m false (no_modes o)) (no_lookup o) (no_chans o)).
    assert (same_nick_shape o' o) as S by done.
    pose proof (rep_inv_put_nick s nk o o' I Ho S) as I'.
    pose proof (abs_put_nick s n nk o o' I Hn Ho S) as A.
    assert (st_nicks (put_nick s nk o') !! n = Some nk) as Hn' by done.
    destruct (nick_snap_ok _ n nk I' Hn') as (r & H1 & H2). rewrite H1. simpl.
    eexists _, _. split; [done|]. split; [done|]. rewrite A in H2. simpl. split; [exact A|]. symmetry; f_equal; exact H2.
  - rewrite abs_nicks_None by done. simpl. eauto 10.
Qed.

Lemma refines_Topic c t : refines_op (OTopic c t).
Proof.
  intros s I. simpl. unfold im_Topic, sp_Topic, with_res.
  destruct (st_chans s !! c) as [ch|] eqn:Hc.
  - destruct (ri_chans s I _ _ Hc) as (co & Hco & Hname). rewrite Hco. simpl.
    rewrite (abs_chans_Some s c ch co) by done.
    set (co' := Build_chanobj (co_name co) t (co_modes co) (co_lookup co) (co_nicks co)).
    assert (same_chan_shape co' co) as S by done.
    pose proof (rep_inv_put_chan s ch co co' I Hco S) as I'.
    pose proof (abs_put_chan s c ch co co' I Hc Hco S) as A.
    assert (st_chans (put_chan s ch co') !! c = Some ch) as Hc' by done.
    destruct (chan_snap_ok _ c ch I' Hc') as (r & H1 & H2). rewrite H1. simpl.
    eexists _, _. split; [done|]. split; [done|]. rewrite A in H2. simpl. split; [exact A|]. symmetry; f_equal; exact H2.
  - rewrite abs_chans_None by done. simpl. eauto 10.
Qed.

(* ---------- allocation of a new nick / channel object ---------- *)
Lemma fresh_nick s : rep_inv s -> h_nick s !! h_next s = None.
Proof.
  intros I. destruct (h_nick s !! h_next s) eqn:E; [|done].
  assert (h_next s < h_next s)%positive by (apply (ri_fresh s I); left; eauto). lia.
Qed.
Lemma fresh_chan s : rep_inv s -> h_chan s !! h_next s = None.
Proof.
  intros I. destruct (h_chan s !! h_next s) eqn:E; [|done].
  assert (h_next s < h_next s)%positive by (apply (ri_fresh s I); right; left; eauto). lia.
Qed.
Lemma fresh_priv s : rep_inv s -> h_priv s !! h_next s = None.
Proof.
  intros I. destruct (h_priv s !! h_next s) eqn:E; [|done].
  assert (h_next s < h_next s)%positive by (apply (ri_fresh s I); right; right; eauto). lia.
Qed.

Lemma rep_inv_new_nick s n : rep_inv s -> st_nicks s !! n = None ->
  rep_inv (set_st_nicks (put_nick (bump s) (h_next s) (new_nickobj n)) (<[n := h_next s]> (st_nicks s))).
Proof.
  intros I Hn. pose proof (fresh_nick s I) as F.
  assert (OLD : forall k nk, st_nicks s !! k = Some nk -> k <> n /\ nk <> h_next s).
  { intros k nk H. split; [congruence|]. intros ->. destruct (ri_nicks s I _ _ H) as (o & Ho & _). congruence. }
  assert (INS : forall k nk, <[n := h_next s]> (st_nicks s) !! k = Some nk ->
                  (k = n /\ nk = h_next s) \/ (k <> n /\ nk <> h_next s /\ st_nicks s !! k = Some nk)).
  { intros k nk H. destruct (decide (k = n)) as [->|N].
    - rewrite lookup_insert in H. left. split; congruence.
    - rewrite lookup_insert_ne in H by done. right. destruct (OLD _ _ H). eauto. }
  split; simpl.
  - intros k nk H. destruct (INS _ _ H) as [[-> ->]|(N1 & N2 & H')].
    + rewrite lookup_insert. eauto.
    + rewrite lookup_insert_ne by done. apply (ri_nicks s I _ _ H').
  - apply (ri_chans s I).
  - destruct (ri_me s I) as (k & Hk). exists k. destruct (OLD _ _ Hk). by rewrite lookup_insert_ne.
  - intros k nk o ch cp H1 H2 H3. destruct (INS _ _ H1) as [[-> ->]|(N1 & N2 & H')].
    + rewrite lookup_insert in H2. inversion H2; subst. simpl in H3. by rewrite lookup_empty in H3.
    + rewrite lookup_insert_ne in H2 by done. apply (ri_nk_chans s I _ _ _ _ _ H' H2 H3).
  - intros k nk o c ch H1 H2. destruct (INS _ _ H1) as [[-> ->]|(N1 & N2 & H')].
    + rewrite lookup_insert in H2. inversion H2; subst. simpl. rewrite !lookup_empty. split; [done|]. by intros [_ [? ?]].
    + rewrite lookup_insert_ne in H2 by done. apply (ri_nk_lookup s I _ _ _ _ _ H' H2).
  - intros c ch co nk cp H1 H2 H3. destruct (ri_ch_nicks s I _ _ _ _ _ H1 H2 H3) as (o & Ho & G1 & G2 & G3).
    destruct (OLD _ _ G1). exists o. rewrite !lookup_insert_ne by done. eauto.
  - intros c ch co k nk H1 H2. rewrite (ri_ch_lookup s I _ _ _ _ _ H1 H2).
    destruct (decide (k = n)) as [->|N].
    + rewrite lookup_insert, Hn. split; [by intros [? _]|]. intros [[= <-] [cp Hcp]].
      destruct (ri_ch_nicks s I _ _ _ _ _ H1 H2 Hcp) as (o & Ho & _). congruence.
    + by rewrite lookup_insert_ne.
  - apply (ri_unshared s I).
  - intros a H. destruct (decide (a = h_next s)) as [->|N]; [lia|].
    rewrite lookup_insert_ne in H by done. pose proof (ri_fresh s I a H). lia.
Qed.

Lemma tstate_ext (a b : tstate) : ts_me a = ts_me b -> ts_nicks a = ts_nicks b -> ts_chans a = ts_chans b ->
  ts_member a = ts_member b -> a = b.
Proof. destruct a, b; simpl; congruence. Qed.

Lemma abs_new_nick s n : rep_inv s -> st_nicks s !! n = None ->
  abs (set_st_nicks (put_nick (bump s) (h_next s) (new_nickobj n)) (<[n := h_next s]> (st_nicks s))) =
  {| ts_me := ts_me (abs s); ts_nicks := <[n := new_nickattr]> (ts_nicks (abs s));
     ts_chans := ts_chans (abs s); ts_member := ts_member (abs s) |}.
Proof.
  intros I Hn. pose proof (fresh_nick s I) as F. apply tstate_ext; simpl.
  - rewrite !abs_me_eq. simpl. destruct (ri_me s I) as (k & Hk). destruct (ri_nicks s I _ _ Hk) as (o & Ho & _).
    rewrite lookup_insert_ne by congruence. done.
  - apply map_eq. intros k. rewrite abs_nicks. simpl. destruct (decide (k = n)) as [->|N].
    + rewrite !lookup_insert. simpl. by rewrite lookup_insert.
    + rewrite !lookup_insert_ne by done. rewrite abs_nicks.
      destruct (st_nicks s !! k) as [nk|] eqn:Hk; [|done]. simpl.
      destruct (ri_nicks s I _ _ Hk) as (o & Ho & _). rewrite lookup_insert_ne by congruence. done.
  - apply map_eq. intros k. by rewrite !abs_chans.
  - apply map_eq. intros [c k]. by rewrite !abs_member.
Qed.

Lemma refines_NewNick n : refines_op (ONewNick n).
Proof.
  intros s I. simpl. unfold im_NewNick, sp_NewNick, with_res.
  destruct n as [|x n]; [simpl; eauto 10|].
  rewrite abs_nicks.
  destruct (st_nicks s !! (x :: n)) as [nk|] eqn:Hn.
  - simpl. destruct (ri_nicks s I _ _ Hn) as (o & Ho & _). rewrite Ho. simpl. eauto 10.
  - simpl.
    pose proof (rep_inv_new_nick s _ I Hn) as I'. pose proof (abs_new_nick s _ I Hn) as A.
    set (s' := set_st_nicks _ _) in *.
    assert (st_nicks s' !! (x :: n) = Some (h_next s)) as Hn' by (simpl; by rewrite lookup_insert).
    destruct (nick_snap_ok _ _ _ I' Hn') as (r & H1 & H2). rewrite H1. simpl.
    eexists _, _. split; [done|]. split; [done|]. rewrite A in H2. split; [exact A|]. symmetry; f_equal; exact H2.
Qed.

Lemma rep_inv_new_chan s c : rep_inv s -> st_chans s !! c = None ->
  rep_inv (set_st_chans (put_chan (bump s) (h_next s) (new_chanobj c)) (<[c := h_next s]> (st_chans s))).
Proof.
  intros I Hc. pose proof (fresh_chan s I) as F.
  assert (OLD : forall k ch, st_chans s !! k = Some ch -> k <> c /\ ch <> h_next s).
  { intros k ch H. split; [congruence|]. intros ->. destruct (ri_chans s I _ _ H) as (o & Ho & _). congruence. }
  assert (INS : forall k ch, <[c := h_next s]> (st_chans s) !! k = Some ch ->
                  (k = c /\ ch = h_next s) \/ (k <> c /\ ch <> h_next s /\ st_chans s !! k = Some ch)).
  { intros k ch H. destruct (decide (k = c)) as [->|N].
    - rewrite lookup_insert in H. left. split; congruence.
    - rewrite lookup_insert_ne in H by done. right. destruct (OLD _ _ H). eauto. }
  split; simpl.
  - apply (ri_nicks s I).
  - intros k ch H. destruct (INS _ _ H) as [[-> ->]|(N1 & N2 & H')].
    + rewrite lookup_insert. eauto.
    + rewrite lookup_insert_ne by done. apply (ri_chans s I _ _ H').
  - apply (ri_me s I).
  - intros k nk o ch cp H1 H2 H3. destruct (ri_nk_chans s I _ _ _ _ _ H1 H2 H3) as (co & Hco & G1 & G2).
    destruct (OLD _ _ G1). exists co. rewrite !lookup_insert_ne by done. eauto.
  - intros k nk o c' ch H1 H2. rewrite (ri_nk_lookup s I _ _ _ _ _ H1 H2).
    destruct (decide (c' = c)) as [->|N].
    + rewrite lookup_insert, Hc. split; [by intros [? _]|]. intros [[= <-] [cp Hcp]].
      destruct (ri_nk_chans s I _ _ _ _ _ H1 H2 Hcp) as (co & Hco & _). congruence.
    + by rewrite lookup_insert_ne.
  - intros c' ch co nk cp H1 H2 H3. destruct (INS _ _ H1) as [[-> ->]|(N1 & N2 & H')].
    + rewrite lookup_insert in H2. inversion H2; subst. simpl in H3. by rewrite lookup_empty in H3.
    + rewrite lookup_insert_ne in H2 by done.
      destruct (ri_ch_nicks s I _ _ _ _ _ H' H2 H3) as (o & Ho & G1 & G2 & G3). eauto 10.
  - intros c' ch co k nk H1 H2. destruct (INS _ _ H1) as [[-> ->]|(N1 & N2 & H')].
    + rewrite lookup_insert in H2. inversion H2; subst. simpl. rewrite !lookup_empty. split; [done|]. by intros [_ [? ?]].
    + rewrite lookup_insert_ne in H2 by done. apply (ri_ch_lookup s I _ _ _ _ _ H' H2).
  - intros c1 ch1 co1 nk1 c2 ch2 co2 nk2 cp H1 H2 H3 H4 H5 H6.
    destruct (INS _ _ H1) as [[-> ->]|(N1 & N2 & H1')].
    { rewrite lookup_insert in H2. inversion H2; subst. simpl in H3. by rewrite lookup_empty in H3. }
    destruct (INS _ _ H4) as [[-> ->]|(N3 & N4 & H4')].
    { rewrite lookup_insert in H5. inversion H5; subst. simpl in H6. by rewrite lookup_empty in H6. }
    rewrite lookup_insert_ne in H2, H5 by done.
    apply (ri_unshared s I _ _ _ _ _ _ _ _ _ H1' H2 H3 H4' H5 H6).
  - intros a H. destruct (decide (a = h_next s)) as [->|N]; [lia|].
    rewrite lookup_insert_ne in H by done. pose proof (ri_fresh s I a H). lia.
Qed.

Lemma abs_new_chan s c : rep_inv s -> st_chans s !! c = None ->
  abs (set_st_chans (put_chan (bump s) (h_next s) (new_chanobj c)) (<[c := h_next s]> (st_chans s))) =
  {| ts_me := ts_me (abs s); ts_nicks := ts_nicks (abs s);
     ts_chans := <[c := new_chanattr]> (ts_chans (abs s)); ts_member := ts_member (abs s) |}.
Proof.
  intros I Hc. pose proof (fresh_chan s I) as F. apply tstate_ext; simpl.
  - by rewrite !abs_me_eq.
  - apply map_eq. intros k. by rewrite !abs_nicks.
  - apply map_eq. intros k. rewrite abs_chans. simpl. destruct (decide (k = c)) as [->|N].
    + rewrite !lookup_insert. simpl. by rewrite lookup_insert.
    + rewrite !lookup_insert_ne by done. rewrite abs_chans.
      destruct (st_chans s !! k) as [ch|] eqn:Hk; [|done]. simpl.
      destruct (ri_chans s I _ _ Hk) as (o & Ho & _). rewrite lookup_insert_ne by congruence. done.
  - apply map_eq. intros [k n]. rewrite !abs_member. simpl. destruct (decide (k = c)) as [->|N].
    + rewrite lookup_insert, Hc. simpl. rewrite lookup_insert. simpl. by rewrite lookup_empty.
    + rewrite lookup_insert_ne by done.
      destruct (st_chans s !! k) as [ch|] eqn:Hk; [|done]. simpl.
      destruct (ri_chans s I _ _ Hk) as (o & Ho & _). rewrite lookup_insert_ne by congruence. done.
Qed.

Lemma refines_NewChannel c : refines_op (ONewChannel c).
Proof.
  intros s I. simpl. unfold im_NewChannel, sp_NewChannel, with_res.
  destruct c as [|x c]; [simpl; eauto 10|].
  rewrite abs_chans.
  destruct (st_chans s !! (x :: c)) as [ch|] eqn:Hc.
  - simpl. destruct (ri_chans s I _ _ Hc) as (o & Ho & _). rewrite Ho. simpl. eauto 10.
  - simpl.
    pose proof (rep_inv_new_chan s _ I Hc) as I'. pose proof (abs_new_chan s _ I Hc) as A.
    set (s' := set_st_chans _ _) in *.
    assert (st_chans s' !! (x :: c) = Some (h_next s)) as Hc' by (simpl; by rewrite lookup_insert).
    destruct (chan_snap_ok _ _ _ I' Hc') as (r & H1 & H2). rewrite H1. simpl.
    eexists _, _. split; [done|]. split; [done|]. rewrite A in H2. split; [exact A|]. symmetry; f_equal; exact H2.
Qed.

(* ---------- Associate: a fresh privilege object linked from both sides ---------- *)
Definition assoc_co (s : istate) (nk : addr) (co : chanobj) (o : nickobj) : chanobj :=
  co_set_maps co (<[no_nick o := nk]> (co_lookup co)) (<[nk := h_next s]> (co_nicks co)).
Definition assoc_no (s : istate) (ch : addr) (co : chanobj) (o : nickobj) : nickobj :=
  no_set_maps o (<[co_name co := ch]> (no_lookup o)) (<[ch := h_next s]> (no_chans o)).
Definition assoc_state (s : istate) (ch nk : addr) (co : chanobj) (o : nickobj) : istate :=
  put_nick (put_chan (put_priv (bump s) (h_next s) no_privs) ch (assoc_co s nk co o)) nk (assoc_no s ch co o).

Section Assoc.
Variables (s : istate) (c n : name) (ch nk : addr) (co : chanobj) (o : nickobj).
Hypothesis I : rep_inv s.
Hypothesis Hc : st_chans s !! c = Some ch.
Hypothesis Hn : st_nicks s !! n = Some nk.
Hypothesis Hco : h_chan s !! ch = Some co.
Hypothesis Ho : h_nick s !! nk = Some o.
Hypothesis Hoff : no_chans o !! ch = None.

Let cp := h_next s.
Let s3 := assoc_state s ch nk co o.

Lemma assoc_names : co_name co = c /\ no_nick o = n.
Proof using I Hc Hn Hco Ho.
  destruct (ri_chans s I _ _ Hc) as (? & ? & ?). destruct (ri_nicks s I _ _ Hn) as (? & ? & ?). split; congruence.
Qed.
Lemma assoc_off_chan : co_nicks co !! nk = None.
Proof using I Hc Hco Ho Hoff.
  destruct (co_nicks co !! nk) as [x|] eqn:E; [|done].
  destruct (ri_ch_nicks s I _ _ _ _ _ Hc Hco E) as (o' & Ho' & _ & G & _). congruence.
Qed.

Lemma assoc_h_chan a : h_chan s3 !! a = if decide (a = ch) then Some (assoc_co s nk co o) else h_chan s !! a.
Proof. simpl. case_decide as E; [subst; by rewrite lookup_insert|by rewrite lookup_insert_ne]. Qed.
Lemma assoc_h_nick a : h_nick s3 !! a = if decide (a = nk) then Some (assoc_no s ch co o) else h_nick s !! a.
Proof. simpl. case_decide as E; [subst; by rewrite lookup_insert|by rewrite lookup_insert_ne]. Qed.
Lemma assoc_h_priv a : h_priv s3 !! a = if decide (a = cp) then Some no_privs else h_priv s !! a.
Proof. simpl. case_decide as E; [subst; by rewrite lookup_insert|by rewrite lookup_insert_ne]. Qed.
Lemma assoc_h_priv_mono a : is_Some (h_priv s !! a) -> is_Some (h_priv s3 !! a).
Proof. intros H. rewrite assoc_h_priv. case_decide; eauto. Qed.

(* entries of tracked objects in the new state *)
Lemma assoc_chan_entry c' ch' co' nk' cp' :
  st_chans s !! c' = Some ch' -> h_chan s3 !! ch' = Some co' -> co_nicks co' !! nk' = Some cp' ->
  (ch' = ch /\ nk' = nk /\ cp' = cp) \/
  (cp' <> cp /\ (ch' <> ch \/ nk' <> nk) /\ exists co0, h_chan s !! ch' = Some co0 /\ co_nicks co0 !! nk' = Some cp').
Proof using I Hc Hco.
  intros T H1 H2. rewrite assoc_h_chan in H1. case_decide as E.
  - subst ch'. inversion H1; subst co'. simpl in H2. destruct (decide (nk' = nk)) as [->|N'].
    + rewrite lookup_insert in H2. left. split; [done|]. split; [done|]. unfold cp. congruence.
    + rewrite lookup_insert_ne in H2 by done. right.
      destruct (ri_ch_nicks s I _ _ _ _ _ Hc Hco H2) as (_ & _ & _ & _ & [x Hx]).
      split; [|eauto]. intros ->. pose proof (fresh_priv s I). unfold cp in *. congruence.
  - right. destruct (ri_chans s I _ _ T) as (co0 & Hco0 & _). assert (co' = co0) as -> by congruence.
    destruct (ri_ch_nicks s I _ _ _ _ _ T Hco0 H2) as (_ & _ & _ & _ & [x Hx]).
    split; [|eauto]. intros ->. pose proof (fresh_priv s I). unfold cp in *. congruence.
Qed.

Lemma assoc_nick_entry k nk' o' ch' cp' :
  st_nicks s !! k = Some nk' -> h_nick s3 !! nk' = Some o' -> no_chans o' !! ch' = Some cp' ->
  (nk' = nk /\ ch' = ch /\ cp' = cp) \/
  ((ch' <> ch \/ nk' <> nk) /\ exists o0, h_nick s !! nk' = Some o0 /\ no_chans o0 !! ch' = Some cp').
Proof using I Ho.
  intros T H1 H2. rewrite assoc_h_nick in H1. case_decide as E.
  - subst nk'. inversion H1; subst o'. simpl in H2. destruct (decide (ch' = ch)) as [->|N'].
    + rewrite lookup_insert in H2. left. split; [done|]. split; [done|]. unfold cp. congruence.
    + rewrite lookup_insert_ne in H2 by done. right. eauto.
  - right. eauto.
Qed.

Lemma rep_inv_assoc : rep_inv s3.
Proof using All.
  destruct assoc_names as [Nc Nn]. pose proof assoc_off_chan as Hoff'.
  split.
  - (* nicks *) intros k nk' H. change (st_nicks s3) with (st_nicks s) in H.
    destruct (ri_nicks s I _ _ H) as (o0 & Ho0 & Hname). rewrite assoc_h_nick. case_decide as E.
    + subst nk'. eexists; split; [done|]. simpl. congruence.
    + eauto.
  - (* chans *) intros k ch' H. change (st_chans s3) with (st_chans s) in H.
    destruct (ri_chans s I _ _ H) as (co0 & Hco0 & Hname). rewrite assoc_h_chan. case_decide as E.
    + subst ch'. eexists; split; [done|]. simpl. congruence.
    + eauto.
  - apply (ri_me s I).
  - (* nk_chans *) intros k nk' o' ch' cp' H1 H2 H3. change (st_nicks s3) with (st_nicks s) in H1.
    change (st_chans s3) with (st_chans s).
    destruct (assoc_nick_entry _ _ _ _ _ H1 H2 H3) as [(-> & -> & ->)|(D & o0 & Ho0 & Hch0)].
    + exists (assoc_co s nk co o). rewrite assoc_h_chan, decide_True by done. simpl.
      rewrite Nc, lookup_insert. done.
    + destruct (ri_nk_chans s I _ _ _ _ _ H1 Ho0 Hch0) as (co0 & Hco0 & G1 & G2).
      rewrite assoc_h_chan. case_decide as E.
      * subst ch'. assert (co0 = co) as -> by congruence. eexists; split; [done|]. simpl. split; [done|].
        destruct D as [D|D]; [done|]. by rewrite lookup_insert_ne.
      * eauto.
  - (* nk_lookup *) intros k nk' o' c' ch' H1 H2. change (st_nicks s3) with (st_nicks s) in H1.
    change (st_chans s3) with (st_chans s). rewrite assoc_h_nick in H2. case_decide as E.
    + subst nk'. inversion H2; subst o'. simpl. rewrite Nc. destruct (decide (c' = c)) as [->|N'].
      * rewrite lookup_insert. split.
        -- intros [= <-]. split; [done|]. rewrite lookup_insert. eauto.
        -- intros [G _]. congruence.
      * rewrite lookup_insert_ne by done. rewrite (ri_nk_lookup s I _ _ _ _ _ H1 Ho).
        split; intros [G1 G2]; (split; [done|]).
        -- assert (ch' <> ch) by (intros ->; apply N'; eapply st_chans_inj; eauto). by rewrite lookup_insert_ne.
        -- assert (ch' <> ch) by (intros ->; apply N'; eapply st_chans_inj; eauto). by rewrite lookup_insert_ne in G2.
    + apply (ri_nk_lookup s I _ _ _ _ _ H1 H2).
  - (* ch_nicks *) intros c' ch' co' nk' cp' H1 H2 H3. change (st_chans s3) with (st_chans s) in H1.
    change (st_nicks s3) with (st_nicks s).
    destruct (assoc_chan_entry _ _ _ _ _ H1 H2 H3) as [(-> & -> & ->)|(Ncp & D & co0 & Hco0 & Hnk0)].
    + exists (assoc_no s ch co o). rewrite assoc_h_nick, decide_True by done. simpl.
      rewrite Nn, lookup_insert. repeat split; try done. rewrite assoc_h_priv, decide_True by done. eauto.
    + destruct (ri_ch_nicks s I _ _ _ _ _ H1 Hco0 Hnk0) as (o0 & Ho0 & G1 & G2 & G3).
      rewrite assoc_h_nick. case_decide as E.
      * subst nk'. assert (o0 = o) as -> by congruence. eexists; split; [done|]. simpl. split; [done|].
        split; [|by apply assoc_h_priv_mono]. destruct D as [D|D]; [|done]. by rewrite lookup_insert_ne.
      * exists o0. repeat split; try done. by apply assoc_h_priv_mono.
  - (* ch_lookup *) intros c' ch' co' k nk' H1 H2. change (st_chans s3) with (st_chans s) in H1.
    change (st_nicks s3) with (st_nicks s). rewrite assoc_h_chan in H2. case_decide as E.
    + subst ch'. inversion H2; subst co'. simpl. rewrite Nn. destruct (decide (k = n)) as [->|N'].
      * rewrite lookup_insert. split.
        -- intros [= <-]. split; [done|]. rewrite lookup_insert. eauto.
        -- intros [G _]. congruence.
      * rewrite lookup_insert_ne by done. rewrite (ri_ch_lookup s I _ _ _ _ _ H1 Hco).
        split; intros [G1 G2]; (split; [done|]).
        -- assert (nk' <> nk) by (intros ->; apply N'; eapply st_nicks_inj; eauto). by rewrite lookup_insert_ne.
        -- assert (nk' <> nk) by (intros ->; apply N'; eapply st_nicks_inj; eauto). by rewrite lookup_insert_ne in G2.
    + apply (ri_ch_lookup s I _ _ _ _ _ H1 H2).
  - (* unshared *) intros c1 ch1 co1 nk1 c2 ch2 co2 nk2 cp' H1 H2 H3 H4 H5 H6.
    change (st_chans s3) with (st_chans s) in H1, H4.
    destruct (assoc_chan_entry _ _ _ _ _ H1 H2 H3) as [(-> & -> & ->)|(Ncp & D & co0 & Hco0 & Hnk0)];
    destruct (assoc_chan_entry _ _ _ _ _ H4 H5 H6) as [(-> & -> & E')|(Ncp' & D' & co0' & Hco0' & Hnk0')];
    try done.
    apply (ri_unshared s I _ _ _ _ _ _ _ _ _ H1 Hco0 Hnk0 H4 Hco0' Hnk0').
  - (* fresh *) intros a H. change (h_next s3) with (Pos.succ (h_next s)).
    rewrite assoc_h_nick, assoc_h_chan, assoc_h_priv in H.
    assert (is_Some (h_nick s !! a) \/ is_Some (h_chan s !! a) \/ is_Some (h_priv s !! a) \/ a = cp) as [G|[G|[G|G]]].
    { destruct H as [H|[H|H]]; case_decide; subst; eauto. }
    + pose proof (ri_fresh s I a (or_introl G)). lia.
    + pose proof (ri_fresh s I a (or_intror (or_introl G))). lia.
    + pose proof (ri_fresh s I a (or_intror (or_intror G))). lia.
    + subst a. unfold cp. lia.
Qed.

Lemma abs_assoc :
  abs s3 = {| ts_me := ts_me (abs s); ts_nicks := ts_nicks (abs s); ts_chans := ts_chans (abs s);
              ts_member := <[(c, n) := no_privs]> (ts_member (abs s)) |}.
Proof using All.
  destruct assoc_names as [Nc Nn]. pose proof assoc_off_chan as Hoff'.
  apply tstate_ext; simpl.
  - rewrite !abs_me_eq. change (st_me s3) with (st_me s). rewrite assoc_h_nick. case_decide as E; [|done].
    rewrite E, Ho. done.
  - apply map_eq. intros k. rewrite !abs_nicks. change (st_nicks s3) with (st_nicks s).
    destruct (st_nicks s !! k) as [nk'|] eqn:Hk; [|done]. simpl. rewrite assoc_h_nick. case_decide as E; [|done].
    subst. by rewrite Ho.
  - apply map_eq. intros k. rewrite !abs_chans. change (st_chans s3) with (st_chans s).
    destruct (st_chans s !! k) as [ch'|] eqn:Hk; [|done]. simpl. rewrite assoc_h_chan. case_decide as E; [|done].
    subst. by rewrite Hco.
  - apply map_eq. intros [k m]. rewrite abs_member. change (st_chans s3) with (st_chans s).
    destruct (decide ((k, m) = (c, n))) as [E|N].
    + inversion E; subst k m. rewrite lookup_insert, Hc. simpl. rewrite assoc_h_chan, decide_True by done. simpl.
      rewrite Nn, lookup_insert. simpl. rewrite lookup_insert. simpl. rewrite assoc_h_priv, decide_True by done. done.
    + rewrite lookup_insert_ne by done. rewrite abs_member.
      destruct (st_chans s !! k) as [ch'|] eqn:Hk; [|done]. simpl. rewrite assoc_h_chan. case_decide as E.
      * subst ch'. assert (k = c) as -> by (eapply st_chans_inj; eauto). rewrite Hco. simpl.
        assert (m <> n) by congruence. rewrite Nn. rewrite lookup_insert_ne by done.
        destruct (co_lookup co !! m) as [nk'|] eqn:L; [|done]. simpl.
        apply (ri_ch_lookup s I _ _ _ _ _ Hc Hco) in L as [L1 [cp' L2]].
        assert (nk' <> nk) by (intros ->; apply H; eapply st_nicks_inj; eauto).
        rewrite lookup_insert_ne by done. rewrite L2. simpl.
        destruct (ri_ch_nicks s I _ _ _ _ _ Hc Hco L2) as (_ & _ & _ & _ & [x Hx]).
        rewrite assoc_h_priv. case_decide as E'; [|done]. subst cp'. pose proof (fresh_priv s I). unfold cp in *. congruence.
      * destruct (h_chan s !! ch') as [co0|] eqn:Hco0; [|done]. simpl.
        destruct (co_lookup co0 !! m) as [nk'|]; [|done]. simpl.
        destruct (co_nicks co0 !! nk') as [cp'|] eqn:L2; [|done]. simpl.
        destruct (ri_ch_nicks s I _ _ _ _ _ Hk Hco0 L2) as (_ & _ & _ & _ & [x Hx]).
        rewrite assoc_h_priv. case_decide as E'; [|done]. subst cp'. pose proof (fresh_priv s I). unfold cp in *. congruence.
Qed.
End Assoc.

Lemma refines_Associate c n : refines_op (OAssociate c n).
Proof.
  intros s I. simpl. unfold im_Associate, sp_Associate, with_res.
  rewrite abs_chans, abs_nicks.
  destruct (st_chans s !! c) as [ch|] eqn:Hc; simpl; [|eauto 10].
  destruct (ri_chans s I _ _ Hc) as (co & Hco & Hcname). rewrite Hco. simpl.
  destruct (st_nicks s !! n) as [nk|] eqn:Hn; simpl; [|eauto 10].
  destruct (ri_nicks s I _ _ Hn) as (o & Ho & Hname). rewrite Ho. simpl.
  rewrite (abs_member_nick_side s c n ch nk o) by done.
  unfold nk_isOn. rewrite Ho. simpl.
  destruct (no_chans o !! ch) as [cp|] eqn:L; simpl.
  - destruct (ri_nk_chans s I _ _ _ _ _ Hn Ho L) as (co' & Hco' & _ & Hnk).
    assert (co' = co) as -> by congruence.
    destruct (ri_ch_nicks s I _ _ _ _ _ Hc Hco Hnk) as (_ & _ & _ & _ & [p Hp]).
    rewrite Hp. simpl. eauto 10.
  - pose proof (assoc_off_chan s c ch nk co o I Hc Hco Ho L) as Hoff'.
    unfold ch_addNick. simpl. rewrite Hco, Ho. simpl. rewrite Hoff'. simpl.
    unfold nk_addChannel. simpl. rewrite Ho. simpl. rewrite lookup_insert. simpl. rewrite L. simpl.
    rewrite lookup_insert. simpl.
    eexists _, _. split; [done|].
    split; [exact (rep_inv_assoc s c n ch nk co o I Hc Hn Hco Ho L)|].
    split; [exact (abs_assoc s c n ch nk co o I Hc Hn Hco Ho L)|done].
Qed.

(* ---------- ChannelModes ---------- *)
Lemma abs_put_priv s c a ch co nk cp p' : rep_inv s ->
  st_chans s !! c = Some ch -> h_chan s !! ch = Some co -> co_lookup co !! a = Some nk -> co_nicks co !! nk = Some cp ->
  abs (put_priv s cp p') =
  {| ts_me := ts_me (abs s); ts_nicks := ts_nicks (abs s); ts_chans := ts_chans (abs s);
     ts_member := <[(c, a) := p']> (ts_member (abs s)) |}.
Proof.
  intros I Hc Hco Hl Hnk. apply tstate_ext; simpl.
  - by rewrite !abs_me_eq.
  - apply map_eq. intros k. by rewrite !abs_nicks.
  - apply map_eq. intros k. by rewrite !abs_chans.
  - apply map_eq. intros [k m]. rewrite abs_member. simpl.
    destruct (decide ((k, m) = (c, a))) as [E|N].
    + inversion E; subst k m. rewrite lookup_insert, Hc. simpl. rewrite Hco. simpl. rewrite Hl. simpl. rewrite Hnk. simpl.
      by rewrite lookup_insert.
    + rewrite lookup_insert_ne by done. rewrite abs_member.
      destruct (st_chans s !! k) as [ch'|] eqn:Hk; [|done]. simpl.
      destruct (h_chan s !! ch') as [co'|] eqn:Hco'; [|done]. simpl.
      destruct (co_lookup co' !! m) as [nk'|] eqn:Hl'; [|done]. simpl.
      destruct (co_nicks co' !! nk') as [cp'|] eqn:Hnk'; [|done]. simpl.
      destruct (decide (cp' = cp)) as [->|N']; [|by rewrite lookup_insert_ne].
      exfalso. destruct (ri_unshared s I _ _ _ _ _ _ _ _ _ Hk Hco' Hnk' Hc Hco Hnk) as [-> ->].
      assert (k = c) as -> by (eapply st_chans_inj; eauto). assert (co' = co) as -> by congruence.
      apply (ri_ch_lookup s I _ _ _ _ _ Hc Hco) in Hl as [G1 _]. apply (ri_ch_lookup s I _ _ _ _ _ Hc Hco) in Hl' as [G2 _].
      apply N. f_equal. eapply st_nicks_inj; eauto.
Qed.

(* the parser state of the object graph represents the parser state of the plain model *)
Definition parse_rel (s0 : istate) (c : name) (ch : addr) (topic : bytes)
           (st : istate * bool * list bytes) (ps : pstate) : Prop :=
  let s := fst (fst st) in
  rep_inv s /\ st_chans s !! c = Some ch /\
  ts_me (abs s) = ts_me (abs s0) /\ ts_nicks (abs s) = ts_nicks (abs s0) /\
  (forall k, k <> c -> ts_chans (abs s) !! k = ts_chans (abs s0) !! k) /\
  exists co, h_chan s !! ch = Some co /\ co_topic co = topic /\
             ps = Build_pstate (snd (fst st)) (snd st) (co_modes co) (ts_member (abs s)).

Lemma parse_rel_modes s0 c ch topic s op args co cm' :
  parse_rel s0 c ch topic (s, op, args) (Build_pstate op args (co_modes co) (ts_member (abs s))) ->
  h_chan s !! ch = Some co -> forall op' args',
  parse_rel s0 c ch topic (put_chan s ch (co_set_modes co cm'), op', args')
            (Build_pstate op' args' cm' (ts_member (abs s))).
Proof.
  intros (I & Hc & F1 & F2 & F3 & co0 & Hco0 & Ht & E) Hco op' args'. simpl in *.
  assert (co0 = co) as -> by congruence.
  assert (same_chan_shape (co_set_modes co cm') co) as S by done.
  pose proof (abs_put_chan s c ch co _ I Hc Hco S) as A.
  split; [by apply (rep_inv_put_chan s ch co)|]. split; [done|]. simpl. rewrite A. simpl.
  split; [done|]. split; [done|]. split; [intros k N; rewrite lookup_insert_ne by done; by apply F3|].
  eexists. rewrite lookup_insert. split; [done|]. split; done.
Qed.

Lemma parse_char_refines s0 c ch topic st ps m : parse_rel s0 c ch topic st ps ->
  exists st', ch_parse_char ch st m = Some st' /\ parse_rel s0 c ch topic st' (chan_parse_char c ps m).
Proof.
  destruct st as [[s op] args]. intros R. pose proof R as (I & Hc & F1 & F2 & F3 & co & Hco & Ht & ->).
  simpl in I, Hc, F1, F2, F3, Hco.
  unfold ch_parse_char, chan_parse_char. simpl.
  case_decide as E1. { eexists; split; [done|]. do 5 (split; [done|]). exists co. split; [done|]. split; done. }
  case_decide as E2. { eexists; split; [done|]. do 5 (split; [done|]). exists co. split; [done|]. split; done. }
  rewrite Hco. simpl.
  case_decide as E3.
  { destruct op; [destruct args as [|a args']|]; (eexists; split; [done|]); try exact R;
      (eapply (parse_rel_modes s0 c ch topic s _ _ co); [exact R|exact Hco]). }
  case_decide as E4.
  { destruct op; [destruct args as [|a args']|]; (eexists; split; [done|]); try exact R;
      (eapply (parse_rel_modes s0 c ch topic s _ _ co); [exact R|exact Hco]). }
  destruct (is_list_mode_char m).
  { destruct args as [|a args']; (eexists; split; [done|]); [exact R|].
    do 5 (split; [done|]). exists co. split; [done|]. split; done. }
  destruct (is_priv_char m).
  - destruct args as [|a args']; [eexists; split; [done|]; exact R|].
    rewrite abs_member, Hc. simpl. rewrite Hco. simpl.
    destruct (co_lookup co !! a) as [nk|] eqn:Hl; simpl; [|eexists; split; [done|]; exact R].
    pose proof Hl as Hl'. apply (ri_ch_lookup s I _ _ _ _ _ Hc Hco) in Hl' as [G1 [cp Hnk]].
    rewrite Hnk. simpl.
    destruct (ri_ch_nicks s I _ _ _ _ _ Hc Hco Hnk) as (_ & _ & _ & _ & [p Hp]). rewrite Hp. simpl.
    destruct (priv_char m op p) as [p'|]; [|eexists; split; [done|]; exact R].
    eexists; split; [done|].
    pose proof (abs_put_priv s c a ch co nk cp p' I Hc Hco Hl Hnk) as A.
    split; [apply rep_inv_put_priv; eauto|]. simpl. split; [done|]. rewrite A. simpl.
    repeat split; try done. exists co. repeat split; done.
  - destruct (chan_flag_char m op (co_modes co)) as [cm'|]; (eexists; split; [done|]); [|exact R].
    (eapply (parse_rel_modes s0 c ch topic s _ _ co); [exact R|exact Hco]).
Qed.

Lemma parse_fold_refines s0 c ch topic modes : forall st ps, parse_rel s0 c ch topic st ps ->
  exists st', foldM (ch_parse_char ch) st modes = Some st' /\
              parse_rel s0 c ch topic st' (fold_left (chan_parse_char c) modes ps).
Proof.
  induction modes as [|m r IH]; intros st ps R; [eauto|]. simpl.
  destruct (parse_char_refines s0 c ch topic st ps m R) as (st1 & E1 & R1). rewrite E1. by apply IH.
Qed.

Lemma refines_ChannelModes c modes args : refines_op (OChannelModes c modes args).
Proof.
  intros s I. simpl. unfold im_ChannelModes, sp_ChannelModes, with_res.
  destruct (st_chans s !! c) as [ch|] eqn:Hc.
  - destruct (ri_chans s I _ _ Hc) as (co & Hco & Hname).
    rewrite (abs_chans_Some s c ch co) by done.
    unfold ch_parseModes, chan_parse_modes.
    destruct (parse_fold_refines s c ch (co_topic co) modes (s, false, args)
                (Build_pstate false args (co_modes co) (ts_member (abs s)))) as (st' & E & R).
    { split; [exact I|]. split; [exact Hc|]. do 3 (split; [done|]). exists co. split; [done|]. split; done. }
    simpl ca_modes. rewrite E. simpl.
    destruct st' as [[s' op'] args']. destruct R as (I' & Hc' & F1 & F2 & F3 & co' & Hco' & Ht & EQ). simpl in *.
    rewrite EQ. simpl.
    assert (A : abs s' = {| ts_me := ts_me (abs s); ts_nicks := ts_nicks (abs s);
                            ts_chans := <[c := Build_chanattr (co_topic co) (co_modes co')]> (ts_chans (abs s));
                            ts_member := ts_member (abs s') |}).
    { apply tstate_ext; simpl; try done. apply map_eq. intros k. destruct (decide (k = c)) as [->|N].
      - rewrite lookup_insert. rewrite (abs_chans_Some s' c ch co') by done. unfold chan_attr. by rewrite Ht.
      - rewrite lookup_insert_ne by done. by apply F3. }
    destruct (chan_snap_ok _ c ch I' Hc') as (r & H1 & H2). rewrite H1. simpl.
    eexists _, _. split; [done|]. split; [done|]. rewrite A in H2. split; [exact A|]. symmetry; f_equal; exact H2.
  - rewrite abs_chans_None by done. simpl. eauto 10.
Qed.

(* ---------- sequences ---------- *)
(* the operations whose refinement is proved above.  NOT yet covered (their loops over Go maps
   need the order-independence argument): ReNick, DelNick, DelChannel, Dissociate, Wipe. *)
Definition covered (o : op) : Prop :=
  match o with
  | OReNick _ _ | ODelNick _ | ODelChannel _ | ODissociate _ _ | OWipe => False
  | _ => True
  end.

Lemma refines_covered o : covered o -> refines_op o.
Proof.
  destruct o; simpl; intros H; try done.
  - apply refines_NewNick.
  - apply refines_GetNick.
  - apply refines_NickInfo.
  - apply refines_NickModes.
  - apply refines_NewChannel.
  - apply refines_GetChannel.
  - apply refines_Topic.
  - apply refines_ChannelModes.
  - apply refines_Me.
  - apply refines_IsOn.
  - apply refines_Associate.
Qed.

Lemma run_refines_partial ops : forall s, rep_inv s -> Forall covered ops ->
  exists s' rs, im_run enumA enumN s ops = Some (s', rs) /\ rep_inv s'
                /\ abs s' = fst (sp_run (abs s) ops) /\ rs = snd (sp_run (abs s) ops).
Proof.
  induction ops as [|o ops IH]; intros s I F.
  - simpl. eauto 10.
  - inversion F as [|? ? Fo Fops]; subst.
    destruct (refines_covered o Fo s I) as (s1 & r & E1 & I1 & A1 & R1).
    destruct (IH s1 I1 Fops) as (s2 & rs & E2 & I2 & A2 & R2).
    simpl. rewrite E1. simpl. rewrite E2. simpl.
    destruct (sp_step (abs s) o) as [t1 r1] eqn:S1. simpl in A1, R1. subst t1 r1.
    destruct (sp_run (abs s1) ops) as [t2 rs2] eqn:S2. simpl in A2, R2. subst t2 rs2.
    eexists _, _. split; [done|]. split; [done|]. split; done.
Qed.

End Refine.
