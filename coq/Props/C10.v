(* Props/C10.v — C10: flood protection follows Hybrid's penalty rule.
   Property theorems only; each is closed by [exact] of a lemma proved in Proofs/FloodProofs.v.
   Time is Z nanoseconds; the environment supplies the clock readings (a, a', w) of each line
   under the hypotheses [honoured] (Model/Flood.v): monotone clock, sequential sender, and
   "a sleep lasts at least the requested duration". *)
From Coq Require Import String.
From Verif Require Import GoBytes Flood FloodProofs Consts Facts.
Open Scope Z_scope.

(* tie: the constants the model hard-codes are the literals of rateLimit in the source today
   (const-folded: 2*time.Second, time.Second, 120, 0, 0, 10*time.Second, 0), rateLimit reads the
   clock exactly twice (elapsed, lastsent) around the badness update, and write calls
   rateLimit only inside the "if !conn.cfg.Flood" block and sleeps BEFORE WriteString *)
Lemma tie_C10 :
  lits_client_Conn_rateLimit
  = [LInt line_base; LInt second; LInt per_char_div; LInt 0; LInt 0; LInt threshold; LInt 0]
  /\ flow_client_Conn_rateLimit
     = ["time.Now().Sub"; "time.Now"; "set conn.badness"; "if{"; "set conn.badness"; "}";
        "time.Now"; "set conn.lastsent"; "if{"; "return"; "}"; "return"]%string
  /\ firstn 9 flow_client_Conn_write
     = ["if{"; "conn.rateLimit"; "if{"; "t.Seconds"; "time.After"; "recv time.After(t)"; "}"; "}";
        "conn.io.WriteString"]%string
  (* ... under exactly the condition "!conn.cfg.Flood" (then "t != 0" guards the sleep), and
     rateLimit's two tests are the floor and the 10 s threshold, strict *)
  /\ firstn 2 conds_client_Conn_write = ["!conn.cfg.Flood"; "t != 0"]%string
  /\ conds_client_Conn_rateLimit = ["conn.badness < 0"; "conn.badness > 10*time.Second"]%string
  (* Client() initialises lastsent to the creation time (and reads the clock only there) *)
  /\ existsb (String.eqb "lastsent: time.Now()") inits_client_Client = true
  /\ count_occ string_dec flow_client_Client "time.Now"%string = 1%nat.
Proof. repeat split; vm_compute; reflexivity. Qed.

(* ---------- C10_rule ---------- *)
(* one call: the line is charged 2 s + chars/120 s (truncated to whole ns), the penalty
   decays by the real time elapsed since the previous accounting, never drops below zero,
   lastsent becomes the second clock reading, and the line is held back — for exactly its
   own charge — exactly when the new penalty exceeds 10 s *)
Theorem C10_rule : forall st a a' c, 0 <= c ->
  let r := rate_limit st a a' c in
  let bad' := fs_bad (fst r) in
  bad' = Z.max 0 (fs_bad st + (2 * second + c * second / 120) - (a - fs_last st))
  /\ 0 <= bad'
  /\ fs_last (fst r) = a'
  /\ (threshold < bad' -> snd r = 2 * second + c * second / 120)
  /\ (bad' <= threshold -> snd r = 0).
Proof. exact rule. Qed.

(* "1/120 s per character": the charge beyond 2 s is c/120 s rounded down to a nanosecond *)
Theorem C10_rule_charge : forall c, 0 <= c ->
  120 * (linetime c - 2 * second) <= c * second < 120 * (linetime c - 2 * second) + 120.
Proof. exact linetime_charge. Qed.

(* for every history in which the sleeps are honoured, starting from any state with
   penalty <= 10 s (a fresh client has 0): every penalty ever computed is in
   [0, 10 s + that line's charge] *)
Theorem C10_rule_invariant : forall st0 pre e,
  fs_bad st0 <= threshold ->
  honoured st0 (fs_last st0) (pre ++ [e]) ->
  0 <= fs_bad (fst (step (fst (final st0 (fs_last st0) pre)) e)) <= threshold + linetime (s_chars e).
Proof. exact bad_bounds. Qed.

(* the upper bound is a consequence of the sleep: a caller that ignores the returned delay
   (monotone clock, but w < a' + ret) drives the penalty beyond every bound *)
Theorem C10_rule_needs_sleep : forall B, exists l,
  (forall e, In e l -> s_a e <= s_a2 e <= s_w e) /\ B < fs_bad (fst (final (fresh 0) 0 l)).
Proof. exact bad_unbounded_if_sleep_ignored. Qed.

(* the arithmetic stays inside int64 (the model ignores wrap-around) *)
Theorem C10_no_overflow : forall c, 0 <= c < 9000000000 ->
  0 <= c * second < 2 ^ 63 /\ 0 < linetime c < 2 ^ 62 /\ threshold + linetime c < 2 ^ 62.
Proof. exact no_overflow. Qed.

(* ---------- C10_window ---------- *)
(* any history pre ++ [line i] ++ mid ++ [line j] ++ post with honoured sleeps, from any
   start state with penalty <= 10 s: the total charge of lines i..j is at most the time
   between the writes of i and j plus 10 s plus the charges of lines i and i+1
   ([hd ej mid] is line i+1).  No assumption on scheduling delays beyond [honoured]. *)
Theorem C10_window : forall st0 pre e1 mid ej post,
  fs_bad st0 <= threshold ->
  honoured st0 (fs_last st0) (pre ++ e1 :: mid ++ ej :: post) ->
  charge (e1 :: mid ++ [ej])
  <= (s_w ej - s_w e1) + threshold + linetime (s_chars e1) + linetime (s_chars (hd ej mid)).
Proof. exact window_bound. Qed.

(* equivalent sharper reading: lines i+2..j are fully paid for by (w_j - w_i) + 10 s *)
Theorem C10_window_strong : forall st0 pre e1 mid ej post,
  fs_bad st0 <= threshold ->
  honoured st0 (fs_last st0) (pre ++ e1 :: mid ++ ej :: post) ->
  charge (tl (mid ++ [ej])) <= (s_w ej - s_w e1) + threshold.
Proof. exact window_strong. Qed.

(* the property's sentence, lengths up to 510: "... never exceeds the wall-clock time
   between the first and last write by more than 10 s plus two lines' charges" *)
Theorem C10_window_sentence : forall st0 pre e1 mid ej post,
  fs_bad st0 <= threshold ->
  honoured st0 (fs_last st0) (pre ++ e1 :: mid ++ ej :: post) ->
  Forall (fun e => s_chars e <= 510) (e1 :: mid ++ [ej]) ->
  charge (e1 :: mid ++ [ej]) <= (s_w ej - s_w e1) + 10 * second + 2 * linetime 510.
Proof. exact window_sentence. Qed.

(* the runtime oracle of the burst check is this theorem: every honoured history passes
   C10_window_ok with tolerance 0; C10_window_ok means window_spec; and write times
   measured late by at most tol (never early) cannot raise an alarm *)
Theorem C10_window_oracle : forall st0 l,
  fs_bad st0 <= threshold -> honoured st0 (fs_last st0) l ->
  C10_window_ok 0 (wire_obs l) = true.
Proof. exact window_oracle_holds. Qed.

Theorem C10_window_ok_says : forall tol ws, C10_window_ok tol ws = true <-> window_spec tol ws.
Proof. exact C10_window_ok_spec. Qed.

Theorem C10_window_tolerance : forall tol tws mws, 0 <= tol ->
  Forall2 (fun t m => fst t = fst m /\ snd t <= snd m <= snd t + tol) tws mws ->
  window_spec 0 tws -> window_spec tol mws.
Proof. exact window_spec_measured. Qed.

(* ---------- C10_flood_off ---------- *)
Theorem C10_flood_off : forall st a a' c, write_delay true st a a' c = (st, 0).
Proof. exact write_delay_flood. Qed.

Theorem C10_flood_on_is_rule : forall st a a' c, write_delay false st a a' c = rate_limit st a a' c.
Proof. exact write_delay_noflood. Qed.

(* ---------- a whole write(): the "hold" check ---------- *)
(* the counters write leaves behind are exactly those rateLimit computed: the sleep (or
   anything else in write) does not touch them; with Flood set they are not touched at all *)
Theorem C10_write_counters : forall st a a' c,
  fst (write_delay false st a a' c) = fst (rate_limit st a a' c)
  /\ fst (write_delay true st a a' c) = st.
Proof. exact write_counters. Qed.

(* window bound anchored at a known state: its penalty plus everything charged since never
   exceeds the time since its lastsent by more than 10 s *)
Theorem C10_anchored : forall st0 l e,
  fs_bad st0 <= threshold -> honoured st0 (fs_last st0) (l ++ [e]) ->
  fs_bad st0 + charge (l ++ [e]) <= (s_w e - fs_last st0) + threshold.
Proof. exact anchored_bound. Qed.

(* the runtime oracle of the hold check accepts every honoured two-line history as the
   harness observes it (arrival stamps late never early): noise cannot alarm *)
Theorem C10_hold_oracle : forall bad e1 e2 m1 r1 m2,
  fs_bad {| fs_bad := bad; fs_last := 0 |} <= threshold ->
  honoured {| fs_bad := bad; fs_last := 0 |} 0 [e1; e2] ->
  s_w e1 <= m1 -> s_w e1 <= r1 <= s_a e2 -> s_w e2 <= m2 ->
  let st1 := fst (step {| fs_bad := bad; fs_last := 0 |} e1) in
  let st2 := fst (step st1 e2) in
  C10_hold_ok (s_chars e1) bad (s_chars e2) (s_a2 e1) (fs_bad st1) m1 r1 (fs_bad st2) (s_a2 e2) m2 = true.
Proof. exact hold_oracle_holds. Qed.

(* ---------- a genuinely fresh client ---------- *)
(* from badness 0 and lastsent = creation time: the charges of lines 1..j never exceed the
   write time of line j (measured from the client's creation) by more than 10 s — no slack
   of two charges here, so the first line that takes the penalty over 10 s must wait *)
Theorem C10_fresh : forall created l e,
  honoured (fresh created) created (l ++ [e]) ->
  charge (l ++ [e]) <= (s_w e - created) + threshold.
Proof.
  intros created l e H.
  exact (anchored_bound (fresh created) l e ltac:(unfold fresh, threshold; cbn [fs_bad]; lia) H).
Qed.

Theorem C10_fresh_oracle : forall created l,
  0 <= created -> honoured (fresh created) created l -> C10_fresh_ok (wire_obs l) = true.
Proof. exact fresh_oracle_holds. Qed.

Theorem C10_fresh_tolerance : forall tws mws acc,
  Forall2 (fun t m => fst t = fst m /\ snd t <= snd m) tws mws ->
  fresh_from acc tws = true -> fresh_from acc mws = true.
Proof. exact fresh_from_late. Qed.

(* ---------- the one-call oracle ---------- *)
(* C10_ok accepts an observation of one rateLimit call iff some admissible pair of clock
   readings t0 <= a <= a' = t0+lastoff <= t0+slack makes the rule produce exactly it *)
Theorem C10_ok_says : forall t0 c b g s ret b' lo,
  C10_ok c b g s ret b' lo = true <->
  exists a, t0 <= a /\ a <= t0 + lo /\ lo <= s
            /\ rate_limit {| fs_bad := b; fs_last := t0 - g |} a (t0 + lo) c
               = ({| fs_bad := b'; fs_last := t0 + lo |}, ret).
Proof. exact C10_ok_iff. Qed.

(* ---------- examples ---------- *)
(* a burst of 6 lines of 50 characters from a fresh client, ideal scheduler: charge
   2.416666666 s each; requested delays per line — the 5th line is the first held back *)
Example C10_burst6 :
  map (fun x => snd (fst x)) (trace (fresh 0) (eager (fresh 0) 0 [50; 50; 50; 50; 50; 50]))
  = [0; 0; 0; 0; 2416666666; 2416666666]
  /\ map snd (trace (fresh 0) (eager (fresh 0) 0 [50; 50; 50; 50; 50; 50]))
     = [2416666666; 4833333332; 7249999998; 9666666664; 12083333330; 12083333330].
Proof. split; vm_compute; reflexivity. Qed.

(* the hypotheses of C10_window are satisfiable, non-trivially: that burst is an honoured
   history, and for i = 1, j = 6 the bound reads 14.5 s <= 4.83 s + 10 s + 2 * 2.42 s *)
Example C10_window_nonvacuous :
  let l := eager (fresh 0) 0 [50; 50; 50; 50; 50; 50] in
  honoured (fresh 0) 0 l
  /\ charge l = 14499999996
  /\ (s_w (last l instant_line) - s_w (hd instant_line l)) = 4833333332.
Proof.
  cbv zeta. split; [apply honouredb_spec; vm_compute; reflexivity|].
  split; vm_compute; reflexivity.
Qed.

(* the bound is attained: line 1 is accounted at time 0 but reaches the wire only at
   100 s (scheduling delay); six more empty lines follow at once, none is held back:
   7 lines, 14 s of charge, written at the same instant: 14 s = 0 + 10 s + 2 s + 2 s *)
Example C10_window_tight :
  let l := {| s_chars := 0; s_a := 0; s_a2 := 0; s_w := 100 * second |}
           :: repeat {| s_chars := 0; s_a := 100 * second; s_a2 := 100 * second; s_w := 100 * second |} 6 in
  honoured (fresh 0) 0 l
  /\ map (fun x => snd (fst x)) (trace (fresh 0) l) = [0; 0; 0; 0; 0; 0; 0]
  /\ charge l = 0 + threshold + linetime 0 + linetime 0.
Proof.
  cbv zeta. split; [apply honouredb_spec; vm_compute; reflexivity|].
  split; vm_compute; reflexivity.
Qed.

(* the oracle at the threshold: bad 8 s, 0 chars, gap exactly 0, slack 150 ns.  New penalty
   exactly 10 s = not held back is accepted; "held back with penalty 10 s" is rejected; a
   penalty 100 ns lower is explained by 100 ns of elapsed time, 200 ns lower is not. *)
Example C10_ok_examples :
  C10_ok 0 8000000000 0 150 0 10000000000 150 = true
  /\ C10_ok 0 8000000000 0 150 2000000000 10000000000 150 = false
  /\ C10_ok 0 8000000000 0 150 0 9999999900 150 = true
  /\ C10_ok 0 8000000000 0 150 0 9999999800 150 = false
  /\ C10_ok 0 8000000001 0 150 2000000000 10000000001 100 = true.
Proof. repeat split; vm_compute; reflexivity. Qed.

(* the hold oracle: penalty 9.7 s, two 1-byte lines.  Accepted: both lines held for
   2.008333333 s, counters as rateLimit left them.  Rejected: the same run with the first
   line's charge taken off again after the sleep ("conn.badness -= t": 9.699996 s instead of
   11.708329333 s), and a second line that arrives unheld 2.0 s early. *)
Example C10_hold_examples :
  C10_hold_ok 1 9700000000 1 5000 11708329333 2008438333 2008500000 11708067666 2008601000 4016984333 = true
  /\ C10_hold_ok 1 9700000000 1 5000 9699996000 2008438333 2008500000 9699734333 2008601000 2008651000 = false
  /\ C10_hold_ok 1 9700000000 1 5000 11708329333 2008438333 2008500000 11708067666 2008601000 2008651000 = false.
Proof. repeat split; vm_compute; reflexivity. Qed.

(* the fresh oracle: NICK (9 bytes), USER (24) and three 40-byte lines sent at once by a
   fresh client: 11.275 s of charge, so the 5th line may arrive no earlier than 1.275 s
   after creation.  Held for its charge (2.35 s): accepted; written at once: rejected. *)
Example C10_fresh_examples :
  C10_fresh_ok [(9, 1000000); (24, 1100000); (40, 1200000); (40, 1300000); (40, 2334733333)] = true
  /\ C10_fresh_ok [(9, 1000000); (24, 1100000); (40, 1200000); (40, 1300000); (40, 1400000)] = false.
Proof. split; vm_compute; reflexivity. Qed.

Print Assumptions tie_C10.
Print Assumptions C10_rule.
Print Assumptions C10_rule_charge.
Print Assumptions C10_rule_invariant.
Print Assumptions C10_rule_needs_sleep.
Print Assumptions C10_no_overflow.
Print Assumptions C10_window.
Print Assumptions C10_window_strong.
Print Assumptions C10_window_sentence.
Print Assumptions C10_window_oracle.
Print Assumptions C10_window_ok_says.
Print Assumptions C10_window_tolerance.
Print Assumptions C10_flood_off.
Print Assumptions C10_flood_on_is_rule.
Print Assumptions C10_ok_says.
Print Assumptions C10_write_counters.
Print Assumptions C10_anchored.
Print Assumptions C10_hold_oracle.

(* generated-code tie *)
(* Gen/GoFuncs.v holds the Gallina TRANSLATION of the Go body of Conn.rateLimit, regenerated
   from the source on every run (translator/go2coq.go): conn.badness and conn.lastsent are
   passed in and returned, the two time.Now() calls are the clock readings a, a' in order of
   evaluation; it is equal to the model rate_limit (Proofs/GenEqFlood.v). *)
From Verif Require Import GoFuncs GenEqFlood.
Theorem gen_C10_rateLimit : forall bad last chars a a',
  go_client_Conn_rateLimit bad last chars a a'
  = (let '(st', t) := rate_limit {| fs_bad := bad; fs_last := last |} a a' chars in
     Ok (fs_bad st', fs_last st', t)).
Proof. exact go_rateLimit_eq. Qed.
Print Assumptions gen_C10_rateLimit.
Print Assumptions C10_fresh.
Print Assumptions C10_fresh_oracle.
Print Assumptions C10_fresh_tolerance.

(* generated-code tie, stage 6: write.  Gen/GoFuncs.v holds the Gallina TRANSLATION of the Go body of
   the write method of Conn (client/connection.go): inputs are the receiver fields read (badness,
   cfg.Flood, lastsent), the line, the two clock readings of the rateLimit call and two ORACLES (the
   results of conn.io.WriteString and conn.io.Flush); outputs are the fields written and three
   effect channels — the durations waited for with time.After, the I/O calls in order, the
   OBSERVED logging calls — and the error.  It is equal to GenEqWrite.write_spec for every input
   (Proofs/GenEqWrite.v), and the flood aspect of that is Flood.write_delay: the state written
   back and the single sleep (none when the delay is 0), whatever the I/O calls return. *)
From Verif Require Import GenEqWrite.
Theorem gen_C10_write : forall flood bad last line a a' iow ioe,
  go_client_Conn_write bad flood last line a a' iow ioe
  = Ok (write_spec flood bad last line a a' iow ioe)
  /\ (let r := write_spec flood bad last line a a' iow ioe in
      let '(st', t) := write_delay flood {| fs_bad := bad; fs_last := last |} a a' (len line) in
      ws_state r = (fs_bad st', fs_last st') /\ ws_sleeps r = (if t =? 0 then [] else [t])).
Proof. intros. split; [apply go_write_eq|apply write_spec_flood]. Qed.
Print Assumptions gen_C10_write.
