(* Props/C20.v — C20: the connection password never reaches the log.

   "No record contains the password" is false for trivial reasons as a substring claim (the
   password "a" occurs in "NICK alice"; the password "PASS ****" occurs in the masked constant).
   The property is therefore stated as NON-INTERFERENCE on Model/LogModel.v: the stream of log
   records is a function of everything EXCEPT the bytes of the password.  What the stream may
   still depend on is stated, not hidden: with flood control on (cfg.Flood = false) the message
   "irc.rateLimit(): Flood! Sleeping for %.2f secs." prints a line's charge 2 s + len/120 s, and
   whether it is printed depends on the accumulated charges — hence on the LENGTH of the PASS
   line (C20_length_leaks shows the dependence is real).  Lengths are compared after cutNewLines,
   which is all of the password that is ever sent.

   All theorems hold for ANY rendering of %.2f and %q, ANY ParseLine and ANY handlers whose
   state is initialised from the configuration without the password (Section variables of the
   model); the environment (dial result, clock, failing write, server lines, read error) is
   universally quantified. *)
From Coq Require Import String.
From Verif Require Import GoBytes Split Commands Flood LogModel LogProofs Consts Facts.
Open Scope Z_scope.

(* ---------- ties to the source ---------- *)
(* the constant parts of the format strings the model hard-codes are the const-folded literals
   of the functions that log them, in source order: write (0, flood message, CRLF, "PASS", the
   mask, "-> %s"), recv, send, internalConnect, dialProxy, closeIf; Pass prepends "PASS " *)
Lemma tie_C20 :
  lits_client_Conn_write
  = [LInt 0; LStr (m_flood_pre ++ bs "%.2f" ++ m_flood_post); LStr crlf; LStr s_PASS;
     LStr s_masked; LStr (m_out ++ bs "%s")]
  /\ lits_client_Conn_recv
     = [LInt 10; LStr (m_recv_err ++ bs "%s"); LStr s_crlf; LStr (m_in ++ bs "%s");
        LStr (m_parse ++ bs "%s")]
  /\ lits_client_Conn_send = [LStr (m_send_err ++ bs "%s")]
  /\ lits_client_Conn_internalConnect
     = [LStr []; LStr (bs "irc.Connect(): cfg.Server must be non-empty");
        LStr (bs "irc.Connect(): Cannot connect to %s, already connected.");
        LStr port_ssl; LStr port_plain; LStr [];
        LStr (m_via_proxy ++ bs "%q" ++ m_colon_sp ++ bs "%v");
        LStr (m_connecting ++ bs "%s" ++ m_dot); LStr (bs "tcp"); LStr m_ssl; LBool true; LBool true]
  /\ lits_client_Conn_dialProxy
     = [LStr (m_url_err ++ bs "%v"); LStr (m_dialer_err ++ bs "%v");
        LStr (m_connecting ++ bs "%s" ++ m_dot); LStr (bs "tcp"); LStr m_no_ctx;
        LStr (m_connecting ++ bs "%s" ++ m_dot); LStr (bs "tcp")]
  /\ hd LOther lits_client_Conn_closeIf = LStr m_closed
  /\ lits_client_Conn_Pass = [LStr (s_PASS ++ s_sp)]
  /\ lits_client_hasPort = [LStr [58%N]; LStr [93%N]].
Proof. repeat split; vm_compute; reflexivity. Qed.

(* the only producer: Config.Pass is mentioned in exactly two functions — ConnectToContext,
   which only ASSIGNS it, and h_REGISTER, which hands it to conn.Pass -> conn.Raw ->
   cutNewLines -> conn.out; conn.out is received by send (-> write) and by the draining loops
   of closeIf/drainOut (value discarded); write tests the PASS prefix after Flush and before
   returning (the Debug call follows; logging calls are not part of the flow facts) *)
Definition uses_of (field : string) (l : list (string * string)) : list string :=
  map fst (filter (fun x => String.eqb (snd x) field) l).

Lemma C20_only_producer :
  uses_of "Pass" cfg_uses_client = ["Conn.ConnectToContext"; "Conn.h_REGISTER"]%string
  /\ uses_of "Pass" cfg_uses_state = []
  /\ flow_client_Conn_ConnectToContext
     = ["set conn.cfg.Server"; "if{"; "set conn.cfg.Pass"; "}"; "conn.ConnectContext"; "return"]%string
  /\ flow_client_Conn_h_REGISTER
     = ["if{"; "conn.Cap"; "}"; "if{"; "conn.Pass"; "}"; "conn.Nick"; "conn.User"]%string
  /\ flow_client_Conn_Pass = ["conn.Raw"]%string
  /\ flow_client_Conn_Raw = ["cutNewLines"; "send conn.out"]%string
  /\ uses_of "conn.out" chan_sends_client = ["Conn.Raw"]%string
  /\ uses_of "conn.out" chan_recvs_client = ["Conn.closeIf"; "Conn.drainOut"; "Conn.send"]%string
  /\ flow_client_Conn_write
     = ["if{"; "conn.rateLimit"; "if{"; "t.Seconds"; "time.After"; "recv time.After(t)"; "}"; "}";
        "conn.io.WriteString"; "if{"; "return"; "}"; "conn.io.Flush"; "if{"; "return"; "}";
        "strings.HasPrefix"; "if{"; "}"; "return"]%string.
Proof. repeat split; vm_compute; reflexivity. Qed.

(* every use of package logging in client/ and state/ (function, level, const-folded format,
   argument expressions), read off the AST: [log_calls_client], [log_calls_state].  The tie does
   NOT freeze the list (a new harmless warning must not break C20); it checks what the proof
   relies on:
     - every format is a constant string and every use is a call of Debug/Info/Warn/Error;
     - no argument expression mentions a password, the out queue or a raw outgoing line, and
       the only Config fields printed anywhere are Server, Proxy and LocalAddr;
     - write logs exactly the flood message (argument t.Seconds()) and "-> %s" of [line];
     - the functions the password travels through on its way to write (ConnectTo*, Connect*,
       h_REGISTER, Pass, Raw, cutNewLines) do not log at all, and send logs only err.Error() *)
Definition log_call := (string * string * string * list string)%type.
Definition lc_fn (c : log_call) : string := fst (fst (fst c)).
Definition lc_level (c : log_call) : string := snd (fst (fst c)).
Definition lc_fmt (c : log_call) : string := snd (fst c).
Definition lc_args (c : log_call) : list string := snd c.

Definition mentions (pat s : string) : bool :=
  match String.index 0 pat s with Some _ => true | None => false end.
Definition str_in (s : string) (l : list string) : bool := existsb (String.eqb s) l.

Definition arg_safe (a : string) : bool :=
  negb (mentions "Pass" a) && negb (mentions "pass" a) && negb (mentions "PASS" a)
  && negb (mentions "conn.out" a) && negb (mentions "rawline" a)
  && (negb (mentions "cfg" a) && negb (mentions "Config" a)
      || str_in a ["conn.cfg.Server"; "conn.cfg.Proxy"; "cfg.LocalAddr"]%string)
  (* nor a whole client object (its Config holds the password) *)
  && negb (String.eqb a "conn") && negb (String.eqb a "*conn").

Definition call_safe (c : log_call) : bool :=
  str_in (lc_level c) ["Debug"; "Info"; "Warn"; "Error"]%string
  && negb (mentions "<<" (lc_fmt c))
  && forallb arg_safe (lc_args c)
  (* a raw line variable is printed by write and recv only *)
  && (negb (str_in "line" (lc_args c)) || String.eqb (lc_fn c) "Conn.write").

Definition calls_of (fns : list string) (l : list log_call) : list log_call :=
  filter (fun c => str_in (lc_fn c) fns) l.

Lemma C20_log_sites :
  forallb call_safe log_calls_client = true
  /\ forallb call_safe log_calls_state = true
  /\ calls_of ["Conn.write"]%string log_calls_client
     = [("Conn.write", "Info", "irc.rateLimit(): Flood! Sleeping for %.2f secs.", ["t.Seconds()"]);
        ("Conn.write", "Debug", "-> %s", ["line"])]%string
  /\ calls_of ["Conn.send"]%string log_calls_client
     = [("Conn.send", "Error", "irc.send(): %s", ["err.Error()"])]%string
  /\ calls_of ["Conn.ConnectTo"; "Conn.ConnectToContext"; "Conn.Connect"; "Conn.ConnectContext";
               "Conn.h_REGISTER"; "Conn.Pass"; "Conn.Raw"; "cutNewLines"; "Conn.rateLimit"]%string
              log_calls_client = []
  /\ map lc_args (calls_of ["Conn.recv"]%string log_calls_client)
     = [["err.Error()"]; ["s"]; ["s"]]%string.
Proof. repeat split; vm_compute; reflexivity. Qed.

(* ---------- C20_masked ---------- *)
(* the record of the PASS line is exactly the masked constant, for EVERY password (empty,
   containing CR/LF, starting with spaces or a colon, ...) *)
Theorem C20_masked : forall p,
  out_rec (raw (s_PASS ++ s_sp ++ p)) = (LDebug, bs "-> PASS **************").
Proof. exact out_rec_pass_line. Qed.

(* ... and that is all write logs for it, apart from a flood message that is a function of the
   delay only *)
Theorem C20_masked_write : forall fmt_secs w st p,
  ss_dead st = false -> wfail_at w (ss_k st) = None ->
  exists frecs, fst (write_one fmt_secs w st (pass_line p)) = frecs ++ [masked_rec]
                /\ (frecs = [] \/ exists t, frecs = [flood_rec fmt_secs t]).
Proof. exact write_pass_masked. Qed.

(* when the write fails, the line is not logged at all: the error text comes from the socket *)
Theorem C20_failed_write : forall fmt_secs w st line e,
  ss_dead st = false -> wfail_at w (ss_k st) = Some e ->
  exists frecs, fst (write_one fmt_secs w st line)
                = frecs ++ [(LError, m_send_err ++ e); (LInfo, m_closed)]
                /\ (frecs = [] \/ exists t, frecs = [flood_rec fmt_secs t]).
Proof. exact write_fail_silent. Qed.

(* ---------- C20_noninterference ---------- *)
(* every configuration (negotiation, tracking, proxy, SSL on or off), every environment
   (failing dial, failing handshake, failing write, any server lines, EOF or read error, any
   clock, any initial flood state), any two non-empty passwords: with flood control OFF
   (cfg.Flood = true) the streams are equal outright; with flood control on they are equal when
   the two passwords have the same length after cutNewLines *)
Theorem C20_noninterference :
  forall fmt_secs quote parse_fn hstate (h_init : pubcfg -> hstate) handle c e p1 p2,
  p1 <> [] -> p2 <> [] ->
  (pc_flood (lc_pub c) = true \/ len (cut_newlines p1) = len (cut_newlines p2)) ->
  run_session fmt_secs quote parse_fn hstate h_init handle (with_pass c p1) e
  = run_session fmt_secs quote parse_fn hstate h_init handle (with_pass c p2) e.
Proof. exact noninterference. Qed.

(* flood control on, passwords of ANY lengths: while the registration lines are charged at most
   10 s in total nothing about the length shows either (a session in which the server sends
   nothing, e.g. it closes the connection at once; monotone clock) *)
Theorem C20_noninterference_registration :
  forall fmt_secs quote parse_fn hstate (h_init : pubcfg -> hstate) handle c e p1 p2,
  p1 <> [] -> p2 <> [] ->
  pc_flood (lc_pub c) = false -> ev_wfail e = None -> ev_lines e = [] ->
  (forall k prev, 0 <= fst (ev_clock e k prev)) ->
  0 <= fs_bad (ev_fs0 e) ->
  fs_bad (ev_fs0 e) + charge_lines (reg_lines (with_pass c p1)) <= threshold ->
  fs_bad (ev_fs0 e) + charge_lines (reg_lines (with_pass c p2)) <= threshold ->
  run_session fmt_secs quote parse_fn hstate h_init handle (with_pass c p1) e
  = run_session fmt_secs quote parse_fn hstate h_init handle (with_pass c p2) e.
Proof. exact noninterference_registration. Qed.

(* ---------- concrete material for the examples ---------- *)
Definition ex_pub (neg flood : bool) : pubcfg :=
  {| pc_nick := bs "vbot"; pc_ident := bs "vident"; pc_name := bs "v name";
     pc_server := bs "irc.example"; pc_proxy := []; pc_ssl := false;
     pc_neg := neg; pc_track := true; pc_flood := flood |}.
Definition ex_env (ls : list bytes) : env :=
  {| ev_dial := DDial true None; ev_tls := None; ev_fs0 := fresh 0; ev_clock := eager_clock;
     ev_wfail := None; ev_lines := ls; ev_end := None |}.
Definition ex_cfg (neg flood : bool) (p : bytes) : lcfg := {| lc_pub := ex_pub neg flood; lc_pass := p |}.

(* the hypothesis of C20_noninterference_registration is satisfiable: a fresh client with
   negotiation on and a 180-byte password is charged 9.87 s for CAP LS, PASS, NICK, USER *)
Example C20_registration_charge :
  charge_lines (reg_lines (ex_cfg true false (repeat 97%N 180))) = 9866666666
  /\ 9866666666 <= threshold.
Proof. split; [vm_compute; reflexivity|unfold threshold; lia]. Qed.

(* the length hypothesis of C20_noninterference cannot be dropped when flood control is on:
   fresh client, negotiation on, ideal clock; with a 1-byte password no line is delayed, with
   a 200-byte password the USER line is (10.03 s of charges) and the log says so *)
Theorem C20_length_leaks : exists c e p1 p2,
  p1 <> [] /\ p2 <> [] /\ pc_flood (lc_pub c) = false
  /\ run_concrete fmt_secs_ascii (with_pass c p1) e <> run_concrete fmt_secs_ascii (with_pass c p2) e
  /\ In (LInfo, bs "irc.rateLimit(): Flood! Sleeping for 2.20 secs.")
        (run_concrete fmt_secs_ascii (with_pass c p2) e).
Proof.
  exists (ex_cfg true false []), (ex_env []), [97%N], (repeat 97%N 200).
  split; [discriminate|]. split; [discriminate|]. split; [reflexivity|].
  split; [vm_compute; discriminate|].
  vm_compute. right; right; right; right; left; reflexivity.
Qed.

(* ---------- C20_ok: the runtime oracle holds of the model ---------- *)
(* for passwords that "cannot occur by accident" — neither occurs (no 8-byte window of it, if
   it has at least 16 bytes) in the stream produced with the OTHER one — the oracle accepts the
   model's pair of streams; [handle] may log anything except fake "-> PASS..." Debug records *)
Theorem C20_ok_model :
  forall fmt_secs quote parse_fn hstate (h_init : pubcfg -> hstate) handle,
  (forall hs l, pass_masked (fst (fst (handle hs l))) = true) ->
  forall c e p1 p2,
  p1 <> [] -> p2 <> [] ->
  (pc_flood (lc_pub c) = true \/ len (cut_newlines p1) = len (cut_newlines p2)) ->
  no_secret p1 (run_session fmt_secs quote parse_fn hstate h_init handle (with_pass c p2) e) = true ->
  no_secret p2 (run_session fmt_secs quote parse_fn hstate h_init handle (with_pass c p1) e) = true ->
  C20_ok p1 p2 (run_session fmt_secs quote parse_fn hstate h_init handle (with_pass c p1) e)
               (run_session fmt_secs quote parse_fn hstate h_init handle (with_pass c p2) e) = true.
Proof. exact ok_model. Qed.

(* the executable instance used by the correspondence check satisfies the side condition *)
Theorem C20_ok_concrete : forall fs c e p1 p2,
  p1 <> [] -> p2 <> [] ->
  (pc_flood (lc_pub c) = true \/ len (cut_newlines p1) = len (cut_newlines p2)) ->
  no_secret p1 (run_concrete fs (with_pass c p2) e) = true ->
  no_secret p2 (run_concrete fs (with_pass c p1) e) = true ->
  C20_ok p1 p2 (run_concrete fs (with_pass c p1) e) (run_concrete fs (with_pass c p2) e) = true.
Proof.
  intros fs. unfold run_concrete. apply ok_model. intros hs l. apply c_handle_masked.
Qed.

(* the oracle is not vacuous: it rejects a stream that carries the password ... *)
Example C20_ok_rejects_leak :
  let p1 := bs "hunter2hunter2hunter2" in let p2 := bs "0123456789abcdefghijk" in
  C20_ok p1 p2 [(LDebug, bs "-> PASS hunter2hunter2hunter2")] [(LDebug, bs "-> PASS 0123456789abcdefghijk")] = false
  /\ C20_ok p1 p2 [(LError, bs "irc.send(): write PASS hunter2hunter2hunter2: broken pipe")]
                  [(LError, bs "irc.send(): write PASS **************: broken pipe")] = false
  (* ... an unmasked PASS record even of a short password, and a stream that differs *)
  /\ C20_ok (bs "a") (bs "b") [(LDebug, bs "-> PASS a")] [(LDebug, bs "-> PASS a")] = false
  /\ C20_ok (bs "a") (bs "b") [(LWarn, bs "x a")] [(LWarn, bs "x b")] = false.
Proof. repeat split; vm_compute; reflexivity. Qed.

(* ---------- a concrete session ---------- *)
(* negotiation and tracking on, flood control off, password "hunter2hunter2hunter2"; the
   server answers CAP LS, welcomes, pings, refuses the nick, sends an unparsable line *)
Definition ex_lines : list bytes :=
  [bs ":irc.example CAP * LS :multi-prefix";
   bs ":irc.example 001 vbot :Welcome vbot!vident@host";
   bs "PING :abc";
   bs ":irc.example 433 * vbot :Nickname is already in use";
   bs "   "].

Example C20_example_session :
  run_concrete fmt_secs_ascii (ex_cfg true true (bs "hunter2hunter2hunter2")) (ex_env ex_lines)
  = [(LInfo, bs "irc.Connect(): Connecting to irc.example:6667.");
     (LDebug, bs "-> CAP LS");
     (LDebug, bs "-> PASS **************");
     (LDebug, bs "-> NICK vbot");
     (LDebug, bs "-> USER vident 12 * :v name");
     (LDebug, bs "<- :irc.example CAP * LS :multi-prefix");
     (LDebug, bs "-> CAP END");
     (LDebug, bs "<- :irc.example 001 vbot :Welcome vbot!vident@host");
     (LWarn, bs "Tracker.ReNick(): vbot already exists.");
     (LDebug, bs "<- PING :abc");
     (LDebug, bs "-> PONG :abc");
     (LDebug, bs "<- :irc.example 433 * vbot :Nickname is already in use");
     (LDebug, bs "-> NICK vbou");
     (LDebug, bs "<-    ");
     (LWarn, bs "irc.recv(): problems parsing line:" ++ [10%N] ++ bs "     ");
     (LInfo, bs "irc.Close(): Disconnected from server.")].
Proof. vm_compute. reflexivity. Qed.

(* the hypotheses of C20_ok_concrete are satisfiable, and its conclusion computes *)
Example C20_example_pair :
  let p1 := bs "hunter2hunter2hunter2" in let p2 := bs "0123456789abcdefghijk" in
  let c := ex_cfg true false [] in let e := ex_env ex_lines in
  no_secret p1 (run_concrete fmt_secs_ascii (with_pass c p2) e) = true
  /\ no_secret p2 (run_concrete fmt_secs_ascii (with_pass c p1) e) = true
  /\ len (cut_newlines p1) = len (cut_newlines p2)
  /\ C20_ok p1 p2 (run_concrete fmt_secs_ascii (with_pass c p1) e)
                  (run_concrete fmt_secs_ascii (with_pass c p2) e) = true.
Proof. repeat split; vm_compute; reflexivity. Qed.

(* failing connections: a refused dial through a proxy logs the error text, never the password *)
Example C20_example_dial_error :
  run_concrete fmt_secs_ascii
    {| lc_pub := {| pc_nick := bs "vbot"; pc_ident := bs "vident"; pc_name := bs "v name";
                    pc_server := bs "irc.example"; pc_proxy := bs "socks5://127.0.0.1:9";
                    pc_ssl := true; pc_neg := false; pc_track := false; pc_flood := false |};
       lc_pass := bs "hunter2hunter2hunter2" |}
    {| ev_dial := DDial false (Some (bs "connection refused")); ev_tls := None; ev_fs0 := fresh 0;
       ev_clock := eager_clock; ev_wfail := None; ev_lines := []; ev_end := None |}
  = [(LWarn, bs "Dialer for proxy does not support context, please implement DialContext");
     (LInfo, bs "irc.Connect(): Connecting to irc.example:6697.");
     (LInfo, bs "irc.Connect(): Connecting via proxy ""socks5://127.0.0.1:9"": connection refused")].
Proof. vm_compute. reflexivity. Qed.

Print Assumptions tie_C20.
Print Assumptions C20_only_producer.
Print Assumptions C20_log_sites.
Print Assumptions C20_masked.
Print Assumptions C20_masked_write.
Print Assumptions C20_failed_write.
Print Assumptions C20_noninterference.
Print Assumptions C20_noninterference_registration.
Print Assumptions C20_length_leaks.
Print Assumptions C20_ok_model.
Print Assumptions C20_ok_concrete.

(* generated-code tie, stage 6: the PASS mask.  The Gallina TRANSLATION of the write method of Conn
   (Gen/GoFuncs.v; see gen_C10_write in Props/C10.v) OBSERVES its logging.Debug call instead of
   dropping it: the record (level, format, string arguments) is an output.  It is emitted only
   after both I/O calls succeeded, its format is "-> %s" and its argument is the MASKED line —
   the model's out_rec is that record formatted (m_out is the format's prefix). *)
From Verif Require Import GoFuncs GenEqWrite.
Theorem gen_C20_write_mask : forall flood bad last line a a' iow ioe,
  exists r, go_client_Conn_write bad flood last line a a' iow ioe = Ok r
  /\ ws_logs r = (if snd iow || ioe then [] else [(lv_Debug, fmt_out, [mask line])])
  /\ out_rec line = (LDebug, m_out ++ mask line)
  /\ fmt_out = m_out ++ [37; 115]%N.
Proof.
  intros. eexists. split; [apply go_write_eq|]. split; [apply write_spec_log|]. split; reflexivity.
Qed.
Print Assumptions gen_C20_write_mask.
