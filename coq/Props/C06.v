(* Props/C06.v — C06: lifecycle events fire exactly once and agree with Connected().
   All theorems are about the LTS of Model/LifecycleLts.v in the shape connection.go has
   today ([fstep]), for EVERY schedule, any programs of the application's goroutines, any
   behaviour of the server end and of the connect context. *)
From Coq Require Import List Arith Bool String.
From Verif Require Import Lts LifecycleLts LifecycleBase LifecycleInv LifecycleInvC LifecycleInvE
  LifecycleThms LifecycleRefuted Consts Facts.
Import ListNotations.
Local Open Scope nat_scope.

(* tie: the skeleton the model encodes is the one in the source today.
   - internalConnect: lock; both guards return BEFORE conn.initialise (moving initialise above
     them breaks the first conjunct); ...; postConnect; setConnected; return
   - ConnectContext dispatches REGISTER only after internalConnect, outside the lock
   - closeIf: test under the lock; setConnected(false); sock.Close; die; go waiter; the blocking
     drain select; Unlock; dispatch(DISCONNECTED)
   - Connected() reads the flag under connectedMu, never under conn.mu *)
Lemma tie_C06 :
  firstn 9 flow_client_Conn_internalConnect
    = ["conn.mu.Lock"; "defer conn.mu.Unlock"; "if{"; "return"; "}"; "if{"; "return"; "}"; "conn.initialise"]%string
  /\ skipn (List.length flow_client_Conn_internalConnect - 3) flow_client_Conn_internalConnect
    = ["conn.postConnect"; "conn.setConnected"; "return"]%string
  /\ flow_client_Conn_ConnectContext
    = ["conn.internalConnect"; "if{"; "conn.dispatch"; "time.Now"; "}"; "return"]%string
  /\ flow_client_Conn_Close = ["conn.closeIf"; "return"]%string
  /\ flow_client_Conn_closeIf
    = ["conn.mu.Lock"; "if{"; "conn.mu.Unlock"; "return"; "}"; "conn.setConnected"; "conn.sock.Close";
       "if{"; "conn.die"; "}"; "go func"; "{"; "conn.wg.Wait"; "close"; "}"; "for{"; "select{"; "case";
       "recv conn.in"; "case"; "recv conn.out"; "case"; "recv done"; "}"; "}"; "conn.mu.Unlock";
       "conn.dispatch"; "time.Now"; "return"]%string
  /\ flow_client_Conn_initialise
    = ["set conn.io"; "set conn.sock"; "set conn.in"; "set conn.out"; "set conn.die"; "if{"; "conn.st.Wipe"; "}"]%string
  /\ flow_client_Conn_Connected = ["conn.connectedMu.RLock"; "defer conn.connectedMu.RUnlock"; "return"]%string
  /\ flow_client_Conn_setConnected = ["conn.connectedMu.Lock"; "set conn.connected"; "conn.connectedMu.Unlock"]%string
  (* ... and the CONDITIONS, as source text: the test of closeIf (C1), the two guards of
     internalConnect (K1) and the dial-error tests (K3), REGISTER only when err == nil *)
  /\ conds_client_Conn_closeIf
    = ["!conn.connected || (rw != nil && rw != conn.io)"; "conn.die != nil"; "for !drained"]%string
  /\ conds_client_Conn_internalConnect
    = ["conn.cfg.Server == """""; "conn.connected"; "!hasPort(conn.cfg.Server)"; "conn.cfg.SSL";
       "conn.cfg.Proxy != """""; "err != nil"; "err == nil"; "conn.cfg.SSL"; "err != nil"]%string
  /\ conds_client_Conn_ConnectContext = ["err == nil"]%string
  /\ conds_client_Conn_initialise = ["conn.st != nil"]%string
  /\ conds_client_Conn_Close = [] /\ conds_client_Conn_Connected = [] /\ conds_client_Conn_setConnected = [].
Proof. repeat split; vm_compute; reflexivity. Qed.

Notation reach hm hl w sched := (run (fstep hm hl) (init w) sched).

(* the runtime oracle's prefix-closed part holds on every history of the model *)
Theorem C06_history_ok : forall hm hl w sched, C06_safe (hist (reach hm hl w sched)) = true.
Proof. exact safe6_run. Qed.

(* invariant I4: at most one closer is between the teardown and the unlock, it holds conn.mu,
   connected = false there; DISCONNECTED(g) is dispatched at most once, and exactly once as
   soon as the closer that passed the test with conn.io = g has released the lock *)
Theorem C06_disconnected_once : forall hm hl w sched g,
  let s := reach hm hl w sched in
  NoDup (discs (hist s))
  /\ (In g (discs (hist s)) <->
      In g (tds (hist s))
      /\ ~ exists t c id ret, pcs s t = PClose c id ret /\ cgen c = Some g /\ pre_disc c = true).
Proof. exact disconnected_once. Qed.

Theorem C06_closer_unique : forall hm hl w sched t1 t2 g1 g2,
  let s := reach hm hl w sched in
  td_pc (pcs s t1) = Some g1 -> td_pc (pcs s t2) = Some g2 ->
  t1 = t2 /\ mu s = Some t1 /\ connected s = false /\ cur s = g1.
Proof. exact closer_unique. Qed.

Theorem C06_lifecycle_order : forall hm hl w sched,
  let h := hist (reach hm hl w sched) in
  NoDup (ests h) /\ NoDup (tds h) /\ NoDup (regs h) /\ NoDup (retoks h)
  /\ (forall g, In g (tds h) -> In g (ests h)) /\ (forall g, In g (discs h) -> In g (tds h))
  /\ (forall g, In g (regs h) -> In g (ests h)) /\ (forall g, In g (retoks h) -> In g (regs h)).
Proof. exact lifecycle_order. Qed.

(* a Connect that returns nil established its generation itself and REGISTER(g) was dispatched
   (once: NoDup regs) before it returned *)
Theorem C06_register_once : forall hm hl w sched h1 h2 t g,
  hist (reach hm hl w sched) = h1 ++ EConnRet t (Some g) :: h2 ->
  In (EEstab g t) h1 /\ In g (regs h1) /\ ~ In g (retoks h1).
Proof. exact register_once. Qed.

(* a Connect that returns an error fired no event ... *)
Theorem C06_failed_connect_no_event : forall hm hl w sched h1 h2 t,
  hist (reach hm hl w sched) = h1 ++ EConnRet t None :: h2 -> is_call (last_conn t h1) = true.
Proof. exact failed_connect_no_event. Qed.

(* ... and a REFUSED one (no server / already connected) changed nothing but its own program
   counter and the mutex: every other component of the state is untouched *)
Theorem C06_failed_connect_frame : forall hm hl s t ck inh ret ch s',
  pcs s t = PConn K1 ck inh ret -> is_env t = false ->
  ck = CkNoServer \/ connected s = true ->
  fstep hm hl s (t, ch) = Some s' ->
  s' = setpc t (fin_pc inh ret) (log (EConnRet t None) (set_mu None s)).
Proof.
  intros hm hl s t ck inh ret ch s' Hp He Hr H. unfold fstep, lstep in H. rewrite Hp, He in H.
  cbn in H. destruct Hr as [->|Hc]; [|rewrite Hc, orb_true_r in H]; cbn in H; congruence.
Qed.
Theorem C06_connect_lock_frame : forall hm hl s t ck inh ret ch s',
  pcs s t = PConn K0 ck inh ret -> fstep hm hl s (t, ch) = Some s' ->
  s' = setpc t (PConn K1 ck inh ret) (set_mu (Some t) s).
Proof.
  intros hm hl s t ck inh ret ch s' Hp H. unfold fstep, lstep in H. rewrite Hp in H.
  destruct (is_env t); [discriminate|]. cbn in H. destruct (mu s); [discriminate|]. congruence.
Qed.

(* in the pinned shape (initialise before the guards) the refused Connect nils conn.io and
   replaces both queues of the live connection: defect D4 *)
Theorem C06_failed_connect_refuted :
  exists w sched,
    let s := run (lstep P_init_first) (init w) sched in
    hist s = [EConnCall u0; EEstab 1 u0; EReg 1; ESample SReg 1 true; EConnRet u0 (Some 1);
              EConnCall u0; EConnRet u0 None]
    /\ connected s = true /\ cur s = 0 /\ in_ref s = 2 /\ out_ref s = 2.
Proof. exact failed_connect_refuted. Qed.

(* Connected(): false inside DISCONNECTED handlers unless somebody has connected again; true
   inside REGISTER / CONNECTED (line) handlers unless a teardown of that connection or an
   ender of it precedes the sample *)
Theorem C06_flags : forall hm hl w sched h1 h2 k g b,
  hist (reach hm hl w sched) = h1 ++ ESample k g b :: h2 ->
  match k with
  | SDisc => b = false \/ exists g', In g' (ests h1) /\ g < g'
  | SReg | SLine => b = true \/ In g (tds h1) \/ In g (enders h1)
  | SUser => True
  end.
Proof. exact flags. Qed.

(* Close on a client that is not connected does nothing *)
Theorem C06_close_idle : forall hm hl s t id ret ch s',
  pcs s t = PClose C1 id ret -> is_env t = false -> connected s = false ->
  fstep hm hl s (t, ch) = Some s' ->
  s' = setpc t (PClose C8 id ret) (set_mu None s).
Proof.
  intros hm hl s t id ret ch s' Hp He Hc H. unfold fstep, lstep in H. rewrite Hp, He in H.
  cbn in H. rewrite Hc in H. cbn in H. congruence.
Qed.

(* non-vacuity: a full lifecycle (Connect; Close with the goroutines winding down) and what the
   predicates say about it *)
Example C06_nonvacuous :
  let w := mkw [[OpConnect (CkOk false); OpClose]] (fun _ => 0) (fun _ => 0) in
  let s := reach 3 true w
      (rep 14 (u0,0) ++ [(Recv 1,0);(Recv 1,1);(Recv 1,0);(Loop 1,0);(Loop 1,0);(Loop 1,0);(Send 1,0);
                         (Send 1,0);(Send 1,0);(Waiter 1,0);(u0,2)] ++ rep 6 (u0,0)) in
  hist s = [EConnCall u0; EEstab 1 u0; EReg 1; ESample SReg 1 true; EConnRet u0 (Some 1);
            ECloseCall u0; ETeardown 1 u0; EDisc 1; ESample SDisc 1 false; ECloseRet u0]
  /\ C06_ok true (hist s) = true /\ connected s = false /\ mu s = None.
Proof. vm_compute. repeat split. Qed.

Print Assumptions C06_history_ok.
Print Assumptions C06_disconnected_once.
Print Assumptions C06_closer_unique.
Print Assumptions C06_lifecycle_order.
Print Assumptions C06_register_once.
Print Assumptions C06_failed_connect_no_event.
Print Assumptions C06_failed_connect_frame.
Print Assumptions C06_failed_connect_refuted.
Print Assumptions C06_flags.
Print Assumptions C06_close_idle.
