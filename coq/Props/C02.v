(* Props/C02.v — C02: no input from the server can crash the client or stop it processing.
   Property theorems only; each is closed by [exact] of a lemma proved in Proofs/. *)
From Verif Require Import GoBytes LineLib Line RecvSession GoBytesFacts LineTotal RecvSessionProofs Consts Facts.
From Coq Require Import String.
Notation length := List.length.
Open Scope Z_scope.

(* tie: the literals the model of client/line.go hard-codes are, in source order, the ones the
   translator reads off ParseLine / parseUserHost / Public / Target / Text and the
   initialiser of [var tagsReplacer] today; and the two source facts the session theorems
   lean on: hNode.Handle is [defer conn.cfg.Recover; handler.Handle], and recv's body calls
   only ReadString / Trim / ParseLine / channel send (plus logging, Done/closeIf on exit). *)
Definition zc (c : N) : lit := LInt (Z.of_N c).
Definition pair_lits (p : bytes * bytes) : list lit := [LStr (fst p); LStr (snd p)].

Lemma tie_C02 :
  [const_client_PRIVMSG; const_client_NOTICE; const_client_ACTION; const_client_CTCP; const_client_CTCPREPLY]
    = [cmd_PRIVMSG; cmd_NOTICE; cmd_ACTION; cmd_CTCP; cmd_CTCPREPLY]
  /\ varlits_client_tagsReplacer = flat_map pair_lits tags_pairs
  /\ lits_client_ParseLine =
       [LStr []; LInt 0; zc c_at; LStr s_space; LInt (-1); LInt 1; LInt 1;          (* s == "", s[0]=='@', Index " ", s[1:idx], s[idx+1:] *)
        LStr [c_semi]; LStr []; LStr s_eq; LInt 2; LInt 2; LStr []; LInt 0; LInt 1;   (* Split ";", tag=="", SplitN "=" 2, len<2, Tags[tag]="", pair[0], pair[1] *)
        LStr []; LInt 0; zc c_colon; LStr s_space; LInt (-1); LInt 1; LInt 1;       (* s == "", s[0]==':', Index " ", slices *)
        LStr s_space_colon; LInt 2; LInt 0; LInt 0; LInt 1; LInt 1;                 (* SplitN " :" 2, args[0], len(fields)==0, len(args)>1, args[1] *)
        LInt 0; LInt 1; LInt 1;                                                     (* args[0], len(args)>1, args[1:] *)
        LStr cmd_PRIVMSG; LStr cmd_NOTICE; LInt 1; LInt 1; LInt 2; LInt 1; LStr s_soh; LInt 1; LStr s_soh;
        LInt 1; LStr s_soh; LStr s_space; LInt 2; LInt 1; LInt 1; LInt 1; LInt 0;   (* Trim, SplitN " " 2, len(t)>1, Args[1]=t[1], t[0] *)
        LStr cmd_ACTION; LStr cmd_PRIVMSG; LStr cmd_PRIVMSG; LStr cmd_CTCP; LStr cmd_CTCPREPLY]
  /\ lits_client_parseUserHost =
       [LStr s_bang; LStr s_at; LInt (-1); LInt (-1); LStr []; LStr []; LStr []; LBool false; LInt 1; LInt 1; LBool true]
  /\ lits_client_Line_Public =
       [LStr cmd_PRIVMSG; LStr cmd_NOTICE; LStr cmd_ACTION; LInt 1; LInt 0; LStr []; LBool false; LInt 0; LInt 0;
        zc c_hash; zc c_amp; zc c_plus; zc c_bang; LBool true;
        LStr cmd_CTCP; LStr cmd_CTCPREPLY; LInt 2; LInt 1; LStr []; LBool false; LInt 1; LInt 0;
        zc c_hash; zc c_amp; zc c_plus; zc c_bang; LBool true; LBool false]
  /\ lits_client_Line_Target =
       [LStr cmd_PRIVMSG; LStr cmd_NOTICE; LStr cmd_ACTION; LStr cmd_CTCP; LStr cmd_CTCPREPLY; LInt 1; LInt 0; LInt 0; LStr []]
  /\ lits_client_Line_Text = [LInt 0; LInt 1; LStr []]
  /\ flow_client_hNode_Handle = ["defer conn.cfg.Recover"; "hn.handler.Handle"]%string
  /\ flow_client_Conn_recv =
       ["for{"; "rw.ReadString"; "if{"; "if{"; "err.Error"; "}"; "conn.wg.Done"; "conn.closeIf"; "return"; "}";
        "strings.Trim"; "ParseLine"; "if{"; "time.Now"; "send conn.in"; "}"; "else{"; "}"; "}"]%string.
Proof. repeat split; vm_compute; reflexivity. Qed.

(* ---------- the parser ---------- *)

(* ParseLine cannot panic: for EVERY byte string, and for ANY behaviour of strings.Fields,
   strings.ToUpper and strings.TrimSpace (no hypothesis on them is needed) *)
Theorem C02_parse_total_any : forall fields_fn upper_fn trim_space_fn (s : bytes),
  parse_with fields_fn upper_fn trim_space_fn s <> Panic.
Proof. exact parse_with_total. Qed.

Theorem C02_parse_total : forall s : bytes, parse s <> Panic.
Proof. exact parse_total. Qed.

(* ... including the Trim "\r\n" of recv in front of it *)
Theorem C02_recv_one_total : forall s : bytes, recv_one s <> Panic.
Proof. exact recv_one_total. Qed.

(* Text / Target / Public cannot panic on a parsed line ... *)
Theorem C02_accessors_total : forall s l, parse s = Ok (Some l) ->
  text l <> Panic /\ target l <> Panic /\ public l <> Panic.
Proof. intros s l _. exact (accessors_total l). Qed.

(* ... in fact on ANY Line value whatsoever (hand-built by user code, CTCP with one argument, ...) *)
Theorem C02_accessors_total_any : forall l : line, text l <> Panic /\ target l <> Panic /\ public l <> Panic.
Proof. exact accessors_total. Qed.

(* the runtime oracle [C02_ok] holds of every model run (same predicate judges the real code) *)
Theorem C02_oracle_model : forall fields_fn upper_fn trim_space_fn s,
  C02_ok (c02_flags_with (parse_with fields_fn upper_fn trim_space_fn) s) = true.
Proof. exact c02_flags_with_ok. Qed.

(* ---------- the session ---------- *)

(* a handler panic is contained by the deferred Recover, whatever the handlers are *)
Theorem C02_handlers_contained : forall (hs : bytes -> list handler) l,
  dispatch_line hs recovering l <> Panic.
Proof. exact dispatch_recovering_total. Qed.

(* every line a server sends is Rejected or Dispatched, never CRASH *)
Theorem C02_session : forall ls, ~ In CRASH (map classify ls).
Proof. exact classify_no_crash. Qed.

Theorem C02_session_handlers : forall (hs : bytes -> list handler) ls,
  ~ In CRASH (recv_loop hs recovering ls) /\ length (recv_loop hs recovering ls) = length ls.
Proof. intros hs ls. split; [apply recv_loop_no_crash|apply recv_loop_length]. Qed.

(* later lines are still processed, in wire order *)
Theorem C02_in_order : forall (hs : bytes -> list handler) ls,
  map Some (dispatched (recv_loop hs recovering ls)) = map parsed (filter parses ls).
Proof. exact recv_loop_in_order. Qed.

Theorem C02_session_alive : forall (hs : bytes -> list handler) ls,
  C02_session_ok (session_alive hs ls) = true.
Proof. exact session_alive_true. Qed.

(* the containment really rests on the wrapper: without it "PING" kills an h_PING-like handler *)
Theorem C02_recover_needed :
  step_line (fun _ => [h_first_arg]) unprotected [80; 73; 78; 71]%N = CRASH
  /\ exists l, step_line (fun _ => [h_first_arg]) recovering [80; 73; 78; 71]%N = Dispatched l [true].
Proof. exact recover_needed. Qed.

(* ---------- the inputs that crashed the pinned tree, evaluated ---------- *)
Definition mk (cmd raw : bytes) (args : list bytes) : line :=
  {| l_tags := None; l_nick := []; l_ident := []; l_host := []; l_src := [];
     l_cmd := cmd; l_raw := raw; l_args := args |}.
Definition acc (s : bytes) : option (res bytes * res bytes * res bool) :=
  match parse s with Ok (Some l) => Some (text l, target l, public l) | _ => None end.

Definition in_at_a_sp : bytes := [64; 97; 32]%N.   (* "@a " *)
Definition in_src_sp : bytes := [58; 115; 114; 99; 32]%N.   (* ":src " *)
Definition in_sp : bytes := [32]%N.   (* " " *)
Definition in_privmsg : bytes := [80; 82; 73; 86; 77; 83; 71]%N.   (* "PRIVMSG" *)
Definition in_privmsg_x : bytes := [80; 82; 73; 86; 77; 83; 71; 32; 120]%N.   (* "PRIVMSG x" *)
Definition in_odd_src : bytes := [58; 97; 64; 98; 33; 99; 32; 88]%N.   (* ":a@b!c X" *)
Definition in_action : bytes := [65; 67; 84; 73; 79; 78]%N.   (* "ACTION" *)
Definition in_ctcp_a : bytes := [67; 84; 67; 80; 32; 97]%N.   (* "CTCP a" *)
Definition in_privmsg_colon : bytes := [80; 82; 73; 86; 77; 83; 71; 32; 58]%N.   (* "PRIVMSG :" *)

Example C02_ex_at_a_sp : parse in_at_a_sp = Ok None.            Proof. vm_compute. reflexivity. Qed.
Example C02_ex_src_sp : parse in_src_sp = Ok None.              Proof. vm_compute. reflexivity. Qed.
Example C02_ex_sp : parse in_sp = Ok None.                      Proof. vm_compute. reflexivity. Qed.
Example C02_ex_privmsg :
  parse in_privmsg = Ok (Some (mk cmd_PRIVMSG in_privmsg [])) /\ acc in_privmsg = Some (Ok [], Ok [], Ok false).
Proof. split; vm_compute; reflexivity. Qed.
Example C02_ex_privmsg_x :
  parse in_privmsg_x = Ok (Some (mk cmd_PRIVMSG in_privmsg_x [[120%N]]))
  /\ acc in_privmsg_x = Some (Ok [120%N], Ok [], Ok false).
Proof. split; vm_compute; reflexivity. Qed.
Example C02_ex_odd_src :
  parse in_odd_src = Ok (Some {| l_tags := None; l_nick := []; l_ident := []; l_host := [97;64;98;33;99]%N;
                                 l_src := [97;64;98;33;99]%N; l_cmd := [88%N]; l_raw := in_odd_src; l_args := [] |})
  /\ acc in_odd_src = Some (Ok [], Ok [], Ok false).
Proof. split; vm_compute; reflexivity. Qed.
Example C02_ex_action :
  parse in_action = Ok (Some (mk cmd_ACTION in_action [])) /\ acc in_action = Some (Ok [], Ok [], Ok false).
Proof. split; vm_compute; reflexivity. Qed.
Example C02_ex_ctcp_a :
  parse in_ctcp_a = Ok (Some (mk cmd_CTCP in_ctcp_a [[97%N]])) /\ acc in_ctcp_a = Some (Ok [97%N], Ok [], Ok false).
Proof. split; vm_compute; reflexivity. Qed.
Example C02_ex_privmsg_colon :
  parse in_privmsg_colon = Ok (Some (mk cmd_PRIVMSG in_privmsg_colon [[]]))
  /\ acc in_privmsg_colon = Some (Ok [], Ok [], Ok false).
Proof. split; vm_compute; reflexivity. Qed.
(* non-vacuity of the accessor theorem: a parsed line whose accessors take the indexing paths *)
Example C02_nonvacuous :
  exists l, parse [58;110;33;117;64;104;32;80;82;73;86;77;83;71;32;35;99;32;58;1;80;73;78;71;32;52;50;1]%N = Ok (Some l)
            /\ l_cmd l = cmd_CTCP /\ l_args l = [[80;73;78;71]; [35;99]; [52;50]]%N
            /\ text l = Ok [52;50]%N /\ target l = Ok [35;99]%N /\ public l = Ok true.
Proof. eexists; repeat split; vm_compute; reflexivity. Qed.

Print Assumptions C02_parse_total_any.
Print Assumptions C02_parse_total.
Print Assumptions C02_recv_one_total.
Print Assumptions C02_accessors_total.
Print Assumptions C02_accessors_total_any.
Print Assumptions C02_oracle_model.
Print Assumptions C02_handlers_contained.
Print Assumptions C02_session.
Print Assumptions C02_session_handlers.
Print Assumptions C02_in_order.
Print Assumptions C02_session_alive.
Print Assumptions C02_recover_needed.

(* generated-code tie *)
(* Gen/GoFuncs.v holds the Gallina TRANSLATION of the Go bodies of the Line methods Text,
   Public and Target, regenerated from the source on every run (translator/go2coq.go; the
   fields a method reads are its parameters); they are equal to the models text, public,
   target — for every line, panics included (Proofs/GenEqLine.v). *)
From Verif Require Import GoFuncs GenEqLine.
Theorem gen_C02_Text : forall l, go_client_Line_Text (l_args l) = text l.
Proof. exact go_Line_Text_eq. Qed.
Theorem gen_C02_Public : forall l, go_client_Line_Public (l_args l) (l_cmd l) = public l.
Proof. exact go_Line_Public_eq. Qed.
Theorem gen_C02_Target : forall l,
  go_client_Line_Target (l_args l) (l_cmd l) (l_nick l) = target l.
Proof. exact go_Line_Target_eq. Qed.
Print Assumptions gen_C02_Text.
Print Assumptions gen_C02_Public.
Print Assumptions gen_C02_Target.

(* ---------- the composed client (Model/Client.v; all of it in Props/ClientCompose.v) ----------
   The session part of C02 above speaks about ARBITRARY handlers under the Recover wrapper.  The
   composition instantiates them with the REAL internal handler bodies (own nick, registration,
   PING, CTCP, capability negotiation / SASL, the 13 state handlers) over the product of their
   states; check C02's case kind "transcript" compares that model with the real client line for
   line.  Re-exported here so that they are obligations of this check (std++ side: Required,
   not Imported). *)
From Verif Require Client ClientProofs.

(* no raw line, in no state, makes a panic escape: every handler-body panic is contained *)
Theorem C02_client_line_total : forall s raw, Client.client_line_res s raw <> Panic.
Proof. exact ClientProofs.client_line_total. Qed.

(* one output group per received line, in order: nothing is dropped, nothing stops the loop *)
Theorem C02_client_session_complete : forall s raws,
  length (Client.session_out s raws) = length raws.
Proof. intros s raws. apply ClientProofs.client_session_length. Qed.

(* "lines that follow it are still processed in order": after ANY lines [before] (hostile or
   not, any state, tracking on or off) a server "PING :tok" is answered by exactly "PONG :tok"
   at its own position of the output, and what follows is processed from an unchanged state *)
Theorem C02_client_pong_in_order : forall s before after src tok,
  LineSend.src_ok src = true -> forallb LineSend.trailing_byte tok = true ->
  let ping := LineSend.wire (Register.ping_trailing src tok) in
  Client.session_out s (before ++ ping :: after)
  = Client.session_out s before ++ [Commands.s_PONG ++ Commands.s_sp_colon ++ tok]
    :: Client.session_out (Client.session_state s before) after
  /\ Client.session_state s (before ++ [ping]) = Client.session_state s before.
Proof. exact ClientProofs.pong_in_order. Qed.

(* without the wrapper the same composed client dies on a bare "PING" *)
Theorem C02_client_recover_needed :
  Client.client_line_with Client.unprotected_c
    (Client.client0 ClientProofs.x_cfg [118]%N [105]%N [110]%N false) ClientProofs.x_ping = Panic.
Proof. exact (proj1 ClientProofs.client_recover_needed). Qed.

Print Assumptions C02_client_line_total.
Print Assumptions C02_client_session_complete.
Print Assumptions C02_client_pong_in_order.
Print Assumptions C02_client_recover_needed.

(* generated-code tie, stage 2: h_CTCP.  The Gallina TRANSLATION of the handler (Gen/GoFuncs.v)
   sends the composed model's lines when c_CTCP finishes, and is Panic exactly when it panics
   (Proofs/GenEqClient.v) *)
From Verif Require GenEqClient.
Theorem gen_C02_h_CTCP : forall s l,
  go_client_Conn_h_CTCP (Client.k_split_len (Client.c_cfg s)) (Client.k_version (Client.c_cfg s))
                        (l_args l) (l_nick l)
  = GenEqClient.of_cres (Client.c_CTCP s l).
Proof. exact GenEqClient.go_h_CTCP_eq. Qed.
Print Assumptions gen_C02_h_CTCP.

(* generated-code tie, stage 3: lock_panic_sites.  Gen/LockFacts.v (translator/go2coq2.go, lockFacts)
   lists, for every function of the packages client and state, each statement that can panic —
   conservatively: an index on a non-map, a slice expression, an unchecked type assertion, panic(),
   a division, a call of a translated function — while a mutex locked in the SAME function is held
   WITHOUT a deferred unlock: a panic there would leave the mutex locked for ever, although the
   caller recovers (the class of the seeded change C02-3).  Today there are exactly two, both
   harmless: cap[1:] in capSet.Add is guarded by HasPrefix(cap, "-") and other.Has(cap) in
   capSet.Intersect never panics (gen_C19_capSet: Add = cap_add, Has = Ok _; CapsProofs shows
   cap_add total).  A NEW site makes this lemma fail to compile. *)
From Verif Require LockFacts.
Lemma tie_C02_lock_panic_sites :
  LockFacts.lock_panic_sites_client
    = [("capSet.Add"%string, "c.caps[cap[1:]] = false"%string);
       ("capSet.Intersect"%string, "!other.Has(cap)"%string)]
  /\ LockFacts.lock_panic_sites_state = [].
Proof. split; reflexivity. Qed.
Print Assumptions tie_C02_lock_panic_sites.
