(* Props/C19.v — C19: capability negotiation asks only for what both sides support and
   always ends.  Model: Model/Caps.v (client/handlers.go); proofs: Proofs/CapsProofs.v.
   Every theorem holds for ALL configurations, ALL event histories (lists of parsed lines, of
   any length, conformant or not), ANY SASL client oracle and ANY [strings.Fields]. *)
From Coq Require Import Permutation.
From Verif Require Import GoBytes GoBytesFacts Split Commands CapsLib CapsLibFacts Base64 Base64Facts
  Caps CapsProofs Consts.
Open Scope Z_scope.

(* ---------- tie: the constants and literals of handlers.go / commands.go the model hard-codes ---------- *)
(* log-message format strings are not part of the model: literals longer than 8 bytes are ignored *)
Definition short_lits (l : list lit) : list lit :=
  filter (fun x => match x with LStr s => (length s <=? 8)%nat | _ => true end) l.

Lemma tie_C19 :
  [const_client_saslCap; const_client_CAP; const_client_AUTHENTICATE; const_client_CAP_LS;
   const_client_CAP_REQ; const_client_CAP_ACK; const_client_CAP_NAK; const_client_CAP_END]
  = [s_sasl; s_CAP; s_AUTHENTICATE; s_LS; s_REQ; s_ACK; s_NAK; s_END]
  /\ const_client_defaultSplit = default_split
  (* h_CAP: Args[1]; LS / ACK / NAK in this order *)
  /\ lits_client_Conn_h_CAP = [LInt 1; LStr s_LS; LStr s_ACK; LStr s_NAK]
  (* capSet.Add: HasPrefix "-", cap[1:], false / true *)
  /\ lits_client_capSet_Add = [LStr s_dash; LInt 1; LBool false; LBool true]
  (* negotiateCapabilities: Size() > 0, REQ else END *)
  /\ lits_client_Conn_negotiateCapabilities = [LInt 0; LStr s_REQ; LStr s_END]
  /\ lits_client_Conn_getRequestCapabilities = [LStr s_sasl]
  /\ varlits_client_defaultCaps = []
  (* handleCapAck: gotSasl := false; cap == "sasl"; gotSasl = true; END *)
  /\ short_lits lits_client_Conn_handleCapAck = [LBool false; LStr s_sasl; LBool true; LStr s_END]
  /\ lits_client_Conn_handleCapNak = [LStr s_END]
  (* h_AUTHENTICATE: "+", len(...) > 0, Args[0] *)
  /\ short_lits lits_client_Conn_h_AUTHENTICATE = [LStr s_plus; LInt 0; LInt 0]
  /\ short_lits lits_client_Conn_h_903 = [LStr s_END]
  /\ short_lits lits_client_Conn_h_904 = [LStr s_END]
  (* h_908: Args[1] (in the log call) then END *)
  /\ short_lits lits_client_Conn_h_908 = [LInt 1; LStr s_END]
  /\ short_lits lits_client_Conn_h_410 = [LInt 1]
  (* Cap: len(capabilities) == 0, "CAP ", "CAP ", " :", defaultSplit *)
  /\ lits_client_Conn_Cap = [LInt 0; LStr (s_CAP ++ s_sp); LStr (s_CAP ++ s_sp); LStr s_sp_colon; LInt default_split]
  /\ lits_client_Conn_Authenticate = [LStr pre_auth]
  (* the handler table binds exactly these event names (among others) *)
  /\ forallb (fun s => existsb (fun x => match x with LStr t => beq s t | _ => false end) varlits_client_intHandlers)
             [s_CAP; s_410; s_AUTHENTICATE; s_903; s_904; s_908] = true.
Proof. repeat split; vm_compute; reflexivity. Qed.

(* ---------- the property predicate holds on every history of the model ---------- *)
(* [C19_ok] (Model/Caps.v) is the runtime oracle of ./check C19; here it is evaluated on the
   model's own transcript, for every configuration, history and queried names *)
Theorem C19_all : forall flds cfg evs names,
  C19_ok flds cfg (snd (run flds cfg cstate0 evs)) (answers_of (fst (run flds cfg cstate0 evs)) names) = true.
Proof. exact C19_model_ok. Qed.

(* ---------- clause 1: the request ---------- *)
(* after any CAP <t> LS [*] :adv... (in any state [st] reached before): the list handed to
   Cap(REQ, ...) is THE strictly increasing (Go string order) list whose members are exactly the
   wanted names (tok_name: a configured "-x" counts as x — drift, see good_cfg) that the
   cumulative advertisement enables; empty => exactly [CAP END]; otherwise the REQ lines carry
   consecutive groups of that list, nothing lost, order kept *)
Theorem C19_request : forall flds cfg st e, is_cap e s_LS = true ->
  let sup' := add_pure (cs_supported st) (flds (ev_text e)) in
  let req := req_list cfg sup' in
  cs_supported (fst (step flds cfg st e)) = sup'
  /\ ssorted req
  /\ (forall c, In c req <-> In c (map tok_name (wanted_all cfg)) /\ cap_has sup' c = true)
  /\ (req = [] -> snd (step flds cfg st e) = [line_cap_end])
  /\ (req <> [] -> exists groups,
        concat groups = req /\ Forall (group_ok req_budget) groups
        /\ snd (step flds cfg st e) = map (fun g => cut_newlines (pre_cap_req ++ join g [sp])) groups).
Proof. exact request_step. Qed.

(* for configured names the property speaks about (non-empty, no leading '-', no white space):
   requested = sort (dedup (wanted + [sasl if configured])) filtered by "advertised as enabled";
   the REQ lines are literally "CAP REQ :" ++ names joined by single spaces; splitting their
   payloads on spaces and concatenating gives the request back; every line is shorter than
   defaultSplit = 450 unless it carries a single name *)
Theorem C19_request_good : forall flds cfg st e, is_cap e s_LS = true -> good_cfg cfg = true ->
  let sup' := add_pure (cs_supported st) (flds (ev_text e)) in
  let req := filter (cap_has sup') (sort_dedup (wanted_all cfg)) in
  let lines := snd (step flds cfg st e) in
  (req = [] -> lines = [line_cap_end])
  /\ (req <> [] -> req_tokens lines = req
      /\ exists groups, concat groups = req
         /\ lines = map (fun g => pre_cap_req ++ join g [sp]) groups
         /\ Forall (fun g => g <> [] /\ (length g = 1%nat \/ len (pre_cap_req ++ join g [sp]) < default_split)) groups).
Proof. exact request_step_good. Qed.

(* "advertised" is cumulative over the history (multi-line LS, repeated LS): a name is supported
   iff the LAST LS token mentioning it had no '-' *)
Theorem C19_supported : forall flds cfg evs c,
  cap_has (cs_supported (fst (run flds cfg cstate0 evs))) c = last_mention (ls_tokens flds evs) c.
Proof. exact supported_history. Qed.

Theorem C19_sort_dedup : forall l, ssorted (sort_dedup l) /\ forall x, In x (sort_dedup l) <-> In x l.
Proof. intros l. split; [apply sort_dedup_sorted|apply sort_dedup_in]. Qed.

(* Go ranges over the map in an unspecified order before sort.Strings: every enumeration order
   of the keys gives the same slice *)
Theorem C19_slice_any_order : forall (c : cap_set) enum,
  ssorted (km_keys c) -> Permutation enum (km_keys c) -> isort enum = cap_slice c.
Proof.
  intros c enum Hs Hp. unfold cap_slice. rewrite (isort_sorted_id _ Hs). apply isort_enum; assumption.
Qed.

(* splitArgs: lossless, order-preserving, every group non-empty and either one word or
   shorter than maxLen *)
Theorem C19_split_args : forall args maxlen,
  exists groups, split_args args maxlen = map (fun g => join g [sp]) groups
                 /\ concat groups = args /\ Forall (group_ok maxlen) groups.
Proof. exact split_args_spec. Qed.

(* ---------- clause 2: held ---------- *)
(* HasCapability c after any history = "the last acknowledgement token mentioning c (as c or -c)
   in any CAP ACK so far was c"; never acknowledged => false *)
Theorem C19_held : forall flds cfg evs c,
  cap_has (cs_current (fst (run flds cfg cstate0 evs))) c = last_mention (ack_tokens flds evs) c.
Proof. exact held_history. Qed.

Theorem C19_last_mention_meaning : forall toks c,
  last_mention toks c = true <->
  exists l1 t l2, toks = l1 ++ t :: l2 /\ tok_name t = c /\ tok_on t = true
                  /\ Forall (fun t' => tok_name t' <> c) l2.
Proof. exact last_mention_spec. Qed.

(* ---------- clause 3: negotiation ends ---------- *)
(* in any state: NAK; 903 / 904 / 908 with >= 2 arguments; an ACK that does not start SASL (no
   SASL configured, or "sasl" not among the tokens, or Start() failed); an LS with empty
   intersection — are each answered by exactly [CAP END] *)
Theorem C19_ends : forall flds cfg st e,
  must_end flds cfg st e -> snd (step flds cfg st e) = [line_cap_end].
Proof. exact ends_step. Qed.

Theorem C19_ends_history : forall flds cfg evs st,
  Forall (fun el => (is_cap (fst el) s_NAK = true \/ is_sasl_outcome (fst el) = true
                     \/ (is_cap (fst el) s_ACK = true /\ ack_starts cfg (flds (ev_text (fst el))) = None))
                    -> snd el = [line_cap_end])
         (snd (run flds cfg st evs)).
Proof. exact ends_history. Qed.

(* conversely an ACK that starts SASL sends AUTHENTICATE <mech> (once per "sasl" token), no
   CAP END, and records the initial response as owed *)
Theorem C19_ack_starts_sasl : forall flds cfg st e mech ir,
  is_cap e s_ACK = true -> ack_starts cfg (flds (ev_text e)) = Some (mech, ir) ->
  exists n, snd (step flds cfg st e) = repeat (line_auth mech) (S n)
            /\ ~ In line_cap_end (snd (step flds cfg st e))
            /\ cs_remaining (fst (step flds cfg st e)) = ir.
Proof. exact ack_starts_sasl. Qed.

(* NOT covered by the property (a conformant 908 has >= 2 arguments): a shorter 908 panics in the
   logging call before Cap(END) — nothing is sent, negotiation is not ended by it *)
Theorem C19_short_908 : forall flds cfg st e,
  ev_cmd e = s_908 -> (length (ev_args e) < 2)%nat -> step flds cfg st e = (st, []).
Proof. exact short_908_sends_nothing. Qed.

(* when a handler panics (recovered by LogPanic): only on a missing argument, and [step] is
   right to leave the state unchanged since every such expression precedes all effects *)
Theorem C19_panics : forall flds cfg st e,
  handle flds cfg st e = Panic <->
  ((beq (ev_cmd e) s_CAP || beq (ev_cmd e) s_410 || beq (ev_cmd e) s_908) = true
   /\ (length (ev_args e) < 2)%nat)
  \/ (ev_cmd e = s_AUTHENTICATE /\ cf_sasl cfg <> None /\ cs_remaining st = None /\ ev_args e = []).
Proof. exact handle_panic_iff. Qed.

(* ---------- clause 4: the SASL gate ---------- *)
(* in any state: an AUTHENTICATE line that is not the "AUTHENTICATE <mech>" answering an ACK is
   sent only in response to an AUTHENTICATE event with SASL configured; it is the owed initial
   response, base64 (or "+" when empty), after which nothing is owed (at most once per ACK) — or a
   response computed by the mechanism's Next from the decoded challenge *)
Theorem C19_sasl_gate : forall flds cfg st e,
  is_cap e s_ACK = false -> auth_lines (snd (step flds cfg st e)) <> [] ->
  ev_cmd e = s_AUTHENTICATE
  /\ exists cl, cf_sasl cfg = Some cl
     /\ ((exists ir, cs_remaining st = Some ir
                     /\ snd (step flds cfg st e) = [line_auth (sasl_payload ir)]
                     /\ cs_remaining (fst (step flds cfg st e)) = None)
         \/ (cs_remaining st = None
             /\ exists a0 r ch resp, ev_args e = a0 :: r /\ b64_decode a0 = Some ch
                /\ sc_next cl ch = Some resp
                /\ snd (step flds cfg st e) = [line_auth (b64_encode resp)])).
Proof. exact gate_step. Qed.

(* what is owed after a history is a function of the history, and it is owed only because an
   earlier ACK carrying "sasl" started SASL (Start() ok with that initial response) and no
   AUTHENTICATE event / later SASL-starting ACK came since *)
Theorem C19_sasl_owed : forall flds cfg evs,
  cs_remaining (fst (run flds cfg cstate0 evs)) = armed_of flds cfg evs.
Proof. exact remaining_history. Qed.

Theorem C19_sasl_owed_meaning : forall flds cfg evs ir,
  armed_of flds cfg evs = Some ir ->
  exists evs1 e evs2 mech,
    evs = evs1 ++ e :: evs2 /\ is_cap e s_ACK = true
    /\ ack_starts cfg (flds (ev_text e)) = Some (mech, Some ir)
    /\ Forall (fun e' => armed_step flds cfg (Some ir) e' = Some ir) evs2.
Proof. exact armed_of_spec. Qed.

(* for PLAIN and EXTERNAL (Next always errors) the second alternative of C19_sasl_gate is
   impossible: data is sent ONLY as the owed initial response *)
Corollary C19_sasl_gate_plain_external : forall flds cfg st e cl,
  cf_sasl cfg = Some cl -> (forall ch, sc_next cl ch = None) ->
  is_cap e s_ACK = false -> auth_lines (snd (step flds cfg st e)) <> [] ->
  ev_cmd e = s_AUTHENTICATE
  /\ exists ir, cs_remaining st = Some ir
                /\ snd (step flds cfg st e) = [line_auth (sasl_payload ir)]
                /\ cs_remaining (fst (step flds cfg st e)) = None.
Proof.
  intros flds cfg st e cl Hc Hn E2 Hne.
  destruct (gate_step flds cfg st e E2 Hne) as [Ha [cl' [Hc' [H|[_ [a0 [r [ch [resp [_ [_ [Hx _]]]]]]]]]]]].
  - split; [exact Ha|exact H].
  - rewrite Hc in Hc'. inversion Hc'; subst. rewrite Hn in Hx. discriminate.
Qed.

(* base64: DecodeString (EncodeToString s) = s on bytes *)
Theorem C19_base64_roundtrip : forall s, Forall byte s -> b64_decode (b64_encode s) = Some s.
Proof. exact b64_roundtrip. Qed.

(* ---------- examples / non-vacuity ---------- *)
Definition str_a : bytes := [97]%N.
Definition str_b : bytes := [98]%N.
Definition str_c : bytes := [99]%N.
Definition star : bytes := [42]%N.
Definition ev (cmd : bytes) (args : list bytes) : event := {| ev_cmd := cmd; ev_args := args |}.
Definition cfg_plain : caps_cfg :=
  {| cf_wanted := [str_b; str_a; str_c; str_a];
     cf_sasl := Some (sasl_plain [] [117;115;101;114]%N [112;119]%N) |}.     (* "", "user", "pw" *)

(* PLAIN happy path: LS "c sasl a" -> REQ "a c sasl"; ACK -> AUTHENTICATE PLAIN;
   AUTHENTICATE + -> AUTHENTICATE AHVzZXIAcHc= ; 903 -> CAP END *)
Example C19_plain_happy_path :
  map snd (snd (run fields cfg_plain cstate0
    [ev s_CAP [star; s_LS; [99;32;115;97;115;108;32;97]%N];
     ev s_CAP [star; s_ACK; [97;32;99;32;115;97;115;108]%N];
     ev s_AUTHENTICATE [s_plus];
     ev s_903 [star; []]]))
  = [[[67;65;80;32;82;69;81;32;58;97;32;99;32;115;97;115;108]%N];
     [[65;85;84;72;69;78;84;73;67;65;84;69;32;80;76;65;73;78]%N];
     [[65;85;84;72;69;78;84;73;67;65;84;69;32;65;72;86;122;90;88;73;65;99;72;99;61]%N];
     [line_cap_end]].
Proof. vm_compute. reflexivity. Qed.

(* a later ACK of "-a" revokes a, and only a *)
Example C19_later_minus :
  let st := fst (run fields cfg_plain cstate0
    [ev s_CAP [star; s_LS; [97;32;99]%N]; ev s_CAP [star; s_ACK; [97;32;99]%N];
     ev s_CAP [star; s_ACK; [45;97]%N]]) in
  (cap_has (cs_current st) str_a, cap_has (cs_current st) str_c, cap_has (cs_supported st) str_a)
  = (false, true, true).
Proof. vm_compute. reflexivity. Qed.

(* hypotheses are satisfiable: good_cfg; must_end by each alternative; an ACK that starts SASL;
   a non-empty request; an owed initial response *)
Example C19_good_cfg_nonvacuous : good_cfg cfg_plain = true /\ good_name [45;97]%N = false.
Proof. split; reflexivity. Qed.

Example C19_must_end_nonvacuous :
  must_end fields cfg_plain cstate0 (ev s_CAP [star; s_NAK; str_a])
  /\ must_end fields cfg_plain cstate0 (ev s_908 [star; s_PLAIN; []])
  /\ must_end fields cfg_plain cstate0 (ev s_CAP [star; s_ACK; str_a])
  /\ must_end fields cfg_plain cstate0 (ev s_CAP [star; s_LS; [120]%N])
  /\ ack_starts cfg_plain (fields [97;32;115;97;115;108]%N) = Some (s_PLAIN, Some [0;117;115;101;114;0;112;119]%N).
Proof.
  split; [left; reflexivity|]. split; [right; left; reflexivity|].
  split; [right; right; left; split; reflexivity|]. split; [right; right; right; split; reflexivity|].
  reflexivity.
Qed.

Example C19_request_nonvacuous :
  req_list cfg_plain (add_pure km_empty (fields [99;32;115;97;115;108;32;97;32;45;98]%N))
  = [str_a; str_c; s_sasl].
Proof. vm_compute. reflexivity. Qed.

(* drift made visible: a configured "-a" is stored as a |-> false, survives Intersect when the
   server advertises a, and "a" is REQUESTED *)
Example C19_wanted_minus_is_requested :
  snd (step fields {| cf_wanted := [[45;97]%N]; cf_sasl := None |} cstate0 (ev s_CAP [star; s_LS; str_a]))
  = [[67;65;80;32;82;69;81;32;58;97]%N].
Proof. vm_compute. reflexivity. Qed.

(* EXTERNAL with an empty identity owes "+" *)
Example C19_external_plus :
  map snd (snd (run fields {| cf_wanted := []; cf_sasl := Some (sasl_external []) |} cstate0
    [ev s_CAP [star; s_LS; s_sasl]; ev s_CAP [star; s_ACK; s_sasl]; ev s_AUTHENTICATE [s_plus];
     ev s_AUTHENTICATE [s_plus]]))
  = [[[67;65;80;32;82;69;81;32;58;115;97;115;108]%N];
     [[65;85;84;72;69;78;84;73;67;65;84;69;32;69;88;84;69;82;78;65;76]%N];
     [[65;85;84;72;69;78;84;73;67;65;84;69;32;43]%N];
     []].
Proof. vm_compute. reflexivity. Qed.

(* the checker is not trivially true: a transcript that ends negotiation while SASL should start,
   one that sends data unasked, and one that requests an unadvertised name are all rejected *)
Example C19_ok_rejects :
  C19_ok fields cfg_plain [(ev s_CAP [star; s_ACK; s_sasl], [line_cap_end])] [] = false
  /\ C19_ok fields cfg_plain [(ev s_CAP [star; s_ACK; s_sasl], [line_auth s_PLAIN; line_cap_end])] [] = false
  /\ C19_ok fields cfg_plain [(ev s_AUTHENTICATE [s_plus], [line_auth s_plus])] [] = false
  /\ C19_ok fields cfg_plain [(ev s_CAP [star; s_LS; str_a], [pre_cap_req ++ [97;32;98]%N])] [] = false
  /\ C19_ok fields cfg_plain [(ev s_CAP [star; s_NAK; str_a], [])] [] = false
  /\ C19_ok fields cfg_plain [(ev s_CAP [star; s_ACK; str_a], [line_cap_end])]
            [{| a_name := str_a; a_has := false; a_supports := false |}] = false.
Proof. repeat split; vm_compute; reflexivity. Qed.

(* "encoded as the mechanism prescribes": RFC 4648 section 4 — the STANDARD alphabet with padding.
   [b64_decode] accepts only A-Z a-z 0-9 + / (and '=' padding), so C19_base64_roundtrip pins the
   alphabet of [b64_encode].  PLAIN for ("", "bot", "top~secret") owes AGJvdAB0b3B+c2VjcmV0; the
   URL-safe spelling AGJvdAB0b3B-c2VjcmV0 is neither decodable nor accepted by the checker *)
Definition cfg_tilde : caps_cfg :=
  {| cf_wanted := [];
     cf_sasl := Some (sasl_plain [] [98;111;116]%N [116;111;112;126;115;101;99;114;101;116]%N) |}.
Definition b64_tilde_std : bytes := [65;71;74;118;100;65;66;48;98;51;66;43;99;50;86;106;99;109;86;48]%N.
Definition b64_tilde_url : bytes := [65;71;74;118;100;65;66;48;98;51;66;45;99;50;86;106;99;109;86;48]%N.
Example C19_standard_alphabet :
  map snd (snd (run fields cfg_tilde cstate0
    [ev s_CAP [star; s_ACK; s_sasl]; ev s_AUTHENTICATE [s_plus]]))
  = [[line_auth s_PLAIN]; [line_auth b64_tilde_std]]
  /\ b64_decode b64_tilde_std = Some [0;98;111;116;0;116;111;112;126;115;101;99;114;101;116]%N
  /\ b64_decode b64_tilde_url = None
  /\ C19_ok fields cfg_tilde [(ev s_CAP [star; s_ACK; s_sasl], [line_auth s_PLAIN]);
                              (ev s_AUTHENTICATE [s_plus], [line_auth b64_tilde_std])] [] = true
  /\ C19_ok fields cfg_tilde [(ev s_CAP [star; s_ACK; s_sasl], [line_auth s_PLAIN]);
                              (ev s_AUTHENTICATE [s_plus], [line_auth b64_tilde_url])] [] = false.
Proof. repeat split; vm_compute; reflexivity. Qed.

(* the IRCv3 framing the checker also accepts (handlers.go sends ONE line, see its TODOs):
   a 1000-byte payload = 400 + 400 + 200; an 800-byte one = 400 + 400 + "+" *)
Example C19_chunks :
  map (@length N) (sasl_chunks (repeat 65%N 1000)) = [400; 400; 200]%nat
  /\ sasl_chunks (repeat 65%N 800) = [repeat 65%N 400; repeat 65%N 400; s_plus]
  /\ sasl_chunks b64_tilde_std = [b64_tilde_std] /\ sasl_chunks s_plus = [s_plus].
Proof. repeat split; vm_compute; reflexivity. Qed.

Print Assumptions tie_C19.
Print Assumptions C19_all.
Print Assumptions C19_request.
Print Assumptions C19_request_good.
Print Assumptions C19_supported.
Print Assumptions C19_sort_dedup.
Print Assumptions C19_slice_any_order.
Print Assumptions C19_split_args.
Print Assumptions C19_held.
Print Assumptions C19_last_mention_meaning.
Print Assumptions C19_ends.
Print Assumptions C19_ends_history.
Print Assumptions C19_ack_starts_sasl.
Print Assumptions C19_short_908.
Print Assumptions C19_panics.
Print Assumptions C19_sasl_gate.
Print Assumptions C19_sasl_owed.
Print Assumptions C19_sasl_owed_meaning.
Print Assumptions C19_sasl_gate_plain_external.
Print Assumptions C19_base64_roundtrip.

(* generated-code tie, stage 2: capability negotiation.  Gen/GoFuncs.v holds the Gallina
   TRANSLATION of the Go bodies of capSet.Add/Has/Intersect/Slice/Size, getRequestCapabilities,
   negotiateCapabilities, handleCapAck, handleCapNak, h_CAP, h_410, h_AUTHENTICATE, h_903/904/908
   (translator/go2coq.go, go2coq2.go: a *capSet is its map, a CapsLib.kmap; map ranges walk the
   canonical key order; cfg.Sasl is an option of an oracle record, [osasl]; a []byte is an option;
   the fields of conn a function touches are passed in and returned; a panic is Panic).  Each is
   equal to its model in Model/Caps.v, for all inputs, panics included (Proofs/GenEqCaps.v). *)
From Verif Require Import GoFuncs GenEqCaps.
Theorem gen_C19_capSet :
  (forall c caps, go_client_capSet_Add c caps = cap_add c caps)
  /\ (forall c cap, go_client_capSet_Has c cap = Ok (cap_has c cap))
  /\ (forall c other, go_client_capSet_Intersect c other = Ok (cap_intersect c other))
  /\ (forall c, go_client_capSet_Slice c = Ok (cap_slice c))
  /\ (forall c, go_client_capSet_Size c = Ok (cap_size c))
  /\ go_client_capabilitySet = Ok km_empty.
Proof.
  split; [exact go_capSet_Add_eq|]. split; [exact go_capSet_Has_eq|].
  split; [exact go_capSet_Intersect_eq|]. split; [exact go_capSet_Slice_eq|].
  split; [exact go_capSet_Size_eq|exact go_capabilitySet_eq].
Qed.
Theorem gen_C19_getRequestCapabilities : forall cfg,
  go_client_Conn_getRequestCapabilities (cf_wanted cfg) (osasl (cf_sasl cfg)) = request_caps cfg.
Proof. exact go_getRequestCapabilities_eq. Qed.
Theorem gen_C19_negotiateCapabilities : forall cfg st caps,
  go_client_Conn_negotiateCapabilities (cf_wanted cfg) (osasl (cf_sasl cfg)) (cs_supported st) caps
  = (r <- negotiate cfg st caps ;; Ok (cs_supported (fst r), snd r)).
Proof. exact go_negotiateCapabilities_eq. Qed.
Theorem gen_C19_handleCapAck : forall cfg st caps,
  go_client_Conn_handleCapAck (osasl (cf_sasl cfg)) (cs_current st) (cs_remaining st) caps
  = (r <- handle_ack cfg st caps ;; Ok (cs_current (fst r), cs_remaining (fst r), snd r)).
Proof. exact go_handleCapAck_eq. Qed.
Theorem gen_C19_handleCapNak : forall st caps,
  go_client_Conn_handleCapNak caps = (r <- handle_nak st caps ;; Ok (snd r)).
Proof. exact go_handleCapNak_eq. Qed.
Theorem gen_C19_h_CAP : forall cfg st e,
  go_client_Conn_h_CAP (cf_wanted cfg) (osasl (cf_sasl cfg)) (cs_current st) (cs_remaining st)
                       (cs_supported st) (ev_args e)
  = (r <- h_CAP fields cfg st e ;;
     Ok (cs_current (fst r), cs_remaining (fst r), cs_supported (fst r), snd r)).
Proof. exact go_h_CAP_eq. Qed.
Theorem gen_C19_h_AUTHENTICATE : forall cfg st e,
  go_client_Conn_h_AUTHENTICATE (osasl (cf_sasl cfg)) (cs_remaining st) (ev_args e)
  = (r <- h_AUTHENTICATE cfg st e ;; Ok (cs_remaining (fst r), snd r)).
Proof. exact go_h_AUTHENTICATE_eq. Qed.
Theorem gen_C19_numerics : forall st e,
  go_client_Conn_h_903 = (r <- h_903 st ;; Ok (snd r))
  /\ go_client_Conn_h_904 = (r <- h_904 st ;; Ok (snd r))
  /\ go_client_Conn_h_908 (ev_args e) = (r <- h_908 st e ;; Ok (snd r))
  /\ (_ <- go_client_Conn_h_410 (ev_args e) ;; Ok (st, @nil bytes)) = h_410 st e.
Proof.
  intros st e. split; [apply go_h_903_eq|]. split; [apply go_h_904_eq|].
  split; [apply go_h_908_eq|apply go_h_410_caps_eq].
Qed.
(* the queries themselves, translated from client/connection.go: after ANY history of server
   events the generated HasCapability / SupportsCapability answer exactly what clause 2 says —
   source -> generated -> model state -> the history characterisation (C19_held, C19_supported);
   neither can panic *)
Theorem gen_C19_queries : forall flds cfg evs c,
  go_client_Conn_HasCapability (cs_current (fst (run flds cfg cstate0 evs))) c
    = Ok (last_mention (ack_tokens flds evs) c)
  /\ go_client_Conn_SupportsCapability (cs_supported (fst (run flds cfg cstate0 evs))) c
    = Ok (last_mention (ls_tokens flds evs) c).
Proof.
  intros flds cfg evs c. rewrite go_HasCapability_eq, go_SupportsCapability_eq.
  rewrite held_history, supported_history. split; reflexivity.
Qed.
Print Assumptions gen_C19_capSet.
Print Assumptions gen_C19_getRequestCapabilities.
Print Assumptions gen_C19_negotiateCapabilities.
Print Assumptions gen_C19_handleCapAck.
Print Assumptions gen_C19_handleCapNak.
Print Assumptions gen_C19_h_CAP.
Print Assumptions gen_C19_h_AUTHENTICATE.
Print Assumptions gen_C19_numerics.
Print Assumptions gen_C19_queries.
