(* Props/C03.v — C03: foreground handlers see events one at a time, in wire order;
   CONNECTED / DISCONNECTED placement.  Proofs about the LTS Model/DispatchLts.v: goroutine
   scheduling, channel / WaitGroup semantics and defer/recover are the LTS rules (assumed). *)
From Coq Require Import List Arith Bool String ZArith.
From Verif Require Import Consts Facts.
From Verif Require Import Lts DispatchLts DispatchProofsA DispatchProofsB DispatchProofsE DispatchExamples.
Import ListNotations.
Local Open Scope nat_scope.

(* tie: the skeleton the model encodes is the one in the source today.
   recv: ReadString -> ParseLine -> conn.in <- line, the only sender on conn.in, EVERY parsed line
   goes through that one send (recv starts no goroutine and never calls conn.dispatch); one recv and one
   runLoop goroutine per connection; runLoop: select { <-conn.in -> conn.dispatch | <-ctx.Done() ->
   wg.Done; closeIf; return }; Conn.dispatch = internal (sync); `go` background; foreground (sync);
   hSet.dispatch = one `go func` per handler + wg.Wait(); h_001 starts with `defer conn.dispatch`
   and CONNECTED has no internal handler; closeIf: cancel, drain loop with `recv done` fed by a
   goroutine doing conn.wg.Wait(), then conn.dispatch (DISCONNECTED) after the loop, the connection
   lock held from the guard until after the wait (a Connect() issued meanwhile must not start a second
   event loop while handlers of this connection still run) — only the order of these statements is
   pinned, so unrelated edits of closeIf do not alarm; recv frames with ReadString; capacity 32. *)
Lemma tie_C03 :
  flow_client_Conn_dispatch
    = ["conn.intHandlers.dispatch"; "go conn.bgHandlers.dispatch"; "conn.fgHandlers.dispatch"]%string
  /\ flow_client_hSet_dispatch
     = ["strings.ToLower"; "for{"; "hs.getHandlers"; "wg.Add"; "go func"; "{"; "hn.Handle"; "line.Copy";
        "wg.Done"; "}"; "}"; "wg.Wait"]%string
  /\ flow_client_Conn_runLoop
     = ["for{"; "select{"; "case"; "recv conn.in"; "conn.dispatch"; "case"; "ctx.Done"; "recv ctx.Done()";
        "conn.wg.Done"; "conn.closeIf"; "return"; "}"; "}"]%string
  /\ flow_client_Conn_recv
     = ["for{"; "rw.ReadString"; "if{"; "if{"; "err.Error"; "}"; "conn.wg.Done"; "conn.closeIf"; "return"; "}";
        "strings.Trim"; "ParseLine"; "if{"; "time.Now"; "send conn.in"; "}"; "else{"; "}"; "}"]%string
  /\ hd ""%string flow_client_Conn_h_001 = "defer conn.dispatch"%string
  /\ existsb (String.eqb """CONNECTED""") var_client_intHandlers = false
  /\ existsb (String.eqb "CONNECTED") var_client_intHandlers = false
  /\ List.length (filter (String.eqb """001""") var_client_intHandlers) = 1
  /\ existsb (String.eqb """001""") var_client_stHandlers = false
  /\ filter (fun x => existsb (String.eqb x) ["conn.mu.Lock"; "conn.mu.Unlock"; "conn.die"; "conn.wg.Wait";
                                                "recv conn.in"; "recv done"; "conn.dispatch"]%string)
            flow_client_Conn_closeIf
     = ["conn.mu.Lock"; "conn.mu.Unlock"; "conn.die"; "conn.wg.Wait"; "recv conn.in"; "recv done";
        "conn.mu.Unlock"; "conn.dispatch"]%string
  /\ filter (fun p => String.eqb (snd p) "conn.in") chan_sends_client = [("Conn.recv", "conn.in")]%string
  /\ filter (fun p => String.eqb (snd p) "conn.in") chan_recvs_client
     = [("Conn.closeIf", "conn.in"); ("Conn.drainIn", "conn.in"); ("Conn.runLoop", "conn.in")]%string
  /\ filter (fun p => String.eqb (fst p) "Conn.dispatch" || String.eqb (fst p) "hSet.dispatch"
                      || String.eqb (snd p) "conn.runLoop" || String.eqb (snd p) "conn.recv") go_stmts_client
     = [("Conn.dispatch", "conn.bgHandlers.dispatch"); ("Conn.postConnect", "conn.recv");
        ("Conn.postConnect", "conn.runLoop"); ("hSet.dispatch", "func")]%string
  /\ filter (fun p => String.eqb (fst p) "Conn.recv") go_stmts_client = []
  /\ List.length (filter (String.eqb "send conn.in") flow_client_Conn_recv) = 1
  /\ existsb (fun x => String.eqb x "conn.dispatch" || String.eqb x "go conn.dispatch") flow_client_Conn_recv = false
  (* conditions (a flow skeleton does not see a change that only alters a condition) *)
  /\ conds_client_Conn_recv = ["err != nil"; "err != io.EOF"; "line != nil"]%string
  /\ conds_client_Conn_runLoop = []
  /\ conds_client_Conn_dispatch = []
  /\ conds_client_hSet_dispatch = []
  /\ conds_client_hSet_getHandlers = ["!ok"; "for hn != nil"]%string
  /\ conds_client_Conn_h_001 = ["idx != -1"; "me.Nick != nick"; "conn.st != nil"; "ok"; "n != nil"; "ok"]%string
  /\ conds_client_Conn_closeIf
     = ["!conn.connected || (rw != nil && rw != conn.io)"; "conn.die != nil"; "for !drained"]%string
  /\ lits_client_Conn_initialise = [Consts.LInt 32%Z; Consts.LInt 32%Z]
  /\ cap_in = 32.
Proof. repeat split; vm_compute; reflexivity. Qed.

(* For EVERY schedule (every interleaving of recv, runLoop, the handler goroutines, the background
   dispatchers and a closer; every resolution of the selects; every choice of which handlers
   panic), any session, any numbers of handlers: the monitor accepts the history.  The monitor:
   foreground Enter serials never decrease (wire order), a new serial starts only when no
   foreground invocation is open (all handlers of one line finished before the next line's start),
   Exit / Recovered belong to the current serial; the foreground CONNECTED handlers run after
   every foreground invocation of earlier lines, for a welcome line k whose h_001 body has run,
   before any foreground handler of line k or later; a foreground DISCONNECTED handler enters
   only when no foreground / CONNECTED invocation is open and no foreground handler enters after it. *)
Theorem C03_all_schedules : forall sess sched,
  C03_ok sess (hist (run (step sess) init sched)) = true.
Proof. exact C03_model. Qed.

(* what the monitor's verdict means (for ANY history it accepts, e.g. an observed one): when a
   foreground handler of line k' enters, every foreground invocation of every earlier line has
   finished (as many Exit/Recovered as Enter so far) and none of a later line has started *)
Theorem C03_ok_says : forall sess p k' i' a' rest,
  C03_ok sess (p ++ EvEnter KFg k' i' a' :: rest) = true ->
  (forall k, k < k' -> ne k p = nc k p) /\ (forall k, k' < k -> ne k p = 0).
Proof. exact C03_ok_meaning. Qed.

(* ... hence, on the model, for every schedule: *)
Theorem C03_one_line_at_a_time_in_order : forall sess sched p k' i' a' rest,
  hist (run (step sess) init sched) = p ++ EvEnter KFg k' i' a' :: rest ->
  (forall k, k < k' -> ne k p = nc k p) /\ (forall k, k' < k -> ne k p = 0).
Proof.
  intros sess sched p k' i' a' rest H. apply (C03_ok_meaning sess p k' i' a' rest).
  rewrite <- H. apply C03_model.
Qed.

(* the invariant behind it, for reference: the structural invariant and the relation between the
   monitor's scan state and the LTS state hold in every reachable state *)
Theorem C03_invariant : forall sess sched, InvAB sess (run (step sess) init sched).
Proof. exact InvAB_run. Qed.

(* the pipeline: whatever is queued, held by recv or still unread is strictly increasing and
   above the line being dispatched — lines are dispatched in arrival order, none twice *)
Theorem C03_fifo : forall sess sched,
  let s := run (step sess) init sched in
  chain (lob' s) (inq s ++ optl (rhold s)) (rpos s) /\ rpos s <= List.length (lines sess).
Proof. intros sess sched s. destruct (InvA_run sess sched) as [H1 H2 _ _ _ _ _ _ _ _ _]. split; assumption. Qed.

(* non-vacuity: the concrete run of DispatchExamples (3 lines incl. the 001 line, 2 fg + 1 bg
   handlers each, one panic, one background handler that never returns, then Close()) *)
Example C03_nonvacuous :
  let s := run (step sess0) init (sched0 ++ sched1) in
  hist s = hist1 /\ lpc s = LDone /\ cpc s = CDone /\ C03_ok sess0 (hist s) = true.
Proof. vm_compute. repeat split; reflexivity. Qed.

(* the monitor rejects what a broken implementation produces *)
Example C03_monitor_rejects :
  C03_ok sess0 [EvEnter KFg 0 0 1; EvEnter KFg 1 0 2; EvExit KFg 0 0 1; EvExit KFg 1 0 2] = false
  /\ C03_ok sess0 [EvEnter KFg 1 0 2; EvExit KFg 1 0 2; EvEnter KFg 0 0 1; EvExit KFg 0 0 1] = false
  /\ C03_ok sess0 [EvEnter KFg 1 0 2; EvExit KFg 1 0 2; EvEnter KConnFg 1 0 2; EvExit KConnFg 1 0 2] = false
  /\ C03_ok sess0 [EvEnter KConnFg 0 0 1; EvExit KConnFg 0 0 1] = false
  /\ C03_ok sess0 [EvEnter KFg 0 0 1; EvEnter KDiscFg 0 0 1; EvExit KFg 0 0 1] = false
  /\ C03_ok sess0 [EvEnter KDiscFg 0 0 1; EvEnter KFg 0 0 1] = false.
Proof. repeat split; reflexivity. Qed.

Print Assumptions C03_all_schedules.
Print Assumptions C03_ok_says.
Print Assumptions C03_one_line_at_a_time_in_order.
Print Assumptions C03_invariant.
Print Assumptions C03_fifo.
