(* Props/C13.v — C13: tracked state equals the server's ground truth for the client's channels.
   Property theorems only; each is closed by [exact] of a lemma proved in Proofs/.

   Models: Model/StateHandlers.v ([handle_state]: the 13 handlers of client/state_handlers.go
   over the plain tracker model of C12, panic-aware), Model/Net.v (the model IRC network: truth,
   events, the lines a conformant server shows the client, and the VIEW = what the protocol has
   revealed so far), Model/NetObs.v (dumps, the predicates [C13_ok] / [C13_rob_ok] = the
   runtime oracle of ./check C13). *)
From Coq Require Import String.
From Verif Require Import TrackerSpec TrackerSpecFacts StateHandlers Net NetObs NetProofs NetSim NetModes NetSimEv NetInv NetInv2 NetWire.
From Verif Require GoBytes LineLib Line LineSend Consts Facts.
Open Scope Z_scope.

(* ---------- tie: what the models hard-code is what stands in the source today ---------- *)
Definition short_lits (l : list Consts.lit) : list Consts.lit :=
  List.filter (fun x => match x with Consts.LStr s => Nat.leb (List.length s) 3 | _ => true end) l.
Definition zc (c : N) : Consts.lit := Consts.LInt (Z.of_N c).
Definition prefix_lits (c : N) : list Consts.lit :=
  match prefix_mode c with Some m => [zc c; Consts.LStr m] | None => [] end.

(* the method value of a handler as the translator prints it; written in two pieces so that this
   file contains no comment opener inside a string *)
Definition hname (s : string) : string := ("(" ++ "*Conn)." ++ s)%string.

Lemma tie_C13 :
  (* the 13 verbs, in source order, and the handler each is bound to *)
  Consts.varlits_client_stHandlers = map (fun h => Consts.LStr (sth_verb h)) all_sth
  /\ Facts.var_client_stHandlers =
       ["""JOIN"""; hname "h_JOIN"; """KICK"""; hname "h_KICK"; """MODE"""; hname "h_MODE";
        """NICK"""; hname "h_STNICK"; """PART"""; hname "h_PART"; """QUIT"""; hname "h_QUIT";
        """TOPIC"""; hname "h_TOPIC"; """311"""; hname "h_311"; """324"""; hname "h_324";
        """332"""; hname "h_332"; """352"""; hname "h_352"; """353"""; hname "h_353";
        """671"""; hname "h_671"]%string
  (* statement skeletons of the handlers that create / remove tracked objects *)
  /\ Facts.flow_client_Conn_h_JOIN =
       ["conn.st.GetChannel"; "conn.st.GetNick"; "if{"; "conn.Me().Equals"; "conn.Me"; "if{"; "return"; "}";
        "conn.st.NewChannel"; "conn.Mode"; "conn.Who"; "}"; "if{"; "conn.st.NewNick"; "conn.st.NickInfo";
        "conn.Who"; "}"; "conn.st.Associate"]%string
  /\ Facts.flow_client_Conn_h_PART = ["conn.st.Dissociate"]%string
  /\ Facts.flow_client_Conn_h_KICK = ["line.argslen"; "if{"; "return"; "}"; "conn.st.Dissociate"]%string
  /\ Facts.flow_client_Conn_h_QUIT = ["conn.st.DelNick"]%string
  /\ Facts.flow_client_Conn_h_STNICK = ["conn.st.ReNick"]%string
  /\ Facts.flow_client_Conn_h_353 =
       ["line.argslen"; "if{"; "return"; "}"; "conn.st.GetChannel"; "if{"; "strings.Split"; "for{"; "if{"; "}";
        "switch{"; "case"; "case"; "conn.st.GetNick"; "if{"; "conn.st.NewNick"; "}"; "conn.st.IsOn"; "if{";
        "conn.st.Associate"; "}"; "switch{"; "case"; "conn.st.ChannelModes"; "case"; "conn.st.ChannelModes";
        "case"; "conn.st.ChannelModes"; "case"; "conn.st.ChannelModes"; "case"; "conn.st.ChannelModes"; "}";
        "}"; "}"; "}"; "else{"; "}"]%string
  (* h_353: argslen(2), Args[2], Split on " ", the five prefixes and the mode each stands for *)
  /\ short_lits Consts.lits_client_Conn_h_353 =
       [Consts.LInt 2; Consts.LInt 2; Consts.LInt 1; Consts.LStr [32%N]; Consts.LStr []; Consts.LInt 0]
       ++ map zc [126; 38; 64; 37; 43]%N ++ [Consts.LInt 1]
       ++ flat_map prefix_lits [126; 38; 64; 37; 43]%N ++ [Consts.LInt 2]
  (* h_352: argslen(5), Args[5], SplitN(last, " ", 2), Args[2], Args[3], a[1], argslen(6), the three flags *)
  /\ short_lits Consts.lits_client_Conn_h_352 =
       [Consts.LInt 5; Consts.LInt 5; Consts.LInt 5; Consts.LInt 1; Consts.LStr Line.s_space; Consts.LInt 2;
        Consts.LInt 2; Consts.LInt 3; Consts.LInt 1; Consts.LInt 6;
        Consts.LInt 6; Consts.LStr s_star; Consts.LInt (-1); Consts.LStr m_plus_o;
        Consts.LInt 6; Consts.LStr s_B; Consts.LInt (-1); Consts.LStr m_plus_B;
        Consts.LInt 6; Consts.LStr s_H; Consts.LInt (-1); Consts.LStr m_plus_i]
  (* the index constants of the other handlers *)
  /\ short_lits Consts.lits_client_Conn_h_JOIN = map Consts.LInt [0; 0; 0; 0; 0] ++ [Consts.LStr []; Consts.LInt 0]
  /\ short_lits Consts.lits_client_Conn_h_KICK = map Consts.LInt [1; 0; 1]
  /\ short_lits Consts.lits_client_Conn_h_MODE = map Consts.LInt [1; 0; 0; 1; 2; 0; 1; 0; 0; 1] ++ [Consts.LStr [32%N]]
  /\ short_lits Consts.lits_client_Conn_h_TOPIC = map Consts.LInt [1; 0; 0; 1; 0]
  /\ short_lits Consts.lits_client_Conn_h_311 = map Consts.LInt [5; 1; 1; 2; 3; 5; 1]
  /\ short_lits Consts.lits_client_Conn_h_324 = map Consts.LInt [2; 1; 1; 2; 3; 1]
  /\ short_lits Consts.lits_client_Conn_h_332 = map Consts.LInt [2; 1; 1; 2; 1]
  /\ short_lits Consts.lits_client_Conn_h_671 = [Consts.LInt 1; Consts.LInt 1; Consts.LStr m_plus_z; Consts.LInt 1]
  /\ short_lits Consts.lits_client_Conn_h_PART = [Consts.LInt 0]
  /\ short_lits Consts.lits_client_Conn_h_STNICK = [Consts.LInt 0]
  (* the prefixes the network model writes are the ones the handler strips, with the same meaning *)
  /\ forallb (fun c => bool_decide (prefix_mode (prefix_of_letter c) = Some [43%N; c])) [113; 97; 111; 104; 118]%N = true.
Proof. repeat split; vm_compute; reflexivity. Qed.

(* ---------- first sentence: conformant sessions ----------
   [wf_net nt] (Proofs/NetSimEv.v): the truth is consistent, its names are protocol words (nicks,
   users, hosts, channels, keys: non-empty, no space / NUL / CR / LF, no leading ':', nicks and
   user@host without '!' '@'; topics, real names: no NUL / CR / LF), and the VIEW holds EXACTLY
   the client's channels (d1), EXACTLY their memberships (d2), EXACTLY the client and the users
   sharing a channel with it (d3).  A conformant session = any list of events: an event that is
   not valid in the state it meets ([ev_valid]: nick change onto a name in use, join of a channel
   one is on, ...) changes nothing and shows nothing.  [ev_inclaim]: no argument-taking mode
   letter after "-k" in one MODE line (property text); list modes b e I with their mask are
   inside the claim at any position (D10 is fixed). *)

(* ONE EVENT, every kind (join of the client with 332/353*/366, join of others, part, kick,
   quit, nick, topic, mode, 324, WHO replies): the handlers turn the view before the event into
   the view after it *)
Theorem C13_sim_step : forall nt e,
  wf_net nt -> ev_inclaim e = true -> feed (n_view nt) (lines_for nt e) = n_view (step nt e).
Proof. exact sim_step. Qed.

(* well-formedness: holds after registration, is preserved by EVERY event *)
Theorem C13_sim_init : forall me ui attr,
  nick_ok me = true -> LineSend.name_ok (ui_user ui) = true -> LineSend.name_ok (ui_host ui) = true ->
  text_ok (ui_real ui) = true -> LineSend.middle_ok (ui_user ui) = true -> LineSend.middle_ok (ui_host ui) = true ->
  wf_net (net0 me ui attr).
Proof. exact wf_net0. Qed.
Theorem C13_wf_step : forall nt e, wf_net nt -> wf_net (step nt e).
Proof. exact wf_step. Qed.

(* every message the server shows is a well-formed message in the sense of C01 *)
Theorem C13_lines_wf : forall nt e, wf_net nt -> Forall (fun m => LineSend.wf_msg m = true) (lines_for nt e).
Proof. exact lines_wf. Qed.

(* SESSIONS of any length, at the level of parsed lines ... *)
Theorem C13_sim : forall evs nt,
  wf_net nt -> Forall (fun e => ev_inclaim e = true) evs -> track nt (n_view nt) evs = n_view (run_net nt evs).
Proof. exact sim_all. Qed.

(* ... and on the RAW BYTES a conformant server sends (each message rendered, CR LF appended):
   recv's Trim + ParseLine, then the state handlers; the tracker ends up equal to the view, and
   the view is exactly the truth's channels / memberships / sharing users (wf_net) *)
Theorem C13_sim_bytes : forall evs nt,
  wf_net nt -> Forall (fun e => ev_inclaim e = true) evs ->
  run_raw (n_view nt) (session_wire nt evs) = n_view (run_net nt evs) /\ wf_net (run_net nt evs).
Proof. exact sim_bytes. Qed.

(* the mode parser on a rendered mode line computes the meaning of the changes (flags, +k/-k,
   +l/-l, privileges of members, list modes with their mask), for every line inside the claim *)
Theorem C13_mode_line : forall t c chs tail,
  Forall (chg_good c (ts_member t)) chs -> modes_inclaim chs = true ->
  fst (sp_ChannelModes t c (render_modes None chs) (mode_args chs ++ tail)) = v_modes t c chs.
Proof. exact ChannelModes_changes. Qed.

(* once a WHO reply about a known user arrived, the view holds the truth's user@host and real name *)
Theorem C13_who_reveals : forall nt n ui a,
  nick_ok n = true ->
  n_users nt !! n = Some ui -> ts_nicks (n_view nt) !! n = Some a -> n <> n_me nt ->
  exists a', ts_nicks (n_view (step nt (EReplyWhoNick n))) !! n = Some a'
             /\ na_ident a' = ui_user ui /\ na_host a' = ui_host ui /\ na_name a' = ui_real ui.
Proof. exact who_reveals. Qed.

(* ---------- second sentence: arbitrary, non-conformant lines ---------- *)
(* [rob_ok] (Model/StateHandlers.v) = (1) the client's own nick is tracked, (2) every tracked
   channel has the client on it, (3) every other tracked nick is on some tracked channel;
   it is the predicate the check evaluates on every dump of the real tracker.
   One line: for EVERY line value, EVERY strings.ToLower, whether or not the handler panics
   half-way (effects before the panic are kept, as in Go under Recover). *)
Theorem C13_robust_step : forall lower_fn t l,
  sp_inv t -> rob_ok t = true ->
  let t' := h_trk (hres_st (handle_state_with lower_fn t l)) in sp_inv t' /\ rob_ok t' = true.
Proof.
  intros lower_fn t l I H. apply rob_ok_spec in H; [|done].
  pose proof (handle_state_rob lower_fn t l H) as H'. split; [apply H'|]. apply rob_ok_spec; [apply H'|done].
Qed.

(* every sequence of lines, from the state the tracker has after registration *)
Theorem C13_robust : forall me attr (ls : list Line.line), rob_ok (run_lines (view0 me attr) ls) = true.
Proof.
  intros me attr ls. pose proof (run_lines_rob ls _ (rob_inv_view0 me attr)) as H.
  apply rob_ok_spec; [apply H|done].
Qed.

(* every sequence of byte strings through recv's Trim + ParseLine *)
Theorem C13_robust_bytes : forall me attr (raws : list (list N)), rob_ok (run_raw (view0 me attr) raws) = true.
Proof.
  intros me attr raws. pose proof (run_raw_rob raws _ (rob_inv_view0 me attr)) as H.
  apply rob_ok_spec; [apply H|done].
Qed.

(* the tracker calls of the own-nick handlers (handlers.go h_001 / h_433: NickInfo and ReNick,
   C17's subject) keep the invariants whatever their arguments are *)
Theorem C13_robust_own_nick : forall t old neu n i h r,
  sp_inv t -> rob_ok t = true ->
  rob_ok (fst (sp_ReNick t old neu)) = true /\ rob_ok (fst (sp_NickInfo t n i h r)) = true.
Proof.
  intros t old neu n i h r I H. apply rob_ok_spec in H; [|done]. split.
  - pose proof (ReNick_inv t old neu H) as H'. apply rob_ok_spec; [apply H'|done].
  - pose proof (inv_same_keys _ _ _ _ (NickInfo_keys t n i h r) H) as H'. apply rob_ok_spec; [apply H'|done].
Qed.

(* ---------- examples ---------- *)
Definition x_me : name := [118;98;111;116]%N.        (* "vbot" *)
Definition x_al : name := [97;108]%N.
Definition x_bo : name := [98;111]%N.
Definition x_cy : name := [99;121]%N.
Definition x_x : name := [35;120]%N.                 (* "#x" *)
Definition x_y : name := [35;121]%N.
Definition x_ui := Build_uinfo [118;105]%N [99;46;101;120]%N [118;32;110]%N.
Definition x_net0 := net0 x_me x_ui (attr_of x_ui).

(* a concrete 12-event session (after three users connected): every event kind once *)
Definition x_session : list event :=
  [EConnect x_al [97]%N [104;49]%N [65;32;76]%N; EConnect x_bo [98]%N [104;50]%N []; EConnect x_cy [99]%N [104;51]%N [67]%N;
   EJoin x_al x_x; EJoin x_bo x_x;
   EJoin x_me x_x;                                  (* JOIN echo, 353 "@al bo vbot", 366 *)
   EReplyMode x_x; EReplyWhoChan x_x;               (* 324, 352 x3 + 315 *)
   EMode x_al x_x [MFlag true 116; MFlag true 110; MKey true [107;101;121]; MPriv true 118 x_bo; MLimit true 25; MFlag false 110]%N;
   ETopic x_al x_x [104;105;32;97;108;108]%N;
   EJoin x_cy x_x; EReplyWhoNick x_cy;
   ENick x_bo [98;111;50]%N;
   EKick x_al x_x x_cy [111;117;116]%N;
   EJoin x_me x_y;
   EPart x_al x_x [98;121;101]%N;
   EQuit [98;111;50]%N [103;111;110;101]%N].


(* the final tracker: channels #x (topic, +t, key, limit 25) and #y with the client alone on
   both ... and it equals the network's view, and all server lines were well-formed *)
Example C13_example_session :
  let t := track x_net0 (n_view x_net0) x_session in
  bool_decide (t = n_view (run_net x_net0 x_session)) = true
  /\ dump (Build_universe [x_me; x_al; x_bo; x_cy; [98;111;50]%N] [x_x; x_y]) t
     = [[78]; x_me; [118;105]; [99;46;101;120]; [118;32;110]; []; [50]; x_x; []; x_y; [111];
        [78]; x_me; [118;105]; [99;46;101;120]; [118;32;110]; []; [50]; x_x; []; x_y; [111];
        [67]; x_x; [104;105;32;97;108;108]; [116]; [107;101;121]; [50;53]; [49]; x_me; [];
        [67]; x_y; []; []; []; [48]; [49]; x_me; [111];
        [73]; [80]; [80;111]]%N
  /\ rob_ok t = true.
Proof. vm_compute. repeat split; reflexivity. Qed.

(* robustness is not vacuous: a hostile sequence with a panicking handler (JOIN without
   arguments), a NAMES list for a tracked channel, a KICK of the client *)
Definition x_raw (s : list N) : list N := s.
Example C13_example_hostile :
  let ls := [ [58;118;98;111;116;33;117;64;104;32;74;79;73;78;32;35;120];                       (* :vbot!u@h JOIN #x *)
              [58;115;32;51;53;51;32;118;98;111;116;32;61;32;35;120;32;58;64;97;108;32;43;43;98;111]; (* :s 353 vbot = #x :@al ++bo *)
              [58;97;108;33;117;64;104;32;74;79;73;78];                                          (* :al!u@h JOIN  (panics) *)
              [58;97;108;33;117;64;104;32;75;73;67;75;32;35;120;32;118;98;111;116] ]%N in         (* :al!u@h KICK #x vbot *)
  let t3 := run_raw (view0 x_me new_nickattr) (firstn 3 ls) in
  let t4 := run_raw (view0 x_me new_nickattr) ls in
  is_some (ts_nicks t3 !! x_al) = true /\ is_some (ts_nicks t3 !! [43;98;111]%N) = true /\ is_some (ts_member t3 !! (x_x, [43;98;111]%N)) = true
  /\ hres_panicked (handle_state t3 {| Line.l_tags := None; Line.l_nick := x_al; Line.l_ident := []; Line.l_host := [];
                                       Line.l_src := []; Line.l_cmd := [74;79;73;78]%N; Line.l_raw := []; Line.l_args := [] |}) = true
  /\ bool_decide (ts_nicks t4 = {[ x_me := new_nickattr ]}) = true /\ bool_decide (ts_chans t4 = ∅) = true
  /\ rob_ok t3 = true /\ rob_ok t4 = true.
Proof. vm_compute. repeat split; reflexivity. Qed.

(* regression witness for DESIGN D10 (fixed): with the parser as it stood before the fix,
   "MODE #x +bo *!*@* al" loses the +o; the present parser keeps it; the line is inside the claim *)
Example C13_D10_regression :
  let c := [35; 120]%N in let al := [97; 108]%N in
  let mem : gmap (name * name) privs := {[ (c, al) := no_privs ]} in
  let chs := [MList true 98 [42; 33; 42; 64; 42]; MPriv true 111 al]%N in
  let st0 := Build_pstate false (mode_args chs) no_chanmode mem in
  option_map cp_o (ps_mem (fold_left (chan_parse_char_old c) (render_modes None chs) st0) !! (c, al)) = Some false
  /\ option_map cp_o (ps_mem (fold_left (chan_parse_char c) (render_modes None chs) st0) !! (c, al)) = Some true
  /\ modes_inclaim chs = true.
Proof. exact D10_regression. Qed.

(* a session with a list mode before a privilege letter: the tracker follows the network *)
Example C13_example_listmode :
  let evs := [EConnect x_al [97]%N [104;49]%N []; EJoin x_al x_x; EJoin x_me x_x;
              EMode x_al x_x [MList true 98 [42;33;42;64;42]; MPriv true 111 x_me; MKey true [107]; MList false 101 [120]]%N] in
  forallb ev_inclaim evs = true
  /\ option_map cp_o (ts_member (track x_net0 (n_view x_net0) evs) !! (x_x, x_me)) = Some true
  /\ bool_decide (track x_net0 (n_view x_net0) evs = n_view (run_net x_net0 evs)) = true.
Proof. vm_compute. repeat split; reflexivity. Qed.

Print Assumptions tie_C13.
Print Assumptions C13_sim_step.
Print Assumptions C13_sim_init.
Print Assumptions C13_wf_step.
Print Assumptions C13_lines_wf.
Print Assumptions C13_sim.
Print Assumptions C13_sim_bytes.
Print Assumptions C13_mode_line.
Print Assumptions C13_who_reveals.
Print Assumptions C13_D10_regression.
Print Assumptions C13_example_listmode.
Print Assumptions C13_robust_step.
Print Assumptions C13_robust.
Print Assumptions C13_robust_bytes.
Print Assumptions C13_robust_own_nick.
Print Assumptions C13_example_session.
Print Assumptions C13_example_hostile.

(* generated-code tie, stages 2-3: the state handlers.  Gen/GoFuncs.v holds the Gallina TRANSLATION
   of the Go bodies of ALL 13 state handlers (conn.st as an option of an abstract state with the
   Tracker interface as a record of functions; a *state.Nick / *state.Channel as an option of the
   tuple of its string fields plus ONE abstract component for Modes and Channels / Nicks;
   Nick.Equals = reflect.DeepEqual as equality of such tuples; the fallthrough switch of h_353 as
   the chain it means).  For EVERY Tracker record whose methods are TrackerSpec's sp_*
   (GenEqState.spec_tracker; satisfiable: spec_as_tracker) each handler, started with tracking
   on, returns the model handler's final tracker state (and lines) and is Panic exactly when the
   model panics.  h_MODE, h_311, h_352, h_JOIN also assign conn.cfg.Me through conn.Me(): that
   component is projected away here (Client.v's st_calls_me describes it); h_JOIN needs the
   tracker to know its own nick, because DeepEqual(nil, nil) is true and me_equals is not. *)
From Verif Require GoFuncs GenEqState.
Theorem gen_C13_state_handlers : forall trk, GenEqState.spec_tracker trk -> forall t l,
  GoFuncs.go_client_Conn_h_STNICK trk (Some t) (Line.l_args l) (Line.l_nick l)
    = GenEqState.of_hres (StateHandlers.h_STNICK l (GenEqState.hst0 t))
  /\ GoFuncs.go_client_Conn_h_PART trk (Some t) (Line.l_args l) (Line.l_nick l)
    = GenEqState.of_hres (StateHandlers.h_PART l (GenEqState.hst0 t))
  /\ GoFuncs.go_client_Conn_h_KICK trk (Some t) (Line.l_args l)
    = GenEqState.of_hres (StateHandlers.h_KICK l (GenEqState.hst0 t))
  /\ GoFuncs.go_client_Conn_h_QUIT trk (Some t) (Line.l_nick l)
    = GenEqState.of_hres (StateHandlers.h_QUIT l (GenEqState.hst0 t))
  /\ GoFuncs.go_client_Conn_h_TOPIC trk (Some t) (Line.l_args l)
    = GenEqState.of_hres (StateHandlers.h_TOPIC l (GenEqState.hst0 t))
  /\ GoFuncs.go_client_Conn_h_324 trk (Some t) (Line.l_args l)
    = GenEqState.of_hres (StateHandlers.h_324 l (GenEqState.hst0 t))
  /\ GoFuncs.go_client_Conn_h_332 trk (Some t) (Line.l_args l)
    = GenEqState.of_hres (StateHandlers.h_332 l (GenEqState.hst0 t))
  /\ GoFuncs.go_client_Conn_h_671 trk (Some t) (Line.l_args l)
    = GenEqState.of_hres (StateHandlers.h_671 l (GenEqState.hst0 t))
  /\ GoFuncs.go_client_Conn_h_353 trk (Some t) (Line.l_args l)
    = GenEqState.of_hres (StateHandlers.h_353 l (GenEqState.hst0 t)).
Proof. exact GenEqState.go_state_handlers_eq. Qed.
Theorem gen_C13_state_handlers_me : forall trk, GenEqState.spec_tracker trk -> forall me t l,
  GoBytes.bind (GoFuncs.go_client_Conn_h_MODE GenEqState.nrest_eqb trk me (Some t) (Line.l_args l))
               (fun r => GoBytes.Ok (snd r))
    = GenEqState.of_hres (StateHandlers.h_MODE l (GenEqState.hst0 t))
  /\ GoBytes.bind (GoFuncs.go_client_Conn_h_311 GenEqState.nrest_eqb trk me (Some t) (Line.l_args l))
                  (fun r => GoBytes.Ok (snd r))
    = GenEqState.of_hres (StateHandlers.h_311 l (GenEqState.hst0 t))
  /\ GoBytes.bind (GoFuncs.go_client_Conn_h_352 GenEqState.nrest_eqb trk me (Some t) (Line.l_args l))
                  (fun r => GoBytes.Ok (snd r))
    = GenEqState.of_hres (StateHandlers.h_352 l (GenEqState.hst0 t))
  /\ (StateHandlers.is_some (snd (sp_Me t)) = true ->
      GoBytes.bind (GoFuncs.go_client_Conn_h_JOIN GenEqState.nrest_eqb trk me (Some t) (Line.l_args l)
                      (Line.l_host l) (Line.l_ident l) (Line.l_nick l))
                   (fun r => GoBytes.Ok (snd (fst r), snd r))
      = GenEqState.of_hres_out (StateHandlers.h_JOIN l (GenEqState.hst0 t))).
Proof. exact GenEqState.go_state_handlers_me_eq. Qed.
Example gen_C13_tracker_instance : GenEqState.spec_tracker GenEqState.spec_as_tracker.
Proof. exact GenEqState.spec_as_tracker_ok. Qed.
Print Assumptions gen_C13_state_handlers.
Print Assumptions gen_C13_state_handlers_me.
Print Assumptions gen_C13_tracker_instance.
