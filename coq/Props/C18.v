(* Props/C18.v — C18: registration and keep-alive follow the protocol.
   Model: Model/Register.v (client/handlers.go h_REGISTER h_PING, client/connection.go hasPort,
   the default-port step of internalConnect with net.JoinHostPort, postConnect's PingFreq test,
   one tick of ping; command methods from Model/Commands.v); proofs: Proofs/RegisterProofs.v.
   The server's PING lines go through the parser of Model/Line.v by C01's round trip. *)
From Coq Require Import String.
From Verif Require Import GoBytes LineLib Line LineSend Split Commands NickHandlers Register.
From Verif Require Import GoBytesFacts CommandsProofs NickProofs RegisterProofs Consts Facts.
Notation length := List.length.
Open Scope Z_scope.

(* ---------- tie ---------- *)
Fixpoint starts_with (p l : list string) : bool :=
  match p, l with
  | [], _ => true
  | x :: p', y :: l' => String.eqb x y && starts_with p' l'
  | _ :: _, [] => false
  end.
Fixpoint is_infix (p l : list string) : bool :=
  starts_with p l || match l with [] => false | _ :: l' => is_infix p l' end.
Definition hname18 (s : string) : string := String.append "(" (String.append "*Conn)." s).
Fixpoint adjacent18 (a b : string) (l : list string) : bool :=
  match l with
  | x :: ((y :: _) as l') => (String.eqb x a && String.eqb y b) || adjacent18 a b l'
  | _ => false
  end.

Lemma tie_C18 :
  flow_client_Conn_h_REGISTER = ["if{"; "conn.Cap"; "}"; "if{"; "conn.Pass"; "}"; "conn.Nick"; "conn.User"]%string
  /\ lits_client_Conn_h_REGISTER = [LStr s_LS; LStr []]
  /\ const_client_CAP_LS = s_LS
  /\ flow_client_Conn_h_PING = ["conn.Pong"]%string /\ lits_client_Conn_h_PING = [LInt 0]
  (* the command methods: one conn.Raw each, with these prefixes *)
  /\ flow_client_Conn_Pass = ["conn.Raw"]%string /\ lits_client_Conn_Pass = [LStr (s_PASS ++ s_sp)]
  /\ flow_client_Conn_Nick = ["conn.Raw"]%string /\ lits_client_Conn_Nick = [LStr (s_NICK ++ s_sp)]
  /\ flow_client_Conn_User = ["conn.Raw"]%string /\ lits_client_Conn_User = [LStr (s_USER ++ s_sp); LStr s_user_mid]
  /\ flow_client_Conn_Pong = ["conn.Raw"]%string /\ lits_client_Conn_Pong = [LStr (s_PONG ++ s_sp_colon)]
  /\ flow_client_Conn_Ping = ["conn.Raw"]%string /\ lits_client_Conn_Ping = [LStr (s_PING ++ s_sp_colon)]
  /\ flow_client_Conn_Raw = ["cutNewLines"; "send conn.out"]%string
  (* hasPort: LastIndex(s, ":") > LastIndex(s, "]") *)
  /\ flow_client_hasPort = ["strings.LastIndex"; "strings.LastIndex"; "return"]%string
  /\ lits_client_hasPort = [LStr s_colon; LStr s_rbracket]
  (* internalConnect: after initialise, [if !hasPort { if SSL { JoinHostPort "6697" } else { JoinHostPort "6667" } }] *)
  /\ is_infix ["conn.initialise"; "hasPort"; "if{"; "if{"; "net.JoinHostPort"; "set conn.cfg.Server"; "}";
               "else{"; "net.JoinHostPort"; "set conn.cfg.Server"; "}"; "}"]%string flow_client_Conn_internalConnect = true
  /\ nth 3 lits_client_Conn_internalConnect LOther = LStr port_ssl
  /\ nth 4 lits_client_Conn_internalConnect LOther = LStr port_plain
  (* postConnect: three goroutines always, [if PingFreq > 0 { wg.Add(1); go conn.ping(ctx) }] *)
  /\ is_infix ["go conn.send"; "go conn.recv"; "go conn.runLoop"; "if{"; "conn.wg.Add"; "go conn.ping"; "}"]%string
              flow_client_Conn_postConnect = true
  /\ lits_client_Conn_postConnect = [LInt 3; LInt 0; LInt 1]
  (* ping: on each tick conn.Ping(Sprintf("%d", time.Now().UnixNano())) *)
  /\ is_infix ["recv tick.C"; "conn.Ping"; "time.Now().UnixNano"]%string flow_client_Conn_ping = true
  /\ lits_client_Conn_ping = [LStr [37; 100]%N]
  (* handler table *)
  /\ adjacent18 """REGISTER""" (hname18 "h_REGISTER") var_client_intHandlers = true
  /\ adjacent18 """PING""" (hname18 "h_PING") var_client_intHandlers = true
  /\ const_client_PING = c_PING
  (* NewConfig's default PingFreq is 3 minutes (> 0: pings are on unless switched off) *)
  /\ nth 0 lits_client_NewConfig LOther = LInt 180000000000.
Proof. repeat split; vm_compute; reflexivity. Qed.

(* ---------- registration ---------- *)
(* the lines h_REGISTER hands to the output queue, for EVERY configuration with a non-nil Me:
   CAP LS iff negotiation is enabled, PASS iff the password is non-empty, then NICK and USER —
   once each, in this order; each line is cut at the first CR or LF of its arguments *)
Theorem C18_registration : forall c me, rc_me c = Some me ->
  emit_register c =
  ((if rc_negotiate c then [s_CAP ++ s_sp ++ s_LS] else [])
   ++ (if beq (rc_pass c) [] then [] else [s_PASS ++ s_sp ++ cut_nl (rc_pass c)])
   ++ [s_NICK ++ s_sp ++ cut_nl (nk_nick me);
       s_USER ++ s_sp ++ cut_nl (nk_ident me ++ s_user_mid ++ nk_name me)], false).
Proof. exact emit_register_shape. Qed.

(* password, nick, ident and name free of CR/LF: PASS <password>, NICK <nick>, USER <ident> 12 * :<name> *)
Theorem C18_registration_exact : forall c me, rc_me c = Some me ->
  clean (rc_pass c) -> clean (nk_nick me) -> clean (nk_ident me) -> clean (nk_name me) ->
  emit_register c = (reg_exact (rc_negotiate c) (rc_pass c) (nk_nick me) (nk_ident me) (nk_name me), false).
Proof. exact emit_register_exact. Qed.

Theorem C18_registration_verbs : forall c me, rc_me c = Some me ->
  map first_word (fst (emit_register c)) = reg_verbs (rc_negotiate c) (rc_pass c).
Proof. exact register_verbs. Qed.

(* a nil Config.Me (what C17_never_nil excludes): CAP LS and PASS go out, then the handler panics *)
Theorem C18_registration_nil_me : forall c, rc_me c = None ->
  emit_register c =
  ((if rc_negotiate c then [s_CAP ++ s_sp ++ s_LS] else [])
   ++ (if beq (rc_pass c) [] then [] else [s_PASS ++ s_sp ++ cut_nl (rc_pass c)]), true).
Proof. exact emit_register_nil. Qed.

(* the runtime oracle of ./check C18 (kind "reg") holds of the model's lines *)
Theorem C18_reg_holds : forall c me, rc_me c = Some me ->
  C18_reg_ok (rc_negotiate c) (rc_pass c) me (fst (emit_register c)) = true.
Proof. exact reg_ok_model. Qed.

(* ---------- the dial address ---------- *)
(* no ':' in Config.Server: host:6667, host:6697 with SSL *)
Theorem C18_dial : forall c, ~ In 58%N (rc_server c) ->
  dial_addr c = rc_server c ++ s_colon ++ (if rc_ssl c then port_ssl else port_plain).
Proof. exact dial_default. Qed.

(* whenever hasPort says a port was given the address is used unchanged ... *)
Theorem C18_dial_has_port : forall c, has_port (rc_server c) = true -> dial_addr c = rc_server c.
Proof. exact dial_has_port. Qed.
(* ... in particular for host:port *)
Theorem C18_dial_host_port : forall s, In 58%N s -> ~ In 93%N s -> has_port s = true.
Proof. exact has_port_colon. Qed.

Theorem C18_dial_holds : forall c, C18_dial_ok (rc_server c) (rc_ssl c) (dial_addr c) = true.
Proof. exact dial_ok_model. Qed.

(* IPv6 literals — OUTSIDE the claim, modelled faithfully and compared on every run:
   "[::1]:6697" is kept; a bare "::1" is taken to have a port and kept; a bracketed literal
   WITHOUT a port gets a second pair of brackets ("[[::1]]:6667"), an address no dialer accepts *)
Definition c18_cfg (server : bytes) (ssl : bool) : reg_cfg :=
  {| rc_negotiate := false; rc_pass := []; rc_me := None; rc_server := server; rc_ssl := ssl; rc_ping_freq := 0 |}.
Example C18_dial_ipv6 :
  dial_addr (c18_cfg [91;58;58;49;93;58;54;54;57;55]%N false) = [91;58;58;49;93;58;54;54;57;55]%N
  /\ dial_addr (c18_cfg [58;58;49]%N false) = [58;58;49]%N
  /\ dial_addr (c18_cfg [91;58;58;49;93]%N false) = [91;91;58;58;49;93;93;58;54;54;54;55]%N.
Proof. repeat split; vm_compute; reflexivity. Qed.

(* ---------- PING from the server ---------- *)
(* "PING :tok", with or without a source: EVERY token the wire can carry (any bytes but NUL CR
   LF: spaces, colons, empty, any length) is answered by exactly "PONG :tok", no panic *)
Theorem C18_pong : forall src tok, src_ok src = true -> forallb trailing_byte tok = true ->
  pong_of_raw (wire (ping_trailing src tok)) = ([s_PONG ++ s_sp_colon ++ tok], false).
Proof. exact pong_trailing. Qed.

(* the one-word form "PING tok" *)
Theorem C18_pong_one_word : forall src tok, src_ok src = true -> middle_ok tok = true ->
  pong_of_raw (wire (ping_middle src tok)) = ([s_PONG ++ s_sp_colon ++ tok], false).
Proof. exact pong_middle. Qed.

(* a PING that carries no token: line.Args[0] panics (contained by Recover), nothing is sent *)
Theorem C18_ping_no_args : forall l, l_args l = [] -> h_PING l = ([], true).
Proof. exact ping_no_args. Qed.

Theorem C18_pong_holds : forall tok, C18_pong_ok (Some tok) [s_PONG ++ s_sp_colon ++ tok] = true.
Proof. exact pong_ok_model. Qed.

(* any number of PINGs in a row (the check sends 40 while the event loop is blocked, more than
   the input queue of 32 holds): one PONG each, in order.  The model is sequential: that no line
   is lost between recv and the loop is C02/C03's subject; here it is observed (kind "busy") *)
Theorem C18_busy_holds : forall toks, Forall (fun t => forallb trailing_byte t = true) toks ->
  C18_busy_ok toks (flat_map (fun t => fst (pong_of_raw (wire (ping_trailing None t)))) toks) = true.
Proof. exact busy_ok_model. Qed.

(* ---------- PING from the client ---------- *)
(* the ping goroutine exists iff PingFreq > 0 (tie_C18: postConnect's test and literal 0) *)
Theorem C18_pings : forall c, pings_enabled c = true <-> 0 < rc_ping_freq c.
Proof. intros c. unfold pings_enabled. lia. Qed.

(* each tick sends exactly "PING :<decimal nanoseconds>" *)
Theorem C18_ping_tick : forall nanos, ping_tick nanos = [s_PING ++ s_sp_colon ++ dec_of_Z nanos].
Proof. exact ping_tick_shape. Qed.
Theorem C18_ping_tick_digits : forall nanos, 0 <= nanos ->
  Forall (fun c => is_digit_b c = true) (dec_of_Z nanos).
Proof. exact ping_tick_digits. Qed.

Theorem C18_pings_holds : forall c, C18_pings_ok (rc_ping_freq c) (pings_enabled c) true = true.
Proof. intros c. unfold C18_pings_ok, pings_enabled. destruct (rc_ping_freq c >? 0); reflexivity. Qed.

(* ---------- non-vacuity ---------- *)
(* negotiation on, password "p w :x", nick "vbot", ident "vident", name "v name", irc.example, SSL *)
Definition c18_me : nickrec :=
  {| nk_nick := [118;98;111;116]%N; nk_ident := [118;105;100;101;110;116]%N; nk_host := [];
     nk_name := [118;32;110;97;109;101]%N |}.
Definition c18_example : reg_cfg :=
  {| rc_negotiate := true; rc_pass := [112;32;119;32;58;120]%N; rc_me := Some c18_me;
     rc_server := [105;114;99;46;101;120;97;109;112;108;101]%N; rc_ssl := true; rc_ping_freq := 180000000000 |}.
Example C18_nonvacuous :
  emit_register c18_example =
    ([[67;65;80;32;76;83];                                                  (* CAP LS *)
      [80;65;83;83;32;112;32;119;32;58;120];                                (* PASS p w :x *)
      [78;73;67;75;32;118;98;111;116];                                      (* NICK vbot *)
      [85;83;69;82;32;118;105;100;101;110;116;32;49;50;32;42;32;58;118;32;110;97;109;101]]%N, false)  (* USER vident 12 * :v name *)
  /\ dial_addr c18_example = [105;114;99;46;101;120;97;109;112;108;101;58;54;54;57;55]%N   (* irc.example:6697 *)
  /\ pings_enabled c18_example = true
  (* "PING :a b :c" -> "PONG :a b :c";  ":irc.example PING :" -> "PONG :" *)
  /\ pong_of_raw (wire (ping_trailing None [97;32;98;32;58;99]%N)) = ([[80;79;78;71;32;58;97;32;98;32;58;99]%N], false)
  /\ pong_of_raw (wire (ping_trailing (Some (SrcServer srv_name)) [])) = ([[80;79;78;71;32;58]%N], false)
  /\ ping_tick 1790000000123456789
     = [[80;73;78;71;32;58;49;55;57;48;48;48;48;48;48;48;49;50;51;52;53;54;55;56;57]%N].
Proof. repeat split; vm_compute; reflexivity. Qed.

(* CR/LF inside the configuration: every line is cut, never split in two *)
Example C18_cut :
  fst (emit_register {| rc_negotiate := false; rc_pass := [112;10;119]%N;
                        rc_me := Some {| nk_nick := [110;13;120]%N; nk_ident := [105]%N; nk_host := [];
                                         nk_name := [110;97;13;10;109;101]%N |};
                        rc_server := []; rc_ssl := false; rc_ping_freq := 0 |})
  = [[80;65;83;83;32;112]; [78;73;67;75;32;110]; [85;83;69;82;32;105;32;49;50;32;42;32;58;110;97]]%N.
Proof. vm_compute. reflexivity. Qed.

Print Assumptions tie_C18.
Print Assumptions C18_registration.
Print Assumptions C18_registration_exact.
Print Assumptions C18_reg_holds.
Print Assumptions C18_dial.
Print Assumptions C18_dial_holds.
Print Assumptions C18_pong.
Print Assumptions C18_pong_one_word.
Print Assumptions C18_pings.
Print Assumptions C18_ping_tick.

(* generated-code tie *)
(* Gen/GoFuncs.v holds the Gallina TRANSLATION of the Go body of hasPort, regenerated from the
   source on every run (translator/go2coq.go); it is equal to the model has_port
   (Proofs/GenEqNick.v). *)
From Verif Require Import GoFuncs GenEqNick.
Theorem gen_C18_hasPort : forall s, go_client_hasPort s = Ok (has_port s).
Proof. exact go_hasPort_eq. Qed.
Print Assumptions gen_C18_hasPort.

(* generated-code tie, stage 2: the handlers.  The Gallina TRANSLATION of h_PING and h_REGISTER
   (Gen/GoFuncs.v: the receiver / line fields used are parameters, the result is the list of lines
   sent, a panic is Panic) gives the model's lines when the model does not panic, and Panic
   exactly when it does (Proofs/GenEqHandlers.v; conn.cfg.Me as an option of the tuple
   (Nick, Ident, Host, Name), [onick]) *)
From Verif Require Import GenEqHandlers.
Theorem gen_C18_h_PING : forall l,
  go_client_Conn_h_PING (l_args l) = if snd (h_PING l) then Panic else Ok (fst (h_PING l)).
Proof. exact go_h_PING_eq. Qed.
Theorem gen_C18_h_REGISTER : forall c,
  go_client_Conn_h_REGISTER (rc_negotiate c) (onick (rc_me c)) (rc_pass c)
  = if snd (emit_register c) then Panic else Ok (fst (emit_register c)).
Proof. exact go_h_REGISTER_eq. Qed.
Print Assumptions gen_C18_h_PING.
Print Assumptions gen_C18_h_REGISTER.

(* generated-code tie, stage 6: the address that is dialled.  Most of internalConnect (dialling, TLS,
   goroutines) is outside the translated subset; Gen/GoFuncs.v holds the Gallina TRANSLATION of ONE
   statement of it, the top-level if-statement whose condition calls hasPort (translator/go2coq.go,
   target stmt:hasPort:Conn.internalConnect; the translator refuses unless there is exactly one):
   inputs = the fields it reads (cfg.SSL, cfg.Server), result = the field it writes (cfg.Server);
   net.JoinHostPort is a variable, as every stdlib function that is not transliterated.
   Instantiated with the model's join_host_port it is dial_addr (Proofs/GenEqDial.v).
   That this value is what gets dialled is pinned by source facts regenerated on every run
   (Gen/DialFacts.v, translator/go2coq2.go dialFacts): every Dial / DialContext / DialTimeout call of
   package client passes conn.cfg.Server as the address — the direct one in internalConnect and
   BOTH branches of dialProxy; the only assignments to a cfg.Server field are ConnectToContext's
   (before Connect) and the two JoinHostPort ones of the translated statement; and in internalConnect
   that statement comes before the call of dialProxy and before the direct dial.  A dial site with
   another argument, a further write to cfg.Server or a changed order makes the tie fail to compile. *)
From Verif Require Import GenEqDial.
From Verif Require DialFacts.
Theorem gen_C18_dial_addr : forall c,
  go_client_Conn_internalConnect_if_hasPort join_host_port (rc_ssl c) (rc_server c) = Ok (dial_addr c).
Proof. exact go_internalConnect_addr_eq. Qed.
Lemma tie_C18_dial_sites :
  DialFacts.dial_sites_client
    = [("Conn.dialProxy"%string, "contextProxyDialer.DialContext"%string, "conn.cfg.Server"%string);
       ("Conn.dialProxy"%string, "conn.proxyDialer.Dial"%string, "conn.cfg.Server"%string);
       ("Conn.internalConnect"%string, "conn.dialer.DialContext"%string, "conn.cfg.Server"%string)]
  /\ DialFacts.server_writes_client
    = [("Conn.ConnectToContext"%string, "host"%string);
       ("Conn.internalConnect"%string, "net.JoinHostPort(conn.cfg.Server, ""6697"")"%string);
       ("Conn.internalConnect"%string, "net.JoinHostPort(conn.cfg.Server, ""6667"")"%string)]
  /\ DialFacts.dial_seq_client
    = [("addr"%string, "!hasPort(conn.cfg.Server)"%string);
       ("call"%string, "conn.dialProxy"%string);
       ("dial"%string, "conn.dialer.DialContext"%string)].
Proof. repeat split; reflexivity. Qed.
Print Assumptions gen_C18_dial_addr.
Print Assumptions tie_C18_dial_sites.
