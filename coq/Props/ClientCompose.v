(* Props/ClientCompose.v — the COMPOSED client (Model/Client.v): one sequential model of what
   the client does with a whole server session = recv's Trim + ParseLine, then every internal
   handler registered for the parsed verb ([var intHandlers], and [var stHandlers] while
   tracking), each under Recover, over the PRODUCT of the component states (own nick incl.
   cfg.Me — C17; tracker — C12/C13; capability sets + owed SASL data — C19; configuration).
   Theorems only ([exact] of lemmas in Proofs/ClientProofs.v): (a) totality, (b) frame lemmas,
   (c) the component theorems re-stated on whole sessions.  The differential tie to the Go
   code is check C02's case kind "transcript" (Model/ClientObs.v, harness/c02t.go). *)
From Coq Require Import String.
From Verif Require Import TrackerSpec TrackerSpecFacts StateHandlers NetProofs Client ClientObs ClientProofs.
From Verif Require GoBytes LineLib Line LineSend Commands NickHandlers Register Caps Consts Facts.
From Verif Require RecvSession LineTotal ClientLineFacts.
Open Scope Z_scope.

(* ---------- tie: the dispatch table and the glue the model adds are what the source says ---------- *)
Definition hname (s : string) : string := ("(" ++ "*Conn)." ++ s)%string.
Definition has_call (c : string) (flow : list string) : bool := existsb (String.eqb c) flow.
(* the flow skeleton of each state handler, in the order of [all_sth] *)
Definition sth_flows : list (list string) :=
  [Facts.flow_client_Conn_h_JOIN; Facts.flow_client_Conn_h_KICK; Facts.flow_client_Conn_h_MODE;
   Facts.flow_client_Conn_h_STNICK; Facts.flow_client_Conn_h_PART; Facts.flow_client_Conn_h_QUIT;
   Facts.flow_client_Conn_h_TOPIC; Facts.flow_client_Conn_h_311; Facts.flow_client_Conn_h_324;
   Facts.flow_client_Conn_h_332; Facts.flow_client_Conn_h_352; Facts.flow_client_Conn_h_353;
   Facts.flow_client_Conn_h_671].
Definition may_call_me (h : sth) : bool :=
  match h with StJOIN | StMODE | St311 | St352 => true | _ => false end.

Lemma tie_Client :
  (* var intHandlers, in source order: verb |-> method *)
  Consts.varlits_client_intHandlers = map (fun h => Consts.LStr (ih_verb h)) all_ih
  /\ Facts.var_client_intHandlers =
       ["""REGISTER"""; hname "h_REGISTER"; """001"""; hname "h_001"; """433"""; hname "h_433";
        """CTCP"""; hname "h_CTCP"; """NICK"""; hname "h_NICK"; """PING"""; hname "h_PING";
        """CAP"""; hname "h_CAP"; """410"""; hname "h_410"; """AUTHENTICATE"""; hname "h_AUTHENTICATE";
        """903"""; hname "h_903"; """904"""; hname "h_904"; """908"""; hname "h_908"]%string
  /\ Consts.varlits_client_stHandlers = map (fun h => Consts.LStr (sth_verb h)) all_sth
  (* registration: Client() adds the internal set, EnableStateTracking the tracking set, both
     through conn.handle = intHandlers.add; ConnectContext dispatches REGISTER *)
  /\ has_call "conn.addIntHandlers" Facts.flow_client_Client = true
  /\ Facts.flow_client_Conn_addIntHandlers = ["for{"; "conn.handle"; "}"]%string
  /\ Facts.flow_client_Conn_addSTHandlers = ["for{"; "conn.handle"; "set conn.stRemovers"; "}"]%string
  /\ Facts.flow_client_Conn_EnableStateTracking =
       ["conn.mu.Lock"; "defer conn.mu.Unlock"; "if{"; "state.NewTracker"; "set conn.st"; "conn.st.NickInfo";
        "conn.st.Me"; "set conn.cfg.Me"; "conn.addSTHandlers"; "}"]%string
  /\ Facts.flow_client_Conn_ConnectContext = ["conn.internalConnect"; "if{"; "conn.dispatch"; "time.Now"; "}"; "return"]%string
  (* dispatch: internal set first and synchronously; ToLower(Cmd); a goroutine per handler on a
     copy of the line, then wait; every handler under the deferred Recover *)
  /\ Facts.flow_client_Conn_dispatch =
       ["conn.intHandlers.dispatch"; "go conn.bgHandlers.dispatch"; "conn.fgHandlers.dispatch"]%string
  /\ Facts.flow_client_hSet_dispatch =
       ["strings.ToLower"; "for{"; "hs.getHandlers"; "wg.Add"; "go func"; "{"; "hn.Handle"; "line.Copy"; "wg.Done"; "}"; "}"; "wg.Wait"]%string
  /\ Facts.flow_client_hNode_Handle = ["defer conn.cfg.Recover"; "hn.handler.Handle"]%string
  /\ Facts.flow_client_Conn_runLoop =
       ["for{"; "select{"; "case"; "recv conn.in"; "conn.dispatch"; "case"; "ctx.Done"; "recv ctx.Done()";
        "conn.wg.Done"; "conn.closeIf"; "return"; "}"; "}"]%string
  (* h_CTCP (new in this model) and CtcpReply *)
  /\ Facts.flow_client_Conn_h_CTCP =
       ["if{"; "conn.CtcpReply"; "}"; "else{"; "line.argslen"; "if{"; "conn.CtcpReply"; "}"; "}"]%string
  /\ Consts.lits_client_Conn_h_CTCP =
       [Consts.LInt 0; Consts.LStr Commands.s_VERSION; Consts.LStr Commands.s_VERSION; Consts.LInt 0;
        Consts.LStr Commands.s_PING; Consts.LInt 2; Consts.LStr Commands.s_PING; Consts.LInt 2]
  /\ Facts.flow_client_Conn_CtcpReply = ["for{"; "splitMessage"; "if{"; "}"; "conn.Raw"; "strings.ToUpper"; "}"]%string
  (* Me() assigns cfg.Me while tracking; exactly these state handlers call it *)
  /\ Facts.flow_client_Conn_Me = ["if{"; "conn.st.Me"; "set conn.cfg.Me"; "}"; "return"]%string
  /\ map (has_call "conn.Me") sth_flows = map may_call_me all_sth
  (* h_REGISTER reads cfg.Me directly, never through Me() *)
  /\ has_call "conn.Me" Facts.flow_client_Conn_h_REGISTER = false.
Proof. vm_compute. repeat split; reflexivity. Qed.

Lemma st_calls_me_only h t l : st_calls_me h t l = true -> may_call_me h = true.
Proof. by destruct h. Qed.

(* ---------- (a) no panic escapes: lifts C02_handlers_contained to the REAL handler bodies ---------- *)
Theorem client_line_total : forall s raw, client_line_res s raw <> GoBytes.Panic.
Proof. exact ClientProofs.client_line_total. Qed.

Theorem client_line_defined : forall s raw, client_line_res s raw = GoBytes.Ok (client_line s raw).
Proof. exact client_line_ok. Qed.

(* every line is rejected (nothing happens) or dispatched; one output group per line, in order *)
Theorem client_line_rejected_or_dispatched : forall s raw,
  (RecvSession.parses raw = false /\ client_line s raw = (s, []))
  \/ (exists l, RecvSession.parsed raw = Some l
                /\ client_dispatch_with recovering_c s l = Some (client_line s raw)).
Proof.
  intros s raw. unfold RecvSession.parses, RecvSession.parsed.
  destruct (Line.recv_one raw) as [[l|]|] eqn:E.
  - right. exists l. split; [done|]. by apply client_line_dispatched.
  - left. split; [done|]. by apply ClientProofs.client_line_rejected.
  - by destruct (LineTotal.recv_one_total raw).
Qed.

Theorem client_session_complete : forall s raws, List.length (session_out s raws) = List.length raws.
Proof. intros s raws. apply client_session_length. Qed.

(* without the deferred Recover a bare "PING" kills the process; with it nothing happens *)
Theorem client_recover_needed :
  client_line_with unprotected_c (client0 x_cfg [118]%N [105]%N [110]%N false) x_ping = GoBytes.Panic
  /\ client_line (client0 x_cfg [118]%N [105]%N [110]%N false) x_ping
     = (client0 x_cfg [118]%N [105]%N [110]%N false, []).
Proof. exact ClientProofs.client_recover_needed. Qed.

(* NICK while tracking is the only verb with two internal handlers; they commute *)
Theorem client_nick_handlers_commute : forall s l t, c_trk s = Some t ->
  handlers_for s Commands.s_NICK = [HInt IhNICK; HSt StNICK]
  /\ run_handlers recovering_c [HInt IhNICK; HSt StNICK] s l
     = run_handlers recovering_c [HSt StNICK; HInt IhNICK] s l.
Proof. intros s l t E. split; [by apply (handlers_for_NICK s t)|by apply (nick_pair_commute s l t)]. Qed.

Theorem client_one_handler_per_verb : forall s cmd, ClientLineFacts.upper cmd ->
  (List.length (handlers_for s cmd) <= 1)%nat \/ cmd = Commands.s_NICK.
Proof. exact handlers_for_at_most_two. Qed.

(* the dispatcher's ToLower lookup on a parsed line: ParseLine upper-cases Cmd *)
Theorem client_parsed_cmd_upper : forall raw l, Line.recv_one raw = GoBytes.Ok (Some l) -> ClientLineFacts.upper (Line.l_cmd l).
Proof. exact ClientLineFacts.recv_one_cmd_upper. Qed.

(* the generic h_001 / h_433 used while tracking ARE C17's when run over C17's tracker *)
Theorem client_001_is_C17 : forall m t l,
  NickHandlers.h_001 (NickHandlers.Build_cstate m (Some t)) l
  = nh_of_gout (g_001 NickHandlers.tk_Me tkNickInfo NickHandlers.tk_ReNick {| g_me := m; g_trk := t |} l).
Proof. exact g_001_is_C17. Qed.
Theorem client_433_is_C17 : forall nn m t l,
  NickHandlers.h_433 nn (NickHandlers.Build_cstate m (Some t)) l
  = nh_of_gout (g_433 NickHandlers.tk_Me NickHandlers.tk_ReNick nn {| g_me := m; g_trk := t |} l).
Proof. exact g_433_is_C17. Qed.

(* ---------- (b) frame lemmas ---------- *)
Theorem frame_config : forall s raw, c_cfg (fst (client_line s raw)) = c_cfg s.
Proof. exact frame_cfg. Qed.
Theorem frame_tracking_mode : forall s raw, is_some (c_trk (fst (client_line s raw))) = is_some (c_trk s).
Proof. exact frame_tracking. Qed.
(* CAP / 410 / AUTHENTICATE / 903 / 904 / 908 lines touch neither cfg.Me nor the tracker *)
Theorem frame_caps : forall s raw l, Line.recv_one raw = GoBytes.Ok (Some l) -> In (Line.l_cmd l) caps_verbs ->
  c_me (fst (client_line s raw)) = c_me s /\ c_trk (fst (client_line s raw)) = c_trk s.
Proof. exact frame_caps_line. Qed.
(* the 13 state-handler verbs (NICK included) do not touch the capability state *)
Theorem frame_state : forall s raw l, Line.recv_one raw = GoBytes.Ok (Some l) -> In (Line.l_cmd l) state_verbs ->
  c_caps (fst (client_line s raw)) = c_caps s.
Proof. exact frame_state_line. Qed.
(* no verb other than the six touches it *)
Theorem frame_noncaps : forall s raw, ~ In (Caps.ev_cmd (ev_of_raw raw)) caps_verbs ->
  c_caps (fst (client_line s raw)) = c_caps s.
Proof.
  intros s raw H. destruct (caps_line s raw) as (H1 & _ & _). rewrite H1.
  by rewrite (caps_step_other s _ H).
Qed.
(* PING and CTCP lines touch nothing *)
Theorem frame_ping_ctcp : forall s raw l, Line.recv_one raw = GoBytes.Ok (Some l) -> In (Line.l_cmd l) pure_verbs ->
  fst (client_line s raw) = s.
Proof. exact frame_pure_line. Qed.

(* ---------- (c) component theorems on whole sessions ---------- *)
(* C13 (C13_robust / C13_robust_own_nick): the three tracker invariants after ANY session of
   ANY byte strings — 001 / 433 / NICK / CAP / PING / CTCP lines included *)
Theorem client_C13_robust : forall k nick ident name raws,
  exists t, c_trk (session_state (client0 k nick ident name true) raws) = Some t /\ rob_ok t = true.
Proof. exact client_tracker_robust. Qed.
(* ... from any state whose tracker satisfies them *)
Theorem client_C13_robust_from : forall s raws, trk_ok s -> trk_ok (session_state s raws).
Proof. exact session_trk_ok. Qed.

(* C17 (C17_never_nil): Config().Me and Me() are never nil, tracking on or off.  With tracking
   on this NEEDS C13's invariant (1): the spec tracker's Me() is a lookup of [ts_me] *)
Theorem client_C17_never_nil : forall k nick ident name tracking raws,
  let s := session_state (client0 k nick ident name tracking) raws in
  c_me s <> None /\ snd (client_Me s) <> None.
Proof. exact client_never_nil. Qed.

(* C18 (C18_pong): "PING :tok" anywhere in any session is answered by exactly [PONG :tok] at ITS
   position in the output — after what the earlier lines caused, before what the later ones
   cause — and changes no state *)
Theorem client_C18_pong_in_order : forall s before after src tok,
  LineSend.src_ok src = true -> forallb LineSend.trailing_byte tok = true ->
  let ping := LineSend.wire (Register.ping_trailing src tok) in
  session_out s (before ++ ping :: after)
  = session_out s before ++ [Commands.s_PONG ++ Commands.s_sp_colon ++ tok]
    :: session_out (session_state s before) after
  /\ session_state s (before ++ [ping]) = session_state s before.
Proof. exact pong_in_order. Qed.
(* every PING line, conformant or not, in any state: what C18's [pong_of_raw] says *)
Theorem client_C18_pong_any : forall s raw l, Line.recv_one raw = GoBytes.Ok (Some l) -> Line.l_cmd l = Register.c_PING ->
  client_line s raw = (s, fst (Register.pong_of_raw raw)).
Proof. exact client_ping_line. Qed.
(* C18 (registration): Connect's REGISTER event sends h_REGISTER's lines for the CURRENT cfg.Me *)
Theorem client_C18_register : forall s, client_register s = fst (Register.emit_register (reg_cfg_of s)).
Proof. exact client_register_eq. Qed.

(* C19 (C19_all): the capability state after a session is C19's [run] over the session's events,
   the lines sent for a CAP / 410 / AUTHENTICATE / 90x line are C19's, no other line makes the
   capability component send anything — hence C19_ok of that transcript and the final answers *)
Theorem client_C19_state : forall raws s,
  c_caps (session_state s raws)
  = fst (Caps.run GoBytes.fields (k_caps (c_cfg s)) (c_caps s) (map ev_of_raw raws)).
Proof. exact caps_session. Qed.
Theorem client_C19_trace : forall raws s,
  Forall2 (fun out el => (In (Caps.ev_cmd (fst el)) caps_verbs -> out = snd el)
                         /\ (~ In (Caps.ev_cmd (fst el)) caps_verbs -> snd el = []))
          (session_out s raws)
          (snd (Caps.run GoBytes.fields (k_caps (c_cfg s)) (c_caps s) (map ev_of_raw raws))).
Proof. exact caps_trace. Qed.
Theorem client_C19_all : forall k nick ident name tracking raws names,
  let s := session_state (client0 k nick ident name tracking) raws in
  let tr := snd (Caps.run GoBytes.fields (k_caps k) Caps.cstate0 (map ev_of_raw raws)) in
  Caps.C19_ok GoBytes.fields (k_caps k) tr (Caps.answers_of (c_caps s) names) = true.
Proof. exact client_negotiation. Qed.

(* ---------- examples: the hypotheses are satisfiable, the glue is visible ---------- *)
Definition x_nick : bytes := [118;98;111;116]%N.         (* "vbot" *)
Definition x_s0 : cstate := client0 x_cfg x_nick [118;105]%N [118;32;110]%N true.
Definition a (s : string) : bytes := map (fun c => N.of_nat (Ascii.nat_of_ascii c)) (list_ascii_of_string s).
Definition x_lines : list bytes :=
  [a ":vbot!vi@h JOIN #x"; a ":vbot!vi@h NICK vb2"; a "REGISTER"; a ":al!a@h JOIN #x";
   a ":al!a@h PRIVMSG vb2 :" ++ [1%N] ++ a "PING 42" ++ [1%N]; a "PING :tok"].
(* the client joins #x, is renamed by the server, a stray REGISTER makes it send its STALE
   cfg.Me.Nick (the tracker already says vb2), al's JOIN makes h_JOIN call Me() ... *)
Example client_example_session :
  session_out x_s0 (map (fun l => l ++ crlf) x_lines)
  = [[a "MODE #x"; a "WHO #x"]; []; [a "NICK vbot"; a "USER vi 12 * :v n"]; [a "WHO al"];
     [a "NOTICE al :" ++ [1%N] ++ a "PING 42" ++ [1%N]]; [a "PONG :tok"]]
  /\ option_map NickHandlers.nk_nick (c_me (session_state x_s0 (map (fun l => l ++ crlf) x_lines))) = Some (a "vbot")
  /\ option_map NickHandlers.nk_nick (snd (client_Me (session_state x_s0 (map (fun l => l ++ crlf) x_lines)))) = Some (a "vb2").
Proof. vm_compute. repeat split; reflexivity. Qed.

Print Assumptions tie_Client.
Print Assumptions client_line_total.
Print Assumptions client_line_defined.
Print Assumptions client_line_rejected_or_dispatched.
Print Assumptions client_session_complete.
Print Assumptions client_recover_needed.
Print Assumptions client_nick_handlers_commute.
Print Assumptions client_one_handler_per_verb.
Print Assumptions client_parsed_cmd_upper.
Print Assumptions client_001_is_C17.
Print Assumptions client_433_is_C17.
Print Assumptions frame_config.
Print Assumptions frame_tracking_mode.
Print Assumptions frame_caps.
Print Assumptions frame_state.
Print Assumptions frame_noncaps.
Print Assumptions frame_ping_ctcp.
Print Assumptions client_C13_robust.
Print Assumptions client_C13_robust_from.
Print Assumptions client_C17_never_nil.
Print Assumptions client_C18_pong_in_order.
Print Assumptions client_C18_pong_any.
Print Assumptions client_C18_register.
Print Assumptions client_C19_state.
Print Assumptions client_C19_trace.
Print Assumptions client_C19_all.
Print Assumptions client_example_session.
