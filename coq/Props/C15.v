(* Props/C15.v — C15: each handler invocation gets its own copy of the line.
   Property theorems only; each is closed by [exact] of a lemma proved in Proofs/LineCopyProofs.v. *)
From Coq Require Import String Permutation.
From Verif Require Import GoBytes LineLib LineCopy LineCopyProofs Consts Facts.
Open Scope nat_scope.

(* tie: the source facts the model rests on.
   - hSet.dispatch: inside the function literal of the go statement, hn.Handle is applied to
     line.Copy() — one Copy per handler goroutine, evaluated in that goroutine;
   - Conn.dispatch hands the same parsed line to the internal, background and foreground set;
   - Line.Copy: one `if` (Tags != nil) containing one `for` (the range over the map), then return;
     no literals (the new slice has len(l.Args), the new map no size hint). *)
Lemma tie_C15 :
  flow_client_hSet_dispatch
    = ["strings.ToLower"; "for{"; "hs.getHandlers"; "wg.Add"; "go func"; "{"; "hn.Handle"; "line.Copy"; "wg.Done"; "}"; "}"; "wg.Wait"]%string
  /\ flow_client_Conn_dispatch
    = ["conn.intHandlers.dispatch"; "go conn.bgHandlers.dispatch"; "conn.fgHandlers.dispatch"]%string
  /\ flow_client_Line_Copy = ["if{"; "for{"; "}"; "}"; "return"]%string
  /\ flow_client_hNode_Handle = ["defer conn.cfg.Recover"; "hn.handler.Handle"]%string
  /\ lits_client_Line_Copy = [].
Proof. repeat split; vm_compute; reflexivity. Qed.

(* Copy is deep: for every heap, every well-formed line and EVERY order in which range visits the
   map, Copy does not fail, leaves the old heap untouched (the new heap is an extension), returns a
   line of equal value whose struct, Args array and Tags map are all freshly allocated, keeps
   Tags = nil, and duplicates all 0..n arguments *)
Theorem C15_copy_deep : forall enum, (forall m, Permutation (enum m) m) ->
  forall hp p v0, read_line hp p = Ok v0 -> keys_ok v0 ->
  exists ext a v, copy_line enum hp p = Ok (hp ++ ext, a)
    /\ read_line (hp ++ ext) a = Ok v /\ lval_eq v v0
    /\ (v_tags v0 = None -> v_tags v = None)
    /\ length (v_args v) = length (v_args v0)
    /\ (forall x, In x (addrs (hp ++ ext) a) -> length hp <= x < length (hp ++ ext)).
Proof. exact copy_deep. Qed.

(* every invocation's line equals the parsed event: for all numbers of handler goroutines (of all
   three sets), all write programs, all schedules, all map iteration orders; Copy and the entry read
   never fail (d_fault stays false).  C15_ok is the runtime oracle. *)
Theorem C15_equal : forall enum, (forall m, Permutation (enum m) m) ->
  forall hp0 p v0, read_line hp0 p = Ok v0 -> keys_ok v0 ->
  forall progs sched,
    let st := run enum p (dinit hp0 progs) sched in
    d_fault st = false /\ C15_ok v0 (entries st) = true.
Proof. exact equal_all. Qed.

(* no two invocations share mutable storage (struct, Args array, Tags map), at any time, however
   much they append or reallocate; none shares any with the parsed line *)
Theorem C15_separate : forall enum, (forall m, Permutation (enum m) m) ->
  forall hp0 p v0, read_line hp0 p = Ok v0 -> keys_ok v0 ->
  forall progs sched,
    let st := run enum p (dinit hp0 progs) sched in
    (forall i j ti tj ai aj, i <> j ->
        nth_error (d_threads st) i = Some ti -> nth_error (d_threads st) j = Some tj ->
        th_line ti = Some ai -> th_line tj = Some aj ->
        disj (addrs (d_heap st) ai) (addrs (d_heap st) aj))
    /\ (forall i t a, nth_error (d_threads st) i = Some t -> th_line t = Some a ->
        disj (addrs (d_heap st) a) (addrs (d_heap st) p)).
Proof. exact separate_all. Qed.

(* non-interference (frame): in every reachable state a step of goroutine j changes nothing that
   another started handler can read through its line, and nobody ever writes the parsed line —
   so a later Copy (a late background handler) still copies the parsed event *)
Theorem C15_noninterference : forall enum, (forall m, Permutation (enum m) m) ->
  forall hp0 p v0, read_line hp0 p = Ok v0 -> keys_ok v0 ->
  forall progs sched j,
    let st := run enum p (dinit hp0 progs) sched in
    (forall i t a, i <> j -> nth_error (d_threads st) i = Some t -> th_line t = Some a ->
        read_line (d_heap (step enum p st j)) a = read_line (d_heap st) a)
    /\ read_line (d_heap (step enum p st j)) p = Ok v0
    /\ read_line (d_heap st) p = Ok v0.
Proof. exact noninterference. Qed.

(* C15_ok read back *)
Theorem C15_ok_says : forall a b, lval_eq a b -> lval_eqb a b = true.
Proof. exact lval_eq_eqb. Qed.

(* non-vacuity: a tagged line with two arguments; three handlers that overwrite Args, append
   (reallocating, then in place), set and delete tags, interleaved; a fourth starts last *)
Definition ex_heap : lheap :=
  [OArgs [[97]; [98]; []]%N;                       (* backing array with spare capacity *)
   OTags [([107]%N, [118]%N)];
   OLine {| lo_scal := [[110]; []; []; [115]; [67]; [114]]%N; lo_args_at := 0; lo_args_len := 2; lo_tags_at := Some 1 |}].
Definition ex_progs : list (list wop) :=
  [[WSetArg 0 [88]%N; WAppend [89]%N 2; WAppend [90]%N 0; WSetTag [107]%N [33]%N];
   [WDelTag [107]%N; WSetArg 1 [81]%N; WSetScal 0 [101]%N];
   [WAppend [87]%N 0; WSetArg 5 [80]%N];
   []].
Example C15_example :
  let st := run (fun m => rev m) 2 (dinit ex_heap ex_progs) [0;1;0;2;0;1;2;0;1;3;0;2] in
  read_line ex_heap 2 = Ok {| v_scal := [[110]; []; []; [115]; [67]; [114]]%N; v_args := [[97]; [98]]%N; v_tags := Some [([107]%N, [118]%N)] |}
  /\ d_fault st = false /\ length (entries st) = 4
  /\ C15_ok {| v_scal := [[110]; []; []; [115]; [67]; [114]]%N; v_args := [[97]; [98]]%N; v_tags := Some [([107]%N, [118]%N)] |} (entries st) = true
  /\ length (d_heap st) = 17.
Proof. vm_compute. repeat split; reflexivity. Qed.

(* the "lazy copy" shape — no Copy for a set's lone handler — is refuted: the lone foreground handler
   (thread 0) gets the parsed line itself, overwrites Args[0], sets a tag and rewrites a scalar field;
   the background handler (thread 1) that starts afterwards copies the edited line: its entry value
   is not the parsed event, and the parsed line has been written *)
Theorem C15_lazy_copy_refuted :
  let lone := fun i => Nat.eqb i 0 in
  let v0 := {| v_scal := [[110]; []; []; [115]; [67]; [114]]%N; v_args := [[97]; [98]]%N; v_tags := Some [([107]%N, [118]%N)] |} in
  let st := run_lazy lone (fun m => m) 2
              (dinit ex_heap [[WSetArg 0 [88]%N; WSetTag [107]%N [33]%N; WSetScal 4 [69]%N]; []]) [0; 0; 0; 0; 1] in
  read_line ex_heap 2 = Ok v0 /\ d_fault st = false /\ length (entries st) = 2
  /\ C15_ok v0 (entries st) = false
  /\ read_line (d_heap st) 2 <> Ok v0.
Proof. vm_compute. repeat split; try reflexivity. discriminate. Qed.

(* the "per-node scratch line" shape — dispatch copies INTO a Line owned by the handler node — is
   refuted for a LATER invocation: invocation 1 of the node holds address a (a deep copy of event 1);
   when event 2 (a second parsed line at address 4, one argument, no tags) is dispatched to the same
   node, copy_into overwrites the struct and the Args array at a: what invocation 1 reads through ITS
   line is no longer event 1 *)
Definition ex_heap2 : lheap :=
  ex_heap ++ [OArgs [[122]]%N; OLine {| lo_scal := [[109]; []; []; [116]; [67]; [82]]%N; lo_args_at := 3; lo_args_len := 1; lo_tags_at := None |}].
Theorem C15_scratch_line_refuted :
  let v1 := {| v_scal := [[110]; []; []; [115]; [67]; [114]]%N; v_args := [[97]; [98]]%N; v_tags := Some [([107]%N, [118]%N)] |} in
  exists hp1 a hp2,
    copy_line (fun m => m) ex_heap2 2 = Ok (hp1, a) /\ read_line hp1 a = Ok v1
    /\ copy_into hp1 4 a = Ok hp2
    /\ read_line hp2 4 = read_line ex_heap2 4            (* invocation 2 does get event 2 ... *)
    /\ read_line hp2 a = read_line hp2 4                 (* ... through the very line invocation 1 holds *)
    /\ C15_ok v1 match read_line hp2 a with Ok v => [v] | Panic => [] end = false.
Proof. vm_compute. do 3 eexists. repeat split; reflexivity. Qed.

Print Assumptions tie_C15.
Print Assumptions C15_copy_deep.
Print Assumptions C15_equal.
Print Assumptions C15_separate.
Print Assumptions C15_noninterference.
Print Assumptions C15_ok_says.
Print Assumptions C15_example.
Print Assumptions C15_lazy_copy_refuted.
Print Assumptions C15_scratch_line_refuted.

(* generated-code tie, stage 6: Line.Copy.  Gen/GoLineCopy.v holds the Gallina TRANSLATION
   (translator/go2heap.go, regenerated on every check run) of the Go body of the Copy method of
   Line (client/line.go) over an explicit heap: nl := *l reads the nine fields of the object into
   local variables; []string is (address of the backing array or nil, length) with the arrays in a
   heap of their own, make([]string, n) allocates n empty strings, copy(dst, src) writes
   min(len dst, len src) elements from index 0 (and reads nothing when that is 0);
   map[string]string is a heap object of an abstract map type, make allocates the empty map,
   nl.Tags[k] = v writes the object (accepted only for a map made in this function), range
   l.Tags enumerates the map VALUE found at loop entry through the class field enumS (nil: no
   entries); return &nl allocates the Line object from the local variables; time.Time is an
   opaque value; ONE allocation counter.
   Model/LineCopy.v keeps the three kinds of objects in one list (address = index); with the
   single counter the generated code allocates in the model's order — Args array, Tags map, Line
   — so GenEqLineCopy.sim g hp is: the counter is pn (length hp) and each of the three heaps is
   the view of hp at the objects of its kind (a Line's six scalars are the model's lo_scal list;
   abstract map = tagmap, set = tags_set, enumS = the model's enum; Time is not modelled).
   Copy preserves the relation and returns the corresponding address, for every run on which the
   model does not panic (the model reads the Args array even for length 0 and panics on a
   dangling index; Go's copy of 0 elements reads nothing). *)
From Verif Require GoLineCopy GenEqLineCopy.
Theorem gen_C15_Copy : forall enum g hp a hp' a', GenEqLineCopy.sim g hp ->
  copy_line enum hp a = Ok (hp', a') ->
  exists g', @GoLineCopy.go_Line_Copy (GenEqLineCopy.impl_ops enum) g (Some (GenEqLineCopy.pn a))
             = Some (g', Some (GenEqLineCopy.pn a'))
             /\ GenEqLineCopy.sim g' hp'.
Proof. exact GenEqLineCopy.go_Line_Copy_sim. Qed.
(* composed with C15_copy_deep: on a readable line with well-formed keys the GENERATED Copy does
   not panic, allocates only fresh objects and returns a line equal to the original *)
Theorem gen_C15_Copy_deep : forall enum, (forall m, Permutation (enum m) m) ->
  forall g hp p v0, GenEqLineCopy.sim g hp -> read_line hp p = Ok v0 -> keys_ok v0 ->
  exists g' ext a v,
    @GoLineCopy.go_Line_Copy (GenEqLineCopy.impl_ops enum) g (Some (GenEqLineCopy.pn p))
      = Some (g', Some (GenEqLineCopy.pn a))
    /\ GenEqLineCopy.sim g' (hp ++ ext)
    /\ read_line (hp ++ ext) a = Ok v /\ lval_eq v v0
    /\ (forall x, In x (addrs (hp ++ ext) a) -> length hp <= x < length (hp ++ ext)).
Proof.
  intros enum HP g hp p v0 Hs Hr Hk.
  destruct (C15_copy_deep enum HP hp p v0 Hr Hk) as (ext & a & v & Hc & Hr' & He & _ & _ & Hfresh).
  destruct (GenEqLineCopy.go_Line_Copy_sim enum g hp p _ _ Hs Hc) as (g' & Hg & Hs').
  exists g', ext, a, v. split; [exact Hg|]. split; [exact Hs'|]. split; [exact Hr'|]. split; [exact He|exact Hfresh].
Qed.
Print Assumptions gen_C15_Copy.
Print Assumptions gen_C15_Copy_deep.
