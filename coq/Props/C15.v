(* Props/C15.v — C15: each handler invocation gets its own copy of the line.
   Property theorems only; each is closed by [exact] of a lemma proved in Proofs/LineCopyProofs.v. *)
From Coq Require Import String Permutation.
From Verif Require Import GoBytes LineLib LineCopy LineCopyProofs Consts Facts.
Open Scope nat_scope.

(* tie: the source facts the model rests on.
   - hSet.dispatch: inside the function literal of the go statement, hn.Handle is applied to
     line.Copy() — one Copy per handler goroutine, evaluated in that goroutine;
   - Conn.dispatch hands the same parsed line to the internal, background and foreground set;
   - Line.Copy: one `if` (Tags != nil) containing one `for` (the range over the map), then return;
     no literals (the new slice has len(l.Args), the new map no size hint). *)
Lemma tie_C15 :
  flow_client_hSet_dispatch
    = ["strings.ToLower"; "for{"; "hs.getHandlers"; "wg.Add"; "go func"; "{"; "hn.Handle"; "line.Copy"; "wg.Done"; "}"; "}"; "wg.Wait"]%string
  /\ flow_client_Conn_dispatch
    = ["conn.intHandlers.dispatch"; "go conn.bgHandlers.dispatch"; "conn.fgHandlers.dispatch"]%string
  /\ flow_client_Line_Copy = ["if{"; "for{"; "}"; "}"; "return"]%string
  /\ flow_client_hNode_Handle = ["defer conn.cfg.Recover"; "hn.handler.Handle"]%string
  /\ lits_client_Line_Copy = [].
Proof. repeat split; vm_compute; reflexivity. Qed.

(* Copy is deep: for every heap, every well-formed line and EVERY order in which range visits the
   map, Copy does not fail, leaves the old heap untouched (the new heap is an extension), returns a
   line of equal value whose struct, Args array and Tags map are all freshly allocated, keeps
   Tags = nil, and duplicates all 0..n arguments *)
Theorem C15_copy_deep : forall enum, (forall m, Permutation (enum m) m) ->
  forall hp p v0, read_line hp p = Ok v0 -> keys_ok v0 ->
  exists ext a v, copy_line enum hp p = Ok (hp ++ ext, a)
    /\ read_line (hp ++ ext) a = Ok v /\ lval_eq v v0
    /\ (v_tags v0 = None -> v_tags v = None)
    /\ length (v_args v) = length (v_args v0)
    /\ (forall x, In x (addrs (hp ++ ext) a) -> length hp <= x < length (hp ++ ext)).
Proof. exact copy_deep. Qed.

(* every invocation's line equals the parsed event: for all numbers of handler goroutines (of all
   three sets), all write programs, all schedules, all map iteration orders; Copy and the entry read
   never fail (d_fault stays false).  C15_ok is the runtime oracle. *)
Theorem C15_equal : forall enum, (forall m, Permutation (enum m) m) ->
  forall hp0 p v0, read_line hp0 p = Ok v0 -> keys_ok v0 ->
  forall progs sched,
    let st := run enum p (dinit hp0 progs) sched in
    d_fault st = false /\ C15_ok v0 (entries st) = true.
Proof. exact equal_all. Qed.

(* no two invocations share mutable storage (struct, Args array, Tags map), at any time, however
   much they append or reallocate; none shares any with the parsed line *)
Theorem C15_separate : forall enum, (forall m, Permutation (enum m) m) ->
  forall hp0 p v0, read_line hp0 p = Ok v0 -> keys_ok v0 ->
  forall progs sched,
    let st := run enum p (dinit hp0 progs) sched in
    (forall i j ti tj ai aj, i <> j ->
        nth_error (d_threads st) i = Some ti -> nth_error (d_threads st) j = Some tj ->
        th_line ti = Some ai -> th_line tj = Some aj ->
        disj (addrs (d_heap st) ai) (addrs (d_heap st) aj))
    /\ (forall i t a, nth_error (d_threads st) i = Some t -> th_line t = Some a ->
        disj (addrs (d_heap st) a) (addrs (d_heap st) p)).
Proof. exact separate_all. Qed.

(* non-interference (frame): in every reachable state a step of goroutine j changes nothing that
   another started handler can read through its line, and nobody ever writes the parsed line —
   so a later Copy (a late background handler) still copies the parsed event *)
Theorem C15_noninterference : forall enum, (forall m, Permutation (enum m) m) ->
  forall hp0 p v0, read_line hp0 p = Ok v0 -> keys_ok v0 ->
  forall progs sched j,
    let st := run enum p (dinit hp0 progs) sched in
    (forall i t a, i <> j -> nth_error (d_threads st) i = Some t -> th_line t = Some a ->
        read_line (d_heap (step enum p st j)) a = read_line (d_heap st) a)
    /\ read_line (d_heap (step enum p st j)) p = Ok v0
    /\ read_line (d_heap st) p = Ok v0.
Proof. exact noninterference. Qed.

(* C15_ok read back *)
Theorem C15_ok_says : forall a b, lval_eq a b -> lval_eqb a b = true.
Proof. exact lval_eq_eqb. Qed.

(* non-vacuity: a tagged line with two arguments; three handlers that overwrite Args, append
   (reallocating, then in place), set and delete tags, interleaved; a fourth starts last *)
Definition ex_heap : lheap :=
  [OArgs [[97]; [98]; []]%N;                       (* backing array with spare capacity *)
   OTags [([107]%N, [118]%N)];
   OLine {| lo_scal := [[110]; []; []; [115]; [67]; [114]]%N; lo_args_at := 0; lo_args_len := 2; lo_tags_at := Some 1 |}].
Definition ex_progs : list (list wop) :=
  [[WSetArg 0 [88]%N; WAppend [89]%N 2; WAppend [90]%N 0; WSetTag [107]%N [33]%N];
   [WDelTag [107]%N; WSetArg 1 [81]%N; WSetScal 0 [101]%N];
   [WAppend [87]%N 0; WSetArg 5 [80]%N];
   []].
Example C15_example :
  let st := run (fun m => rev m) 2 (dinit ex_heap ex_progs) [0;1;0;2;0;1;2;0;1;3;0;2] in
  read_line ex_heap 2 = Ok {| v_scal := [[110]; []; []; [115]; [67]; [114]]%N; v_args := [[97]; [98]]%N; v_tags := Some [([107]%N, [118]%N)] |}
  /\ d_fault st = false /\ length (entries st) = 4
  /\ C15_ok {| v_scal := [[110]; []; []; [115]; [67]; [114]]%N; v_args := [[97]; [98]]%N; v_tags := Some [([107]%N, [118]%N)] |} (entries st) = true
  /\ length (d_heap st) = 17.
Proof. vm_compute. repeat split; reflexivity. Qed.

(* the "lazy copy" shape — no Copy for a set's lone handler — is refuted: the lone foreground handler
   (thread 0) gets the parsed line itself, overwrites Args[0], sets a tag and rewrites a scalar field;
   the background handler (thread 1) that starts afterwards copies the edited line: its entry value
   is not the parsed event, and the parsed line has been written *)
Theorem C15_lazy_copy_refuted :
  let lone := fun i => Nat.eqb i 0 in
  let v0 := {| v_scal := [[110]; []; []; [115]; [67]; [114]]%N; v_args := [[97]; [98]]%N; v_tags := Some [([107]%N, [118]%N)] |} in
  let st := run_lazy lone (fun m => m) 2
              (dinit ex_heap [[WSetArg 0 [88]%N; WSetTag [107]%N [33]%N; WSetScal 4 [69]%N]; []]) [0; 0; 0; 0; 1] in
  read_line ex_heap 2 = Ok v0 /\ d_fault st = false /\ length (entries st) = 2
  /\ C15_ok v0 (entries st) = false
  /\ read_line (d_heap st) 2 <> Ok v0.
Proof. vm_compute. repeat split; try reflexivity. discriminate. Qed.

(* the "per-node scratch line" shape — dispatch copies INTO a Line owned by the handler node — is
   refuted for a LATER invocation: invocation 1 of the node holds address a (a deep copy of event 1);
   when event 2 (a second parsed line at address 4, one argument, no tags) is dispatched to the same
   node, copy_into overwrites the struct and the Args array at a: what invocation 1 reads through ITS
   line is no longer event 1 *)
Definition ex_heap2 : lheap :=
  ex_heap ++ [OArgs [[122]]%N; OLine {| lo_scal := [[109]; []; []; [116]; [67]; [82]]%N; lo_args_at := 3; lo_args_len := 1; lo_tags_at := None |}].
Theorem C15_scratch_line_refuted :
  let v1 := {| v_scal := [[110]; []; []; [115]; [67]; [114]]%N; v_args := [[97]; [98]]%N; v_tags := Some [([107]%N, [118]%N)] |} in
  exists hp1 a hp2,
    copy_line (fun m => m) ex_heap2 2 = Ok (hp1, a) /\ read_line hp1 a = Ok v1
    /\ copy_into hp1 4 a = Ok hp2
    /\ read_line hp2 4 = read_line ex_heap2 4            (* invocation 2 does get event 2 ... *)
    /\ read_line hp2 a = read_line hp2 4                 (* ... through the very line invocation 1 holds *)
    /\ C15_ok v1 match read_line hp2 a with Ok v => [v] | Panic => [] end = false.
Proof. vm_compute. do 3 eexists. repeat split; reflexivity. Qed.

Print Assumptions tie_C15.
Print Assumptions C15_copy_deep.
Print Assumptions C15_equal.
Print Assumptions C15_separate.
Print Assumptions C15_noninterference.
Print Assumptions C15_ok_says.
Print Assumptions C15_example.
Print Assumptions C15_lazy_copy_refuted.
Print Assumptions C15_scratch_line_refuted.
