(* Props/C14.v — C14: tracker answers are private snapshots, and the tracker is safe to share.
   Property theorems only; each is closed by [exact] of a lemma proved in Proofs/.

   PART A (sequential, heap model Model/TrackerAlias.v on top of C12's object graph):
   for EVERY history — any interleaving of tracker method calls and of writes by the caller
   through the pointers it was handed ([hist]) — and EVERY enumeration order of Go's map ranges:
     C14_fresh            everything reachable from a returned value was allocated during that
                          call, is not part of the tracker's object graph, and was never handed
                          out before;
     C14_mutation_frame   any sequence of caller writes leaves the abstract tracker state and the
                          outcome of every later method call unchanged;
     C14_stable           any later method calls leave every object handed out earlier — hence
                          the value read through an earlier result — unchanged.
   C14_fresh_refuted_for_shared: the same statements are FALSE of the variant that returns "cp"
   where the code says "cp.Copy()" (what a regression looks like).
   PART B (Model/LockedObj.v: n threads, every method bracketed by one mutex, read and write of
   the fields are separate steps): C14_linearizable — for EVERY schedule the calls take effect in
   a total order that respects real time and replays sequentially (through the plain model
   [sp_step] of C12) to exactly the results returned.  C14_lock_needed: false without the mutex.
   C14_checker_sound: a "yes" of the runtime linearizability checker comes with such an order.
   NOT expressible in these models (C14 is PARTIAL on this): data-race freedom in the sense of
   Go's memory model; the tie fact below ("every method locks st.mu first and holds it to
   return") and the race-detector run described in notes/design-C14.md are the support. *)
From Verif Require Import TrackerSpec TrackerImpl TrackerObs TrackerAlias TrackerC14
     TrackerAliasProofs TrackerAliasSnap TrackerAliasThm TrackerHammerProofs.
From Verif Require TrackerRefine Lts LockedObj LockedObjProofs LinCheck LinCheckProofs Facts.
From Coq Require String.
Import String.StringSyntax.
Open Scope Z_scope.

(* ---------- tie: the lock discipline and the copy calls, as they stand in the source today ---------- *)
Open Scope string_scope.
Definition locks_first (l : list String.string) : bool :=
  match l with
  | a :: b :: rest => String.eqb a "st.mu.Lock" && String.eqb b "defer st.mu.Unlock"
                      && forallb (fun x => negb (String.eqb x "st.mu.Lock" || String.eqb x "st.mu.Unlock")) rest
  | _ => false
  end.
(* NewNick / NewChannel: the early [if n == "" { return nil }] touches no field *)
Definition guard_then_locks (l : list String.string) : bool :=
  match l with
  | a :: b :: c :: rest => String.eqb a "if{" && String.eqb b "return" && String.eqb c "}" && locks_first rest
  | _ => false
  end.
Lemma tie_C14 :
  forallb locks_first
    [Facts.flow_state_stateTracker_Wipe; Facts.flow_state_stateTracker_GetNick; Facts.flow_state_stateTracker_ReNick;
     Facts.flow_state_stateTracker_DelNick; Facts.flow_state_stateTracker_NickInfo; Facts.flow_state_stateTracker_NickModes;
     Facts.flow_state_stateTracker_GetChannel; Facts.flow_state_stateTracker_DelChannel; Facts.flow_state_stateTracker_Topic;
     Facts.flow_state_stateTracker_ChannelModes; Facts.flow_state_stateTracker_Me; Facts.flow_state_stateTracker_IsOn;
     Facts.flow_state_stateTracker_Associate; Facts.flow_state_stateTracker_Dissociate; Facts.flow_state_stateTracker_String] = true
  /\ forallb guard_then_locks [Facts.flow_state_stateTracker_NewNick; Facts.flow_state_stateTracker_NewChannel] = true
  /\ Facts.flow_state_nick_Nick = ["nk.modes.Copy"; "for{"; "cp.Copy"; "}"; "return"]
  /\ Facts.flow_state_channel_Channel = ["ch.modes.Copy"; "for{"; "cp.Copy"; "}"; "return"]
  /\ Facts.flow_state_nick_isOn = ["cp.Copy"; "return"]
  /\ List.last Facts.flow_state_stateTracker_Associate "" = "return"
  /\ List.nth 1 (rev Facts.flow_state_stateTracker_Associate) "" = "cp.Copy"
  /\ Facts.flow_state_ChanPrivs_Copy = ["if{"; "return"; "}"; "return"]
  /\ Facts.flow_state_NickMode_Copy = ["if{"; "return"; "}"; "return"]
  /\ Facts.flow_state_ChanMode_Copy = ["if{"; "return"; "}"; "return"].
Proof. repeat split; vm_compute; reflexivity. Qed.
Close Scope string_scope.

(* ---------- PART A ---------- *)
Notation al_step_c enumA enumN := (al_step enumA enumN privs_Copy).
Notation al_run_c enumA enumN := (al_run enumA enumN privs_Copy).

Theorem C14_fresh : forall enumA enumN,
  (forall m, enumA m ≡ₚ map_to_list m) -> (forall m, enumN m ≡ₚ map_to_list m) ->
  forall s K o s' v r, hist enumA enumN s K -> al_step_c enumA enumN s o = Some (s', v, r) ->
  forall x, x ∈ reach s' v ->
    (a_next s <= x < a_next s')%positive     (* allocated during this call (watermark at call time = a_next s) *)
    /\ ~ owns (a_tr s') x                    (* not in the tracker's own object graph afterwards *)
    /\ x ∉ K.                                (* and never handed out before *)
Proof. exact fresh. Qed.

Theorem C14_mutation_frame : forall enumA enumN,
  (forall m, enumA m ≡ₚ map_to_list m) -> (forall m, enumN m ≡ₚ map_to_list m) ->
  forall s K ws, hist enumA enumN s K -> Forall (legal K) ws ->
  let s2 := apply_writes s ws in
  TrackerRefine.abs (a_tr s2) = TrackerRefine.abs (a_tr s)
  /\ forall ops s' l, al_run_c enumA enumN s ops = Some (s', l) ->
       exists s2', al_run_c enumA enumN s2 ops = Some (s2', l)      (* same addresses, same snapshots *)
                   /\ TrackerRefine.abs (a_tr s2') = TrackerRefine.abs (a_tr s').
Proof. exact mutation_frame. Qed.

Theorem C14_stable : forall enumA enumN,
  (forall m, enumA m ≡ₚ map_to_list m) -> (forall m, enumN m ≡ₚ map_to_list m) ->
  forall s K ops s' l, hist enumA enumN s K -> al_run_c enumA enumN s ops = Some (s', l) ->
  (forall a, a ∈ K -> heaps_eq_at s s' a)
  /\ forall v, reach s v ⊆ K -> rd_value s' v = rd_value s v.
Proof. exact stable. Qed.

(* the frame lemma behind all three: a method reads ChanPrivs objects only through the tracker's
   own pointers and writes only those or fresh ones *)
Theorem C14_tracker_frame : forall enumA enumN, (forall m, enumA m ≡ₚ map_to_list m) ->
  forall t hp o t' r, agree t hp -> im_step enumA enumN t o = Some (t', r) ->
  exists hp', im_step enumA enumN (set_h_priv t hp) o = Some (set_h_priv t' hp', r) /\ step_rel t hp t' hp'.
Proof. exact im_step_rel. Qed.

(* what a regression looks like: Associate returning the tracker's own ChanPrivs object.
   The caller flips the privileges through the pointer it was given — a legal write — and the
   next IsOn answers differently; and a later ChannelModes changes the value handed out. *)
Definition c14_me : bytes := [109; 101]%N.
Definition c14_x : bytes := [35; 120]%N.
Definition c14_setup : list op := [ONewChannel c14_x; OAssociate c14_x c14_me].
Definition c14_enc (x : option (astate * list (rvalue * result))) : list (list bytes) :=
  match x with Some (_, l) => map (fun p => enc_result (snd p)) l | None => [] end.

Example C14_fresh_refuted_for_shared :
  exists s l a, al_run enumA_std enumN_std privs_share (al_new c14_me) c14_setup = Some (s, l)
    /\ List.last l (VUnit, RUnit) = (VPrivs (Some a), RPrivs (Some no_privs))
    /\ pown (a_tr s) a                                               (* C14_fresh fails *)
    /\ legal (reach s (VPrivs (Some a))) (WPriv a (flip_p no_privs))
    /\ c14_enc (al_run enumA_std enumN_std privs_share (apply_write s (WPriv a (flip_p no_privs))) [OIsOn c14_x c14_me])
       <> c14_enc (al_run enumA_std enumN_std privs_share s [OIsOn c14_x c14_me])      (* C14_mutation_frame fails *)
    /\ option_map (fun x : astate * list (rvalue * result) => enc_result <$> rd_value (fst x) (VPrivs (Some a)))
                  (al_run enumA_std enumN_std privs_share s [OChannelModes c14_x [43; 111]%N [c14_me]])
       <> Some (enc_result <$> rd_value s (VPrivs (Some a))).                          (* C14_stable fails *)
Proof.
  eexists _, _, _. split; [vm_compute; reflexivity|]. split; [vm_compute; reflexivity|]. split.
  { left. exists 1%positive. eexists. exists 2%positive. split; vm_compute; reflexivity. }
  split; [split; vm_compute; set_solver|]. split; vm_compute; congruence.
Qed.
(* ... and with the code as it is, the same experiment shows nothing *)
Example C14_copy_not_refuted :
  exists s l a, al_run enumA_std enumN_std privs_Copy (al_new c14_me) c14_setup = Some (s, l)
    /\ List.last l (VUnit, RUnit) = (VPrivs (Some a), RPrivs (Some no_privs))
    /\ c14_enc (al_run enumA_std enumN_std privs_Copy (apply_write s (WPriv a (flip_p no_privs))) [OIsOn c14_x c14_me])
       = c14_enc (al_run enumA_std enumN_std privs_Copy s [OIsOn c14_x c14_me]).
Proof. eexists _, _, _. split; [vm_compute; reflexivity|]. split; vm_compute; reflexivity. Qed.

(* non-vacuity: a history with calls and a caller write; the permutation hypotheses hold of the
   enumerations the model is run with *)
Lemma enumA_std_perm m : enumA_std m ≡ₚ map_to_list m. Proof. reflexivity. Qed.
Lemma enumN_std_perm m : enumN_std m ≡ₚ map_to_list m. Proof. reflexivity. Qed.
Example C14_hist_nonvacuous :
  exists s K, hist enumA_std enumN_std s K /\ 5%positive ∈ K /\ (5 < a_next s)%positive.
Proof.
  eexists _, _. split.
  - eapply (hist_op enumA_std enumN_std _ _ (ONewChannel c14_x)); [apply (hist_init enumA_std enumN_std c14_me)|]. vm_compute. reflexivity.
  - split; vm_compute; [|reflexivity]. set_solver.
Qed.

(* ---------- PART B ---------- *)
Notation lrun progs sched :=
  (Lts.run (LockedObj.lstep tstate op result sp_step true) (LockedObj.linit tstate op result (sp_new c14_me) progs) sched).

Theorem C14_linearizable : forall (s0 : tstate) (progs : list (list op)) (sched : list nat),
  let s := Lts.run (LockedObj.lstep tstate op result sp_step true) (LockedObj.linit tstate op result s0 progs) sched in
  (* (2) replayed one at a time through the plain model, in the order they took effect, the
         calls give exactly the results they returned *)
  LockedObj.replay tstate op result sp_step s0 (map LockedObj.b_op (LockedObj.blog s))
    = (LockedObj.shared s, map LockedObj.b_res (LockedObj.blog s))
  (* every returned call took effect exactly there: same operation, same result, between its
     invocation and its return *)
  /\ (forall c, In c (LockedObj.done s) ->
        exists b, In b (LockedObj.blog s) /\ LockedObj.b_t b = LockedObj.c_t c /\ LockedObj.b_k b = LockedObj.c_k c
                  /\ LockedObj.b_op b = LockedObj.c_op c /\ LockedObj.b_res b = LockedObj.c_res c
                  /\ (LockedObj.c_inv c < LockedObj.b_at b < LockedObj.c_ret c)%nat)
  (* the order is total in time *)
  /\ Sorted.StronglySorted (fun x y => (LockedObj.b_at x < LockedObj.b_at y)%nat) (LockedObj.blog s)
  (* (1) and respects real time *)
  /\ (forall (c1 c2 : LockedObj.call op result) (b1 b2 : LockedObj.bentry op result),
        In c1 (LockedObj.done s) -> In b1 (LockedObj.blog s) -> In b2 (LockedObj.blog s) ->
        LockedObj.b_inv b1 = LockedObj.c_inv c1 -> (LockedObj.b_at b1 < LockedObj.c_ret c1)%nat ->
        LockedObj.b_inv b2 = LockedObj.c_inv c2 ->
        (LockedObj.c_ret c1 < LockedObj.c_inv c2)%nat -> (LockedObj.b_at b1 < LockedObj.b_at b2)%nat).
Proof. intros s0 progs sched. exact (LockedObjProofs.linearizable tstate op result sp_step s0 progs sched). Qed.

(* the generic statement (any sequential object) *)
Theorem C14_locked_object : forall (St Op Res : Type) (step : St -> Op -> St * Res) s0 progs sched,
  LockedObjProofs.Inv St Op Res step s0 (Lts.run (LockedObj.lstep St Op Res step true) (LockedObj.linit St Op Res s0 progs) sched).
Proof. exact LockedObjProofs.locked_invariant. Qed.

(* non-vacuity: two goroutines, an interleaved schedule; both calls return, in the order the
   mutex was taken *)
Example C14_linearizable_nonvacuous :
  let s := lrun [[ONewNick c14_x]; [OGetNick c14_x]] [0; 1; 1; 0; 1; 1; 1; 0; 1; 0; 0; 0; 0; 0]%nat in
  map LockedObj.c_t (LockedObj.done s) = [1; 0]%nat
  /\ map (fun c => enc_result (LockedObj.c_res c)) (LockedObj.done s)
     = [[t_nil]; [[78%N]; c14_x; []; []; []; []; [48%N]]].
Proof. vm_compute. split; reflexivity. Qed.

(* without the mutex the same skeleton loses an update: a counter incremented by two threads
   whose read and write steps interleave ends at 1, and both calls return 0 *)
Example C14_lock_needed :
  let step := fun (s : nat) (_ : unit) => (S s, s) in
  let s := Lts.run (LockedObj.lstep nat unit nat step false) (LockedObj.linit nat unit nat O [[tt]; [tt]])
                   [0; 1; 0; 1; 0; 1; 0; 1; 0; 1; 0; 1]%nat in
  LockedObj.shared s = 1%nat /\ map LockedObj.c_res (LockedObj.done s) = [0; 0]%nat
  /\ LockedObj.replay nat unit nat step O (map LockedObj.b_op (LockedObj.blog s)) = (2, [0; 1])%nat.
Proof. vm_compute. repeat split. Qed.

(* the runtime oracle for concurrent histories: a "yes" means there IS an order of the observed
   calls that respects real time and replays through the plain model to the observed results *)
Theorem C14_checker_sound : forall me setup (h : list (LinCheck.hcall op (list bytes))),
  C14_conc_ok me setup h = true ->
  exists order, order ≡ₚ h
    /\ LinCheck.lin_witness tstate op (list bytes) sp_step_obs obs_eqb (C14_conc_start me setup) order.
Proof. intros me setup h. exact (LinCheckProofs.linearizable_sound tstate op (list bytes) sp_step_obs obs_eqb _ h C14_budget). Qed.

(* the one-writer gate ("hammer" cases): a "yes" means every observed read is a query, and is the
   plain model's answer to it in the state after SOME prefix w_1..w_j of the writer's calls with
   (calls returned before the read was invoked) <= j <= (calls started when the read returned) —
   with a single writer that is linearizability of the history; a torn snapshot matches no j *)
Theorem C14_hammer_ok_says : forall me setup ws reads, C14_hammer_ok me setup ws reads = true ->
  forall r, In r reads ->
    is_query (r_q r) = true /\
    exists j, (r_lo r <= j <= r_hi r)%nat /\ (j <= length ws)%nat /\
      r_obs r = enc_result (snd (sp_step (fst (sp_run (C14_conc_start me setup) (take j ws))) (r_q r))).
Proof. exact hammer_ok_says. Qed.
(* a torn GetChannel (key of call 2, limit of call 1) is rejected; the two consistent ones pass *)
Example C14_hammer_rejects_torn :
  let ws := [OChannelModes c14_x [43; 107; 108]%N [[49%N]; [49%N]]; OChannelModes c14_x [43; 107; 108]%N [[50%N]; [50%N]]] in
  let rd k l := Build_hread (OGetChannel c14_x) 0 2 [[67%N]; c14_x; []; []; [k]; [l]; [49%N]; c14_me; []] in
  C14_hammer_ok c14_me c14_setup ws [rd 49%N 49%N; rd 50%N 50%N] = true
  /\ C14_hammer_ok c14_me c14_setup ws [rd 50%N 49%N] = false.
Proof. vm_compute. split; reflexivity. Qed.

(* the many-writers gate ("nihammer" cases).  In EVERY sequential order of NickInfo n / GetNick n
   calls on a tracked nick: a NickInfo returns what it returns from the start state — a snapshot
   carrying its own three strings — and a GetNick returns the value written by the last NickInfo
   before it, else the start value.  So a returned snapshot whose three strings stem from two
   calls has no sequential explanation; [C14_ni_ok] checks exactly these consequences plus their
   compatibility with the invoke/return stamps. *)
Theorem C14_ni_sequential : forall s0 n a0 ops, ts_nicks s0 !! n = Some a0 ->
  Forall (fun o => ni_shape n o = true) ops -> snd (sp_run s0 ops) = ni_expect s0 s0 ops.
Proof. exact ni_sequential. Qed.
Theorem C14_ni_result_own : forall s n a i h r, ts_nicks s !! n = Some a ->
  exists sn, snd (sp_NickInfo s n i h r) = Some sn /\ sn_nick sn = n /\ sn_ident sn = i /\ sn_host sn = h /\ sn_name sn = r.
Proof. exact ni_result_own. Qed.
(* two overlapping NickInfo calls and a later GetNick: either call's value is accepted for the
   read, a snapshot mixing the two is rejected — as a NickInfo result and as a GetNick result *)
Example C14_ni_rejects_mixed :
  let snap i h r := [[78%N]; c14_me; i; h; r; []; [49%N]; c14_x; []] in
  let w1 := LinCheck.Build_hcall op (list bytes) (ONickInfo c14_me [49%N] [49%N] [49%N]) (snap [49%N] [49%N] [49%N]) 1 4 in
  let w2 := LinCheck.Build_hcall op (list bytes) (ONickInfo c14_me [50%N] [50%N] [50%N]) (snap [50%N] [50%N] [50%N]) 2 3 in
  let w2bad := LinCheck.Build_hcall op (list bytes) (ONickInfo c14_me [50%N] [50%N] [50%N]) (snap [50%N] [49%N] [50%N]) 2 3 in
  let g i h r := LinCheck.Build_hcall op (list bytes) (OGetNick c14_me) (snap i h r) 5 6 in
  C14_ni_ok c14_me c14_setup c14_me [w1; w2; g [49%N] [49%N] [49%N]] = true
  /\ C14_ni_ok c14_me c14_setup c14_me [w1; w2; g [50%N] [50%N] [50%N]] = true
  /\ C14_ni_ok c14_me c14_setup c14_me [w1; w2; g [49%N] [50%N] [49%N]] = false
  /\ C14_ni_ok c14_me c14_setup c14_me [w1; w2bad; g [49%N] [49%N] [49%N]] = false
  /\ C14_ni_ok c14_me c14_setup c14_me [w1; w2; g [] [] []] = false.
Proof. vm_compute. repeat split; reflexivity. Qed.

Print Assumptions tie_C14.
Print Assumptions C14_ni_sequential.
Print Assumptions C14_ni_result_own.
Print Assumptions C14_ni_rejects_mixed.
Print Assumptions C14_hammer_ok_says.
Print Assumptions C14_hammer_rejects_torn.
Print Assumptions C14_fresh.
Print Assumptions C14_mutation_frame.
Print Assumptions C14_stable.
Print Assumptions C14_tracker_frame.
Print Assumptions C14_fresh_refuted_for_shared.
Print Assumptions C14_copy_not_refuted.
Print Assumptions C14_hist_nonvacuous.
Print Assumptions C14_linearizable.
Print Assumptions C14_locked_object.
Print Assumptions C14_linearizable_nonvacuous.
Print Assumptions C14_lock_needed.
Print Assumptions C14_checker_sound.
