(* Props/C09.v — C09: outgoing lines reach the server in order, once each. *)
From Coq Require Import List Arith Bool String.
From Verif Require Import GoBytes Lts OutPipe OutPipeProofs Commands CommandsProofs SplitProofs Consts Facts.
Import ListNotations.
Local Open Scope nat_scope.

(* tie: the synchronisation skeleton the model is built on is the one in the source today:
   conn.out is written only by Raw (after cutNewLines) and read only by send (and by the
   drains of Close); exactly one send goroutine is started per connection; write puts the
   line + CRLF on the socket and flushes, per line; the queue capacity is 32 *)
Lemma tie_C09 :
  filter (fun p => String.eqb (snd p) "conn.out") chan_sends_client = [("Conn.Raw", "conn.out")]%string
  /\ filter (fun p => String.eqb (snd p) "conn.out") chan_recvs_client
     = [("Conn.closeIf", "conn.out"); ("Conn.drainOut", "conn.out"); ("Conn.send", "conn.out")]%string
  /\ filter (fun p => String.eqb (snd p) "conn.send") go_stmts_client = [("Conn.postConnect", "conn.send")]%string
  /\ flow_client_Conn_Raw = ["cutNewLines"; "send conn.out"]%string
  /\ flow_client_Conn_send
     = ["for{"; "select{"; "case"; "recv conn.out"; "conn.write"; "if{"; "err.Error"; "conn.wg.Done";
        "conn.closeIf"; "return"; "}"; "case"; "ctx.Done"; "recv ctx.Done()"; "conn.wg.Done"; "return"; "}"; "}"]%string
  /\ flow_client_Conn_write
     = ["if{"; "conn.rateLimit"; "if{"; "t.Seconds"; "time.After"; "recv time.After(t)"; "}"; "}";
        "conn.io.WriteString"; "if{"; "return"; "}"; "conn.io.Flush"; "if{"; "return"; "}";
        "strings.HasPrefix"; "if{"; "}"; "return"]%string
  /\ lits_client_Conn_initialise = [LInt 32; LInt 32].
Proof. repeat split; vm_compute; reflexivity. Qed.

(* For EVERY schedule of any number of senders and the send goroutine, with any queue
   capacity: whenever everything issued has been written, the wire carries — sender by
   sender — exactly the lines that sender issued, in its order (so each line exactly once,
   none invented) *)
Theorem C09_exactly_once_in_order : forall cap issued sched,
  let s := run (ostep tagged cap) (oinit tagged (tag_lines issued)) sched in
  quiescent tagged s -> C09_ok issued (wire s) = true.
Proof. exact C09_model. Qed.

(* ... and at EVERY intermediate state the lines of each sender on the wire are a prefix of
   what it issued (nothing lost so far, nothing duplicated, nothing overtaken) *)
Theorem C09_per_sender_prefix : forall cap issued sched i,
  let s := run (ostep tagged cap) (oinit tagged (tag_lines issued)) sched in
  exists later, of_sender i (wire s) ++ later = nth i issued []
                /\ (forall x, In x (wire s) -> fst x < length issued).
Proof. exact C09_prefix. Qed.

(* the general invariant behind both, for arbitrary (untagged, possibly equal) lines *)
Theorem C09_interleaving : forall (A : Type) cap (orig : list (list A)) sched,
  let s := run (ostep A cap) (oinit A orig) sched in
  forall R, shuffle A (todo s) R -> shuffle A orig (wire s ++ opt_list A (infl s) ++ outq s ++ R).
Proof. intros A cap orig sched. exact (pipeline_invariant A cap orig sched). Qed.

(* byte for byte: lines free of CR/LF are framed one for one by write's CRLF *)
Theorem C09_bytes : forall ls, Forall clean ls -> frames (wire_of ls) = Some ls.
Proof. exact frames_wire_of. Qed.

Theorem C09_ok_says : forall issued w, C09_ok issued w = true ->
  (forall i, i < length issued -> of_sender i w = nth i issued [])
  /\ (forall x, In x w -> fst x < length issued).
Proof. exact C09_ok_meaning. Qed.

(* non-vacuity: two senders, capacity 1, a schedule that interleaves them and reaches quiescence *)
Example C09_nonvacuous :
  let issued := [[[97]; [98]]; [[99]]]%N in
  let s := run (ostep tagged 1) (oinit tagged (tag_lines issued))
               [TSender 0; TSender 1; TSend; TSender 1; TSend; TSend; TSender 0; TSend; TSend; TSend] in
  wire s = [(0, [97%N]); (1, [99%N]); (0, [98%N])] /\ outq s = [] /\ infl s = None /\ todo s = [[]; []].
Proof. vm_compute. repeat split. Qed.

Print Assumptions C09_exactly_once_in_order.
Print Assumptions C09_per_sender_prefix.
Print Assumptions C09_interleaving.
Print Assumptions C09_bytes.
Print Assumptions C09_ok_says.

(* generated-code tie, stage 6: the bytes write puts on the wire.  The Gallina TRANSLATION of the write
   method of Conn (Gen/GoFuncs.v; see gen_C10_write in Props/C10.v for its shape) records the calls
   on conn.io in order: exactly one WriteString, of the line followed by CRLF, then — when that
   call returned no error — exactly one Flush; the bytes handed to the writer are wire_of [line];
   the method returns an error exactly when one of the two calls did. *)
From Verif Require Import GoFuncs GenEqWrite.
Theorem gen_C09_write_bytes : forall flood bad last line a a' iow ioe,
  exists r, go_client_Conn_write bad flood last line a a' iow ioe = Ok r
  /\ written (ws_io r) = wire_of [line]
  /\ ws_io r = (if snd iow then [(line ++ crlf, false)] else [(line ++ crlf, false); ([], true)])
  /\ ws_err r = (snd iow || ioe).
Proof.
  intros. eexists. split; [apply go_write_eq|]. apply write_spec_io.
Qed.
Print Assumptions gen_C09_write_bytes.

(* generated-code tie, command methods: the lines a sender hands to the queue through Privmsg,
   Notice and Pong (the methods the correspondence senders use besides Raw) are a pure function
   of the call's own arguments — the Gallina TRANSLATION of each method body equals the model's
   emit for all arguments (Proofs/GenEqCmd.v).  A method that built its lines in state shared
   between callers (a per-connection scratch buffer, say) would not translate to such a function. *)
From Verif Require Import GenEqCmd.
Theorem gen_C09_methods : forall cfg,
  (forall t msg, go_client_Conn_Privmsg (cc_split_len cfg) t msg = emit to_upper MPrivmsg cfg [t; msg])
  /\ (forall t msg, go_client_Conn_Notice (cc_split_len cfg) t msg = emit to_upper MNotice cfg [t; msg])
  /\ (forall m, go_client_Conn_Pong m = emit to_upper MPong cfg [m])
  /\ (forall x, go_client_Conn_Raw x = emit to_upper MRaw cfg [x]).
Proof.
  intro cfg. pose proof (go_commands_eq cfg) as H. cbv zeta in H.
  decompose [and] H. repeat split; assumption.
Qed.
Print Assumptions gen_C09_methods.
