(* Props/C04.v — C04: every registered handler runs exactly once per matching event.
   Property theorems only; each is closed by [exact] of a lemma proved in Proofs/RegistryProofs.v. *)
From Coq Require Import String.
From Verif Require Import GoBytes Lts Registry RegistryProofs RegLockLts RegLockProofs Consts Facts.
Open Scope Z_scope.

(* tie: the structural source facts the model and the theorems rest on.
   - add / remove hold hs.Lock for their whole body (Lock first, deferred Unlock): atomic steps;
   - add lower-cases the name; dispatch lower-cases Line.Cmd (case-insensitivity on both paths);
   - getHandlers takes RLock and releases it by defer, i.e. before returning; hSet.dispatch calls
     getHandlers BEFORE any "go func": the dispatcher holds no lock while its handlers run,
     and the set of invoked handlers is fixed before any handler body starts;
   - every snapshot element gets its own goroutine (wg.Add / go func{hn.Handle} / wg.Done) and
     the dispatcher waits for all of them (wg.Wait);
   - Conn.dispatch: internal set synchronously, background set in its own goroutine, foreground
     set synchronously; Handle/HandleFunc go to fgHandlers.add, HandleBG to bgHandlers.add;
     Remove is hn.set.remove(hn);
   - remove's if/else skeleton is the four-way unlinking the model transliterates. *)
Lemma tie_C04 :
  flow_client_hSet_add
    = ["hs.Lock"; "defer hs.Unlock"; "strings.ToLower"; "if{"; "}"; "if{"; "}"; "else{"; "}"; "return"]%string
  /\ flow_client_hSet_remove
    = ["hs.Lock"; "defer hs.Unlock"; "if{"; "return"; "}"; "if{"; "}"; "else{"; "}"; "if{"; "}"; "else{"; "}"; "if{"; "}"]%string
  /\ flow_client_hSet_getHandlers
    = ["hs.RLock"; "defer hs.RUnlock"; "if{"; "return"; "}"; "for{"; "}"; "return"]%string
  /\ flow_client_hSet_dispatch
    = ["strings.ToLower"; "for{"; "hs.getHandlers"; "wg.Add"; "go func"; "{"; "hn.Handle"; "line.Copy"; "wg.Done"; "}"; "}"; "wg.Wait"]%string
  /\ flow_client_Conn_dispatch
    = ["conn.intHandlers.dispatch"; "go conn.bgHandlers.dispatch"; "conn.fgHandlers.dispatch"]%string
  /\ flow_client_Conn_Handle = ["conn.fgHandlers.add"; "return"]%string
  /\ flow_client_Conn_HandleBG = ["conn.bgHandlers.add"; "return"]%string
  /\ flow_client_Conn_HandleFunc = ["conn.Handle"; "return"]%string
  /\ flow_client_hNode_Remove = ["hn.set.remove"]%string
  /\ flow_client_hNode_Handle = ["defer conn.cfg.Recover"; "hn.handler.Handle"]%string
  /\ lits_client_hSet_add = []
  /\ lits_client_hSet_getHandlers = [LInt 0]
  /\ lits_client_hSet_dispatch = [LInt 1]
  /\ match lits_client_hSet_remove with [LStr _] => True | _ => False end.
Proof. repeat split; vm_compute; reflexivity. Qed.

(* ---- representation invariant and refinement (C04_refines) ---- *)
(* add: never panics under the invariant, preserves it, appends to the abstract list, returns the fresh node *)
Theorem C04_refines_add : forall s name h, dll_ok s ->
  exists s', hs_add s name h = Ok (s', length (hs_heap s)) /\ dll_ok s'
             /\ abs s' = fst (abs_add (abs s) name h) /\ hext s s'.
Proof. exact add_ok. Qed.

(* remove of a node that is in the set — first, middle, last or only of its list *)
Theorem C04_refines_remove : forall s r hn, dll_ok s -> nth_error (hs_heap s) r = Some hn -> n_in hn = true ->
  exists s', hs_remove s r = Ok s' /\ dll_ok s' /\ abs s' = abs_remove (abs s) r /\ hext s s'.
Proof. exact remove_ok. Qed.

(* getHandlers: never the fuel Panic; the snapshot read back through the nodes, now or in any
   later state, is the handlers registered under that name in registration order *)
Theorem C04_refines_get : forall s s' cmd, dll_ok s -> hext s s' ->
  hs_snapshot s cmd = Ok (ids_of (hs_heap s) (to_lower cmd))
  /\ hs_handlers_of s' (ids_of (hs_heap s) (to_lower cmd)) = Ok (abs_handlers (abs s) cmd).
Proof. intros s s' cmd OK HX. split; [apply snapshot_ok; exact OK|apply invoked_ok; exact HX]. Qed.

Theorem C04_abs_handlers_says : forall a cmd h,
  In h (abs_handlers a cmd) <-> exists e, In e (ar_regs a) /\ a_name e = to_lower cmd /\ a_h e = h.
Proof. exact abs_handlers_spec. Qed.

(* ---- exactly once, over all histories of atomic steps (C04_exactly_once) ----
   For EVERY history over Handle/HandleFunc/HandleBG/Remove/snapshot in which each Remover is used
   at most once (wf_hist): the pointer model never panics, keeps the invariant in all three sets,
   and the handlers every snapshot's goroutines invoke — read through the snapshot's nodes in the
   final state, i.e. whatever registrations and removals (from inside handlers or elsewhere)
   happened after the snapshot — are exactly the abstract registry's handlers for the lower-cased
   name at the time of the snapshot, each once per registration, in registration order. *)
Theorem C04_exactly_once : forall h, wf_hist aconn_init h = true ->
  exists c sns, run_conc conn_init h = Ok (c, sns) /\ conn_ok c
                /\ abs_conn c = fst (run_abs aconn_init h)
                /\ snaps_agree c sns (snd (run_abs aconn_init h)).
Proof. exact exactly_once_init. Qed.

(* ... and the abstract registry at any point is: the registrations so far, in order, minus those a
   Remove step has named (live_entries keeps the records whose rg_rm is still None) *)
Theorem C04_registered_not_removed : forall th k,
  ar_regs (tget (fst (run_abs aconn_init (map ts_step th))) k) = live_entries 0 (tget (collect (tri_const []) th) k).
Proof. exact abs_is_unremoved. Qed.

(* case-insensitivity: lower-casing on both paths, and lower-casing is idempotent *)
Theorem C04_case_insensitive : forall a n n' h c c',
  (to_lower n = to_lower n' -> abs_add a n h = abs_add a n' h)
  /\ (to_lower c = to_lower c' -> abs_handlers a c = abs_handlers a c')
  /\ to_lower (to_lower n) = to_lower n.
Proof.
  intros. split; [apply case_insensitive_add|split; [apply case_insensitive_dispatch|apply to_lower_idem]].
Qed.

(* ---- the latitude for racing calls (C04_concurrent) ----
   For every linearisation [th] of a run (any interleaving of free goroutines, handler bodies and
   dispatchers; add/remove/snapshot atomic) and every assignment of call intervals consistent with
   real time, the invocation counts of the pointer model satisfy the runtime predicate C04_ok:
   between "registered-and-not-removed by calls that RETURNED before the snapshot interval" and
   "... that STARTED before its end". *)
Theorem C04_concurrent : forall th, consistent th -> wf_hist aconn_init (map ts_step th) = true ->
  exists c sns hss, run_conc conn_init (map ts_step th) = Ok (c, sns)
                    /\ Forall2 (fun sn hs => invoked c sn = Ok hs) sns hss
                    /\ C04_ok (all_regs (collect (tri_const []) th)) (snap_obs th hss) = true.
Proof. exact concurrent_conc. Qed.

(* C04_ok read back: where no call overlaps the snapshot interval it demands exactly the
   registered-and-not-removed handlers of that name, once per registration *)
Theorem C04_ok_says : forall regs s h,
  snap_ok regs s = true -> In h (map rg_h regs ++ map fst (sp_counts s)) ->
  (forall r, In r regs -> must_run r s = may_run r s) ->
  count_of h (sp_counts s) = countb (fun r => matches r s h && must_run r s) regs.
Proof. exact snap_ok_exact. Qed.

(* ---- non-vacuity: a 6-step history with self-removal and case-variant names ----
   Handle("foo",1); Handle("FOO",2); event "Foo" -> snapshot [1;2]; handler 1 removes ITSELF while
   the event is being dispatched; HandleBG("fOO",3) from inside handler 2; next event "FOO". *)
Definition ex_foo : bytes := [102;111;111]%N.
Definition ex_FOO : bytes := [70;79;79]%N.
Definition ex_Foo : bytes := [70;111;111]%N.
Definition ex_fOO : bytes := [102;79;79]%N.
Definition ex_hist : list step :=
  [SReg KFg ex_foo 1%N; SReg KFg ex_FOO 2%N; SSnap KFg ex_Foo; SRemove KFg 0%nat; SReg KBg ex_fOO 3%N;
   SSnap KFg ex_FOO; SSnap KBg ex_foo].
Example C04_example :
  wf_hist aconn_init ex_hist = true
  /\ snd (run_abs aconn_init ex_hist) = [[1%N; 2%N]; [2%N]; [3%N]]
  /\ match run_conc conn_init ex_hist with
     | Ok (c, sns) => map (invoked c) sns = [Ok [1%N; 2%N]; Ok [2%N]; Ok [3%N]]
     | Panic => False
     end.
Proof. vm_compute. repeat split; reflexivity. Qed.

(* a Remover used twice is outside the claim: the model shows Go's nil dereference *)
Example C04_double_remove_panics :
  run_conc conn_init [SReg KFg ex_foo 1%N; SRemove KFg 0%nat; SRemove KFg 0%nat] = Panic.
Proof. vm_compute. reflexivity. Qed.

(* ---- no deadlock (C04_no_deadlock), on the lock-level LTS of Model/RegLockLts.v ----
   tie: which of the two dispatcher shapes the source has.  [source_shape] is computed from the
   translator's skeletons: getHandlers takes RLock and DEFERS RUnlock (so the read lock is released
   before getHandlers returns), hSet.dispatch itself never touches the lock, and it calls
   getHandlers before the first "go func"; add and remove take Lock and defer Unlock and call
   nothing that could block in between. *)
Fixpoint index_of (x : string) (l : list string) (i : nat) : option nat :=
  match l with
  | [] => None
  | y :: l' => if String.eqb x y then Some i else index_of x l' (S i)
  end.
Definition mentions (x : string) (l : list string) : bool :=
  match index_of x l 0 with Some _ => true | None => false end.
Definition starts_with (p l : list string) : bool :=
  (fix go (p l : list string) : bool :=
     match p, l with
     | [], _ => true
     | x :: p', y :: l' => String.eqb x y && go p' l'
     | _ :: _, [] => false
     end) p l.
Definition source_shape : bool :=
  starts_with ["hs.RLock"; "defer hs.RUnlock"]%string flow_client_hSet_getHandlers
  && negb (mentions "hs.RLock" flow_client_hSet_dispatch) && negb (mentions "hs.RUnlock" flow_client_hSet_dispatch)
  && negb (mentions "hs.Lock" flow_client_hSet_dispatch)
  && match index_of "hs.getHandlers" flow_client_hSet_dispatch 0, index_of "go func" flow_client_hSet_dispatch 0 with
     | Some i, Some j => Nat.ltb i j
     | _, _ => false
     end
  && starts_with ["hs.Lock"; "defer hs.Unlock"]%string flow_client_hSet_add
  && starts_with ["hs.Lock"; "defer hs.Unlock"]%string flow_client_hSet_remove.
Lemma tie_C04_locks : source_shape = true.
Proof. vm_compute. reflexivity. Qed.

(* For EVERY initial population of free goroutines (arbitrary scripts of Handle*/Remove on any of the
   three sets and plain steps) and dispatchers (any set, any number of handlers with arbitrary such
   scripts as bodies) and EVERY schedule: in the reached state, if some goroutine has not finished,
   some goroutine is enabled. *)
Theorem C04_no_deadlock : forall l sched,
  let s := run (lstep source_shape) (linit l) sched in
  all_done s = false -> exists t, enabled source_shape s t = true.
Proof. rewrite tie_C04_locks. exact no_deadlock. Qed.

(* the structural invariant it rests on: whoever holds a lock of a set (for writing or reading) is
   not at a waiting pc (Lock / RLock / wg.Wait), has spawned no handler goroutine, and is enabled —
   in particular the dispatcher has released RLock before any of its handlers exists *)
Theorem C04_lock_discipline : forall l sched k t,
  let s := run (lstep source_shape) (linit l) sched in
  (writer (tget (locks s) k) = Some t \/ In t (readers (tget (locks s) k))) ->
  exists x, nth_error (threads s) t = Some x /\ waiting_pc x = false /\ fin x = false
            /\ kids_of x = [] /\ enabled source_shape s t = true.
Proof. rewrite tie_C04_locks. exact lock_discipline. Qed.

(* hence a handler (or anyone) that calls Handle*/Remove and finds the lock taken is held up only by
   a goroutine that can run on to its Unlock — never by its own dispatcher waiting for it *)
Theorem C04_blocked_lock_has_running_holder : forall l sched t k r,
  let s := run (lstep source_shape) (linit l) sched in
  nth_error (threads s) t = Some (TScript (OReg k :: r) 0) -> enabled source_shape s t = false ->
  exists t', t' <> t /\ enabled source_shape s t' = true
             /\ (writer (tget (locks s) k) = Some t' \/ In t' (readers (tget (locks s) k))).
Proof. rewrite tie_C04_locks. exact blocked_lock_has_running_holder. Qed.

(* the alternative shape — RUnlock only after wg.Wait — deadlocks: one foreground dispatcher, one
   handler whose body calls Handle on the foreground set; schedule [0;0;0;1] *)
Theorem C04_hold_across_refuted :
  let s := run (lstep false) (linit bad_init) bad_sched in
  all_done s = false /\ forall t, enabled false s t = false.
Proof. exact hold_across_refuted. Qed.
Example C04_good_shape_completes :
  all_done (run (lstep source_shape) (linit bad_init) [0; 0; 0; 0; 1; 1; 1; 0]%nat) = true.
Proof. vm_compute. reflexivity. Qed.

Print Assumptions tie_C04.
Print Assumptions C04_refines_add.
Print Assumptions C04_refines_remove.
Print Assumptions C04_refines_get.
Print Assumptions C04_abs_handlers_says.
Print Assumptions C04_exactly_once.
Print Assumptions C04_registered_not_removed.
Print Assumptions C04_case_insensitive.
Print Assumptions C04_concurrent.
Print Assumptions C04_ok_says.
Print Assumptions C04_example.
Print Assumptions C04_double_remove_panics.
Print Assumptions tie_C04_locks.
Print Assumptions C04_no_deadlock.
Print Assumptions C04_lock_discipline.
Print Assumptions C04_blocked_lock_has_running_holder.
Print Assumptions C04_hold_across_refuted.
Print Assumptions C04_good_shape_completes.

(* generated-code tie, stage 6: the handler registry.  Gen/GoRegistry.v holds the Gallina TRANSLATION
   (translator/go2heap.go, regenerated on every check run) of the Go bodies of handlerSet,
   hSet.add, hSet.remove, hNode.Remove and hSet.getHandlers of client/dispatch.go over an explicit
   heap: a pointer to hNode / hList is an address (None = nil), a composite literal allocates, the
   fields next, prev, set, event, handler and start, end are read and written through the heap (a
   missing object is a panic), hs.set is a map from event names to hList ADDRESSES, hn.set is a
   pointer to the set itself (Some tt) or nil, and hn.set.remove(hn) first checks it (remove starts
   with hs.Lock(), where a nil hs panics); hs.Lock / RLock and their deferred unlocks are dropped
   (tie_C04 pins the locking); strings.ToLower is a field of the class, instantiated with
   to_lower; the for loop of getHandlers runs on FUEL (class field loop_fuel, instantiated with the
   number of allocated nodes, the convention of Registry.walk): condition first, then out of fuel
   is None, as a panic.
   Model/Registry.v is not a pointer-for-pointer transliteration (nodes live in a list and are
   indices, the hList VALUE is stored inline in an association list), so the tie is a SIMULATION:
   GenEqRegistry.sim g m relates a state g of the generated code (instance GenEqRegistry.impl_ops)
   to a model state m — node address pn i and index i carry the same fields, every key of hs.set
   points to an hList object holding the model's entry, distinct keys to distinct objects.  It
   holds initially, and every operation preserves it with the same result: remove and
   getHandlers in both directions (the model panics iff the generated code does), add for every
   run on which the model does not panic (under dll_ok it never does: C04_refines_add). *)
From Verif Require GoRegistry GenEqRegistry.
Theorem gen_C04_handlerSet :
  @GoRegistry.go_handlerSet GenEqRegistry.impl_ops = Some (@GoRegistry.hs_init GenEqRegistry.impl_ops)
  /\ GenEqRegistry.sim (@GoRegistry.hs_init GenEqRegistry.impl_ops) handler_set.
Proof. split; [reflexivity|exact GenEqRegistry.sim_init]. Qed.
Theorem gen_C04_add : forall g m name h m' r, GenEqRegistry.sim g m ->
  hs_add m name h = Ok (m', r) ->
  exists g', @GoRegistry.go_hSet_add GenEqRegistry.impl_ops g name h = Some (g', Some (GenEqRegistry.pn r))
             /\ GenEqRegistry.sim g' m'.
Proof. exact GenEqRegistry.go_hSet_add_sim. Qed.
Theorem gen_C04_remove : forall g m r, GenEqRegistry.sim g m ->
  match hs_remove m r with
  | Ok m' => exists g', @GoRegistry.go_hNode_Remove GenEqRegistry.impl_ops g (Some (GenEqRegistry.pn r)) = Some g'
                        /\ GenEqRegistry.sim g' m'
  | Panic => @GoRegistry.go_hNode_Remove GenEqRegistry.impl_ops g (Some (GenEqRegistry.pn r)) = None
  end.
Proof. exact GenEqRegistry.go_hNode_Remove_sim. Qed.
Theorem gen_C04_getHandlers : forall g m ev, GenEqRegistry.sim g m ->
  @GoRegistry.go_hSet_getHandlers GenEqRegistry.impl_ops g ev
  = match hs_get_handlers m ev with
    | Ok l => Some (List.map GenEqRegistry.fptr l)
    | Panic => None
    end.
Proof. exact GenEqRegistry.go_hSet_getHandlers_sim. Qed.
(* with the representation invariant: the generated add never panics, returns the fresh node and
   re-establishes both relations *)
Theorem gen_C04_add_ok : forall g m name h, GenEqRegistry.sim g m -> dll_ok m ->
  exists g' m', @GoRegistry.go_hSet_add GenEqRegistry.impl_ops g name h
                = Some (g', Some (GenEqRegistry.pn (length (hs_heap m))))
                /\ GenEqRegistry.sim g' m' /\ dll_ok m' /\ abs m' = fst (abs_add (abs m) name h).
Proof.
  intros g m name h Hs OK. destruct (C04_refines_add m name h OK) as (m' & E & OK' & A & _).
  destruct (GenEqRegistry.go_hSet_add_sim g m name h m' _ Hs E) as (g' & E' & Hs').
  exists g', m'. split; [exact E'|]. split; [exact Hs'|]. split; [exact OK'|exact A].
Qed.
Print Assumptions gen_C04_handlerSet.
Print Assumptions gen_C04_add.
Print Assumptions gen_C04_remove.
Print Assumptions gen_C04_getHandlers.
Print Assumptions gen_C04_add_ok.
