(* Props/C07.v — C07: disconnect always completes, leaks nothing, and the client can reconnect.
   Theorems about the LTS of Model/LifecycleLts.v in today's shape of connection.go, for EVERY
   schedule, any user programs, any inbound / outbound backlog.  Out of claim exactly as the
   property says: Close called synchronously from a handler the event loop dispatches (not
   modelled: those handlers only call Raw and Connected()). *)
From Coq Require Import List Arith Bool String ZArith.
From Verif Require Import Lts LifecycleLts LifecycleBase LifecycleInv LifecycleInvC LifecycleInvE
  LifecycleThms LifecycleLive LifecycleRefuted LifecycleMeasure Consts Facts DialFacts.
Import ListNotations.
Local Open Scope nat_scope.

(* tie: - send / recv / runLoop leave the wait group and then call closeIf(rw) with the identity
          they captured first thing (calling conn.Close() instead breaks conjuncts 1-3);
        - closeIf tests the identity under the lock, spawns the waiter and drains BOTH queues
          in one blocking select until done (drainIn; drainOut; wg.Wait breaks conjunct 4 and 7);
        - postConnect: wg.Add(3), three goroutines, wg.Add(1) + ping iff PingFreq > 0, and the
          watcher goroutine (removing it breaks conjuncts 5, 6, 8);
        - conn.in is written only by recv, conn.out only by Raw; capacities 32 *)
Lemma tie_C07 :
  flow_client_Conn_send
    = ["for{"; "select{"; "case"; "recv conn.out"; "conn.write"; "if{"; "err.Error"; "conn.wg.Done";
       "conn.closeIf"; "return"; "}"; "case"; "ctx.Done"; "recv ctx.Done()"; "conn.wg.Done"; "return"; "}"; "}"]%string
  /\ flow_client_Conn_recv
    = ["for{"; "rw.ReadString"; "if{"; "if{"; "err.Error"; "}"; "conn.wg.Done"; "conn.closeIf"; "return"; "}";
       "strings.Trim"; "ParseLine"; "if{"; "time.Now"; "send conn.in"; "}"; "else{"; "}"; "}"]%string
  /\ flow_client_Conn_runLoop
    = ["for{"; "select{"; "case"; "recv conn.in"; "conn.dispatch"; "case"; "ctx.Done"; "recv ctx.Done()";
       "conn.wg.Done"; "conn.closeIf"; "return"; "}"; "}"]%string
  /\ skipn 10 flow_client_Conn_closeIf
    = ["go func"; "{"; "conn.wg.Wait"; "close"; "}"; "for{"; "select{"; "case"; "recv conn.in"; "case";
       "recv conn.out"; "case"; "recv done"; "}"; "}"; "conn.mu.Unlock"; "conn.dispatch"; "time.Now"; "return"]%string
  /\ flow_client_Conn_postConnect
    = ["bufio.NewReadWriter"; "bufio.NewReader"; "bufio.NewWriter"; "set conn.io"; "if{"; "context.WithCancel";
       "set conn.die"; "conn.wg.Add"; "go conn.send"; "go conn.recv"; "go conn.runLoop"; "if{"; "conn.wg.Add";
       "go conn.ping"; "}"; "go func"; "{"; "ctx.Done"; "recv ctx.Done()"; "conn.closeIf"; "}"; "}"]%string
  /\ filter (fun p => String.eqb (fst p) "Conn.postConnect" || String.eqb (fst p) "Conn.closeIf") go_stmts_client
    = [("Conn.closeIf", "func"); ("Conn.postConnect", "conn.send"); ("Conn.postConnect", "conn.recv");
       ("Conn.postConnect", "conn.runLoop"); ("Conn.postConnect", "conn.ping"); ("Conn.postConnect", "func")]%string
  /\ filter (fun p => String.eqb (fst p) "Conn.closeIf") chan_recvs_client
    = [("Conn.closeIf", "conn.in"); ("Conn.closeIf", "conn.out"); ("Conn.closeIf", "done")]%string
  /\ flow_client_Conn_ping
    = ["defer conn.wg.Done"; "time.NewTicker"; "for{"; "select{"; "case"; "recv tick.C"; "conn.Ping";
       "time.Now().UnixNano"; "time.Now"; "case"; "ctx.Done"; "recv ctx.Done()"; "tick.Stop"; "return"; "}"; "}"]%string
  /\ chan_sends_client = [("Conn.Raw", "conn.out"); ("Conn.recv", "conn.in")]%string
  /\ lits_client_Conn_postConnect = [LInt 3%Z; LInt 0%Z; LInt 1%Z]
  /\ lits_client_Conn_initialise = [LInt 32%Z; LInt 32%Z] /\ qcap = 32
  (* ... and the CONDITIONS, as source text: the identity test and the drain loop of closeIf, ping
     iff PingFreq > 0, the error tests after which send / recv leave the wait group and close *)
  /\ conds_client_Conn_closeIf
    = ["!conn.connected || (rw != nil && rw != conn.io)"; "conn.die != nil"; "for !drained"]%string
  /\ conds_client_Conn_postConnect = ["start"; "conn.cfg.PingFreq > 0"]%string
  /\ conds_client_Conn_send = ["err != nil"]%string
  /\ conds_client_Conn_recv = ["err != nil"; "err != io.EOF"; "line != nil"]%string
  /\ conds_client_Conn_runLoop = [] /\ conds_client_Conn_ping = [] /\ conds_client_Conn_Raw = []
  /\ conds_client_Conn_write
    = ["!conn.cfg.Flood"; "t != 0"; "err != nil"; "err != nil"; "strings.HasPrefix(line, ""PASS"")"]%string.
Proof. repeat split; vm_compute; reflexivity. Qed.

(* tie: the client's own dialer, built once in Client() and reused for every (re)connect, gets a
   per-dial Timeout and nothing absolute: the only assignments to its fields are these three (an
   absolute dialer.Deadline fixed at creation would make every reconnect later than
   Config.Timeout fail — invisible to sessions that dial through a proxy), and no condition of
   Client() mentions the timeout *)
Lemma tie_C07_dialer :
  filter (String.prefix "dialer.") assigns_client_Client
    = ["dialer.Timeout = cfg.Timeout"; "dialer.DualStack = cfg.DualStack"; "dialer.LocalAddr = local"]%string
  /\ conds_client_Client
    = ["cfg == nil"; "cfg.Me == nil || cfg.Me.Nick == """" || cfg.Me.Ident == """""; "cfg.LocalAddr != """"";
       "!hasPort(cfg.LocalAddr)"; "err == nil"; "cfg.Sasl != nil && !cfg.EnableCapabilityNegotiation"]%string
  /\ filter (fun p => String.eqb (fst (fst p)) "Conn.internalConnect") dial_sites_client
    = [("Conn.internalConnect", "conn.dialer.DialContext", "conn.cfg.Server")]%string.
Proof. repeat split; vm_compute; reflexivity. Qed.

Notation reach hm hl w sched := (run (fstep hm hl) (init w) sched).

(* the runtime oracle's prefix-closed part (no stale close) holds on every history of the model *)
Theorem C07_history_ok : forall hm hl w sched, C07_safe (hist (reach hm hl w sched)) = true.
Proof. exact safe7_run. Qed.

(* I7, deadlock freedom: while a closer sits in its drain loop for generation g, the closer, its
   waiter or one of g's counted goroutines can take a step — for every inbound backlog, every
   outbound backlog, and whether the handler is idle, running, sampling Connected() or blocked
   in Raw; the two other program points of the teardown are plain statements *)
Theorem C07_no_stuck : forall hm hl w sched t g id ret,
  let s := reach hm hl w sched in
  pcs s t = PClose (C3 g) id ret ->
  exists t', In t' [Recv g; Loop g; Send g; Ping g; Waiter g; t] /\ enabled hm hl s t'.
Proof. intros. eapply drain_not_stuck; [apply Inv_run|eassumption]. Qed.

Theorem C07_no_stuck_edges : forall hm hl w sched t g id ret,
  let s := reach hm hl w sched in
  pcs s t = PClose (C2 g) id ret \/ pcs s t = PClose (C4 g) id ret -> enabled hm hl s t.
Proof. intros. eapply teardown_step_enabled; [apply Inv_run|eassumption]. Qed.

(* termination of the teardown, WITHOUT any fairness assumption.  mu_of hm n s is a natural
   number computed from the state (Proofs/LifecycleMeasure.v):
     WS*srv_in + WT*ticks + WI*inq + WO*outq  (of the current generation; WO = 2, WI = 3*hm+4,
     WS = WI+2, WT = 4)  +  the sum over all existing threads of rank(pc), the number of steps
     the thread can still take before it ends or needs conn.mu (remaining Raw calls of a handler,
     remaining program of a goroutine of the application, distance to the end of recv / runLoop /
     send / ping / watcher / waiter / a DISCONNECTED or REGISTER handler).
   While a closer is at C2 or C3 (teardown done, drain loop not left), EVERY step of EVERY thread
   strictly decreases it, except the environment's (server closes, context cancelled), which
   leave it unchanged.  So a livelock is impossible, and with C07_no_stuck the closer leaves the
   drain loop after at most mu steps of the other threads. *)
Theorem C07_measure : forall hm hl w sched t ch s',
  let s := reach hm hl w sched in
  busy s -> fstep hm hl s (t, ch) = Some s' ->
  if is_env t then mu_of hm (List.length (w_progs w)) s' = mu_of hm (List.length (w_progs w)) s
  else mu_of hm (List.length (w_progs w)) s' < mu_of hm (List.length (w_progs w)) s.
Proof. exact teardown_measure. Qed.

(* the number of (non-environment) steps any schedule takes while the teardown stays busy is
   bounded by the measure at its start *)
Theorem C07_teardown_bounded : forall hm hl w sched l,
  (forall l1 l2, l = l1 ++ l2 -> l2 <> [] -> busy (run (fstep hm hl) (reach hm hl w sched) l1)) ->
  work hm hl (reach hm hl w sched) l <= mu_of hm (List.length (w_progs w)) (reach hm hl w sched).
Proof. exact teardown_bounded. Qed.

(* non-vacuity: Close with 33 lines still to come and a handler that sends: the closer is in its
   drain loop, the measure is 419, and after recv has queued three lines and the event loop has
   dispatched one (its handler still has a Raw to do) it is 407 *)
Example C07_measure_nonvacuous :
  let w := mkw [[OpConnect (CkOk false); OpClose]] (fun _ => 33) (fun _ => 0) in
  let sc := rep 10 (u0,0) ++ [(Recv 1,0);(Loop 1,0);(Send 1,0)] ++ rep 5 (u0,0) in
  let s1 := reach 2 true w sc in
  let s2 := reach 2 true w (sc ++ rep 6 (Recv 1,0) ++ [(Loop 1,3);(Loop 1,0);(Loop 1,0);(u0,1)]) in
  pcs s1 u0 = PClose (C3 1) None (Some []) /\ mu s1 = Some u0 /\ mu_of 2 1 s1 = 419
  /\ pcs s2 u0 = PClose (C3 1) None (Some []) /\ pcs s2 (Loop 1) = LH 1 1 /\ mu_of 2 1 s2 = 407.
Proof. vm_compute. repeat split. Qed.

(* I5: wait-group accounting, and no goroutine of a generation is left once its DISCONNECTED
   has been dispatched: each is at its end, or in a closeIf(rw) that can only return, or is
   the thread that runs the DISCONNECTED handlers *)
Theorem C07_wg_accounting : forall hm hl w sched,
  let s := reach hm hl w sched in
  wg s = wsum s (cur s) /\ (forall g, g <> cur s -> wsum s g = 0).
Proof. exact wg_accounting. Qed.

Theorem C07_no_leak : forall hm hl w sched g,
  let s := reach hm hl w sched in In g (discs (hist s)) -> no_leak g s = true.
Proof. exact no_leak_after_disconnected. Qed.

(* I6: a connection is torn down only by Close() of the application or by a goroutine of its
   own generation; the identity a goroutine passes to closeIf is its own generation *)
Theorem C07_no_stale_close : forall hm hl w sched g t,
  In (ETeardown g t) (hist (reach hm hl w sched)) -> own_gen t g = true.
Proof. exact no_stale_close. Qed.

Theorem C07_captured_identity : forall hm hl w sched t g c id ret,
  gthr t = Some g -> pcs (reach hm hl w sched) t = PClose c id ret -> (c = C0 \/ c = C1) -> id = Some g.
Proof. exact captured_identity. Qed.

(* the next generation is fresh: its queues are empty, its flags clear, none of its goroutines
   exists, until initialise() allocates it *)
Theorem C07_fresh : forall hm hl w sched g,
  let s := reach hm hl w sched in g > nq s ->
  inq s g = 0 /\ outq s g = 0 /\ cancelled s g = false /\ sock_closed s g = false /\ srv_eof s g = false
  /\ ~ In g (ests (hist s)) /\ (forall t, gthr t = Some g -> pcs s t = PIdle).
Proof. exact fresh_generation. Qed.

(* the pinned shapes: what each repair is for *)
Theorem C07_backlog_refuted :
  exists w sched,
    let s := run (lstep P_drain_once) (init w) sched in
    in_teardown s = Some 1 /\ pcs s u0 = PClose (C3w 1) None (Some []) /\ wg s = 1
    /\ pcs s (Recv 1) = R3 1 /\ inq s 1 = 32 /\ disabled P_drain_once s.
Proof. exact backlog_refuted. Qed.

Theorem C07_stale_close_refuted :
  exists w sched,
    let s := run (lstep P_no_ident) (init w) sched in
    In (ETeardown 2 (Loop 1)) (hist s) /\ C07_safe (hist s) = false.
Proof. exact stale_close_refuted. Qed.

Theorem C07_cancel_refuted :
  exists w sched,
    let s := run (lstep P_no_watch) (init w) sched in
    cancelled s 1 = true /\ connected s = true /\ discs (hist s) = [] /\ disabled P_no_watch s.
Proof. exact cancel_refuted. Qed.

Theorem C07_handler_lock_refuted :
  exists w sched,
    let s := run (lstep P_sample_mu) (init w) sched in
    in_teardown s = Some 1 /\ pcs s (Loop 1) = LS 1 0 /\ pcs s u0 = PClose (C3 1) None (Some [])
    /\ disabled P_sample_mu s.
Proof. exact handler_lock_refuted. Qed.

(* non-vacuity: EOF ends generation 1, its DISCONNECTED handler reconnects (generation 2), the
   late closeIf(1) of the old event loop is refused, generation 2 stays up *)
Example C07_nonvacuous :
  let w := mkw [[OpConnect (CkOk false)]] (fun _ => 0) (fun _ => 0) in
  let s := reach 0 false w
      (rep 10 (u0,0) ++ [(Recv 1,0);(Loop 1,0);(Send 1,0);(Env,2);(Recv 1,1);(Recv 1,0);(Recv 1,0);
         (Recv 1,0);(Recv 1,0);(Loop 1,0);(Loop 1,0);(Send 1,0);(Send 1,0);(Waiter 1,0);(Recv 1,2);
         (Recv 1,0);(Recv 1,0);(Recv 1,0);(Recv 1,1)] ++ rep 5 (Recv 1,0) ++ [(Loop 1,0);(Loop 1,0);(Loop 1,0)]) in
  connected s = true /\ cur s = 2 /\ tds (hist s) = [1] /\ discs (hist s) = [1] /\ pcs s (Loop 1) = PDone
  /\ C07_safe (hist s) = true /\ no_leak 1 s = true.
Proof. vm_compute. repeat split. Qed.

Print Assumptions C07_history_ok.
Print Assumptions C07_no_stuck.
Print Assumptions C07_no_stuck_edges.
Print Assumptions C07_measure.
Print Assumptions C07_teardown_bounded.
Print Assumptions C07_wg_accounting.
Print Assumptions C07_no_leak.
Print Assumptions C07_no_stale_close.
Print Assumptions C07_captured_identity.
Print Assumptions C07_fresh.
Print Assumptions C07_backlog_refuted.
Print Assumptions C07_stale_close_refuted.
Print Assumptions C07_cancel_refuted.
Print Assumptions C07_handler_lock_refuted.
