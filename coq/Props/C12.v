(* Props/C12.v — C12: the state tracker behaves as a relational model of nicks and channels.
   Property theorems only; each is closed by [exact] of a lemma proved in Proofs/.

   Two models: the plain model of the property (Model/TrackerSpec.v, [sp_*]) and the object
   graph of tracker.go/nick.go/channel.go over a heap (Model/TrackerImpl.v, [im_*]).
   PROVED at full strength: the sentences of the property on the plain model, for every state /
   every operation sequence; the representation invariant and the refinement
   (no panic, invariant preserved, abstraction commutes, equal results) for ALL 16 methods and
   all operation sequences, for EVERY enumeration order of Go's map ranges (any function
   returning a permutation of the map's entries); and: the object graph's observation of any
   case satisfies the runtime oracle C12_ok.
   The check additionally compares, on every generated sequence, the real code, the plain
   model and the object-graph model run under two different enumeration orders. *)
From Verif Require Import TrackerSpec TrackerImpl TrackerObs TrackerSpecFacts TrackerSpecLoops
     TrackerRefine TrackerRefine2 TrackerRefine3.
From Verif Require Consts.
Open Scope Z_scope.

(* tie: the mode letters the parsers switch on, as they stand in the source today
   (integer literals of nick.parseModes / channel.parseModes, in source order) *)
Definition ints_of (l : list Consts.lit) : list Z :=
  omap (fun x => match x with Consts.LInt z => Some z | _ => None end) l.
Lemma tie_C12 :
  ints_of Consts.lits_state_nick_parseModes = [0; 43; 45; 66; 105; 111; 119; 120; 122]
  /\ ints_of Consts.lits_state_channel_parseModes =
       [0; 43; 45; 105; 109; 110; 112; 114; 115; 116; 122; 90; 79; 107; 0; 0; 1; 108; 0; 0; 1; 0;
        98; 101; 73; 0; 1; 113; 97; 111; 104; 118; 0; 0; 113; 97; 111; 104; 118; 1; 0]
  /\ forallb (fun m => bool_decide (is_Some (chan_flag_char m true no_chanmode)))
             [105; 109; 110; 112; 114; 115; 116; 122; 90; 79]%N = true
  /\ forallb is_priv_char [113; 97; 111; 104; 118]%N = true
  /\ forallb (fun m => is_list_mode_char m && negb (is_priv_char m)
                       && negb (bool_decide (is_Some (chan_flag_char m true no_chanmode))))
             [98; 101; 73]%N = true
  /\ forallb (fun m => negb (is_list_mode_char m) && negb (is_priv_char m)
                       && negb (bool_decide (is_Some (chan_flag_char m true no_chanmode))))
             [43; 45; 107; 108]%N = true.
Proof. repeat split; vm_compute; reflexivity. Qed.

(* ---------- the property's sentences on the plain model ---------- *)
(* a rename carries the nick's attributes, memberships and privileges along; nothing else moves *)
Theorem C12_rename_carries : forall s old neu a,
  ts_nicks s !! old = Some a -> ts_nicks s !! neu = None ->
  let s' := fst (sp_ReNick s old neu) in
  ts_nicks s' !! neu = Some a /\ ts_nicks s' !! old = None
  /\ (forall c, ts_member s' !! (c, neu) = ts_member s !! (c, old))
  /\ (forall c n, n <> old -> n <> neu ->
        ts_member s' !! (c, n) = ts_member s !! (c, n) /\ ts_nicks s' !! n = ts_nicks s !! n)
  /\ (sp_inv s -> forall c, ts_member s' !! (c, old) = None)
  /\ ts_chans s' = ts_chans s
  /\ ts_me s' = (if decide (old = ts_me s) then neu else ts_me s)
  /\ snd (sp_ReNick s old neu) = nick_snapshot s' neu.
Proof. exact rename_carries. Qed.

(* removing the client itself from a channel, or deleting a channel, forgets the channel, its
   memberships and every other nick that was only on it; everything else is kept *)
Theorem C12_part_me_forgets : forall s c,
  (sp_inv s -> is_Some (ts_member s !! (c, ts_me s)) -> sp_Dissociate s c (ts_me s) = sp_drop_channel s c)
  /\ (forall a, ts_chans s !! c = Some a -> fst (sp_DelChannel s c) = sp_drop_channel s c)
  /\ let s' := sp_drop_channel s c in
     ts_chans s' !! c = None
     /\ (forall n, ts_member s' !! (c, n) = None)
     /\ (forall c' n, c' <> c -> ts_member s' !! (c', n) = ts_member s !! (c', n)
                                 /\ ts_chans s' !! c' = ts_chans s !! c')
     /\ (forall n, n <> ts_me s -> only_on s c n -> ts_nicks s' !! n = None)
     /\ (forall n, n = ts_me s \/ ~ only_on s c n -> ts_nicks s' !! n = ts_nicks s !! n)
     /\ ts_me s' = ts_me s.
Proof.
  intros s c. split; [exact (part_me_is_drop s c)|]. split.
  - intros a H. by rewrite (delchannel_is_drop s c a H).
  - exact (drop_channel_forgets s c).
Qed.

(* removing another nick from a channel removes that membership, and the nick with its last one *)
Theorem C12_part_other : forall s c n p, sp_inv s -> ts_member s !! (c, n) = Some p -> n <> ts_me s ->
  let s' := sp_Dissociate s c n in
  ts_member s' = delete (c, n) (ts_member s) /\ ts_chans s' = ts_chans s /\ ts_me s' = ts_me s
  /\ (only_on s c n -> ts_nicks s' = delete n (ts_nicks s))
  /\ (~ only_on s c n -> ts_nicks s' = ts_nicks s).
Proof. exact part_other. Qed.

(* deleting a nick removes all its memberships; the client's own nick is never deleted *)
Theorem C12_delnick_clears : forall s n a, ts_nicks s !! n = Some a -> n <> ts_me s ->
  let s' := fst (sp_DelNick s n) in
  ts_nicks s' !! n = None /\ (forall c, ts_member s' !! (c, n) = None)
  /\ (forall c n', n' <> n -> ts_member s' !! (c, n') = ts_member s !! (c, n')
                              /\ ts_nicks s' !! n' = ts_nicks s !! n')
  /\ ts_chans s' = ts_chans s /\ ts_me s' = ts_me s.
Proof. exact delnick_clears. Qed.

Theorem C12_delnick_me_refused : forall s, sp_inv s -> sp_DelNick s (ts_me s) = (s, None).
Proof. exact delnick_me_refused. Qed.

(* for EVERY operation sequence the client's own nick is tracked *)
Theorem C12_me_immortal : forall me ops,
  let s := fst (sp_run (sp_new me) ops) in is_Some (ts_nicks s !! ts_me s).
Proof. exact me_immortal. Qed.

(* the invariant behind it: memberships only relate tracked channels and tracked nicks *)
Theorem C12_spec_inv : forall me ops, sp_inv (fst (sp_run (sp_new me) ops)).
Proof. intros me ops. exact (sp_run_inv ops (sp_new me) (sp_inv_new me)). Qed.

(* Wipe forgets every channel and every membership.  Model behaviour the property leaves open
   (and the comment in tracker.go gets wrong): a nick that was on no channel survives. *)
Theorem C12_wipe : forall s,
  let s' := sp_Wipe s in
  ts_chans s' = ∅ /\ ts_member s' = ∅ /\ ts_me s' = ts_me s
  /\ (forall n, n = ts_me s \/ (forall c, ts_member s !! (c, n) = None) -> ts_nicks s' !! n = ts_nicks s !! n)
  /\ (forall n c, n <> ts_me s -> is_Some (ts_member s !! (c, n)) -> ts_nicks s' !! n = None).
Proof. exact wipe_forgets. Qed.

(* mode strings touch only the privileges of existing memberships of their own channel *)
Theorem C12_chan_modes_frame : forall c modes op args cm mem k,
  is_Some (snd (chan_parse_modes c modes op args cm mem) !! k) <-> is_Some (mem !! k).
Proof. exact chan_parse_modes_dom. Qed.

(* ---------- the object graph refines the plain model ---------- *)
Theorem C12_rep_inv_init : forall me, rep_inv (im_new me) /\ abs (im_new me) = sp_new me.
Proof. intros me. split; [exact (rep_inv_new me)|exact (abs_new me)]. Qed.

(* per operation (all 16 methods), for every enumeration order of Go's map ranges: no panic,
   the representation invariant is preserved, the abstraction commutes and the results
   (snapshots) are equal *)
Theorem C12_refines_op : forall enumA enumN,
  (forall m, enumA m ≡ₚ map_to_list m) -> (forall m, enumN m ≡ₚ map_to_list m) ->
  forall o s, rep_inv s ->
  exists s' r, im_step enumA enumN s o = Some (s', r) /\ rep_inv s'
               /\ abs s' = fst (sp_step (abs s) o) /\ r = snd (sp_step (abs s) o).
Proof. intros enumA enumN HA HN o. exact (refines_all enumA enumN HA HN o). Qed.

(* for EVERY operation sequence over a fresh tracker: the object graph never panics, keeps its
   invariant, abstracts to the plain model's state and returns the plain model's results *)
Theorem C12_refines : forall enumA enumN,
  (forall m, enumA m ≡ₚ map_to_list m) -> (forall m, enumN m ≡ₚ map_to_list m) ->
  forall me ops,
  exists s' rs, im_run enumA enumN (im_new me) ops = Some (s', rs) /\ rep_inv s'
                /\ abs s' = fst (sp_run (sp_new me) ops) /\ rs = snd (sp_run (sp_new me) ops).
Proof.
  intros enumA enumN HA HN me ops.
  destruct (run_refines enumA enumN HA HN ops (im_new me) (rep_inv_new me)) as (s' & rs & H).
  rewrite abs_new in H. eauto.
Qed.

(* hence the representation invariant holds after every operation sequence *)
Theorem C12_rep_inv : forall enumA enumN,
  (forall m, enumA m ≡ₚ map_to_list m) -> (forall m, enumN m ≡ₚ map_to_list m) ->
  forall me ops, exists s' rs, im_run enumA enumN (im_new me) ops = Some (s', rs) /\ rep_inv s'.
Proof.
  intros enumA enumN HA HN me ops. destruct (C12_refines enumA enumN HA HN me ops) as (s' & rs & H1 & H2 & _). eauto.
Qed.

(* the theorem's predicate is the runtime oracle: what the object graph lets a case observe
   (return values and the query sweep after every step) satisfies C12_ok *)
Theorem C12_impl_ok : forall enumA enumN,
  (forall m, enumA m ≡ₚ map_to_list m) -> (forall m, enumN m ≡ₚ map_to_list m) ->
  forall me U ops, C12_ok me U ops (im_observe enumA enumN U (im_new me) ops) = true.
Proof. exact impl_observation_ok. Qed.

(* the two removal loops arrive at the closed forms of the plain model in ANY order *)
Theorem C12_drop_channel_any_order : forall c t t', csteps c t t' -> (forall n, ts_member t' !! (c, n) = None) ->
  {| ts_me := ts_me t'; ts_nicks := ts_nicks t'; ts_chans := delete c (ts_chans t'); ts_member := ts_member t' |}
  = sp_drop_channel t c.
Proof. exact csteps_drop_channel. Qed.
Theorem C12_wipe_any_order : forall t t', sp_inv t -> wsteps t t' -> ts_chans t' = ∅ -> t' = sp_Wipe t.
Proof. exact wsteps_wipe. Qed.

(* ---------- the hypotheses are satisfiable; the runtime oracle on a concrete sequence ---------- *)
Definition ex_me : bytes := [109; 101]%N.                 (* "me" *)
Definition ex_al : bytes := [97; 108]%N.                  (* "al" *)
Definition ex_bo : bytes := [98; 111]%N.                  (* "bo" *)
Definition ex_x : bytes := [35; 120]%N.                   (* "#x" *)
Definition ex_ops : list op :=
  [ONewChannel ex_x; OAssociate ex_x ex_me; ONewNick ex_al; OAssociate ex_x ex_al;
   OChannelModes ex_x [43; 111; 107]%N [ex_al; [107]%N]; OReNick ex_al ex_bo; OGetChannel ex_x;
   ODissociate ex_x ex_me; OGetNick ex_bo; OWipe].
Definition ex_U : universe := {| u_nicks := [[]; ex_me; ex_al; ex_bo]; u_chans := [[]; ex_x] |}.

(* both enumeration orders of the object-graph model satisfy the oracle on it (by computation) *)
Example C12_example_std : C12_ok ex_me ex_U ex_ops (im_observe enumA_std enumN_std ex_U (im_new ex_me) ex_ops) = true.
Proof. vm_compute. reflexivity. Qed.
Example C12_example_rev : C12_ok ex_me ex_U ex_ops (im_observe enumA_rev enumN_rev ex_U (im_new ex_me) ex_ops) = true.
Proof. vm_compute. reflexivity. Qed.
Example C12_example_enum : (forall m, enumA_rev m ≡ₚ map_to_list m) /\ (forall m, enumN_rev m ≡ₚ map_to_list m).
Proof. split; intros m; unfold enumA_rev, enumN_rev; by rewrite reverse_Permutation. Qed.
Example C12_example_rename : exists a,
  ts_nicks (fst (sp_run (sp_new ex_me) (firstn 5 ex_ops))) !! ex_al = Some a
  /\ ts_nicks (fst (sp_run (sp_new ex_me) (firstn 5 ex_ops))) !! ex_bo = None.
Proof. vm_compute. eauto. Qed.

Print Assumptions tie_C12.
Print Assumptions C12_rename_carries.
Print Assumptions C12_part_me_forgets.
Print Assumptions C12_part_other.
Print Assumptions C12_delnick_clears.
Print Assumptions C12_delnick_me_refused.
Print Assumptions C12_me_immortal.
Print Assumptions C12_spec_inv.
Print Assumptions C12_wipe.
Print Assumptions C12_chan_modes_frame.
Print Assumptions C12_rep_inv_init.
Print Assumptions C12_refines_op.
Print Assumptions C12_refines.
Print Assumptions C12_rep_inv.
Print Assumptions C12_impl_ok.
Print Assumptions C12_drop_channel_any_order.
Print Assumptions C12_wipe_any_order.
Print Assumptions C12_example_std.

(* generated-code tie, stage 3: package state's nick mode parser.  Gen/GoFuncs.v holds the Gallina
   TRANSLATION of the Go body of nick.parseModes (state/nick.go; nk.modes as an option of the tuple
   of the six booleans Bot, Invisible, Oper, WallOps, HiddenHost, SSL; the index loop with explicit
   fuel); it is equal to nick_parse_modes started with modeop = false — for every mode string, and
   it never panics on a non-nil nk.modes (Proofs/GenEqModes.v).  channel.parseModes is NOT covered:
   it updates privileges through ch.lookup[arg] / ch.nicks[nk] (maps of pointers), which the value
   translation does not model. *)
From Verif Require GoFuncs GenEqModes.
Theorem gen_C12_nick_parseModes : forall modes nm,
  GoFuncs.go_state_nick_parseModes (Some (GenEqModes.nm_tuple nm)) modes
  = GoBytes.Ok (Some (GenEqModes.nm_tuple (nick_parse_modes modes false nm))).
Proof. exact GenEqModes.go_nick_parseModes_eq. Qed.
Print Assumptions gen_C12_nick_parseModes.

(* generated-code tie, stage 4: package state's channel mode parser.  Gen/GoFuncs.v holds the Gallina
   TRANSLATION of the Go body of channel.parseModes (state/channel.go): ch.modes as an option of the
   tuple (ten booleans, Key, Limit), the maps ch.lookup / ch.nicks as ABSTRACT STORES (a get; for
   ch.nicks also the write through the pointer read from it), *nick as an abstract reference,
   strconv.Atoi as a variable.  Instantiated with the spec's membership map for the channel c
   (GenEqChanModes.Lget/Nget/Nset: a reference is the nick's name; get-after-set laws below) and
   the spec's atoi, it is equal to chan_parse_modes started with modeop = false — flags, +k/+l with
   their argument, b/e/I, q/a/o/h/v for members and non-members, unknown letters — for every mode
   string and argument list; it never panics (Proofs/GenEqChanModes.v). *)
From Verif Require GenEqChanModes.
Theorem gen_C12_channel_parseModes : forall c L cm cname mem modes args,
  (forall x, is_Some (L !! (c, x)) <-> is_Some (mem !! (c, x))) ->
  GoFuncs.go_state_channel_parseModes (GenEqChanModes.Lget c) (GenEqChanModes.Nget c)
    (GenEqChanModes.Nset c) GenEqChanModes.atoi' L (Some (GenEqChanModes.cm_tuple cm)) cname mem modes args
  = GoBytes.Ok (Some (GenEqChanModes.cm_tuple (fst (chan_parse_modes c modes false args cm mem))),
                snd (chan_parse_modes c modes false args cm mem)).
Proof. exact GenEqChanModes.go_channel_parseModes_eq. Qed.
Theorem gen_C12_member_store_laws : forall c N n n' v,
  GenEqChanModes.Nget c (GenEqChanModes.Nset c N (Some n) v) (Some n) = Some v
  /\ (n <> n' -> GenEqChanModes.Nget c (GenEqChanModes.Nset c N (Some n) v) (Some n')
                 = GenEqChanModes.Nget c N (Some n')).
Proof.
  intros c N n n' v. split; [apply GenEqChanModes.Nget_Nset_same | apply GenEqChanModes.Nget_Nset_other].
Qed.
Print Assumptions gen_C12_channel_parseModes.
Print Assumptions gen_C12_member_store_laws.

(* generated-code tie, stage 5: the OBJECT GRAPH of package state.  Gen/GoTracker.v holds the Gallina
   TRANSLATION (translator/go2heap.go, regenerated on every check run) of the Go bodies of
   newNick, newChannel, NewTracker, nick.Nick, channel.Channel, nick.isOn, nick.addChannel /
   delChannel, channel.addNick / delNick and of the methods of stateTracker, over an explicit heap:
   a pointer to nick / channel / ChanPrivs is an address (None = nil), a composite literal or new
   allocates at the counter, a field read or write goes through the heap (a missing object is a
   panic), the maps live inline in their owner and hold addresses, Copy of a privilege pointer
   reads the value, the snapshot literals become constructor applications, mutex calls are
   dropped (C14 pins the locking), logging calls keep only the dereferences in their arguments,
   and range over a map is a fold over the enumeration of the map, re-reading the map before each
   round when the loop can delete from such a map (an entry removed before it is reached is
   skipped, the value is the current one) and refused if the loop could add to it.  All types and
   primitives are the fields of one class (GoTracker.heap_ops); GenEqTracker.impl_ops instantiates
   it with the records of Model/TrackerImpl.v (the snapshot constructor sorts the channel map,
   nick.parseModes is the function translated in GoFuncs.v on the mode record).  With that
   instance every generated function EQUALS the hand-written im_ model used by the theorems above
   (functions that do not write return only their result: with_state pairs it with the state). *)
From Verif Require GoTracker GenEqTracker.
Theorem gen_C12_tracker_helpers : forall eA eN s nk ch cp,
  @GoTracker.go_nick_Nick (GenEqTracker.impl_ops eA eN) s (Some nk) = (r ← im_nick_snap eA s nk; Some (Some r))
  /\ @GoTracker.go_channel_Channel (GenEqTracker.impl_ops eA eN) s (Some ch) = (r ← im_chan_snap eA s ch; Some (Some r))
  /\ @GoTracker.go_nick_isOn (GenEqTracker.impl_ops eA eN) s (Some nk) (Some ch) = nk_isOn s nk ch
  /\ @GoTracker.go_nick_addChannel (GenEqTracker.impl_ops eA eN) s (Some nk) (Some ch) (Some cp) = nk_addChannel s nk ch cp
  /\ @GoTracker.go_nick_delChannel (GenEqTracker.impl_ops eA eN) s (Some nk) (Some ch) = nk_delChannel s nk ch
  /\ @GoTracker.go_channel_addNick (GenEqTracker.impl_ops eA eN) s (Some ch) (Some nk) (Some cp) = ch_addNick s ch nk cp
  /\ @GoTracker.go_channel_delNick (GenEqTracker.impl_ops eA eN) s (Some ch) (Some nk) = ch_delNick s ch nk
  /\ @GoTracker.go_stateTracker_delNick (GenEqTracker.impl_ops eA eN) s (Some nk) = st_delNick eA s nk
  /\ @GoTracker.go_stateTracker_delChannel (GenEqTracker.impl_ops eA eN) s (Some ch) = st_delChannel eA s ch.
Proof.
  intros. repeat split.
  - apply GenEqTracker.go_nick_Nick_eq.
  - apply GenEqTracker.go_channel_Channel_eq.
  - apply GenEqTracker.go_nick_isOn_eq.
  - apply GenEqTracker.go_nick_addChannel_eq.
  - apply GenEqTracker.go_nick_delChannel_eq.
  - apply GenEqTracker.go_channel_addNick_eq.
  - apply GenEqTracker.go_channel_delNick_eq.
  - apply GenEqTracker.go_stateTracker_delNick_eq.
  - apply GenEqTracker.go_stateTracker_delChannel_eq.
Qed.
Theorem gen_C12_tracker_NewTracker : forall eA eN me,
  @GoTracker.go_NewTracker (GenEqTracker.impl_ops eA eN) me = Some (im_new me).
Proof. exact GenEqTracker.go_NewTracker_eq. Qed.
Theorem gen_C12_tracker_NewNick : forall eA eN s n,
  @GoTracker.go_stateTracker_NewNick (GenEqTracker.impl_ops eA eN) s n = im_NewNick eA s n.
Proof. exact GenEqTracker.go_stateTracker_NewNick_eq. Qed.
Theorem gen_C12_tracker_GetNick : forall eA eN s n,
  GenEqTracker.with_state s (@GoTracker.go_stateTracker_GetNick (GenEqTracker.impl_ops eA eN) s n) = im_GetNick eA s n.
Proof. exact GenEqTracker.go_stateTracker_GetNick_eq. Qed.
Theorem gen_C12_tracker_NickInfo : forall eA eN s n i h r,
  @GoTracker.go_stateTracker_NickInfo (GenEqTracker.impl_ops eA eN) s n i h r = im_NickInfo eA s n i h r.
Proof. exact GenEqTracker.go_stateTracker_NickInfo_eq. Qed.
Theorem gen_C12_tracker_NickModes : forall eA eN s n m,
  @GoTracker.go_stateTracker_NickModes (GenEqTracker.impl_ops eA eN) s n m = im_NickModes eA s n m.
Proof. exact GenEqTracker.go_stateTracker_NickModes_eq. Qed.
Theorem gen_C12_tracker_NewChannel : forall eA eN s c,
  @GoTracker.go_stateTracker_NewChannel (GenEqTracker.impl_ops eA eN) s c = im_NewChannel eA s c.
Proof. exact GenEqTracker.go_stateTracker_NewChannel_eq. Qed.
Theorem gen_C12_tracker_GetChannel : forall eA eN s c,
  GenEqTracker.with_state s (@GoTracker.go_stateTracker_GetChannel (GenEqTracker.impl_ops eA eN) s c) = im_GetChannel eA s c.
Proof. exact GenEqTracker.go_stateTracker_GetChannel_eq. Qed.
Theorem gen_C12_tracker_Topic : forall eA eN s c t,
  @GoTracker.go_stateTracker_Topic (GenEqTracker.impl_ops eA eN) s c t = im_Topic eA s c t.
Proof. exact GenEqTracker.go_stateTracker_Topic_eq. Qed.
Theorem gen_C12_tracker_Me : forall eA eN s,
  GenEqTracker.with_state s (@GoTracker.go_stateTracker_Me (GenEqTracker.impl_ops eA eN) s) = im_Me eA s.
Proof. exact GenEqTracker.go_stateTracker_Me_eq. Qed.
Theorem gen_C12_tracker_IsOn : forall eA eN s c n,
  GenEqTracker.with_state s (@GoTracker.go_stateTracker_IsOn (GenEqTracker.impl_ops eA eN) s c n) = im_IsOn s c n.
Proof. exact GenEqTracker.go_stateTracker_IsOn_eq. Qed.
Theorem gen_C12_tracker_Associate : forall eA eN s c n,
  @GoTracker.go_stateTracker_Associate (GenEqTracker.impl_ops eA eN) s c n = im_Associate s c n.
Proof. exact GenEqTracker.go_stateTracker_Associate_eq. Qed.
(* second wave: the loops that delete from the map they range over *)
Theorem gen_C12_tracker_ReNick : forall eA eN s old neu,
  @GoTracker.go_stateTracker_ReNick (GenEqTracker.impl_ops eA eN) s old neu = im_ReNick eA s old neu.
Proof. exact GenEqTracker.go_stateTracker_ReNick_eq. Qed.
Theorem gen_C12_tracker_DelNick : forall eA eN s n,
  @GoTracker.go_stateTracker_DelNick (GenEqTracker.impl_ops eA eN) s n = im_DelNick eA s n.
Proof. exact GenEqTracker.go_stateTracker_DelNick_eq. Qed.
Theorem gen_C12_tracker_DelChannel : forall eA eN s c,
  @GoTracker.go_stateTracker_DelChannel (GenEqTracker.impl_ops eA eN) s c = im_DelChannel eA s c.
Proof. exact GenEqTracker.go_stateTracker_DelChannel_eq. Qed.
(* Dissociate logs ch.name on its "not on the channel" path: the generated code reads the channel
   object there (in the heap model a dangling address is a panic; Go has none), the model does
   not — hence the premise that the channel the tracker's map points to is allocated. *)
Theorem gen_C12_tracker_Dissociate : forall eA eN s c n,
  (forall ch, st_chans s !! c = Some ch -> is_Some (h_chan s !! ch)) ->
  @GoTracker.go_stateTracker_Dissociate (GenEqTracker.impl_ops eA eN) s c n = im_Dissociate eA s c n.
Proof. exact GenEqTracker.go_stateTracker_Dissociate_eq. Qed.
Theorem gen_C12_tracker_Wipe : forall eA eN s,
  @GoTracker.go_stateTracker_Wipe (GenEqTracker.impl_ops eA eN) s = im_Wipe eA eN s.
Proof. exact GenEqTracker.go_stateTracker_Wipe_eq. Qed.
(* ChannelModes: the call ch.parseModes(modes, args...) is the GoFuncs.v translation of channel.parseModes
   (stage 4) instantiated on HEAP stores (GenEqChanModesHeap: a nick reference is an address,
   ch.lookup the object's map, the store behind ch.nicks the object's map together with the
   ChanPrivs heap; a write through ch.nicks[nk] updates that heap); it is proved to be the fold of
   a step function (GenEqChanModesHeap.go_channel_parseModes_heap_eq), and that fold to be
   ch_parseModes (GenEqTracker.fold_mk); a missing channel object panics on both sides. *)
Theorem gen_C12_tracker_ChannelModes : forall eA eN s c modes args,
  @GoTracker.go_stateTracker_ChannelModes (GenEqTracker.impl_ops eA eN) s c modes args = im_ChannelModes eA s c modes args.
Proof. exact GenEqTracker.go_stateTracker_ChannelModes_eq. Qed.
(* All sixteen methods at once, and composed with the refinement theorem above: GenEqTracker.go_step /
   go_run run the GENERATED methods (go_step is im_step with each im_ function replaced by the
   generated one).  On a state satisfying the representation invariant one generated step is the
   model's step; hence for every operation sequence over the tracker built by the generated
   NewTracker, under any enumeration that is a permutation of the map's entries, the generated
   code does not panic and returns exactly the results of the plain model TrackerSpec. *)
Theorem gen_C12_tracker_step : forall eA eN s o, rep_inv s ->
  GenEqTracker.go_step eA eN s o = im_step eA eN s o.
Proof.
  intros eA eN s o I. apply GenEqTracker.go_step_eq. intros c ch H.
  destruct (ri_chans s I c ch H) as (co & Hco & _). eauto.
Qed.
Lemma gen_C12_tracker_run_eq : forall eA eN,
  (forall m, eA m ≡ₚ map_to_list m) -> (forall m, eN m ≡ₚ map_to_list m) ->
  forall ops s, rep_inv s -> GenEqTracker.go_run eA eN s ops = im_run eA eN s ops.
Proof.
  intros eA eN HA HN. induction ops as [|o ops IH]; intros s I; [done|].
  cbn [GenEqTracker.go_run im_run]. rewrite gen_C12_tracker_step by done.
  destruct (C12_refines_op eA eN HA HN o s I) as (s' & r & E & I' & _). rewrite E. simpl.
  by rewrite IH.
Qed.
Theorem gen_C12_tracker_refines : forall eA eN,
  (forall m, eA m ≡ₚ map_to_list m) -> (forall m, eN m ≡ₚ map_to_list m) ->
  forall me ops, exists s0 s' rs,
    @GoTracker.go_NewTracker (GenEqTracker.impl_ops eA eN) me = Some s0
    /\ GenEqTracker.go_run eA eN s0 ops = Some (s', rs)
    /\ rs = snd (sp_run (sp_new me) ops).
Proof.
  intros eA eN HA HN me ops.
  destruct (C12_refines eA eN HA HN me ops) as (s' & rs & E & _ & _ & Hr).
  exists (im_new me), s', rs. split; [apply GenEqTracker.go_NewTracker_eq|]. split; [|done].
  rewrite gen_C12_tracker_run_eq; [done..|]. apply rep_inv_new.
Qed.
Print Assumptions gen_C12_tracker_step.
Print Assumptions gen_C12_tracker_refines.
Print Assumptions gen_C12_tracker_ChannelModes.
Print Assumptions gen_C12_tracker_helpers.
Print Assumptions gen_C12_tracker_NewTracker.
Print Assumptions gen_C12_tracker_NewNick.
Print Assumptions gen_C12_tracker_GetNick.
Print Assumptions gen_C12_tracker_NickInfo.
Print Assumptions gen_C12_tracker_NickModes.
Print Assumptions gen_C12_tracker_NewChannel.
Print Assumptions gen_C12_tracker_GetChannel.
Print Assumptions gen_C12_tracker_Topic.
Print Assumptions gen_C12_tracker_Me.
Print Assumptions gen_C12_tracker_IsOn.
Print Assumptions gen_C12_tracker_Associate.
Print Assumptions gen_C12_tracker_ReNick.
Print Assumptions gen_C12_tracker_DelNick.
Print Assumptions gen_C12_tracker_DelChannel.
Print Assumptions gen_C12_tracker_Dissociate.
Print Assumptions gen_C12_tracker_Wipe.
