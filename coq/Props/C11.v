(* Props/C11.v — C11: long messages are split losslessly into bounded pieces.
   Property theorems only; each is closed by [exact] of a lemma proved in Proofs/. *)
From Verif Require Import GoBytes Split Commands SplitProofs CommandsProofs Consts.
Open Scope Z_scope.

(* tie: the constants the model hard-codes are the ones in the source today *)
Lemma tie_C11 :
  const_client_defaultSplit = default_split
  /\ lits_client_splitMessage = [LInt min_split; LInt default_split; LInt marker_len; LInt 0; LInt marker_len; LStr marker]
  /\ lits_client_indexFragment =
       LInt (-1) :: map LStr sentence_seps ++ [LInt 0; LInt 2; LStr [sp]; LInt 0; LInt 1; LInt (-1)].
Proof. repeat split; vm_compute; reflexivity. Qed.

(* for EVERY message and EVERY SplitLen: splitMessage returns (no panic, terminates) pieces
   that are bounded, marked, lossless and — when the text was split — non-empty *)
Theorem C11_split : forall (msg : bytes) (n : Z),
  exists ps, split_message msg n = Ok ps /\ C11_ok msg n ps = true.
Proof. exact split_message_correct. Qed.

(* C11_ok read back in the property's words *)
Theorem C11_ok_says : forall msg n ps, C11_ok msg n ps = true ->
  ps <> []
  /\ Forall (fun p => len p <= eff_split n) ps
  /\ (forall p, In p (removelast ps) -> exists h, p = h ++ marker)
  /\ rejoin ps = msg
  /\ (len msg > eff_split n -> forall p, In p (removelast ps) -> strip_marker p <> []).
Proof. exact C11_ok_meaning. Qed.

(* a text that fits is passed on untouched (model behaviour; not demanded by the property) *)
Theorem C11_single : forall msg n, len msg <= eff_split n -> split_message msg n = Ok [msg].
Proof. exact split_message_single. Qed.

(* termination argument: every cut removes at least one byte *)
Theorem C11_progress : forall s, index_fragment s = -1 \/ 1 <= index_fragment s <= len s.
Proof. exact index_fragment_range. Qed.

(* on the wire: Privmsg / Privmsgln / Privmsgf / Notice send one message per piece to the
   same target with the piece embedded unchanged; for any upper-casing function *)
Theorem C11_commands_msg : forall upper m verb t text n,
  msg_kind m = Some (verb, false) -> clean t -> clean text ->
  exists ls, emit upper m {| cc_split_len := n; cc_quit_message := [] |} [t; text] = Ok ls
             /\ C11_wire_ok m t (upper []) text n ls = true.
Proof. exact C11_wire_msg. Qed.

(* ... and Ctcp / CtcpReply: after the CTCP verb and one space, before the closing \001 *)
Theorem C11_commands_ctcp : forall upper m verb t ctcp text n,
  msg_kind m = Some (verb, true) -> clean t -> clean (upper ctcp) -> clean text ->
  exists ls, emit upper m {| cc_split_len := n; cc_quit_message := [] |} [t; ctcp; text] = Ok ls
             /\ C11_wire_ok m t (upper ctcp) text n ls = true.
Proof. exact C11_wire_ctcp. Qed.

(* non-vacuity: a 30-byte text with SplitLen 16 is really split, at a sentence break *)
Example C11_nonvacuous :
  split_message [72;101;108;108;111;46;32;119;111;114;108;100;32;97;98;99;100;101;102;103;104;105;106;107;108;109;110;111;112;113]%N 16
  = Ok [[72;101;108;108;111;46;32;46;46;46]; [119;111;114;108;100;32;46;46;46];
        [97;98;99;100;101;102;103;104;105;106;107;108;109;46;46;46]; [110;111;112;113]]%N.
Proof. vm_compute. reflexivity. Qed.

Print Assumptions C11_split.
Print Assumptions C11_ok_says.
Print Assumptions C11_single.
Print Assumptions C11_progress.
Print Assumptions C11_commands_msg.
Print Assumptions C11_commands_ctcp.

(* generated-code tie *)
(* Gen/GoFuncs.v holds the Gallina TRANSLATION of the Go bodies of splitMessage and
   indexFragment, regenerated from the source on every run (translator/go2coq.go); it is
   equal to the model the theorems above are about — for every input, panics included.
   A change of the Go code that changes behaviour breaks these (Proofs/GenEqSplit.v). *)
From Verif Require Import GoFuncs GenEqSplit.
Theorem gen_C11_splitMessage : forall msg n, go_client_splitMessage msg n = split_message msg n.
Proof. exact go_splitMessage_eq. Qed.
Theorem gen_C11_indexFragment : forall s, go_client_indexFragment s = Ok (index_fragment s).
Proof. exact go_indexFragment_eq. Qed.
Print Assumptions gen_C11_splitMessage.
Print Assumptions gen_C11_indexFragment.
