(* Props/C08.v — C08: each API call writes only whole, single IRC commands of its own verb. *)
From Verif Require Import GoBytes Split Commands SplitProofs CommandsProofs Consts.
Open Scope Z_scope.

(* tie: the verb constants of commands.go are the ones the model concatenates *)
Lemma tie_C08 :
  [const_client_PASS; const_client_NICK; const_client_USER; const_client_JOIN; const_client_PART;
   const_client_KICK; const_client_QUIT; const_client_WHOIS; const_client_WHO; const_client_PRIVMSG;
   const_client_NOTICE; const_client_VERSION; const_client_ACTION; const_client_TOPIC;
   const_client_MODE; const_client_AWAY; const_client_INVITE; const_client_OPER; const_client_VHOST;
   const_client_PING; const_client_PONG; const_client_CAP; const_client_AUTHENTICATE]
  = [s_PASS; s_NICK; s_USER; s_JOIN; s_PART; s_KICK; s_QUIT; s_WHOIS; s_WHO; s_PRIVMSG; s_NOTICE;
     s_VERSION; s_ACTION; s_TOPIC; s_MODE; s_AWAY; s_INVITE; s_OPER; s_VHOST; s_PING; s_PONG; s_CAP;
     s_AUTHENTICATE]
  /\ lits_client_cutNewLines = [LStr [13%N]; LInt 2; LInt 0; LStr [10%N]; LInt 2; LInt 0].
Proof. split; vm_compute; reflexivity. Qed.

(* for every method, configuration, argument list and upper-casing function: the call does
   not panic and the wire bytes consist solely of CRLF-terminated lines without CR/LF inside,
   each beginning with the method's verb (for Raw: exactly one line, the longest CR/LF-free
   prefix of the argument) *)
Theorem C08_methods : forall upper m cfg args,
  exists ls, emit upper m cfg args = Ok ls /\ C08_ok m args (wire_of ls) = true.
Proof. exact C08_model. Qed.

(* what [frames w = Some ls] — the heart of C08_ok — means *)
Theorem C08_framing : forall w ls, frames w = Some ls -> w = wire_of ls /\ Forall no_crlf ls.
Proof. exact frames_meaning. Qed.

(* Raw keeps a prefix of its argument, free of CR/LF, and it is the longest such prefix *)
Theorem C08_cut : forall s,
  no_crlf (cut_newlines s) /\ (exists r, s = cut_newlines s ++ r)
  /\ (forall r, s = cut_newlines s ++ r -> r = [] \/ exists c r', r = c :: r' /\ (c = 13%N \/ c = 10%N)).
Proof.
  intros s. split; [exact (cut_newlines_no_crlf s)|]. split; [exact (cut_newlines_prefix s)|].
  exact (cut_newlines_maximal s).
Qed.

(* non-vacuity: an injection attempt through Privmsg's target is cut, the wire is one line *)
Example C08_nonvacuous :
  option_map (fun ls => wire_of ls)
    (match emit to_upper MPrivmsg {| cc_split_len := 0; cc_quit_message := [] |}
                 [[35;97;13;10;81;85;73;84]; [104;105]]%N with Ok ls => Some ls | Panic => None end)
  = Some [80;82;73;86;77;83;71;32;35;97;13;10]%N.
Proof. vm_compute. reflexivity. Qed.

Print Assumptions C08_methods.
Print Assumptions C08_framing.
Print Assumptions C08_cut.

(* generated-code tie *)
(* Gen/GoFuncs.v holds the Gallina TRANSLATION of the Go bodies of cutNewLines and
   splitArgs, regenerated from the source on every run (translator/go2coq.go); it is equal
   to the model — for every input, and it never panics (Proofs/GenEqSplit.v). *)
From Verif Require Import GoFuncs GenEqSplit.
Theorem gen_C08_cutNewLines : forall s, go_client_cutNewLines s = Ok (cut_newlines s).
Proof. exact go_cutNewLines_eq. Qed.
Theorem gen_C08_splitArgs : forall args maxLen,
  go_client_splitArgs args maxLen = Ok (split_args args maxLen).
Proof. exact go_splitArgs_eq. Qed.
Print Assumptions gen_C08_cutNewLines.
Print Assumptions gen_C08_splitArgs.

(* generated-code tie, command methods: the Gallina TRANSLATION of every method body (the list
   of strings it sends on conn.out through Raw; Config fields it reads come first, the
   variadic parameter is a list) is what the model emit says, for all arguments
   (Proofs/GenEqCmd.v) *)
From Verif Require Import GenEqCmd.
Theorem gen_C08_commands : forall cfg,
  let E := emit to_upper in
  let n := cc_split_len cfg in
  (forall x, go_client_Conn_Raw x = E MRaw cfg [x])
  /\ (forall p, go_client_Conn_Pass p = E MPass cfg [p])
  /\ (forall k, go_client_Conn_Nick k = E MNick cfg [k])
  /\ (forall i r, go_client_Conn_User i r = E MUser cfg [i; r])
  /\ (forall c key, go_client_Conn_Join c key = E MJoin cfg (c :: key))
  /\ (forall c ms, go_client_Conn_Part c ms = E MPart cfg (c :: ms))
  /\ (forall c k ms, go_client_Conn_Kick c k ms = E MKick cfg (c :: k :: ms))
  /\ (forall ms, go_client_Conn_Quit (cc_quit_message cfg) ms = E MQuit cfg ms)
  /\ (forall k, go_client_Conn_Whois k = E MWhois cfg [k])
  /\ (forall k, go_client_Conn_Who k = E MWho cfg [k])
  /\ (forall t msg, go_client_Conn_Privmsg n t msg = E MPrivmsg cfg [t; msg])
  /\ (forall t msg, go_client_Conn_Notice n t msg = E MNotice cfg [t; msg])
  /\ (forall t c args, go_client_Conn_Ctcp n t c args = E MCtcp cfg (t :: c :: args))
  /\ (forall t c args, go_client_Conn_CtcpReply n t c args = E MCtcpReply cfg (t :: c :: args))
  /\ (forall t, go_client_Conn_Version n t = E MVersion cfg [t])
  /\ (forall t msg, go_client_Conn_Action n t msg = E MAction cfg [t; msg])
  /\ (forall c ts, go_client_Conn_Topic c ts = E MTopic cfg (c :: ts))
  /\ (forall t ms, go_client_Conn_Mode t ms = E MMode cfg (t :: ms))
  /\ (forall ms, go_client_Conn_Away ms = E MAway cfg ms)
  /\ (forall k c, go_client_Conn_Invite k c = E MInvite cfg [k; c])
  /\ (forall u p, go_client_Conn_Oper u p = E MOper cfg [u; p])
  /\ (forall u p, go_client_Conn_VHost u p = E MVHost cfg [u; p])
  /\ (forall m, go_client_Conn_Ping m = E MPing cfg [m])
  /\ (forall m, go_client_Conn_Pong m = E MPong cfg [m])
  /\ (forall s caps, go_client_Conn_Cap s caps = E MCap cfg (s :: caps))
  /\ (forall m, go_client_Conn_Authenticate m = E MAuthenticate cfg [m]).
Proof. exact go_commands_eq. Qed.
Print Assumptions gen_C08_commands.

(* the wire below the command methods: the Gallina TRANSLATION of the write method of Conn frames
   each line it is given with exactly one CRLF (generated-code tie, stage 6; the same statement as
   gen_C09_write_bytes), and the socket has a single writer: only the send goroutine calls
   conn.write, and no function beyond connection set-up, tear-down, the reader and the writer
   touches the buffered socket conn.io (source facts regenerated on every run).  A second
   writer could interleave its bytes with a line in flight, and caller-supplied text would then
   start a line of its own. *)
From Coq Require Import String.
From Verif Require Import GenEqWrite Facts.
Theorem gen_C08_write_bytes : forall flood bad last line a a' iow ioe,
  exists r, go_client_Conn_write bad flood last line a a' iow ioe = Ok r
  /\ written (ws_io r) = wire_of [line]
  /\ ws_err r = (snd iow || ioe).
Proof.
  intros. eexists. split; [apply go_write_eq|].
  destruct (write_spec_io flood bad last line a a' iow ioe) as (H1 & _ & H3). split; assumption.
Qed.
Print Assumptions gen_C08_write_bytes.

Lemma tie_C08_single_writer :
  conn_write_callers_client = ["Conn.send"%string]
  /\ conn_io_users_client
     = ["Conn.closeIf"; "Conn.initialise"; "Conn.postConnect"; "Conn.recv"; "Conn.runLoop";
        "Conn.send"; "Conn.write"]%string.
Proof. split; vm_compute; reflexivity. Qed.
