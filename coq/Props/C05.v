(* Props/C05.v — C05: state tracking is applied before user handlers observe a line.
   Proofs about the LTS Model/DispatchLts.v ([applied] = 1 + serial of the last line whose
   internal phase — where the state handlers live — has completed; every event carries the
   value of [applied] sampled at that moment, which is what a handler reads from the tracker). *)
From Coq Require Import List Arith Bool String.
From Verif Require Import Consts Facts.
From Verif Require Import Lts DispatchLts DispatchProofsA DispatchProofsB DispatchExamples.
Import ListNotations.
Local Open Scope nat_scope.

(* tie: Conn.dispatch runs the internal set to completion first; the state handlers are
   registered with conn.handle, i.e. in the INTERNAL set; the public Handle / HandleBG /
   HandleFunc go to the foreground / background sets; hSet.dispatch waits for its handlers;
   runLoop dispatches one line at a time *)
Lemma tie_C05 :
  flow_client_Conn_dispatch
    = ["conn.intHandlers.dispatch"; "go conn.bgHandlers.dispatch"; "conn.fgHandlers.dispatch"]%string
  /\ flow_client_Conn_addSTHandlers = ["for{"; "conn.handle"; "set conn.stRemovers"; "}"]%string
  /\ flow_client_Conn_addIntHandlers = ["for{"; "conn.handle"; "}"]%string
  /\ flow_client_Conn_handle = ["conn.intHandlers.add"; "return"]%string
  /\ flow_client_Conn_Handle = ["conn.fgHandlers.add"; "return"]%string
  /\ flow_client_Conn_HandleBG = ["conn.bgHandlers.add"; "return"]%string
  /\ flow_client_Conn_HandleFunc = ["conn.Handle"; "return"]%string
  /\ last flow_client_hSet_dispatch ""%string = "wg.Wait"%string
  /\ filter (fun p => String.eqb (fst p) "Conn.dispatch" || String.eqb (fst p) "hSet.dispatch") go_stmts_client
     = [("Conn.dispatch", "conn.bgHandlers.dispatch"); ("hSet.dispatch", "func")]%string
  /\ flow_client_Conn_runLoop
     = ["for{"; "select{"; "case"; "recv conn.in"; "conn.dispatch"; "case"; "ctx.Done"; "recv ctx.Done()";
        "conn.wg.Done"; "conn.closeIf"; "return"; "}"; "}"]%string
  /\ conds_client_Conn_addSTHandlers = []      (* every state handler goes through conn.handle, unconditionally *)
  /\ conds_client_Conn_dispatch = []
  /\ conds_client_hSet_dispatch = []           (* no condition under which the wait is skipped *)
  /\ conds_client_hSet_getHandlers = ["!ok"; "for hn != nil"]%string
  /\ conds_client_Conn_runLoop = []
  /\ existsb (String.eqb """TOPIC""") var_client_stHandlers = true
  /\ existsb (String.eqb """332""") var_client_stHandlers = true
  /\ existsb (String.eqb """MODE""") var_client_stHandlers = true
  /\ existsb (String.eqb """TOPIC""") var_client_intHandlers = false.
Proof. repeat split; vm_compute; reflexivity. Qed.

(* For EVERY schedule, any session: every Enter / Exit of a user handler for line k carries a
   sample a >= k+1 (the line itself has been applied), every FOREGROUND one exactly a = k+1
   (no later line is reflected while it runs); background handlers only >=. *)
Theorem C05_all_schedules : forall sess sched,
  C05_ok (hist (run (step sess) init sched)) = true.
Proof. exact C05_model. Qed.

(* as state invariants: in the foreground phase of line k the tracker is at k+1; a background
   group for line k exists only once the tracker is at k+1 or beyond *)
Theorem C05_state : forall sess sched,
  let s := run (step sess) init sched in
  match lpc s with LInt k => applied s <= k | LFg k => applied s = S k | _ => True end
  /\ (forall k g, In (BLine k, g) (bgs s) -> S k <= applied s).
Proof. intros sess sched s. destruct (InvA_run sess sched) as [_ _ H1 _ _ _ _ _ _ _ H2]. split; assumption. Qed.

Example C05_nonvacuous :
  let s := run (step sess0) init (sched0 ++ sched1) in
  hist s = hist1 /\ C05_ok (hist s) = true
  /\ In (EvEnter KBg 0 0 1) (hist s) /\ In (EvExit KBg 2 0 3) (hist s) /\ In (EvEnter KFg 1 0 2) (hist s).
Proof. vm_compute. repeat split; auto 30. Qed.

Example C05_monitor_rejects :
  C05_ok [EvEnter KBg 2 0 2] = false /\ C05_ok [EvEnter KFg 1 0 2; EvExit KFg 1 0 3] = false
  /\ C05_ok [EvEnter KFg 1 0 1] = false.
Proof. repeat split; reflexivity. Qed.

Print Assumptions C05_all_schedules.
Print Assumptions C05_state.
