(* Props/C17.v — C17: the client always knows its own current nick.
   Model: Model/NickHandlers.v (client/handlers.go h_001 h_433 h_NICK, state_handlers.go
   h_STNICK, connection.go Me / EnableStateTracking / Client, the tracker as these handlers see
   it, and a scripted server as ground truth) and Model/NewNick.v (DefaultNewNick);
   proofs: Proofs/NickProofs.v, Proofs/NewNickProofs.v; the tracker part is related to the
   plain tracker model of C12 in Proofs/NickTrackerRefine.v.
   Every theorem holds for tracking on AND off and for ANY generator [new_nick]. *)
From Coq Require Import String.
From Verif Require Import GoBytes LineLib Line LineSend Split Commands NewNick NickHandlers.
From Verif Require Import GoBytesFacts NewNickProofs NickProofs Consts Facts.
Notation length := List.length.
Open Scope Z_scope.

(* ---------- tie: what the model hard-codes is what the source says today ---------- *)
Fixpoint adjacent (a b : string) (l : list string) : bool :=
  match l with
  | x :: ((y :: _) as l') => (String.eqb x a && String.eqb y b) || adjacent a b l'
  | _ => false
  end.
(* handler names as the translator prints them, written so that no comment opener occurs in this file *)
Definition hname (s : string) : string := String.append "(" (String.append "*Conn)." s).
Definition c17_short (l : list lit) : list lit :=
  filter (fun x => match x with LStr s => (length s <=? 8)%nat | _ => true end) l.

Lemma tie_C17 :
  (* the handlers, statement skeleton by statement skeleton *)
  flow_client_Conn_Me = ["if{"; "conn.st.Me"; "set conn.cfg.Me"; "}"; "return"]%string
  /\ flow_client_Conn_EnableStateTracking =
       ["conn.mu.Lock"; "defer conn.mu.Unlock"; "if{"; "state.NewTracker"; "set conn.st"; "conn.st.NickInfo";
        "conn.st.Me"; "set conn.cfg.Me"; "conn.addSTHandlers"; "}"]%string
  /\ flow_client_Conn_h_001 =
       ["defer conn.dispatch"; "time.Now"; "conn.Me"; "line.Target"; "line.Text"; "strings.LastIndex"; "if{"; "}";
        "parseUserHost"; "if{"; "}"; "if{"; "if{"; "conn.st.NickInfo"; "}"; "conn.st.ReNick"; "if{"; "set conn.cfg.Me"; "}"; "}";
        "else{"; "set conn.cfg.Me.Nick"; "if{"; "set conn.cfg.Me.Ident"; "set conn.cfg.Me.Host"; "}"; "}"]%string
  /\ flow_client_Conn_h_433 =
       ["conn.Me"; "conn.cfg.NewNick"; "conn.Nick"; "line.argslen"; "if{"; "return"; "}"; "if{"; "if{"; "conn.st.ReNick";
        "if{"; "set conn.cfg.Me"; "}"; "}"; "else{"; "set conn.cfg.Me.Nick"; "}"; "}"]%string
  /\ flow_client_Conn_h_NICK = ["if{"; "set conn.cfg.Me.Nick"; "}"]%string
  /\ flow_client_Conn_h_STNICK = ["conn.st.ReNick"]%string
  /\ flow_client_Conn_Nick = ["conn.Raw"]%string
  (* indices and separators: LastIndex(t, " ") != -1, t[idx+1:]; Args[1], argslen(1), Args[1]; Args[0]; Args[0] *)
  /\ c17_short lits_client_Conn_h_001 = [LStr s_space; LInt (-1); LInt 1]
  /\ lits_client_Conn_h_433 = [LInt 1; LInt 1; LInt 1]
  /\ lits_client_Conn_h_NICK = [LInt 0]
  /\ lits_client_Conn_h_STNICK = [LInt 0]
  /\ lits_client_Conn_Nick = [LStr s_NICK_sp]
  /\ lits_client_Conn_Me = [] /\ lits_client_Conn_EnableStateTracking = []
  (* Client(): the "__idiot__" repair of an unusable Config.Me *)
  /\ firstn 6 lits_client_Client = [LStr s_idiot; LStr []; LStr []; LStr s_idiot; LStr s_goirc; LStr s_powered]
  (* the event names these handlers are registered under *)
  /\ adjacent """001""" (hname "h_001") var_client_intHandlers = true
  /\ adjacent """433""" (hname "h_433") var_client_intHandlers = true
  /\ adjacent """NICK""" (hname "h_NICK") var_client_intHandlers = true
  /\ adjacent """NICK""" (hname "h_STNICK") var_client_stHandlers = true
  /\ const_client_NICK = c_NICK
  (* NewConfig installs DefaultNewNick; its literals: 0, "_", 1, '0','9','0','0',1,10, 'A','}','A','A',1,61, '_', 1 *)
  /\ existsb (fun p => String.eqb (fst p) "NewNick" && String.eqb (snd p) "DefaultNewNick") newconfig_defaults = true
  /\ lits_client_DefaultNewNick =
       [LInt 0; LStr underscore; LInt 1; LInt 48; LInt 57; LInt 48; LInt 48; LInt 1; LInt 10;
        LInt 65; LInt 125; LInt 65; LInt 65; LInt 1; LInt 61; LInt 95; LInt 1].
Proof. repeat split; vm_compute; reflexivity. Qed.

(* ---------- the property predicate holds on every run of the model ---------- *)
(* [C17_ok] (Model/NickHandlers.v) is the runtime oracle of ./check C17; here it is evaluated on
   the model's own observations: for EVERY script (conformant or not, any length), both tracking
   modes, every generator, every configuration and every set of other users *)
Theorem C17_all : forall new_nick track nick ident name others0 es,
  let w0 := world0 track nick ident name others0 in
  C17_ok new_nick w0 es (observe new_nick w0 es) = true.
Proof. exact C17_holds. Qed.

(* ---------- Me() is the server's nick ---------- *)
(* After ANY conformant script — collisions during registration, the welcome with the requested
   or another nick, then requests of the client confirmed / refused (433) / dropped (432),
   changes forced by the server, other users' changes to and from look-alike names, users
   appearing, the tracker learning and forgetting users, noise lines, Me() called anywhere —
   once the welcome has been sent, Me() reports the nick the server uses for the client. *)
Theorem C17_me_tracks_server : forall new_nick track nick ident name others0 es,
  let w0 := world0 track nick ident name others0 in
  conformant new_nick w0 es = true ->
  sv_reg (w_srv (wrun new_nick w0 es)) = true ->
  me_nick_of (w_cli (wrun new_nick w0 es)) = Some (sv_nick (w_srv (wrun new_nick w0 es))).
Proof. exact me_tracks_server. Qed.

(* Before the welcome "the nick the server uses" does not exist; what holds instead: after k
   collisions (k arbitrary) Me() is the nick the client requested last = the k-th iterate of
   the generator, whatever the generator (one that returns its argument loops for ever, and
   Me() stays that nick), provided the iterates can be sent as nicks *)
Theorem C17_registration_collisions : forall new_nick track nick ident name others0 k,
  let n0 := first_nick nick in
  let w := wrun new_nick (world0 track nick ident name others0) (repeat EColl k) in
  (forall j, (j <= k)%nat -> nick_ok (Nat.iter j new_nick n0) = true) ->
  me_nick_of (w_cli w) = Some (Nat.iter k new_nick n0)
  /\ sv_pending (w_srv w) = [Nat.iter k new_nick n0]
  /\ sv_reg (w_srv w) = false
  /\ w_ok w = forallb nick_ok others0.
Proof. exact registration_collisions. Qed.

(* the invariant behind it, one conformant event at a time *)
Theorem C17_step_invariant : forall new_nick w e,
  Inv w -> enabled (w_srv w) e = true -> Inv (fst (wstep new_nick w e)).
Proof. exact step_inv. Qed.

(* ---------- never nil ---------- *)
(* for ANY sequence of inputs — arbitrary bytes from the server, user code calling Me() or
   Nick(), the tracker learning or forgetting nicks — Config().Me and Me() are not nil *)
Theorem C17_never_nil : forall new_nick track nick ident name (is : list cinput),
  let s := client_run new_nick (client0 track nick ident name) is in
  cfg_me s <> None /\ snd (do_Me s) <> None.
Proof. exact never_nil. Qed.

(* the handlers as they were before the repair ("conn.cfg.Me = conn.st.ReNick(...)"): tracking
   on, the server welcomes the client with the nick it asked for => Config().Me is nil.
   Wire form of the witness: ":irc.example 001 bob :Welcome to the net bob!u@host.example" *)
Definition c17_bob : bytes := [98;111;98]%N.
Theorem C17_never_nil_refuted :
  exists is, cfg_me (client_run_with (handle_old default_new_nick) (client0 true c17_bob [] []) is) = None.
Proof. exists [InLine (wire (welcome_msg c17_bob))]. vm_compute. reflexivity. Qed.
(* ... and so does a collision answered by a generator that returns a tracked nick (itself) *)
Theorem C17_never_nil_refuted_433 :
  exists is, cfg_me (client_run_with (handle_old (fun s => s)) (client0 true c17_bob [] []) is) = None.
Proof. exists [InLine (wire (coll_msg s_star c17_bob))]. vm_compute. reflexivity. Qed.

(* ---------- collisions ---------- *)
(* every 433 with at least two arguments, in ANY state with a non-nil Config.Me: no panic,
   exactly one line "NICK <generator(refused)>" (cut at a CR/LF the generator may produce),
   and the generated nick is adopted iff the refused one was the current nick (and, while
   tracking, the tracker does not know the generated nick under which it would refuse) *)
Theorem C17_collision_answer : forall new_nick s l a0 r rest,
  cfg_me s <> None -> l_cmd l = c_433 -> l_args l = a0 :: r :: rest ->
  let o := handle new_nick s l in
  ho_panic o = false
  /\ ho_out o = [s_NICK ++ s_sp ++ cut_newlines (new_nick r)]
  /\ me_nick_of (ho_st o) =
     (if opt_beq' (me_nick_of s) (Some r)
         && match c_st s with Some t => negb (tk_tracked t (new_nick r)) | None => true end
      then Some (new_nick r) else me_nick_of s).
Proof. exact collision_answer. Qed.

(* a 433 with fewer than two arguments (non-conformant): the handler panics at line.Args[1]
   before anything is sent; the panic is contained (LogPanic), only Me()'s assignment happened *)
Theorem C17_collision_short : forall new_nick s l, l_cmd l = c_433 -> llen (l_args l) < 2 ->
  handle new_nick s l = panic (fst (do_Me s)) [].
Proof. exact collision_short. Qed.

(* in a run: the line is what the server reads off the wire, whatever happened before *)
Theorem C17_collision_in_run : forall new_nick w e r,
  cfg_me (w_cli w) <> None -> SrvInv (w_srv w) -> refused_of (w_srv w) e = Some r ->
  filter is_nick_line (snd (wstep new_nick w e)) = nick_lines (new_nick r)
  /\ (me_nick_of (w_cli (fst (wstep new_nick w e))) = me_nick_of (w_cli w)
      \/ (me_nick_of (w_cli w) = Some r /\ me_nick_of (w_cli (fst (wstep new_nick w e))) = Some (new_nick r))).
Proof. exact refused_433. Qed.

(* h_NICK and h_STNICK are started in parallel for one NICK line: the order is immaterial *)
Theorem C17_nick_handlers_commute : forall s l t, c_st s = Some t ->
  ho_st (seq_h h_NICK h_STNICK s l) = ho_st (seq_h h_STNICK h_NICK s l)
  /\ ho_out (seq_h h_NICK h_STNICK s l) = ho_out (seq_h h_STNICK h_NICK s l).
Proof. exact nick_handlers_commute. Qed.

(* ---------- the default generator ---------- *)
Theorem C17_default_new_nick : forall old, old <> [] ->
  length (default_new_nick old) = length old
  /\ default_new_nick old <> old
  /\ removelast (default_new_nick old) = removelast old.
Proof. exact dnn_spec. Qed.

Theorem C17_default_new_nick_empty : default_new_nick [] = underscore.
Proof. exact dnn_empty. Qed.

Theorem C17_default_new_nick_no_panic : forall old, exists r, default_new_nick_res old = Ok r.
Proof. exact dnn_no_panic. Qed.

(* the boolean the check evaluates on client.DefaultNewNick's answers says exactly that *)
Theorem C17_dnn_ok_model : forall old, dnn_ok old (default_new_nick old) = true.
Proof. exact dnn_ok_model. Qed.
Theorem C17_dnn_ok_meaning : forall old new, old <> [] -> dnn_ok old new = true ->
  length new = length old /\ new <> old /\ removelast new = removelast old.
Proof. exact dnn_ok_meaning. Qed.

(* ---------- non-vacuity ---------- *)
(* nick "bob", users "bo" and "BOB" already there.  Two collisions (bob, boc refused -> bod), the
   welcome with a DIFFERENT nick ("bobb"), the tracker learns "bo", the client asks for "x"
   (confirmed), asks for "bo" (refused: it then asks for "bp" by itself, which is dropped), the
   server forces "Bob", user "bo" becomes "bob" (the client's first nick) and then "Bobb" (an
   extension of its current one), "BOB" becomes "x" (a nick the client held before) *)
Definition c17_s (s : list N) : bytes := s.
(* the client's own NICK lines carry a cloaked host, other than the one of the welcome *)
Definition c17_cloak : uhost := ([126;117]%N, [99;108;111;97;107;46;101;120]%N).       (* ~u@cloak.ex *)
Definition c17_cloak2 : bytes := [72;79;83;84;46;69;88;65;77;80;76;69]%N.               (* HOST.EXAMPLE *)
Definition c17_script : list event :=
  [EColl; EColl; EWelcome (Some [98;111;98;98]%N) (Some uh_std); ETrack [98;111]%N; EReq [120]%N; EConfirm c17_cloak;
   EReq [98;111]%N; EColl; EIgnore; EForce [66;111;98]%N (s_user, c17_cloak2); EOther [98;111]%N [98;111;98]%N; EMe;
   EOther [98;111;98]%N [66;111;98;98]%N; ETrack [66;79;66]%N; EOther [66;79;66]%N [120]%N].
Definition c17_w0 (track : bool) : world := world0 track c17_bob [] [] [[98;111]; [66;79;66]]%N.

Example C17_nonvacuous :
  conformant default_new_nick (c17_w0 true) c17_script = true
  /\ conformant default_new_nick (c17_w0 false) c17_script = true
  /\ map (fun o => o_me o) (observe default_new_nick (c17_w0 true) c17_script)
     = map Some [[98;111;99]; [98;111;100]; [98;111;98;98]; [98;111;98;98]; [98;111;98;98]; [120]; [120]; [120]; [120];
                 [66;111;98]; [66;111;98]; [66;111;98]; [66;111;98]; [66;111;98]; [66;111;98]]%N
  /\ map (fun o => o_me o) (observe default_new_nick (c17_w0 false) c17_script)
     = map (fun o => o_me o) (observe default_new_nick (c17_w0 true) c17_script)
  /\ sv_nick (w_srv (wrun default_new_nick (c17_w0 true) c17_script)) = [66;111;98]%N
  /\ sv_others (w_srv (wrun default_new_nick (c17_w0 true) c17_script)) = [[66;111;98;98]; [120]]%N
  /\ others_of (w_cli (wrun default_new_nick (c17_w0 true) c17_script)) = [[66;111;98;98]; [120]]%N
  (* while tracking, Config().Me read WITHOUT calling Me() lags behind (step 6: still "bobb") *)
  /\ nth 5 (map (fun o => o_cfg o) (observe default_new_nick (c17_w0 true) c17_script)) None = Some [98;111;98;98]%N.
Proof. repeat split; vm_compute; reflexivity. Qed.

(* the same script with the two custom generators of the check (append "_", rotate) *)
Example C17_nonvacuous_generators :
  conformant gen_append (c17_w0 true) c17_script = true
  /\ conformant gen_rotate (c17_w0 false) c17_script = true
  /\ me_nick_of (w_cli (wrun gen_append (c17_w0 true) (firstn 2 c17_script))) = Some [98;111;98;95;95]%N
  /\ me_nick_of (w_cli (wrun gen_rotate (c17_w0 false) (firstn 2 c17_script))) = Some [98;98;111]%N.
Proof. repeat split; vm_compute; reflexivity. Qed.

(* a NON-conformant server (it refuses the client's OWN current nick after the welcome) makes
   the client's view diverge: the conformance hypothesis of C17_me_tracks_server is needed *)
Example C17_conformance_needed :
  let es := [EWelcome None None; ERaw [58;115;32;52;51;51;32;98;111;98;32;98;111;98;32;58;120]%N] in   (* ":s 433 bob bob :x" *)
  conformant default_new_nick (c17_w0 false) es = false
  /\ me_nick_of (w_cli (wrun default_new_nick (c17_w0 false) es)) = Some [98;111;99]%N
  /\ sv_nick (w_srv (wrun default_new_nick (c17_w0 false) es)) = c17_bob.
Proof. repeat split; vm_compute; reflexivity. Qed.

Print Assumptions tie_C17.
Print Assumptions C17_all.
Print Assumptions C17_me_tracks_server.
Print Assumptions C17_registration_collisions.
Print Assumptions C17_step_invariant.
Print Assumptions C17_never_nil.
Print Assumptions C17_never_nil_refuted.
Print Assumptions C17_collision_answer.
Print Assumptions C17_collision_in_run.
Print Assumptions C17_default_new_nick.

(* generated-code tie *)
(* Gen/GoFuncs.v holds the Gallina TRANSLATION of the Go body of DefaultNewNick, regenerated
   from the source on every run (translator/go2coq.go), with uint8 arithmetic wrapping and
   string(c) as UTF-8 encoding; it is equal to the model default_new_nick_res — for every
   input, panics included (Proofs/GenEqNick.v). *)
From Verif Require Import GoFuncs GenEqNick.
Theorem gen_C17_DefaultNewNick : forall old, go_client_DefaultNewNick old = default_new_nick_res old.
Proof. exact go_DefaultNewNick_eq. Qed.
Print Assumptions gen_C17_DefaultNewNick.

(* generated-code tie, stage 2: the nick handlers.  The Gallina TRANSLATION of Conn.Me, h_NICK,
   h_433 and h_001 (Gen/GoFuncs.v) takes conn.cfg.Me (an option of the tuple (Nick, Ident, Host,
   Name): [onick]), conn.st (an option of an abstract tracker state, with the Tracker interface
   as a record of functions [trk]), cfg.NewNick and the line fields, and returns the fields
   written and the lines sent; a panic is Panic.  For EVERY Tracker record whose Me / NickInfo /
   ReNick are the model tracker's, the result is the model's final state (and lines) when the
   model does not panic and Panic exactly when it does (Proofs/GenEqHandlers.v). *)
From Verif Require Import GoFuncs GenEqHandlers.
Definition gen_tracker_agrees (trk : @go_state_Tracker unit unit tracker) : Prop :=
  (forall t, go_state_Tracker_Me trk t = (t, onick (tk_Me t)))
  /\ (forall t n i h nm, go_state_Tracker_NickInfo trk t n i h nm
        = (fst (tk_NickInfo t n i h nm), onick (snd (tk_NickInfo t n i h nm))))
  /\ (forall t o n, go_state_Tracker_ReNick trk t o n
        = (fst (tk_ReNick t o n), onick (snd (tk_ReNick t o n)))).
Theorem gen_C17_Me : forall trk, gen_tracker_agrees trk -> forall s,
  go_client_Conn_Me trk (onick (cfg_me s)) (c_st s)
  = Ok (onick (cfg_me (fst (do_Me s))), c_st (fst (do_Me s)), onick (snd (do_Me s))).
Proof. intros trk [H1 _]. exact (go_Me_eq trk H1). Qed.
Theorem gen_C17_h_NICK : forall s l,
  (r <- go_client_Conn_h_NICK (onick (cfg_me s)) (c_st s) (l_args l) (l_nick l) ;; Ok (r, c_st s))
  = of_hout (h_NICK s l).
Proof. exact go_h_NICK_eq. Qed.
Theorem gen_C17_h_433 : forall trk, gen_tracker_agrees trk -> forall new_nick s l,
  go_client_Conn_h_433 trk (onick (cfg_me s)) new_nick (c_st s) (l_args l)
  = of_hout_out (h_433 new_nick s l).
Proof. intros trk [H1 [_ H3]]. exact (go_h_433_eq trk H1 H3). Qed.
Theorem gen_C17_h_001 : forall trk, gen_tracker_agrees trk -> forall s l,
  go_client_Conn_h_001 trk (onick (cfg_me s)) (c_st s) (l_args l) (l_cmd l) (l_nick l)
  = of_hout (h_001 s l).
Proof. intros trk [H1 [H2 H3]]. exact (go_h_001_eq trk H1 H2 H3). Qed.
(* the hypothesis is satisfiable: the model tracker itself, as a Tracker record *)
Example gen_C17_tracker_instance : gen_tracker_agrees nh_tracker.
Proof. exact nh_tracker_ok. Qed.
(* the two representations of *state.Nick are in bijection *)
Theorem gen_C17_nick_bijection :
  (forall r, nick_untuple (nick_tuple r) = r) /\ (forall t, nick_tuple (nick_untuple t) = t).
Proof. split; [exact nick_untuple_tuple | exact nick_tuple_untuple]. Qed.
Print Assumptions gen_C17_Me.
Print Assumptions gen_C17_h_NICK.
Print Assumptions gen_C17_h_433.
Print Assumptions gen_C17_h_001.
Print Assumptions gen_C17_tracker_instance.
Print Assumptions gen_C17_nick_bijection.

(* generated-code tie, stage 4: the GENERIC handlers of the composed client model.  With tracking on,
   the Gallina TRANSLATION of h_001 / h_433 is Client.g_001 / g_433 for EVERY state type T and every
   Tracker record whose Me / NickInfo / ReNick are the functions the generic handlers are
   instantiated with (Me leaves the state alone; of NickInfo only the new state matters)
   (Proofs/GenEqClientNick.v). *)
From Verif Require GenEqClientNick.
Theorem gen_C17_g_001 : forall (T : Type) (trk : @go_state_Tracker unit unit T) Me_ NickInfo_ ReNick_,
  (forall t, go_state_Tracker_Me trk t = (t, onick (Me_ t))) ->
  (forall t a b c d, fst (go_state_Tracker_NickInfo trk t a b c d) = NickInfo_ t a b c d) ->
  (forall t a b, go_state_Tracker_ReNick trk t a b = (fst (ReNick_ t a b), onick (snd (ReNick_ t a b)))) ->
  forall s l,
  go_client_Conn_h_001 trk (onick (Client.g_me s)) (Some (Client.g_trk s)) (l_args l) (l_cmd l) (l_nick l)
  = GenEqClientNick.of_gout (Client.g_001 Me_ NickInfo_ ReNick_ s l).
Proof. intros. apply GenEqClientNick.go_h_001_generic; assumption. Qed.
Theorem gen_C17_g_433 : forall (T : Type) (trk : @go_state_Tracker unit unit T) Me_ ReNick_ new_nick,
  (forall t, go_state_Tracker_Me trk t = (t, onick (Me_ t))) ->
  (forall t a b, go_state_Tracker_ReNick trk t a b = (fst (ReNick_ t a b), onick (snd (ReNick_ t a b)))) ->
  forall s l,
  go_client_Conn_h_433 trk (onick (Client.g_me s)) new_nick (Some (Client.g_trk s)) (l_args l)
  = GenEqClientNick.of_gout_out (Client.g_433 Me_ ReNick_ new_nick s l).
Proof. intros. apply GenEqClientNick.go_h_433_generic; assumption. Qed.
Print Assumptions gen_C17_g_001.
Print Assumptions gen_C17_g_433.
