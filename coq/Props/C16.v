(* Props/C16.v — C16: a misbehaving handler cannot stop event delivery.
   Proofs about the LTS Model/DispatchLts.v.  A handler body that panics is the thread step
   TPanic (chosen by the schedule, any handler of any kind, any event); `defer conn.cfg.Recover`
   is the step HPanicked -> Recovered -> HRet after which wg.Done() is reached as after a normal
   return (the theorems are for a recovery function that calls recover(): the default LogPanic or
   a custom one); a background handler that blocks forever is a thread never scheduled again. *)
From Coq Require Import List Arith Bool String.
From Verif Require Import Consts Facts.
From Verif Require Import Lts DispatchLts DispatchProofsA DispatchProofsB DispatchProofsC DispatchProofsD DispatchExamples.
Import ListNotations.
Local Open Scope nat_scope.

(* tie: hNode.Handle = `defer conn.cfg.Recover(conn, line)` then the handler; the default
   Recover is (Conn).LogPanic, which calls recover(); in hSet.dispatch each handler runs in its
   own `go func` whose wg.Done() FOLLOWS hn.Handle (not deferred: reached only because Handle
   returns normally after recovery) and the dispatcher waits; the background set is dispatched
   with `go`, the foreground and internal sets synchronously *)
Lemma tie_C16 :
  flow_client_hNode_Handle = ["defer conn.cfg.Recover"; "hn.handler.Handle"]%string
  /\ flow_client_Conn_LogPanic = ["recover"; "if{"; "}"]%string
  /\ existsb (fun p => String.eqb (fst p) "Recover" && String.eqb (substring 8 8 (snd p)) "LogPanic")
             newconfig_defaults = true
  /\ flow_client_hSet_dispatch
     = ["strings.ToLower"; "for{"; "hs.getHandlers"; "wg.Add"; "go func"; "{"; "hn.Handle"; "line.Copy";
        "wg.Done"; "}"; "}"; "wg.Wait"]%string
  /\ flow_client_Conn_dispatch
     = ["conn.intHandlers.dispatch"; "go conn.bgHandlers.dispatch"; "conn.fgHandlers.dispatch"]%string
  /\ filter (fun p => String.eqb (fst p) "Conn.dispatch" || String.eqb (fst p) "hSet.dispatch") go_stmts_client
     = [("Conn.dispatch", "conn.bgHandlers.dispatch"); ("hSet.dispatch", "func")]%string
  /\ flow_client_Conn_HandleBG = ["conn.bgHandlers.add"; "return"]%string
  (* conditions: Recover is deferred unconditionally; LogPanic acts exactly when recover() returned
     a value; every handler of the snapshot is spawned and waited for, unconditionally *)
  /\ conds_client_hNode_Handle = []
  /\ conds_client_Conn_LogPanic = ["err != nil"]%string
  /\ conds_client_hSet_dispatch = []
  /\ conds_client_hSet_getHandlers = ["!ok"; "for hn != nil"]%string
  /\ conds_client_Conn_dispatch = [].
Proof. repeat split; vm_compute; reflexivity. Qed.

(* Safety.  The connection stays up (can_close = false).  For EVERY schedule — any subset of the
   handlers of any event panicking, any background handlers blocked — in every state where all
   lines have been delivered: each foreground handler of each line was invoked exactly once and
   finished exactly once (Exit, or Panic followed by exactly one Recovered for that line and that
   handler), in that order; background invocations happened at most once, in order; no event of
   an unknown handler. *)
Theorem C16_siblings_and_recovery : forall sess sched,
  can_close sess = false ->
  let s := run (step sess) init sched in
  delivered_all sess s = true -> C16_ok sess (hist s) = true.
Proof. intros sess sched H. exact (C16_model sess H sched). Qed.

(* Later events: order and non-overlap hold for every schedule, panics included *)
Theorem C16_later_events_in_order : forall sess sched,
  C03_ok sess (hist (run (step sess) init sched)) = true.
Proof. exact C03_model. Qed.

(* The loop thread waits (transitively) only for internal handlers, the foreground CONNECTED
   handlers below h_001, foreground handlers and recv: never for a background handler or a
   background dispatcher *)
Theorem C16_bg_isolated : forall s t, In t (TLoop :: waits s) -> is_bg t = false.
Proof. exact bg_isolated. Qed.

(* Progress: in every reachable state where a line is still undelivered or a dispatch is in
   progress, the loop or one of the threads it waits for — a NON-background thread — is enabled *)
Theorem C16_progress : forall sess sched,
  let s := run (step sess) init sched in
  work_remains sess s = true ->
  exists t, In t (TLoop :: waits s) /\ is_bg t = false /\ step sess s t <> None.
Proof.
  intros sess sched s Hw. destruct (progress sess s (InvN_run sess sched) Hw) as (t & H1 & H2).
  exists t. repeat split; auto. eapply bg_isolated; eauto.
Qed.

(* The measure: every non-background step strictly decreases it, background steps leave it alone;
   so in EVERY schedule the number of effective non-background steps is bounded ... *)
Theorem C16_measure : forall sess s t s',
  step sess s t = Some s' -> if is_bg t then mu sess s' = mu sess s else mu sess s' < mu sess s.
Proof. exact measure_step. Qed.

Theorem C16_bound : forall sess sched s,
  eff_nb sess s sched + mu sess (run (step sess) s sched) <= mu sess s.
Proof. exact measure_bound. Qed.

(* ... and from every reachable state the outstanding work is finished by running non-background
   threads only (no background handler ever has to move): with C16_progress and C16_bound, any
   schedule that keeps running enabled non-background threads delivers every line *)
Theorem C16_delivery_without_background : forall sess sched,
  let s := run (step sess) init sched in
  exists sched', Forall (fun t => is_bg t = false) sched' /\ List.length sched' <= mu sess s
                 /\ work_remains sess (run (step sess) s sched') = false.
Proof.
  intros sess sched s. apply (can_finish_without_bg sess (mu sess s) s); [apply le_n|apply InvN_run].
Qed.

(* The disconnect: once the connection has been cancelled (EOF / Close()) and until DISCONNECTED
   has been dispatched to completion, some NON-background thread is enabled in every reachable
   state — closeIf waits only for the loop (which leaves between dispatches) and DISCONNECTED's
   foreground handlers; with C16_measure (the closer's steps decrease mu too) a background handler
   that never returns cannot keep DISCONNECTED from being delivered.  Its placement after every
   foreground invocation is C03_all_schedules (= C16_later_events_in_order). *)
Theorem C16_disconnect_not_blocked_by_background : forall sess sched,
  let s := run (step sess) init sched in
  cpc s = CWait \/ cpc s = CDisp ->
  exists t, is_bg t = false /\ step sess s t <> None.
Proof.
  intros sess sched s H. apply (closer_progress sess s); auto.
  - apply InvN_run.
  - apply InvK_run.
Qed.

(* non-vacuity: the run of DispatchExamples — one of two foreground handlers of line 0 panics, the
   background handler of line 0 never returns, all three lines are delivered *)
Example C16_nonvacuous :
  let s := run (step sess0) init sched0 in
  can_close (Build_session (lines sess0) 1 1 1 0 false) = false
  /\ hist s = hist0 /\ delivered_all sess0 s = true /\ C16_ok sess0 (hist s) = true
  /\ In (EvPanic KFg 0 1) (hist s) /\ In (EvRecovered KFg 0 1) (hist s) /\ In (EvExit KFg 0 0 1) (hist s)
  /\ In (EvEnter KBg 0 0 1) (hist s) /\ ~ In (EvExit KBg 0 0 1) (hist s) /\ In (EvExit KFg 2 0 3) (hist s).
Proof.
  vm_compute. repeat split; auto 40.
  intros H. repeat (destruct H as [H|H]; [discriminate|]). exact H.
Qed.

Example C16_monitor_rejects :
  C16_ok sess0 (filter (fun e => negb (is_ev TgExit KFg 0 0 e)) hist0) = false
  /\ C16_ok sess0 (filter (fun e => negb (is_ev TgRecovered KFg 0 1 e)) hist0) = false
  /\ C16_ok sess0 (firstn 17 hist0) = false
  /\ C16_ok sess0 (hist0 ++ [EvEnter KFg 2 0 3]) = false.
Proof. vm_compute. repeat split; reflexivity. Qed.

Print Assumptions C16_siblings_and_recovery.
Print Assumptions C16_later_events_in_order.
Print Assumptions C16_bg_isolated.
Print Assumptions C16_progress.
Print Assumptions C16_measure.
Print Assumptions C16_bound.
Print Assumptions C16_delivery_without_background.
Print Assumptions C16_disconnect_not_blocked_by_background.
