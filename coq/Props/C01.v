(* Props/C01.v — C01: well-formed IRC messages parse to exactly the components that were sent.
   Property theorems only; each is closed by [exact] of a lemma proved in Proofs/.
   The sending side (what "well-formed", "sent" and "exactly" mean) is Model/LineSend.v;
   the receiving side is Model/Line.v, the transliteration of client/line.go. *)
From Verif Require Import GoBytes LineLib Line LineSend GoBytesFacts LineSendFacts LineRoundTrip LineDeliver Consts Facts.
From Coq Require Import String.
Notation length := List.length.
Open Scope Z_scope.

(* ---------- tie: the constants both models hard-code are the ones in the source today ---------- *)
Definition c01_zc (c : N) : lit := LInt (Z.of_N c).
Definition c01_pair_lits (p : bytes * bytes) : list lit := [LStr (fst p); LStr (snd p)].

Lemma tie_C01 :
  [const_client_PRIVMSG; const_client_NOTICE; const_client_ACTION; const_client_CTCP; const_client_CTCPREPLY]
    = [cmd_PRIVMSG; cmd_NOTICE; cmd_ACTION; cmd_CTCP; cmd_CTCPREPLY]
  (* the receiver's replacer is the five pairs of the model, in source order ... *)
  /\ varlits_client_tagsReplacer = flat_map c01_pair_lits tags_pairs
  (* ... and each pair is the inverse of one rule of the sender's [escape] *)
  /\ forallb (fun p => match snd p with [c] => beq (escape_byte c) (fst p) | _ => false end) tags_pairs = true
  /\ lits_client_ParseLine =
       [LStr []; LInt 0; c01_zc c_at; LStr s_space; LInt (-1); LInt 1; LInt 1;
        LStr [c_semi]; LStr []; LStr s_eq; LInt 2; LInt 2; LStr []; LInt 0; LInt 1;
        LStr []; LInt 0; c01_zc c_colon; LStr s_space; LInt (-1); LInt 1; LInt 1;
        LStr s_space_colon; LInt 2; LInt 0; LInt 0; LInt 1; LInt 1;
        LInt 0; LInt 1; LInt 1;
        LStr cmd_PRIVMSG; LStr cmd_NOTICE; LInt 1; LInt 1; LInt 2; LInt 1; LStr s_soh; LInt 1; LStr s_soh;
        LInt 1; LStr s_soh; LStr s_space; LInt 2; LInt 1; LInt 1; LInt 1; LInt 0;
        LStr cmd_ACTION; LStr cmd_PRIVMSG; LStr cmd_PRIVMSG; LStr cmd_CTCP; LStr cmd_CTCPREPLY]
  /\ lits_client_parseUserHost =
       [LStr s_bang; LStr s_at; LInt (-1); LInt (-1); LStr []; LStr []; LStr []; LBool false; LInt 1; LInt 1; LBool true]
  /\ lits_client_Line_Public =
       [LStr cmd_PRIVMSG; LStr cmd_NOTICE; LStr cmd_ACTION; LInt 1; LInt 0; LStr []; LBool false; LInt 0; LInt 0;
        c01_zc c_hash; c01_zc c_amp; c01_zc c_plus; c01_zc c_bang; LBool true;
        LStr cmd_CTCP; LStr cmd_CTCPREPLY; LInt 2; LInt 1; LStr []; LBool false; LInt 1; LInt 0;
        c01_zc c_hash; c01_zc c_amp; c01_zc c_plus; c01_zc c_bang; LBool true; LBool false]
  /\ lits_client_Line_Target =
       [LStr cmd_PRIVMSG; LStr cmd_NOTICE; LStr cmd_ACTION; LStr cmd_CTCP; LStr cmd_CTCPREPLY; LInt 1; LInt 0; LInt 0; LStr []]
  /\ lits_client_Line_Text = [LInt 0; LInt 1; LStr []]
  (* recv: ReadString('\n'), Trim(s, "\r\n"), ParseLine, send on conn.in *)
  /\ nth 0 lits_client_Conn_recv LOther = c01_zc b_lf
  /\ nth 2 lits_client_Conn_recv LOther = LStr s_crlf
  /\ flow_client_Conn_recv =
       ["for{"; "rw.ReadString"; "if{"; "if{"; "err.Error"; "}"; "conn.wg.Done"; "conn.closeIf"; "return"; "}";
        "strings.Trim"; "ParseLine"; "if{"; "time.Now"; "send conn.in"; "}"; "else{"; "}"; "}"]%string.
Proof. repeat split; vm_compute; reflexivity. Qed.

(* ---------- the round trip ---------- *)

(* for EVERY well-formed message: ParseLine of its wire form returns (no panic, not nil)
   exactly the line the sender expects — tags, source, upper-cased verb, middles followed by
   the trailing, raw text unchanged, CTCP rewrite applied *)
Theorem C01_roundtrip : forall m, wf_msg m = true -> parse (render m) = Ok (Some (expected m)).
Proof. exact roundtrip. Qed.

(* the same for ANY strings.Fields / ToUpper / TrimSpace that behave, on the words [okw] of the
   message, the way the section hypotheses say (for Go's Unicode-aware functions: words free of
   Unicode white space; ToUpper only ever sees ASCII here) *)
Theorem C01_roundtrip_any : forall fields_fn upper_fn trim_fn okw,
  (forall w ms, word_ok w = true -> okw w = true ->
     forallb (fun p => word_ok (snd p) && okw (snd p)) ms = true ->
     fields_fn (w ++ render_params ms) = w :: map snd ms) ->
  (forall s, forallb is_ascii s = true -> upper_fn s = to_upper s) ->
  (forall s, src_ok (Some s) = true -> src_okw okw (Some s) = true -> trim_fn (src_text s) = src_text s) ->
  forall m, wf_msg m = true -> words_okw okw m = true ->
  parse_with fields_fn upper_fn trim_fn (render m) = Ok (Some (expected m)).
Proof. exact roundtrip_with. Qed.

(* the property predicate (= the runtime oracle of ./check C01) holds of the parser's answer
   and of what Text / Target / Public say about it *)
Theorem C01_holds : forall m, wf_msg m = true ->
  exists l, parse (render m) = Ok (Some l) /\ C01_ok m l (text l) (target l) (public l) = true.
Proof. exact C01_holds. Qed.

(* ---------- tags ---------- *)
Theorem C01_no_tags_no_map : forall m, wf_msg m = true -> mtags m = None ->
  exists l, parse (render m) = Ok (Some l) /\ l_tags l = None.
Proof. exact no_tags_no_map. Qed.

(* all five escapes undone: the receiver's unescape inverts the sender's escape on EVERY byte string *)
Theorem C01_unescape_escape : forall v : bytes, tags_unescape (escape v) = v.
Proof. exact tags_unescape_escape. Qed.

(* the map holds for every key the ORIGINAL value of the last tag with that key
   (empty for key-only tags), and nothing else *)
Theorem C01_tags_unescaped : forall m ts, wf_msg m = true -> mtags m = Some ts ->
  exists l tm, parse (render m) = Ok (Some l) /\ l_tags l = Some tm
               /\ forall k, tags_get tm k = last_binding ts k.
Proof. exact tags_unescaped. Qed.

(* regression witness: with the four-pair replacer of the original source (no "\\" pair)
   a single backslash in a tag value does not survive; wire form of the witness: "@k=a\\b X" *)
Example C01_old_replacer_fails : replace_pairs tags_pairs_old (escape [92%N]) <> [92%N].
Proof. exact old_replacer_fails. Qed.

(* ---------- CTCP: the three delivery shapes ---------- *)
Theorem C01_ctcp : forall m n tgt v t,
  wf_msg m = true ->
  middles m = [(n, tgt)] -> trailing m = Some (ctcp_payload v t) ->
  ctcp_verb_ok v = true -> ctcp_text_ok t = true ->
  exists l, parse (render m) = Ok (Some l) /\
    ((to_upper (verb m) = cmd_PRIVMSG -> v = cmd_ACTION ->
        l_cmd l = cmd_ACTION /\ l_args l = [tgt; t])
     /\ (to_upper (verb m) = cmd_PRIVMSG -> v <> cmd_ACTION ->
        l_cmd l = cmd_CTCP /\ l_args l = [v; tgt; t])
     /\ (to_upper (verb m) = cmd_NOTICE ->
        l_cmd l = cmd_CTCPREPLY /\ l_args l = [v; tgt; t])).
Proof. exact ctcp_delivery. Qed.

(* ---------- Text / Target / Public: for EVERY line (parsed or not), no panic and the spec ---------- *)
Theorem C01_accessors : forall l,
  text l = Ok (spec_text l) /\ target l = Ok (spec_target l) /\ public l = Ok (spec_public l).
Proof. intros l. split; [apply text_spec|split; [apply target_spec|apply public_spec]]. Qed.

(* ---------- over a connection ---------- *)
(* recv's Trim(s, "\r\n") + ParseLine on the CR LF terminated wire form *)
Theorem C01_recv : forall m, wf_msg m = true -> recv_one (wire m) = Ok (Some (expected m)).
Proof. exact recv_roundtrip. Qed.

(* a stream of well-formed messages is delivered one for one, in order.  ASSUMPTION (stated
   in Model/LineSend.v at [frames]): bufio's ReadString('\n') returns the successive
   LF-terminated pieces of the byte stream, however the network chunked them *)
Theorem C01_stream : forall ms, Forall (fun m => wf_msg m = true) ms ->
  recv_stream (flat_map wire ms) = map (fun m => Ok (Some (expected m))) ms.
Proof. exact stream_roundtrip. Qed.

(* a rendered message contains no CR and no LF (so framing cannot cut it) *)
Theorem C01_no_crlf_inside : forall m c, wf_msg m = true -> In c (render m) -> c <> 13%N /\ c <> 10%N.
Proof. exact render_crlf. Qed.

(* ---------- non-vacuity ---------- *)
(* @a=;SP\CRLFx;b;c=;a==z\\:;+d/e=<C8 FF> :ni!u@h.x pRivMsG #c   a:b \1A\1  d e f g h i j k l    m: n<C8> :: :hi  :x
   escaped tag values containing ; SP \ CR LF, a duplicate key (a), a key-only tag (b), an
   empty-valued tag (c), nick!user@host, a mixed-case verb, 14 middles with multi-space
   separators and ':' inside, a trailing that starts with ':' and contains " :" *)
Definition c01_example : msg := {|
  mtags := Some [([97], Some [59;32;92;13;10;120]); ([98], None); ([99], Some []);
                 ([97], Some [61;122;92;92;58]); ([43;100;47;101], Some [200;255])]%N;
  msrc := Some (SrcUser [110;105] [117] [104;46;120])%N;
  verb := [112;82;105;118;77;115;71]%N;
  middles := [(0%nat, [35;99]%N); (2%nat, [97;58;98]%N); (0%nat, [1;65;1]%N); (1%nat, [100]%N); (0%nat, [101]%N); (0%nat, [102]%N); (0%nat, [103]%N); (0%nat, [104]%N); (0%nat, [105]%N); (0%nat, [106]%N); (0%nat, [107]%N); (0%nat, [108]%N); (3%nat, [109;58]%N); (0%nat, [110;200]%N)];
  trailing := Some [58;32;58;104;105;32;32;58;120]%N |}.

Example C01_nonvacuous :
  wf_msg c01_example = true
  /\ parse (render c01_example) = Ok (Some (expected c01_example))
  /\ l_tags (expected c01_example)
     = Some [([97], [61;122;92;92;58]); ([98], []); ([99], []); ([43;100;47;101], [200;255])]%N
  /\ l_cmd (expected c01_example) = cmd_PRIVMSG
  /\ length (l_args (expected c01_example)) = 15%nat.
Proof. repeat split; vm_compute; reflexivity. Qed.

(* a CTCP ACTION from a server-named source (an IPv6 literal, starting with ':') *)
Definition c01_example_ctcp : msg := {|
  mtags := None; msrc := Some (SrcServer [58;58;49]%N); verb := cmd_PRIVMSG;
  middles := [(0%nat, [35;99]%N)];
  trailing := Some (ctcp_payload cmd_ACTION [119;32;120]%N) |}.

Example C01_nonvacuous_ctcp :
  wf_msg c01_example_ctcp = true
  /\ parse (render c01_example_ctcp)
     = Ok (Some {| l_tags := None; l_nick := []; l_ident := []; l_host := [58;58;49]%N; l_src := [58;58;49]%N;
                   l_cmd := cmd_ACTION; l_raw := render c01_example_ctcp;
                   l_args := [[35;99]; [119;32;120]]%N |})
  /\ recv_stream (wire c01_example ++ wire c01_example_ctcp)
     = [Ok (Some (expected c01_example)); Ok (Some (expected c01_example_ctcp))].
Proof. repeat split; vm_compute; reflexivity. Qed.

Print Assumptions tie_C01.
Print Assumptions C01_roundtrip.
Print Assumptions C01_roundtrip_any.
Print Assumptions C01_holds.
Print Assumptions C01_no_tags_no_map.
Print Assumptions C01_unescape_escape.
Print Assumptions C01_tags_unescaped.
Print Assumptions C01_ctcp.
Print Assumptions C01_accessors.
Print Assumptions C01_recv.
Print Assumptions C01_stream.
Print Assumptions C01_no_crlf_inside.

(* generated-code tie *)
(* Gen/GoFuncs.v holds the Gallina TRANSLATION of the Go body of parseUserHost, regenerated
   from the source on every run (translator/go2coq.go); its four results (nick, ident, host,
   ok) are the model's option, for every input, panics included (Proofs/GenEqLine.v). *)
From Verif Require Import GoFuncs GenEqLine.
Theorem gen_C01_parseUserHost : forall uh,
  go_client_parseUserHost uh = (r <- parse_user_host uh ;; Ok (user_host_results r)).
Proof. exact go_parseUserHost_eq. Qed.
Print Assumptions gen_C01_parseUserHost.

(* generated-code tie, ParseLine: the Gallina TRANSLATION of the whole body (local Line struct
   as one variable per field, Tags as an optional association list, tagsReplacer as its list
   of pairs) returns exactly the fields of the model's parse, or nil/panics exactly when the
   model does (Proofs/GenEqParse.v) *)
From Verif Require Import GenEqParse.
Theorem gen_C01_ParseLine : forall s,
  go_client_ParseLine s = (r <- parse s ;; Ok (option_map line_fields r)).
Proof. exact go_ParseLine_eq. Qed.
Theorem gen_C01_tagsReplacer : go_client_tagsReplacer = tags_pairs.
Proof. reflexivity. Qed.
Print Assumptions gen_C01_ParseLine.
Print Assumptions gen_C01_tagsReplacer.
