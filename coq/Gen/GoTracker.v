(* GENERATED from the Go source by /verif/translator (go2heap.go) on every check run — do not edit.
   Package state's object graph (tracker.go, nick.go, channel.go) over an explicit heap; every type
   and primitive is a Context variable, instantiated in Proofs/GenEqTracker.v with the records of
   Model/TrackerImpl.v.  See the header of translator/go2heap.go for the representation. *)
From stdpp Require Import gmap.
Open Scope Z_scope.
Notation bytes := (list N) (only parsing).

Fixpoint go_foldM {A S} (f : S -> A -> option S) (s : S) (l : list A) : option S :=
  match l with
  | [] => Some s
  | x :: l' => match f s x with Some s' => go_foldM f s' l' | None => None end
  end.

Class heap_ops := {
  HS : Type;
  nick_obj : Type;
  channel_obj : Type;
  ChanPrivs_obj : Type;
  NickMode_val : Type;
  ChanMode_val : Type;
  Nick_snap : Type;
  Channel_snap : Type;
  NickMode_zero : NickMode_val;
  ChanMode_zero : ChanMode_val;
  ChanPrivs_zero : ChanPrivs_obj;
  hs_chans : HS -> gmap bytes positive;
  hs_set_chans : HS -> gmap bytes positive -> HS;
  hs_nicks : HS -> gmap bytes positive;
  hs_set_nicks : HS -> gmap bytes positive -> HS;
  hs_me : HS -> positive;
  hs_set_me : HS -> positive -> HS;
  (* the tracker before its fields are set: empty maps, an empty heap *)
  hs_init : HS;
  hs_next : HS -> positive;
  hs_bump : HS -> HS;
  heap_nick : HS -> gmap positive nick_obj;
  put_nick : HS -> positive -> nick_obj -> HS;
  heap_channel : HS -> gmap positive channel_obj;
  put_channel : HS -> positive -> channel_obj -> HS;
  heap_ChanPrivs : HS -> gmap positive ChanPrivs_obj;
  put_ChanPrivs : HS -> positive -> ChanPrivs_obj -> HS;
  nick_get_nick : nick_obj -> bytes;
  nick_set_nick : nick_obj -> bytes -> nick_obj;
  nick_get_ident : nick_obj -> bytes;
  nick_set_ident : nick_obj -> bytes -> nick_obj;
  nick_get_host : nick_obj -> bytes;
  nick_set_host : nick_obj -> bytes -> nick_obj;
  nick_get_name : nick_obj -> bytes;
  nick_set_name : nick_obj -> bytes -> nick_obj;
  nick_get_modes : nick_obj -> NickMode_val;
  nick_set_modes : nick_obj -> NickMode_val -> nick_obj;
  nick_get_lookup : nick_obj -> gmap bytes positive;
  nick_set_lookup : nick_obj -> gmap bytes positive -> nick_obj;
  nick_get_chans : nick_obj -> gmap positive positive;
  nick_set_chans : nick_obj -> gmap positive positive -> nick_obj;
  nick_mk : bytes -> bytes -> bytes -> bytes -> NickMode_val -> gmap bytes positive -> gmap positive positive -> nick_obj;
  channel_get_name : channel_obj -> bytes;
  channel_set_name : channel_obj -> bytes -> channel_obj;
  channel_get_topic : channel_obj -> bytes;
  channel_set_topic : channel_obj -> bytes -> channel_obj;
  channel_get_modes : channel_obj -> ChanMode_val;
  channel_set_modes : channel_obj -> ChanMode_val -> channel_obj;
  channel_get_lookup : channel_obj -> gmap bytes positive;
  channel_set_lookup : channel_obj -> gmap bytes positive -> channel_obj;
  channel_get_nicks : channel_obj -> gmap positive positive;
  channel_set_nicks : channel_obj -> gmap positive positive -> channel_obj;
  channel_mk : bytes -> bytes -> ChanMode_val -> gmap bytes positive -> gmap positive positive -> channel_obj;
  Nick_mk : bytes -> bytes -> bytes -> bytes -> NickMode_val -> gmap bytes ChanPrivs_obj -> Nick_snap;
  Channel_mk : bytes -> bytes -> ChanMode_val -> gmap bytes ChanPrivs_obj -> Channel_snap;
  set_heap_ChanPrivs : HS -> gmap positive ChanPrivs_obj -> HS;
  (* channel.parseModes as translated in GoFuncs.v: ch.modes, ch.name, ch.lookup, ch.nicks, the ChanPrivs heap, modes, modeargs *)
  ext_channel_parseModes : ChanMode_val -> bytes -> gmap bytes positive -> gmap positive positive -> gmap positive ChanPrivs_obj -> bytes -> list bytes -> option (ChanMode_val * gmap positive ChanPrivs_obj);
  (* nick.parseModes as translated in GoFuncs.v, on the mode record *)
  ext_nick_parseModes : NickMode_val -> bytes -> option NickMode_val;
  (* the order in which range visits a map *)
  enumA : gmap positive positive -> list (positive * positive);
  enumN : gmap bytes positive -> list (bytes * positive)
}.

Section Heap.
Context `{heap_ops}.

(* newNick — state/nick.go *)
Definition go_newNick (s : HS) (n : bytes) : option (HS * (option positive)) :=
  let a1 := hs_next s in
  let s := put_nick (hs_bump s) a1 (nick_mk n [] [] [] NickMode_zero ∅ ∅) in
  Some (s, Some a1).

(* newChannel — state/channel.go *)
Definition go_newChannel (s : HS) (name : bytes) : option (HS * (option positive)) :=
  let a1 := hs_next s in
  let s := put_channel (hs_bump s) a1 (channel_mk name [] ChanMode_zero ∅ ∅) in
  Some (s, Some a1).

(* NewTracker — state/tracker.go *)
Definition go_NewTracker  (mynick : bytes) : option (HS) :=
  let s := hs_init in
  '(s, r1) ← go_newNick s mynick;
  sa_ ← r1;
  let s := hs_set_me s sa_ in
  let s := hs_set_nicks s (<[mynick := (hs_me s)]> (hs_nicks s)) in
  Some s.

(* nick.Nick — state/nick.go *)
Definition go_nick_Nick (s : HS) (nk : option positive) : option (option Nick_snap) :=
  a1 ← nk;
  o2 ← heap_nick s !! a1;
  a3 ← nk;
  o4 ← heap_nick s !! a3;
  a5 ← nk;
  o6 ← heap_nick s !! a5;
  a7 ← nk;
  o8 ← heap_nick s !! a7;
  a9 ← nk;
  o10 ← heap_nick s !! a9;
  a11 ← nk;
  o12 ← heap_nick s !! a11;
  let n_Nick := nick_get_nick o2 in
  let n_Ident := nick_get_ident o4 in
  let n_Host := nick_get_host o6 in
  let n_Name := nick_get_name o8 in
  let n_Modes := nick_get_modes o10 in
  let n_Channels := ∅ in
  a13 ← nk;
  o14 ← heap_nick s !! a13;
  n_Channels ← go_foldM (fun acc_ e15 =>
      let n_Channels := acc_ in
      let c_ := Some (fst e15) in
        let cp := Some (snd e15) in
        a18 ← c_;
        o19 ← heap_channel s !! a18;
        v20 ← match cp with Some a_ => p_ ← heap_ChanPrivs s !! a_; Some (Some p_) | None => Some None end;
        sv_ ← v20;
        let n_Channels := <[channel_get_name o19 := sv_]> n_Channels in
        Some n_Channels
      ) n_Channels (enumA (nick_get_chans o14));
  Some (Some (Nick_mk n_Nick n_Ident n_Host n_Name n_Modes n_Channels)).

(* channel.Channel — state/channel.go *)
Definition go_channel_Channel (s : HS) (ch : option positive) : option (option Channel_snap) :=
  a1 ← ch;
  o2 ← heap_channel s !! a1;
  a3 ← ch;
  o4 ← heap_channel s !! a3;
  a5 ← ch;
  o6 ← heap_channel s !! a5;
  let c_Name := channel_get_name o2 in
  let c_Topic := channel_get_topic o4 in
  let c_Modes := channel_get_modes o6 in
  let c_Nicks := ∅ in
  a7 ← ch;
  o8 ← heap_channel s !! a7;
  c_Nicks ← go_foldM (fun acc_ e9 =>
      let c_Nicks := acc_ in
      let n := Some (fst e9) in
        let cp := Some (snd e9) in
        a12 ← n;
        o13 ← heap_nick s !! a12;
        v14 ← match cp with Some a_ => p_ ← heap_ChanPrivs s !! a_; Some (Some p_) | None => Some None end;
        sv_ ← v14;
        let c_Nicks := <[nick_get_nick o13 := sv_]> c_Nicks in
        Some c_Nicks
      ) c_Nicks (enumA (channel_get_nicks o8));
  Some (Some (Channel_mk c_Name c_Topic c_Modes c_Nicks)).

(* nick.isOn — state/nick.go *)
Definition go_nick_isOn (s : HS) (nk : option positive) (ch : option positive) : option (option ChanPrivs_obj * bool) :=
  a1 ← nk;
  o2 ← heap_nick s !! a1;
  a3 ← ch;
  let t4 := (nick_get_chans o2) !! a3 in
  let cp := t4 in
  let ok := bool_decide (is_Some t4) in
  v5 ← match cp with Some a_ => p_ ← heap_ChanPrivs s !! a_; Some (Some p_) | None => Some None end;
  Some (v5, ok).

(* nick.addChannel — state/nick.go *)
Definition go_nick_addChannel (s : HS) (nk : option positive) (ch : option positive) (cp : option positive) : option (HS) :=
  a1 ← nk;
  o2 ← heap_nick s !! a1;
  a3 ← ch;
  let t4 := (nick_get_chans o2) !! a3 in
  let ok := bool_decide (is_Some t4) in
  if negb ok then
    ka_ ← ch;
    sa_ ← cp;
    a5 ← nk;
    o6 ← heap_nick s !! a5;
    let s := put_nick s a5 (nick_set_chans o6 (<[ka_ := sa_]> (nick_get_chans o6))) in
    a7 ← ch;
    o8 ← heap_channel s !! a7;
    sa_ ← ch;
    a9 ← nk;
    o10 ← heap_nick s !! a9;
    let s := put_nick s a9 (nick_set_lookup o10 (<[channel_get_name o8 := sa_]> (nick_get_lookup o10))) in
    Some s
  else
    a11 ← nk;
    o12 ← heap_nick s !! a11;
    a13 ← ch;
    o14 ← heap_channel s !! a13;
    Some s.

(* nick.delChannel — state/nick.go *)
Definition go_nick_delChannel (s : HS) (nk : option positive) (ch : option positive) : option (HS) :=
  a1 ← nk;
  o2 ← heap_nick s !! a1;
  a3 ← ch;
  let t4 := (nick_get_chans o2) !! a3 in
  let ok := bool_decide (is_Some t4) in
  if ok then
    ka_ ← ch;
    a5 ← nk;
    o6 ← heap_nick s !! a5;
    let s := put_nick s a5 (nick_set_chans o6 (delete ka_ (nick_get_chans o6))) in
    a7 ← ch;
    o8 ← heap_channel s !! a7;
    a9 ← nk;
    o10 ← heap_nick s !! a9;
    let s := put_nick s a9 (nick_set_lookup o10 (delete (channel_get_name o8) (nick_get_lookup o10))) in
    Some s
  else
    a11 ← nk;
    o12 ← heap_nick s !! a11;
    a13 ← ch;
    o14 ← heap_channel s !! a13;
    Some s.

(* channel.addNick — state/channel.go *)
Definition go_channel_addNick (s : HS) (ch : option positive) (nk : option positive) (cp : option positive) : option (HS) :=
  a1 ← ch;
  o2 ← heap_channel s !! a1;
  a3 ← nk;
  let t4 := (channel_get_nicks o2) !! a3 in
  let ok := bool_decide (is_Some t4) in
  if negb ok then
    ka_ ← nk;
    sa_ ← cp;
    a5 ← ch;
    o6 ← heap_channel s !! a5;
    let s := put_channel s a5 (channel_set_nicks o6 (<[ka_ := sa_]> (channel_get_nicks o6))) in
    a7 ← nk;
    o8 ← heap_nick s !! a7;
    sa_ ← nk;
    a9 ← ch;
    o10 ← heap_channel s !! a9;
    let s := put_channel s a9 (channel_set_lookup o10 (<[nick_get_nick o8 := sa_]> (channel_get_lookup o10))) in
    Some s
  else
    a11 ← nk;
    o12 ← heap_nick s !! a11;
    a13 ← ch;
    o14 ← heap_channel s !! a13;
    Some s.

(* channel.delNick — state/channel.go *)
Definition go_channel_delNick (s : HS) (ch : option positive) (nk : option positive) : option (HS) :=
  a1 ← ch;
  o2 ← heap_channel s !! a1;
  a3 ← nk;
  let t4 := (channel_get_nicks o2) !! a3 in
  let ok := bool_decide (is_Some t4) in
  if ok then
    ka_ ← nk;
    a5 ← ch;
    o6 ← heap_channel s !! a5;
    let s := put_channel s a5 (channel_set_nicks o6 (delete ka_ (channel_get_nicks o6))) in
    a7 ← nk;
    o8 ← heap_nick s !! a7;
    a9 ← ch;
    o10 ← heap_channel s !! a9;
    let s := put_channel s a9 (channel_set_lookup o10 (delete (nick_get_nick o8) (channel_get_lookup o10))) in
    Some s
  else
    a11 ← nk;
    o12 ← heap_nick s !! a11;
    a13 ← ch;
    o14 ← heap_channel s !! a13;
    Some s.

(* stateTracker.NewNick — state/tracker.go *)
Definition go_stateTracker_NewNick (s : HS) (n : bytes) : option (HS * (option Nick_snap)) :=
  if bool_decide (n = []) then
    Some (s, None)
  else
    let t1 := (hs_nicks s) !! n in
    let ok := bool_decide (is_Some t1) in
    if ok then
      Some (s, None)
    else
      '(s, r2) ← go_newNick s n;
      sa_ ← r2;
      let s := hs_set_nicks s (<[n := sa_]> (hs_nicks s)) in
      r3 ← go_nick_Nick s ((hs_nicks s) !! n);
      Some (s, r3).

(* stateTracker.GetNick — state/tracker.go *)
Definition go_stateTracker_GetNick (s : HS) (n : bytes) : option (option Nick_snap) :=
  let t1 := (hs_nicks s) !! n in
  let nk := t1 in
  let ok := bool_decide (is_Some t1) in
  if ok then
    r2 ← go_nick_Nick s nk;
    Some r2
  else
    Some None.

(* stateTracker.NickInfo — state/tracker.go *)
Definition go_stateTracker_NickInfo (s : HS) (n : bytes) (ident : bytes) (host : bytes) (name : bytes) : option (HS * (option Nick_snap)) :=
  let t1 := (hs_nicks s) !! n in
  let nk := t1 in
  let ok := bool_decide (is_Some t1) in
  if negb ok then
    Some (s, None)
  else
    a2 ← nk;
    o3 ← heap_nick s !! a2;
    let s := put_nick s a2 (nick_set_ident o3 ident) in
    a4 ← nk;
    o5 ← heap_nick s !! a4;
    let s := put_nick s a4 (nick_set_host o5 host) in
    a6 ← nk;
    o7 ← heap_nick s !! a6;
    let s := put_nick s a6 (nick_set_name o7 name) in
    r8 ← go_nick_Nick s nk;
    Some (s, r8).

(* stateTracker.NickModes — state/tracker.go *)
Definition go_stateTracker_NickModes (s : HS) (n : bytes) (modes : bytes) : option (HS * (option Nick_snap)) :=
  let t1 := (hs_nicks s) !! n in
  let nk := t1 in
  let ok := bool_decide (is_Some t1) in
  if negb ok then
    Some (s, None)
  else
    a2 ← nk;
    o3 ← heap_nick s !! a2;
    m4 ← ext_nick_parseModes (nick_get_modes o3) modes;
    let s := put_nick s a2 (nick_set_modes o3 m4) in
    r5 ← go_nick_Nick s nk;
    Some (s, r5).

(* stateTracker.NewChannel — state/tracker.go *)
Definition go_stateTracker_NewChannel (s : HS) (c_ : bytes) : option (HS * (option Channel_snap)) :=
  if bool_decide (c_ = []) then
    Some (s, None)
  else
    let t1 := (hs_chans s) !! c_ in
    let ok := bool_decide (is_Some t1) in
    if ok then
      Some (s, None)
    else
      '(s, r2) ← go_newChannel s c_;
      sa_ ← r2;
      let s := hs_set_chans s (<[c_ := sa_]> (hs_chans s)) in
      r3 ← go_channel_Channel s ((hs_chans s) !! c_);
      Some (s, r3).

(* stateTracker.GetChannel — state/tracker.go *)
Definition go_stateTracker_GetChannel (s : HS) (c_ : bytes) : option (option Channel_snap) :=
  let t1 := (hs_chans s) !! c_ in
  let ch := t1 in
  let ok := bool_decide (is_Some t1) in
  if ok then
    r2 ← go_channel_Channel s ch;
    Some r2
  else
    Some None.

(* stateTracker.Topic — state/tracker.go *)
Definition go_stateTracker_Topic (s : HS) (c_ : bytes) (topic : bytes) : option (HS * (option Channel_snap)) :=
  let t1 := (hs_chans s) !! c_ in
  let ch := t1 in
  let ok := bool_decide (is_Some t1) in
  if negb ok then
    Some (s, None)
  else
    a2 ← ch;
    o3 ← heap_channel s !! a2;
    let s := put_channel s a2 (channel_set_topic o3 topic) in
    r4 ← go_channel_Channel s ch;
    Some (s, r4).

(* stateTracker.ChannelModes — state/tracker.go *)
Definition go_stateTracker_ChannelModes (s : HS) (c_ : bytes) (modes : bytes) (args : list bytes) : option (HS * (option Channel_snap)) :=
  let t1 := (hs_chans s) !! c_ in
  let ch := t1 in
  let ok := bool_decide (is_Some t1) in
  if negb ok then
    Some (s, None)
  else
    a2 ← ch;
    o3 ← heap_channel s !! a2;
    r4 ← ext_channel_parseModes (channel_get_modes o3) (channel_get_name o3) (channel_get_lookup o3) (channel_get_nicks o3) (heap_ChanPrivs s) modes args;
    let s := put_channel (set_heap_ChanPrivs s (snd r4)) a2 (channel_set_modes o3 (fst r4)) in
    r5 ← go_channel_Channel s ch;
    Some (s, r5).

(* stateTracker.Me — state/tracker.go *)
Definition go_stateTracker_Me (s : HS) : option (option Nick_snap) :=
  r1 ← go_nick_Nick s (Some (hs_me s));
  Some r1.

(* stateTracker.IsOn — state/tracker.go *)
Definition go_stateTracker_IsOn (s : HS) (c_ : bytes) (n : bytes) : option (option ChanPrivs_obj * bool) :=
  let t1 := (hs_nicks s) !! n in
  let nk := t1 in
  let nok := bool_decide (is_Some t1) in
  let t2 := (hs_chans s) !! c_ in
  let ch := t2 in
  let cok := bool_decide (is_Some t2) in
  if nok && cok then
    r3 ← go_nick_isOn s nk ch;
    Some r3
  else
    Some (None, false).

(* stateTracker.Associate — state/tracker.go *)
Definition go_stateTracker_Associate (s : HS) (c_ : bytes) (n : bytes) : option (HS * (option ChanPrivs_obj)) :=
  let t1 := (hs_nicks s) !! n in
  let nk := t1 in
  let nok := bool_decide (is_Some t1) in
  let t2 := (hs_chans s) !! c_ in
  let ch := t2 in
  let cok := bool_decide (is_Some t2) in
  if negb cok then
    Some (s, None)
  else
    if negb nok then
      Some (s, None)
    else
      r3 ← go_nick_isOn s nk ch;
      let ok : bool := snd r3 in
      if ok then
        Some (s, None)
      else
        let a4 := hs_next s in
        let s := put_ChanPrivs (hs_bump s) a4 ChanPrivs_zero in
        let cp := Some a4 in
        s ← go_channel_addNick s ch nk cp;
        s ← go_nick_addChannel s nk ch cp;
        v7 ← match cp with Some a_ => p_ ← heap_ChanPrivs s !! a_; Some (Some p_) | None => Some None end;
        Some (s, v7).

(* stateTracker.delNick — state/tracker.go *)
Definition go_stateTracker_delNick (s : HS) (nk : option positive) : option (HS) :=
  if bool_decide (nk = Some (hs_me s)) then
    Some s
  else
    a1 ← nk;
    o2 ← heap_nick s !! a1;
    let s := hs_set_nicks s (delete (nick_get_nick o2) (hs_nicks s)) in
    a3 ← nk;
    o4 ← heap_nick s !! a3;
    s ← go_foldM (fun acc_ e5 =>
        let s := acc_ in
        let ch := Some (fst e5) in
        a6 ← nk;
        o7 ← heap_nick s !! a6;
        match (nick_get_chans o7) !! fst e5 with
        | None => Some acc_
        | Some _ =>
          s ← go_nick_delChannel s nk ch;
          s ← go_channel_delNick s ch nk;
          a10 ← ch;
          o11 ← heap_channel s !! a10;
          if bool_decide (Z.of_nat (size (channel_get_nicks o11)) = 0) then
            a12 ← nk;
            o13 ← heap_nick s !! a12;
            a14 ← ch;
            o15 ← heap_channel s !! a14;
            Some s
          else
            Some s
        end) s (enumA (nick_get_chans o4));
    Some s.

(* stateTracker.delChannel — state/tracker.go *)
Definition go_stateTracker_delChannel (s : HS) (ch : option positive) : option (HS) :=
  a1 ← ch;
  o2 ← heap_channel s !! a1;
  let s := hs_set_chans s (delete (channel_get_name o2) (hs_chans s)) in
  a3 ← ch;
  o4 ← heap_channel s !! a3;
  s ← go_foldM (fun acc_ e5 =>
      let s := acc_ in
      let nk := Some (fst e5) in
      a6 ← ch;
      o7 ← heap_channel s !! a6;
      match (channel_get_nicks o7) !! fst e5 with
      | None => Some acc_
      | Some _ =>
        s ← go_channel_delNick s ch nk;
        s ← go_nick_delChannel s nk ch;
        a10 ← nk;
        o11 ← heap_nick s !! a10;
        if (bool_decide (Z.of_nat (size (nick_get_chans o11)) = 0)) && (negb (bool_decide (nk = Some (hs_me s)))) then
          s ← go_stateTracker_delNick s nk;
          Some s
        else
          Some s
      end) s (enumA (channel_get_nicks o4));
  Some s.

(* stateTracker.ReNick — state/tracker.go *)
Definition go_stateTracker_ReNick (s : HS) (old : bytes) (neu : bytes) : option (HS * (option Nick_snap)) :=
  let t1 := (hs_nicks s) !! old in
  let nk := t1 in
  let ok := bool_decide (is_Some t1) in
  if negb ok then
    Some (s, None)
  else
    let t2 := (hs_nicks s) !! neu in
    let ok := bool_decide (is_Some t2) in
    if ok then
      Some (s, None)
    else
      a3 ← nk;
      o4 ← heap_nick s !! a3;
      let s := put_nick s a3 (nick_set_nick o4 neu) in
      let s := hs_set_nicks s (delete old (hs_nicks s)) in
      sa_ ← nk;
      let s := hs_set_nicks s (<[neu := sa_]> (hs_nicks s)) in
      a5 ← nk;
      o6 ← heap_nick s !! a5;
      s ← go_foldM (fun acc_ e7 =>
          let s := acc_ in
          let ch := Some (fst e7) in
            a10 ← ch;
            o11 ← heap_channel s !! a10;
            let s := put_channel s a10 (channel_set_lookup o11 (delete old (channel_get_lookup o11))) in
            sa_ ← nk;
            a12 ← ch;
            o13 ← heap_channel s !! a12;
            let s := put_channel s a12 (channel_set_lookup o13 (<[neu := sa_]> (channel_get_lookup o13))) in
            Some s
          ) s (enumA (nick_get_chans o6));
      r14 ← go_nick_Nick s nk;
      Some (s, r14).

(* stateTracker.DelNick — state/tracker.go *)
Definition go_stateTracker_DelNick (s : HS) (n : bytes) : option (HS * (option Nick_snap)) :=
  let t1 := (hs_nicks s) !! n in
  let nk := t1 in
  let ok := bool_decide (is_Some t1) in
  if ok then
    if bool_decide (nk = Some (hs_me s)) then
      Some (s, None)
    else
      s ← go_stateTracker_delNick s nk;
      r3 ← go_nick_Nick s nk;
      Some (s, r3)
  else
    Some (s, None).

(* stateTracker.DelChannel — state/tracker.go *)
Definition go_stateTracker_DelChannel (s : HS) (c_ : bytes) : option (HS * (option Channel_snap)) :=
  let t1 := (hs_chans s) !! c_ in
  let ch := t1 in
  let ok := bool_decide (is_Some t1) in
  if ok then
    s ← go_stateTracker_delChannel s ch;
    r3 ← go_channel_Channel s ch;
    Some (s, r3)
  else
    Some (s, None).

(* stateTracker.Dissociate — state/tracker.go *)
Definition go_stateTracker_Dissociate (s : HS) (c_ : bytes) (n : bytes) : option (HS) :=
  let t1 := (hs_nicks s) !! n in
  let nk := t1 in
  let nok := bool_decide (is_Some t1) in
  let t2 := (hs_chans s) !! c_ in
  let ch := t2 in
  let cok := bool_decide (is_Some t2) in
  if negb cok then
    Some s
  else
    if negb nok then
      Some s
    else
      r3 ← go_nick_isOn s nk ch;
      let ok : bool := snd r3 in
      if negb ok then
        a4 ← nk;
        o5 ← heap_nick s !! a4;
        a6 ← ch;
        o7 ← heap_channel s !! a6;
        Some s
      else
        if bool_decide (nk = Some (hs_me s)) then
          s ← go_stateTracker_delChannel s ch;
          Some s
        else
          s ← go_channel_delNick s ch nk;
          s ← go_nick_delChannel s nk ch;
          a11 ← nk;
          o12 ← heap_nick s !! a11;
          if bool_decide (Z.of_nat (size (nick_get_chans o12)) = 0) then
            s ← go_stateTracker_delNick s nk;
            Some s
          else
            Some s.

(* stateTracker.Wipe — state/tracker.go *)
Definition go_stateTracker_Wipe (s : HS) : option (HS) :=
  s ← go_foldM (fun acc_ e1 =>
      let s := acc_ in
      match (hs_chans s) !! fst e1 with
      | None => Some acc_
      | Some v_ =>
        let ch := Some v_ in
        s ← go_stateTracker_delChannel s ch;
        Some s
      end) s (enumN (hs_chans s));
  Some s.

End Heap.
