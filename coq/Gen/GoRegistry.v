(* GENERATED from the Go source by /verif/translator (go2heap.go) on every check run — do not edit.
   The handler registry of client/dispatch.go (handlerSet, hSet.add, hSet.remove, hNode.Remove,
   hSet.getHandlers) over an explicit heap of hNode and hList objects; every type and primitive is a
   field of the class heap_ops, instantiated in Proofs/GenEqRegistry.v.  See translator/go2heap.go. *)
From stdpp Require Import gmap.
Open Scope Z_scope.
Notation bytes := (list N) (only parsing).

Fixpoint go_foldM {A S} (f : S -> A -> option S) (s : S) (l : list A) : option S :=
  match l with
  | [] => Some s
  | x :: l' => match f s x with Some s' => go_foldM f s' l' | None => None end
  end.

(* for init; cond; post { body }: the condition first, then out of fuel = None (as a panic) *)
Fixpoint go_loop {S} (fuel : nat) (cond : S -> option bool) (body : S -> option S) (st : S) : option S :=
  match cond st with
  | Some true => match fuel with
                 | O => None
                 | S f => match body st with Some st' => go_loop f cond body st' | None => None end
                 end
  | Some false => Some st
  | None => None
  end.

Class heap_ops := {
  HS : Type;
  hNode_obj : Type;
  hList_obj : Type;
  Handler_val : Type;
  hs_set : HS -> gmap bytes positive;
  hs_set_set : HS -> gmap bytes positive -> HS;
  (* the set before anything is registered: an empty map, empty heaps *)
  hs_init : HS;
  hs_next_hNode : HS -> positive;
  hs_bump_hNode : HS -> HS;
  heap_hNode : HS -> gmap positive hNode_obj;
  put_hNode : HS -> positive -> hNode_obj -> HS;
  hNode_get_next : hNode_obj -> option positive;
  hNode_set_next : hNode_obj -> option positive -> hNode_obj;
  hNode_get_prev : hNode_obj -> option positive;
  hNode_set_prev : hNode_obj -> option positive -> hNode_obj;
  hNode_get_set : hNode_obj -> option unit;
  hNode_set_set : hNode_obj -> option unit -> hNode_obj;
  hNode_get_event : hNode_obj -> bytes;
  hNode_set_event : hNode_obj -> bytes -> hNode_obj;
  hNode_get_handler : hNode_obj -> Handler_val;
  hNode_set_handler : hNode_obj -> Handler_val -> hNode_obj;
  hNode_mk : (option positive) -> (option positive) -> (option unit) -> bytes -> Handler_val -> hNode_obj;
  hs_next_hList : HS -> positive;
  hs_bump_hList : HS -> HS;
  heap_hList : HS -> gmap positive hList_obj;
  put_hList : HS -> positive -> hList_obj -> HS;
  hList_get_start : hList_obj -> option positive;
  hList_set_start : hList_obj -> option positive -> hList_obj;
  hList_get_end : hList_obj -> option positive;
  hList_set_end : hList_obj -> option positive -> hList_obj;
  hList_mk : (option positive) -> (option positive) -> hList_obj;
  (* strings.ToLower: a variable, as every stdlib function that is not transliterated *)
  ext_strings_ToLower : bytes -> bytes;
  (* the fuel of a for loop, read from the state at loop entry *)
  loop_fuel : HS -> nat
}.

Section Heap.
Context `{heap_ops}.

(* handlerSet — client/dispatch.go *)
Definition go_handlerSet  : option (HS) :=
  Some hs_init.

(* hSet.add — client/dispatch.go *)
Definition go_hSet_add (s : HS) (ev : bytes) (h : Handler_val) : option (HS * (option positive)) :=
  let ev := ext_strings_ToLower ev in
  let t1 := (hs_set s) !! ev in
  let l := t1 in
  let ok := bool_decide (is_Some t1) in
  if negb ok then
    let a2 := hs_next_hList s in
    let s := put_hList (hs_bump_hList s) a2 (hList_mk None None) in
    let l := Some a2 in
    let a3 := hs_next_hNode s in
    let s := put_hNode (hs_bump_hNode s) a3 (hNode_mk None None (Some tt) ev h) in
    let hn := Some a3 in
    if negb ok then
      a4 ← l;
      o5 ← heap_hList s !! a4;
      let s := put_hList s a4 (hList_set_start o5 hn) in
      a6 ← l;
      o7 ← heap_hList s !! a6;
      let s := put_hList s a6 (hList_set_end o7 hn) in
      sa_ ← l;
      let s := hs_set_set s (<[ev := sa_]> (hs_set s)) in
      Some (s, hn)
    else
      a8 ← l;
      o9 ← heap_hList s !! a8;
      a10 ← hn;
      o11 ← heap_hNode s !! a10;
      let s := put_hNode s a10 (hNode_set_prev o11 (hList_get_end o9)) in
      a12 ← l;
      o13 ← heap_hList s !! a12;
      a14 ← hList_get_end o13;
      o15 ← heap_hNode s !! a14;
      let s := put_hNode s a14 (hNode_set_next o15 hn) in
      a16 ← l;
      o17 ← heap_hList s !! a16;
      let s := put_hList s a16 (hList_set_end o17 hn) in
      sa_ ← l;
      let s := hs_set_set s (<[ev := sa_]> (hs_set s)) in
      Some (s, hn)
  else
    let a18 := hs_next_hNode s in
    let s := put_hNode (hs_bump_hNode s) a18 (hNode_mk None None (Some tt) ev h) in
    let hn := Some a18 in
    if negb ok then
      a19 ← l;
      o20 ← heap_hList s !! a19;
      let s := put_hList s a19 (hList_set_start o20 hn) in
      a21 ← l;
      o22 ← heap_hList s !! a21;
      let s := put_hList s a21 (hList_set_end o22 hn) in
      sa_ ← l;
      let s := hs_set_set s (<[ev := sa_]> (hs_set s)) in
      Some (s, hn)
    else
      a23 ← l;
      o24 ← heap_hList s !! a23;
      a25 ← hn;
      o26 ← heap_hNode s !! a25;
      let s := put_hNode s a25 (hNode_set_prev o26 (hList_get_end o24)) in
      a27 ← l;
      o28 ← heap_hList s !! a27;
      a29 ← hList_get_end o28;
      o30 ← heap_hNode s !! a29;
      let s := put_hNode s a29 (hNode_set_next o30 hn) in
      a31 ← l;
      o32 ← heap_hList s !! a31;
      let s := put_hList s a31 (hList_set_end o32 hn) in
      sa_ ← l;
      let s := hs_set_set s (<[ev := sa_]> (hs_set s)) in
      Some (s, hn).

(* hSet.remove — client/dispatch.go *)
Definition go_hSet_remove (s : HS) (hn : option positive) : option (HS) :=
  a1 ← hn;
  o2 ← heap_hNode s !! a1;
  let t3 := (hs_set s) !! (hNode_get_event o2) in
  let l := t3 in
  let ok := bool_decide (is_Some t3) in
  if negb ok then
    a4 ← hn;
    o5 ← heap_hNode s !! a4;
    Some s
  else
    a6 ← hn;
    o7 ← heap_hNode s !! a6;
    if bool_decide (hNode_get_next o7 = None) then
      a8 ← hn;
      o9 ← heap_hNode s !! a8;
      a10 ← l;
      o11 ← heap_hList s !! a10;
      let s := put_hList s a10 (hList_set_end o11 (hNode_get_prev o9)) in
      a12 ← hn;
      o13 ← heap_hNode s !! a12;
      if bool_decide (hNode_get_prev o13 = None) then
        a14 ← hn;
        o15 ← heap_hNode s !! a14;
        a16 ← l;
        o17 ← heap_hList s !! a16;
        let s := put_hList s a16 (hList_set_start o17 (hNode_get_next o15)) in
        a18 ← hn;
        o19 ← heap_hNode s !! a18;
        let s := put_hNode s a18 (hNode_set_next o19 None) in
        a20 ← hn;
        o21 ← heap_hNode s !! a20;
        let s := put_hNode s a20 (hNode_set_prev o21 None) in
        a22 ← hn;
        o23 ← heap_hNode s !! a22;
        let s := put_hNode s a22 (hNode_set_set o23 None) in
        a24 ← l;
        o25 ← heap_hList s !! a24;
        c28 ← (if bool_decide (hList_get_start o25 = None) then Some true else a26 ← l; o27 ← heap_hList s !! a26; Some (bool_decide (hList_get_end o27 = None)));
        if (c28 : bool) then
          a29 ← hn;
          o30 ← heap_hNode s !! a29;
          let s := hs_set_set s (delete (hNode_get_event o30) (hs_set s)) in
          Some s
        else
          Some s
      else
        a33 ← hn;
        o34 ← heap_hNode s !! a33;
        a31 ← hn;
        o32 ← heap_hNode s !! a31;
        a35 ← hNode_get_prev o34;
        o36 ← heap_hNode s !! a35;
        let s := put_hNode s a35 (hNode_set_next o36 (hNode_get_next o32)) in
        a37 ← hn;
        o38 ← heap_hNode s !! a37;
        let s := put_hNode s a37 (hNode_set_next o38 None) in
        a39 ← hn;
        o40 ← heap_hNode s !! a39;
        let s := put_hNode s a39 (hNode_set_prev o40 None) in
        a41 ← hn;
        o42 ← heap_hNode s !! a41;
        let s := put_hNode s a41 (hNode_set_set o42 None) in
        a43 ← l;
        o44 ← heap_hList s !! a43;
        c47 ← (if bool_decide (hList_get_start o44 = None) then Some true else a45 ← l; o46 ← heap_hList s !! a45; Some (bool_decide (hList_get_end o46 = None)));
        if (c47 : bool) then
          a48 ← hn;
          o49 ← heap_hNode s !! a48;
          let s := hs_set_set s (delete (hNode_get_event o49) (hs_set s)) in
          Some s
        else
          Some s
    else
      a52 ← hn;
      o53 ← heap_hNode s !! a52;
      a50 ← hn;
      o51 ← heap_hNode s !! a50;
      a54 ← hNode_get_next o53;
      o55 ← heap_hNode s !! a54;
      let s := put_hNode s a54 (hNode_set_prev o55 (hNode_get_prev o51)) in
      a56 ← hn;
      o57 ← heap_hNode s !! a56;
      if bool_decide (hNode_get_prev o57 = None) then
        a58 ← hn;
        o59 ← heap_hNode s !! a58;
        a60 ← l;
        o61 ← heap_hList s !! a60;
        let s := put_hList s a60 (hList_set_start o61 (hNode_get_next o59)) in
        a62 ← hn;
        o63 ← heap_hNode s !! a62;
        let s := put_hNode s a62 (hNode_set_next o63 None) in
        a64 ← hn;
        o65 ← heap_hNode s !! a64;
        let s := put_hNode s a64 (hNode_set_prev o65 None) in
        a66 ← hn;
        o67 ← heap_hNode s !! a66;
        let s := put_hNode s a66 (hNode_set_set o67 None) in
        a68 ← l;
        o69 ← heap_hList s !! a68;
        c72 ← (if bool_decide (hList_get_start o69 = None) then Some true else a70 ← l; o71 ← heap_hList s !! a70; Some (bool_decide (hList_get_end o71 = None)));
        if (c72 : bool) then
          a73 ← hn;
          o74 ← heap_hNode s !! a73;
          let s := hs_set_set s (delete (hNode_get_event o74) (hs_set s)) in
          Some s
        else
          Some s
      else
        a77 ← hn;
        o78 ← heap_hNode s !! a77;
        a75 ← hn;
        o76 ← heap_hNode s !! a75;
        a79 ← hNode_get_prev o78;
        o80 ← heap_hNode s !! a79;
        let s := put_hNode s a79 (hNode_set_next o80 (hNode_get_next o76)) in
        a81 ← hn;
        o82 ← heap_hNode s !! a81;
        let s := put_hNode s a81 (hNode_set_next o82 None) in
        a83 ← hn;
        o84 ← heap_hNode s !! a83;
        let s := put_hNode s a83 (hNode_set_prev o84 None) in
        a85 ← hn;
        o86 ← heap_hNode s !! a85;
        let s := put_hNode s a85 (hNode_set_set o86 None) in
        a87 ← l;
        o88 ← heap_hList s !! a87;
        c91 ← (if bool_decide (hList_get_start o88 = None) then Some true else a89 ← l; o90 ← heap_hList s !! a89; Some (bool_decide (hList_get_end o90 = None)));
        if (c91 : bool) then
          a92 ← hn;
          o93 ← heap_hNode s !! a92;
          let s := hs_set_set s (delete (hNode_get_event o93) (hs_set s)) in
          Some s
        else
          Some s.

(* hNode.Remove — client/dispatch.go *)
Definition go_hNode_Remove (s : HS) (hn : option positive) : option (HS) :=
  a1 ← hn;
  o2 ← heap_hNode s !! a1;
  _ ← hNode_get_set o2;
  s ← go_hSet_remove s hn;
  Some s.

(* hSet.getHandlers — client/dispatch.go *)
Definition go_hSet_getHandlers (s : HS) (ev : bytes) : option (list (option positive)) :=
  let t1 := (hs_set s) !! ev in
  let list_ := t1 in
  let ok := bool_decide (is_Some t1) in
  if negb ok then
    Some []
  else
    let handlers := [] in
    a2 ← list_;
    o3 ← heap_hList s !! a2;
    let hn := hList_get_start o3 in
    '(handlers, hn) ← go_loop (loop_fuel s)
        (fun acc_ : (list (option positive)) * (option positive) =>
          let '(handlers, hn) := acc_ in
          Some (negb (bool_decide (hn = None))))
        (fun acc_ : (list (option positive)) * (option positive) =>
          let '(handlers, hn) := acc_ in
          let handlers := handlers ++ [hn] in
          a4 ← hn;
          o5 ← heap_hNode s !! a4;
          let hn := hNode_get_next o5 in
          Some (handlers, hn)
        ) (handlers, hn);
    Some handlers.

End Heap.
