(* GENERATED from the Go source by /verif/translator on every check run — do not edit. *)
From Coq Require Import List ZArith NArith.
Import ListNotations.
Local Open Scope Z_scope.

Inductive lit := LInt (z : Z) | LStr (s : list N) | LBool (b : bool) | LOther.

Definition const_client_ACTION : list N := [65; 67; 84; 73; 79; 78]%N.
Definition const_client_AUTHENTICATE : list N := [65; 85; 84; 72; 69; 78; 84; 73; 67; 65; 84; 69]%N.
Definition const_client_AWAY : list N := [65; 87; 65; 89]%N.
Definition const_client_CAP : list N := [67; 65; 80]%N.
Definition const_client_CAP_ACK : list N := [65; 67; 75]%N.
Definition const_client_CAP_END : list N := [69; 78; 68]%N.
Definition const_client_CAP_LS : list N := [76; 83]%N.
Definition const_client_CAP_NAK : list N := [78; 65; 75]%N.
Definition const_client_CAP_REQ : list N := [82; 69; 81]%N.
Definition const_client_CONNECTED : list N := [67; 79; 78; 78; 69; 67; 84; 69; 68]%N.
Definition const_client_CTCP : list N := [67; 84; 67; 80]%N.
Definition const_client_CTCPREPLY : list N := [67; 84; 67; 80; 82; 69; 80; 76; 89]%N.
Definition const_client_DISCONNECTED : list N := [68; 73; 83; 67; 79; 78; 78; 69; 67; 84; 69; 68]%N.
Definition const_client_ERROR : list N := [69; 82; 82; 79; 82]%N.
Definition const_client_INVITE : list N := [73; 78; 86; 73; 84; 69]%N.
Definition const_client_JOIN : list N := [74; 79; 73; 78]%N.
Definition const_client_KICK : list N := [75; 73; 67; 75]%N.
Definition const_client_MODE : list N := [77; 79; 68; 69]%N.
Definition const_client_NICK : list N := [78; 73; 67; 75]%N.
Definition const_client_NOTICE : list N := [78; 79; 84; 73; 67; 69]%N.
Definition const_client_OPER : list N := [79; 80; 69; 82]%N.
Definition const_client_PART : list N := [80; 65; 82; 84]%N.
Definition const_client_PASS : list N := [80; 65; 83; 83]%N.
Definition const_client_PING : list N := [80; 73; 78; 71]%N.
Definition const_client_PONG : list N := [80; 79; 78; 71]%N.
Definition const_client_PRIVMSG : list N := [80; 82; 73; 86; 77; 83; 71]%N.
Definition const_client_QUIT : list N := [81; 85; 73; 84]%N.
Definition const_client_REGISTER : list N := [82; 69; 71; 73; 83; 84; 69; 82]%N.
Definition const_client_TOPIC : list N := [84; 79; 80; 73; 67]%N.
Definition const_client_USER : list N := [85; 83; 69; 82]%N.
Definition const_client_VERSION : list N := [86; 69; 82; 83; 73; 79; 78]%N.
Definition const_client_VHOST : list N := [86; 72; 79; 83; 84]%N.
Definition const_client_WHO : list N := [87; 72; 79]%N.
Definition const_client_WHOIS : list N := [87; 72; 79; 73; 83]%N.
Definition const_client_defaultSplit : Z := 450.
Definition const_client_saslCap : list N := [115; 97; 115; 108]%N.

Definition lits_client_Client : list lit :=
  [LStr [95; 95; 105; 100; 105; 111; 116; 95; 95]%N;
   LStr []%N;
   LStr []%N;
   LStr [95; 95; 105; 100; 105; 111; 116; 95; 95]%N;
   LStr [103; 111; 105; 114; 99]%N;
   LStr [80; 111; 119; 101; 114; 101; 100; 32; 98; 121; 32; 71; 111; 73; 82; 67]%N;
   LStr []%N;
   LStr [58; 48]%N;
   LStr [116; 99; 112]%N;
   LStr [105; 114; 99; 46; 67; 108; 105; 101; 110; 116; 40; 41; 58; 32; 67; 97; 110; 110; 111; 116; 32; 114; 101; 115; 111; 108; 118; 101; 32; 108; 111; 99; 97; 108; 32; 97; 100; 100; 114; 101; 115; 115; 32; 37; 115; 58; 32; 37; 115]%N;
   LStr [69; 110; 97; 98; 108; 105; 110; 103; 32; 99; 97; 112; 97; 98; 105; 108; 105; 116; 121; 32; 110; 101; 103; 111; 116; 105; 97; 116; 105; 111; 110; 32; 97; 115; 32; 105; 116; 39; 115; 32; 114; 101; 113; 117; 105; 114; 101; 100; 32; 102; 111; 114; 32; 83; 65; 83; 76]%N;
   LBool true;
   LInt (0)].
Definition lits_client_Conn_Action : list lit :=
  [LStr [65; 67; 84; 73; 79; 78]%N].
Definition lits_client_Conn_Authenticate : list lit :=
  [LStr [65; 85; 84; 72; 69; 78; 84; 73; 67; 65; 84; 69; 32]%N].
Definition lits_client_Conn_Away : list lit :=
  [LStr [32]%N;
   LStr []%N;
   LStr [32; 58]%N;
   LStr [65; 87; 65; 89]%N].
Definition lits_client_Conn_Cap : list lit :=
  [LInt (0);
   LStr [67; 65; 80; 32]%N;
   LStr [67; 65; 80; 32]%N;
   LStr [32; 58]%N;
   LInt (450)].
Definition lits_client_Conn_Close : list lit :=
  [].
Definition lits_client_Conn_Config : list lit :=
  [].
Definition lits_client_Conn_Connect : list lit :=
  [].
Definition lits_client_Conn_ConnectContext : list lit :=
  [LStr [82; 69; 71; 73; 83; 84; 69; 82]%N].
Definition lits_client_Conn_ConnectTo : list lit :=
  [].
Definition lits_client_Conn_ConnectToContext : list lit :=
  [LInt (0);
   LInt (0)].
Definition lits_client_Conn_Connected : list lit :=
  [].
Definition lits_client_Conn_Ctcp : list lit :=
  [LStr [32]%N;
   LStr []%N;
   LStr [32]%N;
   LStr [80; 82; 73; 86; 77; 83; 71; 32]%N;
   LStr [32; 58; 1]%N;
   LStr [1]%N].
Definition lits_client_Conn_CtcpReply : list lit :=
  [LStr [32]%N;
   LStr []%N;
   LStr [32]%N;
   LStr [78; 79; 84; 73; 67; 69; 32]%N;
   LStr [32; 58; 1]%N;
   LStr [1]%N].
Definition lits_client_Conn_DisableStateTracking : list lit :=
  [].
Definition lits_client_Conn_EnableStateTracking : list lit :=
  [].
Definition lits_client_Conn_Handle : list lit :=
  [].
Definition lits_client_Conn_HandleBG : list lit :=
  [].
Definition lits_client_Conn_HandleFunc : list lit :=
  [].
Definition lits_client_Conn_HasCapability : list lit :=
  [].
Definition lits_client_Conn_Invite : list lit :=
  [LStr [73; 78; 86; 73; 84; 69; 32]%N;
   LStr [32]%N].
Definition lits_client_Conn_Join : list lit :=
  [LStr []%N;
   LInt (0);
   LStr [32]%N;
   LInt (0);
   LStr [74; 79; 73; 78; 32]%N].
Definition lits_client_Conn_Kick : list lit :=
  [LStr [32]%N;
   LStr []%N;
   LStr [32; 58]%N;
   LStr [75; 73; 67; 75; 32]%N;
   LStr [32]%N].
Definition lits_client_Conn_LogPanic : list lit :=
  [LInt (2);
   LStr [37; 115; 58; 37; 100; 58; 32; 112; 97; 110; 105; 99; 58; 32; 37; 118]%N].
Definition lits_client_Conn_Me : list lit :=
  [].
Definition lits_client_Conn_Mode : list lit :=
  [LStr [32]%N;
   LStr []%N;
   LStr [32]%N;
   LStr [77; 79; 68; 69; 32]%N].
Definition lits_client_Conn_Nick : list lit :=
  [LStr [78; 73; 67; 75; 32]%N].
Definition lits_client_Conn_Notice : list lit :=
  [LStr [78; 79; 84; 73; 67; 69; 32]%N;
   LStr [32; 58]%N].
Definition lits_client_Conn_Oper : list lit :=
  [LStr [79; 80; 69; 82; 32]%N;
   LStr [32]%N].
Definition lits_client_Conn_Part : list lit :=
  [LStr [32]%N;
   LStr []%N;
   LStr [32; 58]%N;
   LStr [80; 65; 82; 84; 32]%N].
Definition lits_client_Conn_Pass : list lit :=
  [LStr [80; 65; 83; 83; 32]%N].
Definition lits_client_Conn_Ping : list lit :=
  [LStr [80; 73; 78; 71; 32; 58]%N].
Definition lits_client_Conn_Pong : list lit :=
  [LStr [80; 79; 78; 71; 32; 58]%N].
Definition lits_client_Conn_Privmsg : list lit :=
  [LStr [80; 82; 73; 86; 77; 83; 71; 32]%N;
   LStr [32; 58]%N].
Definition lits_client_Conn_Privmsgf : list lit :=
  [].
Definition lits_client_Conn_Privmsgln : list lit :=
  [LInt (1)].
Definition lits_client_Conn_Quit : list lit :=
  [LStr [32]%N;
   LStr []%N;
   LStr [81; 85; 73; 84; 32; 58]%N].
Definition lits_client_Conn_Raw : list lit :=
  [].
Definition lits_client_Conn_StateTracker : list lit :=
  [].
Definition lits_client_Conn_String : list lit :=
  [LStr [71; 111; 73; 82; 67; 32; 67; 111; 110; 110; 101; 99; 116; 105; 111; 110; 10]%N;
   LStr [45; 45; 45; 45; 45; 45; 45; 45; 45; 45; 45; 45; 45; 45; 45; 45; 10; 10]%N;
   LStr [67; 111; 110; 110; 101; 99; 116; 101; 100; 32; 116; 111; 32]%N;
   LStr [10; 10]%N;
   LStr [78; 111; 116; 32; 99; 117; 114; 114; 101; 110; 116; 108; 121; 32; 99; 111; 110; 110; 101; 99; 116; 101; 100; 33; 10; 10]%N;
   LStr [10]%N;
   LStr [10]%N].
Definition lits_client_Conn_SupportsCapability : list lit :=
  [].
Definition lits_client_Conn_Topic : list lit :=
  [LStr [32]%N;
   LStr []%N;
   LStr [32; 58]%N;
   LStr [84; 79; 80; 73; 67; 32]%N].
Definition lits_client_Conn_User : list lit :=
  [LStr [85; 83; 69; 82; 32]%N;
   LStr [32; 49; 50; 32; 42; 32; 58]%N].
Definition lits_client_Conn_VHost : list lit :=
  [LStr [86; 72; 79; 83; 84; 32]%N;
   LStr [32]%N].
Definition lits_client_Conn_Version : list lit :=
  [LStr [86; 69; 82; 83; 73; 79; 78]%N].
Definition lits_client_Conn_Who : list lit :=
  [LStr [87; 72; 79; 32]%N].
Definition lits_client_Conn_Whois : list lit :=
  [LStr [87; 72; 79; 73; 83; 32]%N].
Definition lits_client_Conn_addIntHandlers : list lit :=
  [].
Definition lits_client_Conn_addSTHandlers : list lit :=
  [].
Definition lits_client_Conn_closeIf : list lit :=
  [LStr [105; 114; 99; 46; 67; 108; 111; 115; 101; 40; 41; 58; 32; 68; 105; 115; 99; 111; 110; 110; 101; 99; 116; 101; 100; 32; 102; 114; 111; 109; 32; 115; 101; 114; 118; 101; 114; 46]%N;
   LBool false;
   LBool false;
   LBool true;
   LStr [68; 73; 83; 67; 79; 78; 78; 69; 67; 84; 69; 68]%N].
Definition lits_client_Conn_delSTHandlers : list lit :=
  [LInt (0)].
Definition lits_client_Conn_dialProxy : list lit :=
  [LStr [112; 97; 114; 115; 105; 110; 103; 32; 117; 114; 108; 58; 32; 37; 118]%N;
   LStr [99; 114; 101; 97; 116; 105; 110; 103; 32; 100; 105; 97; 108; 101; 114; 58; 32; 37; 118]%N;
   LStr [105; 114; 99; 46; 67; 111; 110; 110; 101; 99; 116; 40; 41; 58; 32; 67; 111; 110; 110; 101; 99; 116; 105; 110; 103; 32; 116; 111; 32; 37; 115; 46]%N;
   LStr [116; 99; 112]%N;
   LStr [68; 105; 97; 108; 101; 114; 32; 102; 111; 114; 32; 112; 114; 111; 120; 121; 32; 100; 111; 101; 115; 32; 110; 111; 116; 32; 115; 117; 112; 112; 111; 114; 116; 32; 99; 111; 110; 116; 101; 120; 116; 44; 32; 112; 108; 101; 97; 115; 101; 32; 105; 109; 112; 108; 101; 109; 101; 110; 116; 32; 68; 105; 97; 108; 67; 111; 110; 116; 101; 120; 116]%N;
   LStr [105; 114; 99; 46; 67; 111; 110; 110; 101; 99; 116; 40; 41; 58; 32; 67; 111; 110; 110; 101; 99; 116; 105; 110; 103; 32; 116; 111; 32; 37; 115; 46]%N;
   LStr [116; 99; 112]%N].
Definition lits_client_Conn_dispatch : list lit :=
  [].
Definition lits_client_Conn_drainIn : list lit :=
  [].
Definition lits_client_Conn_drainOut : list lit :=
  [].
Definition lits_client_Conn_getRequestCapabilities : list lit :=
  [LStr [115; 97; 115; 108]%N].
Definition lits_client_Conn_h_001 : list lit :=
  [LStr [67; 79; 78; 78; 69; 67; 84; 69; 68]%N;
   LStr [32]%N;
   LInt (-1);
   LInt (1);
   LStr [83; 101; 114; 118; 101; 114; 32; 99; 104; 97; 110; 103; 101; 100; 32; 111; 117; 114; 32; 110; 105; 99; 107; 32; 111; 110; 32; 99; 111; 110; 110; 101; 99; 116; 58; 32; 111; 108; 100; 61; 37; 113; 32; 110; 101; 119; 61; 37; 113]%N].
Definition lits_client_Conn_h_311 : list lit :=
  [LInt (5);
   LInt (1);
   LInt (1);
   LInt (2);
   LInt (3);
   LInt (5);
   LStr [105; 114; 99; 46; 51; 49; 49; 40; 41; 58; 32; 114; 101; 99; 101; 105; 118; 101; 100; 32; 87; 72; 79; 73; 83; 32; 105; 110; 102; 111; 32; 102; 111; 114; 32; 117; 110; 107; 110; 111; 119; 110; 32; 110; 105; 99; 107; 32; 37; 115]%N;
   LInt (1)].
Definition lits_client_Conn_h_324 : list lit :=
  [LInt (2);
   LInt (1);
   LInt (1);
   LInt (2);
   LInt (3);
   LStr [105; 114; 99; 46; 51; 50; 52; 40; 41; 58; 32; 114; 101; 99; 101; 105; 118; 101; 100; 32; 77; 79; 68; 69; 32; 115; 101; 116; 116; 105; 110; 103; 115; 32; 102; 111; 114; 32; 117; 110; 107; 110; 111; 119; 110; 32; 99; 104; 97; 110; 110; 101; 108; 32; 37; 115]%N;
   LInt (1)].
Definition lits_client_Conn_h_332 : list lit :=
  [LInt (2);
   LInt (1);
   LInt (1);
   LInt (2);
   LStr [105; 114; 99; 46; 51; 51; 50; 40; 41; 58; 32; 114; 101; 99; 101; 105; 118; 101; 100; 32; 84; 79; 80; 73; 67; 32; 118; 97; 108; 117; 101; 32; 102; 111; 114; 32; 117; 110; 107; 110; 111; 119; 110; 32; 99; 104; 97; 110; 110; 101; 108; 32; 37; 115]%N;
   LInt (1)].
Definition lits_client_Conn_h_352 : list lit :=
  [LInt (5);
   LInt (5);
   LStr [105; 114; 99; 46; 51; 53; 50; 40; 41; 58; 32; 114; 101; 99; 101; 105; 118; 101; 100; 32; 87; 72; 79; 32; 114; 101; 112; 108; 121; 32; 102; 111; 114; 32; 117; 110; 107; 110; 111; 119; 110; 32; 110; 105; 99; 107; 32; 37; 115]%N;
   LInt (5);
   LInt (1);
   LStr [32]%N;
   LInt (2);
   LInt (2);
   LInt (3);
   LInt (1);
   LInt (6);
   LInt (6);
   LStr [42]%N;
   LInt (-1);
   LStr [43; 111]%N;
   LInt (6);
   LStr [66]%N;
   LInt (-1);
   LStr [43; 66]%N;
   LInt (6);
   LStr [72]%N;
   LInt (-1);
   LStr [43; 105]%N].
Definition lits_client_Conn_h_353 : list lit :=
  [LInt (2);
   LInt (2);
   LInt (1);
   LStr [32]%N;
   LStr []%N;
   LInt (0);
   LInt (126);
   LInt (38);
   LInt (64);
   LInt (37);
   LInt (43);
   LInt (1);
   LInt (126);
   LStr [43; 113]%N;
   LInt (38);
   LStr [43; 97]%N;
   LInt (64);
   LStr [43; 111]%N;
   LInt (37);
   LStr [43; 104]%N;
   LInt (43);
   LStr [43; 118]%N;
   LStr [105; 114; 99; 46; 51; 53; 51; 40; 41; 58; 32; 114; 101; 99; 101; 105; 118; 101; 100; 32; 78; 65; 77; 69; 83; 32; 108; 105; 115; 116; 32; 102; 111; 114; 32; 117; 110; 107; 110; 111; 119; 110; 32; 99; 104; 97; 110; 110; 101; 108; 32; 37; 115]%N;
   LInt (2)].
Definition lits_client_Conn_h_410 : list lit :=
  [LStr [73; 110; 118; 97; 108; 105; 100; 32; 99; 97; 112; 32; 115; 117; 98; 99; 111; 109; 109; 97; 110; 100; 58; 32]%N;
   LInt (1)].
Definition lits_client_Conn_h_433 : list lit :=
  [LInt (1);
   LInt (1);
   LInt (1)].
Definition lits_client_Conn_h_671 : list lit :=
  [LInt (1);
   LInt (1);
   LStr [43; 122]%N;
   LStr [105; 114; 99; 46; 54; 55; 49; 40; 41; 58; 32; 114; 101; 99; 101; 105; 118; 101; 100; 32; 87; 72; 79; 73; 83; 32; 83; 83; 76; 32; 105; 110; 102; 111; 32; 102; 111; 114; 32; 117; 110; 107; 110; 111; 119; 110; 32; 110; 105; 99; 107; 32; 37; 115]%N;
   LInt (1)].
Definition lits_client_Conn_h_903 : list lit :=
  [LStr [69; 78; 68]%N].
Definition lits_client_Conn_h_904 : list lit :=
  [LStr [83; 65; 83; 76; 32; 97; 117; 116; 104; 101; 110; 116; 105; 99; 97; 116; 105; 111; 110; 32; 102; 97; 105; 108; 101; 100]%N;
   LStr [69; 78; 68]%N].
Definition lits_client_Conn_h_908 : list lit :=
  [LStr [83; 65; 83; 76; 32; 109; 101; 99; 104; 97; 110; 105; 115; 109; 32; 110; 111; 116; 32; 115; 117; 112; 112; 111; 114; 116; 101; 100; 44; 32; 115; 117; 112; 112; 111; 114; 116; 101; 100; 32; 109; 101; 99; 104; 97; 110; 105; 115; 109; 115; 32; 97; 114; 101; 58; 32; 37; 118]%N;
   LInt (1);
   LStr [69; 78; 68]%N].
Definition lits_client_Conn_h_AUTHENTICATE : list lit :=
  [LStr [43]%N;
   LInt (0);
   LInt (0);
   LStr [70; 97; 105; 108; 101; 100; 32; 116; 111; 32; 100; 101; 99; 111; 100; 101; 32; 83; 65; 83; 76; 32; 99; 104; 97; 108; 108; 101; 110; 103; 101; 58; 32; 37; 118]%N;
   LStr [70; 97; 105; 108; 101; 100; 32; 116; 111; 32; 103; 101; 110; 101; 114; 97; 116; 101; 32; 114; 101; 115; 112; 111; 110; 115; 101; 32; 102; 111; 114; 32; 83; 65; 83; 76; 32; 99; 104; 97; 108; 108; 101; 110; 103; 101; 58; 32; 37; 118]%N].
Definition lits_client_Conn_h_CAP : list lit :=
  [LInt (1);
   LStr [76; 83]%N;
   LStr [65; 67; 75]%N;
   LStr [78; 65; 75]%N].
Definition lits_client_Conn_h_CTCP : list lit :=
  [LInt (0);
   LStr [86; 69; 82; 83; 73; 79; 78]%N;
   LStr [86; 69; 82; 83; 73; 79; 78]%N;
   LInt (0);
   LStr [80; 73; 78; 71]%N;
   LInt (2);
   LStr [80; 73; 78; 71]%N;
   LInt (2)].
Definition lits_client_Conn_h_JOIN : list lit :=
  [LInt (0);
   LStr [105; 114; 99; 46; 74; 79; 73; 78; 40; 41; 58; 32; 74; 79; 73; 78; 32; 116; 111; 32; 117; 110; 107; 110; 111; 119; 110; 32; 99; 104; 97; 110; 110; 101; 108; 32; 37; 115; 32; 114; 101; 99; 101; 105; 118; 101; 100; 32; 102; 114; 111; 109; 32; 40; 110; 111; 110; 45; 109; 101; 41; 32; 110; 105; 99; 107; 32; 37; 115]%N;
   LInt (0);
   LInt (0);
   LInt (0);
   LInt (0);
   LStr []%N;
   LInt (0)].
Definition lits_client_Conn_h_KICK : list lit :=
  [LInt (1);
   LInt (0);
   LInt (1)].
Definition lits_client_Conn_h_MODE : list lit :=
  [LInt (1);
   LInt (0);
   LInt (0);
   LInt (1);
   LInt (2);
   LInt (0);
   LStr [105; 114; 99; 46; 77; 79; 68; 69; 40; 41; 58; 32; 114; 101; 99; 105; 101; 118; 101; 100; 32; 77; 79; 68; 69; 32; 37; 115; 32; 102; 111; 114; 32; 40; 110; 111; 110; 45; 109; 101; 41; 32; 110; 105; 99; 107; 32; 37; 115]%N;
   LInt (1);
   LInt (0);
   LInt (0);
   LInt (1);
   LStr [105; 114; 99; 46; 77; 79; 68; 69; 40; 41; 58; 32; 110; 111; 116; 32; 115; 117; 114; 101; 32; 119; 104; 97; 116; 32; 116; 111; 32; 100; 111; 32; 119; 105; 116; 104; 32; 77; 79; 68; 69; 32; 37; 115]%N;
   LStr [32]%N].
Definition lits_client_Conn_h_NICK : list lit :=
  [LInt (0)].
Definition lits_client_Conn_h_PART : list lit :=
  [LInt (0)].
Definition lits_client_Conn_h_PING : list lit :=
  [LInt (0)].
Definition lits_client_Conn_h_QUIT : list lit :=
  [].
Definition lits_client_Conn_h_REGISTER : list lit :=
  [LStr [76; 83]%N;
   LStr []%N].
Definition lits_client_Conn_h_STNICK : list lit :=
  [LInt (0)].
Definition lits_client_Conn_h_TOPIC : list lit :=
  [LInt (1);
   LInt (0);
   LInt (0);
   LInt (1);
   LStr [105; 114; 99; 46; 84; 79; 80; 73; 67; 40; 41; 58; 32; 116; 111; 112; 105; 99; 32; 99; 104; 97; 110; 103; 101; 32; 111; 110; 32; 117; 110; 107; 110; 111; 119; 110; 32; 99; 104; 97; 110; 110; 101; 108; 32; 37; 115]%N;
   LInt (0)].
Definition lits_client_Conn_handle : list lit :=
  [].
Definition lits_client_Conn_handleCapAck : list lit :=
  [LBool false;
   LStr [115; 97; 115; 108]%N;
   LStr [83; 65; 83; 76; 32; 97; 117; 116; 104; 101; 110; 116; 105; 99; 97; 116; 105; 111; 110; 32; 102; 97; 105; 108; 101; 100; 58; 32; 37; 118]%N;
   LBool true;
   LStr [69; 78; 68]%N].
Definition lits_client_Conn_handleCapNak : list lit :=
  [LStr [69; 78; 68]%N].
Definition lits_client_Conn_initialise : list lit :=
  [LInt (32);
   LInt (32)].
Definition lits_client_Conn_internalConnect : list lit :=
  [LStr []%N;
   LStr [105; 114; 99; 46; 67; 111; 110; 110; 101; 99; 116; 40; 41; 58; 32; 99; 102; 103; 46; 83; 101; 114; 118; 101; 114; 32; 109; 117; 115; 116; 32; 98; 101; 32; 110; 111; 110; 45; 101; 109; 112; 116; 121]%N;
   LStr [105; 114; 99; 46; 67; 111; 110; 110; 101; 99; 116; 40; 41; 58; 32; 67; 97; 110; 110; 111; 116; 32; 99; 111; 110; 110; 101; 99; 116; 32; 116; 111; 32; 37; 115; 44; 32; 97; 108; 114; 101; 97; 100; 121; 32; 99; 111; 110; 110; 101; 99; 116; 101; 100; 46]%N;
   LStr [54; 54; 57; 55]%N;
   LStr [54; 54; 54; 55]%N;
   LStr []%N;
   LStr [105; 114; 99; 46; 67; 111; 110; 110; 101; 99; 116; 40; 41; 58; 32; 67; 111; 110; 110; 101; 99; 116; 105; 110; 103; 32; 118; 105; 97; 32; 112; 114; 111; 120; 121; 32; 37; 113; 58; 32; 37; 118]%N;
   LStr [105; 114; 99; 46; 67; 111; 110; 110; 101; 99; 116; 40; 41; 58; 32; 67; 111; 110; 110; 101; 99; 116; 105; 110; 103; 32; 116; 111; 32; 37; 115; 46]%N;
   LStr [116; 99; 112]%N;
   LStr [105; 114; 99; 46; 67; 111; 110; 110; 101; 99; 116; 40; 41; 58; 32; 80; 101; 114; 102; 111; 114; 109; 105; 110; 103; 32; 83; 83; 76; 32; 104; 97; 110; 100; 115; 104; 97; 107; 101; 46]%N;
   LBool true;
   LBool true].
Definition lits_client_Conn_negotiateCapabilities : list lit :=
  [LInt (0);
   LStr [82; 69; 81]%N;
   LStr [69; 78; 68]%N].
Definition lits_client_Conn_ping : list lit :=
  [LStr [37; 100]%N].
Definition lits_client_Conn_postConnect : list lit :=
  [LInt (3);
   LInt (0);
   LInt (1)].
Definition lits_client_Conn_rateLimit : list lit :=
  [LInt (2000000000);
   LInt (1000000000);
   LInt (120);
   LInt (0);
   LInt (0);
   LInt (10000000000);
   LInt (0)].
Definition lits_client_Conn_recv : list lit :=
  [LInt (10);
   LStr [105; 114; 99; 46; 114; 101; 99; 118; 40; 41; 58; 32; 37; 115]%N;
   LStr [13; 10]%N;
   LStr [60; 45; 32; 37; 115]%N;
   LStr [105; 114; 99; 46; 114; 101; 99; 118; 40; 41; 58; 32; 112; 114; 111; 98; 108; 101; 109; 115; 32; 112; 97; 114; 115; 105; 110; 103; 32; 108; 105; 110; 101; 58; 10; 32; 32; 37; 115]%N].
Definition lits_client_Conn_runLoop : list lit :=
  [].
Definition lits_client_Conn_send : list lit :=
  [LStr [105; 114; 99; 46; 115; 101; 110; 100; 40; 41; 58; 32; 37; 115]%N].
Definition lits_client_Conn_setConnected : list lit :=
  [].
Definition lits_client_Conn_write : list lit :=
  [LInt (0);
   LStr [105; 114; 99; 46; 114; 97; 116; 101; 76; 105; 109; 105; 116; 40; 41; 58; 32; 70; 108; 111; 111; 100; 33; 32; 83; 108; 101; 101; 112; 105; 110; 103; 32; 102; 111; 114; 32; 37; 46; 50; 102; 32; 115; 101; 99; 115; 46]%N;
   LStr [13; 10]%N;
   LStr [80; 65; 83; 83]%N;
   LStr [80; 65; 83; 83; 32; 42; 42; 42; 42; 42; 42; 42; 42; 42; 42; 42; 42; 42; 42]%N;
   LStr [45; 62; 32; 37; 115]%N].
Definition lits_client_DefaultNewNick : list lit :=
  [LInt (0);
   LStr [95]%N;
   LInt (1);
   LInt (48);
   LInt (57);
   LInt (48);
   LInt (48);
   LInt (1);
   LInt (10);
   LInt (65);
   LInt (125);
   LInt (65);
   LInt (65);
   LInt (1);
   LInt (61);
   LInt (95);
   LInt (1)].
Definition lits_client_HandlerFunc_Handle : list lit :=
  [].
Definition lits_client_Line_Copy : list lit :=
  [].
Definition lits_client_Line_Public : list lit :=
  [LStr [80; 82; 73; 86; 77; 83; 71]%N;
   LStr [78; 79; 84; 73; 67; 69]%N;
   LStr [65; 67; 84; 73; 79; 78]%N;
   LInt (1);
   LInt (0);
   LStr []%N;
   LBool false;
   LInt (0);
   LInt (0);
   LInt (35);
   LInt (38);
   LInt (43);
   LInt (33);
   LBool true;
   LStr [67; 84; 67; 80]%N;
   LStr [67; 84; 67; 80; 82; 69; 80; 76; 89]%N;
   LInt (2);
   LInt (1);
   LStr []%N;
   LBool false;
   LInt (1);
   LInt (0);
   LInt (35);
   LInt (38);
   LInt (43);
   LInt (33);
   LBool true;
   LBool false].
Definition lits_client_Line_Target : list lit :=
  [LStr [80; 82; 73; 86; 77; 83; 71]%N;
   LStr [78; 79; 84; 73; 67; 69]%N;
   LStr [65; 67; 84; 73; 79; 78]%N;
   LStr [67; 84; 67; 80]%N;
   LStr [67; 84; 67; 80; 82; 69; 80; 76; 89]%N;
   LInt (1);
   LInt (0);
   LInt (0);
   LStr []%N].
Definition lits_client_Line_Text : list lit :=
  [LInt (0);
   LInt (1);
   LStr []%N].
Definition lits_client_Line_argslen : list lit :=
  [LInt (1);
   LStr [37; 115; 58; 32; 116; 111; 111; 32; 102; 101; 119; 32; 97; 114; 103; 117; 109; 101; 110; 116; 115; 58; 32; 37; 115]%N;
   LStr [32]%N;
   LBool false;
   LBool true].
Definition lits_client_NewConfig : list lit :=
  [LInt (180000000000);
   LInt (450);
   LInt (60000000000);
   LBool false;
   LStr [103; 111; 105; 114; 99]%N;
   LInt (0);
   LInt (0);
   LStr []%N;
   LInt (0);
   LStr [80; 111; 119; 101; 114; 101; 100; 32; 98; 121; 32; 71; 111; 73; 82; 67]%N;
   LInt (1);
   LInt (1);
   LStr []%N;
   LInt (1);
   LStr [80; 111; 119; 101; 114; 101; 100; 32; 98; 121; 32; 71; 111; 73; 82; 67]%N;
   LStr [71; 111; 66; 121; 101; 33]%N].
Definition lits_client_ParseLine : list lit :=
  [LStr []%N;
   LInt (0);
   LInt (64);
   LStr [32]%N;
   LInt (-1);
   LInt (1);
   LInt (1);
   LStr [59]%N;
   LStr []%N;
   LStr [61]%N;
   LInt (2);
   LInt (2);
   LStr []%N;
   LInt (0);
   LInt (1);
   LStr []%N;
   LInt (0);
   LInt (58);
   LStr [32]%N;
   LInt (-1);
   LInt (1);
   LInt (1);
   LStr [32; 58]%N;
   LInt (2);
   LInt (0);
   LInt (0);
   LInt (1);
   LInt (1);
   LInt (0);
   LInt (1);
   LInt (1);
   LStr [80; 82; 73; 86; 77; 83; 71]%N;
   LStr [78; 79; 84; 73; 67; 69]%N;
   LInt (1);
   LInt (1);
   LInt (2);
   LInt (1);
   LStr [1]%N;
   LInt (1);
   LStr [1]%N;
   LInt (1);
   LStr [1]%N;
   LStr [32]%N;
   LInt (2);
   LInt (1);
   LInt (1);
   LInt (1);
   LInt (0);
   LStr [65; 67; 84; 73; 79; 78]%N;
   LStr [80; 82; 73; 86; 77; 83; 71]%N;
   LStr [80; 82; 73; 86; 77; 83; 71]%N;
   LStr [67; 84; 67; 80]%N;
   LStr [67; 84; 67; 80; 82; 69; 80; 76; 89]%N].
Definition lits_client_SimpleClient : list lit :=
  [].
Definition lits_client_capSet_Add : list lit :=
  [LStr [45]%N;
   LInt (1);
   LBool false;
   LBool true].
Definition lits_client_capSet_Has : list lit :=
  [].
Definition lits_client_capSet_Intersect : list lit :=
  [].
Definition lits_client_capSet_Size : list lit :=
  [].
Definition lits_client_capSet_Slice : list lit :=
  [LInt (0)].
Definition lits_client_capabilitySet : list lit :=
  [].
Definition lits_client_cutNewLines : list lit :=
  [LStr [13]%N;
   LInt (2);
   LInt (0);
   LStr [10]%N;
   LInt (2);
   LInt (0)].
Definition lits_client_hNode_Handle : list lit :=
  [].
Definition lits_client_hNode_Remove : list lit :=
  [].
Definition lits_client_hSet_add : list lit :=
  [].
Definition lits_client_hSet_dispatch : list lit :=
  [LInt (1)].
Definition lits_client_hSet_getHandlers : list lit :=
  [LInt (0)].
Definition lits_client_hSet_remove : list lit :=
  [LStr [82; 101; 109; 111; 118; 105; 110; 103; 32; 110; 111; 100; 101; 32; 102; 111; 114; 32; 117; 110; 107; 110; 111; 119; 110; 32; 101; 118; 101; 110; 116; 32; 39; 37; 115; 39]%N].
Definition lits_client_handlerSet : list lit :=
  [].
Definition lits_client_hasPort : list lit :=
  [LStr [58]%N;
   LStr [93]%N].
Definition lits_client_indexFragment : list lit :=
  [LInt (-1);
   LStr [46; 32]%N;
   LStr [58; 32]%N;
   LStr [59; 32]%N;
   LStr [44; 32]%N;
   LStr [33; 32]%N;
   LStr [63; 32]%N;
   LStr [34; 32]%N;
   LStr [39; 32]%N;
   LInt (0);
   LInt (2);
   LStr [32]%N;
   LInt (0);
   LInt (1);
   LInt (-1)].
Definition lits_client_parseUserHost : list lit :=
  [LStr [33]%N;
   LStr [64]%N;
   LInt (-1);
   LInt (-1);
   LStr []%N;
   LStr []%N;
   LStr []%N;
   LBool false;
   LInt (1);
   LInt (1);
   LBool true].
Definition lits_client_splitArgs : list lit :=
  [LInt (0);
   LInt (0);
   LInt (1);
   LStr [32]%N].
Definition lits_client_splitMessage : list lit :=
  [LInt (13);
   LInt (450);
   LInt (3);
   LInt (0);
   LInt (3);
   LStr [46; 46; 46]%N].
Definition lits_state_ChanMode_Copy : list lit :=
  [].
Definition lits_state_ChanMode_Equals : list lit :=
  [].
Definition lits_state_ChanMode_String : list lit :=
  [LStr [78; 111; 32; 109; 111; 100; 101; 115; 32; 115; 101; 116]%N;
   LStr [43]%N;
   LInt (0);
   LInt (0);
   LInt (1);
   LInt (24);
   LStr []%N;
   LInt (2);
   LInt (3);
   LInt (4);
   LInt (5);
   LInt (6);
   LInt (0);
   LInt (10);
   LStr []%N;
   LStr [32]%N;
   LStr [43]%N;
   LStr [78; 111; 32; 109; 111; 100; 101; 115; 32; 115; 101; 116]%N].
Definition lits_state_ChanPrivs_Copy : list lit :=
  [].
Definition lits_state_ChanPrivs_Equals : list lit :=
  [].
Definition lits_state_ChanPrivs_String : list lit :=
  [LStr [78; 111; 32; 109; 111; 100; 101; 115; 32; 115; 101; 116]%N;
   LStr [43]%N;
   LInt (0);
   LInt (1);
   LStr [43]%N;
   LStr [78; 111; 32; 109; 111; 100; 101; 115; 32; 115; 101; 116]%N].
Definition lits_state_Channel_Equals : list lit :=
  [].
Definition lits_state_Channel_IsOn : list lit :=
  [].
Definition lits_state_Channel_String : list lit :=
  [LStr [67; 104; 97; 110; 110; 101; 108; 58; 32]%N;
   LStr [10; 9]%N;
   LStr [84; 111; 112; 105; 99; 58; 32]%N;
   LStr [10; 9]%N;
   LStr [77; 111; 100; 101; 115; 58; 32]%N;
   LStr [10; 9]%N;
   LStr [78; 105; 99; 107; 115; 58; 32; 10]%N;
   LStr [9; 9]%N;
   LStr [58; 32]%N;
   LStr [10]%N].
Definition lits_state_MockTracker_Associate : list lit :=
  [LStr [65; 115; 115; 111; 99; 105; 97; 116; 101]%N;
   LInt (0)].
Definition lits_state_MockTracker_ChannelModes : list lit :=
  [LStr [67; 104; 97; 110; 110; 101; 108; 77; 111; 100; 101; 115]%N;
   LInt (0)].
Definition lits_state_MockTracker_DelChannel : list lit :=
  [LStr [68; 101; 108; 67; 104; 97; 110; 110; 101; 108]%N;
   LInt (0)].
Definition lits_state_MockTracker_DelNick : list lit :=
  [LStr [68; 101; 108; 78; 105; 99; 107]%N;
   LInt (0)].
Definition lits_state_MockTracker_Dissociate : list lit :=
  [LStr [68; 105; 115; 115; 111; 99; 105; 97; 116; 101]%N].
Definition lits_state_MockTracker_EXPECT : list lit :=
  [].
Definition lits_state_MockTracker_GetChannel : list lit :=
  [LStr [71; 101; 116; 67; 104; 97; 110; 110; 101; 108]%N;
   LInt (0)].
Definition lits_state_MockTracker_GetNick : list lit :=
  [LStr [71; 101; 116; 78; 105; 99; 107]%N;
   LInt (0)].
Definition lits_state_MockTracker_IsOn : list lit :=
  [LStr [73; 115; 79; 110]%N;
   LInt (0);
   LInt (1)].
Definition lits_state_MockTracker_Me : list lit :=
  [LStr [77; 101]%N;
   LInt (0)].
Definition lits_state_MockTracker_NewChannel : list lit :=
  [LStr [78; 101; 119; 67; 104; 97; 110; 110; 101; 108]%N;
   LInt (0)].
Definition lits_state_MockTracker_NewNick : list lit :=
  [LStr [78; 101; 119; 78; 105; 99; 107]%N;
   LInt (0)].
Definition lits_state_MockTracker_NickInfo : list lit :=
  [LStr [78; 105; 99; 107; 73; 110; 102; 111]%N;
   LInt (0)].
Definition lits_state_MockTracker_NickModes : list lit :=
  [LStr [78; 105; 99; 107; 77; 111; 100; 101; 115]%N;
   LInt (0)].
Definition lits_state_MockTracker_ReNick : list lit :=
  [LStr [82; 101; 78; 105; 99; 107]%N;
   LInt (0)].
Definition lits_state_MockTracker_String : list lit :=
  [LStr [83; 116; 114; 105; 110; 103]%N;
   LInt (0)].
Definition lits_state_MockTracker_Topic : list lit :=
  [LStr [84; 111; 112; 105; 99]%N;
   LInt (0)].
Definition lits_state_MockTracker_Wipe : list lit :=
  [LStr [87; 105; 112; 101]%N].
Definition lits_state_NewMockTracker : list lit :=
  [].
Definition lits_state_NewTracker : list lit :=
  [].
Definition lits_state_Nick_Equals : list lit :=
  [].
Definition lits_state_Nick_IsOn : list lit :=
  [].
Definition lits_state_Nick_String : list lit :=
  [LStr [78; 105; 99; 107; 58; 32]%N;
   LStr [10; 9]%N;
   LStr [72; 111; 115; 116; 109; 97; 115; 107; 58; 32]%N;
   LStr [64]%N;
   LStr [10; 9]%N;
   LStr [82; 101; 97; 108; 32; 78; 97; 109; 101; 58; 32]%N;
   LStr [10; 9]%N;
   LStr [77; 111; 100; 101; 115; 58; 32]%N;
   LStr [10; 9]%N;
   LStr [67; 104; 97; 110; 110; 101; 108; 115; 58; 32; 10]%N;
   LStr [9; 9]%N;
   LStr [58; 32]%N;
   LStr [10]%N].
Definition lits_state_NickMode_Copy : list lit :=
  [].
Definition lits_state_NickMode_Equals : list lit :=
  [].
Definition lits_state_NickMode_String : list lit :=
  [LStr [78; 111; 32; 109; 111; 100; 101; 115; 32; 115; 101; 116]%N;
   LStr [43]%N;
   LInt (0);
   LInt (1);
   LStr [43]%N;
   LStr [78; 111; 32; 109; 111; 100; 101; 115; 32; 115; 101; 116]%N].
Definition lits_state__MockTrackerRecorder_Associate : list lit :=
  [LStr [65; 115; 115; 111; 99; 105; 97; 116; 101]%N].
Definition lits_state__MockTrackerRecorder_ChannelModes : list lit :=
  [LStr [67; 104; 97; 110; 110; 101; 108; 77; 111; 100; 101; 115]%N].
Definition lits_state__MockTrackerRecorder_DelChannel : list lit :=
  [LStr [68; 101; 108; 67; 104; 97; 110; 110; 101; 108]%N].
Definition lits_state__MockTrackerRecorder_DelNick : list lit :=
  [LStr [68; 101; 108; 78; 105; 99; 107]%N].
Definition lits_state__MockTrackerRecorder_Dissociate : list lit :=
  [LStr [68; 105; 115; 115; 111; 99; 105; 97; 116; 101]%N].
Definition lits_state__MockTrackerRecorder_GetChannel : list lit :=
  [LStr [71; 101; 116; 67; 104; 97; 110; 110; 101; 108]%N].
Definition lits_state__MockTrackerRecorder_GetNick : list lit :=
  [LStr [71; 101; 116; 78; 105; 99; 107]%N].
Definition lits_state__MockTrackerRecorder_IsOn : list lit :=
  [LStr [73; 115; 79; 110]%N].
Definition lits_state__MockTrackerRecorder_Me : list lit :=
  [LStr [77; 101]%N].
Definition lits_state__MockTrackerRecorder_NewChannel : list lit :=
  [LStr [78; 101; 119; 67; 104; 97; 110; 110; 101; 108]%N].
Definition lits_state__MockTrackerRecorder_NewNick : list lit :=
  [LStr [78; 101; 119; 78; 105; 99; 107]%N].
Definition lits_state__MockTrackerRecorder_NickInfo : list lit :=
  [LStr [78; 105; 99; 107; 73; 110; 102; 111]%N].
Definition lits_state__MockTrackerRecorder_NickModes : list lit :=
  [LStr [78; 105; 99; 107; 77; 111; 100; 101; 115]%N].
Definition lits_state__MockTrackerRecorder_ReNick : list lit :=
  [LStr [82; 101; 78; 105; 99; 107]%N].
Definition lits_state__MockTrackerRecorder_String : list lit :=
  [LStr [83; 116; 114; 105; 110; 103]%N].
Definition lits_state__MockTrackerRecorder_Topic : list lit :=
  [LStr [84; 111; 112; 105; 99]%N].
Definition lits_state__MockTrackerRecorder_Wipe : list lit :=
  [LStr [87; 105; 112; 101]%N].
Definition lits_state_channel_Channel : list lit :=
  [].
Definition lits_state_channel_String : list lit :=
  [].
Definition lits_state_channel_addNick : list lit :=
  [LStr [67; 104; 97; 110; 110; 101; 108; 46; 97; 100; 100; 78; 105; 99; 107; 40; 41; 58; 32; 37; 115; 32; 97; 108; 114; 101; 97; 100; 121; 32; 111; 110; 32; 37; 115; 46]%N].
Definition lits_state_channel_delNick : list lit :=
  [LStr [67; 104; 97; 110; 110; 101; 108; 46; 100; 101; 108; 78; 105; 99; 107; 40; 41; 58; 32; 37; 115; 32; 110; 111; 116; 32; 111; 110; 32; 37; 115; 46]%N].
Definition lits_state_channel_isOn : list lit :=
  [].
Definition lits_state_channel_parseModes : list lit :=
  [LInt (0);
   LInt (43);
   LBool true;
   LInt (45);
   LBool false;
   LInt (105);
   LInt (109);
   LInt (110);
   LInt (112);
   LInt (114);
   LInt (115);
   LInt (116);
   LInt (122);
   LInt (90);
   LInt (79);
   LInt (107);
   LInt (0);
   LInt (0);
   LInt (1);
   LStr []%N;
   LStr [67; 104; 97; 110; 110; 101; 108; 46; 80; 97; 114; 115; 101; 77; 111; 100; 101; 115; 40; 41; 58; 32; 110; 111; 116; 32; 101; 110; 111; 117; 103; 104; 32; 97; 114; 103; 117; 109; 101; 110; 116; 115; 32; 116; 111; 32; 112; 114; 111; 99; 101; 115; 115; 32; 77; 79; 68; 69; 32; 37; 115; 32; 37; 115; 37; 99]%N;
   LInt (108);
   LInt (0);
   LInt (0);
   LInt (1);
   LInt (0);
   LStr [67; 104; 97; 110; 110; 101; 108; 46; 80; 97; 114; 115; 101; 77; 111; 100; 101; 115; 40; 41; 58; 32; 110; 111; 116; 32; 101; 110; 111; 117; 103; 104; 32; 97; 114; 103; 117; 109; 101; 110; 116; 115; 32; 116; 111; 32; 112; 114; 111; 99; 101; 115; 115; 32; 77; 79; 68; 69; 32; 37; 115; 32; 37; 115; 37; 99]%N;
   LInt (98);
   LInt (101);
   LInt (73);
   LInt (0);
   LInt (1);
   LInt (113);
   LInt (97);
   LInt (111);
   LInt (104);
   LInt (118);
   LInt (0);
   LInt (0);
   LInt (113);
   LInt (97);
   LInt (111);
   LInt (104);
   LInt (118);
   LInt (1);
   LStr [67; 104; 97; 110; 110; 101; 108; 46; 80; 97; 114; 115; 101; 77; 111; 100; 101; 115; 40; 41; 58; 32; 117; 110; 116; 114; 97; 99; 107; 101; 100; 32; 110; 105; 99; 107; 32; 37; 115; 32; 114; 101; 99; 101; 105; 118; 101; 100; 32; 77; 79; 68; 69; 32; 111; 110; 32; 99; 104; 97; 110; 110; 101; 108; 32; 37; 115]%N;
   LInt (0);
   LStr [67; 104; 97; 110; 110; 101; 108; 46; 80; 97; 114; 115; 101; 77; 111; 100; 101; 115; 40; 41; 58; 32; 110; 111; 116; 32; 101; 110; 111; 117; 103; 104; 32; 97; 114; 103; 117; 109; 101; 110; 116; 115; 32; 116; 111; 32; 112; 114; 111; 99; 101; 115; 115; 32; 77; 79; 68; 69; 32; 37; 115; 32; 37; 115; 37; 99]%N;
   LStr [67; 104; 97; 110; 110; 101; 108; 46; 80; 97; 114; 115; 101; 77; 111; 100; 101; 115; 40; 41; 58; 32; 117; 110; 107; 110; 111; 119; 110; 32; 109; 111; 100; 101; 32; 99; 104; 97; 114; 32; 37; 99]%N].
Definition lits_state_init : list lit :=
  [].
Definition lits_state_newChannel : list lit :=
  [].
Definition lits_state_newNick : list lit :=
  [].
Definition lits_state_nick_Nick : list lit :=
  [].
Definition lits_state_nick_String : list lit :=
  [].
Definition lits_state_nick_addChannel : list lit :=
  [LStr [78; 105; 99; 107; 46; 97; 100; 100; 67; 104; 97; 110; 110; 101; 108; 40; 41; 58; 32; 37; 115; 32; 97; 108; 114; 101; 97; 100; 121; 32; 111; 110; 32; 37; 115; 46]%N].
Definition lits_state_nick_delChannel : list lit :=
  [LStr [78; 105; 99; 107; 46; 100; 101; 108; 67; 104; 97; 110; 110; 101; 108; 40; 41; 58; 32; 37; 115; 32; 110; 111; 116; 32; 111; 110; 32; 37; 115; 46]%N].
Definition lits_state_nick_isOn : list lit :=
  [].
Definition lits_state_nick_parseModes : list lit :=
  [LInt (0);
   LInt (43);
   LBool true;
   LInt (45);
   LBool false;
   LInt (66);
   LInt (105);
   LInt (111);
   LInt (119);
   LInt (120);
   LInt (122);
   LStr [78; 105; 99; 107; 46; 80; 97; 114; 115; 101; 77; 111; 100; 101; 115; 40; 41; 58; 32; 117; 110; 107; 110; 111; 119; 110; 32; 109; 111; 100; 101; 32; 99; 104; 97; 114; 32; 37; 99]%N].
Definition lits_state_stateTracker_Associate : list lit :=
  [LStr [84; 114; 97; 99; 107; 101; 114; 46; 65; 115; 115; 111; 99; 105; 97; 116; 101; 40; 41; 58; 32; 99; 104; 97; 110; 110; 101; 108; 32; 37; 115; 32; 110; 111; 116; 32; 102; 111; 117; 110; 100; 32; 105; 110; 32; 105; 110; 116; 101; 114; 110; 97; 108; 32; 115; 116; 97; 116; 101; 46]%N;
   LStr [84; 114; 97; 99; 107; 101; 114; 46; 65; 115; 115; 111; 99; 105; 97; 116; 101; 40; 41; 58; 32; 110; 105; 99; 107; 32; 37; 115; 32; 110; 111; 116; 32; 102; 111; 117; 110; 100; 32; 105; 110; 32; 105; 110; 116; 101; 114; 110; 97; 108; 32; 115; 116; 97; 116; 101; 46]%N;
   LStr [84; 114; 97; 99; 107; 101; 114; 46; 65; 115; 115; 111; 99; 105; 97; 116; 101; 40; 41; 58; 32; 37; 115; 32; 97; 108; 114; 101; 97; 100; 121; 32; 111; 110; 32; 37; 115; 46]%N].
Definition lits_state_stateTracker_ChannelModes : list lit :=
  [].
Definition lits_state_stateTracker_DelChannel : list lit :=
  [LStr [84; 114; 97; 99; 107; 101; 114; 46; 68; 101; 108; 67; 104; 97; 110; 110; 101; 108; 40; 41; 58; 32; 37; 115; 32; 110; 111; 116; 32; 116; 114; 97; 99; 107; 101; 100; 46]%N].
Definition lits_state_stateTracker_DelNick : list lit :=
  [LStr [84; 114; 97; 99; 107; 101; 114; 46; 68; 101; 108; 78; 105; 99; 107; 40; 41; 58; 32; 119; 111; 110; 39; 116; 32; 100; 101; 108; 101; 116; 101; 32; 109; 121; 115; 101; 108; 102; 46]%N;
   LStr [84; 114; 97; 99; 107; 101; 114; 46; 68; 101; 108; 78; 105; 99; 107; 40; 41; 58; 32; 37; 115; 32; 110; 111; 116; 32; 116; 114; 97; 99; 107; 101; 100; 46]%N].
Definition lits_state_stateTracker_Dissociate : list lit :=
  [LStr [84; 114; 97; 99; 107; 101; 114; 46; 68; 105; 115; 115; 111; 99; 105; 97; 116; 101; 40; 41; 58; 32; 99; 104; 97; 110; 110; 101; 108; 32; 37; 115; 32; 110; 111; 116; 32; 102; 111; 117; 110; 100; 32; 105; 110; 32; 105; 110; 116; 101; 114; 110; 97; 108; 32; 115; 116; 97; 116; 101; 46]%N;
   LStr [84; 114; 97; 99; 107; 101; 114; 46; 68; 105; 115; 115; 111; 99; 105; 97; 116; 101; 40; 41; 58; 32; 110; 105; 99; 107; 32; 37; 115; 32; 110; 111; 116; 32; 102; 111; 117; 110; 100; 32; 105; 110; 32; 105; 110; 116; 101; 114; 110; 97; 108; 32; 115; 116; 97; 116; 101; 46]%N;
   LStr [84; 114; 97; 99; 107; 101; 114; 46; 68; 105; 115; 115; 111; 99; 105; 97; 116; 101; 40; 41; 58; 32; 37; 115; 32; 110; 111; 116; 32; 111; 110; 32; 37; 115; 46]%N;
   LInt (0)].
Definition lits_state_stateTracker_GetChannel : list lit :=
  [].
Definition lits_state_stateTracker_GetNick : list lit :=
  [].
Definition lits_state_stateTracker_IsOn : list lit :=
  [LBool false].
Definition lits_state_stateTracker_Me : list lit :=
  [].
Definition lits_state_stateTracker_NewChannel : list lit :=
  [LStr []%N;
   LStr [84; 114; 97; 99; 107; 101; 114; 46; 78; 101; 119; 67; 104; 97; 110; 110; 101; 108; 40; 41; 58; 32; 78; 111; 116; 32; 116; 114; 97; 99; 107; 105; 110; 103; 32; 101; 109; 112; 116; 121; 32; 99; 104; 97; 110; 110; 101; 108; 46]%N;
   LStr [84; 114; 97; 99; 107; 101; 114; 46; 78; 101; 119; 67; 104; 97; 110; 110; 101; 108; 40; 41; 58; 32; 37; 115; 32; 97; 108; 114; 101; 97; 100; 121; 32; 116; 114; 97; 99; 107; 101; 100; 46]%N].
Definition lits_state_stateTracker_NewNick : list lit :=
  [LStr []%N;
   LStr [84; 114; 97; 99; 107; 101; 114; 46; 78; 101; 119; 78; 105; 99; 107; 40; 41; 58; 32; 78; 111; 116; 32; 116; 114; 97; 99; 107; 105; 110; 103; 32; 101; 109; 112; 116; 121; 32; 110; 105; 99; 107; 46]%N;
   LStr [84; 114; 97; 99; 107; 101; 114; 46; 78; 101; 119; 78; 105; 99; 107; 40; 41; 58; 32; 37; 115; 32; 97; 108; 114; 101; 97; 100; 121; 32; 116; 114; 97; 99; 107; 101; 100; 46]%N].
Definition lits_state_stateTracker_NickInfo : list lit :=
  [].
Definition lits_state_stateTracker_NickModes : list lit :=
  [].
Definition lits_state_stateTracker_ReNick : list lit :=
  [LStr [84; 114; 97; 99; 107; 101; 114; 46; 82; 101; 78; 105; 99; 107; 40; 41; 58; 32; 37; 115; 32; 110; 111; 116; 32; 116; 114; 97; 99; 107; 101; 100; 46]%N;
   LStr [84; 114; 97; 99; 107; 101; 114; 46; 82; 101; 78; 105; 99; 107; 40; 41; 58; 32; 37; 115; 32; 97; 108; 114; 101; 97; 100; 121; 32; 101; 120; 105; 115; 116; 115; 46]%N].
Definition lits_state_stateTracker_String : list lit :=
  [LStr [71; 111; 73; 82; 67; 32; 67; 104; 97; 110; 110; 101; 108; 115; 10]%N;
   LStr [45; 45; 45; 45; 45; 45; 45; 45; 45; 45; 45; 45; 45; 45; 10; 10]%N;
   LStr [10]%N;
   LStr [71; 111; 73; 82; 67; 32; 78; 105; 99; 107; 78; 97; 109; 101; 115; 10]%N;
   LStr [45; 45; 45; 45; 45; 45; 45; 45; 45; 45; 45; 45; 45; 45; 45; 10; 10]%N;
   LStr [10]%N].
Definition lits_state_stateTracker_Topic : list lit :=
  [].
Definition lits_state_stateTracker_Wipe : list lit :=
  [].
Definition lits_state_stateTracker_delChannel : list lit :=
  [LInt (0)].
Definition lits_state_stateTracker_delNick : list lit :=
  [LStr [84; 114; 97; 99; 107; 101; 114; 46; 68; 101; 108; 78; 105; 99; 107; 40; 41; 58; 32; 84; 82; 89; 73; 78; 71; 32; 84; 79; 32; 68; 69; 76; 69; 84; 69; 32; 77; 69; 32; 58; 45; 40]%N;
   LInt (0);
   LStr [84; 114; 97; 99; 107; 101; 114; 46; 100; 101; 108; 78; 105; 99; 107; 40; 41; 58; 32; 100; 101; 108; 101; 116; 105; 110; 103; 32; 110; 105; 99; 107; 32; 37; 115; 32; 101; 109; 112; 116; 105; 101; 100; 32; 99; 104; 97; 110; 110; 101; 108; 32; 37; 115; 44; 32; 116; 104; 105; 115; 32; 115; 104; 111; 117; 108; 100; 110; 39; 116; 32; 104; 97; 112; 112; 101; 110; 33]%N].
Definition varlits_client_intHandlers : list lit :=
  [LStr [82; 69; 71; 73; 83; 84; 69; 82]%N;
   LStr [48; 48; 49]%N;
   LStr [52; 51; 51]%N;
   LStr [67; 84; 67; 80]%N;
   LStr [78; 73; 67; 75]%N;
   LStr [80; 73; 78; 71]%N;
   LStr [67; 65; 80]%N;
   LStr [52; 49; 48]%N;
   LStr [65; 85; 84; 72; 69; 78; 84; 73; 67; 65; 84; 69]%N;
   LStr [57; 48; 51]%N;
   LStr [57; 48; 52]%N;
   LStr [57; 48; 56]%N].
Definition varlits_client_defaultCaps : list lit :=
  [].
Definition varlits_client_tagsReplacer : list lit :=
  [LStr [92; 58]%N;
   LStr [59]%N;
   LStr [92; 115]%N;
   LStr [32]%N;
   LStr [92; 92]%N;
   LStr [92]%N;
   LStr [92; 114]%N;
   LStr [13]%N;
   LStr [92; 110]%N;
   LStr [10]%N].
Definition varlits_client_stHandlers : list lit :=
  [LStr [74; 79; 73; 78]%N;
   LStr [75; 73; 67; 75]%N;
   LStr [77; 79; 68; 69]%N;
   LStr [78; 73; 67; 75]%N;
   LStr [80; 65; 82; 84]%N;
   LStr [81; 85; 73; 84]%N;
   LStr [84; 79; 80; 73; 67]%N;
   LStr [51; 49; 49]%N;
   LStr [51; 50; 52]%N;
   LStr [51; 51; 50]%N;
   LStr [51; 53; 50]%N;
   LStr [51; 53; 51]%N;
   LStr [54; 55; 49]%N].
Definition varlits_state_StringToChanMode : list lit :=
  [].
Definition varlits_state_ChanModeToString : list lit :=
  [LStr [80; 114; 105; 118; 97; 116; 101]%N;
   LStr [112]%N;
   LStr [83; 101; 99; 114; 101; 116]%N;
   LStr [115]%N;
   LStr [80; 114; 111; 116; 101; 99; 116; 101; 100; 84; 111; 112; 105; 99]%N;
   LStr [116]%N;
   LStr [78; 111; 69; 120; 116; 101; 114; 110; 97; 108; 77; 115; 103]%N;
   LStr [110]%N;
   LStr [77; 111; 100; 101; 114; 97; 116; 101; 100]%N;
   LStr [109]%N;
   LStr [73; 110; 118; 105; 116; 101; 79; 110; 108; 121]%N;
   LStr [105]%N;
   LStr [79; 112; 101; 114; 79; 110; 108; 121]%N;
   LStr [79]%N;
   LStr [83; 83; 76; 79; 110; 108; 121]%N;
   LStr [122]%N;
   LStr [82; 101; 103; 105; 115; 116; 101; 114; 101; 100]%N;
   LStr [114]%N;
   LStr [65; 108; 108; 83; 83; 76]%N;
   LStr [90]%N;
   LStr [75; 101; 121]%N;
   LStr [107]%N;
   LStr [76; 105; 109; 105; 116]%N;
   LStr [108]%N].
Definition varlits_state_StringToChanPriv : list lit :=
  [].
Definition varlits_state_ChanPrivToString : list lit :=
  [LStr [79; 119; 110; 101; 114]%N;
   LStr [113]%N;
   LStr [65; 100; 109; 105; 110]%N;
   LStr [97]%N;
   LStr [79; 112]%N;
   LStr [111]%N;
   LStr [72; 97; 108; 102; 79; 112]%N;
   LStr [104]%N;
   LStr [86; 111; 105; 99; 101]%N;
   LStr [118]%N].
Definition varlits_state_ModeCharToChanPriv : list lit :=
  [].
Definition varlits_state_ChanPrivToModeChar : list lit :=
  [LStr [79; 119; 110; 101; 114]%N;
   LInt (126);
   LStr [65; 100; 109; 105; 110]%N;
   LInt (38);
   LStr [79; 112]%N;
   LInt (64);
   LStr [72; 97; 108; 102; 79; 112]%N;
   LInt (37);
   LStr [86; 111; 105; 99; 101]%N;
   LInt (43)].
Definition varlits_state_StringToNickMode : list lit :=
  [].
Definition varlits_state_NickModeToString : list lit :=
  [LStr [66; 111; 116]%N;
   LStr [66]%N;
   LStr [73; 110; 118; 105; 115; 105; 98; 108; 101]%N;
   LStr [105]%N;
   LStr [79; 112; 101; 114]%N;
   LStr [111]%N;
   LStr [87; 97; 108; 108; 79; 112; 115]%N;
   LStr [119]%N;
   LStr [72; 105; 100; 100; 101; 110; 72; 111; 115; 116]%N;
   LStr [120]%N;
   LStr [83; 83; 76]%N;
   LStr [122]%N].
