(* GENERATED from the Go source by /verif/translator (go2coq2.go: lockFacts) on every check run — do not edit.
   lock_panic_sites_<pkg>: (function, statement) pairs: a statement that can panic (conservatively:
   index on a non-map, slice expression, unchecked type assertion, panic(), division, call of a
   translated function) executed while a mutex locked in the SAME function is held without a
   deferred unlock. *)
From Coq Require Import String List.
Import ListNotations.
Local Open Scope string_scope.

Definition lock_panic_sites_client : list (string * string) :=
  [("capSet.Add", "c.caps[cap[1:]] = false");
   ("capSet.Intersect", "!other.Has(cap)")].

Definition lock_panic_sites_state : list (string * string) :=
  [].

