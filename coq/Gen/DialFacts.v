(* GENERATED from the Go source by /verif/translator (go2coq2.go: dialFacts) on every check run — do not edit.
   dial_sites_client: every call of a method Dial / DialContext / DialTimeout in package client:
   (function, callee, address argument = the last argument).  server_writes_client: every assignment
   to a field path ending in cfg.Server: (function, right-hand side).  dial_seq_client: for the function
   with the top-level if-statement on hasPort, in source order: that statement (addr, condition), the dial
   calls (dial, callee) and the calls of package functions that contain a dial call (call, callee). *)
From Coq Require Import String List.
Import ListNotations.
Local Open Scope string_scope.

Definition dial_sites_client : list (string * string * string) :=
  [("Conn.dialProxy", "contextProxyDialer.DialContext", "conn.cfg.Server");
   ("Conn.dialProxy", "conn.proxyDialer.Dial", "conn.cfg.Server");
   ("Conn.internalConnect", "conn.dialer.DialContext", "conn.cfg.Server")].

Definition server_writes_client : list (string * string) :=
  [("Conn.ConnectToContext", "host");
   ("Conn.internalConnect", "net.JoinHostPort(conn.cfg.Server, ""6697"")");
   ("Conn.internalConnect", "net.JoinHostPort(conn.cfg.Server, ""6667"")")].

Definition dial_seq_client : list (string * string) :=
  [("addr", "!hasPort(conn.cfg.Server)");
   ("call", "conn.dialProxy");
   ("dial", "conn.dialer.DialContext")].

